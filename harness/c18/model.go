// Package c18 checks that encoding/asn1 marshalling round-trips and is
// idempotent (property C18) over randomly generated Go struct types
// (reflect.StructOf) and random values of those types.
package c18

import (
	"fmt"
	"math/big"
	"reflect"
	"sort"
	"strconv"
	"strings"
	"time"

	"github.com/zmap/zcrypto/encoding/asn1"
)

// TNode describes a Go type together with the asn1 field parameters it is
// used with.
type TNode struct {
	K   string  `json:"k"`             // int int32 int64 big bool str bytes oid bits time enum flag raw struct slice named
	P   string  `json:"p,omitempty"`   // asn1 parameters (struct tag of the field, or top-level params)
	F   []TNode `json:"f,omitempty"`   // struct: fields; slice: the element type
	Raw bool    `json:"raw,omitempty"` // struct: the first field is an asn1.RawContent
	N   string  `json:"n,omitempty"`   // named: member of the fixed family of named ...SET slice types
	U   bool    `json:"u,omitempty"`   // raw without tag parameters: any class/tag may be used (no OPTIONAL field precedes it)
}

// VNode is a value of a TNode.
type VNode struct {
	I    int64   `json:"i,omitempty"`    // integers, enum, bool/flag (0/1); bits: BitLength; raw: tag
	S    string  `json:"s,omitempty"`    // str; big: decimal
	B    []byte  `json:"b,omitempty"`    // bytes, bits, raw content
	A    []int   `json:"a,omitempty"`    // oid arcs
	T    int64   `json:"t,omitempty"`    // time: unix seconds
	Off  int     `json:"off,omitempty"`  // time: zone offset in minutes
	C    int     `json:"c,omitempty"`    // raw: class
	Cmp  bool    `json:"cmp,omitempty"`  // raw: constructed
	Full bool    `json:"full,omitempty"` // raw: FullBytes is supplied (consistent with the other fields)
	Nil  bool    `json:"nil,omitempty"`  // nil pointer / nil slice
	E    []VNode `json:"e,omitempty"`    // struct fields / slice elements
}

type Case struct {
	T  TNode   `json:"t"`
	Vs []VNode `json:"vs"`
}

// ---------------------------------------------------------------------------
// field parameters (own parser, same grammar as the struct tags)

type opts struct {
	optional, explicit, application, private, set, omitempty bool
	def                                                      *int64
	tag                                                      int // -1: none
	strType, timeType                                        string
}

func parseOpts(p string) opts {
	o := opts{tag: -1}
	for _, part := range strings.Split(p, ",") {
		switch {
		case part == "optional":
			o.optional = true
		case part == "explicit":
			o.explicit = true
		case part == "application":
			o.application = true
		case part == "private":
			o.private = true
		case part == "set":
			o.set = true
		case part == "omitempty":
			o.omitempty = true
		case part == "ia5", part == "printable", part == "numeric", part == "utf8":
			o.strType = part
		case part == "utc", part == "generalized":
			o.timeType = part
		case strings.HasPrefix(part, "default:"):
			if v, err := strconv.ParseInt(part[8:], 10, 64); err == nil {
				o.def = &v
			}
		case strings.HasPrefix(part, "tag:"):
			if v, err := strconv.Atoi(part[4:]); err == nil {
				o.tag = v
			}
		}
	}
	return o
}

func (o opts) String() string {
	var parts []string
	add := func(c bool, s string) {
		if c {
			parts = append(parts, s)
		}
	}
	add(o.optional, "optional")
	if o.def != nil {
		parts = append(parts, fmt.Sprintf("default:%d", *o.def))
	}
	add(o.explicit, "explicit")
	if o.tag >= 0 {
		parts = append(parts, fmt.Sprintf("tag:%d", o.tag))
	}
	add(o.application, "application")
	add(o.private, "private")
	add(o.set, "set")
	add(o.omitempty, "omitempty")
	add(o.strType != "", o.strType)
	add(o.timeType != "", o.timeType)
	return strings.Join(parts, ",")
}

func (o opts) class() int {
	switch {
	case o.tag < 0:
		return 0
	case o.application:
		return 1
	case o.private:
		return 3
	}
	return 2
}

// nOptions counts the tagging options of one field (non-trivial rule).
func (o opts) nOptions() int {
	n := 0
	for _, b := range []bool{o.optional, o.explicit, o.application, o.private, o.set, o.omitempty, o.def != nil, o.tag >= 0, o.strType != "", o.timeType != ""} {
		if b {
			n++
		}
	}
	return n
}

// ---------------------------------------------------------------------------
// fixed family of named SET types (reflect cannot create named types)

type IntSET []int
type StrSET []string
type BytesSET [][]byte
type OIDSET []asn1.ObjectIdentifier
type Pair struct {
	A int
	B string `asn1:"utf8"`
}
type PairSET []Pair
type NestSET []IntSET

type namedType struct {
	typ  reflect.Type
	elem TNode
}

var family = map[string]namedType{
	"IntSET":   {reflect.TypeOf(IntSET(nil)), TNode{K: "int"}},
	"StrSET":   {reflect.TypeOf(StrSET(nil)), TNode{K: "str"}},
	"BytesSET": {reflect.TypeOf(BytesSET(nil)), TNode{K: "bytes"}},
	"OIDSET":   {reflect.TypeOf(OIDSET(nil)), TNode{K: "oid"}},
	"PairSET":  {reflect.TypeOf(PairSET(nil)), TNode{K: "struct", F: []TNode{{K: "int"}, {K: "str", P: "utf8"}}}},
	"NestSET":  {reflect.TypeOf(NestSET(nil)), TNode{K: "named", N: "IntSET"}},
}
var familyNames = []string{"IntSET", "StrSET", "PairSET", "BytesSET", "OIDSET", "NestSET"}

func elemOf(t TNode) TNode {
	if t.K == "named" {
		return family[t.N].elem
	}
	return t.F[0]
}

// ---------------------------------------------------------------------------
// Go types and values

var (
	tInt     = reflect.TypeOf(int(0))
	tInt32   = reflect.TypeOf(int32(0))
	tInt64   = reflect.TypeOf(int64(0))
	tBig     = reflect.TypeOf((*big.Int)(nil))
	tBool    = reflect.TypeOf(false)
	tStr     = reflect.TypeOf("")
	tBytes   = reflect.TypeOf([]byte(nil))
	tOID     = reflect.TypeOf(asn1.ObjectIdentifier(nil))
	tBits    = reflect.TypeOf(asn1.BitString{})
	tTime    = reflect.TypeOf(time.Time{})
	tEnum    = reflect.TypeOf(asn1.Enumerated(0))
	tFlag    = reflect.TypeOf(asn1.Flag(false))
	tRaw     = reflect.TypeOf(asn1.RawValue{})
	tRawCont = reflect.TypeOf(asn1.RawContent(nil))
)

func goType(t TNode) reflect.Type {
	switch t.K {
	case "int":
		return tInt
	case "int32":
		return tInt32
	case "int64":
		return tInt64
	case "big":
		return tBig
	case "bool":
		return tBool
	case "str":
		return tStr
	case "bytes":
		return tBytes
	case "oid":
		return tOID
	case "bits":
		return tBits
	case "time":
		return tTime
	case "enum":
		return tEnum
	case "flag":
		return tFlag
	case "raw":
		return tRaw
	case "named":
		return family[t.N].typ
	case "slice":
		return reflect.SliceOf(goType(t.F[0]))
	case "struct":
		var fs []reflect.StructField
		if t.Raw {
			fs = append(fs, reflect.StructField{Name: "Raw", Type: tRawCont})
		}
		for i, f := range t.F {
			sf := reflect.StructField{Name: fmt.Sprintf("F%d", i), Type: goType(f)}
			if f.P != "" {
				sf.Tag = reflect.StructTag(`asn1:"` + f.P + `"`)
			}
			fs = append(fs, sf)
		}
		return reflect.StructOf(fs)
	}
	panic("c18: unknown kind " + t.K)
}

func (v VNode) time() time.Time {
	t := time.Unix(v.T, 0)
	if v.Off == 0 {
		return t.UTC()
	}
	return t.In(time.FixedZone("", v.Off*60))
}

func derHeader(class, tag int, compound bool, n int) []byte {
	first := byte(class) << 6
	if compound {
		first |= 0x20
	}
	var out []byte
	if tag < 31 {
		out = append(out, first|byte(tag))
	} else {
		out = append(out, first|0x1f)
		var tmp []byte
		tmp = append(tmp, byte(tag&0x7f))
		for x := tag >> 7; x > 0; x >>= 7 {
			tmp = append(tmp, byte(x&0x7f)|0x80)
		}
		for i := len(tmp) - 1; i >= 0; i-- {
			out = append(out, tmp[i])
		}
	}
	switch {
	case n < 0x80:
		out = append(out, byte(n))
	case n <= 0xff:
		out = append(out, 0x81, byte(n))
	case n <= 0xffff:
		out = append(out, 0x82, byte(n>>8), byte(n))
	default:
		out = append(out, 0x83, byte(n>>16), byte(n>>8), byte(n))
	}
	return out
}

// fill sets the addressable value rv (of type goType(t)) to v.
func fill(rv reflect.Value, t TNode, v VNode) {
	switch t.K {
	case "int", "int32", "int64", "enum":
		rv.SetInt(v.I)
	case "big":
		if !v.Nil {
			n, _ := new(big.Int).SetString(v.S, 10)
			rv.Set(reflect.ValueOf(n))
		}
	case "bool", "flag":
		rv.SetBool(v.I != 0)
	case "str":
		rv.SetString(v.S)
	case "bytes":
		if !v.Nil {
			rv.SetBytes(append([]byte{}, v.B...))
		}
	case "oid":
		if v.A != nil {
			rv.Set(reflect.ValueOf(asn1.ObjectIdentifier(append([]int{}, v.A...))))
		}
	case "bits":
		if !v.Nil {
			rv.Set(reflect.ValueOf(asn1.BitString{Bytes: append([]byte{}, v.B...), BitLength: int(v.I)}))
		}
	case "time":
		rv.Set(reflect.ValueOf(v.time()))
	case "raw":
		if v.Nil {
			return
		}
		r := asn1.RawValue{Class: v.C, Tag: int(v.I), IsCompound: v.Cmp, Bytes: append([]byte{}, v.B...)}
		if v.Full {
			r.FullBytes = append(derHeader(v.C, int(v.I), v.Cmp, len(v.B)), v.B...)
		}
		rv.Set(reflect.ValueOf(r))
	case "struct":
		off := 0
		if t.Raw {
			off = 1
		}
		for i, f := range t.F {
			fill(rv.Field(i+off), f, v.E[i])
		}
	case "slice", "named":
		if v.Nil {
			return
		}
		et := elemOf(t)
		s := reflect.MakeSlice(rv.Type(), len(v.E), len(v.E))
		for i := range v.E {
			fill(s.Index(i), et, v.E[i])
		}
		rv.Set(s)
	default:
		panic("c18: unknown kind " + t.K)
	}
}

// ---------------------------------------------------------------------------
// normal forms: equality "sets up to order, times up to the second", nil and
// empty slices identified, RawValue.FullBytes and RawContent ignored.

func isSet(t TNode) bool {
	return t.K == "named" || t.K == "slice" && parseOpts(t.P).set
}

func normV(t TNode, v VNode) string {
	switch t.K {
	case "int", "int32", "int64", "enum":
		return fmt.Sprintf("i%d", v.I)
	case "big":
		if v.Nil {
			return "g-nil"
		}
		n, _ := new(big.Int).SetString(v.S, 10)
		return "g" + n.String()
	case "bool", "flag":
		return fmt.Sprintf("b%v", v.I != 0)
	case "str":
		return fmt.Sprintf("s%q", v.S)
	case "bytes":
		return fmt.Sprintf("y%x", v.B)
	case "oid":
		return fmt.Sprintf("o%v", append([]int{}, v.A...))
	case "bits":
		return fmt.Sprintf("t%x/%d", v.B, v.I)
	case "time":
		return fmt.Sprintf("T%d", v.T)
	case "raw":
		return fmt.Sprintf("r%d/%d/%v/%x", v.C, v.I, v.Cmp, v.B)
	case "struct":
		parts := make([]string, len(t.F))
		for i, f := range t.F {
			parts[i] = normV(f, v.E[i])
		}
		return "{" + strings.Join(parts, ",") + "}"
	case "slice", "named":
		et := elemOf(t)
		parts := make([]string, len(v.E))
		for i := range v.E {
			parts[i] = normV(et, v.E[i])
		}
		if isSet(t) {
			sort.Strings(parts)
		}
		return "[" + strings.Join(parts, ",") + "]"
	}
	panic("c18: unknown kind " + t.K)
}

func normR(t TNode, rv reflect.Value) string {
	switch t.K {
	case "int", "int32", "int64", "enum":
		return fmt.Sprintf("i%d", rv.Int())
	case "big":
		if rv.IsNil() {
			return "g-nil"
		}
		return "g" + rv.Interface().(*big.Int).String()
	case "bool", "flag":
		return fmt.Sprintf("b%v", rv.Bool())
	case "str":
		return fmt.Sprintf("s%q", rv.String())
	case "bytes":
		return fmt.Sprintf("y%x", rv.Bytes())
	case "oid":
		return fmt.Sprintf("o%v", append([]int{}, rv.Interface().(asn1.ObjectIdentifier)...))
	case "bits":
		b := rv.Interface().(asn1.BitString)
		return fmt.Sprintf("t%x/%d", b.Bytes, b.BitLength)
	case "time":
		return fmt.Sprintf("T%d", rv.Interface().(time.Time).Unix())
	case "raw":
		r := rv.Interface().(asn1.RawValue)
		return fmt.Sprintf("r%d/%d/%v/%x", r.Class, r.Tag, r.IsCompound, r.Bytes)
	case "struct":
		off := 0
		if t.Raw {
			off = 1
		}
		parts := make([]string, len(t.F))
		for i, f := range t.F {
			parts[i] = normR(f, rv.Field(i+off))
		}
		return "{" + strings.Join(parts, ",") + "}"
	case "slice", "named":
		et := elemOf(t)
		parts := make([]string, rv.Len())
		for i := range parts {
			parts[i] = normR(et, rv.Index(i))
		}
		if isSet(t) {
			sort.Strings(parts)
		}
		return "[" + strings.Join(parts, ",") + "]"
	}
	panic("c18: unknown kind " + t.K)
}

// ---------------------------------------------------------------------------
// which element heads can a field emit / accept (used by the generator to keep
// OPTIONAL fields unambiguous, as any ASN.1 module must)

type head struct {
	class    int
	tags     []int // possible tag numbers
	reserved bool  // untagged RawValue: its values use class/tag pairs no other field emits or accepts (see genRaw)
}

func universalTags(t TNode, o opts, emit bool) []int {
	if o.set || t.K == "named" {
		return []int{17}
	}
	switch t.K {
	case "int", "int32", "int64", "big":
		return []int{2}
	case "enum":
		return []int{10}
	case "bool", "flag":
		return []int{1}
	case "str":
		if !emit {
			return []int{12, 18, 19, 20, 22, 27, 30}
		}
		switch o.strType {
		case "ia5":
			return []int{22}
		case "printable":
			return []int{19}
		case "numeric":
			return []int{18}
		case "utf8":
			return []int{12}
		}
		return []int{19, 12}
	case "bytes":
		return []int{4}
	case "oid":
		return []int{6}
	case "bits":
		return []int{3}
	case "time":
		return []int{23, 24}
	case "struct", "slice":
		return []int{16}
	}
	return nil
}

// emitted is the set of heads field t can put on the wire.
func emitted(t TNode) head {
	o := parseOpts(t.P)
	if o.tag >= 0 {
		return head{class: o.class(), tags: []int{o.tag}}
	}
	if t.K == "raw" {
		return head{reserved: true}
	}
	return head{class: 0, tags: universalTags(t, o, true)}
}

// accepts reports whether an absent optional field t could swallow an element
// with head h (conservative: the constructed bit is ignored).
func accepts(t TNode, h head) bool {
	o := parseOpts(t.P)
	if o.tag < 0 && t.K == "raw" {
		return true
	}
	if h.reserved {
		return false
	}
	var mine []int
	cls := 0
	if o.tag >= 0 {
		mine, cls = []int{o.tag}, o.class()
	} else {
		mine = universalTags(t, o, false)
	}
	if cls != h.class {
		return false
	}
	for _, a := range mine {
		for _, b := range h.tags {
			if a == b {
				return true
			}
		}
	}
	return false
}
