package c18

import (
	"bytes"
	"fmt"
	"math/big"
	"reflect"
	"strings"
	"testing"
	"unicode/utf8"

	"github.com/zmap/zcrypto/encoding/asn1"
	"pgregory.net/rapid"
	"verifharness/kit"
)

// ---------------------------------------------------------------------------
// the check

const (
	keyPrivExplicit = "C18:private-explicit-not-decodable"
	keyNoChild      = "C18:absent-optional-explicit-before-empty-last-element"
	keyRawExplicit  = "C18:rawcontent-struct-under-explicit-tag-remarshal"
)

// nilNormalize replaces every empty slice in v by the nil slice (the two are
// identified by the equality the property uses).
func nilNormalize(t TNode, v VNode) VNode {
	switch t.K {
	case "bytes", "bits":
		if len(v.B) == 0 {
			v.Nil = true
		}
	case "raw":
		if v.C == 0 && v.I == 0 && !v.Cmp && len(v.B) == 0 {
			v.Nil = true
		}
	case "struct":
		e := make([]VNode, len(v.E))
		for i, f := range t.F {
			e[i] = nilNormalize(f, v.E[i])
		}
		v.E = e
	case "slice", "named":
		if len(v.E) == 0 {
			v.Nil = true
			break
		}
		et := elemOf(t)
		e := make([]VNode, len(v.E))
		for i := range v.E {
			e[i] = nilNormalize(et, v.E[i])
		}
		v.E = e
	}
	return v
}

func walk(t TNode, depth int, f func(t TNode, depth int)) {
	f(t, depth)
	switch t.K {
	case "struct":
		for _, c := range t.F {
			walk(c, depth+1, f)
		}
	case "slice", "named":
		walk(elemOf(t), depth+1, f)
	}
}

func hx(b []byte) string {
	if len(b) > 120 {
		return fmt.Sprintf("%x…(%d bytes)", b[:120], len(b))
	}
	return fmt.Sprintf("%x", b)
}

func check(c Case, r *kit.R) {
	asn1.AllowPermissiveParsing = false
	privExplicit, rawExplicit, maxDepth, maxOpts := false, false, 0, 0
	kinds, options := map[string]bool{}, map[string]bool{}
	walk(c.T, 0, func(t TNode, d int) {
		o := parseOpts(t.P)
		if o.explicit && o.private {
			privExplicit = true
		}
		if (t.K == "struct" || t.K == "slice" || t.K == "named") && d+1 > maxDepth {
			maxDepth = d + 1
		}
		if n := o.nOptions(); n > maxOpts {
			maxOpts = n
		}
		kinds[t.K] = true
		for _, p := range strings.Split(t.P, ",") {
			if i := strings.IndexByte(p, ':'); i >= 0 {
				p = p[:i]
			}
			if p != "" {
				options[p] = true
			}
		}
		if o.tag >= 31 {
			options["high-tag"] = true
		}
		if t.K == "struct" && t.Raw {
			options["RawContent"] = true
			if o.explicit {
				rawExplicit = true
			}
		}
	})
	if privExplicit {
		r.Class("private+explicit")
		if r.Known(keyPrivExplicit) {
			return
		}
	}
	for _, k := range kindOrder {
		if kinds[k] {
			r.Class("k:" + k)
		}
	}
	for _, o := range optionOrder {
		if options[o] {
			r.Class("o:" + o)
		}
	}
	r.Class(fmt.Sprintf("depth=%d", maxDepth))
	if maxDepth >= 2 || maxOpts >= 2 {
		r.NonTrivial()
	}
	fail := func(key, format string, args ...any) {
		// Only the symptoms of the (repaired, see KNOWN_FINDINGS.txt) explicit+private decoding
		// defect are attributed to it: Unmarshal failing, leaving bytes, or skipping the field.
		if privExplicit && (key == "C18:unmarshal-error" || key == "C18:rest" || key == "C18:value-mismatch") {
			key = keyPrivExplicit
			format = "(type has a field tagged explicit+private: Marshal emits a PRIVATE explicit wrapper, Unmarshal only looks for CONTEXT-SPECIFIC or APPLICATION) " + format
		}
		r.Failf(key, format, args...)
	}

	typ := goType(c.T)
	for vi, v := range c.Vs {
		val := reflect.New(typ).Elem()
		fill(val, c.T, v)
		want := normV(c.T, v)
		if got := normR(c.T, val); got != want {
			r.Failf("C18:harness-fill", "internal: value %d was not constructed faithfully: %s vs %s", vi, got, want)
		}
		enc, err := asn1.MarshalWithParams(val.Interface(), c.T.P)
		if err != nil {
			fail("C18:marshal-error", "value %d of %v: Marshal: %v", vi, typ, err)
		}
		out := reflect.New(typ)
		rest, err := asn1.UnmarshalWithParams(enc, out.Interface(), c.T.P)
		if err != nil {
			if strings.Contains(err.Error(), "explicit tag has no child") && !privExplicit {
				r.Class("explicit-tag-has-no-child")
				if r.Known(keyNoChild) {
					continue
				}
				r.Failf(keyNoChild, "value %d of %v (params %q): Marshal gives %s but strict Unmarshal fails: %v. An absent OPTIONAL explicit field is followed by an element with empty content that ends the enclosing SEQUENCE; parseField reports \"explicit tag has no child\" before it has compared the tag", vi, typ, c.T.P, hx(enc), err)
			}
			fail("C18:unmarshal-error", "value %d of %v (params %q): Marshal gives %s but strict Unmarshal fails: %v", vi, typ, c.T.P, hx(enc), err)
		}
		if len(rest) != 0 {
			fail("C18:rest", "value %d of %v: Unmarshal left %d of %d bytes (%s)", vi, typ, len(rest), len(enc), hx(enc))
		}
		if got := normR(c.T, out.Elem()); got != want {
			fail("C18:value-mismatch", "value %d of %v (params %q): encoded as %s, decoded value differs:\n got  %s\n want %s", vi, typ, c.T.P, hx(enc), got, want)
		}
		enc2, err := asn1.MarshalWithParams(out.Elem().Interface(), c.T.P)
		if err != nil {
			fail("C18:remarshal-error", "value %d of %v: re-Marshal of the decoded value: %v", vi, typ, err)
		}
		if !bytes.Equal(enc, enc2) && !privExplicit {
			// is the difference explained by Marshal treating an empty non-nil slice
			// differently from a nil one (inside an OPTIONAL struct)?
			nv := reflect.New(typ).Elem()
			fill(nv, c.T, nilNormalize(c.T, v))
			if enc3, err := asn1.MarshalWithParams(nv.Interface(), c.T.P); err == nil && bytes.Equal(enc2, enc3) {
				// outside the domain (see canonNil): cannot come from the generator
				r.Class("out-of-domain:empty-non-nil-slice-inside-optional-struct(skipped)")
				continue
			}
		}
		if !bytes.Equal(enc, enc2) && rawExplicit {
			r.Class("RawContent-struct-under-explicit-tag")
			if r.Known(keyRawExplicit) {
				continue
			}
			r.Failf(keyRawExplicit, "value %d of %v (params %q): Marshal gives %s, re-marshalling the decoded value gives %s: a struct with a RawContent field decoded from an EXPLICIT-tagged position stores the explicit wrapper in RawContent, and Marshal then strips only one header from it", vi, typ, c.T.P, hx(enc), hx(enc2))
		}
		if !bytes.Equal(enc, enc2) {
			fail("C18:remarshal-differs", "value %d of %v (params %q): Marshal gives %s, re-marshalling the decoded value gives %s", vi, typ, c.T.P, hx(enc), hx(enc2))
		}
	}
}

var kindOrder = []string{"struct", "slice", "named", "int", "int32", "int64", "big", "enum", "bool", "flag", "str", "bytes", "oid", "bits", "time", "raw"}
var optionOrder = []string{"optional", "default", "explicit", "tag", "high-tag", "application", "private", "set", "omitempty", "ia5", "printable", "numeric", "utf8", "utc", "generalized", "RawContent"}

const rule = "a Go type generated from a grammar (reflect.StructOf structs of up to 6 fields, nesting <= 4, slices, the named ...SET slice family; leaf kinds int/int32/int64/*big.Int/Enumerated/bool/Flag/string/[]byte/ObjectIdentifier/BitString/time.Time/RawValue; every field with a random legal combination of optional, default:n, explicit, tag:n (0..16384, high-tag form included), application, private, set, omitempty, ia5/printable/numeric/utf8, utc/generalized, optional RawContent first field) and 1..3 random values of it; Marshal, strict Unmarshal into a fresh value (must consume everything and be equal: SET OF as multisets, times as instants, nil==empty), re-Marshal (must give identical bytes). Non-trivial: nesting depth >= 2 or a field with >= 2 options; distinct by case hash"

var assumptions = []string{
	"supported domain as documented/implemented by both directions: integer kinds int, int32, int64, *big.Int (non-nil unless optional), Enumerated within int32; no int8/int16/unsigned kinds, no interface{} fields",
	"OPTIONAL fields are unambiguous: an optional field never accepts the identifier of any following field up to and including the next mandatory one (checked with the head model in model.go; conflicts are resolved by a unique explicit tag or by dropping optional); an untagged optional RawValue is only generated as the last field",
	"class parameters (application/private) only together with tag:n and at most one of them; set only on structs and non-byte slices, never on a named ...SET type; omitempty and default:n only together with optional (default only on integer kinds); Flag fields are always optional",
	"strings are valid for their declared type (printable without '&'); IMPLICIT-tagged strings without a declared type use the PrintableString alphabet plus '*' and '&' (documented decoder default)",
	"IMPLICIT-tagged time.Time fields are not 'generalized' and lie in 1950..2049 (the decoder has no way to know the time type behind an implicit tag); times are whole seconds with whole-minute zone offsets within +-14h, local year 1..9998",
	"BitString values are well formed (len(Bytes) = ceil(BitLength/8), unused bits zero); OID arcs <= 2^31-1 with the first sub-identifier 40*a0+a1 <= 2^31-1; RawValue fields with tag parameters hold a value of that class/tag (explicit: constructed), FullBytes empty or consistent",
	"inside an OPTIONAL struct (directly or through nested mandatory structs) empty slices are nil: Marshal decides the presence of an optional struct with reflect.DeepEqual against the zero value, so struct{S []T `optional,omitempty`}{[]T{}} in an optional position is emitted while the decoded (nil) form is omitted; Go's nil/empty distinction has no ASN.1 counterpart and is not part of the supported domain",
	"equality: SET OF / set slices as multisets, time.Time as instants, nil and empty slices identified, RawValue.FullBytes and RawContent ignored",
}

// ---------------------------------------------------------------------------
// generator

type gen struct {
	t      *rapid.T
	budget int
}

func (g *gen) rare(label string, n int) bool {
	return rapid.IntRange(0, n-1).Draw(g.t, label) == n/3
}

func (g *gen) pct(label string, p int) bool {
	return rapid.IntRange(0, 99).Draw(g.t, label) >= 100-p
}

var allKinds = []string{"struct", "slice", "str", "time", "raw", "int", "named", "big", "oid", "bits", "bytes", "bool", "enum", "int64", "int32", "flag",
	"struct", "slice", "str", "time", "int", "raw", "struct", "slice"}
var leafKindsOnly = []string{"str", "time", "raw", "int", "big", "oid", "bits", "bytes", "bool", "enum", "int64", "int32", "flag", "named"}

var tagPool = []int{0, 1, 2, 3, 5, 30, 31, 32, 40, 127, 128, 16384}
var defPool = []int64{0, 1, -1, 5, 127, 128, -129, 1000}

func (g *gen) genType(depth int, field bool) TNode {
	pool := allKinds
	if depth >= 3 || g.budget <= 0 {
		pool = leafKindsOnly
	}
	g.budget--
	k := rapid.SampledFrom(pool).Draw(g.t, "kind")
	if k == "flag" && !field {
		k = "bool"
	}
	n := TNode{K: k}
	switch k {
	case "struct":
		n = g.genStruct(depth, 0)
	case "slice":
		n.F = []TNode{g.genType(depth+1, false)}
	case "named":
		n.N = rapid.SampledFrom(familyNames).Draw(g.t, "family")
	}
	return n
}

func (g *gen) genStruct(depth int, minFields int) TNode {
	n := TNode{K: "struct"}
	nf := rapid.IntRange(minFields, 5).Draw(g.t, "nfields")
	if depth == 0 && nf < 6 && g.pct("sixth", 15) {
		nf++
	}
	for i := 0; i < nf; i++ {
		f := g.genType(depth+1, true)
		f.P = g.genParams(f)
		n.F = append(n.F, f)
	}
	n.Raw = g.pct("rawcontent", 12)
	fixStruct(n.F)
	return n
}

// genParams draws a legal parameter combination for a struct field of kind f.K.
func (g *gen) genParams(f TNode) string {
	o := opts{tag: -1}
	switch sel := rapid.IntRange(0, 9).Draw(g.t, "tagging"); {
	case sel >= 7:
		o.explicit = true
		fallthrough
	case sel >= 4:
		o.tag = rapid.SampledFrom(tagPool).Draw(g.t, "tagnum")
		switch cls := rapid.IntRange(0, 9).Draw(g.t, "class"); {
		case cls == 6 || cls == 7:
			o.application = true
		case cls == 8:
			o.private = true
		}
	}
	if o.explicit && o.private && !g.rare("privexplicit", 4) {
		o.private = false // keep the (known) private+explicit combination infrequent
	}
	if f.K == "raw" && o.explicit && !g.pct("rawexplicit", 30) {
		o.explicit = false
	}
	o.optional = g.pct("optional", 40) || f.K == "flag"
	isInt := f.K == "int" || f.K == "int32" || f.K == "int64" || f.K == "enum"
	if o.optional && isInt && g.pct("default", 50) {
		d := rapid.SampledFrom(defPool).Draw(g.t, "defval")
		o.def = &d
	}
	switch f.K {
	case "slice", "named", "bytes", "oid":
		o.omitempty = o.optional && g.pct("omitempty", 35)
	}
	if f.K == "slice" && f.F[0].K != "flag" || f.K == "struct" {
		o.set = g.pct("set", 30)
	}
	if f.K == "str" {
		o.strType = rapid.SampledFrom([]string{"", "utf8", "ia5", "printable", "numeric", "", "utf8"}).Draw(g.t, "strtype")
	}
	if f.K == "time" {
		o.timeType = rapid.SampledFrom([]string{"", "generalized", "utc", ""}).Draw(g.t, "timetype")
		if o.tag >= 0 && !o.explicit && o.timeType == "generalized" {
			o.timeType = ""
		}
	}
	return o.String()
}

// fixStruct makes the OPTIONAL fields of a struct unambiguous (deterministic,
// no random draws) and marks the untagged RawValue fields that may carry any
// identifier.
func fixStruct(fs []TNode) {
	for i := len(fs) - 1; i >= 0; i-- {
		o := parseOpts(fs[i].P)
		if !o.optional {
			continue
		}
		conflict := false
		for j := i + 1; j < len(fs); j++ {
			if accepts(fs[i], emitted(fs[j])) {
				conflict = true
			}
			if !parseOpts(fs[j].P).optional {
				break
			}
		}
		if !conflict {
			continue
		}
		if i%2 == 0 || fs[i].K == "flag" {
			o.tag, o.application, o.private = 41+i, false, false
			o.explicit = fs[i].K != "raw"
		} else {
			o.optional, o.def, o.omitempty = false, nil, false
		}
		fs[i].P = o.String()
	}
	for i := range fs {
		if fs[i].K == "raw" && parseOpts(fs[i].P).tag < 0 {
			fs[i].U = i == 0 || !parseOpts(fs[i-1].P).optional
		}
	}
}

// --- values

var int64Pool = []int64{0, 1, -1, 127, 128, -128, -129, 255, 256, 32767, 32768, -32768, -32769, 1<<31 - 1, -(1 << 31), 1 << 31, -(1 << 31) - 1, 1<<63 - 1, -(1 << 63), 1 << 55}

func (g *gen) genInt(bits32 bool) int64 {
	var v int64
	switch rapid.IntRange(0, 3).Draw(g.t, "isel") {
	case 0:
		v = rapid.SampledFrom(int64Pool).Draw(g.t, "ipool")
	case 1:
		v = int64(rapid.IntRange(-300, 300).Draw(g.t, "ismall"))
	default:
		v = rapid.Int64().Draw(g.t, "i64") >> uint(rapid.IntRange(0, 63).Draw(g.t, "ishift"))
	}
	if bits32 {
		v = int64(int32(v))
	}
	return v
}

const printableChars = "abcdefghijklmnopqrstuvwxyzABCDEFGHIJKLMNOPQRSTUVWXYZ0123456789 '()+,-./:=?"

func (g *gen) genString(o opts) string {
	var alpha []rune
	implicit := o.tag >= 0 && !o.explicit
	switch {
	case o.strType == "printable":
		alpha = []rune(printableChars + "*")
	case o.strType == "numeric":
		alpha = []rune("0123456789 ")
	case o.strType == "ia5":
		alpha = []rune(printableChars + "@&*_\x00\x01\x7f\t\n\"<>")
	case o.strType == "" && implicit:
		alpha = []rune(printableChars + "*&")
	default:
		// (ŁıĠ中ĪĦ: runes whose low byte is a printable character, a space, '*' or '&')
		alpha = []rune(printableChars + "@&*_\x00\x7fäßλ→€𝄞\u0080￿ŁıĠ中ĪĦ")
	}
	n := rapid.IntRange(0, 12).Draw(g.t, "slen")
	if g.rare("longstr", 25) {
		n = rapid.IntRange(120, 140).Draw(g.t, "slenlong")
	}
	rs := make([]rune, n)
	for i := range rs {
		rs[i] = rapid.SampledFrom(alpha).Draw(g.t, "ch")
	}
	s := string(rs)
	if !utf8.ValidString(s) {
		panic("c18: generator produced invalid UTF-8")
	}
	return s
}

func (g *gen) genBytes(label string) []byte {
	n := rapid.IntRange(0, 16).Draw(g.t, label+"len")
	if g.rare(label+"long", 20) {
		n = rapid.SampledFrom([]int{127, 128, 130, 255, 256, 300}).Draw(g.t, label+"lenlong")
	}
	return rapid.SliceOfN(rapid.Byte(), n, n).Draw(g.t, label)
}

var arcPool = []int{0, 1, 39, 40, 127, 128, 16383, 16384, 1<<21 - 1, 1 << 21, 1<<28 - 1, 1 << 28, 1<<31 - 1, 840, 113549}

func (g *gen) genArc() int {
	switch rapid.IntRange(0, 2).Draw(g.t, "asel") {
	case 0:
		return rapid.SampledFrom(arcPool).Draw(g.t, "apool")
	case 1:
		return rapid.IntRange(0, 200).Draw(g.t, "asmall")
	}
	return rapid.IntRange(0, 1<<31-1).Draw(g.t, "abig") >> uint(rapid.IntRange(0, 30).Draw(g.t, "ashift"))
}

func (g *gen) genOID() []int {
	a0 := rapid.IntRange(0, 2).Draw(g.t, "a0")
	a1 := rapid.IntRange(0, 39).Draw(g.t, "a1")
	if a0 == 2 && g.pct("biga1", 50) {
		a1 = g.genArc()
		if a1 > 1<<31-1-80 {
			a1 = 1<<31 - 1 - 80
		}
	}
	arcs := []int{a0, a1}
	for i, n := 0, rapid.IntRange(0, 6).Draw(g.t, "narcs"); i < n; i++ {
		arcs = append(arcs, g.genArc())
	}
	return arcs
}

const (
	utcLo = -631152000 + 86400 // 1950-01-02
	utcHi = 2524608000 - 86400 // 2049-12-31
	genLo = -62135596800 + 86400
	genHi = 253370764800 - 86400 // 9998-12-30
)

func (g *gen) genTime(o opts) (int64, int) {
	implicit := o.tag >= 0 && !o.explicit
	var ts int64
	switch sel := rapid.IntRange(0, 9).Draw(g.t, "tsel"); {
	case sel <= 4 || implicit:
		ts = rapid.Int64Range(utcLo, utcHi).Draw(g.t, "unixutc")
		if g.pct("utcedge", 20) {
			ts = rapid.SampledFrom([]int64{utcLo, utcHi, 946684800, 946684799, 0, -1, 2208988800 - 86400*366*2}).Draw(g.t, "unixedge")
		}
	case sel == 5 && !o.optional:
		return -62135596800, 0 // the zero time.Time
	default:
		ts = rapid.Int64Range(genLo, genHi).Draw(g.t, "unixgen")
		if g.pct("genedge", 20) {
			ts = rapid.SampledFrom([]int64{genLo, genHi, utcLo - 2*86400, utcHi + 2*86400, 253402300799 - 400*86400}).Draw(g.t, "unixgenedge")
		}
	}
	off := 0
	if g.pct("zone", 35) {
		off = rapid.IntRange(-14*60, 14*60).Draw(g.t, "off")
	}
	return ts, off
}

var reservedUniversal = []int{5, 9, 13, 14, 25, 26, 28, 29}
var reservedTagged = []int{50, 51, 60, 200, 20000}

func (g *gen) genRaw(t TNode, o opts) VNode {
	v := VNode{Full: rapid.Bool().Draw(g.t, "full")}
	tlvBodies := [][]byte{{0x05, 0x00}, {0x02, 0x01, 0x07}, {0x04, 0x02, 0xaa, 0xbb}, {0x30, 0x03, 0x01, 0x01, 0xff}, {0x05, 0x00, 0x05, 0x00}}
	switch {
	case o.tag >= 0 && o.explicit:
		v.C, v.I, v.Cmp = o.class(), int64(o.tag), true
		v.B = rapid.SampledFrom(tlvBodies).Draw(g.t, "rawtlv")
	case o.tag >= 0:
		v.C, v.I, v.Cmp = o.class(), int64(o.tag), rapid.Bool().Draw(g.t, "rawcmp")
		v.B = g.genBytes("raw")
	case t.U:
		v.C = rapid.IntRange(0, 3).Draw(g.t, "rawclass")
		v.I = int64(rapid.SampledFrom([]int{5, 2, 4, 0, 1, 12, 16, 17, 30, 31, 127, 128, 16384, 3, 6, 19, 23}).Draw(g.t, "rawtag"))
		v.Cmp = rapid.Bool().Draw(g.t, "rawcmp")
		v.B = g.genBytes("raw")
	default:
		v.C = rapid.IntRange(0, 3).Draw(g.t, "rawclass")
		if v.C == 0 {
			v.I = int64(rapid.SampledFrom(reservedUniversal).Draw(g.t, "rawtagU"))
		} else {
			v.I = int64(rapid.SampledFrom(reservedTagged).Draw(g.t, "rawtagT"))
		}
		v.Cmp = rapid.Bool().Draw(g.t, "rawcmp")
		v.B = g.genBytes("raw")
	}
	if v.Cmp && !(o.tag >= 0 && o.explicit) && len(v.B) > 0 {
		v.B = rapid.SampledFrom(tlvBodies).Draw(g.t, "rawtlv")
	}
	return v
}

func (g *gen) genValue(t TNode) VNode {
	o := parseOpts(t.P)
	switch t.K {
	case "int", "int64", "int32", "enum":
		v := g.genInt(t.K == "int32" || t.K == "enum")
		if o.def != nil && g.pct("isdefault", 30) {
			v = *o.def
		} else if o.optional && g.pct("iszero", 20) {
			v = 0
		}
		return VNode{I: v}
	case "big":
		if o.optional && g.pct("bignil", 25) {
			return VNode{Nil: true}
		}
		nb := rapid.IntRange(0, 20).Draw(g.t, "nbig")
		n := new(big.Int).SetBytes(rapid.SliceOfN(rapid.Byte(), nb, nb).Draw(g.t, "bigbytes"))
		switch rapid.IntRange(0, 3).Draw(g.t, "bigform") {
		case 0:
			n.Neg(n)
		case 1:
			n = new(big.Int).Lsh(big.NewInt(1), uint(8*nb)-uint(rapid.IntRange(0, 1).Draw(g.t, "bigbit"))*uint(min(nb, 1)))
			if rapid.Bool().Draw(g.t, "bigneg") {
				n.Neg(n)
			}
			n.Add(n, big.NewInt(int64(rapid.IntRange(-1, 1).Draw(g.t, "bigdelta"))))
		}
		return VNode{S: n.String()}
	case "bool", "flag":
		if rapid.Bool().Draw(g.t, "bool") {
			return VNode{I: 1}
		}
		return VNode{}
	case "str":
		return VNode{S: g.genString(o)}
	case "bytes":
		if g.pct("bytesnil", 15) {
			return VNode{Nil: true}
		}
		return VNode{B: g.genBytes("bytes")}
	case "oid":
		if o.optional && g.pct("oidnil", 25) {
			return VNode{}
		}
		return VNode{A: g.genOID()}
	case "bits":
		if g.pct("bitszero", 10) {
			return VNode{Nil: true}
		}
		n := rapid.IntRange(0, 5).Draw(g.t, "nbits")
		b := rapid.SliceOfN(rapid.Byte(), n, n).Draw(g.t, "bits")
		pad := 0
		if n > 0 {
			pad = rapid.IntRange(0, 7).Draw(g.t, "pad")
			b[n-1] &^= 1<<uint(pad) - 1
		}
		return VNode{B: b, I: int64(8*n - pad)}
	case "time":
		ts, off := g.genTime(o)
		return VNode{T: ts, Off: off}
	case "raw":
		if o.optional && g.pct("rawzero", 25) {
			return VNode{Nil: true}
		}
		return g.genRaw(t, o)
	case "struct":
		v := VNode{E: make([]VNode, len(t.F))}
		for i, f := range t.F {
			v.E[i] = g.genValue(f)
		}
		return v
	case "slice", "named":
		if g.pct("slicenil", 15) {
			return VNode{Nil: true}
		}
		et := elemOf(t)
		if et.K == "raw" {
			et.U = true
		}
		n := rapid.IntRange(0, 4).Draw(g.t, "nelems")
		v := VNode{E: make([]VNode, n)}
		for i := range v.E {
			v.E[i] = g.genValue(et)
		}
		return v
	}
	panic("c18: unknown kind " + t.K)
}

// canonNil makes every empty slice that lives (directly or through nested
// mandatory structs) inside an OPTIONAL struct nil.  Go's nil/empty distinction
// has no ASN.1 counterpart and the decoder always produces nil for an absent
// slice, so inside an optional struct (whose presence Marshal decides with
// reflect.DeepEqual against the zero value) only the nil form is in the domain.
func canonNil(t TNode, v VNode, under bool) VNode {
	switch t.K {
	case "bytes":
		if under && len(v.B) == 0 {
			v.Nil = true
		}
	case "struct":
		under = under || parseOpts(t.P).optional
		e := make([]VNode, len(v.E))
		for i, f := range t.F {
			e[i] = canonNil(f, v.E[i], under)
		}
		v.E = e
	case "slice", "named":
		if len(v.E) == 0 {
			if under {
				v.Nil = true
			}
			break
		}
		et := elemOf(t)
		e := make([]VNode, len(v.E))
		for i := range v.E {
			e[i] = canonNil(et, v.E[i], under)
		}
		v.E = e
	}
	return v
}

func genCase(t *rapid.T) Case {
	g := &gen{t: t, budget: 22}
	var c Case
	if g.pct("toplevel-nonstruct", 12) {
		c.T = g.genType(0, false)
		if g.pct("toplevel-params", 40) {
			c.T.P = g.genParams(c.T)
			o := parseOpts(c.T.P)
			o.optional, o.def, o.omitempty = false, nil, false
			c.T.P = o.String()
		}
		if c.T.K == "raw" && parseOpts(c.T.P).tag < 0 {
			c.T.U = true
		}
	} else {
		c.T = g.genStruct(0, 1)
		if g.pct("toplevel-params", 15) {
			o := parseOpts(g.genParams(c.T))
			o.optional, o.def, o.omitempty = false, nil, false
			c.T.P = o.String()
		}
	}
	nv := rapid.IntRange(1, 3).Draw(t, "nvalues")
	for i := 0; i < nv; i++ {
		c.Vs = append(c.Vs, canonNil(c.T, g.genValue(c.T), false))
	}
	return c
}

func TestPropRoundTrip(t *testing.T) {
	kit.Run(t, kit.Spec[Case]{ID: "C18", Name: "roundtrip", Rule: rule, Gen: genCase, Check: check,
		Quick: 6000, Thorough: 150000, Assumptions: assumptions})
}
