package c09

import (
	"bytes"
	"fmt"
	"strings"
	"testing"

	"github.com/zmap/zcrypto/x509"
	"pgregory.net/rapid"
	"verifharness/kit"
)

// Case: one certificate, one host.
type Case struct {
	Cert CertSpec `json:"cert"`
	Host []byte   `json:"host"`
	// How the generator obtained the host (base + mutations); only used for the
	// non-trivial rule and the class histogram, never by the oracle.
	Base string   `json:"base,omitempty"` // "dns" | "cn" | "ip" | "look" | "rand"
	Muts []string `json:"muts,omitempty"`
}

// ---------------------------------------------------------------------------
// universe

var labelPool = []string{
	"a", "b", "A", "B", "1", "ab", "aB", "Ab", "a1", "a", "b",
	"*", "*", "*", "a*", "*a", "**",
	"é", "É", "aé", "\xff", "\xfe", "a\xff", "\xc3",
	"k", "K", "\u212a", // KELVIN SIGN lower-cases to 'k' under Unicode rules
	"[", "]", ":", "-", "", "xn--a", "[a", "b]",
	"z", "Z", "az", "AZ", "@", "`", "{", // boundaries of the ASCII letter ranges: '@'<'A', 'Z'<'[', '`'<'a', 'z'<'{'
}

var alphabet = []string{"a", "b", "A", "B", "z", "Z", "1", ".", ".", "*", "[", "]", ":", "é", "É", "\xff", "\xfe", "@", "`", "{"}

type ipEntry struct {
	raw   []byte
	spell []string
}

var ipUniverse = []ipEntry{
	{[]byte{1, 2, 3, 4}, []string{"1.2.3.4", "::ffff:1.2.3.4", "::FFFF:102:304", "0:0:0:0:0:ffff:1.2.3.4", "::ffff:0102:0304"}},
	{[]byte{0, 0, 0, 0, 0, 0, 0, 0, 0, 0, 0xff, 0xff, 1, 2, 3, 4}, []string{"1.2.3.4", "::ffff:1.2.3.4", "::FFFF:102:304", "0:0:0:0:0:FFFF:1.2.3.4"}},
	{[]byte{1, 2, 3, 5}, []string{"1.2.3.5", "::ffff:1.2.3.5"}},
	{[]byte{0, 0, 0, 0, 0, 0, 0, 0, 0, 0, 0, 0, 0, 0, 0, 1}, []string{"::1", "0:0:0:0:0:0:0:1", "0::1", "::0001"}},
	{[]byte{0x20, 0x01, 0x0d, 0xb8, 0, 0, 0, 0, 0, 0, 0, 0, 0, 0, 0, 1}, []string{"2001:db8::1", "2001:DB8::1", "2001:db8:0:0:0:0:0:1", "2001:0db8::0001"}},
	{[]byte{0, 0, 0, 0, 0, 0, 0, 0, 0, 0, 0, 0, 1, 2, 3, 4}, []string{"::1.2.3.4", "::102:304"}},
	{[]byte{0, 0, 0, 0}, []string{"0.0.0.0", "::ffff:0.0.0.0", "::ffff:0:0"}},
	{make([]byte, 16), []string{"::", "0::0", "::0.0.0.0"}},
	{[]byte{0xfe, 0x80, 0, 0, 0, 0, 0, 0, 0, 0, 0, 0, 0, 0, 0, 1}, []string{"fe80::1", "FE80::1"}},
}

// strings that look like IP literals but are not (for net.ParseIP), or are odd
var lookalikes = []string{
	"1.2.3.04", "01.2.3.4", "1.2.3", "1.2.3.4.5", "1.2.3.4.", "fe80::1%eth0", "::1%1", ":::1", "1.2.3.256",
	"[::1", "::1]", "[[::1]]", "[1.2.3.4].", "0x1.2.3.4", " 1.2.3.4", "::ffff:1.2.3.4.", "1:2:3:4:5:6:7", "[]", "[", "]",
	"[a.b]", "[a]", "[1.2.3.4", "1.2.3.4]", "[::]", "[::ffff:1.2.3.4]", "[1.2.3.4]", "[2001:db8::1]", "[fe80::1%eth0]", "::1.", "[::1].",
	"1.2.3.4:80", "[::1]:80",
}

func genLabel(t *rapid.T) string { return rapid.SampledFrom(labelPool).Draw(t, "label") }

func genName(t *rapid.T) []byte {
	switch rapid.IntRange(0, 9).Draw(t, "nameKind") {
	case 0: // raw bytes over the alphabet
		n := rapid.IntRange(0, 12).Draw(t, "rawLen")
		var b []byte
		for i := 0; i < n; i++ {
			b = append(b, rapid.SampledFrom(alphabet).Draw(t, "ch")...)
		}
		return b
	case 1: // an IP literal text used as a name
		e := rapid.SampledFrom(ipUniverse).Draw(t, "ipName")
		return []byte(rapid.SampledFrom(e.spell).Draw(t, "spell"))
	}
	n := rapid.SampledFrom([]int{1, 2, 2, 3, 3, 4}).Draw(t, "nLabels")
	ls := make([]string, n)
	for i := range ls {
		ls[i] = genLabel(t)
	}
	s := rapid.SampledFrom([]string{"", "", "", "", "", "."}).Draw(t, "pre") + strings.Join(ls, ".") +
		rapid.SampledFrom([]string{"", "", "", "", ".", ".", ".."}).Draw(t, "suf")
	return []byte(s)
}

func genCert(t *rapid.T) CertSpec {
	var s CertSpec
	shape := rapid.SampledFrom([]string{"none", "none", "none", "dns", "dns", "dns", "dns+ip", "dns+ip", "ip", "other", "empty"}).Draw(t, "sanShape")
	nd, ni := 0, 0
	switch shape {
	case "none":
		s.SAN = SANAbsent
	case "dns":
		s.SAN, nd = SANPresent, rapid.IntRange(1, 3).Draw(t, "nDNS")
	case "dns+ip":
		s.SAN, nd, ni = SANPresent, rapid.IntRange(1, 2).Draw(t, "nDNS"), rapid.IntRange(1, 2).Draw(t, "nIP")
	case "ip":
		s.SAN, ni = SANPresent, rapid.IntRange(1, 3).Draw(t, "nIP")
	case "other":
		s.SAN = SANPresent
		s.Emails = rapid.IntRange(0, 1).Draw(t, "emails")
		s.URIs = 1 - s.Emails + rapid.IntRange(0, 1).Draw(t, "uris")
	case "empty":
		s.SAN = SANPresent
	}
	for i := 0; i < nd; i++ {
		s.DNS = append(s.DNS, genName(t))
	}
	for i := 0; i < ni; i++ {
		s.IPs = append(s.IPs, rapid.SampledFrom(ipUniverse).Draw(t, "ipSAN").raw)
	}
	if s.SAN == SANPresent && shape != "other" && rapid.IntRange(0, 5).Draw(t, "mix") == 0 {
		s.Emails, s.URIs = 1, 1
	}
	if s.SAN == SANPresent {
		s.Critical = rapid.IntRange(0, 3).Draw(t, "crit") == 0
	}
	s.HasCN = rapid.IntRange(0, 9).Draw(t, "hasCN") > 0
	if s.HasCN {
		if len(s.DNS) > 0 && rapid.IntRange(0, 3).Draw(t, "cnCopy") == 0 {
			s.CN = s.DNS[0]
		} else {
			s.CN = genName(t)
		}
		s.CNType = rapid.IntRange(0, 2).Draw(t, "cnType")
	}
	s.ExtraOU = rapid.IntRange(0, 3).Draw(t, "ou") == 0
	s.OtherExt = rapid.IntRange(0, 2).Draw(t, "otherExt") == 0
	return s
}

func swapCaseASCII(b []byte, only int) []byte {
	out := append([]byte(nil), b...)
	n := 0
	for i, c := range out {
		isL := (c >= 'a' && c <= 'z') || (c >= 'A' && c <= 'Z')
		if !isL {
			continue
		}
		if only < 0 || n == only {
			out[i] = c ^ 0x20
		}
		n++
	}
	return out
}

var mutKinds = []string{"swapcase", "swapcase1", "upper", "adddot", "adddot", "add2dots", "stripdot", "replabel", "replabel", "replabel",
	"droplabel", "inslabel", "bracket", "repbyte", "predot", "uniswap", "starlabel", "fillstar", "fillstar", "fillstar"}

func mutate(t *rapid.T, h []byte, kind string) []byte {
	ls := splitLabels(h)
	join := func(l [][]byte) []byte { return bytes.Join(l, []byte(".")) }
	switch kind {
	case "swapcase":
		return swapCaseASCII(h, -1)
	case "swapcase1":
		return swapCaseASCII(h, rapid.IntRange(0, 3).Draw(t, "which"))
	case "upper":
		return []byte(strings.ToUpper(string(foldASCII(h)))) // Unicode upper-casing: differs from ASCII folding on non-ASCII letters
	case "adddot":
		return append(append([]byte(nil), h...), '.')
	case "add2dots":
		return append(append([]byte(nil), h...), '.', '.')
	case "stripdot":
		return bytes.TrimSuffix(h, []byte("."))
	case "replabel":
		i := rapid.IntRange(0, len(ls)-1).Draw(t, "li")
		c := append([][]byte(nil), ls...)
		c[i] = []byte(genLabel(t))
		return join(c)
	case "fillstar": // every "*" label becomes an ordinary label (what a wildcard is meant to match)
		c := append([][]byte(nil), ls...)
		for i := range c {
			if string(c[i]) == "*" {
				c[i] = []byte(genLabel(t))
			}
		}
		return join(c)
	case "starlabel":
		i := rapid.IntRange(0, len(ls)-1).Draw(t, "li")
		c := append([][]byte(nil), ls...)
		c[i] = []byte("*")
		return join(c)
	case "droplabel":
		if len(ls) < 2 {
			return h
		}
		i := rapid.IntRange(0, len(ls)-1).Draw(t, "li")
		c := append(append([][]byte(nil), ls[:i]...), ls[i+1:]...)
		return join(c)
	case "inslabel":
		i := rapid.IntRange(0, len(ls)).Draw(t, "li")
		c := append([][]byte(nil), ls[:i]...)
		c = append(c, []byte(genLabel(t)))
		c = append(c, ls[i:]...)
		return join(c)
	case "bracket":
		return append(append([]byte("["), h...), ']')
	case "repbyte":
		if len(h) == 0 {
			return h
		}
		i := rapid.IntRange(0, len(h)-1).Draw(t, "bi")
		out := append([]byte(nil), h[:i]...)
		out = append(out, rapid.SampledFrom(alphabet).Draw(t, "ch")...)
		return append(out, h[i+1:]...)
	case "predot":
		return append([]byte("."), h...)
	case "uniswap":
		s := string(h)
		r := strings.NewReplacer("é", "É", "É", "é", "k", "\u212a", "K", "\u212a", "\u212a", "k", "\xff", "\xfe", "\xfe", "\xff")
		return []byte(r.Replace(s))
	}
	return h
}

func gen(t *rapid.T) Case {
	c := Case{Cert: genCert(t)}
	// candidate bases
	var dnsBases [][]byte
	dnsBases = append(dnsBases, c.Cert.DNS...)
	baseKind := rapid.SampledFrom([]string{"dns", "dns", "dns", "dns", "cn", "cn", "ip", "ip", "look", "rand", "rand"}).Draw(t, "base")
	switch baseKind {
	case "dns":
		if len(dnsBases) == 0 {
			if c.Cert.HasCN {
				baseKind = "cn"
				c.Host = c.Cert.CN
			} else {
				baseKind = "rand"
				c.Host = genName(t)
			}
		} else {
			c.Host = rapid.SampledFrom(dnsBases).Draw(t, "dnsBase")
		}
	case "cn":
		if c.Cert.HasCN {
			c.Host = c.Cert.CN
		} else {
			baseKind = "rand"
			c.Host = genName(t)
		}
	case "ip":
		var e ipEntry
		if len(c.Cert.IPs) > 0 && rapid.IntRange(0, 4).Draw(t, "ownIP") > 0 {
			raw := rapid.SampledFrom(c.Cert.IPs).Draw(t, "ipBase")
			for _, u := range ipUniverse {
				if bytes.Equal(u.raw, raw) {
					e = u
				}
			}
		} else {
			e = rapid.SampledFrom(ipUniverse).Draw(t, "ipAny")
		}
		c.Host = []byte(rapid.SampledFrom(e.spell).Draw(t, "spell"))
	case "look":
		c.Host = []byte(rapid.SampledFrom(lookalikes).Draw(t, "look"))
	case "rand":
		c.Host = genName(t)
	}
	c.Base = baseKind
	nm := 0
	switch baseKind {
	case "dns", "cn":
		nm = rapid.SampledFrom([]int{0, 1, 1, 1, 1, 2, 2, 3}).Draw(t, "nMut")
	case "ip":
		nm = rapid.SampledFrom([]int{0, 0, 1, 1, 2}).Draw(t, "nMut")
	}
	for i := 0; i < nm; i++ {
		var k string
		if baseKind == "ip" {
			k = rapid.SampledFrom([]string{"bracket", "bracket", "bracket", "swapcase", "adddot", "repbyte", "droplabel"}).Draw(t, "mut")
		} else {
			k = rapid.SampledFrom(mutKinds).Draw(t, "mut")
		}
		c.Host = mutate(t, c.Host, k)
		c.Muts = append(c.Muts, k)
	}
	if c.Host == nil {
		c.Host = []byte{}
	}
	return c
}

// ---------------------------------------------------------------------------
// oracle

func hasNonASCII(b []byte) bool {
	for _, c := range b {
		if c >= 0x80 {
			return true
		}
	}
	return false
}

func check(c Case, r *kit.R) {
	derBytes := c.Cert.DER()
	cert, err := x509.ParseCertificate(derBytes)
	if err != nil {
		r.Failf("harness:c09-unparseable-certificate", "generated certificate does not parse: %v (%x)", err, derBytes)
	}
	got := cert.VerifyHostname(string(c.Host))
	want := reference(c.Host, c.Cert)

	// classes (never influence the verdict)
	nt := want.accept
	if want.isIP {
		r.Class("host:ip-literal")
		if want.bracketed {
			r.Class("host:ip-literal-bracketed")
		}
		if want.accept {
			r.Class("accept:ip")
			if want.mixedLen {
				r.Class("accept:ip-v4-vs-v4mapped")
			}
		} else {
			r.Class("reject:ip")
			// an IP literal that textually matches a DNS SAN / CN must still be rejected
			lit := c.Host
			if want.bracketed {
				lit = lit[1 : len(lit)-1]
			}
			pats := append(append([][]byte(nil), c.Cert.DNS...), c.Cert.CN)
			if anyMatch(pats, c.Host, fullRules) || anyMatch(pats, lit, fullRules) {
				r.Class("reject:ip-literal-equals-dns-name")
				nt = true
			}
		}
	} else {
		r.Class("host:name")
		pats := c.Cert.patterns()
		if want.accept {
			r.Class("accept:" + want.via)
			if want.wildUsed {
				r.Class("accept:wildcard")
			}
			if want.wildInner {
				r.Class("accept:wildcard-not-leftmost")
			}
			if !anyMatch(pats, c.Host, rules{fold: false, trim: true, wildAny: true}) {
				r.Class("accept:needs-case-fold")
			}
			if !anyMatch(pats, c.Host, rules{fold: true, trim: false, wildAny: true}) {
				r.Class("accept:needs-dot-trim")
			}
			if hasNonASCII(c.Host) {
				r.Class("accept:non-ascii")
			}
		} else {
			r.Class("reject:name")
			if c.Cert.SAN == SANPresent && c.Cert.HasCN {
				if ok, _, _ := matchName(c.Cert.CN, c.Host, fullRules); ok {
					r.Class("reject:cn-suppressed-by-san")
					if len(c.Cert.DNS) == 0 {
						r.Class("reject:cn-suppressed-by-san-without-dns")
					}
					nt = true
				}
			}
			if anyMatch(pats, c.Host, rules{uniLower: true, trim: true, wildAny: true}) {
				r.Class("reject:would-match-under-unicode-lowercase")
				nt = true
			}
			// trimming more than one dot, or trimming inner whitespace, would match
			if anyMatch(pats, bytes.TrimRight(c.Host, "."), fullRules) {
				r.Class("reject:would-match-if-all-dots-trimmed")
				nt = true
			}
			if (c.Base == "dns" || c.Base == "cn") && len(c.Muts) == 1 {
				r.Class("reject:near-miss-" + c.Muts[0])
				nt = true
			}
		}
	}
	switch {
	case c.Cert.SAN == SANAbsent:
		r.Class("cert:no-san-ext")
	case len(c.Cert.DNS) > 0:
		r.Class("cert:san-with-dns")
	case len(c.Cert.IPs) > 0:
		r.Class("cert:san-ip-only")
	case c.Cert.Emails+c.Cert.URIs > 0:
		r.Class("cert:san-other-only")
	default:
		r.Class("cert:san-empty")
	}
	if nt {
		r.NonTrivial()
	}

	if (got == nil) != want.accept {
		key := "C09:false-accept"
		if want.accept {
			key = "C09:false-reject"
		}
		kind := "name"
		if want.isIP {
			kind = "ip"
		}
		r.Failf(key+"-"+kind, "VerifyHostname(%q) = %v, reference accept=%v (via %q); SAN ext present=%v DNS=%q IPs=%v CN present=%v CN=%q",
			c.Host, got, want.accept, want.via, c.Cert.SAN == SANPresent, c.Cert.DNS, c.Cert.IPs, c.Cert.HasCN, c.Cert.CN)
	}
}

const rule = "one certificate (built from raw DER: SAN extension absent / DNS names / IPs / only e-mail+URI / empty, CN absent or any byte string as UTF8String, T61String or PrintableString) and one host. Names are 1-4 labels from a pool with both letter cases, digits, '*', partial wildcards, brackets, ':', '-', empty labels, non-ASCII (valid and invalid UTF-8, KELVIN SIGN) with optional leading/trailing dots, or raw strings over the alphabet, or IP literal texts; hosts are derived from one of the certificate's names/IPs by 0-3 mutations (case swap, trailing dot(s), label replaced/dropped/inserted/starred, wildcard labels filled in, brackets, byte replaced, Unicode case swap), from IP-literal lookalikes (zone, leading zero, trailing dot, unbalanced brackets, port), or random. Non-trivial: the reference accepts, or the host is one mutation away from a name of the certificate, or the CN would match but is suppressed by a SAN extension, or an IP literal textually equals a DNS name, or a wrong folding/trim rule would accept; distinct by case hash"

var assumptions = []string{
	"an IP literal is what net.ParseIP accepts (shared with zcrypto, trusted); equality of addresses is equality of 16-byte forms, so an IPv4 SAN equals its IPv4-mapped IPv6 spelling",
	"case-insensitive means ASCII case-insensitive (RFC 4343 / documentation of toLowerCaseASCII)",
	"a host that is an IP literal is never matched against DNS names or the common name",
	"hosts and names are arbitrary byte strings; DNS syntax validity is not required by the statement and not assumed",
}

func TestPropRandom(t *testing.T) {
	kit.Run(t, kit.Spec[Case]{ID: "C09", Name: "random", Rule: rule, Gen: gen, Check: check, Quick: 100000, Thorough: 1000000, Assumptions: assumptions})
}

// ---------------------------------------------------------------------------
// grid: every pattern x every host of two fixed tables, as DNS SAN, as CN
// without SAN extension, and as CN next to a SAN extension that has no DNS name

var gridNames = []string{
	"a", "A", "a.", "a..", ".a", "", ".", "..", "*", "*.", "a.b", "A.b", "a.B", "a.b.", "A.B.", "a.b..", ".a.b", "a..b", "*.b", "*.B", "*.b.", "a.*", "*.*", "a.*.b", "a.b.b", "a.a.b",
	"*a.b", "a*.b", "**.b", "b", "b.b", "1.b", "1.2.3.4", "*.2.3.4", "::1", "[::1]", "[a.b]", "[a.b", "a.b]",
	"é.b", "É.b", "\xff.b", "\xfe.b", "\xffA.b", "\xffa.b", "k.b", "K.b", "\u212a.b", "xn--a.b", "XN--A.b", "a-b", "a:b", "a.b.a.b",
	"z.b", "Z.b", "@.b", "`.b", "{.b", "[.b",
}

var gridHosts = append([]string{
	"1.2.3.4.", "[1.2.3.4]", "::ffff:1.2.3.4", "[::1].", "0:0:0:0:0:0:0:1", "fe80::1%eth0", "a.b.c", "c.a.b", "*.a.b", "b.a",
	"É.B", "\xff.B", "\ufffd.b", "\u212a.B", "[A.B]", "a.b.]", "a b",
}, gridNames...)

type gridCase struct {
	Mode    int    `json:"mode"` // 0 DNS SAN, 1 CN only, 2 CN + SAN extension without DNS names, 3 DNS SAN as second of two
	Pattern []byte `json:"pattern"`
	Host    []byte `json:"host"`
}

func (g gridCase) toCase() Case {
	c := Case{Host: g.Host, Base: "grid"}
	switch g.Mode {
	case 0:
		c.Cert = CertSpec{SAN: SANPresent, DNS: [][]byte{g.Pattern}, HasCN: true, CN: []byte("zz.zz")}
	case 1:
		c.Cert = CertSpec{SAN: SANAbsent, HasCN: true, CN: g.Pattern, CNType: cnT61}
	case 2:
		c.Cert = CertSpec{SAN: SANPresent, IPs: [][]byte{{1, 2, 3, 4}}, HasCN: true, CN: g.Pattern}
	case 3:
		c.Cert = CertSpec{SAN: SANPresent, DNS: [][]byte{[]byte("zz.zz"), g.Pattern}, IPs: [][]byte{ipUniverse[3].raw}}
	}
	return c
}

func TestPropGrid(t *testing.T) {
	kit.Run(t, kit.Spec[gridCase]{ID: "C09", Name: "grid",
		Rule:        fmt.Sprintf("exhaustive: %d patterns x %d hosts (fixed tables covering case, dots, wildcard positions, brackets, IP literals, non-ASCII) x 4 placements (DNS SAN; CN without SAN extension; CN next to an IP-only SAN extension; second DNS SAN). Non-trivial as in 'random'", len(gridNames), len(gridHosts)),
		Assumptions: assumptions,
		Check:       func(g gridCase, r *kit.R) { check(g.toCase(), r) },
		Enum: func(shard, nshards int, yield func(gridCase) bool) {
			i := 0
			for mode := 0; mode < 4; mode++ {
				for _, p := range gridNames {
					for _, h := range gridHosts {
						i++
						if i%nshards != shard {
							continue
						}
						if !yield(gridCase{Mode: mode, Pattern: []byte(p), Host: []byte(h)}) {
							return
						}
					}
				}
			}
		}})
}
