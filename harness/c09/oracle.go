package c09

import (
	"bytes"
	"net"
	"strings"
)

// Reference matcher, transcribed from the statement of C09:
//
//	VerifyHostname accepts a host exactly when it is an IP literal (optionally
//	bracketed) equal to one of the certificate's IP SANs, or a DNS name that
//	case-insensitively matches a DNS SAN label by label (ignoring one trailing
//	dot, '*' matching any single label), falling back to the subject common
//	name only when the certificate has no SAN extension.
//
// "IP literal" is what net.ParseIP accepts (trusted base, shared with zcrypto);
// equality of addresses is equality of their 16-byte forms; case-insensitive is
// ASCII case-insensitive (DNS names; the documentation of toLowerCaseASCII and
// RFC 6125 6.4.1 / RFC 4343); an empty name (after removing the dot) matches
// nothing.

// opts lets the *classification* code ask "would it still match without rule
// X"; the oracle proper always uses fullRules.
type rules struct {
	fold     bool // ASCII case folding
	trim     bool // ignore one trailing dot on both sides
	wildAny  bool // '*' label matches in any position (false: left-most only)
	uniLower bool // fold with strings.ToLower instead (a wrong rule, for classification)
}

var fullRules = rules{fold: true, trim: true, wildAny: true}

func foldASCII(b []byte) []byte {
	out := make([]byte, len(b))
	for i, c := range b {
		if c >= 'A' && c <= 'Z' {
			c = c - 'A' + 'a'
		}
		out[i] = c
	}
	return out
}

// splitLabels cuts b at every '.'; "" has one (empty) label.
func splitLabels(b []byte) [][]byte {
	var out [][]byte
	start := 0
	for i := 0; i <= len(b); i++ {
		if i == len(b) || b[i] == '.' {
			out = append(out, b[start:i])
			start = i + 1
		}
	}
	return out
}

// matchName reports whether host matches pattern under the rules; wildUsed /
// wildInner tell whether a '*' label was needed (at all / at a position > 0).
func matchName(pattern, host []byte, ru rules) (ok, wildUsed, wildInner bool) {
	p, h := pattern, host
	if ru.uniLower {
		p, h = []byte(strings.ToLower(string(p))), []byte(strings.ToLower(string(h)))
	} else if ru.fold {
		p, h = foldASCII(p), foldASCII(h)
	}
	if ru.trim {
		if len(p) > 0 && p[len(p)-1] == '.' {
			p = p[:len(p)-1]
		}
		if len(h) > 0 && h[len(h)-1] == '.' {
			h = h[:len(h)-1]
		}
	}
	if len(p) == 0 || len(h) == 0 {
		return false, false, false
	}
	pl, hl := splitLabels(p), splitLabels(h)
	if len(pl) != len(hl) {
		return false, false, false
	}
	for i := range pl {
		if bytes.Equal(pl[i], hl[i]) {
			continue
		}
		if len(pl[i]) == 1 && pl[i][0] == '*' && (ru.wildAny || i == 0) {
			wildUsed = true
			if i > 0 {
				wildInner = true
			}
			continue
		}
		return false, false, false
	}
	return true, wildUsed, wildInner
}

func to16(ip []byte) []byte {
	if len(ip) == 16 {
		return ip
	}
	if len(ip) == 4 {
		return append([]byte{0, 0, 0, 0, 0, 0, 0, 0, 0, 0, 0xff, 0xff}, ip...)
	}
	return nil
}

// ipLiteral returns the 16-byte address when host is an IP literal, optionally
// in square brackets.
func ipLiteral(host []byte) (addr []byte, bracketed bool) {
	lit := host
	if len(lit) >= 2 && lit[0] == '[' && lit[len(lit)-1] == ']' {
		lit = lit[1 : len(lit)-1]
		bracketed = true
	}
	ip := net.ParseIP(string(lit))
	if ip == nil {
		return nil, false
	}
	return to16(ip), bracketed
}

type verdict struct {
	accept    bool
	isIP      bool
	bracketed bool
	via       string // "ip", "san", "cn", ""
	wildUsed  bool
	wildInner bool
	mixedLen  bool // IP accepted although SAN is 4 bytes and the literal is written as IPv6, or the reverse
}

func reference(host []byte, s CertSpec) verdict {
	var v verdict
	if addr, br := ipLiteral(host); addr != nil {
		v.isIP, v.bracketed = true, br
		if s.SAN == SANPresent {
			for _, raw := range s.IPs {
				if bytes.Equal(to16(raw), addr) {
					v.accept, v.via = true, "ip"
					v6text := bytes.IndexByte(host, ':') >= 0
					v.mixedLen = v6text == (len(raw) == 4)
					return v
				}
			}
		}
		return v
	}
	if s.SAN == SANPresent {
		for _, d := range s.DNS {
			if ok, wu, wi := matchName(d, host, fullRules); ok {
				v.accept, v.via, v.wildUsed, v.wildInner = true, "san", wu, wi
				return v
			}
		}
		return v
	}
	if s.HasCN {
		if ok, wu, wi := matchName(s.CN, host, fullRules); ok {
			v.accept, v.via, v.wildUsed, v.wildInner = true, "cn", wu, wi
		}
	}
	return v
}

// patterns returns the names the DNS branch of the reference consults.
func (s CertSpec) patterns() [][]byte {
	if s.SAN == SANPresent {
		return s.DNS
	}
	if s.HasCN {
		return [][]byte{s.CN}
	}
	return nil
}

func anyMatch(pats [][]byte, host []byte, ru rules) bool {
	for _, p := range pats {
		if ok, _, _ := matchName(p, host, ru); ok {
			return true
		}
	}
	return false
}
