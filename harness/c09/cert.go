// Package c09 checks property C09: hostname verification follows the
// documented matching rules.
//
// Certificates are assembled byte by byte with the zcrypto-independent DER
// encoders (package der) so that SAN entries and the common name can hold any
// byte string, signed with the standard library (Ed25519) and parsed with
// zcrypto's ParseCertificate.
package c09

import (
	"crypto/ed25519"
	"unicode/utf8"

	"verifharness/der"
	"verifharness/keys"
	"verifharness/pki"
)

// SAN extension shapes.
const (
	SANAbsent   = 0 // no subjectAltName extension at all
	SANPresent  = 1 // extension with the listed DNS / IP / other entries (possibly none: empty SEQUENCE)
	cnUTF8      = 0 // UTF8String when the bytes are valid UTF-8, else T61String
	cnT61       = 1 // T61String (8-bit clean)
	cnPrintable = 2 // PrintableString when all bytes are printable-string characters, else as cnUTF8
)

// CertSpec is everything that determines the certificate of a case.
type CertSpec struct {
	SAN      int      `json:"san"`                // SANAbsent | SANPresent
	Critical bool     `json:"critical,omitempty"` // criticality of the SAN extension
	DNS      [][]byte `json:"dns,omitempty"`      // dNSName entries (raw bytes)
	IPs      [][]byte `json:"ips,omitempty"`      // iPAddress entries (4 or 16 bytes)
	Emails   int      `json:"emails,omitempty"`   // number of rfc822Name entries placed before the DNS names
	URIs     int      `json:"uris,omitempty"`     // number of URI entries placed after the IPs
	HasCN    bool     `json:"has_cn"`
	CN       []byte   `json:"cn,omitempty"`
	CNType   int      `json:"cn_type,omitempty"`
	ExtraOU  bool     `json:"extra_ou,omitempty"` // an OU attribute next to the CN (must be ignored)
	OtherExt bool     `json:"other_ext,omitempty"`
}

func isPrintable(b []byte) bool {
	for _, c := range b {
		switch {
		case 'a' <= c && c <= 'z', 'A' <= c && c <= 'Z', '0' <= c && c <= '9':
		case c == ' ' || c == '\'' || c == '(' || c == ')' || c == '+' || c == ',' || c == '-' || c == '.' || c == '/' || c == ':' || c == '=' || c == '?':
		default:
			return false
		}
	}
	return true
}

func utcTime(s string) []byte { return der.Enc(0x17, []byte(s)) }

func attr(oid []byte, val []byte) []byte { return der.Set(der.Seq(oid, val)) }

// DER builds the certificate.  The signer is the pool's Ed25519 key, the issuer
// a different name (so the parser performs no self-signature check).
func (s CertSpec) DER() []byte {
	k := keys.Of("ed25519")[0]
	alg := pki.DefaultSigAlgDER(k)

	var rdns [][]byte
	if s.ExtraOU {
		rdns = append(rdns, attr(der.OID(2, 5, 4, 11), der.UTF8("a.b")))
	}
	if s.HasCN {
		var v []byte
		switch {
		case s.CNType == cnPrintable && isPrintable(s.CN):
			v = der.Printable(string(s.CN))
		case s.CNType == cnT61 || !utf8.Valid(s.CN):
			v = der.Enc(0x14, s.CN)
		default:
			v = der.UTF8(string(s.CN))
		}
		rdns = append(rdns, attr(der.OID(2, 5, 4, 3), v))
	}
	subject := der.Seq(rdns...)
	issuer := der.Seq(attr(der.OID(2, 5, 4, 3), der.UTF8("c09 issuer")))

	var exts [][]byte
	if s.OtherExt {
		// subjectKeyIdentifier, unrelated to names
		exts = append(exts, der.Seq(der.OID(2, 5, 29, 14), der.Octets(der.Octets([]byte{1, 2, 3, 4}))))
	}
	if s.SAN == SANPresent {
		var gns [][]byte
		for i := 0; i < s.Emails; i++ {
			gns = append(gns, der.Ctx(1, false, []byte("a@b")))
		}
		for _, d := range s.DNS {
			gns = append(gns, der.Ctx(2, false, d))
		}
		for _, ip := range s.IPs {
			gns = append(gns, der.Ctx(7, false, ip))
		}
		for i := 0; i < s.URIs; i++ {
			gns = append(gns, der.Ctx(6, false, []byte("http://a.b/")))
		}
		parts := [][]byte{der.OID(2, 5, 29, 17)}
		if s.Critical {
			parts = append(parts, der.Bool(true))
		}
		parts = append(parts, der.Octets(der.Seq(gns...)))
		exts = append(exts, der.Seq(parts...))
	}

	spki := der.Seq(alg, der.BitString([]byte(k.StdPub.(ed25519.PublicKey))))

	fields := [][]byte{
		der.Ctx(0, true, der.Int64(2)),
		der.Int64(9),
		alg,
		issuer,
		der.Seq(utcTime("230101000000Z"), utcTime("330101000000Z")),
		subject,
		spki,
	}
	if len(exts) > 0 {
		fields = append(fields, der.Ctx(3, true, der.Seq(exts...)))
	}
	tbs := der.Seq(fields...)
	return pki.ResignTBS(tbs, k)
}
