package certgen

import (
	"math/big"
	"net"

	"github.com/zmap/zcrypto/x509"
	"github.com/zmap/zcrypto/x509/pkix"
	"pgregory.net/rapid"
	"verifharness/der"
)

// OIDs of PKCS#9 extensionRequest and of the CRL extensions (RFC 2985, RFC 5280 section 5).
var (
	OIDExtensionRequest = []int{1, 2, 840, 113549, 1, 9, 14}
	OIDExtCRLNumber     = []int{2, 5, 29, 20}
	OIDExtReasonCode    = []int{2, 5, 29, 21}
	OIDExtInvalidity    = []int{2, 5, 29, 24}
)

// OtherAttr is a CSR attribute other than extensionRequest, in the
// AttributeTypeAndValueSET shape the template accepts.
type OtherAttr struct {
	OID   []int `json:"oid"`
	Inner []ATV `json:"inner"`
}

// CSR describes a CertificateRequest template.
type CSR struct {
	Subject     Name        `json:"subject"`
	DNS         []string    `json:"dns,omitempty"`
	Email       []string    `json:"email,omitempty"`
	IPs         [][]byte    `json:"ips,omitempty"`
	Extras      []Ext       `json:"extras,omitempty"`
	HasExtReq   bool        `json:"has_ext_req,omitempty"` // template.Attributes holds an extensionRequest attribute
	AttrExts    []Ext       `json:"attr_exts,omitempty"`   // its extensions (take priority over generated/extra ones)
	ExtReqFirst bool        `json:"ext_req_first,omitempty"`
	Others      []OtherAttr `json:"others,omitempty"`
	SigAlg      int         `json:"sig_alg,omitempty"`
}

// X509 builds the zcrypto template.
func (c CSR) X509() *x509.CertificateRequest {
	t := &x509.CertificateRequest{
		Subject:            c.Subject.PKIX(),
		DNSNames:           cp(c.DNS),
		EmailAddresses:     cp(c.Email),
		SignatureAlgorithm: x509.SignatureAlgorithm(c.SigAlg),
	}
	for _, ip := range c.IPs {
		t.IPAddresses = append(t.IPAddresses, net.IP(bcopy(ip)))
	}
	for _, e := range c.Extras {
		t.ExtraExtensions = append(t.ExtraExtensions, e.PKIX())
	}
	var extReq *pkix.AttributeTypeAndValueSET
	if c.HasExtReq {
		inner := []pkix.AttributeTypeAndValue{}
		for _, e := range c.AttrExts {
			inner = append(inner, pkix.AttributeTypeAndValue{Type: oid(e.OID), Value: append([]byte{}, e.Value...)})
		}
		extReq = &pkix.AttributeTypeAndValueSET{Type: oid(OIDExtensionRequest), Value: [][]pkix.AttributeTypeAndValue{inner}}
	}
	if extReq != nil && c.ExtReqFirst {
		t.Attributes = append(t.Attributes, *extReq)
	}
	for _, o := range c.Others {
		inner := []pkix.AttributeTypeAndValue{}
		for _, a := range o.Inner {
			atv := pkix.AttributeTypeAndValue{Type: oid(a.OID)}
			if a.Int != nil {
				atv.Value = *a.Int
			} else {
				atv.Value = a.S
			}
			inner = append(inner, atv)
		}
		t.Attributes = append(t.Attributes, pkix.AttributeTypeAndValueSET{Type: oid(o.OID), Value: [][]pkix.AttributeTypeAndValue{inner}})
	}
	if extReq != nil && !c.ExtReqFirst {
		t.Attributes = append(t.Attributes, *extReq)
	}
	return t
}

// ExpectedExtensions is the extension list (critical flags are not
// representable in a CSR) a parser must report: the attribute-specified ones,
// then the generated SAN (Exp.Kind "generated-san", no Value: its encoding is
// the library's business) and the extras unless attribute-specified.
func (c CSR) ExpectedExtensions() []Ext {
	var out []Ext
	spec := map[string]bool{}
	if c.HasExtReq {
		for _, e := range c.AttrExts {
			out = append(out, Ext{OID: e.OID, Value: e.Value, Exp: e.Exp})
			spec[OIDKey(e.OID)] = true
		}
	}
	hasSANExtra := false
	for _, e := range c.Extras {
		if OIDKey(e.OID) == OIDKey(OIDExtSAN) {
			hasSANExtra = true
		}
	}
	if len(c.DNS)+len(c.Email)+len(c.IPs) > 0 && !hasSANExtra && !spec[OIDKey(OIDExtSAN)] {
		out = append(out, Ext{OID: OIDExtSAN, Exp: &ExtExp{Kind: "generated-san"}})
	}
	for _, e := range c.Extras {
		if !spec[OIDKey(e.OID)] {
			out = append(out, Ext{OID: e.OID, Value: e.Value, Exp: e.Exp})
		}
	}
	return out
}

// SANValueDER encodes a subjectAltName value (dNSName, rfc822Name, iPAddress
// in that order) with the independent der package.
func SANValueDER(dns, emails []string, ips [][]byte) []byte {
	var body [][]byte
	for _, d := range dns {
		body = append(body, der.Ctx(2, false, []byte(d)))
	}
	for _, e := range emails {
		body = append(body, der.Ctx(1, false, []byte(e)))
	}
	for _, ip := range ips {
		body = append(body, der.Ctx(7, false, NormIP(ip)))
	}
	return der.Seq(body...)
}

func genSANOverride(t *rapid.T, label string) Ext {
	n := rapid.IntRange(1, 3).Draw(t, label+"-n")
	var names []string
	var body [][]byte
	for i := 0; i < n; i++ {
		h := GenHost(t, label+"-dns")
		names = append(names, h)
		body = append(body, der.Ctx(2, false, []byte(h)))
	}
	return Ext{OID: OIDExtSAN, Value: der.Seq(body...), Exp: &ExtExp{Kind: "san", DNS: names}}
}

func genPlainExt(t *rapid.T, label string, small bool) Ext {
	v := []byte{}
	if Chance(t, label+"-val-p", 85) {
		v = GenBytes(t, label+"-val", 300)
	}
	return Ext{OID: GenOID(t, label+"-oid", small), Critical: rapid.Bool().Draw(t, label+"-crit"), Value: v}
}

// GenCSR draws a CSR template description.
func GenCSR(t *rapid.T, label string, d int) CSR {
	var c CSR
	nd := d
	if nd > 40 {
		nd = 40
	}
	c.Subject = GenName(t, label+"-subj", nd)
	c.DNS = genStrs(t, label+"-dns", d+10, GenHost)
	c.Email = genStrs(t, label+"-email", d/2, GenEmail)
	if Chance(t, label+"-ip-p", d) {
		n := rapid.IntRange(1, 3).Draw(t, label+"-ip-n")
		for i := 0; i < n; i++ {
			c.IPs = append(c.IPs, GenIP(t, label+"-ip"))
		}
	}
	if Chance(t, label+"-extras-p", d) {
		n := rapid.IntRange(1, 3).Draw(t, label+"-extras-n")
		san := false
		for i := 0; i < n; i++ {
			if !san && Chance(t, label+"-extras-san", 25) {
				san = true
				c.Extras = append(c.Extras, genSANOverride(t, label+"-extra-san"))
			} else {
				c.Extras = append(c.Extras, genPlainExt(t, label+"-extra", false))
			}
		}
	}
	if Chance(t, label+"-extreq-p", d/2) {
		c.HasExtReq = true
		c.ExtReqFirst = rapid.Bool().Draw(t, label+"-extreq-first")
		n := rapid.IntRange(0, 3).Draw(t, label+"-extreq-n")
		san := false
		for i := 0; i < n; i++ {
			switch {
			case !san && Chance(t, label+"-extreq-san", 25):
				san = true
				c.AttrExts = append(c.AttrExts, genSANOverride(t, label+"-attr-san"))
			case len(c.Extras) > 0 && Chance(t, label+"-extreq-same", 30):
				// same OID as one of the extra extensions: the attribute takes priority
				e := rapid.SampledFrom(c.Extras).Draw(t, label+"-extreq-dup")
				if e.Exp != nil {
					continue
				}
				c.AttrExts = append(c.AttrExts, Ext{OID: e.OID, Value: GenBytes(t, label+"-extreq-dup-val", 40)})
			default:
				e := genPlainExt(t, label+"-attr", false)
				e.Critical = false
				c.AttrExts = append(c.AttrExts, e)
			}
		}
	}
	if Chance(t, label+"-others-p", d/2) {
		n := rapid.IntRange(1, 2).Draw(t, label+"-others-n")
		for i := 0; i < n; i++ {
			o := OtherAttr{OID: rapid.SampledFrom([][]int{{1, 2, 840, 113549, 1, 9, 7}, {1, 2, 840, 113549, 1, 9, 2}, {1, 3, 9999, 7}}).Draw(t, label+"-other-oid")}
			k := rapid.IntRange(1, 2).Draw(t, label+"-other-k")
			for j := 0; j < k; j++ {
				o.Inner = append(o.Inner, ATV{OID: rapid.SampledFrom(UnknownAttrOIDs).Draw(t, label+"-other-t"), S: GenValue(t, label+"-other-v")})
			}
			c.Others = append(c.Others, o)
		}
	}
	return c
}

// ---------------------------------------------------------------------------
// CRLs

// CRLEntry is one revoked certificate.  Reason is used by the v2 API only.
type CRLEntry struct {
	Serial string `json:"serial"`
	Time   Time   `json:"time"`
	Reason *int   `json:"reason,omitempty"`
	Exts   []Ext  `json:"exts,omitempty"`
}

// SerialInt returns the serial number.
func (e CRLEntry) SerialInt() *big.Int {
	v, ok := new(big.Int).SetString(e.Serial, 10)
	if !ok {
		return big.NewInt(1)
	}
	return v
}

// CRL describes the arguments of the legacy (*Certificate).CreateCRL.
type CRL struct {
	Entries []CRLEntry `json:"entries,omitempty"`
	Now     Time       `json:"now"`
	Expiry  Time       `json:"expiry"`
}

// Revoked builds the legacy entry list.
func (c CRL) Revoked() []pkix.RevokedCertificate {
	var out []pkix.RevokedCertificate
	for _, e := range c.Entries {
		rc := pkix.RevokedCertificate{SerialNumber: e.SerialInt(), RevocationTime: e.Time.T()}
		for _, x := range e.Exts {
			rc.Extensions = append(rc.Extensions, x.PKIX())
		}
		out = append(out, rc)
	}
	return out
}

// RL describes a RevocationList template for CreateRevocationList.
type RL struct {
	Entries    []CRLEntry `json:"entries,omitempty"`
	NilEntries bool       `json:"nil_entries,omitempty"`
	Number     string     `json:"number"`
	ThisUpdate Time       `json:"this_update"`
	NextUpdate Time       `json:"next_update"`
	Extras     []Ext      `json:"extras,omitempty"`
	SigAlg     int        `json:"sig_alg,omitempty"`
}

// NumberInt returns the CRL number.
func (r RL) NumberInt() *big.Int {
	v, ok := new(big.Int).SetString(r.Number, 10)
	if !ok {
		return big.NewInt(1)
	}
	return v
}

// X509 builds the zcrypto template.
func (r RL) X509() *x509.RevocationList {
	t := &x509.RevocationList{
		Number:             r.NumberInt(),
		ThisUpdate:         r.ThisUpdate.T(),
		NextUpdate:         r.NextUpdate.T(),
		SignatureAlgorithm: x509.SignatureAlgorithm(r.SigAlg),
	}
	if !r.NilEntries || len(r.Entries) > 0 {
		t.RevokedCertificates = []x509.RevokedCertificate{}
	}
	for _, e := range r.Entries {
		rc := x509.RevokedCertificate{SerialNumber: e.SerialInt(), RevocationTime: e.Time.T()}
		if e.Reason != nil {
			v := *e.Reason
			rc.ReasonCode = &v
		}
		for _, x := range e.Exts {
			rc.ExtraExtensions = append(rc.ExtraExtensions, x.PKIX())
		}
		t.RevokedCertificates = append(t.RevokedCertificates, rc)
	}
	for _, e := range r.Extras {
		t.ExtraExtensions = append(t.ExtraExtensions, e.PKIX())
	}
	return t
}

// EnumDER encodes an ENUMERATED value.
func EnumDER(v int) []byte {
	b := der.Int64(int64(v))
	b[0] = 0x0a
	return b
}

// GenEntries draws revoked-certificate entries.  v2 adds reason codes and
// user-supplied reasonCode extensions (which the v2 API must replace).
func GenEntries(t *rapid.T, label string, v2 bool, small bool) []CRLEntry {
	n := rapid.SampledFrom([]int{0, 1, 1, 2, 3, 5, 8}).Draw(t, label+"-n")
	var out []CRLEntry
	for i := 0; i < n; i++ {
		var e CRLEntry
		if i > 0 && Chance(t, label+"-dup", 10) {
			e.Serial = out[0].Serial
		} else {
			e.Serial = GenSerial(t, label+"-serial")
		}
		e.Time = GenTime(t, label+"-time", false)
		if v2 && Chance(t, label+"-reason-p", 60) {
			rc := rapid.SampledFrom([]int{0, 0, 1, 2, 3, 4, 5, 6, 8, 9, 10}).Draw(t, label+"-reason")
			e.Reason = &rc
		}
		if Chance(t, label+"-exts-p", 30) {
			k := rapid.IntRange(1, 2).Draw(t, label+"-exts-n")
			for j := 0; j < k; j++ {
				switch {
				case v2 && Chance(t, label+"-user-reason", 40):
					// a user-supplied reasonCode extension: v2 must drop it and synthesise its own
					e.Exts = append(e.Exts, Ext{OID: OIDExtReasonCode, Value: EnumDER(rapid.IntRange(0, 10).Draw(t, label+"-user-reason-v")), Critical: rapid.Bool().Draw(t, label+"-user-reason-crit")})
				case Chance(t, label+"-invalidity", 30):
					e.Exts = append(e.Exts, Ext{OID: OIDExtInvalidity, Value: der.Enc(0x18, []byte("20240101000000Z"))})
				default:
					e.Exts = append(e.Exts, genPlainExt(t, label+"-ext", small))
				}
			}
		}
		out = append(out, e)
	}
	return out
}

// GenCRL draws legacy CreateCRL arguments.
func GenCRL(t *rapid.T, label string) CRL {
	c := CRL{Entries: GenEntries(t, label+"-e", false, false)}
	c.Now = GenTime(t, label+"-now", false)
	if Chance(t, label+"-exp-rel", 70) {
		c.Expiry = Time{Unix: min64(c.Now.Unix+rapid.Int64Range(0, 40*86400).Draw(t, label+"-exp-delta"), 253402214400)}
	} else {
		c.Expiry = GenTime(t, label+"-exp", false)
	}
	return c
}

func min64(a, b int64) int64 {
	if a < b {
		return a
	}
	return b
}

// GenRL draws a v2 revocation list template.
func GenRL(t *rapid.T, label string, small bool) RL {
	r := RL{Entries: GenEntries(t, label+"-e", true, small)}
	r.NilEntries = rapid.Bool().Draw(t, label+"-nil")
	switch rapid.IntRange(0, 3).Draw(t, label+"-num-kind") {
	case 0:
		r.Number = rapid.SampledFrom([]string{"0", "1", "127", "128", "255", "256", "65536",
			"730750818665451459101842416358141509827966271487",   // 2^159-1: 20 octets, top bit clear
			"182687704666362864775460604089535377456991567871"}). // 2^157-1
			Draw(t, label+"-num")
	default:
		n := rapid.SampledFrom([]int{1, 2, 8, 16, 19, 20}).Draw(t, label+"-num-len")
		b := rapid.SliceOfN(rapid.Byte(), n, n).Draw(t, label+"-num-b")
		if n == 20 {
			b[0] &= 0x7f
		}
		r.Number = new(big.Int).SetBytes(b).String()
	}
	r.ThisUpdate = GenTime(t, label+"-this", false)
	r.NextUpdate = Time{Unix: min64(r.ThisUpdate.Unix+rapid.Int64Range(0, 400*86400).Draw(t, label+"-next-delta"), 253402214400)}
	if r.NextUpdate.Unix < r.ThisUpdate.Unix {
		r.NextUpdate.Unix = r.ThisUpdate.Unix
	}
	if r.NextUpdate.Unix == r.ThisUpdate.Unix {
		// NextUpdate must not be before ThisUpdate: keep the sub-second parts ordered too
		r.NextUpdate.Nanos = r.ThisUpdate.Nanos
	}
	if Chance(t, label+"-extras-p", 35) {
		n := rapid.IntRange(1, 2).Draw(t, label+"-extras-n")
		for i := 0; i < n; i++ {
			r.Extras = append(r.Extras, genPlainExt(t, label+"-extra", small))
		}
	}
	return r
}
