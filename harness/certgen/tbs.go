package certgen

import (
	"encoding/binary"
	"errors"
	"math/big"

	"verifharness/der"
)

// Parts is the zcrypto-independent decomposition of a certificate (der package only).
type Parts struct {
	Cert, TBS, OuterAlg, Sig der.TLV
	Kids                     []der.TLV // elements of the TBS
	HasVersion               bool
	Version                  int64 // encoded version (0 when absent)
	Serial, InnerAlg         der.TLV
	Issuer, Validity         der.TLV
	Subject, SPKI            der.TLV
	ExtIdx                   int       // index in Kids of the [3] extensions element, -1 if absent
	Exts                     []der.TLV // the Extension SEQUENCEs
	Rest                     []byte    // bytes after the certificate
	// LaxExplicit: the content of the EXPLICIT [0] version or [3] extensions
	// wrapper is not exactly one element (a DER decoder must reject that).
	LaxExplicit bool
}

// Split decomposes certificate DER.
func Split(b []byte) (*Parts, error) {
	p := &Parts{ExtIdx: -1}
	var err error
	p.Cert, p.Rest, err = der.Parse(b)
	if err != nil {
		return nil, err
	}
	top, err := der.Children(p.Cert.Body)
	if err != nil || len(top) != 3 {
		return nil, errors.New("certgen: certificate is not a 3-element sequence")
	}
	p.TBS, p.OuterAlg, p.Sig = top[0], top[1], top[2]
	p.Kids, err = der.Children(p.TBS.Body)
	if err != nil {
		return nil, err
	}
	i := 0
	if len(p.Kids) > 0 && p.Kids[0].Class == 2 && p.Kids[0].Tag == 0 && p.Kids[0].Constructed {
		in, rest, err := der.Parse(p.Kids[0].Body)
		if err != nil || in.Tag != 2 || in.Class != 0 {
			return nil, errors.New("certgen: bad version")
		}
		if len(rest) != 0 {
			p.LaxExplicit = true
		}
		p.HasVersion = true
		v := new(big.Int).SetBytes(in.Body)
		if len(in.Body) > 0 && in.Body[0]&0x80 != 0 {
			v.Sub(v, new(big.Int).Lsh(big.NewInt(1), uint(8*len(in.Body))))
		}
		if !v.IsInt64() {
			return nil, errors.New("certgen: huge version")
		}
		p.Version = v.Int64()
		i = 1
	}
	if len(p.Kids) < i+6 {
		return nil, errors.New("certgen: short TBS")
	}
	p.Serial, p.InnerAlg, p.Issuer, p.Validity, p.Subject, p.SPKI = p.Kids[i], p.Kids[i+1], p.Kids[i+2], p.Kids[i+3], p.Kids[i+4], p.Kids[i+5]
	for j := i + 6; j < len(p.Kids); j++ {
		if p.Kids[j].Class == 2 && p.Kids[j].Tag == 3 && p.Kids[j].Constructed {
			p.ExtIdx = j
			seq, rest, err := der.Parse(p.Kids[j].Body)
			if err != nil {
				return nil, err
			}
			if len(rest) != 0 {
				p.LaxExplicit = true
			}
			p.Exts, err = der.Children(seq.Body)
			if err != nil {
				return nil, err
			}
		}
	}
	return p, nil
}

// SigBytes returns the signature value (BIT STRING content without the unused-bits octet).
func (p *Parts) SigBytes() []byte {
	if len(p.Sig.Body) == 0 {
		return nil
	}
	return p.Sig.Body[1:]
}

// TBSWith rebuilds the TBS with a different version element and extension list.
// version: -1 omits the [0] element; exts == nil omits the [3] element.
func (p *Parts) TBSWith(version int64, exts [][]byte) []byte {
	var kids [][]byte
	if version >= 0 {
		kids = append(kids, der.Ctx(0, true, der.Int64(version)))
	}
	start := 0
	if p.HasVersion {
		start = 1
	}
	for j := start; j < len(p.Kids); j++ {
		if j == p.ExtIdx {
			continue
		}
		kids = append(kids, p.Kids[j].Full)
	}
	if len(exts) > 0 {
		kids = append(kids, der.Ctx(3, true, der.Seq(exts...)))
	}
	return der.Seq(kids...)
}

// ExtFulls returns the encoded extensions.
func (p *Parts) ExtFulls() [][]byte {
	var out [][]byte
	for _, e := range p.Exts {
		out = append(out, e.Full)
	}
	return out
}

// PoisonExtDER is the CT precertificate poison extension (RFC 6962 section 3.1).
func PoisonExtDER() []byte {
	return der.Seq(der.OID(OIDExtCTPoison...), der.Bool(true), der.Octets(der.Null()))
}

// PoisonExtDERCritical is the poison extension with the given criticality (RFC 6962
// demands critical; a non-critical one is still accepted by the parser and reported as a
// precertificate, so it is a CT poison extension the no-CT fingerprint must ignore too).
// critical == false omits the DEFAULT FALSE field, as DER requires.
func PoisonExtDERCritical(critical bool) []byte {
	if critical {
		return PoisonExtDER()
	}
	return der.Seq(der.OID(OIDExtCTPoison...), der.Octets(der.Null()))
}

// SCT describes one version-1 SignedCertificateTimestamp.
type SCT struct {
	LogID     []byte `json:"log_id"` // 32 bytes
	Timestamp uint64 `json:"timestamp"`
	Ext       []byte `json:"ext,omitempty"`
	HashAlg   byte   `json:"hash_alg"`
	SigAlg    byte   `json:"sig_alg"`
	Sig       []byte `json:"sig"`
}

// SCTListExtDER is the SignedCertificateTimestampList extension (RFC 6962
// section 3.3): OCTET STRING { OCTET STRING { TLS-encoded list } }.
func SCTListExtDER(scts []SCT) []byte {
	var list []byte
	for _, s := range scts {
		id := make([]byte, 32)
		copy(id, s.LogID)
		one := []byte{0}
		one = append(one, id...)
		one = binary.BigEndian.AppendUint64(one, s.Timestamp)
		one = binary.BigEndian.AppendUint16(one, uint16(len(s.Ext)))
		one = append(one, s.Ext...)
		one = append(one, s.HashAlg, s.SigAlg)
		one = binary.BigEndian.AppendUint16(one, uint16(len(s.Sig)))
		one = append(one, s.Sig...)
		list = binary.BigEndian.AppendUint16(list, uint16(len(one)))
		list = append(list, one...)
	}
	tls := binary.BigEndian.AppendUint16(nil, uint16(len(list)))
	tls = append(tls, list...)
	return der.Seq(der.OID(OIDExtCTSCT...), der.Octets(der.Octets(tls)))
}
