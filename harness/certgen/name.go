// Package certgen holds JSON-serialisable descriptions of zcrypto x509 objects
// (distinguished names, certificate templates, CSR / CRL templates), rapid
// generators for them, converters to the zcrypto types, and issuing helpers.
//
// Everything a check needs to rebuild the object is in the spec struct, so a
// spec can be a field of a replayable kit case.  The OID tables in this package
// are transcribed from X.520 / RFC 5280 / the CA/B Forum EV guidelines and do
// not import zcrypto's tables (they serve as independent oracles).
package certgen

import (
	"fmt"
	"sort"
	"strings"
	"unicode/utf8"

	"github.com/zmap/zcrypto/encoding/asn1"
	"github.com/zmap/zcrypto/x509/pkix"
	"pgregory.net/rapid"
)

// ATV is one ExtraNames entry: a string value, or (Int != nil) an INTEGER value.
type ATV struct {
	OID []int  `json:"oid"`
	S   string `json:"s,omitempty"`
	Int *int64 `json:"int,omitempty"`
}

// Name describes a pkix.Name over the fields ToRDNSequence emits.
type Name struct {
	CN     string   `json:"cn,omitempty"`
	Serial string   `json:"serial,omitempty"`
	Email  []string `json:"email,omitempty"`
	OU     []string `json:"ou,omitempty"`
	O      []string `json:"o,omitempty"`
	Street []string `json:"street,omitempty"`
	L      []string `json:"l,omitempty"`
	ST     []string `json:"st,omitempty"`
	Postal []string `json:"postal,omitempty"`
	C      []string `json:"c,omitempty"`
	DC     []string `json:"dc,omitempty"`
	JL     []string `json:"jl,omitempty"`
	JST    []string `json:"jst,omitempty"`
	JC     []string `json:"jc,omitempty"`
	OrgID  []string `json:"org_id,omitempty"`
	Extra  []ATV    `json:"extra,omitempty"`
}

// Attribute type OIDs (X.520, RFC 4519, RFC 2985, EV guidelines 9.2.4, ETSI EN 319 412-1).
var (
	OIDCN        = []int{2, 5, 4, 3}
	OIDSurname   = []int{2, 5, 4, 4}
	OIDSerial    = []int{2, 5, 4, 5}
	OIDC         = []int{2, 5, 4, 6}
	OIDL         = []int{2, 5, 4, 7}
	OIDST        = []int{2, 5, 4, 8}
	OIDStreet    = []int{2, 5, 4, 9}
	OIDO         = []int{2, 5, 4, 10}
	OIDOU        = []int{2, 5, 4, 11}
	OIDPostal    = []int{2, 5, 4, 17}
	OIDGivenName = []int{2, 5, 4, 42}
	OIDOrgID     = []int{2, 5, 4, 97}
	OIDDC        = []int{0, 9, 2342, 19200300, 100, 1, 25}
	OIDEmail     = []int{1, 2, 840, 113549, 1, 9, 1}
	OIDJL        = []int{1, 3, 6, 1, 4, 1, 311, 60, 2, 1, 1}
	OIDJST       = []int{1, 3, 6, 1, 4, 1, 311, 60, 2, 1, 2}
	OIDJC        = []int{1, 3, 6, 1, 4, 1, 311, 60, 2, 1, 3}
)

// FieldOIDs maps the field keys used by Fields / FilledFields to attribute OIDs.
var FieldOIDs = []struct {
	Key string
	OID []int
}{
	{"CN", OIDCN}, {"SURNAME", OIDSurname}, {"SERIALNUMBER", OIDSerial}, {"C", OIDC}, {"L", OIDL}, {"ST", OIDST},
	{"STREET", OIDStreet}, {"O", OIDO}, {"OU", OIDOU}, {"POSTALCODE", OIDPostal}, {"GIVENNAME", OIDGivenName},
	{"ORGID", OIDOrgID}, {"DC", OIDDC}, {"EMAIL", OIDEmail}, {"JL", OIDJL}, {"JST", OIDJST}, {"JC", OIDJC},
}

// OIDKey renders an OID as dotted text.
func OIDKey(o []int) string {
	var sb strings.Builder
	for i, a := range o {
		if i > 0 {
			sb.WriteByte('.')
		}
		fmt.Fprintf(&sb, "%d", a)
	}
	return sb.String()
}

// FieldOfOID returns the field key of an attribute OID, "" if it is none of the known ones.
func FieldOfOID(o []int) string {
	k := OIDKey(o)
	for _, f := range FieldOIDs {
		if OIDKey(f.OID) == k {
			return f.Key
		}
	}
	return ""
}

// PKIX converts the description into a zcrypto pkix.Name.
func (n Name) PKIX() pkix.Name {
	p := pkix.Name{
		CommonName: n.CN, SerialNumber: n.Serial,
		EmailAddress: cp(n.Email), OrganizationalUnit: cp(n.OU), Organization: cp(n.O), StreetAddress: cp(n.Street),
		Locality: cp(n.L), Province: cp(n.ST), PostalCode: cp(n.Postal), Country: cp(n.C), DomainComponent: cp(n.DC),
		JurisdictionLocality: cp(n.JL), JurisdictionProvince: cp(n.JST), JurisdictionCountry: cp(n.JC),
		OrganizationIDs: cp(n.OrgID),
	}
	for _, e := range n.Extra {
		atv := pkix.AttributeTypeAndValue{Type: asn1.ObjectIdentifier(append([]int(nil), e.OID...))}
		if e.Int != nil {
			atv.Value = *e.Int
		} else {
			atv.Value = e.S
		}
		p.ExtraNames = append(p.ExtraNames, atv)
	}
	return p
}

func cp(s []string) []string {
	if len(s) == 0 {
		return nil
	}
	return append([]string(nil), s...)
}

// Attr is one (type, value) pair of a flattened name; Str is only meaningful when IsStr.
type Attr struct {
	OID   string
	IsStr bool
	Str   string
	Int   int64
}

// Attrs is the attribute sequence the name denotes, in the order RFC-style
// converters emit it is NOT relevant: callers compare per type.  CN and serial
// number are emitted only when non-empty (documented behaviour of the
// converter: they are plain strings, not lists).
func (n Name) Attrs() []Attr {
	var out []Attr
	add := func(oid []int, vs ...string) {
		for _, v := range vs {
			out = append(out, Attr{OID: OIDKey(oid), IsStr: true, Str: v})
		}
	}
	if n.CN != "" {
		add(OIDCN, n.CN)
	}
	add(OIDEmail, n.Email...)
	add(OIDOU, n.OU...)
	add(OIDO, n.O...)
	add(OIDStreet, n.Street...)
	add(OIDL, n.L...)
	add(OIDST, n.ST...)
	add(OIDPostal, n.Postal...)
	add(OIDC, n.C...)
	add(OIDDC, n.DC...)
	add(OIDJL, n.JL...)
	add(OIDJST, n.JST...)
	add(OIDJC, n.JC...)
	add(OIDOrgID, n.OrgID...)
	if n.Serial != "" {
		add(OIDSerial, n.Serial)
	}
	for _, e := range n.Extra {
		if e.Int != nil {
			out = append(out, Attr{OID: OIDKey(e.OID), Int: *e.Int})
		} else {
			out = append(out, Attr{OID: OIDKey(e.OID), IsStr: true, Str: e.S})
		}
	}
	return out
}

// Fields returns, per field key, the sorted multiset of string values the name
// carries for that attribute type (fields and string-valued extra names).
func (n Name) Fields() map[string][]string {
	return FieldsOfAttrs(n.Attrs())
}

// FieldsOfAttrs groups string attributes by field key (sorted values).
func FieldsOfAttrs(as []Attr) map[string][]string {
	m := map[string][]string{}
	for _, a := range as {
		if !a.IsStr {
			continue
		}
		for _, f := range FieldOIDs {
			if OIDKey(f.OID) == a.OID {
				m[f.Key] = append(m[f.Key], a.Str)
			}
		}
	}
	for k := range m {
		sort.Strings(m[k])
	}
	return m
}

// FilledFields reads the per-type value lists out of a pkix.Name that was
// filled by FillFromRDNSequence (sorted when sorted is true, else in order).
func FilledFields(p *pkix.Name, sorted bool) map[string][]string {
	m := map[string][]string{
		"CN": p.CommonNames, "SURNAME": p.Surname, "SERIALNUMBER": p.SerialNumbers, "C": p.Country, "L": p.Locality,
		"ST": p.Province, "STREET": p.StreetAddress, "O": p.Organization, "OU": p.OrganizationalUnit,
		"POSTALCODE": p.PostalCode, "GIVENNAME": p.GivenName, "ORGID": p.OrganizationIDs, "DC": p.DomainComponent,
		"EMAIL": p.EmailAddress, "JL": p.JurisdictionLocality, "JST": p.JurisdictionProvince, "JC": p.JurisdictionCountry,
	}
	out := map[string][]string{}
	for k, v := range m {
		if len(v) == 0 {
			continue
		}
		c := append([]string(nil), v...)
		if sorted {
			sort.Strings(c)
		}
		out[k] = c
	}
	return out
}

// DiffFields compares two per-field maps; it returns "" when equal, else a description.
func DiffFields(want, got map[string][]string) string {
	for _, f := range FieldOIDs {
		w, g := want[f.Key], got[f.Key]
		if len(w) != len(g) {
			return fmt.Sprintf("field %s: want %q got %q", f.Key, w, g)
		}
		for i := range w {
			if w[i] != g[i] {
				return fmt.Sprintf("field %s: want %q got %q", f.Key, w, g)
			}
		}
	}
	return ""
}

// CompareFilled checks a parsed/filled pkix.Name against the description: every
// attribute field as a multiset (multi-valued RDNs are DER SETs and may be
// re-ordered by the encoder), Names as a multiset of all attributes, and the
// scalar CommonName / SerialNumber as a member of the respective value list
// (exactly the value when there is only one).  "" means equal.
func (n Name) CompareFilled(p *pkix.Name) string {
	want := n.Fields()
	if d := DiffFields(want, FilledFields(p, true)); d != "" {
		return d
	}
	if d := scalar("CommonName", p.CommonName, want["CN"]); d != "" {
		return d
	}
	if d := scalar("SerialNumber", p.SerialNumber, want["SERIALNUMBER"]); d != "" {
		return d
	}
	// Names: all attributes
	key := func(a Attr) string {
		if a.IsStr {
			return a.OID + "=s:" + a.Str
		}
		return fmt.Sprintf("%s=i:%d", a.OID, a.Int)
	}
	var w, g []string
	for _, a := range n.Attrs() {
		w = append(w, key(a))
	}
	for _, a := range p.Names {
		switch v := a.Value.(type) {
		case string:
			g = append(g, key(Attr{OID: a.Type.String(), IsStr: true, Str: v}))
		case int64:
			g = append(g, key(Attr{OID: a.Type.String(), Int: v}))
		default:
			g = append(g, fmt.Sprintf("%s=?:%v", a.Type.String(), v))
		}
	}
	sort.Strings(w)
	sort.Strings(g)
	if len(w) != len(g) {
		return fmt.Sprintf("Names: want %d attributes %q, got %d %q", len(w), w, len(g), g)
	}
	for i := range w {
		if w[i] != g[i] {
			return fmt.Sprintf("Names: want %q got %q", w, g)
		}
	}
	return ""
}

func scalar(what, got string, vals []string) string {
	if len(vals) == 0 {
		if got != "" {
			return fmt.Sprintf("%s = %q but no such attribute was supplied", what, got)
		}
		return ""
	}
	for _, v := range vals {
		if v == got {
			return ""
		}
	}
	return fmt.Sprintf("%s = %q is none of the supplied values %q", what, got, vals)
}

// ---------------------------------------------------------------------------
// generators

var printableRunes = []rune("abcdefghijklmnopqrstuvwxyzABCDEFGHIJKLMNOPQRSTUVWXYZ0123456789 '()+,-./:=?")

// SpecialValues are attribute values with characters that matter to DN string
// syntax and to the PrintableString / UTF8String choice.
var SpecialValues = []string{
	"", " ", "  ", " lead", "trail ", "a,b", "a+b", `q"q`, `back\slash`, "<x>", "a;b", "#hash", "a#b", "a=b", "=",
	"*.example.com", "AT&T", "user@example.com", "a_b", "100%", "x\x00y", "line\nbreak", "tab\there", "\x7f",
	"Z\u00fcrich", "\u00dcn\u00efc\u00f6d\u00e9", "\u65e5\u672c\u8a9e", "\u0395\u03bb\u03bb\u03ac\u03b4\u03b1", "emoji\U0001F600",
	"\u00a0nbsp", "\ufeffbom", "\u00e9", "\u2028", "US", "DE",
}

// GenValue draws one attribute value (valid UTF-8).
func GenValue(t *rapid.T, label string) string {
	switch rapid.IntRange(0, 9).Draw(t, label+"-kind") {
	case 0, 1, 2, 3:
		return rapid.StringOfN(rapid.RuneFrom(printableRunes), 1, 12, -1).Draw(t, label)
	case 4, 5, 6:
		return rapid.SampledFrom(SpecialValues).Draw(t, label)
	case 7:
		s := rapid.StringN(0, 8, -1).Draw(t, label)
		if !utf8.ValidString(s) {
			s = strings.ToValidUTF8(s, "?")
		}
		return s
	case 8:
		// long values: long-form DER lengths
		n := rapid.SampledFrom([]int{64, 65, 127, 128, 129, 200, 255, 256, 300}).Draw(t, label+"-len")
		return strings.Repeat(rapid.SampledFrom([]string{"x", "\u00e9", "*"}).Draw(t, label+"-ch"), n)
	default:
		return rapid.StringOfN(rapid.RuneFrom(printableRunes), 0, 3, -1).Draw(t, label) +
			rapid.SampledFrom(SpecialValues).Draw(t, label+"-sp")
	}
}

// Chance draws a boolean that is true with probability pct/100 and shrinks to false.
func Chance(t *rapid.T, label string, pct int) bool {
	return rapid.IntRange(0, 99).Draw(t, label) >= 100-pct
}

func genList(t *rapid.T, label string, pPresent int) []string {
	if !Chance(t, label+"-p", pPresent) {
		return nil
	}
	n := rapid.SampledFrom([]int{1, 1, 1, 2, 2, 3}).Draw(t, label+"-n")
	out := make([]string, n)
	for i := range out {
		out[i] = GenValue(t, label)
	}
	return out
}

// UnknownAttrOIDs are attribute types no field corresponds to.
var UnknownAttrOIDs = [][]int{
	{2, 5, 4, 12}, {2, 5, 4, 13}, {2, 5, 4, 15}, {2, 5, 4, 41}, {2, 5, 4, 43}, {2, 5, 4, 46}, {2, 5, 4, 65}, {2, 5, 4, 18},
	{2, 5, 4, 3, 1}, {2, 5, 5, 3}, {1, 2, 840, 113549, 1, 9, 2}, {1, 3, 6, 1, 4, 1, 311, 60, 2, 1, 4},
	{0, 9, 2342, 19200300, 100, 1, 1}, {1, 3, 9999, 1}, {2, 999, 1}, {1, 2, 3}, {2, 5, 4, 268435455}, {1, 3, 6, 1, 4, 1, 2147483647},
}

// GenName draws a name.  density is the percentage chance of each list field
// being present (use ~35 for "rich" names, ~10 for small ones).  Extra names
// with a known attribute type are only drawn for fields that are empty,
// because the documentation of ExtraNames ("override") and the code (both are
// emitted) disagree about collisions.
func GenName(t *rapid.T, label string, density int) Name {
	var n Name
	if Chance(t, label+"-cn-p", 75) {
		n.CN = GenValue(t, label+"-cn")
	}
	if Chance(t, label+"-sn-p", density) {
		n.Serial = GenValue(t, label+"-sn")
	}
	n.Email = genList(t, label+"-email", density)
	n.OU = genList(t, label+"-ou", density)
	n.O = genList(t, label+"-o", density+20)
	n.Street = genList(t, label+"-street", density)
	n.L = genList(t, label+"-l", density)
	n.ST = genList(t, label+"-st", density)
	n.Postal = genList(t, label+"-postal", density)
	n.C = genList(t, label+"-c", density+20)
	n.DC = genList(t, label+"-dc", density)
	n.JL = genList(t, label+"-jl", density/2)
	n.JST = genList(t, label+"-jst", density/2)
	n.JC = genList(t, label+"-jc", density/2)
	n.OrgID = genList(t, label+"-orgid", density/2)
	if Chance(t, label+"-extra-p", density) {
		have := n.Fields()
		k := rapid.IntRange(1, 3).Draw(t, label+"-extra-n")
		for i := 0; i < k; i++ {
			var oid []int
			if rapid.Bool().Draw(t, label+"-extra-known") {
				f := rapid.SampledFrom(FieldOIDs).Draw(t, label+"-extra-field")
				if len(have[f.Key]) > 0 {
					continue
				}
				oid = f.OID
			} else {
				oid = rapid.SampledFrom(UnknownAttrOIDs).Draw(t, label+"-extra-oid")
			}
			e := ATV{OID: oid}
			if rapid.IntRange(0, 9).Draw(t, label+"-extra-int") == 0 {
				v := rapid.SampledFrom([]int64{0, 1, -1, 127, 128, -129, 65536, 1 << 40}).Draw(t, label+"-extra-intv")
				e.Int = &v
			} else {
				e.S = GenValue(t, label+"-extra-v")
			}
			n.Extra = append(n.Extra, e)
		}
	}
	return n
}

// StringOnly returns a copy of the name without INTEGER-valued extra names
// (some parsers of names accept string attribute values only).
func (n Name) StringOnly() Name {
	var ex []ATV
	for _, e := range n.Extra {
		if e.Int == nil {
			ex = append(ex, e)
		}
	}
	n.Extra = ex
	return n
}

// Features counts the populated attribute types and reports whether some
// value is not a plain printable word (UTF-8 / special characters).
func (n Name) Features() (types int, multi int, special bool) {
	seen := map[string]int{}
	for _, a := range n.Attrs() {
		seen[a.OID]++
		if !a.IsStr {
			special = true
			continue
		}
		if a.Str == "" || strings.TrimSpace(a.Str) != a.Str {
			special = true
		}
		for _, r := range a.Str {
			ok := false
			for _, p := range printableRunes {
				if p == r {
					ok = true
				}
			}
			if !ok || strings.ContainsRune(",+=;#<>\"\\", r) {
				special = true
			}
		}
	}
	for _, c := range seen {
		if c > 1 {
			multi++
		}
	}
	return len(seen), multi, special
}
