package certgen

import (
	"bytes"
	"crypto"
	"crypto/ecdsa"
	"crypto/ed25519"
	_ "crypto/md5"
	stdrsa "crypto/rsa"
	_ "crypto/sha1"
	_ "crypto/sha256"
	_ "crypto/sha512"
	stdx509 "crypto/x509"

	"verifharness/der"
)

// StdAlg is a signature algorithm read from an AlgorithmIdentifier by the
// harness' own table (RFC 3279, 4055, 5758, 8410).
type StdAlg struct {
	Key  string // "rsa" | "ec" | "ed25519" | "dsa"
	Hash crypto.Hash
	PSS  bool
}

var algTable = []struct {
	oid []int
	alg StdAlg
}{
	{[]int{1, 2, 840, 113549, 1, 1, 4}, StdAlg{"rsa", crypto.MD5, false}},
	{[]int{1, 2, 840, 113549, 1, 1, 5}, StdAlg{"rsa", crypto.SHA1, false}},
	{[]int{1, 3, 14, 3, 2, 29}, StdAlg{"rsa", crypto.SHA1, false}},
	{[]int{1, 2, 840, 113549, 1, 1, 11}, StdAlg{"rsa", crypto.SHA256, false}},
	{[]int{1, 2, 840, 113549, 1, 1, 12}, StdAlg{"rsa", crypto.SHA384, false}},
	{[]int{1, 2, 840, 113549, 1, 1, 13}, StdAlg{"rsa", crypto.SHA512, false}},
	{[]int{1, 2, 840, 10045, 4, 1}, StdAlg{"ec", crypto.SHA1, false}},
	{[]int{1, 2, 840, 10045, 4, 3, 2}, StdAlg{"ec", crypto.SHA256, false}},
	{[]int{1, 2, 840, 10045, 4, 3, 3}, StdAlg{"ec", crypto.SHA384, false}},
	{[]int{1, 2, 840, 10045, 4, 3, 4}, StdAlg{"ec", crypto.SHA512, false}},
	{[]int{1, 3, 101, 112}, StdAlg{"ed25519", 0, false}},
}

// AlgTableLen / AlgAt expose the table rows (non-PSS) so that a generator can write every
// AlgorithmIdentifier the oracle can read, including the alias OIDs.
func AlgTableLen() int { return len(algTable) }

func AlgAt(i int) (oidDER []byte, alg StdAlg) { return der.OID(algTable[i].oid...), algTable[i].alg }

var (
	oidPSS    = der.OID(1, 2, 840, 113549, 1, 1, 10)
	oidSHA256 = der.OID(2, 16, 840, 1, 101, 3, 4, 2, 1)
	oidSHA384 = der.OID(2, 16, 840, 1, 101, 3, 4, 2, 2)
	oidSHA512 = der.OID(2, 16, 840, 1, 101, 3, 4, 2, 3)
)

// ReadAlg identifies the algorithm of an AlgorithmIdentifier encoding; ok is
// false for algorithms outside the table (DSA, MD2, unknown, odd PSS parameters).
func ReadAlg(algDER []byte) (StdAlg, bool) {
	seq, _, err := der.Parse(algDER)
	if err != nil {
		return StdAlg{}, false
	}
	kids, err := der.Children(seq.Body)
	if err != nil || len(kids) == 0 {
		return StdAlg{}, false
	}
	for _, e := range algTable {
		if bytes.Equal(kids[0].Full, der.OID(e.oid...)) {
			return e.alg, true
		}
	}
	if bytes.Equal(kids[0].Full, oidPSS) && len(kids) == 2 {
		// RSASSA-PSS-params: [0] hash, [1] mgf, [2] saltLength; only the three
		// profiles (hash = mgf hash, salt = hash length) are identified
		ps, err := der.Children(kids[1].Body)
		if err != nil || len(ps) < 3 {
			return StdAlg{}, false
		}
		for _, h := range []struct {
			oid  []byte
			hash crypto.Hash
		}{{oidSHA256, crypto.SHA256}, {oidSHA384, crypto.SHA384}, {oidSHA512, crypto.SHA512}} {
			want0 := der.Ctx(0, true, der.Seq(h.oid, der.Null()))
			want1 := der.Ctx(1, true, der.Seq(der.OID(1, 2, 840, 113549, 1, 1, 8), der.Seq(h.oid, der.Null())))
			want2 := der.Ctx(2, true, der.Int64(int64(h.hash.Size())))
			if bytes.Equal(ps[0].Full, want0) && bytes.Equal(ps[1].Full, want1) && bytes.Equal(ps[2].Full, want2) && len(ps) == 3 {
				return StdAlg{"rsa", h.hash, true}, true
			}
		}
	}
	return StdAlg{}, false
}

// StdVerifyKey verifies sig over msg with a Go standard-library public key.
// decided is false when the (key, algorithm) pair is not one std can judge.
func StdVerifyKey(pub any, alg StdAlg, msg, sig []byte) (ok, decided bool) {
	var digest []byte
	if alg.Hash != 0 {
		h := alg.Hash.New()
		h.Write(msg)
		digest = h.Sum(nil)
	}
	switch k := pub.(type) {
	case *stdrsa.PublicKey:
		if alg.Key != "rsa" {
			return false, true
		}
		if alg.PSS {
			return stdrsa.VerifyPSS(k, alg.Hash, digest, sig, &stdrsa.PSSOptions{SaltLength: stdrsa.PSSSaltLengthEqualsHash}) == nil, true
		}
		return stdrsa.VerifyPKCS1v15(k, alg.Hash, digest, sig) == nil, true
	case *ecdsa.PublicKey:
		if alg.Key != "ec" {
			return false, true
		}
		return ecdsa.VerifyASN1(k, digest, sig), true
	case ed25519.PublicKey:
		if alg.Key != "ed25519" {
			return false, true
		}
		return ed25519.Verify(k, msg, sig), true
	}
	return false, false
}

// StdVerifySPKI parses a SubjectPublicKeyInfo with crypto/x509 and verifies.
func StdVerifySPKI(spki, algDER, msg, sig []byte) (ok, decided bool) {
	alg, known := ReadAlg(algDER)
	if !known {
		return false, false
	}
	pub, err := stdx509.ParsePKIXPublicKey(spki)
	if err != nil {
		return false, false
	}
	return StdVerifyKey(pub, alg, msg, sig)
}
