package certgen

import (
	"fmt"
	"math/big"
	"net"
	"time"

	"github.com/zmap/zcrypto/encoding/asn1"
	"github.com/zmap/zcrypto/x509"
	"github.com/zmap/zcrypto/x509/pkix"
	"pgregory.net/rapid"
	"verifharness/der"
	"verifharness/keys"
)

// Time is an instant with sub-second part and a (possibly non-UTC) zone.
type Time struct {
	Unix    int64 `json:"unix"`
	Nanos   int   `json:"ns,omitempty"`
	ZoneMin int   `json:"zone_min,omitempty"`
}

// T converts to a time.Time in a fixed zone.
func (t Time) T() time.Time {
	return time.Unix(t.Unix, int64(t.Nanos)).In(time.FixedZone("gen", t.ZoneMin*60))
}

// Ext is a raw extension.  Exp, when set, says which parsed fields an
// extension that OVERRIDES a generated one must produce (the value was
// encoded by the generator with the independent der package).
type Ext struct {
	OID      []int   `json:"oid"`
	Critical bool    `json:"critical,omitempty"`
	Value    []byte  `json:"value"`
	Exp      *ExtExp `json:"exp,omitempty"`
}

// ExtExp is the meaning of an overriding extension.
type ExtExp struct {
	Kind    string   `json:"kind"` // ku | bc | ski | aki | san | eku
	KU      int      `json:"ku,omitempty"`
	IsCA    bool     `json:"is_ca,omitempty"`
	PathLen int      `json:"path_len,omitempty"` // bc: -1 absent
	ID      []byte   `json:"id,omitempty"`
	DNS     []string `json:"dns,omitempty"`
	EKU     []int    `json:"eku,omitempty"`
}

// PKIX converts to a pkix.Extension.
func (e Ext) PKIX() pkix.Extension {
	return pkix.Extension{Id: asn1.ObjectIdentifier(append([]int(nil), e.OID...)), Critical: e.Critical, Value: append([]byte{}, e.Value...)}
}

// IPNet is an address/mask pair (equal lengths, 4 or 16).
type IPNet struct {
	IP   []byte `json:"ip"`
	Mask []byte `json:"mask"`
}

// Cert describes a certificate template for x509.CreateCertificate.
type Cert struct {
	Serial         string   `json:"serial"` // decimal
	Subject        Name     `json:"subject"`
	NotBefore      Time     `json:"not_before"`
	NotAfter       Time     `json:"not_after"`
	KeyUsage       int      `json:"key_usage,omitempty"`
	EKU            []int    `json:"eku,omitempty"`
	UnknownEKU     [][]int  `json:"unknown_eku,omitempty"`
	BCValid        bool     `json:"bc_valid,omitempty"`
	IsCA           bool     `json:"is_ca,omitempty"`
	MaxPathLen     int      `json:"max_path_len"`
	MaxPathLenZero bool     `json:"max_path_len_zero,omitempty"`
	SKI            []byte   `json:"ski,omitempty"`
	AKI            []byte   `json:"aki,omitempty"`
	DNS            []string `json:"dns,omitempty"`
	Email          []string `json:"email,omitempty"`
	IPs            [][]byte `json:"ips,omitempty"`
	OCSP           []string `json:"ocsp,omitempty"`
	IssuerURL      []string `json:"issuer_url,omitempty"`
	CRLDP          []string `json:"crl_dp,omitempty"`
	Policies       [][]int  `json:"policies,omitempty"`
	NCCritical     bool     `json:"nc_critical,omitempty"`
	PermDNS        []string `json:"perm_dns,omitempty"`
	ExclDNS        []string `json:"excl_dns,omitempty"`
	PermEmail      []string `json:"perm_email,omitempty"`
	ExclEmail      []string `json:"excl_email,omitempty"`
	PermDir        []Name   `json:"perm_dir,omitempty"`
	ExclDir        []Name   `json:"excl_dir,omitempty"`
	PermIP         []IPNet  `json:"perm_ip,omitempty"`
	ExclIP         []IPNet  `json:"excl_ip,omitempty"`
	Extras         []Ext    `json:"extras,omitempty"`
	SigAlg         int      `json:"sig_alg,omitempty"`
}

func oid(o []int) asn1.ObjectIdentifier { return asn1.ObjectIdentifier(append([]int(nil), o...)) }

func bcopy(b []byte) []byte {
	if b == nil {
		return nil
	}
	return append(make([]byte, 0, len(b)), b...)
}

// SerialInt returns the serial number.
func (c Cert) SerialInt() *big.Int {
	v, ok := new(big.Int).SetString(c.Serial, 10)
	if !ok {
		return big.NewInt(1)
	}
	return v
}

// X509 builds the zcrypto template.  Every slice is freshly allocated with
// cap == len, so the template never shares memory with the description.
func (c Cert) X509() *x509.Certificate {
	t := &x509.Certificate{
		SerialNumber:            c.SerialInt(),
		Subject:                 c.Subject.PKIX(),
		NotBefore:               c.NotBefore.T(),
		NotAfter:                c.NotAfter.T(),
		KeyUsage:                x509.KeyUsage(c.KeyUsage),
		BasicConstraintsValid:   c.BCValid,
		IsCA:                    c.IsCA,
		MaxPathLen:              c.MaxPathLen,
		MaxPathLenZero:          c.MaxPathLenZero,
		SubjectKeyId:            bcopy(c.SKI),
		AuthorityKeyId:          bcopy(c.AKI),
		DNSNames:                cp(c.DNS),
		EmailAddresses:          cp(c.Email),
		OCSPServer:              cp(c.OCSP),
		IssuingCertificateURL:   cp(c.IssuerURL),
		CRLDistributionPoints:   cp(c.CRLDP),
		NameConstraintsCritical: c.NCCritical,
		SignatureAlgorithm:      x509.SignatureAlgorithm(c.SigAlg),
	}
	for _, e := range c.EKU {
		t.ExtKeyUsage = append(t.ExtKeyUsage, x509.ExtKeyUsage(e))
	}
	for _, o := range c.UnknownEKU {
		t.UnknownExtKeyUsage = append(t.UnknownExtKeyUsage, oid(o))
	}
	for _, ip := range c.IPs {
		t.IPAddresses = append(t.IPAddresses, net.IP(bcopy(ip)))
	}
	for _, o := range c.Policies {
		t.PolicyIdentifiers = append(t.PolicyIdentifiers, oid(o))
	}
	gs := func(l []string) (out []x509.GeneralSubtreeString) {
		for _, s := range l {
			out = append(out, x509.GeneralSubtreeString{Data: s})
		}
		return
	}
	t.PermittedDNSNames, t.ExcludedDNSNames = gs(c.PermDNS), gs(c.ExclDNS)
	t.PermittedEmailAddresses, t.ExcludedEmailAddresses = gs(c.PermEmail), gs(c.ExclEmail)
	gn := func(l []Name) (out []x509.GeneralSubtreeName) {
		for _, n := range l {
			out = append(out, x509.GeneralSubtreeName{Data: n.PKIX()})
		}
		return
	}
	t.PermittedDirectoryNames, t.ExcludedDirectoryNames = gn(c.PermDir), gn(c.ExclDir)
	gi := func(l []IPNet) (out []x509.GeneralSubtreeIP) {
		for _, n := range l {
			out = append(out, x509.GeneralSubtreeIP{Data: net.IPNet{IP: net.IP(bcopy(n.IP)), Mask: net.IPMask(bcopy(n.Mask))}})
		}
		return
	}
	t.PermittedIPAddresses, t.ExcludedIPAddresses = gi(c.PermIP), gi(c.ExclIP)
	for _, e := range c.Extras {
		t.ExtraExtensions = append(t.ExtraExtensions, e.PKIX())
	}
	return t
}

// Extension OIDs (RFC 5280).
var (
	OIDExtSKI      = []int{2, 5, 29, 14}
	OIDExtKU       = []int{2, 5, 29, 15}
	OIDExtSAN      = []int{2, 5, 29, 17}
	OIDExtBC       = []int{2, 5, 29, 19}
	OIDExtAKI      = []int{2, 5, 29, 35}
	OIDExtEKU      = []int{2, 5, 29, 37}
	OIDExtCTPoison = []int{1, 3, 6, 1, 4, 1, 11129, 2, 4, 3}
	OIDExtCTSCT    = []int{1, 3, 6, 1, 4, 1, 11129, 2, 4, 2}
)

// NativeEKUs are the ExtKeyUsage constants of RFC 5280 / the classic Go set
// that CreateCertificate can encode (value -> OID transcribed from the RFCs).
var NativeEKUs = []struct {
	EKU x509.ExtKeyUsage
	OID []int
}{
	{x509.ExtKeyUsageAny, []int{2, 5, 29, 37, 0}},
	{x509.ExtKeyUsageServerAuth, []int{1, 3, 6, 1, 5, 5, 7, 3, 1}},
	{x509.ExtKeyUsageClientAuth, []int{1, 3, 6, 1, 5, 5, 7, 3, 2}},
	{x509.ExtKeyUsageCodeSigning, []int{1, 3, 6, 1, 5, 5, 7, 3, 3}},
	{x509.ExtKeyUsageEmailProtection, []int{1, 3, 6, 1, 5, 5, 7, 3, 4}},
	{x509.ExtKeyUsageIpsecEndSystem, []int{1, 3, 6, 1, 5, 5, 7, 3, 5}},
	{x509.ExtKeyUsageIpsecTunnel, []int{1, 3, 6, 1, 5, 5, 7, 3, 6}},
	{x509.ExtKeyUsageIpsecUser, []int{1, 3, 6, 1, 5, 5, 7, 3, 7}},
	{x509.ExtKeyUsageTimeStamping, []int{1, 3, 6, 1, 5, 5, 7, 3, 8}},
	{x509.ExtKeyUsageOcspSigning, []int{1, 3, 6, 1, 5, 5, 7, 3, 9}},
	{x509.ExtKeyUsageMicrosoftServerGatedCrypto, []int{1, 3, 6, 1, 4, 1, 311, 10, 3, 3}},
	{x509.ExtKeyUsageNetscapeServerGatedCrypto, []int{2, 16, 840, 1, 113730, 4, 1}},
}

// IsNativeEKU reports whether e is one of NativeEKUs.
func IsNativeEKU(e int) bool {
	for _, n := range NativeEKUs {
		if int(n.EKU) == e {
			return true
		}
	}
	return false
}

// NumEKUConstants is the number of declared x509.ExtKeyUsage constants (0 .. ExtKeyUsageAny).
var NumEKUConstants = int(x509.ExtKeyUsageAny) + 1

// UnknownOIDs are OIDs that no zcrypto table knows (private arcs), with
// sub-identifiers on the base-128 length boundaries.
var UnknownOIDs = [][]int{
	{1, 3, 9999, 1}, {1, 3, 9999, 2, 127}, {1, 3, 9999, 3, 128}, {1, 3, 9999, 16383, 16384}, {2, 999, 3}, {2, 999, 2097151, 2097152},
	{1, 2, 3, 4, 5, 6, 7, 8, 9, 10, 11, 12}, {0, 39, 1}, {1, 0, 0}, {2, 39}, {1, 3, 9999, 268435455}, {1, 3, 9999, 268435456}, {1, 3, 9999, 2147483647},
}

// GenOID draws an OID from UnknownOIDs; with small=true only arcs < 2^28
// (cryptobyte-based parsers of this fork cannot read larger ones).
func GenOID(t *rapid.T, label string, small bool) []int {
	for {
		o := rapid.SampledFrom(UnknownOIDs).Draw(t, label)
		ok := true
		for _, a := range o {
			if small && a >= 1<<28 {
				ok = false
			}
		}
		if ok {
			return o
		}
	}
}

// GenBytes draws 1..max bytes with interesting lengths.
func GenBytes(t *rapid.T, label string, max int) []byte {
	n := rapid.SampledFrom([]int{1, 2, 4, 8, 16, 20, 20, 20, 32, 64, 127, 128, 200}).Draw(t, label+"-len")
	if n > max {
		n = max
	}
	return rapid.SliceOfN(rapid.Byte(), n, n).Draw(t, label)
}

var hostLabels = []string{"example", "com", "www", "a", "xn--bcher-kva", "test-1", "*", "sub", "LOCALHOST", "net", "0", "_dmarc"}

// GenHost draws a DNS-name-like string (mostly valid host names, some odd ones).
func GenHost(t *rapid.T, label string) string {
	switch rapid.IntRange(0, 9).Draw(t, label+"-kind") {
	case 0:
		return rapid.SampledFrom([]string{"", ".", "*.example.com", "example.com.", "a b", "exämple.com", "UPPER.example", ".example.com", "x\x00y.com", "[::1]"}).Draw(t, label)
	default:
		n := rapid.IntRange(1, 4).Draw(t, label+"-n")
		s := ""
		for i := 0; i < n; i++ {
			if i > 0 {
				s += "."
			}
			s += rapid.SampledFrom(hostLabels).Draw(t, label)
		}
		return s
	}
}

// GenEmail draws an rfc822Name-like string.
func GenEmail(t *rapid.T, label string) string {
	if rapid.IntRange(0, 9).Draw(t, label+"-kind") == 0 {
		return rapid.SampledFrom([]string{"", "@", "no-at-sign", ".example.com", "a@b@c", "ü@example.com"}).Draw(t, label)
	}
	return rapid.SampledFrom([]string{"user", "a.b", "x+tag", "ADMIN"}).Draw(t, label+"-l") + "@" + GenHost(t, label+"-h")
}

// GenURL draws a URI-like string.
func GenURL(t *rapid.T, label string) string {
	if rapid.IntRange(0, 9).Draw(t, label+"-kind") == 0 {
		return rapid.SampledFrom([]string{"", "ldap:///cn=x?certificateRevocationList;binary", "http://[::1]:8080/", "not a url", "http://ü.example/"}).Draw(t, label)
	}
	return rapid.SampledFrom([]string{"http://", "https://", "ldap://"}).Draw(t, label+"-s") + GenHost(t, label+"-h") +
		rapid.SampledFrom([]string{"", "/", "/ca.crl", "/ocsp", "/a/b?c=d"}).Draw(t, label+"-p")
}

// GenIP draws an IP in 4-byte, 16-byte (IPv6) or 16-byte IPv4-mapped form.
func GenIP(t *rapid.T, label string) []byte {
	switch rapid.IntRange(0, 3).Draw(t, label+"-form") {
	case 0:
		return rapid.SliceOfN(rapid.Byte(), 4, 4).Draw(t, label)
	case 1:
		b := rapid.SliceOfN(rapid.Byte(), 4, 4).Draw(t, label)
		return append([]byte{0, 0, 0, 0, 0, 0, 0, 0, 0, 0, 0xff, 0xff}, b...)
	case 2:
		return rapid.SliceOfN(rapid.Byte(), 16, 16).Draw(t, label)
	default:
		return rapid.SampledFrom([][]byte{{127, 0, 0, 1}, {0, 0, 0, 0}, {255, 255, 255, 255}, net.IPv6loopback, net.IPv6zero,
			{0, 0, 0, 0, 0, 0, 0, 0, 0, 0, 0xff, 0xff, 10, 0, 0, 1}, {0, 0, 0, 0, 0, 0, 0, 0, 0, 0, 0xff, 0xfe, 10, 0, 0, 1}, {0, 0, 0, 0, 0, 0, 0, 0, 0, 0, 0, 0, 10, 0, 0, 1}}).Draw(t, label)
	}
}

// NormIP is the form an iPAddress SAN takes on the wire: IPv4 (also when given
// as a 16-byte IPv4-mapped address ::ffff:a.b.c.d) in 4 bytes, IPv6 in 16.
func NormIP(ip []byte) []byte {
	if len(ip) == 16 {
		mapped := true
		for i := 0; i < 10; i++ {
			if ip[i] != 0 {
				mapped = false
			}
		}
		if mapped && ip[10] == 0xff && ip[11] == 0xff {
			return ip[12:16]
		}
	}
	return ip
}

// GenIPNet draws an address range with equal-length address and mask.
func GenIPNet(t *rapid.T, label string) IPNet {
	n := rapid.SampledFrom([]int{4, 4, 16}).Draw(t, label+"-len")
	ip := rapid.SliceOfN(rapid.Byte(), n, n).Draw(t, label+"-ip")
	bits := rapid.IntRange(0, n*8).Draw(t, label+"-bits")
	mask := make([]byte, n)
	for i := 0; i < bits; i++ {
		mask[i/8] |= 0x80 >> (i % 8)
	}
	if rapid.IntRange(0, 9).Draw(t, label+"-noncontig") == 0 {
		mask = rapid.SliceOfN(rapid.Byte(), n, n).Draw(t, label+"-mask")
	}
	return IPNet{IP: ip, Mask: mask}
}

// interesting instants (Unix seconds): UTCTime/GeneralizedTime boundary 1950/2050, epoch, leap day, far future/past.
var instants = []int64{
	-631152001, -631152000, -631151999, // 1949-12-31T23:59:59Z, 1950-01-01T00:00:00Z
	2524607999, 2524608000, 2524608001, // 2049-12-31T23:59:59Z, 2050-01-01T00:00:00Z
	0, 1, -1, 951782400 /* 2000-02-29 */, 1704067200 /* 2024-01-01 */, 946684799, 4102444800, /* 2100 */
	253402214400 /* 9999-12-31T00:00:00Z minus a day */, -2208988800 /* 1900 */, -62135510400, /* 0001-01-02 */
	32503680000 /* 3000 */, 1893456000 /* 2030 */, 2145916800, /* 2038 */
}

// GenTime draws an instant.  old=false keeps it in 1950..9999 (UTCTime and
// 4-digit GeneralizedTime after 1950); old=true also allows years 1..1949.
func GenTime(t *rapid.T, label string, old bool) Time {
	var u int64
	for {
		switch rapid.IntRange(0, 3).Draw(t, label+"-kind") {
		case 0:
			u = rapid.SampledFrom(instants).Draw(t, label+"-inst")
		case 1:
			u = rapid.Int64Range(-631152000, 2524607999).Draw(t, label+"-utc")
		case 2:
			u = rapid.Int64Range(2524608000, 253402214400).Draw(t, label+"-gen")
		default:
			u = 1704067200 + rapid.Int64Range(-400*86400, 4000*86400).Draw(t, label+"-near")
		}
		if old || u >= -631152000 {
			break
		}
	}
	tm := Time{Unix: u}
	if rapid.IntRange(0, 3).Draw(t, label+"-ns-p") == 0 {
		tm.Nanos = rapid.SampledFrom([]int{1, 500000000, 999999999}).Draw(t, label+"-ns")
	}
	if rapid.IntRange(0, 2).Draw(t, label+"-zone-p") == 0 {
		tm.ZoneMin = rapid.SampledFrom([]int{60, -60, 330, -480, 840, -720, 1}).Draw(t, label+"-zone")
	}
	return tm
}

// GenSerial draws a non-negative serial number of up to 20 octets (decimal text).
func GenSerial(t *rapid.T, label string) string {
	switch rapid.IntRange(0, 5).Draw(t, label+"-kind") {
	case 0:
		return rapid.SampledFrom([]string{"0", "1", "127", "128", "255", "256", "32767", "32768", "18446744073709551615", "18446744073709551616",
			"730750818665451459101842416358141509827966271487", /* 2^159-1 */
			"730750818665451459101842416358141509827966271488" /* 2^159 */}).Draw(t, label)
	default:
		n := rapid.SampledFrom([]int{1, 2, 8, 9, 16, 19, 20}).Draw(t, label+"-len")
		b := rapid.SliceOfN(rapid.Byte(), n, n).Draw(t, label)
		if n == 20 {
			b[0] &= 0x7f
		}
		return new(big.Int).SetBytes(b).String()
	}
}

// GenOpts steer GenCert.
type GenOpts struct {
	Density    int  // percentage chance per optional feature
	AllEKU     bool // draw from every ExtKeyUsage constant, not only the 12 encodable ones
	Overrides  bool // ExtraExtensions that override generated extensions
	OldTimes   bool // validity before 1950
	ForceCA    bool // CA certificate able to sign certificates and CRLs, with a subject key id
	NoExtras   bool
	SmallOIDs  bool // only OID arcs < 2^28
	StringOnly bool // names with string attribute values only
}

func genStrs(t *rapid.T, label string, pct int, g func(*rapid.T, string) string) []string {
	if !Chance(t, label+"-p", pct) {
		return nil
	}
	n := rapid.SampledFrom([]int{1, 1, 2, 3}).Draw(t, label+"-n")
	out := make([]string, n)
	for i := range out {
		out[i] = g(t, label)
	}
	return out
}

// BitStringDER encodes a named-bit-list style BIT STRING from an int whose bit
// i is named bit i (trailing zero bits removed, as DER requires).
func BitStringDER(v int, nbits int) []byte {
	last := -1
	for i := 0; i < nbits; i++ {
		if v&(1<<i) != 0 {
			last = i
		}
	}
	if last < 0 {
		return der.Enc(0x03, []byte{0})
	}
	n := last/8 + 1
	b := make([]byte, n)
	for i := 0; i <= last; i++ {
		if v&(1<<i) != 0 {
			b[i/8] |= 0x80 >> (i % 8)
		}
	}
	return der.Enc(0x03, []byte{byte(7 - last%8)}, b)
}

// GenOverride draws an extension that overrides a generated one.
func GenOverride(t *rapid.T, label string) Ext {
	switch rapid.IntRange(0, 5).Draw(t, label+"-kind") {
	case 0:
		ku := rapid.IntRange(1, 511).Draw(t, label+"-ku")
		return Ext{OID: OIDExtKU, Critical: rapid.Bool().Draw(t, label+"-crit"), Value: BitStringDER(ku, 9), Exp: &ExtExp{Kind: "ku", KU: ku}}
	case 1:
		ca := rapid.Bool().Draw(t, label+"-ca")
		pl := rapid.SampledFrom([]int{-1, -1, 0, 1, 5, 127, 128, 1000}).Draw(t, label+"-pl")
		var body [][]byte
		if ca {
			body = append(body, der.Bool(true))
		}
		if pl >= 0 {
			body = append(body, der.Int64(int64(pl)))
		}
		return Ext{OID: OIDExtBC, Critical: true, Value: der.Seq(body...), Exp: &ExtExp{Kind: "bc", IsCA: ca, PathLen: pl}}
	case 2:
		id := GenBytes(t, label+"-ski", 64)
		return Ext{OID: OIDExtSKI, Value: der.Octets(id), Exp: &ExtExp{Kind: "ski", ID: id}}
	case 3:
		id := GenBytes(t, label+"-aki", 64)
		return Ext{OID: OIDExtAKI, Value: der.Seq(der.Ctx(0, false, id)), Exp: &ExtExp{Kind: "aki", ID: id}}
	case 4:
		n := rapid.IntRange(1, 3).Draw(t, label+"-n")
		var names []string
		var body [][]byte
		for i := 0; i < n; i++ {
			h := GenHost(t, label+"-dns")
			names = append(names, h)
			body = append(body, der.Ctx(2, false, []byte(h)))
		}
		return Ext{OID: OIDExtSAN, Critical: rapid.Bool().Draw(t, label+"-crit"), Value: der.Seq(body...), Exp: &ExtExp{Kind: "san", DNS: names}}
	default:
		n := rapid.IntRange(1, 3).Draw(t, label+"-n")
		var ekus []int
		var body [][]byte
		for i := 0; i < n; i++ {
			e := rapid.SampledFrom(NativeEKUs).Draw(t, label+"-eku")
			ekus = append(ekus, int(e.EKU))
			body = append(body, der.OID(e.OID...))
		}
		return Ext{OID: OIDExtEKU, Value: der.Seq(body...), Exp: &ExtExp{Kind: "eku", EKU: ekus}}
	}
}

// GenCert draws a certificate template description.
func GenCert(t *rapid.T, label string, o GenOpts) Cert {
	d := o.Density
	c := Cert{Serial: GenSerial(t, label+"-serial"), MaxPathLen: -1}
	nd := d
	if nd > 40 {
		nd = 40
	}
	c.Subject = GenName(t, label+"-subj", nd)
	if o.StringOnly {
		c.Subject = c.Subject.StringOnly()
	}
	c.NotBefore = GenTime(t, label+"-nb", o.OldTimes)
	if Chance(t, label+"-na-rel", 60) {
		c.NotAfter = Time{Unix: c.NotBefore.Unix + rapid.Int64Range(0, 400*86400).Draw(t, label+"-na-delta")}
		if c.NotAfter.Unix > 253402214400 {
			c.NotAfter.Unix = 253402214400
		}
	} else {
		c.NotAfter = GenTime(t, label+"-na", o.OldTimes)
	}
	if Chance(t, label+"-ku-p", d+20) {
		if Chance(t, label+"-ku-single", 30) {
			c.KeyUsage = 1 << rapid.IntRange(0, 8).Draw(t, label+"-ku-bit")
		} else {
			c.KeyUsage = rapid.IntRange(1, 511).Draw(t, label+"-ku")
		}
	}
	if Chance(t, label+"-eku-p", d) {
		n := rapid.IntRange(1, 4).Draw(t, label+"-eku-n")
		for i := 0; i < n; i++ {
			if o.AllEKU && Chance(t, label+"-eku-all", 25) {
				c.EKU = append(c.EKU, rapid.IntRange(0, NumEKUConstants-1).Draw(t, label+"-eku-any"))
			} else {
				c.EKU = append(c.EKU, int(rapid.SampledFrom(NativeEKUs).Draw(t, label+"-eku").EKU))
			}
		}
	}
	if Chance(t, label+"-ueku-p", d/2) {
		n := rapid.IntRange(1, 2).Draw(t, label+"-ueku-n")
		for i := 0; i < n; i++ {
			c.UnknownEKU = append(c.UnknownEKU, GenOID(t, label+"-ueku", o.SmallOIDs))
		}
	}
	if Chance(t, label+"-bc-p", d+20) {
		c.BCValid = true
		c.IsCA = rapid.Bool().Draw(t, label+"-ca")
		switch rapid.IntRange(0, 5).Draw(t, label+"-pl-kind") {
		case 0:
			c.MaxPathLen = -1
		case 1:
			c.MaxPathLen = 0
		case 2:
			c.MaxPathLen, c.MaxPathLenZero = 0, true
		case 3:
			c.MaxPathLen = rapid.SampledFrom([]int{1, 2, 5, 127, 128, 255, 256, 65535}).Draw(t, label+"-pl")
		case 4:
			c.MaxPathLen, c.MaxPathLenZero = rapid.IntRange(1, 10).Draw(t, label+"-pl2"), true
		default:
			c.MaxPathLen, c.MaxPathLenZero = -1, true
		}
	}
	if Chance(t, label+"-ski-p", d) {
		c.SKI = GenBytes(t, label+"-ski", 200)
	}
	if Chance(t, label+"-aki-p", d) {
		c.AKI = GenBytes(t, label+"-aki", 200)
	}
	c.DNS = genStrs(t, label+"-dns", d, GenHost)
	c.Email = genStrs(t, label+"-email", d/2, GenEmail)
	if Chance(t, label+"-ip-p", d) {
		n := rapid.IntRange(1, 3).Draw(t, label+"-ip-n")
		for i := 0; i < n; i++ {
			c.IPs = append(c.IPs, GenIP(t, label+"-ip"))
		}
	}
	c.OCSP = genStrs(t, label+"-ocsp", d/2, GenURL)
	c.IssuerURL = genStrs(t, label+"-issuer-url", d/2, GenURL)
	c.CRLDP = genStrs(t, label+"-crldp", d/2, GenURL)
	if Chance(t, label+"-pol-p", d/2) {
		n := rapid.IntRange(1, 3).Draw(t, label+"-pol-n")
		for i := 0; i < n; i++ {
			if rapid.Bool().Draw(t, label+"-pol-known") {
				c.Policies = append(c.Policies, rapid.SampledFrom([][]int{{2, 5, 29, 32, 0}, {2, 23, 140, 1, 2, 1}, {2, 23, 140, 1, 2, 2}, {2, 23, 140, 1, 1}, {1, 3, 6, 1, 4, 1, 34697, 2, 1}}).Draw(t, label+"-pol"))
			} else {
				c.Policies = append(c.Policies, GenOID(t, label+"-pol-oid", o.SmallOIDs))
			}
		}
	}
	if Chance(t, label+"-nc-p", d/2) {
		c.NCCritical = rapid.Bool().Draw(t, label+"-nc-crit")
		c.PermDNS = genStrs(t, label+"-perm-dns", 40, GenHost)
		c.ExclDNS = genStrs(t, label+"-excl-dns", 30, GenHost)
		c.PermEmail = genStrs(t, label+"-perm-email", 25, GenEmail)
		c.ExclEmail = genStrs(t, label+"-excl-email", 20, GenEmail)
		gn := func(l string, pct int) (out []Name) {
			if !Chance(t, l+"-p", pct) {
				return nil
			}
			n := rapid.IntRange(1, 2).Draw(t, l+"-n")
			for i := 0; i < n; i++ {
				nm := GenName(t, l, 10)
				if o.StringOnly {
					nm = nm.StringOnly()
				}
				out = append(out, nm)
			}
			return
		}
		c.PermDir, c.ExclDir = gn(label+"-perm-dir", 25), gn(label+"-excl-dir", 20)
		gi := func(l string, pct int) (out []IPNet) {
			if !Chance(t, l+"-p", pct) {
				return nil
			}
			n := rapid.IntRange(1, 2).Draw(t, l+"-n")
			for i := 0; i < n; i++ {
				out = append(out, GenIPNet(t, l))
			}
			return
		}
		c.PermIP, c.ExclIP = gi(label+"-perm-ip", 30), gi(label+"-excl-ip", 25)
	}
	if !o.NoExtras && Chance(t, label+"-extras-p", d/2) {
		n := rapid.IntRange(1, 3).Draw(t, label+"-extras-n")
		used := map[string]bool{}
		for i := 0; i < n; i++ {
			if o.Overrides && Chance(t, label+"-override", 50) {
				e := GenOverride(t, label+"-ov")
				if used[OIDKey(e.OID)] {
					continue
				}
				used[OIDKey(e.OID)] = true
				c.Extras = append(c.Extras, e)
			} else {
				v := []byte{}
				if Chance(t, label+"-extra-val-p", 85) {
					v = GenBytes(t, label+"-extra-val", 300)
				}
				c.Extras = append(c.Extras, Ext{OID: GenOID(t, label+"-extra-oid", o.SmallOIDs), Critical: rapid.Bool().Draw(t, label+"-extra-crit"), Value: v})
			}
		}
	}
	if o.ForceCA {
		c.BCValid, c.IsCA = true, true
		c.KeyUsage |= int(x509.KeyUsageCertSign | x509.KeyUsageCRLSign)
		if len(c.SKI) == 0 {
			c.SKI = []byte{1, 2, 3, 4}
		}
		var ex []Ext
		for _, e := range c.Extras {
			if e.Exp == nil {
				ex = append(ex, e)
			}
		}
		c.Extras = ex
	}
	return c
}

// Features counts the optional features a template uses.
func (c Cert) Features() int {
	n := 0
	for _, b := range []bool{c.KeyUsage != 0, len(c.EKU)+len(c.UnknownEKU) > 0, c.BCValid, len(c.SKI) > 0, len(c.AKI) > 0, len(c.DNS) > 0,
		len(c.Email) > 0, len(c.IPs) > 0, len(c.OCSP)+len(c.IssuerURL) > 0, len(c.CRLDP) > 0, len(c.Policies) > 0, c.HasNC(), len(c.Extras) > 0} {
		if b {
			n++
		}
	}
	return n
}

// HasNC reports whether the template carries name constraints.
func (c Cert) HasNC() bool {
	return len(c.PermDNS)+len(c.ExclDNS)+len(c.PermEmail)+len(c.ExclEmail)+len(c.PermDir)+len(c.ExclDir)+len(c.PermIP)+len(c.ExclIP) > 0
}

// ---------------------------------------------------------------------------
// signature algorithms

// DefaultSigAlg is the algorithm the creation APIs document/choose for a key
// when none is requested.
func DefaultSigAlg(k *keys.Key) x509.SignatureAlgorithm {
	switch k.Kind {
	case "rsa":
		return x509.SHA256WithRSA
	case "ec":
		switch k.Curve {
		case "P-384":
			return x509.ECDSAWithSHA384
		case "P-521":
			return x509.ECDSAWithSHA512
		}
		return x509.ECDSAWithSHA256
	case "ed25519":
		return x509.Ed25519Sig
	}
	return x509.UnknownSignatureAlgorithm
}

// HashLen returns the digest length of the hash an algorithm names (0: none).
func HashLen(a x509.SignatureAlgorithm) int {
	switch a {
	case x509.MD5WithRSA:
		return 16
	case x509.SHA1WithRSA, x509.DSAWithSHA1, x509.ECDSAWithSHA1:
		return 20
	case x509.SHA256WithRSA, x509.SHA256WithRSAPSS, x509.DSAWithSHA256, x509.ECDSAWithSHA256:
		return 32
	case x509.SHA384WithRSA, x509.SHA384WithRSAPSS, x509.ECDSAWithSHA384:
		return 48
	case x509.SHA512WithRSA, x509.SHA512WithRSAPSS, x509.ECDSAWithSHA512:
		return 64
	}
	return 0
}

// IsPSS reports whether a is an RSASSA-PSS algorithm.
func IsPSS(a x509.SignatureAlgorithm) bool {
	return a == x509.SHA256WithRSAPSS || a == x509.SHA384WithRSAPSS || a == x509.SHA512WithRSAPSS
}

// SigCompat reports whether key k can produce a signature of the requested
// algorithm (0 = default), computed from RFC 8017 size rules and key types.
func SigCompat(k *keys.Key, alg x509.SignatureAlgorithm) bool {
	if alg == 0 {
		alg = DefaultSigAlg(k)
	}
	switch alg {
	case x509.MD5WithRSA, x509.SHA1WithRSA, x509.SHA256WithRSA, x509.SHA384WithRSA, x509.SHA512WithRSA:
		if k.Kind != "rsa" {
			return false
		}
		prefix := map[x509.SignatureAlgorithm]int{x509.MD5WithRSA: 18, x509.SHA1WithRSA: 15, x509.SHA256WithRSA: 19, x509.SHA384WithRSA: 19, x509.SHA512WithRSA: 19}[alg]
		return (k.Bits+7)/8 >= prefix+HashLen(alg)+11
	case x509.SHA256WithRSAPSS, x509.SHA384WithRSAPSS, x509.SHA512WithRSAPSS:
		if k.Kind != "rsa" {
			return false
		}
		emLen := (k.Bits - 1 + 7) / 8
		return emLen >= 2*HashLen(alg)+2
	case x509.ECDSAWithSHA1, x509.ECDSAWithSHA256, x509.ECDSAWithSHA384, x509.ECDSAWithSHA512:
		return k.Kind == "ec"
	case x509.Ed25519Sig:
		return k.Kind == "ed25519"
	}
	return false
}

// AllSigAlgs lists every declared SignatureAlgorithm constant (1..16).
func AllSigAlgs() []x509.SignatureAlgorithm {
	var out []x509.SignatureAlgorithm
	for a := x509.MD2WithRSA; a <= x509.Ed25519Sig; a++ {
		out = append(out, a)
	}
	return out
}

// GenSigAlg draws a requested algorithm for key k: mostly 0 or a compatible
// one, sometimes an incompatible one.
func GenSigAlg(t *rapid.T, label string, k *keys.Key) int {
	switch rapid.IntRange(0, 9).Draw(t, label+"-kind") {
	case 0, 1, 2:
		return 0
	case 3:
		return int(rapid.SampledFrom(AllSigAlgs()).Draw(t, label+"-any"))
	default:
		var ok []x509.SignatureAlgorithm
		for _, a := range AllSigAlgs() {
			if SigCompat(k, a) {
				ok = append(ok, a)
			}
		}
		if len(ok) == 0 {
			return 0
		}
		return int(rapid.SampledFrom(ok).Draw(t, label+"-compat"))
	}
}

// GenSignerKey draws a pool key usable for signing (RSA incl. 512-bit and
// multi-prime, ECDSA, Ed25519), biased towards the cheap ones.
func GenSignerKey(t *rapid.T, label string) int {
	var cheap, all []int
	for _, k := range keys.All() {
		if k.Kind == "dsa" {
			continue
		}
		all = append(all, k.Index)
		if k.Kind != "rsa" || k.Bits <= 2048 {
			cheap = append(cheap, k.Index)
		}
	}
	if Chance(t, label+"-any", 25) {
		return rapid.SampledFrom(all).Draw(t, label)
	}
	return rapid.SampledFrom(cheap).Draw(t, label)
}

// Describe is a short text for failure messages.
func (c Cert) Describe() string {
	return fmt.Sprintf("serial=%s ku=%#x eku=%v bc=%v/%v/%d/%v sigalg=%d", c.Serial, c.KeyUsage, c.EKU, c.BCValid, c.IsCA, c.MaxPathLen, c.MaxPathLenZero, c.SigAlg)
}
