package c27

import (
	"bytes"
	"encoding/json"
	"fmt"
	"io"
	"testing"
	"time"

	"github.com/zmap/zcrypto/tls"
	"github.com/zmap/zcrypto/x509"
	"pgregory.net/rapid"
	"verifharness/keys"
	"verifharness/kit"
	"verifharness/tlsgen"
	"verifharness/tlskit"
)

// Case is one authentication scenario.
type Case struct {
	Version uint16 `json:"version"`
	Suite   uint16 `json:"suite"` // 0 = default (TLS 1.3)
	SKey    string `json:"skey"`  // server leaf key (pool name)
	Srv     string `json:"srv"`   // server certificate scenario
	// CTime / STime: offset in seconds of the client's / server's Config.Time
	// from tlskit.Now (the leaves are valid from Now-12h to Now+12h).
	CTime      int64  `json:"ctime"`
	SkipVerify bool   `json:"skip_verify"`
	Auth       int    `json:"auth"` // tls.ClientAuthType
	Cli        string `json:"cli"`  // client certificate scenario
	CKey       string `json:"ckey"`
	STime      int64  `json:"stime"`
	FlipAt     int    `json:"flip_at"` // selects the corrupted signature bit
	Seed       uint64 `json:"seed"`
	// Indirect: how the server's settings reach the connection.  0: the Config given to Server();
	// 1: that Config comes out of GetConfigForClient of an outer Config that has no certificate
	// and ClientAuth NoClientCert (the returned Config "will be used to handle this connection");
	// 2: the certificate comes out of GetCertificate, Certificates is empty; 3: both ends run on
	// Config.Clone() of their Config.
	Indirect int `json:"indirect,omitempty"`
}

const limit = 20 * time.Second

// server scenarios
const (
	sOK           = "ok"
	sOKInter      = "ok-inter"
	sMissingInter = "missing-inter"
	sUntrusted    = "untrusted-root"
	sUntrustedExt = "untrusted-root-sent-along"
	sSameName     = "untrusted-same-name-root"
	sSelfSigned   = "self-signed"
	sBadCertSig   = "corrupted-certificate-signature"
	sWrongName    = "wrong-name"
	sWrongKey     = "wrong-key"
	sBadSig       = "corrupted-handshake-signature"
	sBadSKXWire   = "corrupted-skx-on-wire"
	sWrongEKU     = "client-auth-eku-only" // chain to the trusted root, leaf's extended key usage names clientAuth only
)

var srvScenarios = []string{sOK, sOKInter, sMissingInter, sUntrusted, sUntrustedExt, sSameName, sSelfSigned, sBadCertSig, sWrongName, sWrongKey, sBadSig, sBadSKXWire, sWrongEKU}

// client scenarios
const (
	cNone         = "none"
	cGood         = "good"
	cGoodInter    = "good-inter"
	cMissingInter = "missing-inter"
	cUntrusted    = "untrusted-root"
	cSameName     = "untrusted-same-name-root"
	cSelfSigned   = "self-signed"
	cBadCertSig   = "corrupted-certificate-signature"
	cWrongEKU     = "server-auth-eku-only"
	cWrongKey     = "wrong-key"
	cBadSig       = "corrupted-handshake-signature"
)

var cliScenarios = []string{cNone, cGood, cGoodInter, cMissingInter, cUntrusted, cSameName, cSelfSigned, cBadCertSig, cWrongEKU, cWrongKey, cBadSig}

// time offsets: the leaf window is [Now-12h, Now+12h]; the exact boundary
// instants are not used (RFC 5280 makes them inclusive, the library exclusive -
// that is C07's business).
const h12 = 12 * 3600

var timesIn = []int64{0, -h12 + 1, h12 - 1}
var timesOut = []int64{-h12 - 1, h12 + 1, -200 * 86400, 400 * 86400}

func timeOK(off int64) bool { return off > -h12 && off < h12 }

func clock(off int64) func() time.Time {
	return func() time.Time { return tlskit.Now().Add(time.Duration(off) * time.Second) }
}

// other key of the same kind, for the wrong-key scenarios
var otherKey = map[string]string{
	"rsa2048-p2-1": "rsa2048-p2-2", "rsa2048-p2-2": "rsa2048-p2-1", "rsa1024-p2-0": "rsa1024-p3-0", "rsa1024-p3-0": "rsa1024-p2-0",
	"ecP-256-0": "ecP-256-1", "ecP-256-1": "ecP-256-2", "ecP-256-2": "ecP-256-0", "ecP-384-0": "ecP-384-1", "ecP-521-0": "ecP-521-1", "ecP-521-1": "ecP-521-0",
	"ed25519-0": "ed25519-1", "ed25519-1": "ed25519-2", "ed25519-2": "ed25519-0",
}

func kxOf(c Case) tlsgen.Kx {
	if c.Version == tlsgen.TLS13 {
		return tlsgen.KxTLS13
	}
	s, ok := tlsgen.Info(c.Suite)
	if !ok {
		panic(fmt.Sprintf("c27: suite %04x", c.Suite))
	}
	return s.Kx
}

// applicable filters combinations that cannot be set up meaningfully.
func applicable(c Case) bool {
	kx := kxOf(c)
	skind, ckind := keys.ByName(c.SKey).Kind, keys.ByName(c.CKey).Kind
	if (skind == "ed25519" || (ckind == "ed25519" && c.Auth != 0)) && c.Version < tlsgen.TLS12 {
		return false // Ed25519 is defined from TLS 1.2 on
	}
	switch kx {
	case tlsgen.KxRSA, tlsgen.KxECDHERSA, tlsgen.KxDHERSA:
		if skind != "rsa" {
			return false
		}
	case tlsgen.KxECDHEECDSA:
		if skind == "rsa" {
			return false
		}
	}
	if s, ok := tlsgen.Info(c.Suite); ok && c.Version != tlsgen.TLS13 && s.TLS12Only && c.Version != tlsgen.TLS12 {
		return false
	}
	switch c.Srv {
	case sBadSig:
		// RSA key transport has no handshake signature; the DHE code path signs
		// with the concrete key type, so a wrapping signer cannot be injected.
		if kx == tlsgen.KxRSA || kx == tlsgen.KxDHERSA {
			return false
		}
	case sBadSKXWire:
		if kx == tlsgen.KxRSA || kx == tlsgen.KxTLS13 {
			return false
		}
	}
	if c.Auth == 0 && (c.Cli != cNone || c.STime != 0) {
		return false // no certificate requested: client scenario is moot
	}
	return true
}

type expectation struct {
	clientMustFail, serverMustFail bool
	unspecified                    bool // completion of the handshake is not decided by the statement
	why                            string
}

func expect(c Case) expectation {
	var e expectation
	chainOK := c.Srv == sOK || c.Srv == sOKInter || c.Srv == sWrongName || c.Srv == sWrongKey || c.Srv == sBadSig || c.Srv == sBadSKXWire
	nameOK := c.Srv != sWrongName
	popOK := c.Srv != sWrongKey && c.Srv != sBadSig && c.Srv != sBadSKXWire
	if !c.SkipVerify {
		if !(chainOK && nameOK && timeOK(c.CTime) && popOK) {
			e.clientMustFail = true
			e.why = fmt.Sprintf("server side: chain ok=%v name ok=%v time ok=%v possession proven=%v", chainOK, nameOK, timeOK(c.CTime), popOK)
		}
	} else if !popOK {
		e.unspecified = true // the statement speaks about verification enabled
	}
	if c.Auth != int(tls.NoClientCert) {
		given := c.Cli != cNone
		cChainOK := c.Cli == cGood || c.Cli == cGoodInter || c.Cli == cWrongKey || c.Cli == cBadSig
		cPopOK := c.Cli != cWrongKey && c.Cli != cBadSig
		verify := c.Auth >= int(tls.VerifyClientCertIfGiven)
		switch {
		case !given:
			if c.Auth == int(tls.RequireAnyClientCert) || c.Auth == int(tls.RequireAndVerifyClientCert) {
				e.serverMustFail = true
				e.why += " client side: certificate required but none given"
			}
		case !cPopOK:
			e.serverMustFail = true
			e.why += " client side: possession of the certificate key not proven"
		case verify && c.Cli == cWrongEKU:
			// "whose chain verifies": verification of a client's chain is verification for client
			// authentication (RFC 5280 4.2.1.12; the server passes KeyUsages{ClientAuth} to Verify), so a
			// leaf whose extended key usage names serverAuth only does not verify for this purpose.
			e.serverMustFail = true
			e.why += " client side: leaf certificate's extended key usage is serverAuth only"
		case verify && !(cChainOK && timeOK(c.STime)):
			e.serverMustFail = true
			e.why += fmt.Sprintf(" client side: chain ok=%v time ok=%v", cChainOK, timeOK(c.STime))
		}
	}
	return e
}

func serverCert(c Case) tls.Certificate {
	wd := theWorld()
	eku := x509.ExtKeyUsageServerAuth
	if c.Srv == sWrongEKU {
		eku = x509.ExtKeyUsageClientAuth // does not verify for server authentication (x509.Verify's default usage)
	}
	priv := keys.ByName(c.SKey).ZPriv
	var chain []*x509.Certificate
	switch c.Srv {
	case sOKInter:
		chain = []*x509.Certificate{leaf(c.SKey, issuerInter, false, eku), wd.inter}
	case sMissingInter:
		chain = []*x509.Certificate{leaf(c.SKey, issuerInter, false, eku)}
	case sUntrusted:
		chain = []*x509.Certificate{leaf(c.SKey, issuerRootB, false, eku)}
	case sUntrustedExt:
		chain = []*x509.Certificate{leaf(c.SKey, issuerRootB, false, eku), wd.rootB}
	case sSameName:
		chain = []*x509.Certificate{leaf(c.SKey, issuerRootAx, false, eku)}
	case sSelfSigned:
		chain = []*x509.Certificate{leaf(c.SKey, issuerSelf, false, eku)}
	default:
		chain = []*x509.Certificate{leaf(c.SKey, issuerRootA, false, eku)}
	}
	switch c.Srv {
	case sWrongKey:
		priv = keys.ByName(otherKey[c.SKey]).ZPriv
	case sBadSig:
		priv = badSigner{signerOf(c.SKey), c.FlipAt}
	}
	tc := tlsCert(chain, priv)
	if c.Srv == sBadCertSig {
		tc.Certificate[0] = corruptCertSig(tc.Certificate[0])
	}
	return tc
}

func clientCert(c Case) *tls.Certificate {
	wd := theWorld()
	eku := x509.ExtKeyUsageClientAuth
	if c.Cli == cWrongEKU {
		eku = x509.ExtKeyUsageServerAuth
	}
	priv := keys.ByName(c.CKey).ZPriv
	var chain []*x509.Certificate
	switch c.Cli {
	case cNone:
		return &tls.Certificate{}
	case cGoodInter:
		chain = []*x509.Certificate{leaf(c.CKey, issuerInter, true, eku), wd.inter}
	case cMissingInter:
		chain = []*x509.Certificate{leaf(c.CKey, issuerInter, true, eku)}
	case cUntrusted:
		chain = []*x509.Certificate{leaf(c.CKey, issuerRootB, true, eku)}
	case cSameName:
		chain = []*x509.Certificate{leaf(c.CKey, issuerRootAx, true, eku)}
	case cSelfSigned:
		chain = []*x509.Certificate{leaf(c.CKey, issuerSelf, true, eku)}
	default:
		chain = []*x509.Certificate{leaf(c.CKey, issuerRootA, true, eku)}
	}
	switch c.Cli {
	case cWrongKey:
		priv = keys.ByName(otherKey[c.CKey]).ZPriv
	case cBadSig:
		priv = badSigner{signerOf(c.CKey), c.FlipAt}
	}
	tc := tlsCert(chain, priv)
	if c.Cli == cBadCertSig {
		tc.Certificate[0] = corruptCertSig(tc.Certificate[0])
	}
	return &tc
}

func js(v any) string { b, _ := json.Marshal(v); return string(b) }

func endsInRootA(chains []x509.CertificateChain, leafRaw []byte) bool {
	if len(chains) == 0 {
		return false
	}
	for _, ch := range chains {
		if len(ch) < 2 || !bytes.Equal(ch[0].Raw, leafRaw) || !bytes.Equal(ch[len(ch)-1].Raw, theWorld().rootA.Raw) {
			return false
		}
	}
	return true
}

func check(c Case, r *kit.R) {
	if !applicable(c) {
		r.Skip()
	}
	wd := theWorld()
	kx := kxOf(c)
	// base configurations: one version, one suite, no tickets
	side := tlsgen.Side{MinVersion: c.Version, MaxVersion: c.Version, TicketsDisabled: true}
	if c.Version != tlsgen.TLS13 {
		side.Suites = []uint16{c.Suite}
	}
	cl := tlsgen.Client{Side: side, ForceSuites: c.Version != tlsgen.TLS13, SkipVerify: c.SkipVerify}
	cc := cl.Config(wd.poolA)
	cc.Time = clock(c.CTime)
	cc.Rand = tlsgen.NewRand(c.Seed, 1)
	if c.Srv == sWrongName {
		cc.ServerName = "other.test"
	}
	ccert := clientCert(c)
	cc.GetClientCertificate = func(*tls.CertificateRequestInfo) (*tls.Certificate, error) { return ccert, nil }

	sc := &tls.Config{Certificates: []tls.Certificate{serverCert(c)}, MinVersion: c.Version, MaxVersion: c.Version,
		SessionTicketsDisabled: true, ClientAuth: tls.ClientAuthType(c.Auth), ClientCAs: wd.poolA,
		Time: clock(c.STime), Rand: tlsgen.NewRand(c.Seed, 2)}
	if c.Version != tlsgen.TLS13 {
		sc.CipherSuites = []uint16{c.Suite}
	}

	srvCert := sc.Certificates[0]
	switch c.Indirect {
	case 1:
		inner := sc
		sc = &tls.Config{Time: inner.Time, Rand: tlsgen.NewRand(c.Seed, 3), ClientAuth: tls.NoClientCert, SessionTicketsDisabled: true,
			GetConfigForClient: func(*tls.ClientHelloInfo) (*tls.Config, error) { return inner, nil }}
		r.Class("server config through GetConfigForClient")
	case 2:
		cert := sc.Certificates[0]
		sc.Certificates = nil
		sc.GetCertificate = func(*tls.ClientHelloInfo) (*tls.Certificate, error) { return &cert, nil }
		r.Class("server certificate through GetCertificate")
	case 3:
		sc, cc = sc.Clone(), cc.Clone()
		r.Class("both ends run on Config.Clone()")
	}

	var hook tlskit.Hook
	flipped := false
	if c.Srv == sBadSKXWire {
		hook = func(rec tlskit.Record) ([][]byte, bool) {
			if rec.Dir == tlskit.ServerToClient && rec.Type() == 22 && len(rec.Body()) > 60 && rec.Body()[0] == 12 && !flipped {
				raw := append([]byte{}, rec.Raw...)
				raw[len(raw)-1-c.FlipAt%24] ^= 1 << uint(c.FlipAt%8)
				flipped = true
				return [][]byte{raw}, true
			}
			return nil, true
		}
	}

	p := tlskit.NewProxy(hook)
	cconn, sconn := tls.Client(p.Client, cc), tls.Server(p.Server, sc)
	res := tlskit.Handshake(cconn, sconn, limit)
	var pingErr error
	var cs, ss tls.ConnectionState
	if res.ClientErr == nil && res.ServerErr == nil && !res.TimedOut {
		dl := time.Now().Add(limit)
		cconn.SetDeadline(dl)
		sconn.SetDeadline(dl)
		done := make(chan error, 1)
		go func() {
			buf := make([]byte, 4)
			_, err := io.ReadFull(sconn, buf)
			if err == nil {
				_, err = sconn.Write([]byte("pong"))
			}
			done <- err
		}()
		buf := make([]byte, 4)
		_, pingErr = cconn.Write([]byte("ping"))
		if pingErr == nil {
			_, pingErr = io.ReadFull(cconn, buf)
		}
		if e := <-done; pingErr == nil {
			pingErr = e
		}
		cs, ss = cconn.ConnectionState(), sconn.ConnectionState()
	}
	cconn.Close()
	sconn.Close()
	wch := make(chan struct{})
	go func() { p.Wait(); close(wch) }()
	select {
	case <-wch:
	case <-time.After(limit):
	}
	recs := p.T.Records(-1)

	e := expect(c)
	d := func() string {
		return fmt.Sprintf("case=%s\nkey exchange %s\nexpectation: client must fail=%v server must fail=%v unspecified=%v (%s)\nobserved: client error: %v; server error: %v; timed out %v\n",
			js(c), kx, e.clientMustFail, e.serverMustFail, e.unspecified, e.why, res.ClientErr, res.ServerErr, res.TimedOut)
	}
	if res.TimedOut {
		r.Failf("timeout:handshake", "handshake did not finish within %v\n%s", limit, d())
	}
	r.Class(fmt.Sprintf("v=%x kx=%s", c.Version, kx))
	r.Class("srv=" + c.Srv)
	if c.Auth != 0 {
		r.Class("cli=" + c.Cli)
		r.Class("auth=" + tls.ClientAuthType(c.Auth).String())
	}
	if !timeOK(c.CTime) {
		r.Class("client-clock-outside-validity")
	}
	if c.Auth != 0 && !timeOK(c.STime) {
		r.Class("server-clock-outside-validity")
	}
	if c.Srv != sOK || (c.Auth != 0 && c.Cli != cGood) || !timeOK(c.CTime) || !timeOK(c.STime) {
		r.NonTrivial()
	}

	if e.clientMustFail {
		r.Class("expect: client rejects server")
		if res.ClientErr == nil {
			r.Failf("C27:client-accepted-bad-server:"+c.Srv+timeTag(c.CTime), "the client completed the handshake with a server it must not accept\n%s", d())
		}
	}
	if e.serverMustFail {
		r.Class("expect: server rejects client")
		if res.ServerErr == nil {
			r.Failf("C27:server-accepted-bad-client:"+c.Cli+timeTag(c.STime), "the server completed the handshake with a client it must not accept\n%s", d())
		}
	}
	if c.Srv == sBadSKXWire && !c.SkipVerify {
		if !flipped {
			r.Failf("C27:harness-no-skx", "no ServerKeyExchange record found to corrupt\n%s", d())
		}
		// the client must stop at the corrupted ServerKeyExchange: nothing but an
		// alert may follow its ClientHello
		n := 0
		for _, rec := range recs {
			if rec.Dir != tlskit.ClientToServer {
				continue
			}
			n++
			if n > 1 && rec.Type() != 21 {
				r.Failf("C27:client-continued-after-bad-skx-signature", "the client sent a record of type %d after a ServerKeyExchange with a corrupted signature\n%s", rec.Type(), d())
			}
		}
	}
	if e.clientMustFail || e.serverMustFail {
		return
	}
	if e.unspecified {
		r.Class(fmt.Sprintf("unspecified: completed=%v", res.ClientErr == nil && res.ServerErr == nil))
		return
	}
	// everything acceptable: both ends complete and see the right peer
	r.Class("expect: both complete")
	if res.ClientErr != nil || res.ServerErr != nil {
		r.Failf("C27:acceptable-peer-rejected", "both peers are acceptable under the configuration but the handshake failed\n%s", d())
	}
	if pingErr != nil {
		r.Failf("C27:data-after-handshake", "application data did not pass: %v\n%s", pingErr, d())
	}
	sentLeaf := srvCert.Certificate[0]
	if len(cs.PeerCertificates) == 0 || !bytes.Equal(cs.PeerCertificates[0].Raw, sentLeaf) {
		r.Failf("C27:client-peer-certificates", "client PeerCertificates[0] is not the leaf the server sent\n%s", d())
	}
	if !c.SkipVerify && !endsInRootA(cs.VerifiedChains, sentLeaf) {
		r.Failf("C27:client-verified-chains", "verification is enabled but VerifiedChains is not a set of leaf..configured-root chains\n%s", d())
	}
	if c.Auth != 0 && c.Cli != cNone {
		cl := ccert.Certificate[0]
		if len(ss.PeerCertificates) == 0 || !bytes.Equal(ss.PeerCertificates[0].Raw, cl) {
			r.Failf("C27:server-peer-certificates", "server PeerCertificates[0] is not the leaf the client sent\n%s", d())
		}
		if c.Auth >= int(tls.VerifyClientCertIfGiven) && !endsInRootA(ss.VerifiedChains, cl) {
			r.Failf("C27:server-verified-chains", "client verification is requested but the server's VerifiedChains is not a set of leaf..ClientCAs-root chains\n%s", d())
		}
	}
	if (c.Auth == 0 || c.Cli == cNone) && len(ss.PeerCertificates) != 0 {
		r.Failf("C27:server-peer-certificates", "server reports peer certificates although the client sent none\n%s", d())
	}
}

func timeTag(off int64) string {
	if timeOK(off) {
		return ""
	}
	if off < 0 {
		return "+not-yet-valid"
	}
	return "+expired"
}

// ---------------------------------------------------------------------------

type combo struct {
	version uint16
	suite   uint16
	skey    string
}

// representative (version, key exchange, server key) combinations
func combos() []combo {
	var out []combo
	for _, v := range []uint16{tlsgen.TLS10, tlsgen.TLS11, tlsgen.TLS12} {
		out = append(out,
			combo{v, tls.TLS_RSA_WITH_AES_128_CBC_SHA, "rsa2048-p2-1"},
			combo{v, tls.TLS_ECDHE_RSA_WITH_AES_128_CBC_SHA, "rsa2048-p2-1"},
			combo{v, tls.TLS_DHE_RSA_WITH_AES_128_CBC_SHA, "rsa2048-p2-1"},
			combo{v, tls.TLS_ECDHE_ECDSA_WITH_AES_128_CBC_SHA, "ecP-256-0"})
	}
	out = append(out,
		combo{tlsgen.TLS12, tls.TLS_ECDHE_ECDSA_WITH_AES_128_GCM_SHA256, "ed25519-0"},
		combo{tlsgen.TLS13, 0, "rsa2048-p2-1"}, combo{tlsgen.TLS13, 0, "ecP-256-0"}, combo{tlsgen.TLS13, 0, "ed25519-0"})
	return out
}

var clientKeys = []string{"rsa2048-p2-2", "ecP-256-1", "ed25519-1"}

func pickClientKey(i int, v uint16) string {
	if v < tlsgen.TLS12 {
		return clientKeys[i%2]
	}
	return clientKeys[i%3]
}

// enumerate walks the scenario matrix.  full=false: the two single-sided
// slices (server scenarios without client authentication; client scenarios
// against a good server).  full=true: the whole product.
func enumerate(full bool, shard, nshards int, yield func(Case) bool) {
	idx := 0
	emit := func(c Case) bool {
		if !applicable(c) {
			return true
		}
		idx++
		if idx%nshards != shard {
			return true
		}
		c.FlipAt = idx
		c.Seed = uint64(idx)
		c.Indirect = idx % 4
		return yield(c)
	}
	times := []int64{0, -h12 - 1, h12 + 1}
	for _, cb := range combos() {
		for _, srv := range srvScenarios {
			for _, ct := range times {
				for _, skip := range []bool{false, true} {
					base := Case{Version: cb.version, Suite: cb.suite, SKey: cb.skey, Srv: srv, CTime: ct, SkipVerify: skip, Cli: cNone, CKey: clientKeys[0]}
					if !emit(base) {
						return
					}
					if !full && (srv != sOK || ct != 0 || skip) {
						continue
					}
					for auth := 1; auth <= 4; auth++ {
						for ci, cli := range cliScenarios {
							for _, st := range times {
								c := base
								c.Auth, c.Cli, c.STime = auth, cli, st
								c.CKey = pickClientKey(ci+auth, cb.version)
								if !emit(c) {
									return
								}
							}
						}
					}
				}
			}
		}
	}
}

const ruleMatrix = "scenario matrix: (TLS 1.0-1.3 x key exchange RSA / ECDHE_RSA / DHE_RSA / ECDHE_ECDSA / TLS 1.3 x server key RSA, ECDSA, Ed25519) x server certificate scenario (ok, ok via intermediate, missing intermediate, untrusted root, untrusted root sent along, untrusted root with the trusted root's name, self-signed, corrupted certificate signature, wrong name, wrong private key, corrupted handshake signature, ServerKeyExchange corrupted on the wire) x client clock (inside / before / after the leaf validity) x InsecureSkipVerify x ClientAuthType (5) x client certificate scenario (none, good, via intermediate, missing intermediate, untrusted, same-name root, self-signed, corrupted certificate signature, serverAuth-only EKU, wrong key, corrupted CertificateVerify) x server clock; the server settings reach the connection directly, through GetConfigForClient of a permissive outer Config, (certificate) through GetCertificate, or both ends on Config.Clone(), in rotation. Non-trivial: any scenario other than all-good"

func TestPropMatrix(t *testing.T) {
	kit.Run(t, kit.Spec[Case]{ID: "C27", Name: "matrix", Check: check,
		Rule: "exhaustive over the two single-sided slices of the " + ruleMatrix,
		Enum: func(shard, nshards int, yield func(Case) bool) { enumerate(false, shard, nshards, yield) },
		Assumptions: []string{
			"ground truth is by construction of the certificates (which root issued which leaf, names, validity window [Now-12h, Now+12h]); the exact boundary instants of the validity window are not used",
			"the statement speaks about verification enabled: with InsecureSkipVerify a server that cannot prove possession is recorded but not asserted; a client certificate whose only defect is its extended key usage is recorded but not asserted",
			"client certificates are supplied through GetClientCertificate so that they are sent whatever CAs the CertificateRequest names",
			"Config.Time is tlskit.Now plus a per-case offset; handshakes run under a 20 s limit, a time-out is inconclusive unless it reproduces alone",
		}})
}

func TestPropFullMatrix(t *testing.T) {
	kit.Run(t, kit.Spec[Case]{ID: "C27", Name: "full-matrix", Check: check, EnumTiers: "thorough",
		Rule: "exhaustive over the full product of the " + ruleMatrix,
		Enum: func(shard, nshards int, yield func(Case) bool) { enumerate(true, shard, nshards, yield) }})
}

// ---- random sampling with more keys, suites, clock offsets and flip positions

var serverKeysByKind = map[string][]string{
	"rsa": {"rsa2048-p2-1", "rsa1024-p2-0", "rsa2048-p2-2"}, "ec": {"ecP-256-0", "ecP-384-0", "ecP-521-0"}, "ed25519": {"ed25519-0"},
}
var clientKeysAll = []string{"rsa2048-p2-2", "rsa1024-p3-0", "ecP-256-1", "ecP-521-1", "ed25519-1", "ed25519-2"}

func gen(t *rapid.T) Case {
	var c Case
	for {
		c = Case{Version: rapid.SampledFrom(tlsgen.AllVersions).Draw(t, "version")}
		kind := rapid.SampledFrom([]string{"rsa", "rsa", "ec", "ed25519"}).Draw(t, "kind")
		c.SKey = rapid.SampledFrom(serverKeysByKind[kind]).Draw(t, "skey")
		if c.Version != tlsgen.TLS13 {
			var fam []uint16
			for _, s := range tlsgen.Suites {
				ok := false
				switch s.Kx {
				case tlsgen.KxRSA, tlsgen.KxECDHERSA, tlsgen.KxDHERSA:
					ok = kind == "rsa"
				case tlsgen.KxECDHEECDSA:
					ok = kind != "rsa" && s.ID != tls.TLS_ECDHE_ECDSA_WITH_3DES_EDE_CBC_SHA // C24 finding: unusable
				}
				if ok && (!s.TLS12Only || c.Version == tlsgen.TLS12) {
					fam = append(fam, s.ID)
				}
			}
			c.Suite = rapid.SampledFrom(fam).Draw(t, "suite")
		}
		c.Srv = rapid.SampledFrom(append([]string{sOK, sOK, sOK, sOKInter}, srvScenarios...)).Draw(t, "srv")
		c.CTime = genTime(t, "ctime")
		c.SkipVerify = rapid.IntRange(0, 3).Draw(t, "skip") == 0
		c.Auth = rapid.SampledFrom([]int{0, 1, 2, 3, 4, 4}).Draw(t, "auth")
		c.CKey = rapid.SampledFrom(clientKeysAll).Draw(t, "ckey")
		if c.Auth != 0 {
			c.Cli = rapid.SampledFrom(append([]string{cGood, cGood}, cliScenarios...)).Draw(t, "cli")
			c.STime = genTime(t, "stime")
		} else {
			c.Cli = cNone
		}
		c.FlipAt = rapid.IntRange(0, 4000).Draw(t, "flip")
		c.Seed = rapid.Uint64().Draw(t, "seed")
		c.Indirect = rapid.IntRange(0, 3).Draw(t, "indirect")
		if applicable(c) {
			return c
		}
	}
}

func genTime(t *rapid.T, label string) int64 {
	switch rapid.IntRange(0, 5).Draw(t, label+"-class") {
	case 0:
		return rapid.SampledFrom(timesOut).Draw(t, label)
	case 1:
		if rapid.Bool().Draw(t, label+"-side") {
			return -h12 - int64(rapid.IntRange(1, 86400*30).Draw(t, label))
		}
		return h12 + int64(rapid.IntRange(1, 86400*30).Draw(t, label))
	case 2:
		return int64(rapid.IntRange(-h12+1, h12-1).Draw(t, label))
	}
	return rapid.SampledFrom(timesIn).Draw(t, label)
}

func TestPropRandom(t *testing.T) {
	kit.Run(t, kit.Spec[Case]{ID: "C27", Name: "random", Check: check, Gen: gen, Quick: 1000, Thorough: 40000,
		Rule: "random points of the scenario matrix with more variety: every suite of the key-exchange family, server keys RSA-2048/1024, P-256/384/521, Ed25519, client keys RSA/ECDSA/Ed25519, clock offsets anywhere inside/outside the validity window (second resolution near the edges), corrupted bit position anywhere in the signature. Non-trivial: any scenario other than all-good; distinct by case hash"})
}
