package c27

import (
	"fmt"
	"net"
	"testing"

	"github.com/zmap/zcrypto/tls"
	"github.com/zmap/zcrypto/x509"
	"pgregory.net/rapid"
	"verifharness/keys"
	"verifharness/kit"
	"verifharness/pki"
	"verifharness/tlskit"
)

// Two-connection histories over one shared ClientSessionCache, and IP-literal server
// names.  The matrix in prop_test.go makes one connection per case, so it can never see a
// verifying client that skips verification by RESUMING a session (created without
// verification, or whose server certificate has expired meanwhile), nor a name check that
// is skipped for IP literals.  Statement: "With verification enabled, a client completes a
// handshake only if the server's chain verifies to the configured roots for the
// configured server name at the configured time".

type HistCase struct {
	Version  uint16 `json:"version"`
	Key      string `json:"key"`
	Scenario string `json:"scenario"`
	// ip-name only
	Name string   `json:"name,omitempty"` // Config.ServerName (an IP literal)
	IPs  []string `json:"ips,omitempty"`  // IP SANs of the leaf (DNS SAN example.test is always present)
}

const (
	hUnverifiedThenVerify = "session-created-with-InsecureSkipVerify-then-verifying-client"
	hExpiredBetween       = "server-certificate-expires-between-the-connections"
	hControl              = "control-two-verifying-connections"
	hIPName               = "ip-literal-server-name"
)

func ipLeaf(key string, ips []string) *x509.Certificate {
	wd := theWorld()
	k := keys.ByName(key)
	t := pki.Spec{CN: "example.test", Key: k.Index, Serial: 5000 + int64(k.Index), MaxPathLen: -1, NotBefore: leafNotBefore, NotAfter: leafNotAfter,
		DNS: []string{"example.test"}, KeyUsage: int(x509.KeyUsageDigitalSignature | x509.KeyUsageKeyEncipherment), EKU: []int{int(x509.ExtKeyUsageServerAuth)}}.Template()
	for _, s := range ips {
		t.IPAddresses = append(t.IPAddresses, net.ParseIP(s))
	}
	return pki.MustIssue(t, wd.rootA, k, wd.kRootA)
}

// connect runs one client/server pair to completion of the handshake and, when that
// succeeded, exchanges one byte each way so that post-handshake tickets are processed.
func connect(ccfg, scfg *tls.Config) (tlskit.Result, tls.ConnectionState) {
	p := tlskit.NewProxy(nil)
	c, s := tls.Client(p.Client, ccfg), tls.Server(p.Server, scfg)
	res := tlskit.Handshake(c, s, limit)
	var st tls.ConnectionState
	if res.ClientErr == nil && res.ServerErr == nil && !res.TimedOut {
		done := make(chan struct{})
		go func() {
			defer close(done)
			s.Write([]byte{1})
			b := make([]byte, 1)
			s.Read(b)
		}()
		b := make([]byte, 1)
		c.Read(b)
		c.Write([]byte{2})
		<-done
		st = c.ConnectionState()
	}
	c.Close()
	s.Close()
	p.Wait()
	return res, st
}

func checkHist(c HistCase, r *kit.R) {
	wd := theWorld()
	if c.Key == "ed25519-0" && c.Version < tls.VersionTLS12 {
		r.Skip()
	}
	r.Class(fmt.Sprintf("%s vers=%04x", c.Scenario, c.Version))
	r.NonTrivial()
	server := func(leafCert *x509.Certificate) *tls.Config {
		return &tls.Config{Certificates: []tls.Certificate{tlsCert([]*x509.Certificate{leafCert}, signerOf(c.Key))},
			MinVersion: c.Version, MaxVersion: c.Version, Time: clock(0)}
	}
	client := func(cache tls.ClientSessionCache, name string, off int64, skip bool) *tls.Config {
		return &tls.Config{RootCAs: wd.poolA, ServerName: name, MinVersion: c.Version, MaxVersion: c.Version, Time: clock(off),
			ClientSessionCache: cache, InsecureSkipVerify: skip}
	}
	switch c.Scenario {
	case hIPName:
		lf := ipLeaf(c.Key, c.IPs)
		want := false
		if ip := net.ParseIP(c.Name); ip != nil {
			for _, s := range c.IPs {
				if net.ParseIP(s).Equal(ip) {
					want = true
				}
			}
		}
		res, _ := connect(client(nil, c.Name, 0, false), server(lf))
		if res.TimedOut {
			r.Failf("timeout:C27-ip-name", "handshake did not finish")
		}
		got := res.ClientErr == nil
		r.Class(fmt.Sprintf("ip-name expected-accept=%v", want))
		if got && !want {
			r.Failf("C27:ip-literal-name-not-checked", "verifying client with ServerName %q completed the handshake although the trusted certificate has IP SANs %v and no matching one", c.Name, c.IPs)
		}
		if !got && want {
			r.Failf("C27:ip-literal-name-rejected", "verifying client with ServerName %q failed (%v) although the trusted certificate lists that address %v", c.Name, res.ClientErr, c.IPs)
		}
		return
	}
	cache := tls.NewLRUClientSessionCache(4)
	var first, second *tls.Config
	var scfg *tls.Config
	wantSecond := true
	switch c.Scenario {
	case hUnverifiedThenVerify:
		scfg = server(leaf(c.Key, issuerRootB, false, x509.ExtKeyUsageServerAuth)) // chain the client does NOT trust
		first, second, wantSecond = client(cache, "example.test", 0, true), client(cache, "example.test", 0, false), false
	case hExpiredBetween:
		scfg = server(leaf(c.Key, issuerRootA, false, x509.ExtKeyUsageServerAuth))
		first, second, wantSecond = client(cache, "example.test", 0, false), client(cache, "example.test", h12+1, false), false
	default:
		scfg = server(leaf(c.Key, issuerRootA, false, x509.ExtKeyUsageServerAuth))
		first, second = client(cache, "example.test", 0, false), client(cache, "example.test", 0, false)
	}
	r1, _ := connect(first, scfg)
	if r1.TimedOut || r1.ClientErr != nil || r1.ServerErr != nil {
		r.Failf("harness:c27-history-first-connection", "the first connection of the history must succeed: %+v", r1)
	}
	r2, st2 := connect(second, scfg)
	if r2.TimedOut {
		r.Failf("timeout:C27-history", "second handshake did not finish")
	}
	got := r2.ClientErr == nil
	if got {
		r.Class(fmt.Sprintf("second-connection completed resumed=%v", st2.DidResume))
	} else {
		r.Class("second-connection refused")
	}
	switch {
	case got && !wantSecond && c.Scenario == hUnverifiedThenVerify:
		r.Failf("C27:verifying-client-resumed-unverified-session", "a client with verification enabled completed a handshake (resumed=%v) with a server whose chain does not verify, after an InsecureSkipVerify connection had left a session for the same server name in the shared cache", st2.DidResume)
	case got && !wantSecond:
		r.Failf("C27:verifying-client-completed-after-certificate-expiry", "a client with verification enabled completed a handshake (resumed=%v) at a time after the server certificate's NotAfter, using the session cached while the certificate was valid", st2.DidResume)
	case !got && wantSecond:
		r.Failf("C27:history-control-failed", "two verifying connections to a trusted server: the second failed with %v", r2.ClientErr)
	}
}

const ruleHist = "histories of two connections sharing one LRU ClientSessionCache (TLS 1.0-1.3 x RSA/ECDSA/Ed25519 server key): (a) first connection with InsecureSkipVerify to a server whose chain the client does not trust, second connection verifying - must not complete; (b) both verifying, the client clock of the second is past the leaf's NotAfter (ticket still fresh) - must not complete; (c) control - must complete; plus single verifying connections whose ServerName is an IPv4/IPv6 literal against a trusted leaf with generated IP SANs - completes exactly when the address is listed. Every case is non-trivial; the space is enumerated exhaustively"

func ipCases() (out []HistCase) {
	names := []string{"10.0.0.1", "10.0.0.2", "::1", "2001:db8::1", "127.0.0.1"}
	sans := [][]string{nil, {"10.0.0.1"}, {"10.0.0.2", "::1"}, {"2001:db8::1"}, {"10.0.0.1", "127.0.0.1", "2001:db8::1"}}
	for _, n := range names {
		for _, s := range sans {
			out = append(out, HistCase{Scenario: hIPName, Name: n, IPs: s})
		}
	}
	return
}

func TestPropHistories(t *testing.T) {
	kit.Run(t, kit.Spec[HistCase]{ID: "C27", Name: "histories", Rule: ruleHist, Check: checkHist,
		Enum: func(shard, nshards int, yield func(HistCase) bool) {
			i := 0
			for _, v := range []uint16{tls.VersionTLS10, tls.VersionTLS11, tls.VersionTLS12, tls.VersionTLS13} {
				for _, k := range []string{"rsa2048-p2-1", "ecP-256-0", "ed25519-0"} {
					var cs []HistCase
					for _, sc := range []string{hUnverifiedThenVerify, hExpiredBetween, hControl} {
						cs = append(cs, HistCase{Scenario: sc})
					}
					cs = append(cs, ipCases()...)
					for _, c := range cs {
						c.Version, c.Key = v, k
						i++
						if i%nshards != shard {
							continue
						}
						if !yield(c) {
							return
						}
					}
				}
			}
		}})
}

var _ = rapid.Bool
