package c27

import (
	"crypto"
	"fmt"
	"io"
	"sync"

	"github.com/zmap/zcrypto/tls"
	"github.com/zmap/zcrypto/x509"
	"verifharness/keys"
	"verifharness/pki"
)

// The certificate world of C27.  Ground truth is by construction: which
// chains lead to which root, which names and validity window the leaves carry.
//
//	rootA  (trusted by the verifying side)        key rsa2048-p2-0
//	rootA' (same subject as rootA, other key)      key ecP-384-1      - never trusted
//	rootB  (other subject)                         key rsa2048-p3-0   - never trusted
//	inter  (CA issued by rootA)                    key rsa1024-p2-1
//
// Leaves are valid from Epoch+24h to Epoch+48h; tlskit.Now is Epoch+36h.
const (
	leafNotBefore = 24 * 3600
	leafNotAfter  = 48 * 3600
	nowOffset     = 36 * 3600 // tlskit.Now relative to pki.Epoch
)

type world struct {
	rootA, rootAx, rootB, inter *x509.Certificate
	kRootA, kRootAx, kRootB     *keys.Key
	kInter                      *keys.Key
	poolA                       *x509.CertPool
}

var (
	wOnce sync.Once
	w     world
)

func ca(cn string, k *keys.Key, parent *x509.Certificate, pk *keys.Key, serial int64) *x509.Certificate {
	t := pki.Spec{CN: cn, Key: k.Index, Serial: serial, CA: true, MaxPathLen: -1, NotBefore: -365 * 86400, NotAfter: 3650 * 86400,
		KeyUsage: int(x509.KeyUsageCertSign | x509.KeyUsageCRLSign | x509.KeyUsageDigitalSignature)}.Template()
	if parent == nil {
		return pki.MustIssue(t, nil, k, k)
	}
	return pki.MustIssue(t, parent, k, pk)
}

func theWorld() *world {
	wOnce.Do(func() {
		w.kRootA, w.kRootAx, w.kRootB, w.kInter = keys.ByName("rsa2048-p2-0"), keys.ByName("ecP-384-1"), keys.ByName("rsa2048-p3-0"), keys.ByName("rsa1024-p2-1")
		w.rootA = ca("C27 root A", w.kRootA, nil, nil, 1)
		w.rootAx = ca("C27 root A", w.kRootAx, nil, nil, 1)
		w.rootB = ca("C27 root B", w.kRootB, nil, nil, 1)
		w.inter = ca("C27 intermediate", w.kInter, w.rootA, w.kRootA, 2)
		w.poolA = x509.NewCertPool()
		w.poolA.AddCert(w.rootA)
	})
	return &w
}

// leaf kinds
const (
	issuerRootA  = "rootA"
	issuerInter  = "inter"
	issuerRootAx = "rootA-same-name-other-key"
	issuerRootB  = "rootB"
	issuerSelf   = "self"
)

type leafKey struct {
	key    string
	issuer string
	client bool
	eku    int // x509.ExtKeyUsage
}

var (
	leafMu    sync.Mutex
	leafCache = map[leafKey]*x509.Certificate{}
)

// leaf returns (cached) a leaf for the pool key, issued by the named issuer.
func leaf(key, issuer string, client bool, eku x509.ExtKeyUsage) *x509.Certificate {
	wd := theWorld()
	lk := leafKey{key, issuer, client, int(eku)}
	leafMu.Lock()
	defer leafMu.Unlock()
	if c, ok := leafCache[lk]; ok {
		return c
	}
	k := keys.ByName(key)
	if k == nil {
		panic("c27: unknown key " + key)
	}
	cn, dns := "example.test", []string{"example.test"}
	if client {
		cn, dns = "C27 client", nil
	}
	t := pki.Spec{CN: cn, Key: k.Index, Serial: 1000 + int64(k.Index), MaxPathLen: -1, NotBefore: leafNotBefore, NotAfter: leafNotAfter, DNS: dns,
		KeyUsage: int(x509.KeyUsageDigitalSignature | x509.KeyUsageKeyEncipherment), EKU: []int{int(eku)}}.Template()
	var c *x509.Certificate
	switch issuer {
	case issuerRootA:
		c = pki.MustIssue(t, wd.rootA, k, wd.kRootA)
	case issuerInter:
		c = pki.MustIssue(t, wd.inter, k, wd.kInter)
	case issuerRootAx:
		c = pki.MustIssue(t, wd.rootAx, k, wd.kRootAx)
	case issuerRootB:
		c = pki.MustIssue(t, wd.rootB, k, wd.kRootB)
	case issuerSelf:
		c = pki.MustIssue(t, nil, k, k)
	default:
		panic("c27: unknown issuer " + issuer)
	}
	leafCache[lk] = c
	return c
}

// corruptCertSig returns the certificate DER with one bit of the last byte of
// its signature value flipped (the TBS bytes are untouched).
func corruptCertSig(der []byte) []byte {
	out := append([]byte{}, der...)
	out[len(out)-1] ^= 0x01
	return out
}

// badSigner wraps a crypto.Signer and flips one bit of every signature it
// produces: the peer sees a well-formed handshake with an invalid signature,
// and both transcripts stay identical.
type badSigner struct {
	inner crypto.Signer
	at    int // position selector
}

func (b badSigner) Public() crypto.PublicKey { return b.inner.Public() }
func (b badSigner) Sign(rand io.Reader, digest []byte, opts crypto.SignerOpts) ([]byte, error) {
	sig, err := b.inner.Sign(rand, digest, opts)
	if err != nil || len(sig) == 0 {
		return sig, err
	}
	pos := len(sig) - 1
	switch b.at % 3 {
	case 1:
		pos = len(sig) / 2
	case 2:
		pos = len(sig) - 1 - (b.at/3)%min(len(sig), 20)
	}
	sig[pos] ^= 1 << uint(b.at%8)
	return sig, nil
}

func signerOf(key string) crypto.Signer {
	s, ok := keys.ByName(key).ZPriv.(crypto.Signer)
	if !ok {
		panic(fmt.Sprintf("c27: key %s is not a crypto.Signer", key))
	}
	return s
}

func tlsCert(chain []*x509.Certificate, priv crypto.PrivateKey) tls.Certificate {
	c := tls.Certificate{PrivateKey: priv, Leaf: chain[0]}
	for _, x := range chain {
		c.Certificate = append(c.Certificate, x.Raw)
	}
	return c
}
