package c23

import (
	"bytes"
	"crypto"
	stdrsa "crypto/rsa"
	"fmt"
	"math/big"
	"testing"

	zrsa "github.com/zmap/zcrypto/rsa"
	"pgregory.net/rapid"
	"verifharness/kit"
)

// ---------------------------------------------------------------------------
// sub-check "crypt": zcrypto encrypts => reference and crypto/rsa decrypt to the
// message; reference / crypto/rsa encrypt => every zcrypto decryption entry
// point returns the message.  "Message too long" must agree.

type CryptCase struct {
	Key    KeySpec `json:"key"`
	OAEP   bool    `json:"oaep"`
	Hash   int     `json:"hash"`
	MGF    int     `json:"mgf"` // OAEP MGF1 hash for the decrypt-side test (index; == Hash mostly)
	Label  []byte  `json:"label"`
	LenSel int     `json:"len_sel"` // 0 empty, 1 one byte, 2 max, 3 max+1, 4 Frac/256 of max
	Frac   int     `json:"frac"`
	Seed   []byte  `json:"seed"`
}

func genCrypt(t *rapid.T) CryptCase {
	c := CryptCase{Key: genKeySpec(t, true), OAEP: rapid.Bool().Draw(t, "oaep")}
	if c.OAEP {
		c.Hash = rapid.IntRange(0, len(pssHashes)-1).Draw(t, "hash")
		c.MGF = c.Hash
		if rapid.IntRange(0, 2).Draw(t, "mgfdiff") == 0 {
			c.MGF = rapid.IntRange(0, len(pssHashes)-1).Draw(t, "mgf")
		}
		c.Label = rapid.SliceOfN(rapid.Byte(), 0, 12).Draw(t, "label")
	}
	c.LenSel = rapid.SampledFrom([]int{0, 1, 2, 2, 3, 4, 4, 4}).Draw(t, "lensel")
	c.Frac = rapid.IntRange(0, 255).Draw(t, "frac")
	c.Seed = rapid.SliceOfN(rapid.Byte(), 4, 4).Draw(t, "seed")
	return c
}

func msgFor(sel, frac, max int, seed []byte) []byte {
	n := 0
	switch sel {
	case 1:
		n = 1
	case 2:
		n = max
	case 3:
		n = max + 1
	case 4:
		n = max * frac / 256
	}
	if n < 0 {
		n = 0
	}
	return detBytes(append([]byte("msg"), seed...), n)
}

func nonZero(b []byte) []byte {
	for i := range b {
		if b[i] == 0 {
			b[i] = 0xa5
		}
	}
	return b
}

func checkCrypt(c CryptCase, r *kit.R) {
	k, why := resolve(c.Key)
	if k == nil {
		r.Class("invalid-key:" + why)
		return
	}
	k.classes(r)
	if c.OAEP {
		checkCryptOAEP(c, k, r)
	} else {
		checkCryptV15(c, k, r)
	}
	if k.nonTrivial() {
		r.NonTrivial()
	}
}

func lenClass(r *kit.R, sel int) {
	r.Class([]string{"msg=empty", "msg=1", "msg=max", "msg=max+1", "msg=random"}[sel%5])
}

func checkCryptV15(c CryptCase, k *rkey, r *kit.R) {
	max := k.K - 11
	msg := msgFor(c.LenSel, c.Frac, max, c.Seed)
	fits := len(msg) <= max
	r.Class("v15-encrypt")
	lenClass(r, c.LenSel)
	zpub := &k.Z.PublicKey

	// zcrypto encrypts
	ct, err := zrsa.EncryptPKCS1v15(newDetRand(c.Seed), zpub, msg)
	if k.Std != nil {
		_, serr := stdrsa.EncryptPKCS1v15(newDetRand(c.Seed), &k.Std.PublicKey, msg)
		if (serr == nil) != fits {
			r.Failf("harness:oracle-disagree", "crypto/rsa EncryptPKCS1v15 err=%v, fits=%v", serr, fits)
		}
	}
	if !fits {
		r.Class("expect-error")
		if err == nil {
			r.Failf("C23:encrypt-v15-no-error", "EncryptPKCS1v15 accepted a %d-byte message with k=%d", len(msg), k.K)
		}
		return
	}
	if err != nil {
		r.Failf("C23:encrypt-v15-error", "EncryptPKCS1v15(%d bytes, k=%d, e=%s) failed: %v", len(msg), k.K, k.E.Text(16), err)
	}
	if len(ct) != k.K {
		r.Failf("C23:encrypt-v15-value", "ciphertext has %d bytes, k=%d", len(ct), k.K)
	}
	m, ok := rsadp(k.N, k.D, ct)
	if !ok {
		r.Failf("C23:encrypt-v15-value", "ciphertext representative >= n")
	}
	if got, ok := eme1Decode(i2osp(m, k.K)); !ok || !bytes.Equal(got, msg) {
		r.Failf("C23:encrypt-v15-value", "reference decryption of zcrypto's ciphertext: ok=%v, %x != %x", ok, got, msg)
	}
	if k.Std != nil {
		got, err := stdrsa.DecryptPKCS1v15(nil, k.Std, ct)
		if err != nil || !bytes.Equal(got, msg) {
			r.Failf("C23:encrypt-v15-value", "crypto/rsa decryption of zcrypto's ciphertext: err=%v, %x != %x", err, got, msg)
		}
	}

	// foreign ciphertexts
	ps := nonZero(detBytes(append([]byte("ps"), c.Seed...), k.K-3-len(msg)))
	c1, _ := rsaep(k.N, k.E, eme1(ps, msg))
	cts := [][]byte{i2osp(c1, k.K)}
	if k.Std != nil {
		sct, err := stdrsa.EncryptPKCS1v15(newDetRand(append([]byte("s"), c.Seed...)), &k.Std.PublicKey, msg)
		if err != nil {
			r.Failf("harness:oracle-disagree", "crypto/rsa EncryptPKCS1v15: %v", err)
		}
		cts = append(cts, sct)
	}
	for i, ct := range cts {
		where := fmt.Sprintf("ciphertext source %d, %d-byte message, k=%d, primes=%d, pre=%v", i, len(msg), k.K, k.NPrimes, k.Pre)
		if got, err := zrsa.DecryptPKCS1v15(nil, k.Z, ct); err != nil || !bytes.Equal(got, msg) {
			r.Failf("C23:decrypt-v15", "DecryptPKCS1v15 (%s): err=%v, %x != %x", where, err, got, msg)
		}
		if got, err := k.Z.Decrypt(nil, ct, nil); err != nil || !bytes.Equal(got, msg) {
			r.Failf("C23:decrypt-v15", "priv.Decrypt(nil opts) (%s): err=%v", where, err)
		}
		if got, err := k.Z.Decrypt(nil, ct, &zrsa.PKCS1v15DecryptOptions{}); err != nil || !bytes.Equal(got, msg) {
			r.Failf("C23:decrypt-v15", "priv.Decrypt(PKCS1v15DecryptOptions{}) (%s): err=%v", where, err)
		}
		// session key API
		if len(msg) > 0 {
			if got, err := k.Z.Decrypt(newDetRand(c.Seed), ct, &zrsa.PKCS1v15DecryptOptions{SessionKeyLen: len(msg)}); err != nil || !bytes.Equal(got, msg) {
				r.Failf("C23:decrypt-v15-session", "priv.Decrypt(SessionKeyLen=%d) (%s): err=%v", len(msg), where, err)
			}
		}
		key := bytes.Repeat([]byte{0x5c}, len(msg))
		if err := zrsa.DecryptPKCS1v15SessionKey(nil, k.Z, ct, key); err != nil || !bytes.Equal(key, msg) {
			r.Failf("C23:decrypt-v15-session", "DecryptPKCS1v15SessionKey (%s): err=%v key=%x", where, err, key)
		}
		// wrong expected length: key untouched, no error (when the length is admissible)
		wrong := bytes.Repeat([]byte{0x5c}, len(msg)+1)
		err := zrsa.DecryptPKCS1v15SessionKey(nil, k.Z, ct, wrong)
		if k.K-(len(wrong)+11) < 0 {
			if err == nil {
				r.Failf("C23:decrypt-v15-session", "DecryptPKCS1v15SessionKey accepted a %d-byte key with k=%d", len(wrong), k.K)
			}
		} else if err != nil || !bytes.Equal(wrong, bytes.Repeat([]byte{0x5c}, len(msg)+1)) {
			r.Failf("C23:decrypt-v15-session", "DecryptPKCS1v15SessionKey with a key of the wrong length (%s): err=%v key=%x (must stay unchanged)", where, err, wrong)
		}
	}
}

func checkCryptOAEP(c CryptCase, k *rkey, r *kit.R) {
	h := pssHashes[c.Hash%len(pssHashes)]
	mgf := pssHashes[c.MGF%len(pssHashes)]
	max := k.K - 2*h.Size() - 2
	msg := msgFor(c.LenSel, c.Frac, max, c.Seed)
	fits := len(msg) <= max
	r.Class("oaep/" + hashName(h))
	lenClass(r, c.LenSel)
	zpub := &k.Z.PublicKey

	ct, err := zrsa.EncryptOAEP(h.New(), newDetRand(c.Seed), zpub, msg, c.Label)
	if k.Std != nil {
		_, serr := stdrsa.EncryptOAEP(h.New(), newDetRand(c.Seed), &k.Std.PublicKey, msg, c.Label)
		if (serr == nil) != fits {
			r.Failf("harness:oracle-disagree", "crypto/rsa EncryptOAEP err=%v, fits=%v", serr, fits)
		}
	}
	if !fits {
		r.Class("expect-error")
		if err == nil {
			r.Failf("C23:encrypt-oaep-no-error", "EncryptOAEP accepted a %d-byte message with k=%d, hLen=%d", len(msg), k.K, h.Size())
		}
		return
	}
	if err != nil {
		r.Failf("C23:encrypt-oaep-error", "EncryptOAEP(%d bytes, k=%d, %s) failed: %v", len(msg), k.K, hashName(h), err)
	}
	if len(ct) != k.K {
		r.Failf("C23:encrypt-oaep-value", "ciphertext has %d bytes, k=%d", len(ct), k.K)
	}
	m, ok := rsadp(k.N, k.D, ct)
	if !ok {
		r.Failf("C23:encrypt-oaep-value", "ciphertext representative >= n")
	}
	if got, ok := oaepDecode(h, h, c.Label, i2osp(m, k.K)); !ok || !bytes.Equal(got, msg) {
		r.Failf("C23:encrypt-oaep-value", "reference OAEP decoding of zcrypto's ciphertext: ok=%v", ok)
	}
	if k.Std != nil {
		got, err := stdrsa.DecryptOAEP(h.New(), nil, k.Std, ct, c.Label)
		if err != nil || !bytes.Equal(got, msg) {
			r.Failf("C23:encrypt-oaep-value", "crypto/rsa DecryptOAEP of zcrypto's ciphertext: err=%v", err)
		}
	}

	// foreign ciphertexts: reference encoder (label hash h, MGF hash mgf), crypto/rsa (mgf == h)
	seed := detBytes(append([]byte("seed"), c.Seed...), h.Size())
	em, eok := oaepEncode(h, mgf, c.Label, msg, seed, k.K)
	if !eok {
		r.Failf("harness:oracle-disagree", "reference OAEP encoder refused a fitting message")
	}
	c1, _ := rsaep(k.N, k.E, em)
	refct := i2osp(c1, k.K)
	if mgf != h {
		r.Class("oaep/mgf-differs")
	}
	where := fmt.Sprintf("%d-byte message, k=%d, %s/mgf %s, primes=%d, pre=%v", len(msg), k.K, hashName(h), hashName(mgf), k.NPrimes, k.Pre)
	got, err := k.Z.Decrypt(nil, refct, &zrsa.OAEPOptions{Hash: h, MGFHash: mgf, Label: c.Label})
	if err != nil || !bytes.Equal(got, msg) {
		r.Failf("C23:decrypt-oaep", "priv.Decrypt(OAEPOptions) (%s): err=%v", where, err)
	}
	if k.Std != nil {
		sgot, serr := k.Std.Decrypt(nil, refct, &stdrsa.OAEPOptions{Hash: h, MGFHash: mgf, Label: c.Label})
		if serr != nil || !bytes.Equal(sgot, msg) {
			r.Failf("harness:oracle-disagree", "crypto/rsa cannot decrypt the reference OAEP ciphertext (%s): %v", where, serr)
		}
	}
	if mgf == h {
		if got, err := zrsa.DecryptOAEP(h.New(), nil, k.Z, refct, c.Label); err != nil || !bytes.Equal(got, msg) {
			r.Failf("C23:decrypt-oaep", "DecryptOAEP (%s): err=%v", where, err)
		}
		if got, err := k.Z.Decrypt(nil, refct, &zrsa.OAEPOptions{Hash: h, Label: c.Label}); err != nil || !bytes.Equal(got, msg) {
			r.Failf("C23:decrypt-oaep", "priv.Decrypt(OAEPOptions without MGFHash) (%s): err=%v", where, err)
		}
		if k.Std != nil {
			sct, err := stdrsa.EncryptOAEP(h.New(), newDetRand(append([]byte("s"), c.Seed...)), &k.Std.PublicKey, msg, c.Label)
			if err != nil {
				r.Failf("harness:oracle-disagree", "crypto/rsa EncryptOAEP: %v", err)
			}
			if got, err := zrsa.DecryptOAEP(h.New(), nil, k.Z, sct, c.Label); err != nil || !bytes.Equal(got, msg) {
				r.Failf("C23:decrypt-oaep", "DecryptOAEP of crypto/rsa's ciphertext (%s): err=%v", where, err)
			}
		}
	}
}

const cryptRule = "keys as in 'sign'; message length empty / 1 / maximal / maximal+1 / random fraction; PKCS#1 v1.5 and OAEP (7 hashes, optional different MGF1 hash via OAEPOptions, random label). Non-trivial: multi-prime, e > 2^31-1, or not precomputed; distinct by case hash"

func TestPropCrypt(t *testing.T) {
	kit.Run(t, kit.Spec[CryptCase]{ID: "C23", Name: "crypt", Rule: cryptRule, Gen: genCrypt, Check: checkCrypt,
		Quick: 600, Thorough: 6000})
}

// ---------------------------------------------------------------------------
// sub-check "cforge": hand-made encryption blocks EM (canonical or deviating in
// one place) encrypted with c = EM^e mod n, then mutated; every zcrypto
// decryption entry point must return exactly what the RFC 8017 decoder returns
// (message or error), and what crypto/rsa returns when e fits.

type CForgeCase struct {
	Key    KeySpec `json:"key"`
	OAEP   bool    `json:"oaep"`
	Hash   int     `json:"hash"`
	MGF    int     `json:"mgf"`
	Label  []byte  `json:"label"`
	MsgLen int     `json:"msg_len"`
	Shape  int     `json:"shape"`
	Pos    int     `json:"pos"`
	Val    byte    `json:"val"`
	CtMut  int     `json:"ct_mut"`
	KeyLen int     `json:"key_len"` // session-key length delta relative to the message
	Seed   []byte  `json:"seed"`
}

func genCForge(t *rapid.T) CForgeCase {
	c := CForgeCase{Key: genKeySpec(t, false), OAEP: rapid.Bool().Draw(t, "oaep")}
	if c.OAEP {
		c.Hash = rapid.SampledFrom([]int{0, 0, 1, 2, 3}).Draw(t, "hash") // hashes that fit the small keys
		c.MGF = c.Hash
		if rapid.IntRange(0, 3).Draw(t, "mgfdiff") == 0 {
			c.MGF = rapid.IntRange(0, 3).Draw(t, "mgf")
		}
		c.Label = rapid.SliceOfN(rapid.Byte(), 0, 6).Draw(t, "label")
		c.Shape = rapid.SampledFrom([]int{0, 0, 1, 2, 3, 4, 5, 6}).Draw(t, "shape")
	} else {
		c.Shape = rapid.SampledFrom([]int{0, 0, 1, 2, 3, 4, 5, 6, 7}).Draw(t, "shape")
	}
	c.MsgLen = rapid.SampledFrom([]int{0, 1, 16, 32, 48, 5, 20}).Draw(t, "msglen")
	c.Pos = rapid.IntRange(0, 300).Draw(t, "pos")
	c.Val = rapid.SampledFrom([]byte{0, 1, 2, 3, 0xff, 0x80}).Draw(t, "val")
	c.CtMut = rapid.SampledFrom([]int{0, 0, 0, 0, 0, 0, 1, 2, 4, 5, 6, 7, 8, 9}).Draw(t, "ctmut")
	c.KeyLen = rapid.SampledFrom([]int{0, 0, 0, 1, -1}).Draw(t, "keylen")
	c.Seed = rapid.SliceOfN(rapid.Byte(), 4, 4).Draw(t, "seed")
	return c
}

func craftEME1(k int, msg []byte, c CForgeCase) ([]byte, string) {
	psLen := k - 3 - len(msg)
	if psLen < 8 {
		return nil, ""
	}
	ps := nonZero(detBytes(append([]byte("ps"), c.Seed...), psLen))
	name := "canonical"
	switch c.Shape {
	case 1: // 7-octet PS (one short): the message grows to fill the block
		filler := nonZero(detBytes(append([]byte("fill"), c.Seed...), psLen-7))
		return eme1(ps[:7], append(filler, msg...)), "ps=7"
	case 2: // 0..6-octet PS
		n := c.Pos % 7
		filler := nonZero(detBytes(append([]byte("fill"), c.Seed...), psLen-n))
		return eme1(ps[:n], append(filler, msg...)), "ps<7"
	case 3: // a zero octet inside PS
		ps[c.Pos%psLen] = 0
		name = "zero-in-ps"
	case 4:
		em := eme1(ps, msg)
		em[0] = c.Val
		return em, "first-octet"
	case 5:
		em := eme1(ps, msg)
		em[1] = c.Val
		return em, "block-type"
	case 6: // no zero octet anywhere after the block type
		em := eme1(ps, nonZero(append([]byte{}, msg...)))
		em[2+psLen] = 0x77
		return em, "no-separator"
	case 7: // exactly 8 octets of PS
		filler := detBytes(append([]byte("fill"), c.Seed...), psLen-8)
		return eme1(ps[:8], append(filler, msg...)), "ps=8"
	}
	return eme1(ps, msg), name
}

func craftOAEP(h, mgf crypto.Hash, k int, msg []byte, c CForgeCase) ([]byte, string) {
	hLen := h.Size()
	if len(msg) > k-2*hLen-2 {
		return nil, ""
	}
	label := c.Label
	name := "canonical"
	delim := byte(1)
	y := byte(0)
	psOct := -1
	encMGF := mgf
	switch c.Shape {
	case 1:
		label = append(append([]byte{}, c.Label...), 'x')
		name = "label-mismatch"
	case 2:
		y = c.Val
		name = "first-octet"
	case 3:
		delim = c.Val
		name = "delimiter"
	case 4:
		psOct = c.Pos
		name = "ps-octet"
	case 5:
		encMGF = pssHashes[(c.MGF+1)%4]
		name = "mgf-mismatch"
	case 6:
		delim = 0
		msg = make([]byte, len(msg))
		name = "no-delimiter"
	}
	hh := h.New()
	hh.Write(label)
	db := hh.Sum(nil)
	psLen := k - len(msg) - 2*hLen - 2
	db = append(db, make([]byte, psLen)...)
	if psOct >= 0 {
		if psLen == 0 {
			name = "canonical"
		} else {
			db[hLen+psOct%psLen] = c.Val
		}
	}
	db = append(db, delim)
	db = append(db, msg...)
	seed := detBytes(append([]byte("seed"), c.Seed...), hLen)
	em := oaepMask(encMGF, seed, db)
	em[0] = y
	return em, name
}

func mutateCt(ct []byte, n *big.Int, k int, c CForgeCase) ([]byte, string) {
	switch c.CtMut {
	case 1:
		v := new(big.Int).Add(new(big.Int).SetBytes(ct), n)
		if b := i2osp(v, k); b != nil {
			return b, "c+n"
		}
		return i2osp(v, k+1), "c+n-longer"
	case 2:
		return append([]byte{0}, ct...), "prepend-00"
	case 4:
		out := append([]byte{}, ct...)
		out[c.Pos%len(out)] ^= 1 << (c.Val % 8)
		return out, "bit-flip"
	case 5:
		return make([]byte, k), "c=0"
	case 6:
		return i2osp(big.NewInt(1), k), "c=1"
	case 7:
		return i2osp(new(big.Int).Sub(n, big1), k), "c=n-1"
	case 8:
		return i2osp(n, k), "c=n"
	case 9:
		return new(big.Int).SetBytes(ct).Bytes(), "minimal-length"
	}
	return ct, "c-intact"
}

func checkCForge(c CForgeCase, r *kit.R) {
	k, why := resolve(c.Key)
	if k == nil {
		r.Class("invalid-key:" + why)
		return
	}
	k.classes(r)
	msg := detBytes(append([]byte("msg"), c.Seed...), c.MsgLen)
	var em []byte
	var shape string
	h := pssHashes[c.Hash%len(pssHashes)]
	mgf := pssHashes[c.MGF%len(pssHashes)]
	if c.OAEP {
		em, shape = craftOAEP(h, mgf, k.K, msg, c)
	} else {
		em, shape = craftEME1(k.K, msg, c)
	}
	if em == nil {
		r.Class("shape-not-applicable")
		return
	}
	if len(em) != k.K {
		r.Failf("harness:craft", "crafted EM has %d bytes, k=%d", len(em), k.K)
	}
	cv, ok := rsaep(k.N, k.E, em)
	if !ok {
		r.Class("em>=n")
		return
	}
	ct, mut := mutateCt(i2osp(cv, k.K), k.N, k.K, c)
	scheme := "v15"
	if c.OAEP {
		scheme = "oaep"
	}
	r.Class(scheme + "/" + shape)
	r.Class("mut/" + mut)
	r.NonTrivial()

	// Length rule.  RFC 8017 7.1.2/7.2.2 demand len(C) == k.  crypto/rsa demands len(C) <= k for
	// OAEP (as does zcrypto); for v1.5 it accepts shorter inputs and rejects longer ones only at
	// limb granularity (an accident of bigmod.SetBytes), so v1.5 ciphertexts longer than k are
	// executed (panic containment) but their verdict is not compared.
	if !c.OAEP && len(ct) > k.K {
		r.Class("v15/overlong-not-compared")
		got, err := zrsa.DecryptPKCS1v15(nil, k.Z, ct)
		if err == nil {
			r.Class("v15/overlong-accepted")
			_ = got
		}
		return
	}
	var want []byte
	wok := false
	if m, inRange := rsadp(k.N, k.D, ct); inRange && (!c.OAEP || len(ct) <= k.K) {
		if c.OAEP {
			want, wok = oaepDecode(h, mgf, c.Label, i2osp(m, k.K))
		} else {
			want, wok = eme1Decode(i2osp(m, k.K))
		}
	}
	if wok {
		r.Class("expect-plaintext")
	} else {
		r.Class("expect-error")
	}
	where := fmt.Sprintf("EM shape %q, ciphertext mutation %q, k=%d, e=%s, primes=%d, pre=%v", shape, mut, k.K, k.E.Text(16), k.NPrimes, k.Pre)
	cmp := func(api string, got []byte, err error) {
		if (err == nil) != wok {
			r.Failf("C23:decrypt-"+scheme+"-verdict", "%s: err=%v but the reference/crypto-rsa verdict is ok=%v (%s)", api, err, wok, where)
		}
		if wok && !bytes.Equal(got, want) {
			r.Failf("C23:decrypt-"+scheme+"-verdict", "%s returned %x, expected %x (%s)", api, got, want, where)
		}
	}
	if c.OAEP {
		if k.Std != nil {
			sgot, serr := k.Std.Decrypt(nil, ct, &stdrsa.OAEPOptions{Hash: h, MGFHash: mgf, Label: c.Label})
			if (serr == nil) != wok || (wok && !bytes.Equal(sgot, want)) {
				r.Failf("harness:oracle-disagree", "OAEP %s: crypto/rsa err=%v, reference ok=%v", where, serr, wok)
			}
		}
		got, err := k.Z.Decrypt(nil, ct, &zrsa.OAEPOptions{Hash: h, MGFHash: mgf, Label: c.Label})
		cmp("priv.Decrypt(OAEPOptions)", got, err)
		if mgf == h {
			got, err := zrsa.DecryptOAEP(h.New(), nil, k.Z, ct, c.Label)
			cmp("DecryptOAEP", got, err)
		}
		return
	}
	if k.Std != nil {
		sgot, serr := stdrsa.DecryptPKCS1v15(nil, k.Std, ct)
		if (serr == nil) != wok || (wok && !bytes.Equal(sgot, want)) {
			r.Failf("harness:oracle-disagree", "v1.5 %s: crypto/rsa err=%v, reference ok=%v", where, serr, wok)
		}
	}
	got, err := zrsa.DecryptPKCS1v15(nil, k.Z, ct)
	cmp("DecryptPKCS1v15", got, err)
	got, err = k.Z.Decrypt(nil, ct, nil)
	cmp("priv.Decrypt(nil)", got, err)

	// session key: never an error for an in-range ciphertext; key replaced iff valid and of that length
	kl := len(want) + c.KeyLen
	if !wok {
		kl = 16 + c.KeyLen
	}
	if kl < 0 {
		kl = 0
	}
	key := bytes.Repeat([]byte{0x5c}, kl)
	orig := append([]byte{}, key...)
	serr := zrsa.DecryptPKCS1v15SessionKey(nil, k.Z, ct, key)
	_, inRange := rsadp(k.N, k.D, ct)
	switch {
	case k.K-(kl+11) < 0 || !inRange:
		if serr == nil {
			r.Failf("C23:decrypt-v15-session", "DecryptPKCS1v15SessionKey: no error for key length %d / out-of-range ciphertext (%s)", kl, where)
		}
		r.Class("session/expect-error")
	case serr != nil:
		r.Failf("C23:decrypt-v15-session", "DecryptPKCS1v15SessionKey returned %v; it must not reveal padding validity (%s)", serr, where)
	case wok && len(want) == kl:
		r.Class("session/key-replaced")
		if !bytes.Equal(key, want) {
			r.Failf("C23:decrypt-v15-session", "DecryptPKCS1v15SessionKey: key=%x, expected %x (%s)", key, want, where)
		}
	default:
		r.Class("session/key-kept")
		if !bytes.Equal(key, orig) {
			r.Failf("C23:decrypt-v15-session", "DecryptPKCS1v15SessionKey changed the key although the padding/length is wrong (%s)", where)
		}
	}
	if k.Std != nil && inRange && k.K-(kl+11) >= 0 {
		skey := append([]byte{}, orig...)
		if err := stdrsa.DecryptPKCS1v15SessionKey(nil, k.Std, ct, skey); err != nil || !bytes.Equal(skey, key) {
			r.Failf("harness:oracle-disagree", "crypto/rsa session key: err=%v key=%x, zcrypto key=%x (%s)", err, skey, key, where)
		}
	}
}

const cforgeRule = "keys as in 'sign' (up to ~2056 bits); an encryption block EM is built by hand - canonical or with one deviation (v1.5: PS of 7 / 0..6 / exactly 8 octets, zero octet inside PS, first octet, block type, no separator; OAEP: label mismatch, first octet, delimiter, PS octet, MGF1 hash mismatch, no delimiter) - c = EM^e mod n with math/big, then c kept or mutated (c+n, prepend 00, bit flip, 0, 1, n-1, n, leading zeros stripped); session-key length equal / +-1. Every case is non-trivial (crafted input); distinct by case hash"

func TestPropCForge(t *testing.T) {
	kit.Run(t, kit.Spec[CForgeCase]{ID: "C23", Name: "cforge", Rule: cforgeRule, Gen: genCForge, Check: checkCForge,
		Quick: 2000, Thorough: 22000,
		Assumptions: []string{"ciphertexts shorter than k are decrypted like crypto/rsa does (RFC 8017 would reject them); the verdict on PKCS#1 v1.5 ciphertexts longer than k (leading zero octets) is not compared because crypto/rsa itself only rejects them at limb granularity"}})
}
