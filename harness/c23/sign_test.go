package c23

import (
	"bytes"
	"crypto"
	stdrsa "crypto/rsa"
	"testing"

	zrsa "github.com/zmap/zcrypto/rsa"
	"pgregory.net/rapid"
	"verifharness/kit"
)

// ---------------------------------------------------------------------------
// sub-check "sign": zcrypto signs => reference and crypto/rsa verify (and, for
// PKCS#1 v1.5, the signature is byte-identical); reference / crypto/rsa sign
// => zcrypto verifies.  Error behaviour (digest of the wrong length, key too
// small for the encoding, invalid salt length) must agree too.

type SignCase struct {
	Key    KeySpec `json:"key"`
	PSS    bool    `json:"pss"`
	Hash   int     `json:"hash"`
	Digest []byte  `json:"digest"`
	// PSS: 0 auto, -1 equals hash, >0 explicit, < -1 invalid; 9000+x: explicit, maximal length + x - 1
	Salt int `json:"salt"`
	// v1.5 with hash 0: 1..3 => the raw message has k-11 + (RawRel-2) bytes (boundary of the encodable range)
	RawRel int `json:"raw_rel,omitempty"`
	// PSS: hash passed through opts.Hash, with a different hash as the function argument
	OptHash bool   `json:"opt_hash"`
	Via     int    `json:"via"` // 0 package function, 1 priv.Sign (crypto.Signer)
	Seed    []byte `json:"seed"`
}

func genDigest(t *rapid.T, h crypto.Hash) []byte {
	n := 0
	if h == 0 {
		n = rapid.IntRange(0, 70).Draw(t, "rawlen")
	} else {
		n = h.Size()
		switch rapid.IntRange(0, 19).Draw(t, "dlen") {
		case 0:
			n--
		case 1:
			n++
		}
	}
	return rapid.SliceOfN(rapid.Byte(), n, n).Draw(t, "digest")
}

func genSign(t *rapid.T) SignCase {
	c := SignCase{Key: genKeySpec(t, true), PSS: rapid.Bool().Draw(t, "pss")}
	if c.PSS {
		c.Hash = rapid.IntRange(0, len(pssHashes)-1).Draw(t, "hash")
		c.Digest = genDigest(t, pssHashes[c.Hash])
		c.Salt = rapid.SampledFrom([]int{0, 0, -1, -1, 1, 8, 20, 32, 33, 64, 200, -2, 9000, 9001, 9002}).Draw(t, "salt")
		if c.Salt > 0 && rapid.Bool().Draw(t, "saltrnd") {
			c.Salt = rapid.IntRange(1, 130).Draw(t, "saltn")
		}
		c.OptHash = rapid.Bool().Draw(t, "opthash")
	} else {
		c.Hash = rapid.IntRange(0, len(v15Hashes)-1).Draw(t, "hash")
		c.Digest = genDigest(t, v15Hashes[c.Hash])
		if v15Hashes[c.Hash] == 0 && rapid.Bool().Draw(t, "rawboundary") {
			c.RawRel = rapid.IntRange(1, 3).Draw(t, "rawrel")
		}
	}
	c.Via = rapid.IntRange(0, 1).Draw(t, "via")
	c.Seed = rapid.SliceOfN(rapid.Byte(), 4, 4).Draw(t, "seed")
	return c
}

func stdOpts(h crypto.Hash, salt int) *stdrsa.PSSOptions {
	return &stdrsa.PSSOptions{SaltLength: salt, Hash: h}
}

func checkSign(c SignCase, r *kit.R) {
	k, why := resolve(c.Key)
	if k == nil {
		r.Class("invalid-key:" + why)
		return
	}
	k.classes(r)
	if c.PSS {
		checkSignPSS(c, k, r)
	} else {
		checkSignV15(c, k, r)
	}
	if k.nonTrivial() {
		r.NonTrivial()
	}
}

func checkSignV15(c SignCase, k *rkey, r *kit.R) {
	h := v15Hashes[c.Hash%len(v15Hashes)]
	r.Class("v15/" + hashName(h))
	if h == 0 && c.RawRel >= 1 && c.RawRel <= 3 {
		n := k.K - 11 + c.RawRel - 2
		if n < 0 {
			n = 0
		}
		c.Digest = detBytes(append([]byte("raw"), c.Seed...), n)
		r.Class("v15/raw-boundary")
	}
	var zsig []byte
	var zerr error
	if c.Via == 1 {
		zsig, zerr = k.Z.Sign(nil, c.Digest, h)
	} else {
		zsig, zerr = zrsa.SignPKCS1v15(nil, k.Z, h, c.Digest)
	}
	em, ok := emsaPKCS1v15(h, c.Digest, k.K)
	if k.Std != nil {
		ssig, serr := stdrsa.SignPKCS1v15(nil, k.Std, h, c.Digest)
		if (serr == nil) != ok {
			r.Failf("harness:oracle-disagree", "crypto/rsa SignPKCS1v15 err=%v, reference encodable=%v", serr, ok)
		}
		if ok {
			m, _ := rsadp(k.N, k.D, em)
			if !bytes.Equal(ssig, i2osp(m, k.K)) {
				r.Failf("harness:oracle-disagree", "crypto/rsa and the reference produce different PKCS#1 v1.5 signatures")
			}
		}
	}
	if !ok {
		r.Class("v15/expect-error")
		if zerr == nil {
			r.Failf("C23:sign-v15-no-error", "SignPKCS1v15(%s, %d-byte digest, k=%d) succeeded where the encoding is impossible", hashName(h), len(c.Digest), k.K)
		}
		// the verifier must reject as well, whatever the signature
		if err := zrsa.VerifyPKCS1v15(&k.Z.PublicKey, h, c.Digest, make([]byte, k.K)); err == nil {
			r.Failf("C23:verify-v15-accepts-forgery", "VerifyPKCS1v15 accepted an all-zero signature for an unencodable digest")
		}
		return
	}
	if zerr != nil {
		r.Failf("C23:sign-v15-error", "SignPKCS1v15(%s, k=%d, primes=%d, pre=%v) failed: %v (crypto/rsa and the reference sign this)", hashName(h), k.K, k.NPrimes, k.Pre, zerr)
	}
	m, _ := rsadp(k.N, k.D, em)
	want := i2osp(m, k.K)
	if !bytes.Equal(zsig, want) {
		r.Failf("C23:sign-v15-value", "SignPKCS1v15 produced %x, expected EM^d mod n = %x", zsig, want)
	}
	if !refVerifyPKCS1v15(k.N, k.E, h, c.Digest, zsig) {
		r.Failf("C23:sign-v15-value", "reference verifier rejects zcrypto's signature")
	}
	if k.Std != nil {
		if err := stdrsa.VerifyPKCS1v15(&k.Std.PublicKey, h, c.Digest, zsig); err != nil {
			r.Failf("C23:sign-v15-value", "crypto/rsa rejects zcrypto's signature: %v", err)
		}
	}
	// reference-made signature must verify
	if err := zrsa.VerifyPKCS1v15(&k.Z.PublicKey, h, c.Digest, want); err != nil {
		r.Failf("C23:verify-v15-rejects-genuine", "VerifyPKCS1v15 rejected a genuine signature (%s, k=%d, e=%s): %v", hashName(h), k.K, k.E.Text(16), err)
	}
}

// expected salt length of a signing request; ok=false => signing must fail
func pssSignSalt(hLen, emLen, mode int) (int, bool) {
	var sl int
	switch {
	case mode == saltAuto:
		sl = emLen - 2 - hLen
		if sl < 0 {
			return 0, false
		}
	case mode == saltEqHash:
		sl = hLen
	case mode > 0:
		sl = mode
	default:
		return 0, false
	}
	if emLen < hLen+sl+2 {
		return 0, false
	}
	return sl, true
}

func checkSignPSS(c SignCase, k *rkey, r *kit.R) {
	h := pssHashes[c.Hash%len(pssHashes)]
	r.Class("pss/" + hashName(h))
	switch {
	case c.Salt == 0:
		r.Class("pss/salt=auto")
	case c.Salt == -1:
		r.Class("pss/salt=hash")
	case c.Salt > 0:
		r.Class("pss/salt=explicit")
	default:
		r.Class("pss/salt=invalid")
	}
	emBits := k.Bits - 1
	emLen := (emBits + 7) / 8
	if c.Salt >= 9000 {
		c.Salt = emLen - 2 - h.Size() + c.Salt - 9001
		if c.Salt <= 0 {
			c.Salt = 1
		}
		r.Class("pss/salt=boundary")
	}
	sl, ok := pssSignSalt(h.Size(), emLen, c.Salt)
	if len(c.Digest) != h.Size() {
		ok = false
	}
	argHash := h
	zopts := &zrsa.PSSOptions{SaltLength: c.Salt}
	if c.OptHash || c.Via == 1 {
		zopts.Hash = h
		argHash = crypto.SHA1
		if h == crypto.SHA1 {
			argHash = crypto.SHA256
		}
	}
	var zsig []byte
	var zerr error
	if c.Via == 1 {
		zsig, zerr = k.Z.Sign(newDetRand(c.Seed), c.Digest, zopts)
	} else {
		zsig, zerr = zrsa.SignPSS(newDetRand(c.Seed), k.Z, argHash, c.Digest, zopts)
	}
	var ssig []byte
	if k.Std != nil {
		var serr error
		ssig, serr = stdrsa.SignPSS(newDetRand(append([]byte("std"), c.Seed...)), k.Std, h, c.Digest, stdOpts(h, c.Salt))
		if (serr == nil) != ok {
			r.Failf("harness:oracle-disagree", "crypto/rsa SignPSS err=%v, reference expects success=%v (hLen=%d emLen=%d salt=%d)", serr, ok, h.Size(), emLen, c.Salt)
		}
	}
	if !ok {
		r.Class("pss/expect-error")
		if zerr == nil {
			r.Failf("C23:sign-pss-no-error", "SignPSS(%s, digest %d bytes, emLen=%d, salt=%d) succeeded where RFC 8017 / crypto/rsa fail", hashName(h), len(c.Digest), emLen, c.Salt)
		}
		return
	}
	if zerr != nil {
		r.Failf("C23:sign-pss-error", "SignPSS(%s, emLen=%d, salt=%d, primes=%d, pre=%v) failed: %v", hashName(h), emLen, c.Salt, k.NPrimes, k.Pre, zerr)
	}
	if len(zsig) != k.K {
		r.Failf("C23:sign-pss-value", "signature has %d bytes, modulus %d", len(zsig), k.K)
	}
	salt, vok := refVerifyPSS(k.N, k.E, h, c.Digest, zsig, saltAuto)
	if !vok {
		r.Failf("C23:sign-pss-value", "reference PSS verifier rejects zcrypto's signature (%s, emBits=%d, salt mode %d)", hashName(h), emBits, c.Salt)
	}
	if len(salt) != sl {
		r.Failf("C23:sign-pss-salt-length", "requested salt mode %d (=> %d bytes) but the signature carries a %d-byte salt", c.Salt, sl, len(salt))
	}
	if k.Std != nil {
		if err := stdrsa.VerifyPSS(&k.Std.PublicKey, h, c.Digest, zsig, stdOpts(h, saltAuto)); err != nil {
			r.Failf("C23:sign-pss-value", "crypto/rsa VerifyPSS(auto) rejects zcrypto's signature: %v", err)
		}
		if sl > 0 {
			if err := stdrsa.VerifyPSS(&k.Std.PublicKey, h, c.Digest, zsig, stdOpts(h, sl)); err != nil {
				r.Failf("C23:sign-pss-salt-length", "crypto/rsa VerifyPSS(salt=%d) rejects zcrypto's signature: %v", sl, err)
			}
		}
	}
	// genuine signatures made elsewhere must verify, under every matching option
	refSalt := detBytes(append([]byte("salt"), c.Seed...), sl)
	em, eok := emsaPSSEncode(h, c.Digest, emBits, refSalt, nil)
	if !eok {
		r.Failf("harness:oracle-disagree", "reference cannot encode what it said is encodable")
	}
	m, _ := rsadp(k.N, k.D, em)
	sigs := [][]byte{i2osp(m, k.K)}
	if ssig != nil {
		sigs = append(sigs, ssig)
	}
	for i, sig := range sigs {
		modes := []int{saltAuto}
		if sl > 0 {
			modes = append(modes, sl)
		}
		if sl == h.Size() {
			modes = append(modes, saltEqHash)
		}
		for _, mode := range modes {
			if err := zrsa.VerifyPSS(&k.Z.PublicKey, h, c.Digest, sig, &zrsa.PSSOptions{SaltLength: mode}); err != nil {
				r.Failf("C23:verify-pss-rejects-genuine", "VerifyPSS(salt mode %d) rejected a genuine signature (source %d, %s, emBits=%d, salt %d bytes, e=%s): %v", mode, i, hashName(h), emBits, sl, k.E.Text(16), err)
			}
		}
		if err := zrsa.VerifyPSS(&k.Z.PublicKey, h, c.Digest, sig, nil); err != nil {
			r.Failf("C23:verify-pss-rejects-genuine", "VerifyPSS(nil opts) rejected a genuine signature: %v", err)
		}
	}
}

const signRule = "key = product of 2..5 fixed primes (moduli ~504..2056 bits, every bit-length residue mod 8) or a pool key (512..4096 bits, 2..5 primes), e in {3,5,17,257,65537, around 2^31, random 33..256-bit, 300..1030-bit}, d = e^-1 mod phi or lambda, with Precompute / without / without primes; digest of the right (rarely wrong) length for each hash; PSS salt mode auto / equals-hash / explicit / invalid. Non-trivial: multi-prime, e > 2^31-1, or not precomputed; distinct by case hash"

func TestPropSign(t *testing.T) {
	kit.Run(t, kit.Spec[SignCase]{ID: "C23", Name: "sign", Rule: signRule, Gen: genSign, Check: checkSign,
		Quick: 1000, Thorough: 12000,
		Assumptions: []string{
			"keys are valid RSA keys: distinct odd primes, odd e >= 3 invertible modulo every p-1, d = e^-1 mod phi(n) or lambda(n)",
			"crypto/rsa (Go 1.25, GODEBUG rsa1024min=0) is the oracle whenever e <= 2^31-1 and its own key-hygiene checks pass; otherwise a math/big transcription of RFC 8017 is",
			"the salt bytes zcrypto draws from the random source are not asserted, only the salt length",
		}})
}
