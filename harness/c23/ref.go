package c23

// Reference implementation of the RFC 8017 primitives and encodings, written
// from the RFC text (sections 5.1, 7.1, 7.2, 8.1, 8.2, 9.1, 9.2, B.2.1) with
// math/big only.  It is the oracle where Go's crypto/rsa cannot be used (public
// exponents above 2^31-1) and a second opinion everywhere else; every verdict
// is additionally compared with crypto/rsa when the exponent fits.

import (
	"bytes"
	"crypto"
	"crypto/sha256"
	"encoding/binary"
	"hash"
	"math/big"
)

// i2osp: big-endian, exactly n bytes (nil when it does not fit).
func i2osp(x *big.Int, n int) []byte {
	b := x.Bytes()
	if len(b) > n {
		return nil
	}
	out := make([]byte, n)
	copy(out[n-len(b):], b)
	return out
}

// rsaep / rsavp1: m^e mod n; ok=false when the representative is out of range.
func rsaep(n, e *big.Int, m []byte) (*big.Int, bool) {
	x := new(big.Int).SetBytes(m)
	if x.Cmp(n) >= 0 {
		return nil, false
	}
	return new(big.Int).Exp(x, e, n), true
}

// rsadp / rsasp1 without CRT: c^d mod n.
func rsadp(n, d *big.Int, c []byte) (*big.Int, bool) {
	x := new(big.Int).SetBytes(c)
	if x.Cmp(n) >= 0 {
		return nil, false
	}
	return new(big.Int).Exp(x, d, n), true
}

func mgf1(h hash.Hash, seed []byte, n int) []byte {
	var out []byte
	for ctr := uint32(0); len(out) < n; ctr++ {
		var c [4]byte
		binary.BigEndian.PutUint32(c[:], ctr)
		h.Reset()
		h.Write(seed)
		h.Write(c[:])
		out = h.Sum(out)
	}
	h.Reset()
	return out[:n]
}

func xorInto(dst, mask []byte) {
	for i := range dst {
		dst[i] ^= mask[i]
	}
}

// DigestInfo prefixes, RFC 8017 section 9.2 note 1 (+ RIPEMD-160 from
// ISO/IEC 10118 / TeleTrusT as registered, and the TLS MD5+SHA1 special case).
var digestInfoPrefix = map[crypto.Hash][]byte{
	crypto.MD5:       {0x30, 0x20, 0x30, 0x0c, 0x06, 0x08, 0x2a, 0x86, 0x48, 0x86, 0xf7, 0x0d, 0x02, 0x05, 0x05, 0x00, 0x04, 0x10},
	crypto.SHA1:      {0x30, 0x21, 0x30, 0x09, 0x06, 0x05, 0x2b, 0x0e, 0x03, 0x02, 0x1a, 0x05, 0x00, 0x04, 0x14},
	crypto.SHA224:    {0x30, 0x2d, 0x30, 0x0d, 0x06, 0x09, 0x60, 0x86, 0x48, 0x01, 0x65, 0x03, 0x04, 0x02, 0x04, 0x05, 0x00, 0x04, 0x1c},
	crypto.SHA256:    {0x30, 0x31, 0x30, 0x0d, 0x06, 0x09, 0x60, 0x86, 0x48, 0x01, 0x65, 0x03, 0x04, 0x02, 0x01, 0x05, 0x00, 0x04, 0x20},
	crypto.SHA384:    {0x30, 0x41, 0x30, 0x0d, 0x06, 0x09, 0x60, 0x86, 0x48, 0x01, 0x65, 0x03, 0x04, 0x02, 0x02, 0x05, 0x00, 0x04, 0x30},
	crypto.SHA512:    {0x30, 0x51, 0x30, 0x0d, 0x06, 0x09, 0x60, 0x86, 0x48, 0x01, 0x65, 0x03, 0x04, 0x02, 0x03, 0x05, 0x00, 0x04, 0x40},
	crypto.MD5SHA1:   {},
	crypto.RIPEMD160: {0x30, 0x20, 0x30, 0x08, 0x06, 0x06, 0x28, 0xcf, 0x06, 0x03, 0x00, 0x31, 0x04, 0x14},
}

// emsaPKCS1v15 (RFC 8017 9.2): EM = 00 01 FF..FF 00 T, at least 8 FF bytes.
// h == 0 means "hashed is signed directly" (Go's documented extension).
func emsaPKCS1v15(h crypto.Hash, hashed []byte, k int) ([]byte, bool) {
	var prefix []byte
	if h != 0 {
		p, ok := digestInfoPrefix[h]
		if !ok || len(hashed) != h.Size() {
			return nil, false
		}
		prefix = p
	}
	tLen := len(prefix) + len(hashed)
	if k < tLen+11 {
		return nil, false
	}
	em := make([]byte, 0, k)
	em = append(em, 0, 1)
	em = append(em, bytes.Repeat([]byte{0xff}, k-tLen-3)...)
	em = append(em, 0)
	em = append(em, prefix...)
	em = append(em, hashed...)
	return em, true
}

// refVerifyPKCS1v15 (RFC 8017 8.2.2): length k, s < n, EM' == EM.
func refVerifyPKCS1v15(n, e *big.Int, h crypto.Hash, hashed, sig []byte) bool {
	k := (n.BitLen() + 7) / 8
	if len(sig) != k {
		return false
	}
	m, ok := rsaep(n, e, sig)
	if !ok {
		return false
	}
	em, ok := emsaPKCS1v15(h, hashed, k)
	if !ok {
		return false
	}
	return bytes.Equal(i2osp(m, k), em)
}

// pssKnobs deviate the EMSA-PSS encoding on purpose (forgery shapes).
type pssKnobs struct {
	Trailer   byte // 0 => 0xbc
	Delim     byte // 0 => 0x01
	PSByte    int  // >=0: make PS[PSByte % psLen] non-zero (when psLen > 0)
	BadH      bool // flip a bit of H after masking
	KeepTop   bool // do not clear the leftmost 8emLen-emBits bits (set them instead)
	SaltInH   []byte
	UseSaltIn bool // hash SaltInH instead of the embedded salt
}

// emsaPSSEncode (RFC 8017 9.1.1) with explicit salt.
func emsaPSSEncode(hf crypto.Hash, mHash []byte, emBits int, salt []byte, kn *pssKnobs) ([]byte, bool) {
	hLen := hf.Size()
	emLen := (emBits + 7) / 8
	if len(mHash) != hLen || emLen < hLen+len(salt)+2 {
		return nil, false
	}
	h := hf.New()
	hs := salt
	if kn != nil && kn.UseSaltIn {
		hs = kn.SaltInH
	}
	h.Write(make([]byte, 8))
	h.Write(mHash)
	h.Write(hs)
	H := h.Sum(nil)
	psLen := emLen - len(salt) - hLen - 2
	db := make([]byte, 0, emLen-hLen-1)
	db = append(db, make([]byte, psLen)...)
	delim := byte(1)
	if kn != nil && kn.Delim != 0 {
		delim = kn.Delim
	}
	db = append(db, delim)
	db = append(db, salt...)
	if kn != nil && kn.PSByte >= 0 && psLen > 0 {
		// a non-zero octet inside PS (bit 0 in octet 0 so that it survives the
		// clearing of the leftmost bits)
		if i := kn.PSByte % psLen; i == 0 {
			db[0] = 0x01
		} else {
			db[i] = 0x80
		}
	}
	xorInto(db, mgf1(hf.New(), H, len(db)))
	top := byte(0xff) >> (8*emLen - emBits)
	if kn != nil && kn.KeepTop {
		if top == 0xff {
			return nil, false // nothing to violate
		}
		db[0] |= ^top
	} else {
		db[0] &= top
	}
	if kn != nil && kn.BadH {
		H[len(H)-1] ^= 0x10
	}
	em := append(db, H...)
	tr := byte(0xbc)
	if kn != nil && kn.Trailer != 0 {
		tr = kn.Trailer
	}
	em = append(em, tr)
	return em, true
}

const (
	saltAuto   = 0  // crypto/rsa PSSSaltLengthAuto: detect when verifying
	saltEqHash = -1 // crypto/rsa PSSSaltLengthEqualsHash
)

// emsaPSSVerify (RFC 8017 9.1.2).  sLen: saltAuto (Go's documented extension:
// DB = 0..0 01 salt with the first 01 taken as the delimiter), saltEqHash, or > 0.
// Returns the recovered salt.
func emsaPSSVerify(hf crypto.Hash, mHash, em []byte, emBits, sLen int) ([]byte, bool) {
	hLen := hf.Size()
	emLen := (emBits + 7) / 8
	if len(em) != emLen || len(mHash) != hLen {
		return nil, false
	}
	if sLen == saltEqHash {
		sLen = hLen
	}
	if sLen < 0 {
		return nil, false
	}
	if emLen < hLen+sLen+2 || em[emLen-1] != 0xbc {
		return nil, false
	}
	maskedDB := append([]byte{}, em[:emLen-hLen-1]...)
	H := em[emLen-hLen-1 : emLen-1]
	top := byte(0xff) >> (8*emLen - emBits)
	if maskedDB[0]&^top != 0 {
		return nil, false
	}
	db := maskedDB
	xorInto(db, mgf1(hf.New(), H, len(db)))
	db[0] &= top
	if sLen == saltAuto {
		i := bytes.IndexByte(db, 0x01)
		if i < 0 {
			return nil, false
		}
		sLen = len(db) - i - 1
	}
	psLen := emLen - hLen - sLen - 2
	for _, b := range db[:psLen] {
		if b != 0 {
			return nil, false
		}
	}
	if db[psLen] != 0x01 {
		return nil, false
	}
	salt := db[len(db)-sLen:]
	h := hf.New()
	h.Write(make([]byte, 8))
	h.Write(mHash)
	h.Write(salt)
	if !bytes.Equal(h.Sum(nil), H) {
		return nil, false
	}
	return salt, true
}

// refVerifyPSS (RFC 8017 8.1.2).
func refVerifyPSS(n, e *big.Int, hf crypto.Hash, mHash, sig []byte, sLen int) ([]byte, bool) {
	k := (n.BitLen() + 7) / 8
	if len(sig) != k {
		return nil, false
	}
	m, ok := rsaep(n, e, sig)
	if !ok {
		return nil, false
	}
	emBits := n.BitLen() - 1
	emLen := (emBits + 7) / 8
	em := i2osp(m, emLen)
	if em == nil {
		return nil, false
	}
	return emsaPSSVerify(hf, mHash, em, emBits, sLen)
}

// ---- encryption encodings ---------------------------------------------------

// eme1 builds EM = 00 02 PS 00 M with the given PS (no checks: forgery shapes).
func eme1(ps, msg []byte) []byte {
	em := []byte{0, 2}
	em = append(em, ps...)
	em = append(em, 0)
	return append(em, msg...)
}

// eme1Decode (RFC 8017 7.2.2 step 3): 00 02 PS 00 M, PS non-zero, len(PS) >= 8.
func eme1Decode(em []byte) ([]byte, bool) {
	if len(em) < 11 || em[0] != 0 || em[1] != 2 {
		return nil, false
	}
	i := bytes.IndexByte(em[2:], 0)
	if i < 8 {
		return nil, false
	}
	return em[2+i+1:], true
}

// oaepEncode (RFC 8017 7.1.1) with separate label hash and MGF hash.
func oaepEncode(hf, mgf crypto.Hash, label, msg, seed []byte, k int) ([]byte, bool) {
	hLen := hf.Size()
	if len(msg) > k-2*hLen-2 || len(seed) != hLen {
		return nil, false
	}
	h := hf.New()
	h.Write(label)
	lHash := h.Sum(nil)
	db := append([]byte{}, lHash...)
	db = append(db, make([]byte, k-len(msg)-2*hLen-2)...)
	db = append(db, 1)
	db = append(db, msg...)
	return oaepMask(mgf, seed, db), true
}

func oaepMask(mgf crypto.Hash, seed, db []byte) []byte {
	db = append([]byte{}, db...)
	seed = append([]byte{}, seed...)
	xorInto(db, mgf1(mgf.New(), seed, len(db)))
	xorInto(seed, mgf1(mgf.New(), db, len(seed)))
	em := []byte{0}
	em = append(em, seed...)
	return append(em, db...)
}

// oaepDecode (RFC 8017 7.1.2 step 3).
func oaepDecode(hf, mgf crypto.Hash, label, em []byte) ([]byte, bool) {
	hLen := hf.Size()
	k := len(em)
	if k < 2*hLen+2 {
		return nil, false
	}
	h := hf.New()
	h.Write(label)
	lHash := h.Sum(nil)
	y := em[0]
	seed := append([]byte{}, em[1:1+hLen]...)
	db := append([]byte{}, em[1+hLen:]...)
	xorInto(seed, mgf1(mgf.New(), db, hLen))
	xorInto(db, mgf1(mgf.New(), seed, len(db)))
	if y != 0 || !bytes.Equal(db[:hLen], lHash) {
		return nil, false
	}
	rest := db[hLen:]
	i := 0
	for i < len(rest) && rest[i] == 0 {
		i++
	}
	if i == len(rest) || rest[i] != 1 {
		return nil, false
	}
	return rest[i+1:], true
}

// ---- deterministic byte stream ---------------------------------------------

// detRand is an io.Reader producing SHA-256(seed || counter) blocks.
type detRand struct {
	seed []byte
	ctr  uint32
	buf  []byte
}

func newDetRand(seed []byte) *detRand { return &detRand{seed: append([]byte("c23/"), seed...)} }

func (d *detRand) Read(p []byte) (int, error) {
	for i := range p {
		if len(d.buf) == 0 {
			var c [4]byte
			binary.BigEndian.PutUint32(c[:], d.ctr)
			d.ctr++
			s := sha256.Sum256(append(append([]byte{}, d.seed...), c[:]...))
			d.buf = s[:]
		}
		p[i] = d.buf[0]
		d.buf = d.buf[1:]
	}
	return len(p), nil
}

func detBytes(seed []byte, n int) []byte {
	b := make([]byte, n)
	newDetRand(seed).Read(b)
	return b
}
