package c23

import (
	"crypto"
	_ "crypto/md5"
	stdrsa "crypto/rsa"
	_ "crypto/sha1"
	_ "crypto/sha256"
	_ "crypto/sha512"
	"fmt"
	"math/big"
	"sync"

	zrsa "github.com/zmap/zcrypto/rsa"
	"pgregory.net/rapid"
	"verifharness/keys"
)

// KeySpec names an RSA key: either pool key Pool (>= 0) or the product of the
// fixed primes Primes (indices into primeHex, pairwise distinct).  E (hex)
// replaces the public exponent ("" = 65537 / the pool key's own); D is then
// E^-1 mod phi(N) or, with Lambda, mod lcm(p_i - 1).  Pre: call Precompute
// (CRT path for two primes); otherwise Precomputed stays empty (plain c^D).
type KeySpec struct {
	Pool   int    `json:"pool"`
	Primes []int  `json:"primes,omitempty"`
	E      string `json:"e,omitempty"`
	Lambda bool   `json:"lambda,omitempty"`
	Pre    bool   `json:"pre"`
	// NoPrimes: the zcrypto key carries only N, E, D (Primes nil, nothing precomputed).
	NoPrimes bool `json:"no_primes,omitempty"`
}

var (
	primesOnce sync.Once
	primePool  []*big.Int
)

func primes() []*big.Int {
	primesOnce.Do(func() {
		for _, h := range primeHex {
			p, ok := new(big.Int).SetString(h, 16)
			if !ok {
				panic("c23: bad prime")
			}
			primePool = append(primePool, p)
		}
	})
	return primePool
}

func rsaPool() []*keys.Key { return keys.Of("rsa") }

// resolved key material; every consumer gets its own copies of the integers.
type rkey struct {
	N, E, D     *big.Int
	Primes      []*big.Int
	Z           *zrsa.PrivateKey
	Std         *stdrsa.PrivateKey // nil when E does not fit crypto/rsa's limit (2^31-1)
	K           int                // modulus size in bytes
	Bits        int
	NPrimes     int
	LargeE      bool
	Pre         bool
	NoPrimes    bool
	StdRejected string
}

var big1 = big.NewInt(1)

func cp(x *big.Int) *big.Int { return new(big.Int).Set(x) }

// resolve builds the key; ok=false (with reason) when the spec does not denote a
// valid RSA key (duplicate primes, exponent not invertible).
func resolve(ks KeySpec) (*rkey, string) {
	var ps []*big.Int
	e := big.NewInt(65537)
	if ks.Pool >= 0 {
		pool := rsaPool()
		k := pool[ks.Pool%len(pool)].ZPriv.(*zrsa.PrivateKey)
		for _, p := range k.Primes {
			ps = append(ps, cp(p))
		}
		e = cp(k.E)
	} else {
		pp := primes()
		seen := map[int]bool{}
		for _, i := range ks.Primes {
			i = ((i % len(pp)) + len(pp)) % len(pp)
			if seen[i] {
				return nil, "duplicate prime"
			}
			seen[i] = true
			ps = append(ps, cp(pp[i]))
		}
		if len(ps) < 2 {
			return nil, "fewer than two primes"
		}
	}
	if ks.E != "" {
		v, ok := new(big.Int).SetString(ks.E, 16)
		if !ok || v.Cmp(big.NewInt(3)) < 0 || v.Bit(0) == 0 {
			return nil, "bad exponent"
		}
		e = v
	}
	n := big.NewInt(1)
	phi := big.NewInt(1)
	lam := big.NewInt(1)
	for _, p := range ps {
		n.Mul(n, p)
		pm := new(big.Int).Sub(p, big1)
		phi.Mul(phi, pm)
		g := new(big.Int).GCD(nil, nil, lam, pm)
		lam.Mul(lam, new(big.Int).Div(pm, g))
	}
	mod := phi
	if ks.Lambda {
		mod = lam
	}
	d := new(big.Int).ModInverse(e, mod)
	if d == nil {
		return nil, "exponent not invertible"
	}
	k := &rkey{N: n, E: e, D: d, Primes: ps, K: (n.BitLen() + 7) / 8, Bits: n.BitLen(), NPrimes: len(ps), Pre: ks.Pre}
	k.Z = &zrsa.PrivateKey{PublicKey: zrsa.PublicKey{N: cp(n), E: cp(e)}, D: cp(d)}
	if ks.NoPrimes {
		k.Pre = false
	} else {
		for _, p := range ps {
			k.Z.Primes = append(k.Z.Primes, cp(p))
		}
		if ks.Pre {
			k.Z.Precompute()
		}
	}
	k.NoPrimes = ks.NoPrimes
	if e.IsInt64() && e.Int64() <= 1<<31-1 {
		k.Std = &stdrsa.PrivateKey{PublicKey: stdrsa.PublicKey{N: cp(n), E: int(e.Int64())}, D: cp(d)}
		for _, p := range ps {
			k.Std.Primes = append(k.Std.Primes, cp(p))
		}
		k.Std.Precompute()
		if err := k.Std.Validate(); err != nil {
			// crypto/rsa has key-hygiene rules of its own (|p-q|, size of d, ...): such a key is
			// still an RSA key; fall back to the RFC reference alone
			k.Std = nil
			k.StdRejected = err.Error()
		}
	} else {
		k.LargeE = true
	}
	return k, ""
}

func (k *rkey) classes(r interface{ Class(string) }) {
	r.Class(fmt.Sprintf("primes=%d", k.NPrimes))
	r.Class(fmt.Sprintf("bits~%d", (k.Bits+255)/512*512))
	r.Class(fmt.Sprintf("modbits%%8=%d", k.Bits%8))
	switch {
	case k.LargeE:
		r.Class("e>2^31")
	case k.E.BitLen() <= 5:
		r.Class("e-tiny")
	default:
		r.Class("e-std-range")
	}
	if k.Pre {
		if k.NPrimes == 2 {
			r.Class("path=crt")
		} else {
			r.Class("path=plain-multiprime-precomputed")
		}
	} else if k.NoPrimes {
		r.Class("path=plain-no-primes")
	} else {
		r.Class("path=plain-no-precompute")
	}
	if k.StdRejected != "" {
		r.Class("std-rejects-key")
	}
}

// nonTrivialKey: the design's rule (multi-prime, large e, or not precomputed).
func (k *rkey) nonTrivial() bool { return k.NPrimes > 2 || k.LargeE || !k.Pre }

// ---- generator ---------------------------------------------------------------

// prime index groups by size class (see gen_primes.go)
var primeGroups = [][2]int{{0, 11}, {11, 27}, {27, 39}, {39, 44}}

func genKeySpec(t *rapid.T, allowBig bool) KeySpec {
	ks := KeySpec{Pool: -1, Pre: rapid.Bool().Draw(t, "pre")}
	kind := rapid.IntRange(0, 9).Draw(t, "keykind")
	np := len(primeHex)
	switch {
	case kind <= 3: // two primes of one size class (mostly the small ones)
		g := primeGroups[rapid.SampledFrom([]int{0, 0, 0, 2, 2, 3}).Draw(t, "grp")]
		if !allowBig && g[0] >= 39 {
			g = primeGroups[0]
		}
		ks.Primes = rapid.SliceOfNDistinct(rapid.IntRange(g[0], g[1]-1), 2, 2, rapid.ID[int]).Draw(t, "primes")
	case kind <= 5: // 3..5 primes of the multi-prime class
		n := rapid.IntRange(3, 5).Draw(t, "nprimes")
		g := primeGroups[rapid.SampledFrom([]int{0, 1, 1}).Draw(t, "grp")]
		ks.Primes = rapid.SliceOfNDistinct(rapid.IntRange(g[0], g[1]-1), n, n, rapid.ID[int]).Draw(t, "primes")
	case kind == 6: // any 2..3 primes, unbalanced sizes
		n := rapid.IntRange(2, 3).Draw(t, "nprimes")
		hi := np - 1
		if !allowBig {
			hi = 38
		}
		ks.Primes = rapid.SliceOfNDistinct(rapid.IntRange(0, hi), n, n, rapid.ID[int]).Draw(t, "primes")
	default: // pool key (512..4096 bits, 2..5 primes)
		pool := rsaPool()
		var idx []int
		big := allowBig && rapid.IntRange(0, 2).Draw(t, "bigok") == 0
		for i, k := range pool {
			if big || k.Bits <= 2048 {
				idx = append(idx, i)
			}
		}
		ks.Pool = rapid.SampledFrom(idx).Draw(t, "pool")
	}
	ks.Lambda = rapid.Bool().Draw(t, "lambda")
	if !ks.Pre && rapid.IntRange(0, 3).Draw(t, "noprimes") == 0 {
		ks.NoPrimes = true
	}
	// exponent
	var e *big.Int
	switch rapid.IntRange(0, 9).Draw(t, "ekind") {
	case 0:
		e = big.NewInt(3)
	case 1:
		e = big.NewInt(int64(rapid.SampledFrom([]int{5, 17, 257}).Draw(t, "esmall")))
	case 2, 3:
		if ks.Pool >= 0 {
			return ks // keep the pool key's own exponent and D
		}
		e = big.NewInt(65537)
	case 4: // around crypto/rsa's limit
		e = big.NewInt(int64(1<<31 - 1 - 2*rapid.IntRange(0, 3).Draw(t, "below")))
	case 5:
		e = new(big.Int).Add(big.NewInt(1<<31+1), big.NewInt(int64(2*rapid.IntRange(0, 3).Draw(t, "above"))))
	case 6, 7: // random 33..256-bit odd exponent
		bits := rapid.IntRange(33, 256).Draw(t, "ebits")
		b := rapid.SliceOfN(rapid.Byte(), (bits+7)/8, (bits+7)/8).Draw(t, "ebytes")
		e = new(big.Int).SetBytes(b)
		for i := e.BitLen(); i >= bits; i-- {
			e.SetBit(e, i, 0)
		}
		e.SetBit(e, bits-1, 1)
		e.SetBit(e, 0, 1)
	case 8: // exponent about as long as the modulus half / longer than a prime
		bits := rapid.SampledFrom([]int{300, 520, 1030}).Draw(t, "ehuge")
		b := rapid.SliceOfN(rapid.Byte(), (bits+7)/8, (bits+7)/8).Draw(t, "ebytes")
		e = new(big.Int).SetBytes(b)
		e.SetBit(e, bits-1, 1)
		e.SetBit(e, 0, 1)
	default:
		e = big.NewInt(int64(2*rapid.IntRange(1, 1<<20).Draw(t, "eodd") + 1))
	}
	// move to the next odd exponent that is invertible for this key
	probe := ks
	for i := 0; i < 2000; i++ {
		probe.E = e.Text(16)
		if k, _ := resolveLight(probe); k {
			break
		}
		e.Add(e, big.NewInt(2))
	}
	ks.E = e.Text(16)
	return ks
}

// resolveLight reports whether the exponent of ks is invertible (cheap: no key objects).
func resolveLight(ks KeySpec) (bool, string) {
	var ps []*big.Int
	if ks.Pool >= 0 {
		pool := rsaPool()
		ps = pool[ks.Pool%len(pool)].ZPriv.(*zrsa.PrivateKey).Primes
	} else {
		pp := primes()
		for _, i := range ks.Primes {
			ps = append(ps, pp[i%len(pp)])
		}
	}
	e, _ := new(big.Int).SetString(ks.E, 16)
	for _, p := range ps {
		pm := new(big.Int).Sub(p, big1)
		if new(big.Int).GCD(nil, nil, e, pm).Cmp(big1) != 0 {
			return false, "not coprime"
		}
	}
	return true, ""
}

// hashes usable with both libraries
var v15Hashes = []crypto.Hash{crypto.SHA256, crypto.SHA1, crypto.MD5, crypto.SHA224, crypto.SHA384, crypto.SHA512, crypto.MD5SHA1, crypto.RIPEMD160, 0}
var pssHashes = []crypto.Hash{crypto.SHA256, crypto.SHA1, crypto.MD5, crypto.SHA224, crypto.SHA384, crypto.SHA512, crypto.SHA512_256}

func hashName(h crypto.Hash) string {
	if h == 0 {
		return "none"
	}
	return h.String()
}
