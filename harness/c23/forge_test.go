package c23

import (
	"crypto"
	stdrsa "crypto/rsa"
	"fmt"
	"math/big"
	"testing"

	zrsa "github.com/zmap/zcrypto/rsa"
	"pgregory.net/rapid"
	"verifharness/kit"
)

// ---------------------------------------------------------------------------
// sub-check "forge": hand-made encoded messages EM (canonical and deviating in
// one place), turned into "signatures" s = EM^d mod n with the private
// exponent, then mutated at the integer/length level.  zcrypto's verifier must
// decide exactly like the RFC 8017 reference and like crypto/rsa (when e fits).

type ForgeCase struct {
	Key    KeySpec `json:"key"`
	PSS    bool    `json:"pss"`
	Hash   int     `json:"hash"`
	Digest []byte  `json:"digest"`
	Shape  int     `json:"shape"`
	Pos    int     `json:"pos"`
	Val    byte    `json:"val"`
	Salt   []byte  `json:"salt"`        // PSS: embedded salt
	VSalt  int     `json:"verify_salt"` // PSS verify option: 0 auto, -1 hash, >0 explicit, -2 invalid, 1000+x => len(salt)+x-1001
	SigMut int     `json:"sig_mut"`
}

const (
	nV15Shapes = 10
	nPSSShapes = 8
	nSigMuts   = 10
)

func genForge(t *rapid.T) ForgeCase {
	c := ForgeCase{Key: genKeySpec(t, false), PSS: rapid.Bool().Draw(t, "pss")}
	if c.PSS {
		c.Hash = rapid.IntRange(0, len(pssHashes)-1).Draw(t, "hash")
		h := pssHashes[c.Hash]
		c.Digest = rapid.SliceOfN(rapid.Byte(), h.Size(), h.Size()).Draw(t, "digest")
		c.Shape = rapid.SampledFrom([]int{0, 0, 1, 2, 3, 4, 5, 5, 6, 7, 7}).Draw(t, "shape")
		sl := rapid.SampledFrom([]int{0, 1, h.Size(), h.Size(), h.Size() - 1, h.Size() + 1, 5, 40, 90}).Draw(t, "sl")
		c.Salt = rapid.SliceOfN(rapid.Byte(), sl, sl).Draw(t, "salt")
		c.VSalt = rapid.SampledFrom([]int{0, 0, -1, 1001, 1001, 1000, 1002, -2, 3}).Draw(t, "vsalt")
	} else {
		c.Hash = rapid.IntRange(0, len(v15Hashes)-1).Draw(t, "hash")
		h := v15Hashes[c.Hash]
		n := 0
		if h == 0 {
			n = rapid.IntRange(0, 50).Draw(t, "rawlen")
		} else {
			n = h.Size()
		}
		c.Digest = rapid.SliceOfN(rapid.Byte(), n, n).Draw(t, "digest")
		c.Shape = rapid.IntRange(0, nV15Shapes-1).Draw(t, "shape")
	}
	c.Pos = rapid.IntRange(0, 300).Draw(t, "pos")
	c.Val = rapid.SampledFrom([]byte{0, 1, 2, 0xff, 0xfe, 0x7f, 0x80, 0xbc}).Draw(t, "val")
	c.SigMut = rapid.SampledFrom([]int{0, 0, 0, 0, 0, 0, 1, 2, 3, 4, 5, 6, 7, 8, 9}).Draw(t, "sigmut")
	return c
}

// craftV15 returns a k-byte EM for the shape (nil when the shape is not applicable).
func craftV15(h crypto.Hash, digest []byte, k int, c ForgeCase) ([]byte, string) {
	canon, ok := emsaPKCS1v15(h, digest, k)
	if !ok {
		return nil, ""
	}
	prefix := digestInfoPrefix[h]
	tLen := len(prefix) + len(digest)
	psLen := k - tLen - 3
	em := append([]byte{}, canon...)
	switch c.Shape {
	case 0:
		return em, "canonical"
	case 1: // shorter PS, trailing garbage after the digest (Bleichenbacher 2006 shape)
		g := 1 + c.Pos%3
		if psLen-g < 1 {
			return nil, ""
		}
		out := []byte{0, 1}
		for i := 0; i < psLen-g; i++ {
			out = append(out, 0xff)
		}
		out = append(out, 0)
		out = append(out, prefix...)
		out = append(out, digest...)
		for i := 0; i < g; i++ {
			out = append(out, c.Val)
		}
		return out, "short-ps-trailing-garbage"
	case 2: // one PS octet replaced
		em[2+c.Pos%psLen] = c.Val
		return em, "ps-octet"
	case 3:
		em[0] = c.Val
		return em, "first-octet"
	case 4:
		em[1] = c.Val
		return em, "block-type"
	case 5:
		em[2+psLen] = c.Val
		return em, "separator"
	case 6: // AlgorithmIdentifier without the NULL parameters
		if len(prefix) < 6 {
			return nil, ""
		}
		i := len(prefix) - 4 // 05 00 04 len
		if prefix[i] != 5 || prefix[i+1] != 0 {
			return nil, ""
		}
		p := append([]byte{}, prefix[:i]...)
		p = append(p, prefix[i+2:]...)
		p[1] -= 2
		p[3] -= 2
		out := []byte{0, 1}
		for i := 0; i < k-len(p)-len(digest)-3; i++ {
			out = append(out, 0xff)
		}
		out = append(out, 0)
		out = append(out, p...)
		out = append(out, digest...)
		return out, "digestinfo-no-null"
	case 7: // another byte of the DigestInfo prefix changed
		if len(prefix) == 0 {
			return nil, ""
		}
		em[k-tLen+c.Pos%len(prefix)] ^= 1 << (c.Val % 8)
		return em, "digestinfo-octet"
	case 8:
		if len(digest) == 0 {
			return nil, ""
		}
		em[k-len(digest)+c.Pos%len(digest)] ^= 1 << (c.Val % 8)
		return em, "digest-bit"
	case 9: // PS shifted: 00 01 00 FF.. (leading zero inside PS) with T at the end
		em[2] = 0
		return em, "ps-leading-zero"
	}
	return nil, ""
}

func craftPSS(h crypto.Hash, digest []byte, emBits, k int, c ForgeCase) ([]byte, string) {
	kn := &pssKnobs{PSByte: -1}
	name := "canonical"
	lead := byte(0)
	switch c.Shape {
	case 1:
		kn.Trailer = c.Val
		if kn.Trailer == 0 {
			kn.Trailer = 0xbd
		}
		name = "trailer"
	case 2:
		kn.Delim = c.Val
		if kn.Delim == 0 {
			kn.Delim = 2
		}
		name = "delimiter"
	case 3:
		kn.PSByte = c.Pos
		name = "ps-octet"
	case 4:
		kn.BadH = true
		name = "h-bit"
	case 5:
		kn.KeepTop = true
		name = "leftmost-bits"
	case 6:
		kn.UseSaltIn = true
		kn.SaltInH = append(append([]byte{}, c.Salt...), 0)
		name = "salt-mismatch"
	case 7:
		lead = 1
		name = "leading-octet"
	}
	em, ok := emsaPSSEncode(h, digest, emBits, c.Salt, kn)
	if !ok {
		return nil, ""
	}
	if c.Shape == 3 && (emBits+7)/8-len(c.Salt)-h.Size()-2 == 0 {
		name = "canonical" // no PS to disturb
	}
	if len(em) < k {
		em = append([]byte{lead}, em...)
	} else if lead != 0 {
		return nil, ""
	}
	return em, name
}

func mutateSig(sig []byte, n *big.Int, k int, c ForgeCase) ([]byte, string) {
	switch c.SigMut {
	case 1:
		v := new(big.Int).Add(new(big.Int).SetBytes(sig), n)
		if b := i2osp(v, k); b != nil {
			return b, "sig+n"
		}
		return i2osp(v, k+1), "sig+n-longer"
	case 2:
		return append([]byte{0}, sig...), "prepend-00"
	case 3:
		return sig[1:], "drop-first-octet"
	case 4:
		out := append([]byte{}, sig...)
		out[c.Pos%len(out)] ^= 1 << (c.Val % 8)
		return out, "bit-flip"
	case 5:
		return append(append([]byte{}, sig...), c.Val), "append-octet"
	case 6:
		return make([]byte, k), "sig=0"
	case 7:
		return i2osp(big.NewInt(1), k), "sig=1"
	case 8:
		return i2osp(new(big.Int).Sub(n, big1), k), "sig=n-1"
	case 9:
		return i2osp(n, k), "sig=n"
	}
	return sig, "sig-intact"
}

func checkForge(c ForgeCase, r *kit.R) {
	k, why := resolve(c.Key)
	if k == nil {
		r.Class("invalid-key:" + why)
		return
	}
	k.classes(r)
	var em []byte
	var shape string
	var h crypto.Hash
	emBits := k.Bits - 1
	if c.PSS {
		h = pssHashes[c.Hash%len(pssHashes)]
		em, shape = craftPSS(h, c.Digest, emBits, k.K, c)
	} else {
		h = v15Hashes[c.Hash%len(v15Hashes)]
		em, shape = craftV15(h, c.Digest, k.K, c)
	}
	if em == nil {
		r.Class("shape-not-applicable")
		return
	}
	if len(em) != k.K {
		r.Failf("harness:craft", "crafted EM has %d bytes, k=%d", len(em), k.K)
	}
	m, ok := rsadp(k.N, k.D, em)
	if !ok {
		r.Class("em>=n")
		return
	}
	sig, mut := mutateSig(i2osp(m, k.K), k.N, k.K, c)
	scheme := "v15"
	if c.PSS {
		scheme = "pss"
	}
	r.Class(scheme + "/" + shape)
	r.Class("mut/" + mut)

	var want, got bool
	var gerr error
	if c.PSS {
		vs := c.VSalt
		if vs >= 1000 {
			vs = len(c.Salt) + vs - 1001
			if vs <= 0 {
				vs = 1
			}
		}
		if vs < -1 {
			want = false
		} else {
			_, want = refVerifyPSS(k.N, k.E, h, c.Digest, sig, vs)
		}
		gerr = zrsa.VerifyPSS(&k.Z.PublicKey, h, c.Digest, sig, &zrsa.PSSOptions{SaltLength: vs})
		if k.Std != nil {
			serr := stdrsa.VerifyPSS(&k.Std.PublicKey, h, c.Digest, sig, &stdrsa.PSSOptions{SaltLength: vs})
			if (serr == nil) != want {
				r.Failf("harness:oracle-disagree", "PSS %s/%s verify-salt %d: crypto/rsa err=%v, reference accept=%v", shape, mut, vs, serr, want)
			}
		}
		r.Class(fmt.Sprintf("pss/verify-salt-mode=%s", map[bool]string{true: "special", false: "explicit"}[vs <= 0]))
	} else {
		want = refVerifyPKCS1v15(k.N, k.E, h, c.Digest, sig)
		gerr = zrsa.VerifyPKCS1v15(&k.Z.PublicKey, h, c.Digest, sig)
		if k.Std != nil {
			serr := stdrsa.VerifyPKCS1v15(&k.Std.PublicKey, h, c.Digest, sig)
			if (serr == nil) != want {
				r.Failf("harness:oracle-disagree", "v1.5 %s/%s: crypto/rsa err=%v, reference accept=%v", shape, mut, serr, want)
			}
		}
	}
	got = gerr == nil
	if want {
		r.Class("expect-accept")
	} else {
		r.Class("expect-reject")
	}
	if got && !want {
		r.Failf("C23:verify-"+scheme+"-accepts-forgery", "zcrypto accepted a signature that RFC 8017 and crypto/rsa reject: EM shape %q, signature mutation %q, hash %s, k=%d, emBits=%d, e=%s", shape, mut, hashName(h), k.K, emBits, k.E.Text(16))
	}
	if !got && want {
		r.Failf("C23:verify-"+scheme+"-rejects-genuine", "zcrypto rejected (%v) a signature that RFC 8017 and crypto/rsa accept: EM shape %q, mutation %q, hash %s, k=%d, emBits=%d, e=%s", gerr, shape, mut, hashName(h), k.K, emBits, k.E.Text(16))
	}
	r.NonTrivial() // every case is a crafted/mutated signature
}

const forgeRule = "keys as in 'sign' (up to ~2056 bits); an encoded message EM is built by hand - canonical or with exactly one deviation (v1.5: short PS + trailing garbage, PS octet, first octet, block type, separator, DigestInfo without NULL, DigestInfo octet, digest bit, leading zero in PS; PSS: trailer, delimiter, PS octet, H bit, leftmost bits, salt/H mismatch, non-zero leading octet when emLen<k) - s = EM^d mod n is computed with math/big, then s is kept or mutated (s+n, prepend 00, drop octet, bit flip, append octet, 0, 1, n-1, n); PSS verification salt option auto / equals-hash / explicit (= , +-1) / invalid. Every case is non-trivial (mutated input); distinct by case hash"

func TestPropForge(t *testing.T) {
	kit.Run(t, kit.Spec[ForgeCase]{ID: "C23", Name: "forge", Rule: forgeRule, Gen: genForge, Check: checkForge,
		Quick: 2500, Thorough: 35000,
		Assumptions: []string{"a verifier decision is compared only as accept/reject; error values are not compared"}})
}
