package c23

import (
	"crypto"
	"crypto/sha256"
	"fmt"
	"math/big"
	"testing"

	zrsa "github.com/zmap/zcrypto/rsa"
	"verifharness/kit"
)

// ---------------------------------------------------------------------------
// sub-check "malformed": every exported operation that takes a public key,
// applied to public keys with a missing / zero / negative / degenerate modulus
// or exponent, returns (an error for the values the statement lists) and never
// panics.  Finite space, enumerated exhaustively.

type MalCase struct {
	Op    string `json:"op"`
	N     string `json:"n"`     // good | nil | zero | neg | one | even | tiny
	E     string `json:"e"`     // good | nil | zero | one | neg1 | neg3 | neg65537 | two
	Input string `json:"input"` // zeros | one | genuine | ff | nminus1 | short
}

var (
	malOps    = []string{"EncryptPKCS1v15", "EncryptOAEP", "VerifyPKCS1v15", "VerifyPSS/auto", "VerifyPSS/hash", "VerifyPSS/nil-opts"}
	malNs     = []string{"good", "nil", "zero", "neg", "one", "even", "tiny"}
	malEs     = []string{"good", "nil", "zero", "one", "neg1", "neg3", "neg65537", "two"}
	malInputs = []string{"zeros", "one", "genuine", "ff", "nminus1", "short"}
)

func enumMal(shard, nshards int, yield func(MalCase) bool) {
	i := 0
	for _, op := range malOps {
		for _, n := range malNs {
			for _, e := range malEs {
				if n == "good" && e == "good" {
					continue
				}
				for _, in := range malInputs {
					i++
					if i%nshards != shard {
						continue
					}
					if !yield(MalCase{op, n, e, in}) {
						return
					}
				}
			}
		}
	}
}

func checkMal(c MalCase, r *kit.R) {
	base, _ := resolve(KeySpec{Pool: -1, Primes: []int{27, 30}, Pre: true}) // ~1020-bit constructed key, e=65537
	pub := &zrsa.PublicKey{}
	switch c.N {
	case "good":
		pub.N = cp(base.N)
	case "nil":
	case "zero":
		pub.N = new(big.Int)
	case "neg":
		pub.N = new(big.Int).Neg(base.N)
	case "one":
		pub.N = big.NewInt(1)
	case "even":
		pub.N = new(big.Int).Lsh(base.N, 1)
	case "tiny":
		pub.N = big.NewInt(0xfffb)
	}
	switch c.E {
	case "good":
		pub.E = cp(base.E)
	case "nil":
	case "zero":
		pub.E = new(big.Int)
	case "one":
		pub.E = big.NewInt(1)
	case "neg1":
		pub.E = big.NewInt(-1)
	case "neg3":
		pub.E = big.NewInt(-3)
	case "neg65537":
		pub.E = big.NewInt(-65537)
	case "two":
		pub.E = big.NewInt(2)
	}
	// size of the signature / message the operation will be handed: the key's own idea of k
	k := 0
	if pub.N != nil {
		k = (pub.N.BitLen() + 7) / 8
	}
	digest := sha256.Sum256([]byte("c23"))
	var in []byte
	switch c.Input {
	case "zeros":
		in = make([]byte, k)
	case "one":
		in = make([]byte, k)
		if k > 0 {
			in[k-1] = 1
		}
	case "genuine": // a genuine signature of the base key (right length only when |N| is the base modulus)
		em, _ := emsaPKCS1v15(crypto.SHA256, digest[:], base.K)
		m, _ := rsadp(base.N, base.D, em)
		in = i2osp(m, base.K)
	case "ff":
		in = make([]byte, k)
		for i := range in {
			in[i] = 0xff
		}
	case "nminus1":
		in = make([]byte, k)
		if pub.N != nil && pub.N.Sign() != 0 {
			v := new(big.Int).Abs(pub.N)
			v.Sub(v, big1)
			in = i2osp(v, k)
		}
	case "short":
		in = []byte{7}
	}
	r.Class("op=" + c.Op)
	r.Class("N=" + c.N)
	r.Class("E=" + c.E)
	r.NonTrivial()

	var err error
	g := kit.GuardInline(func() {
		switch c.Op {
		case "EncryptPKCS1v15":
			msg := in
			if len(msg) > 20 {
				msg = msg[:20]
			}
			_, err = zrsa.EncryptPKCS1v15(newDetRand([]byte{1}), pub, msg)
		case "EncryptOAEP":
			msg := in
			if len(msg) > 20 {
				msg = msg[:20]
			}
			_, err = zrsa.EncryptOAEP(sha256.New(), newDetRand([]byte{1}), pub, msg, nil)
		case "VerifyPKCS1v15":
			err = zrsa.VerifyPKCS1v15(pub, crypto.SHA256, digest[:], in)
		case "VerifyPSS/auto":
			err = zrsa.VerifyPSS(pub, crypto.SHA256, digest[:], in, &zrsa.PSSOptions{SaltLength: zrsa.PSSSaltLengthAuto})
		case "VerifyPSS/hash":
			err = zrsa.VerifyPSS(pub, crypto.SHA256, digest[:], in, &zrsa.PSSOptions{SaltLength: zrsa.PSSSaltLengthEqualsHash})
		case "VerifyPSS/nil-opts":
			err = zrsa.VerifyPSS(pub, crypto.SHA256, digest[:], in, nil)
		}
	})
	opName := c.Op
	if i := len("VerifyPSS"); len(opName) > i && opName[:i] == "VerifyPSS" {
		opName = "VerifyPSS"
	}
	what := malWhat(c)
	if g.Panicked {
		r.Class("outcome=panic")
		r.Failf(fmt.Sprintf("C23:malformed-pub-panic:%s:%s", opName, what),
			"%s on a public key with N=%s, E=%s (input %q) panicked instead of returning an error: %v\n%s", c.Op, c.N, c.E, c.Input, g.PanicVal, g.Stack)
	}
	// "zero, negative or missing values" must give an error; the other degenerate keys
	// (N=1, even N, 16-bit N, E=1, E=2) are only required not to panic.
	listed := c.N == "nil" || c.N == "zero" || c.N == "neg" || c.E == "nil" || c.E == "zero" || c.E == "neg1" || c.E == "neg3" || c.E == "neg65537"
	if err == nil {
		r.Class("outcome=accepted")
		r.Class(fmt.Sprintf("accepted:%s:N=%s:E=%s:%s", c.Op, c.N, c.E, c.Input))
		if listed {
			r.Failf(fmt.Sprintf("C23:malformed-pub-accepted:%s:%s", opName, what),
				"%s on a public key with N=%s, E=%s (input %q) returned no error", c.Op, c.N, c.E, c.Input)
		}
	} else {
		r.Class("outcome=error")
	}
}

// malWhat names the first malformed component (stable part of the failure key).
func malWhat(c MalCase) string {
	switch {
	case c.N == "nil":
		return "N=nil"
	case c.E == "nil":
		return "E=nil"
	case c.E == "neg1" || c.E == "neg3" || c.E == "neg65537":
		return "E<0"
	case c.N != "good":
		return "N=" + c.N
	default:
		return "E=" + c.E
	}
}

func TestPropMalformed(t *testing.T) {
	kit.Run(t, kit.Spec[MalCase]{ID: "C23", Name: "malformed", Check: checkMal, Enum: enumMal,
		Rule: "exhaustive: {EncryptPKCS1v15, EncryptOAEP, VerifyPKCS1v15, VerifyPSS with auto / equals-hash / nil options} x N in {good, nil, 0, -n, 1, 2n, 16-bit} x E in {good, nil, 0, 1, -1, -3, -65537, 2} (not both good) x input in {0..0, 0..01, genuine signature, ff..ff, |N|-1, 1 byte}; every case is non-trivial",
		Assumptions: []string{
			"only operations that take a *PublicKey and return an error are in scope (Size/Equal cannot report errors; private-key operations are operations on private keys)",
			"an error is demanded for nil, zero and negative N or E; for N=1, even N, tiny N, E=1 and E=2 only the absence of a panic is demanded",
		}})
}
