package c05

import (
	"bytes"
	"crypto"
	"crypto/rand"
	"fmt"
	"testing"

	"github.com/zmap/zcrypto/x509"
	"github.com/zmap/zcrypto/x509/pkix"
	"pgregory.net/rapid"
	"verifharness/certgen"
	"verifharness/keys"
	"verifharness/kit"
)

func eqStrs(a, b []string) bool {
	if len(a) != len(b) {
		return false
	}
	for i := range a {
		if a[i] != b[i] {
			return false
		}
	}
	return true
}

func kind(k *keys.Key) string {
	switch k.Kind {
	case "rsa":
		return fmt.Sprintf("rsa%d/%dp", k.Bits, k.NPrimes)
	case "ec":
		return k.Curve
	}
	return k.Kind
}

func samePub(pub any, k *keys.Key) bool {
	b1, err1 := x509.MarshalPKIXPublicKey(pub)
	b2, err2 := x509.MarshalPKIXPublicKey(k.ZPub)
	return err1 == nil && err2 == nil && bytes.Equal(b1, b2)
}

func largeArc(exts ...[]certgen.Ext) bool {
	for _, l := range exts {
		for _, e := range l {
			for _, a := range e.OID {
				if a >= 1<<28 {
					return true
				}
			}
		}
	}
	return false
}

// otherKeyOfKind returns a pool key of the same kind as k but different from it.
func otherKeyOfKind(k *keys.Key, pick int) *keys.Key {
	var c []*keys.Key
	for _, o := range keys.Of(k.Kind) {
		if o.Index != k.Index && (k.Kind != "ec" || o.Curve == k.Curve || true) {
			c = append(c, o)
		}
	}
	if len(c) == 0 {
		// only one key of this kind in the pool (Ed25519): fall back to any other signer
		for _, o := range keys.Signers() {
			if o.Index != k.Index {
				c = append(c, o)
			}
		}
	}
	return c[((pick%len(c))+len(c))%len(c)]
}

// ---------------------------------------------------------------------------
// certificate requests

type CaseCSR struct {
	T     certgen.CSR `json:"t"`
	Key   int         `json:"key"`
	Other int         `json:"other"`
}

const ruleCSR = "CSR templates: subject (C22 generator), DNS/email/IP SANs, extra extensions (unknown OIDs, a SAN override), an optional pre-existing extensionRequest attribute (0-3 extensions incl. SAN and OIDs that collide with extras; placed before or after other attributes), other attributes; key from the pool (RSA 512..4096, ECDSA, Ed25519) x requested algorithm (0 / compatible incl. RSA-PSS / arbitrary). Non-trivial: >= 1 extension or attribute, or a non-default algorithm; distinct by case hash"

func checkCSR(c CaseCSR, r *kit.R) {
	key := keys.Get(c.Key)
	alg := x509.SignatureAlgorithm(c.T.SigAlg)
	tmpl := c.T.X509()
	var der []byte
	var err error
	g := kit.GuardInline(func() { der, err = x509.CreateCertificateRequest(rand.Reader, tmpl, key.ZPriv) })
	r.Must(g, "CreateCertificateRequest")
	if !certgen.SigCompat(key, alg) {
		r.Class("incompatible-key/algorithm")
		return
	}
	if err != nil {
		r.Failf("C05:csr-create-error", "CreateCertificateRequest failed (key %s alg %v): %v", key.Name, alg, err)
	}
	csr, err := x509.ParseCertificateRequest(der)
	if err != nil {
		r.Failf("C05:csr-parse-error", "ParseCertificateRequest rejects the created request: %v\nder=%x", err, der)
	}
	// the same template object once more: nothing in the to-be-signed part is random
	if der2, err2 := x509.CreateCertificateRequest(rand.Reader, tmpl, key.ZPriv); err2 != nil {
		r.Failf("C05:csr-template-reuse", "the second CreateCertificateRequest with the same template fails: %v", err2)
	} else if csr2, perr := x509.ParseCertificateRequest(der2); perr != nil || !bytes.Equal(csr2.RawTBSCertificateRequest, csr.RawTBSCertificateRequest) {
		r.Failf("C05:csr-template-reuse", "two CreateCertificateRequest calls with the same template give different to-be-signed bytes (%v)\nfirst=%x\nsecond=%x", perr, der, der2)
	}
	fail := func(k, f string, a ...any) {
		r.Failf("C05:csr-"+k, f+"\nder=%x", append(a, der)...)
	}
	if d := c.T.Subject.CompareFilled(&csr.Subject); d != "" {
		fail("subject", "subject: %s", d)
	}
	if csr.Version != 0 {
		fail("version", "version %d", csr.Version)
	}
	want := c.T.ExpectedExtensions()
	if len(want) != len(csr.Extensions) {
		fail("extensions", "extensions: want %d got %d: %v", len(want), len(csr.Extensions), csr.Extensions)
	}
	dns, emails, ips := []string(nil), []string(nil), [][]byte(nil)
	for i, w := range want {
		g := csr.Extensions[i]
		if g.Id.String() != certgen.OIDKey(w.OID) {
			fail("extensions", "extension %d: want OID %v got %v", i, w.OID, g.Id)
		}
		generated := w.Exp != nil && w.Exp.Kind == "generated-san"
		if !generated && !bytes.Equal(g.Value, w.Value) {
			fail("extensions", "extension %d (%v): want value %x got %x", i, w.OID, w.Value, g.Value)
		}
		if generated {
			dns, emails, ips = c.T.DNS, c.T.Email, c.T.IPs
		} else if w.Exp != nil && w.Exp.Kind == "san" {
			dns, emails, ips = w.Exp.DNS, nil, nil
		}
	}
	if !eqStrs(csr.DNSNames, dns) || !eqStrs(csr.EmailAddresses, emails) {
		fail("san", "SANs: want dns=%q email=%q got %q %q", dns, emails, csr.DNSNames, csr.EmailAddresses)
	}
	if len(csr.IPAddresses) != len(ips) {
		fail("san-ip", "IP SANs: want %v got %v", ips, csr.IPAddresses)
	}
	for i := range ips {
		if !bytes.Equal(csr.IPAddresses[i], certgen.NormIP(ips[i])) {
			fail("san-ip", "IP SAN %d: want %x got %x", i, certgen.NormIP(ips[i]), []byte(csr.IPAddresses[i]))
		}
	}
	if !samePub(csr.PublicKey, key) {
		fail("public-key", "public key differs from the signing key %s", key.Name)
	}
	wantAlg := alg
	if wantAlg == 0 {
		wantAlg = certgen.DefaultSigAlg(key)
	}
	if csr.SignatureAlgorithm != wantAlg {
		fail("sig-alg", "signature algorithm: want %v got %v", wantAlg, csr.SignatureAlgorithm)
	}
	// classes first (the signature assertion may hit a known finding)
	r.Class("key:" + kind(key))
	r.Class(fmt.Sprintf("alg=%v", wantAlg))
	if alg != 0 {
		r.Class("alg-requested")
	}
	if c.T.HasExtReq {
		r.Class("pre-existing-extension-request")
	}
	if len(c.T.Extras) > 0 {
		r.Class("extras")
	}
	if len(want) < len(c.T.Extras)+len(c.T.AttrExts) {
		r.Class("extra-shadowed-by-attribute")
	}
	if len(c.T.Others) > 0 {
		r.Class("other-attributes")
	}
	if len(dns)+len(emails)+len(ips) > 0 {
		r.Class("sans")
	}
	if len(want) > 0 || len(c.T.Others) > 0 || alg != 0 {
		r.NonTrivial()
	}
	// the request does not verify under another key
	other := otherKeyOfKind(key, c.Other)
	if err := x509.CheckSignatureFromKey(other.ZPub, csr.SignatureAlgorithm, csr.RawTBSCertificateRequest, csr.Signature); err == nil {
		fail("verifies-under-other-key", "the request's signature verifies under the unrelated key %s", other.Name)
	}
	if err := csr.CheckSignature(); err != nil {
		k := "check-signature"
		if certgen.IsPSS(wantAlg) {
			k = "check-signature:rsa-pss"
		}
		fail(k, "CertificateRequest.CheckSignature() = %v on a request the library created itself (key %s, algorithm %v)", err, key.Name, wantAlg)
	}
}

func TestPropCSR(t *testing.T) {
	kit.Run(t, kit.Spec[CaseCSR]{ID: "C05", Name: "csr", Rule: ruleCSR, Check: checkCSR, Quick: 1500, Thorough: 12000,
		Gen: func(t *rapid.T) CaseCSR {
			var c CaseCSR
			c.Key = certgen.GenSignerKey(t, "key")
			c.Other = rapid.IntRange(0, 7).Draw(t, "other")
			c.T = certgen.GenCSR(t, "csr", rapid.SampledFrom([]int{15, 35, 60}).Draw(t, "density"))
			c.T.SigAlg = certgen.GenSigAlg(t, "sigalg", keys.Get(c.Key))
			return c
		},
		Assumptions: []string{
			"the critical flag of extensions is not representable in a CSR (documented in the code) and is not compared",
			"a pre-existing extensionRequest attribute has exactly one value list (a SET OF with several members is re-ordered by DER)",
			"IP SANs have 4 or 16 bytes; strings are valid UTF-8",
		}})
}

// ---------------------------------------------------------------------------
// issuer helper

// issuer builds the issuing certificate of a CRL: the parsed, self-signed CA
// (always, for verification) and the object handed to the creation API (the
// parsed certificate or the un-parsed template).
func issuer(r *kit.R, spec certgen.Cert, key *keys.Key, parsed bool) (api, ver *x509.Certificate) {
	t := spec.X509()
	der, err := x509.CreateCertificate(rand.Reader, t, t, key.ZPub, key.ZPriv)
	if err != nil {
		r.Failf("C05:issuer-create", "creating the issuing CA failed: %v", err)
	}
	ver, err = x509.ParseCertificate(der)
	if err != nil {
		r.Failf("C05:issuer-parse", "parsing the issuing CA failed: %v", err)
	}
	if parsed {
		return ver, ver
	}
	t2 := spec.X509()
	t2.PublicKey = key.ZPub
	return t2, ver
}

func genIssuer(t *rapid.T) certgen.Cert {
	c := certgen.GenCert(t, "issuer", certgen.GenOpts{Density: 15, ForceCA: true, NoExtras: true, StringOnly: true, SmallOIDs: true})
	c.SigAlg = 0
	return c
}

func cmpExts(want []certgen.Ext, got []pkix.Extension) string {
	if len(want) != len(got) {
		return fmt.Sprintf("want %d extensions, got %d (%v)", len(want), len(got), got)
	}
	for i, w := range want {
		if got[i].Id.String() != certgen.OIDKey(w.OID) || got[i].Critical != w.Critical || !bytes.Equal(got[i].Value, w.Value) {
			return fmt.Sprintf("extension %d: want %v critical=%v %x, got %v critical=%v %x", i, w.OID, w.Critical, w.Value, got[i].Id, got[i].Critical, got[i].Value)
		}
	}
	return ""
}

// ---------------------------------------------------------------------------
// legacy CRLs

type CaseCRL struct {
	Issuer    certgen.Cert `json:"issuer"`
	IssuerKey int          `json:"issuer_key"`
	Parsed    bool         `json:"parsed"`
	L         certgen.CRL  `json:"l"`
	Other     int          `json:"other"`
}

const ruleCRL = "legacy (*Certificate).CreateCRL: issuer = generated CA (parsed certificate or un-parsed template, with/without SubjectKeyId) x pool key; 0-8 revoked entries with serials 0..2^159 incl. duplicates, revocation times both sides of 2050 in non-UTC zones, per-entry extensions; this/next update. Parsed back with ParseCRL and ParseDERCRL, verified with CheckCRLSignature. Non-trivial: >= 1 entry with an extension or >= 2 entries or a non-RSA-2048 key; distinct by case hash"

func checkCRL(c CaseCRL, r *kit.R) {
	key := keys.Get(c.IssuerKey)
	api, ver := issuer(r, c.Issuer, key, c.Parsed)
	var der []byte
	var err error
	revokedIn := c.L.Revoked()
	g := kit.GuardInline(func() {
		der, err = api.CreateCRL(rand.Reader, key.ZPriv, revokedIn, c.L.Now.T(), c.L.Expiry.T())
	})
	r.Must(g, "CreateCRL")
	if err != nil {
		r.Failf("C05:crl-create-error", "CreateCRL failed (key %s): %v", key.Name, err)
	}
	// the same revoked-certificates slice once more
	if der2, err2 := api.CreateCRL(rand.Reader, key.ZPriv, revokedIn, c.L.Now.T(), c.L.Expiry.T()); err2 != nil {
		r.Failf("C05:crl-input-reuse", "the second CreateCRL with the same entries fails: %v", err2)
	} else if a, e1 := x509.ParseDERCRL(der); e1 == nil {
		if b, e2 := x509.ParseDERCRL(der2); e2 != nil || !bytes.Equal(a.TBSCertList.Raw, b.TBSCertList.Raw) {
			r.Failf("C05:crl-input-reuse", "two CreateCRL calls with the same entries give different to-be-signed bytes (%v)\nfirst=%x\nsecond=%x", e2, der, der2)
		}
	}
	fail := func(k, f string, a ...any) {
		r.Failf("C05:crl-"+k, f+"\nder=%x", append(a, der)...)
	}
	crl, err := x509.ParseCRL(der)
	if err != nil {
		fail("parse-error", "ParseCRL rejects the created CRL: %v", err)
	}
	crl2, err := x509.ParseDERCRL(der)
	if err != nil || !bytes.Equal(crl2.TBSCertList.Raw, crl.TBSCertList.Raw) {
		fail("parse-error", "ParseDERCRL: %v", err)
	}
	tbs := crl.TBSCertList
	var filled pkix.Name
	filled.FillFromRDNSequence(&tbs.Issuer)
	if d := c.Issuer.Subject.CompareFilled(&filled); d != "" {
		fail("issuer", "issuer: %s", d)
	}
	if tbs.ThisUpdate.Unix() != c.L.Now.Unix || tbs.NextUpdate.Unix() != c.L.Expiry.Unix {
		fail("update-times", "update times: want %d/%d got %d/%d (%v / %v)", c.L.Now.Unix, c.L.Expiry.Unix, tbs.ThisUpdate.Unix(), tbs.NextUpdate.Unix(), tbs.ThisUpdate, tbs.NextUpdate)
	}
	if len(tbs.RevokedCertificates) != len(c.L.Entries) {
		fail("entries", "revoked entries: want %d got %d", len(c.L.Entries), len(tbs.RevokedCertificates))
	}
	withExt := false
	for i, e := range c.L.Entries {
		g := tbs.RevokedCertificates[i]
		if g.SerialNumber == nil || g.SerialNumber.Cmp(e.SerialInt()) != 0 {
			fail("entry-serial", "entry %d serial: want %s got %v", i, e.Serial, g.SerialNumber)
		}
		if g.RevocationTime.Unix() != e.Time.Unix {
			fail("entry-time", "entry %d revocation time: want %d got %d (%v)", i, e.Time.Unix, g.RevocationTime.Unix(), g.RevocationTime)
		}
		if d := cmpExts(e.Exts, g.Extensions); d != "" {
			fail("entry-extensions", "entry %d: %s", i, d)
		}
		if len(e.Exts) > 0 {
			withExt = true
		}
	}
	if a := x509.GetSignatureAlgorithmFromAI(crl.SignatureAlgorithm); a != certgen.DefaultSigAlg(key) {
		fail("sig-alg", "signature algorithm %v, want the key's default %v", a, certgen.DefaultSigAlg(key))
	}
	if err := ver.CheckCRLSignature(crl); err != nil {
		fail("check-signature", "CheckCRLSignature with the issuing certificate = %v (key %s)", err, key.Name)
	}
	if api != ver {
		if err := api.CheckCRLSignature(crl); err != nil {
			fail("check-signature", "CheckCRLSignature with the issuing template = %v (key %s)", err, key.Name)
		}
	}
	ok := otherKeyOfKind(key, c.Other)
	_, wrong := issuer(r, c.Issuer, ok, true)
	if err := wrong.CheckCRLSignature(crl); err == nil {
		fail("verifies-under-other-key", "CheckCRLSignature succeeds with a certificate for the unrelated key %s", ok.Name)
	}
	r.Class("key:" + kind(key))
	r.Class(fmt.Sprintf("entries=%d", min(len(c.L.Entries), 5)))
	if withExt {
		r.Class("entry-extensions")
	}
	if c.Parsed {
		r.Class("issuer-parsed")
	} else {
		r.Class("issuer-template")
	}
	if len(c.Issuer.SKI) > 0 {
		r.Class("issuer-ski")
	}
	for _, e := range c.L.Entries {
		if e.Time.Unix >= 2524608000 {
			r.Class("entry-generalized-time")
			break
		}
	}
	if withExt || len(c.L.Entries) >= 2 || !(key.Kind == "rsa" && key.Bits == 2048 && key.NPrimes == 2) {
		r.NonTrivial()
	}
}

func TestPropCRL(t *testing.T) {
	kit.Run(t, kit.Spec[CaseCRL]{ID: "C05", Name: "crl", Rule: ruleCRL, Check: checkCRL, Quick: 700, Thorough: 8000,
		Gen: func(t *rapid.T) CaseCRL {
			var c CaseCRL
			c.IssuerKey = certgen.GenSignerKey(t, "key")
			c.Other = rapid.IntRange(0, 7).Draw(t, "other")
			c.Parsed = rapid.Bool().Draw(t, "parsed")
			c.Issuer = genIssuer(t)
			if certgen.Chance(t, "no-ski", 30) {
				c.Issuer.SKI = nil
			}
			c.L = certgen.GenCRL(t, "crl")
			return c
		},
		Assumptions: []string{"serials >= 0, times in 1950..9999; the CRL's authorityKeyIdentifier extension is not part of the statement and is not compared"}})
}

// ---------------------------------------------------------------------------
// v2 revocation lists

type CaseRL struct {
	Issuer    certgen.Cert `json:"issuer"`
	IssuerKey int          `json:"issuer_key"`
	Parsed    bool         `json:"parsed"`
	L         certgen.RL   `json:"l"`
	Other     int          `json:"other"`
}

const ruleRL = "CreateRevocationList: issuer = generated CA with crlSign and SubjectKeyId (parsed certificate or un-parsed template) x pool key x requested algorithm (0 / compatible incl. RSA-PSS / arbitrary); 0-8 entries with ReasonCode nil/0/1..10, user-supplied reasonCode extensions (must be replaced), invalidityDate and unknown extensions, duplicate serials, times both sides of 2050; CRL number up to 20 octets; extra list extensions (OID arcs up to 2^31-1). Parsed back with ParseRevocationList (and the legacy ParseCRL), verified with RevocationList.CheckSignatureFrom. Non-trivial: >= 1 entry with a reason or an extension, or a requested algorithm; distinct by case hash"

func checkRL(c CaseRL, r *kit.R) {
	key := keys.Get(c.IssuerKey)
	alg := x509.SignatureAlgorithm(c.L.SigAlg)
	api, ver := issuer(r, c.Issuer, key, c.Parsed)
	var der []byte
	var err error
	rlTmpl := c.L.X509()
	g := kit.GuardInline(func() {
		der, err = x509.CreateRevocationList(rand.Reader, rlTmpl, api, key.ZPriv.(crypto.Signer))
	})
	r.Must(g, "CreateRevocationList")
	if err == nil && certgen.SigCompat(key, alg) {
		// the same template object once more
		if der2, err2 := x509.CreateRevocationList(rand.Reader, rlTmpl, api, key.ZPriv.(crypto.Signer)); err2 != nil {
			r.Failf("C05:rl-template-reuse", "the second CreateRevocationList with the same template fails: %v", err2)
		} else if a, e1 := x509.ParseRevocationList(der); e1 == nil {
			if b, e2 := x509.ParseRevocationList(der2); e2 != nil || !bytes.Equal(a.RawTBSRevocationList, b.RawTBSRevocationList) {
				r.Failf("C05:rl-template-reuse", "two CreateRevocationList calls with the same template give different to-be-signed bytes (%v)\nfirst=%x\nsecond=%x", e2, der, der2)
			}
		}
	}
	if !certgen.SigCompat(key, alg) {
		r.Class("incompatible-key/algorithm")
		return
	}
	if err != nil {
		r.Failf("C05:rl-create-error", "CreateRevocationList failed (key %s alg %v): %v", key.Name, alg, err)
	}
	fail := func(k, f string, a ...any) {
		r.Failf("C05:rl-"+k, f+"\nder=%x", append(a, der)...)
	}
	rl, err := x509.ParseRevocationList(der)
	if err != nil {
		var all [][]certgen.Ext
		all = append(all, c.L.Extras)
		for _, e := range c.L.Entries {
			all = append(all, e.Exts)
		}
		for _, e := range c.Issuer.Subject.Extra {
			all = append(all, []certgen.Ext{{OID: e.OID}})
		}
		if largeArc(all...) {
			fail("parse-error:oid-arc>=2^28", "ParseRevocationList rejects a list CreateRevocationList produced; it carries an extension (or issuer attribute type) whose OID has a sub-identifier >= 2^28: %v", err)
		}
		fail("parse-error", "ParseRevocationList rejects the created list: %v", err)
	}
	if d := c.Issuer.Subject.CompareFilled(&rl.Issuer); d != "" {
		fail("issuer", "issuer: %s", d)
	}
	if !bytes.Equal(rl.RawIssuer, ver.RawSubject) {
		fail("raw-issuer", "RawIssuer differs from the issuer's RawSubject")
	}
	if rl.ThisUpdate.Unix() != c.L.ThisUpdate.Unix || rl.NextUpdate.Unix() != c.L.NextUpdate.Unix {
		fail("update-times", "update times: want %d/%d got %d/%d (%v / %v)", c.L.ThisUpdate.Unix, c.L.NextUpdate.Unix, rl.ThisUpdate.Unix(), rl.NextUpdate.Unix(), rl.ThisUpdate, rl.NextUpdate)
	}
	if rl.Number == nil || rl.Number.Cmp(c.L.NumberInt()) != 0 {
		fail("number", "CRL number: want %s got %v", c.L.Number, rl.Number)
	}
	if len(rl.RevokedCertificates) != len(c.L.Entries) {
		fail("entries", "revoked entries: want %d got %d", len(c.L.Entries), len(rl.RevokedCertificates))
	}
	interesting := false
	for i, e := range c.L.Entries {
		g := rl.RevokedCertificates[i]
		if g.SerialNumber == nil || g.SerialNumber.Cmp(e.SerialInt()) != 0 {
			fail("entry-serial", "entry %d serial: want %s got %v", i, e.Serial, g.SerialNumber)
		}
		if g.RevocationTime.Unix() != e.Time.Unix {
			fail("entry-time", "entry %d revocation time: want %d got %d (%v)", i, e.Time.Unix, g.RevocationTime.Unix(), g.RevocationTime)
		}
		reason := 0
		if e.Reason != nil {
			reason = *e.Reason
		}
		var copied []certgen.Ext
		userReason := false
		for _, x := range e.Exts {
			if certgen.OIDKey(x.OID) == certgen.OIDKey(certgen.OIDExtReasonCode) {
				userReason = true
				continue
			}
			copied = append(copied, x)
		}
		if reason == 0 {
			if g.ReasonCode != nil {
				fail("entry-reason", "entry %d: reason nil/0 supplied (user reasonCode extension: %v), parsed ReasonCode = %d", i, userReason, *g.ReasonCode)
			}
		} else if g.ReasonCode == nil || *g.ReasonCode != reason {
			fail("entry-reason", "entry %d: reason %d supplied, parsed %v", i, reason, g.ReasonCode)
		}
		nReason := 0
		var others []pkix.Extension
		for _, x := range g.Extensions {
			if x.Id.String() == certgen.OIDKey(certgen.OIDExtReasonCode) {
				nReason++
			} else {
				others = append(others, x)
			}
		}
		wantN := 0
		if reason != 0 {
			wantN = 1
		}
		if nReason != wantN {
			fail("entry-reason-extension", "entry %d: %d reasonCode extensions, want %d (reason %d, user-supplied extension: %v)", i, nReason, wantN, reason, userReason)
		}
		if d := cmpExts(copied, others); d != "" {
			fail("entry-extensions", "entry %d: %s", i, d)
		}
		if e.Reason != nil || len(e.Exts) > 0 {
			interesting = true
		}
		if userReason {
			r.Class("user-reason-extension")
		}
		if e.Reason != nil && reason == 0 {
			r.Class("reason-zero")
		}
		if reason != 0 {
			r.Class("reason-nonzero")
		}
	}
	// list extensions: exactly one AKI and one CRL number, the extras verbatim and in order
	nAKI, nNum := 0, 0
	var others []pkix.Extension
	for _, x := range rl.Extensions {
		switch x.Id.String() {
		case certgen.OIDKey(certgen.OIDExtAKI):
			nAKI++
		case certgen.OIDKey(certgen.OIDExtCRLNumber):
			nNum++
		default:
			others = append(others, x)
		}
	}
	if nAKI != 1 || nNum != 1 {
		fail("list-extensions", "the list carries %d authorityKeyIdentifier and %d cRLNumber extensions", nAKI, nNum)
	}
	if d := cmpExts(c.L.Extras, others); d != "" {
		fail("list-extensions", "extra list extensions: %s", d)
	}
	wantAlg := alg
	if wantAlg == 0 {
		wantAlg = certgen.DefaultSigAlg(key)
	}
	if rl.SignatureAlgorithm != wantAlg {
		fail("sig-alg", "signature algorithm: want %v got %v", wantAlg, rl.SignatureAlgorithm)
	}
	if err := rl.CheckSignatureFrom(ver); err != nil {
		k := "check-signature"
		if certgen.IsPSS(wantAlg) {
			k = "check-signature:rsa-pss"
		}
		fail(k, "RevocationList.CheckSignatureFrom(issuer) = %v (key %s, %v)", err, key.Name, wantAlg)
	}
	ok := otherKeyOfKind(key, c.Other)
	_, wrong := issuer(r, c.Issuer, ok, true)
	if err := rl.CheckSignatureFrom(wrong); err == nil {
		fail("verifies-under-other-key", "CheckSignatureFrom succeeds with a CA certificate for the unrelated key %s", ok.Name)
	}
	// the legacy parser reads the same list
	if leg, err := x509.ParseCRL(der); err != nil {
		fail("legacy-parse", "ParseCRL rejects the v2 list: %v", err)
	} else {
		if len(leg.TBSCertList.RevokedCertificates) != len(c.L.Entries) || leg.TBSCertList.ThisUpdate.Unix() != c.L.ThisUpdate.Unix {
			fail("legacy-parse", "ParseCRL reads %d entries / this update %v", len(leg.TBSCertList.RevokedCertificates), leg.TBSCertList.ThisUpdate)
		}
		if err := ver.CheckCRLSignature(leg); err != nil {
			fail("legacy-check-signature", "CheckCRLSignature on the v2 list = %v (%v)", err, wantAlg)
		}
	}
	r.Class("key:" + kind(key))
	r.Class(fmt.Sprintf("alg=%v", wantAlg))
	r.Class(fmt.Sprintf("entries=%d", min(len(c.L.Entries), 5)))
	if c.Parsed {
		r.Class("issuer-parsed")
	} else {
		r.Class("issuer-template")
	}
	if len(c.L.Extras) > 0 {
		r.Class("list-extras")
	}
	if len(c.L.NumberInt().Bytes()) >= 19 {
		r.Class("number>=19-octets")
	}
	if interesting || alg != 0 {
		r.NonTrivial()
	}
}

func TestPropRL(t *testing.T) {
	kit.Run(t, kit.Spec[CaseRL]{ID: "C05", Name: "rl", Rule: ruleRL, Check: checkRL, Quick: 700, Thorough: 8000,
		Gen: func(t *rapid.T) CaseRL {
			var c CaseRL
			c.IssuerKey = certgen.GenSignerKey(t, "key")
			c.Other = rapid.IntRange(0, 7).Draw(t, "other")
			c.Parsed = rapid.Bool().Draw(t, "parsed")
			c.Issuer = genIssuer(t)
			c.L = certgen.GenRL(t, "rl", certgen.Chance(t, "small-oids", 85))
			c.L.SigAlg = certgen.GenSigAlg(t, "sigalg", keys.Get(c.IssuerKey))
			return c
		},
		Assumptions: []string{
			"documented domain of CreateRevocationList: issuer with crlSign and SubjectKeyId, NextUpdate >= ThisUpdate, Number non-negative and <= 20 octets, reason codes 0..10, no extra extension with the OID of authorityKeyIdentifier / cRLNumber",
			"issuer names carry string attribute values only (ParseRevocationList's name parser accepts string types only)",
			"the encoding of generated extensions (AKI, CRL number, reasonCode) is not asserted, only their parsed meaning; RevocationList.AuthorityKeyId is not part of the statement",
		}})
}
