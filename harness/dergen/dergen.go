// Package dergen is the structure-aware DER/BER input generator of the parser
// checks (C01, C02, C20): a TLV tree with controllable (also deliberately wrong)
// length encodings, a random tree generator with type-specific hostile value
// pools, a TLV-level mutator that works on the parsed tree of a valid object
// (reaching into OCTET STRING / BIT STRING encapsulated encodings such as
// extension values and SubjectPublicKeyInfo keys), and a byte-level mutator for
// the non-ASN.1 formats.  It does not import zcrypto.  All randomness comes from
// rapid draws so that failing inputs shrink.
package dergen

import (
	"encoding/json"
	"math/big"
	"sort"

	"pgregory.net/rapid"
	"verifharness/der"
)

// Length-encoding modes of a Node.
const (
	LenMinimal    = iota // DER
	LenLongPadded        // long form with LenArg superfluous leading zero octets (non-minimal)
	LenLongShort         // long form 0x81 for a length < 128 (non-minimal, no leading zero)
	LenIndefinite        // 0x80 ... 00 00
	LenLie               // declared length = real length + LenArg (may point past the end / overlap)
	LenHuge              // declared length is a huge constant selected by LenArg, real content follows
)

// Encap kinds: the body of a primitive OCTET STRING / BIT STRING is itself DER.
const (
	EncapNone = iota
	EncapOctets
	EncapBits // body = 0x00 || DER
)

// Node is one element of a TLV tree.
type Node struct {
	Class       int // 0..3
	Constructed bool
	Tag         int
	Body        []byte  // content of a primitive element (ignored when Children are encoded)
	Children    []*Node // content of a constructed (or encapsulating) element
	Encap       int
	LenMode     int
	LenArg      int
	HighTag     bool // use the high-tag-number form even for tags < 31 (non-minimal)
}

// hasKids: the content is the encoding of Children.  A constructed node with a
// non-nil Body and no Children carries opaque (non-TLV) content.
func (n *Node) hasKids() bool {
	return n.Encap != EncapNone || (n.Constructed && (len(n.Children) > 0 || n.Body == nil))
}

// Clone deep-copies a tree.
func (n *Node) Clone() *Node {
	c := *n
	c.Body = append([]byte(nil), n.Body...)
	c.Children = make([]*Node, len(n.Children))
	for i, k := range n.Children {
		c.Children[i] = k.Clone()
	}
	return &c
}

func base128(v int) []byte {
	if v < 0 {
		v = 0
	}
	var tmp []byte
	tmp = append(tmp, byte(v&0x7f))
	for v >>= 7; v > 0; v >>= 7 {
		tmp = append(tmp, byte(v&0x7f)|0x80)
	}
	out := make([]byte, len(tmp))
	for i := range tmp {
		out[i] = tmp[len(tmp)-1-i]
	}
	return out
}

var hugeLens = [][]byte{
	{0x84, 0xff, 0xff, 0xff, 0xff},
	{0x84, 0x7f, 0xff, 0xff, 0xff},
	{0x84, 0x80, 0x00, 0x00, 0x00},
	{0x83, 0xff, 0xff, 0xff},
	{0x88, 0x7f, 0xff, 0xff, 0xff, 0xff, 0xff, 0xff, 0xff},
	{0x88, 0xff, 0xff, 0xff, 0xff, 0xff, 0xff, 0xff, 0xff},
	{0x85, 0x01, 0x00, 0x00, 0x00, 0x00},
	{0xff},
	{0x89, 0x01, 0, 0, 0, 0, 0, 0, 0, 0},
	{0x84, 0x00, 0x80, 0x00, 0x00}, // 1<<23, the encoding/asn1 shift limit
}

// Encode serialises the tree.  Ancestors' lengths are always consistent with
// what the children really occupy, except where a LenMode says otherwise.
func (n *Node) Encode() []byte { return n.encode(nil) }

func (n *Node) encode(out []byte) []byte {
	first := byte(n.Class&3) << 6
	if n.Constructed {
		first |= 0x20
	}
	if n.Tag >= 31 || n.HighTag {
		out = append(out, first|0x1f)
		out = append(out, base128(n.Tag)...)
	} else {
		out = append(out, first|byte(n.Tag))
	}
	var body []byte
	if n.hasKids() {
		if n.Encap == EncapBits {
			body = append(body, 0)
		}
		for _, k := range n.Children {
			body = k.encode(body)
		}
	} else {
		body = n.Body
	}
	l := len(body)
	switch n.LenMode {
	case LenLongPadded:
		e := der.Len(l)
		if len(e) == 1 {
			e = []byte{0x81, e[0]}
		}
		pad := n.LenArg%3 + 1
		if int(e[0]&0x7f)+pad > 8 {
			pad = 1
		}
		out = append(out, 0x80|byte(int(e[0]&0x7f)+pad))
		for i := 0; i < pad; i++ {
			out = append(out, 0)
		}
		out = append(out, e[1:]...)
	case LenLongShort:
		if l < 128 {
			out = append(out, 0x81, byte(l))
		} else {
			out = append(out, der.Len(l)...)
		}
	case LenIndefinite:
		out = append(out, 0x80)
		out = append(out, body...)
		return append(out, 0, 0)
	case LenLie:
		d := l + n.LenArg
		if d < 0 {
			d = 0
		}
		out = append(out, der.Len(d)...)
	case LenHuge:
		a := n.LenArg
		if a < 0 {
			a = -a
		}
		out = append(out, hugeLens[a%len(hugeLens)]...)
	default:
		out = append(out, der.Len(l)...)
	}
	return append(out, body...)
}

// ParseTree parses b (one or more concatenated elements) into trees.  It is
// tolerant (non-minimal lengths are read and normalised) and descends into
// constructed elements and into OCTET STRING / BIT STRING bodies that are
// themselves well-formed DER.  Bytes that do not parse stay primitive.
func ParseTree(b []byte) []*Node {
	return parseList(b, 0)
}

func parseList(b []byte, depth int) []*Node {
	var out []*Node
	for len(b) > 0 {
		t, rest, err := der.Parse(b)
		if err != nil {
			return nil
		}
		out = append(out, fromTLV(t, depth))
		b = rest
	}
	return out
}

func fromTLV(t der.TLV, depth int) *Node {
	n := &Node{Class: t.Class, Constructed: t.Constructed, Tag: t.Tag}
	if depth < 24 {
		if t.Constructed {
			if kids := parseList(t.Body, depth+1); kids != nil || len(t.Body) == 0 {
				n.Children = kids
				return n
			}
			// constructed bit set but the content is not a TLV list: opaque body
			n.Body = append([]byte{}, t.Body...)
			return n
		}
		if t.Class == 0 && t.Tag == 4 && len(t.Body) >= 2 {
			if kids := parseList(t.Body, depth+1); kids != nil && plausible(kids) {
				n.Encap = EncapOctets
				n.Children = kids
				return n
			}
		}
		if t.Class == 0 && t.Tag == 3 && len(t.Body) >= 3 && t.Body[0] == 0 {
			if kids := parseList(t.Body[1:], depth+1); kids != nil && plausible(kids) {
				n.Encap = EncapBits
				n.Children = kids
				return n
			}
		}
	}
	n.Body = append([]byte(nil), t.Body...)
	return n
}

// plausible avoids treating random octets (key ids, hashes) as encapsulated DER:
// the candidate must be a single universal SEQUENCE/SET/primitive of a known type.
func plausible(kids []*Node) bool {
	if len(kids) != 1 {
		return false
	}
	k := kids[0]
	if k.Class != 0 {
		return k.Class == 2 && k.Constructed
	}
	switch k.Tag {
	case 1, 2, 3, 4, 5, 6, 10, 12, 16, 17, 19, 22, 23, 24, 30:
		return true
	}
	return false
}

// Flatten lists every node of the trees in pre-order, with its parent (nil for roots).
type Ref struct {
	N      *Node
	Parent *Node
	Index  int // index in Parent.Children (or in the root list)
	Depth  int
}

func Flatten(roots []*Node) []Ref {
	var out []Ref
	var walk func(n, p *Node, idx, depth int)
	walk = func(n, p *Node, idx, depth int) {
		out = append(out, Ref{n, p, idx, depth})
		if n.hasKids() {
			for i, k := range n.Children {
				walk(k, n, i, depth+1)
			}
		}
	}
	for i, r := range roots {
		walk(r, nil, i, 0)
	}
	return out
}

// EncodeAll concatenates the encodings of the roots.
func EncodeAll(roots []*Node) []byte {
	var out []byte
	for _, r := range roots {
		out = r.encode(out)
	}
	return out
}

// ---------------------------------------------------------------------------
// hostile value pools

func bigBytes(n int, fill byte) []byte {
	b := make([]byte, n)
	for i := range b {
		b[i] = fill
	}
	return b
}

// IntBodies are INTEGER / ENUMERATED content octets (valid, boundary, non-minimal, empty, huge).
var IntBodies = [][]byte{
	{0}, {1}, {2}, {3}, {0x7f}, {0x80}, {0xff}, {0x00, 0x80}, {0x00, 0xff}, {0xff, 0x7f},
	{0x01, 0x00, 0x01}, {0xfe, 0xff, 0xff}, // 65537, -65537
	{0x7f, 0xff, 0xff, 0xff}, {0x00, 0x80, 0x00, 0x00, 0x00}, {0x80, 0x00, 0x00, 0x00}, {0xff, 0x7f, 0xff, 0xff, 0xff},
	{0x7f, 0xff, 0xff, 0xff, 0xff, 0xff, 0xff, 0xff}, {0x80, 0, 0, 0, 0, 0, 0, 0}, {0x00, 0x80, 0, 0, 0, 0, 0, 0, 0}, {0x00, 0xff, 0xff, 0xff, 0xff, 0xff, 0xff, 0xff, 0xff},
	{0x01, 0, 0, 0, 0, 0, 0, 0, 0}, {0xff, 0x7f, 0xff, 0xff, 0xff, 0xff, 0xff, 0xff, 0xff},
	{}, {0x00, 0x00}, {0x00, 0x01}, {0xff, 0xff}, {0xff, 0x80}, {0x00, 0x00, 0x80}, {0x00, 0x7f},
	bigBytes(64, 0xff), bigBytes(257, 0x7f), append([]byte{0}, bigBytes(512, 0xff)...), bigBytes(1024, 0x80),
}

// OIDBodies are OBJECT IDENTIFIER content octets.
var OIDBodies = [][]byte{
	{}, {0x80, 0x01}, {0x2a, 0x80, 0x01}, {0x2a, 0x86, 0x48}, {0x2a, 0x86}, {0xff, 0xff, 0xff, 0xff, 0x7f}, {0x8f, 0xff, 0xff, 0xff, 0x7f},
	{0x87, 0xff, 0xff, 0xff, 0x7f}, {0x88, 0x80, 0x80, 0x80, 0x00}, {0x2a, 0xff, 0xff, 0xff, 0xff, 0xff, 0xff, 0xff, 0xff, 0x7f},
	{0x00}, {0x27}, {0x28}, {0x4f}, {0x50}, {0x7f}, {0x81, 0x00}, {0x88, 0x37}, {0xff, 0x7f},
	bigBytes(300, 0x01), bigBytes(300, 0x81),
}

// KnownOIDs are arcs of identifiers the x509/ocsp parsers dispatch on.
var KnownOIDs = [][]int{
	{2, 5, 29, 14}, {2, 5, 29, 15}, {2, 5, 29, 17}, {2, 5, 29, 18}, {2, 5, 29, 19}, {2, 5, 29, 30}, {2, 5, 29, 31}, {2, 5, 29, 32}, {2, 5, 29, 35}, {2, 5, 29, 37},
	{2, 5, 29, 20}, {2, 5, 29, 21}, {2, 5, 29, 28}, {2, 5, 29, 32, 0},
	{1, 3, 6, 1, 5, 5, 7, 1, 1}, {1, 3, 6, 1, 5, 5, 7, 1, 3}, {1, 3, 6, 1, 5, 5, 7, 2, 1}, {1, 3, 6, 1, 5, 5, 7, 2, 2},
	{1, 3, 6, 1, 5, 5, 7, 48, 1}, {1, 3, 6, 1, 5, 5, 7, 48, 2}, {1, 3, 6, 1, 5, 5, 7, 48, 1, 1},
	{1, 3, 6, 1, 4, 1, 11129, 2, 4, 2}, {1, 3, 6, 1, 4, 1, 11129, 2, 4, 3}, {2, 23, 140, 1, 31}, {2, 23, 140, 3, 1},
	{0, 4, 0, 1862, 1, 1}, {0, 4, 0, 1862, 1, 2}, {0, 4, 0, 1862, 1, 3}, {0, 4, 0, 1862, 1, 4}, {0, 4, 0, 1862, 1, 5}, {0, 4, 0, 1862, 1, 6}, {0, 4, 0, 1862, 1, 7},
	{0, 4, 0, 19495, 1}, {0, 4, 0, 19495, 2}, {1, 3, 6, 1, 5, 5, 7, 11, 2},
	{1, 2, 840, 113549, 1, 1, 1}, {1, 2, 840, 113549, 1, 1, 4}, {1, 2, 840, 113549, 1, 1, 5}, {1, 2, 840, 113549, 1, 1, 10}, {1, 2, 840, 113549, 1, 1, 11}, {1, 2, 840, 113549, 1, 1, 12}, {1, 2, 840, 113549, 1, 1, 13},
	{1, 2, 840, 10040, 4, 1}, {1, 2, 840, 10040, 4, 3}, {2, 16, 840, 1, 101, 3, 4, 3, 2},
	{1, 2, 840, 10045, 2, 1}, {1, 2, 840, 10045, 4, 1}, {1, 2, 840, 10045, 4, 3, 2}, {1, 2, 840, 10045, 4, 3, 3}, {1, 2, 840, 10045, 4, 3, 4},
	{1, 3, 132, 0, 33}, {1, 2, 840, 10045, 3, 1, 7}, {1, 3, 132, 0, 34}, {1, 3, 132, 0, 35},
	{1, 3, 101, 110}, {1, 3, 101, 112},
	{1, 3, 14, 3, 2, 26}, {2, 16, 840, 1, 101, 3, 4, 2, 1}, {2, 16, 840, 1, 101, 3, 4, 2, 2}, {2, 16, 840, 1, 101, 3, 4, 2, 3},
	{1, 2, 840, 113549, 1, 9, 14}, {1, 2, 840, 113549, 1, 9, 1}, {1, 2, 840, 113549, 1, 9, 7},
	{2, 5, 4, 3}, {2, 5, 4, 5}, {2, 5, 4, 6}, {2, 5, 4, 7}, {2, 5, 4, 8}, {2, 5, 4, 9}, {2, 5, 4, 10}, {2, 5, 4, 11}, {2, 5, 4, 17}, {2, 5, 4, 97},
	{0, 9, 2342, 19200300, 100, 1, 25}, {1, 3, 6, 1, 4, 1, 311, 60, 2, 1, 3},
	{1, 3, 6, 1, 5, 5, 7, 3, 1}, {1, 3, 6, 1, 5, 5, 7, 3, 2}, {2, 5, 29, 37, 0}, {1, 3, 6, 1, 5, 5, 7, 3, 9},
	{2, 23, 140, 1, 1}, {2, 23, 140, 1, 2, 1}, {2, 23, 140, 1, 2, 2}, {2, 16, 840, 1, 114412, 2, 1},
}

// TimeBodies are UTCTime / GeneralizedTime content octets, valid and not.
var TimeBodies = []string{
	"240101000000Z", "2401010000Z", "491231235959Z", "500101000000Z", "991231235959Z", "000101000000Z",
	"240101000000+0100", "2401010000-0800", "240101000000+2500", "240230000000Z", "241301000000Z", "240100000000Z", "240101240000Z", "240101006000Z", "240101000060Z",
	"20240101000000Z", "20491231235959Z", "20500101000000Z", "99991231235959Z", "00000101000000Z", "20240101000000+0100", "20240101000000.5Z", "20240101000000.000Z", "202401010000Z", "2024010100Z",
	"20240230000000Z", "20241301000000Z", "20240229000000Z", "20230229000000Z", "20240101000000", "240101000000", "", "Z", "24010100000Z", "2401010000000Z", "24-101000000Z", " 40101000000Z", "240101000000z",
	"240101000000Z\x00", "\x00\x00\x00\x00\x00\x00\x00\x00\x00\x00\x00\x00Z", "20240101000000Z0000", "240101000000+0000", "240101000000-0000", "19000101000000Z", "21060207062816Z", "30000101000000Z",
}

// StringBodies: content for the string types (the tag decides the interpretation).
var StringBodies = [][]byte{
	[]byte(""), []byte("a"), []byte("example.test"), []byte("*.example.test"), []byte("Example CA & Co"), []byte("user@example.test"), []byte("a@b"), []byte("a_b!c"),
	[]byte("http://ocsp.example.test/"), []byte("12345 67890"), []byte("12a45"), []byte("\x00"), []byte("a\x00b"), []byte("\xff\xfe"), []byte("\xc3\x28"), []byte("\xe2\x82"), []byte("\xf0\x9f\x98\x80"),
	[]byte("caf\xc3\xa9"), []byte("caf\xe9"), {0x00, 0x41}, {0x00, 0x41, 0x00}, {0xd8, 0x00}, {0xd8, 0x00, 0xdc, 0x00}, {0xdc, 0x00, 0xd8, 0x00}, {0x00, 0x41, 0x00, 0x00}, {0x00, 0x00}, {0xff, 0xff, 0xff, 0xfe},
	[]byte("Domain Control Validated"), []byte("Persona Not Validated"), []byte("StartCom Class 1"), []byte("xn--caf-dma.example.test"), []byte(".example.test"), []byte("example.test."), []byte("1.2.3.4"), []byte("[::1]"),
	bigBytes(200, 'a'), bigBytes(2000, 'b'), bigBytes(300, 0xe9),
}

// BitBodies are BIT STRING content octets.
var BitBodies = [][]byte{
	{}, {0}, {1}, {7}, {8}, {0xff}, {0, 0x80}, {7, 0x80}, {7, 0xff}, {1, 0x01}, {0, 0xff, 0xff}, {6, 0xff, 0xc0}, {6, 0xff, 0xe0}, {3, 0xa8}, {0, 0x05, 0xa0}, {1, 0x06},
	{8, 0}, {0x80, 0}, {0, 0, 0, 0, 0}, append([]byte{0}, bigBytes(31, 0x11)...), append([]byte{0}, bigBytes(32, 0x11)...), append([]byte{0}, bigBytes(33, 0x11)...), append([]byte{4}, bigBytes(32, 0xf0)...),
}

// BoolBodies are BOOLEAN content octets.
var BoolBodies = [][]byte{{0}, {0xff}, {1}, {0x7f}, {}, {0, 0}, {0xff, 0xff}}

// IntValues are interesting integers for non-DER binary formats.
var IntValues = []uint64{0, 1, 2, 3, 0x7f, 0x80, 0xff, 0x100, 0x7fff, 0x8000, 0xffff, 0x10000, 0x7fffff, 0x800000, 0xffffff, 0x1000000,
	0x0c000000, 0x10000000, 0x7fffffff, 0x80000000, 0xffffffff, 0x100000000, 0x7fffffffffffffff, 0x8000000000000000, 0xffffffffffffffff}

// BigInts returns interesting big integers (RSA/DSA parameters).
func BigInts() []*big.Int {
	p := func(s string) *big.Int { v, _ := new(big.Int).SetString(s, 0); return v }
	two := big.NewInt(2)
	out := []*big.Int{big.NewInt(0), big.NewInt(1), big.NewInt(-1), big.NewInt(2), big.NewInt(3), big.NewInt(4), big.NewInt(65537), big.NewInt(-65537), big.NewInt(-3),
		p("0x7fffffff"), p("0x80000000"), p("0x100000001"), p("0xffffffffffffffff"), p("-0x8000000000000000")}
	for _, bits := range []uint{512, 1024, 2048, 4096} {
		v := new(big.Int).Lsh(big.NewInt(1), bits)
		out = append(out, new(big.Int).Sub(v, big.NewInt(1)), new(big.Int).Set(v), new(big.Int).Neg(v), new(big.Int).Add(v, big.NewInt(1)))
	}
	_ = two
	return out
}

// ---------------------------------------------------------------------------
// generators (all randomness through rapid)

func pick[T any](t *rapid.T, label string, xs []T) T {
	return xs[rapid.IntRange(0, len(xs)-1).Draw(t, label)]
}

// Bytes draws a short random byte string.
func Bytes(t *rapid.T, label string, max int) []byte {
	return rapid.SliceOfN(rapid.Byte(), 0, max).Draw(t, label)
}

func oidBody(arcs []int) []byte {
	e := der.OID(arcs...)
	t, _, _ := der.Parse(e)
	return append([]byte(nil), t.Body...)
}

// PrimitiveBody draws a content string for universal tag tag: mostly from the
// type's hostile pool, sometimes random bytes.
func PrimitiveBody(t *rapid.T, tag int) []byte {
	if rapid.IntRange(0, 9).Draw(t, "rawbody") == 0 {
		return Bytes(t, "body", 24)
	}
	switch tag {
	case 1:
		return pick(t, "bool", BoolBodies)
	case 2, 10:
		return pick(t, "int", IntBodies)
	case 3:
		return pick(t, "bits", BitBodies)
	case 5:
		if rapid.IntRange(0, 3).Draw(t, "null") == 0 {
			return []byte{0}
		}
		return nil
	case 6:
		if rapid.IntRange(0, 2).Draw(t, "oidk") > 0 {
			return oidBody(pick(t, "oid", KnownOIDs))
		}
		return pick(t, "oidb", OIDBodies)
	case 23, 24:
		return []byte(pick(t, "time", TimeBodies))
	case 12, 18, 19, 20, 22, 26, 27, 30, 28:
		return pick(t, "str", StringBodies)
	case 4:
		switch rapid.IntRange(0, 3).Draw(t, "oct") {
		case 0:
			return Bytes(t, "octets", 40)
		case 1:
			return pick(t, "octl", [][]byte{{}, bigBytes(4, 1), bigBytes(5, 1), bigBytes(8, 2), bigBytes(16, 3), bigBytes(17, 3), bigBytes(20, 4), bigBytes(32, 5), bigBytes(64, 6)})
		default:
			return GenNode(t, 2).Encode()
		}
	}
	return Bytes(t, "body", 24)
}

var univTags = []int{1, 2, 2, 3, 4, 4, 5, 6, 6, 10, 12, 19, 22, 23, 24, 30, 20, 18, 26, 27, 0, 7, 9, 13, 14, 15, 21, 25, 28, 29}

// LenModeDraw picks a length mode: mostly minimal.
func LenModeDraw(t *rapid.T) (int, int) {
	switch rapid.IntRange(0, 19).Draw(t, "lenmode") {
	case 0:
		return LenLongPadded, rapid.IntRange(0, 2).Draw(t, "pad")
	case 1:
		return LenLongShort, 0
	case 2:
		return LenIndefinite, 0
	case 3:
		return LenLie, pick(t, "lie", []int{-1, 1, -2, 2, 3, 127, 128, 255, 65535, -1000})
	case 4:
		return LenHuge, rapid.IntRange(0, len(hugeLens)-1).Draw(t, "huge")
	}
	return LenMinimal, 0
}

// GenNode draws a random TLV tree of at most the given depth.
func GenNode(t *rapid.T, depth int) *Node {
	n := &Node{}
	switch rapid.IntRange(0, 9).Draw(t, "class") {
	case 0, 1:
		n.Class = 2
		n.Tag = rapid.IntRange(0, 9).Draw(t, "ctag")
	case 2:
		n.Class = rapid.IntRange(1, 3).Draw(t, "cls")
		n.Tag = pick(t, "xtag", []int{0, 1, 2, 5, 16, 30, 31, 32, 127, 128, 16383, 1 << 21, 1<<31 - 1})
	default:
		n.Class = 0
	}
	cons := depth > 0 && rapid.IntRange(0, 2).Draw(t, "cons") == 0
	if n.Class == 0 {
		if cons {
			n.Tag = pick(t, "seqset", []int{16, 16, 16, 17, 4, 3, 12})
		} else {
			n.Tag = pick(t, "utag", univTags)
		}
	}
	n.LenMode, n.LenArg = LenModeDraw(t)
	if rapid.IntRange(0, 39).Draw(t, "hightag") == 0 {
		n.HighTag = true
	}
	if cons {
		n.Constructed = true
		k := rapid.IntRange(0, 4).Draw(t, "nkids")
		for i := 0; i < k; i++ {
			n.Children = append(n.Children, GenNode(t, depth-1))
		}
		return n
	}
	tag := n.Tag
	if n.Class != 0 {
		tag = pick(t, "implicit", []int{1, 2, 3, 4, 6, 12, 22, 23, 24})
	}
	n.Body = PrimitiveBody(t, tag)
	if n.Body == nil {
		n.Body = []byte{}
	}
	if rapid.IntRange(0, 29).Draw(t, "consbit") == 0 {
		n.Constructed = true // constructed bit on opaque content
	}
	return n
}

// ---------------------------------------------------------------------------
// TLV-level mutation

// MutOps is the number of tree mutation operators.
const MutOps = 17

// MutateTree applies k random structure-level mutations to the trees (in
// place) and returns them together with the names of the operators used.
// donors supplies subtrees for splicing (may be nil).
func MutateTree(t *rapid.T, roots []*Node, donors []*Node, k int) ([]*Node, []string) {
	var ops []string
	for i := 0; i < k; i++ {
		refs := Flatten(roots)
		if len(refs) == 0 {
			roots = []*Node{GenNode(t, 2)}
			ops = append(ops, "regen")
			continue
		}
		// bias towards deeper nodes: they are the many leaves anyway
		r := refs[rapid.IntRange(0, len(refs)-1).Draw(t, "node")]
		n := r.N
		setKids := func(kids []*Node) {
			if r.Parent == nil {
				roots = kids
			} else {
				r.Parent.Children = kids
			}
		}
		sibs := roots
		if r.Parent != nil {
			sibs = r.Parent.Children
		}
		op := rapid.IntRange(0, MutOps-1).Draw(t, "op")
		switch op {
		case 0: // hostile / typed body
			tag := n.Tag
			if n.Class != 0 {
				tag = pick(t, "as", []int{1, 2, 3, 4, 6, 12, 22, 23, 24})
			}
			n.Children, n.Encap = nil, EncapNone
			if n.Constructed && rapid.IntRange(0, 1).Draw(t, "keepcons") == 0 {
				n.Constructed = false
			}
			n.Body = PrimitiveBody(t, tag)
			ops = append(ops, "body")
		case 1: // flip a byte of a primitive body
			if !n.hasKids() && len(n.Body) > 0 {
				j := rapid.IntRange(0, len(n.Body)-1).Draw(t, "pos")
				n.Body[j] ^= pick(t, "mask", []byte{1, 0x80, 0xff, 0x40, 0x20, 0x7f})
				ops = append(ops, "flip")
			} else {
				n.LenMode, n.LenArg = LenModeDraw(t)
				ops = append(ops, "len")
			}
		case 2: // truncate / extend body
			if !n.hasKids() {
				if len(n.Body) > 0 && rapid.IntRange(0, 1).Draw(t, "trunc") == 0 {
					n.Body = n.Body[:rapid.IntRange(0, len(n.Body)-1).Draw(t, "to")]
				} else {
					n.Body = append(n.Body, Bytes(t, "ext", 8)...)
				}
				ops = append(ops, "resize")
			} else if len(n.Children) > 0 {
				n.Children = n.Children[:rapid.IntRange(0, len(n.Children)-1).Draw(t, "to")]
				ops = append(ops, "dropkids")
			}
		case 3: // delete
			setKids(append(append([]*Node{}, sibs[:r.Index]...), sibs[r.Index+1:]...))
			ops = append(ops, "delete")
		case 4: // duplicate
			c := n.Clone()
			ns := append(append([]*Node{}, sibs[:r.Index+1]...), c)
			setKids(append(ns, sibs[r.Index+1:]...))
			ops = append(ops, "dup")
		case 5: // swap with a sibling
			if len(sibs) > 1 {
				j := rapid.IntRange(0, len(sibs)-1).Draw(t, "sib")
				sibs[r.Index], sibs[j] = sibs[j], sibs[r.Index]
				ops = append(ops, "swap")
			}
		case 6: // replace by a donor subtree or a generated one
			var d *Node
			if len(donors) > 0 && rapid.IntRange(0, 2).Draw(t, "donor") > 0 {
				dr := Flatten(donors)
				d = dr[rapid.IntRange(0, len(dr)-1).Draw(t, "dnode")].N.Clone()
			} else {
				d = GenNode(t, 2)
			}
			sibs[r.Index] = d
			ops = append(ops, "splice")
		case 7: // change identifier
			switch rapid.IntRange(0, 3).Draw(t, "idk") {
			case 0:
				n.Tag = pick(t, "tag", []int{0, 1, 2, 3, 4, 5, 6, 7, 8, 10, 12, 16, 17, 19, 22, 23, 24, 30, 31, 127})
			case 1:
				n.Class = rapid.IntRange(0, 3).Draw(t, "cls")
			case 2:
				if n.hasKids() && n.Encap == EncapNone {
					// constructed -> primitive with the same content
					var b []byte
					for _, k := range n.Children {
						b = k.encode(b)
					}
					n.Body, n.Children, n.Constructed = b, nil, false
				} else if !n.hasKids() {
					n.Constructed = true
					n.Children = parseList(n.Body, 20)
				}
			default:
				n.HighTag = !n.HighTag
			}
			ops = append(ops, "ident")
		case 8, 9: // length encoding
			n.LenMode, n.LenArg = LenModeDraw(t)
			if n.LenMode == LenMinimal {
				n.LenMode, n.LenArg = LenLie, pick(t, "lie", []int{-1, 1})
			}
			ops = append(ops, "len")
		case 10: // wrap in an explicit tag / sequence / octet string
			w := &Node{Constructed: true, Children: []*Node{n}}
			switch rapid.IntRange(0, 2).Draw(t, "wrap") {
			case 0:
				w.Class, w.Tag = 2, rapid.IntRange(0, 4).Draw(t, "wtag")
			case 1:
				w.Class, w.Tag = 0, 16
			default:
				w.Class, w.Tag, w.Constructed, w.Encap = 0, 4, false, EncapOctets
			}
			sibs[r.Index] = w
			ops = append(ops, "wrap")
		case 11: // unwrap: replace by its children
			if n.hasKids() && len(n.Children) > 0 {
				ns := append(append([]*Node{}, sibs[:r.Index]...), n.Children...)
				setKids(append(ns, sibs[r.Index+1:]...))
				ops = append(ops, "unwrap")
			}
		case 12: // insert a generated / donor child or sibling
			var d *Node
			if len(donors) > 0 && rapid.IntRange(0, 1).Draw(t, "donor") == 0 {
				dr := Flatten(donors)
				d = dr[rapid.IntRange(0, len(dr)-1).Draw(t, "dnode")].N.Clone()
			} else {
				d = GenNode(t, 1)
			}
			if n.hasKids() {
				j := rapid.IntRange(0, len(n.Children)).Draw(t, "at")
				ns := append(append([]*Node{}, n.Children[:j]...), d)
				n.Children = append(ns, n.Children[j:]...)
			} else {
				ns := append(append([]*Node{}, sibs[:r.Index+1]...), d)
				setKids(append(ns, sibs[r.Index+1:]...))
			}
			ops = append(ops, "insert")
		case 13: // empty it
			n.Body, n.Children = nil, nil
			ops = append(ops, "empty")
		case 14: // many copies (size / quadratic behaviour)
			cnt := pick(t, "copies", []int{3, 16, 64, 200})
			ns := append([]*Node{}, sibs[:r.Index]...)
			if len(n.Encode()) > 64 && cnt > 16 {
				cnt = 16
			}
			for j := 0; j < cnt; j++ {
				ns = append(ns, n.Clone())
			}
			setKids(append(ns, sibs[r.Index+1:]...))
			ops = append(ops, "many")
		case 16: // hollow: no content at all but a declared length (e.g. an explicit tag that promises a child the parent does not have)
			n.Body, n.Children, n.Encap = nil, nil, EncapNone
			if n.Class == 2 && rapid.IntRange(0, 2).Draw(t, "hcons") > 0 {
				n.Constructed = true
			}
			n.LenMode, n.LenArg = LenLie, pick(t, "hollow", []int{1, 1, 2, 3, 6, 127})
			ops = append(ops, "hollow")
		case 15: // replace an integer-looking body by a big-int constant
			bi := BigInts()
			v := bi[rapid.IntRange(0, len(bi)-1).Draw(t, "bigint")]
			e, _, _ := der.Parse(der.Int(v))
			n.Children, n.Encap, n.Constructed = nil, EncapNone, false
			n.Body = append([]byte(nil), e.Body...)
			ops = append(ops, "bigint")
		}
	}
	return roots, ops
}

// MutateBytes applies k byte-level mutations (for framing damage and for the
// non-ASN.1 formats).
func MutateBytes(t *rapid.T, in []byte, k int) ([]byte, []string) {
	b := append([]byte(nil), in...)
	var ops []string
	for i := 0; i < k; i++ {
		if len(b) == 0 {
			b = Bytes(t, "fresh", 16)
			ops = append(ops, "fresh")
			continue
		}
		pos := rapid.IntRange(0, len(b)-1).Draw(t, "pos")
		switch rapid.IntRange(0, 9).Draw(t, "bop") {
		case 0:
			b[pos] ^= 1 << uint(rapid.IntRange(0, 7).Draw(t, "bit"))
			ops = append(ops, "bit")
		case 1:
			b[pos] = pick(t, "val", []byte{0, 1, 0x7f, 0x80, 0xff, 0x30, 0x20, 0xfe})
			ops = append(ops, "set")
		case 2:
			b = b[:pos]
			ops = append(ops, "trunc")
		case 3:
			ins := Bytes(t, "ins", 6)
			b = append(append(append([]byte{}, b[:pos]...), ins...), b[pos:]...)
			ops = append(ops, "ins")
		case 4:
			n := rapid.IntRange(1, 8).Draw(t, "n")
			if pos+n > len(b) {
				n = len(b) - pos
			}
			b = append(append([]byte{}, b[:pos]...), b[pos+n:]...)
			ops = append(ops, "del")
		case 5, 6: // overwrite a 1..4(8)-byte big/little-endian integer with an interesting value
			w := pick(t, "w", []int{1, 2, 3, 4, 4, 8})
			if pos+w > len(b) {
				pos = len(b) - w
				if pos < 0 {
					pos, w = 0, len(b)
				}
			}
			var v uint64
			switch rapid.IntRange(0, 3).Draw(t, "vk") {
			case 0:
				v = pick(t, "iv", IntValues)
			case 1:
				v = uint64(len(b) - pos - w + rapid.IntRange(-2, 2).Draw(t, "d"))
			case 2:
				cur := uint64(0)
				for j := 0; j < w; j++ {
					cur = cur<<8 | uint64(b[pos+j])
				}
				v = cur + uint64(int64(pick(t, "delta", []int{-1, 1, -2, 2, 256, -256})))
			default:
				v = rapid.Uint64().Draw(t, "rv")
			}
			le := rapid.Bool().Draw(t, "le")
			for j := 0; j < w; j++ {
				sh := uint(8 * (w - 1 - j))
				if le {
					sh = uint(8 * j)
				}
				b[pos+j] = byte(v >> sh)
			}
			ops = append(ops, "int")
		case 7: // duplicate a range
			n := rapid.IntRange(1, 32).Draw(t, "n")
			if pos+n > len(b) {
				n = len(b) - pos
			}
			seg := append([]byte{}, b[pos:pos+n]...)
			b = append(append(append([]byte{}, b[:pos+n]...), seg...), b[pos+n:]...)
			ops = append(ops, "duprange")
		case 8: // overwrite a range with random bytes
			r := Bytes(t, "rnd", 8)
			copy(b[pos:], r)
			ops = append(ops, "rnd")
		case 9: // append
			b = append(b, Bytes(t, "tail", 8)...)
			ops = append(ops, "tail")
		}
	}
	return b, ops
}

// ---------------------------------------------------------------------------
// JSON value-level mutation (OneCRL, CRLSet header)

// JSONHostile are replacement values for a JSON node.
var JSONHostile = []string{`null`, `{}`, `[]`, `0`, `-1`, `1e99`, `""`, `"x"`, `true`, `[null]`, `{"a":null}`, `4294967296`, `"AAAA"`, `"!!"`, `1.5`}

// MutateJSON parses data as JSON, replaces / deletes / duplicates k randomly
// chosen values and re-encodes (object keys in sorted order).  ok is false when
// data is not JSON.
func MutateJSON(t *rapid.T, data []byte, k int) (out []byte, ok bool) {
	var doc any
	if err := json.Unmarshal(data, &doc); err != nil {
		return nil, false
	}
	for i := 0; i < k; i++ {
		// enumerate the value slots deterministically
		type slot struct {
			set func(v any)
			del func()
			get any
		}
		var slots []slot
		var walk func(v any, set func(any), del func())
		walk = func(v any, set func(any), del func()) {
			slots = append(slots, slot{set, del, v})
			switch x := v.(type) {
			case map[string]any:
				keys := make([]string, 0, len(x))
				for k := range x {
					keys = append(keys, k)
				}
				sort.Strings(keys)
				for _, k := range keys {
					k := k
					walk(x[k], func(n any) { x[k] = n }, func() { delete(x, k) })
				}
			case []any:
				for j := range x {
					j := j
					walk(x[j], func(n any) { x[j] = n }, nil)
				}
			}
		}
		walk(doc, func(n any) { doc = n }, nil)
		s := slots[rapid.IntRange(0, len(slots)-1).Draw(t, "jslot")]
		switch rapid.IntRange(0, 5).Draw(t, "jop") {
		case 0:
			if s.del != nil {
				s.del()
				continue
			}
			fallthrough
		case 1, 2, 3:
			var nv any
			json.Unmarshal([]byte(pick(t, "jval", JSONHostile)), &nv)
			s.set(nv)
		case 4:
			if arr, isArr := s.get.([]any); isArr && len(arr) > 0 {
				s.set(append(append([]any{}, arr...), arr[0], nil))
			} else {
				s.set([]any{s.get})
			}
		default:
			if str, isStr := s.get.(string); isStr && len(str) > 0 {
				j := rapid.IntRange(0, len(str)-1).Draw(t, "jcut")
				s.set(str[:j] + pick(t, "jins", []string{"", "=", "A", "é", "\x00"}) + str[j:])
			} else {
				s.set(nil)
			}
		}
	}
	b, err := json.Marshal(doc)
	if err != nil {
		return nil, false
	}
	return b, true
}

// ---------------------------------------------------------------------------
// mode-sensitive mutation (C20)

// MutatePermissive re-encodes k randomly chosen nodes in a way that only
// zcrypto's permissive mode tolerates, leaving the value the same where
// possible: a long-form length for a short content, a non-minimally encoded
// INTEGER, a time that does not survive re-formatting, a string with a
// character outside its type's alphabet.
func MutatePermissive(t *rapid.T, roots []*Node, k int) ([]*Node, []string) {
	var ops []string
	for i := 0; i < k; i++ {
		refs := Flatten(roots)
		if len(refs) == 0 {
			return roots, ops
		}
		n := refs[rapid.IntRange(0, len(refs)-1).Draw(t, "pnode")].N
		kind := rapid.IntRange(0, 3).Draw(t, "pkind")
		switch {
		case n.Class == 0 && !n.hasKids() && (n.Tag == 2 || n.Tag == 10) && len(n.Body) > 0 && kind != 0:
			pad := byte(0)
			if n.Body[0]&0x80 != 0 {
				pad = 0xff
			}
			n.Body = append([]byte{pad}, n.Body...)
			ops = append(ops, "nonminimal-int")
		case n.Class == 0 && !n.hasKids() && (n.Tag == 23 || n.Tag == 24) && kind != 0:
			n.Body = []byte(pick(t, "ptime", []string{"240230000000Z", "20240230000000Z", "230229120000Z", "20230431000000Z"}))
			if (n.Tag == 24) != (len(n.Body) == 15) {
				if n.Tag == 24 {
					n.Body = []byte("20240230000000Z")
				} else {
					n.Body = []byte("240230000000Z")
				}
			}
			ops = append(ops, "odd-time")
		case n.Class == 0 && !n.hasKids() && (n.Tag == 19 || n.Tag == 22 || n.Tag == 18 || n.Tag == 12) && kind != 0:
			bad := map[int][]byte{19: []byte("a_b@c"), 22: []byte("caf\xe9"), 18: []byte("12a"), 12: []byte("caf\xe9")}[n.Tag]
			n.Body = bad
			ops = append(ops, "odd-string")
		default:
			n.LenMode, n.LenArg = LenLongShort, 0
			ops = append(ops, "long-form-length")
		}
	}
	return roots, ops
}
