package c04

import (
	"bytes"
	"crypto/rand"
	"fmt"
	"testing"

	"github.com/zmap/zcrypto/x509"
	"pgregory.net/rapid"
	"verifharness/certgen"
	"verifharness/keys"
	"verifharness/kit"
)

// Case: one certificate issuance.
//
//	Mode 0: self-signed (parent == template, signer == subject key)
//	Mode 1: issued by a parsed parent certificate (created from Parent, self-signed with ParentKey)
//	Mode 2: issued by an un-parsed parent template (Parent.X509()), signer ParentKey
type Case struct {
	T          certgen.Cert `json:"t"`
	SubjectKey int          `json:"subject_key"`
	Mode       int          `json:"mode"`
	Parent     certgen.Cert `json:"parent"`
	ParentKey  int          `json:"parent_key"`
}

const rule = "templates over serial (0..2^159, boundary values), subject names (C22 generator), validity (UTCTime/GeneralizedTime boundaries 1950/2050, years 1..9999, non-UTC zones, sub-second parts), all 9 key-usage bits, every ExtKeyUsage constant and unknown EKU OIDs, BasicConstraints x IsCA x MaxPathLen {-1,0,0+Zero,n} , SKI/AKI, DNS/email/IP SANs (IPv4 in 4- and 16-byte form, IPv6), OCSP/issuer URLs, CRL DPs, policy OIDs, name constraints (DNS, email, directory names, IP ranges), unknown and overriding ExtraExtensions; subject key and signer key from the pool (RSA 512..4096 incl. multi-prime, ECDSA P-224..P-521, Ed25519), requested SignatureAlgorithm 0 / compatible / arbitrary; self-signed, issued by a parsed parent, issued by an un-parsed parent template. Non-trivial: template with >= 3 optional features, or a non-default signature algorithm, or a non-RSA-2048 key; distinct by case hash"

func eqStrs(a, b []string) bool {
	if len(a) != len(b) {
		return false
	}
	for i := range a {
		if a[i] != b[i] {
			return false
		}
	}
	return true
}

func normPathLen(valid bool, mpl int, zero bool) int {
	if !valid {
		return -1
	}
	if mpl > 0 {
		return mpl
	}
	if mpl == 0 && zero {
		return 0
	}
	return -1
}

const keyEKU = "C04:eku-constant-not-encodable"

func check(c Case, r *kit.R) {
	subj := keys.Get(c.SubjectKey)
	signer := subj
	if c.Mode != 0 {
		signer = keys.Get(c.ParentKey)
	}
	spec := c.T

	// known finding: ExtKeyUsage constants outside the 12 "native" ones make CreateCertificate panic
	nonNative := false
	for _, e := range spec.EKU {
		if !certgen.IsNativeEKU(e) {
			nonNative = true
		}
	}
	overridesEKU := false
	for _, e := range spec.Extras {
		if e.Exp != nil && e.Exp.Kind == "eku" {
			overridesEKU = true
		}
	}
	if nonNative && !overridesEKU {
		probe := spec
		probe.SigAlg = 0
		tmpl := probe.X509()
		var err error
		g := kit.GuardInline(func() { _, err = x509.CreateCertificate(rand.Reader, tmpl, tmpl, subj.ZPub, subj.ZPriv) })
		if g.Panicked || err != nil {
			if !r.Known(keyEKU) {
				r.Failf(keyEKU, "CreateCertificate with template.ExtKeyUsage=%v (a declared ExtKeyUsage constant): panicked=%v (%v) err=%v", spec.EKU, g.Panicked, g.PanicVal, err)
			}
			// continue behind the known finding with the encodable subset
			var keep []int
			for _, e := range spec.EKU {
				if certgen.IsNativeEKU(e) {
					keep = append(keep, e)
				}
			}
			spec.EKU = keep
			r.Class("known:eku-constant")
		}
	}

	tmpl := spec.X509()
	var parent, verifyParent *x509.Certificate
	issuerName := spec.Subject
	switch c.Mode {
	case 0:
		parent = tmpl
	case 1, 2:
		pk := keys.Get(c.ParentKey)
		pt := c.Parent.X509()
		pder, err := x509.CreateCertificate(rand.Reader, pt, pt, pk.ZPub, pk.ZPriv)
		if err != nil {
			r.Failf("C04:parent-create", "creating the (simple, default-algorithm) parent certificate failed: %v", err)
		}
		pp, err := x509.ParseCertificate(pder)
		if err != nil {
			r.Failf("C04:parent-parse", "parsing the parent certificate failed: %v", err)
		}
		verifyParent = pp
		issuerName = c.Parent.Subject
		if c.Mode == 1 {
			parent = pp
		} else {
			parent = c.Parent.X509()
		}
	}

	alg := x509.SignatureAlgorithm(spec.SigAlg)
	compat := certgen.SigCompat(signer, alg)
	var der []byte
	var err error
	g := kit.GuardInline(func() { der, err = x509.CreateCertificate(rand.Reader, tmpl, parent, subj.ZPub, signer.ZPriv) })
	r.Must(g, "CreateCertificate")
	if !compat {
		r.Class("incompatible-key/algorithm")
		if err == nil {
			// outside the documented domain; whatever was produced must at least not verify as something else
			r.Class("incompatible-but-created")
		}
		return
	}
	if err != nil {
		r.Failf("C04:create-error", "CreateCertificate failed for a template in the documented domain (key %s, alg %v): %v\n%s", signer.Name, alg, err, spec.Describe())
	}
	cert, err := x509.ParseCertificate(der)
	if err != nil {
		r.Failf("C04:parse-error", "ParseCertificate rejects the created certificate: %v\n%s\nder=%x", err, spec.Describe(), der)
	}
	// the same template (and parent) object used once more: issuance must not have consumed or
	// altered it, so the second certificate has the same to-be-signed bytes (nothing in a TBS is
	// random) and round-trips exactly as the first one does
	{
		var der2 []byte
		var err2 error
		g2 := kit.GuardInline(func() { der2, err2 = x509.CreateCertificate(rand.Reader, tmpl, parent, subj.ZPub, signer.ZPriv) })
		r.Must(g2, "CreateCertificate (second use of the template)")
		if err2 != nil {
			r.Failf("C04:template-reuse", "the second CreateCertificate with the same template fails: %v\n%s", err2, spec.Describe())
		}
		cert2, perr := x509.ParseCertificate(der2)
		if perr != nil {
			r.Failf("C04:template-reuse", "the certificate of the second CreateCertificate with the same template does not parse: %v\nder=%x", perr, der2)
		}
		if !bytes.Equal(cert2.RawTBSCertificate, cert.RawTBSCertificate) {
			r.Failf("C04:template-reuse", "two CreateCertificate calls with the same template give different to-be-signed bytes (the first call altered its template or parent)\n%s\nfirst=%x\nsecond=%x", spec.Describe(), cert.RawTBSCertificate, cert2.RawTBSCertificate)
		}
	}

	// --- effective expectations (ExtraExtensions override generated extensions)
	ku := spec.KeyUsage
	bcValid, isCA, pathLen := spec.BCValid, spec.BCValid && spec.IsCA, normPathLen(spec.BCValid, spec.MaxPathLen, spec.MaxPathLenZero)
	ski, aki := spec.SKI, spec.AKI
	dns, emails, ips := spec.DNS, spec.Email, spec.IPs
	eku, ueku := spec.EKU, spec.UnknownEKU
	for _, e := range spec.Extras {
		if e.Exp == nil {
			continue
		}
		r.Class("override:" + e.Exp.Kind)
		switch e.Exp.Kind {
		case "ku":
			ku = e.Exp.KU
		case "bc":
			bcValid, isCA, pathLen = true, e.Exp.IsCA, e.Exp.PathLen
		case "ski":
			ski = e.Exp.ID
		case "aki":
			aki = e.Exp.ID
		case "san":
			dns, emails, ips = e.Exp.DNS, nil, nil
		case "eku":
			eku, ueku = e.Exp.EKU, nil
		}
	}

	fail := func(key, f string, a ...any) {
		r.Failf("C04:"+key, f+"\ntemplate: %s\nder=%x", append(a, spec.Describe(), der)...)
	}
	if cert.SerialNumber == nil || cert.SerialNumber.Cmp(spec.SerialInt()) != 0 {
		fail("serial", "serial: want %s got %v", spec.Serial, cert.SerialNumber)
	}
	if cert.Version != 3 {
		fail("version", "version %d, CreateCertificate documents v3", cert.Version)
	}
	if d := spec.Subject.CompareFilled(&cert.Subject); d != "" {
		fail("subject", "subject: %s", d)
	}
	if d := issuerName.CompareFilled(&cert.Issuer); d != "" {
		fail("issuer", "issuer: %s", d)
	}
	if verifyParent != nil && !bytes.Equal(cert.RawIssuer, verifyParent.RawSubject) {
		fail("raw-issuer", "RawIssuer differs from the parent's RawSubject:\n%x\n%x", cert.RawIssuer, verifyParent.RawSubject)
	}
	if cert.NotBefore.Unix() != spec.NotBefore.Unix || cert.NotAfter.Unix() != spec.NotAfter.Unix {
		fail("validity", "validity: want %d..%d (%s .. %s) got %d..%d (%s .. %s)", spec.NotBefore.Unix, spec.NotAfter.Unix,
			spec.NotBefore.T().UTC(), spec.NotAfter.T().UTC(), cert.NotBefore.Unix(), cert.NotAfter.Unix(), cert.NotBefore, cert.NotAfter)
	}
	if cert.NotBefore.Nanosecond() != 0 || cert.NotAfter.Nanosecond() != 0 {
		fail("validity", "parsed validity carries a sub-second part")
	}
	if int(cert.KeyUsage) != ku {
		fail("key-usage", "key usage: want %#x got %#x", ku, int(cert.KeyUsage))
	}
	if len(cert.ExtKeyUsage) != len(eku) {
		fail("eku", "ext key usage: want %v got %v (unknown %v)", eku, cert.ExtKeyUsage, cert.UnknownExtKeyUsage)
	}
	for i := range eku {
		if int(cert.ExtKeyUsage[i]) != eku[i] {
			fail("eku", "ext key usage: want %v got %v", eku, cert.ExtKeyUsage)
		}
	}
	if len(cert.UnknownExtKeyUsage) != len(ueku) {
		fail("unknown-eku", "unknown ext key usage: want %v got %v", ueku, cert.UnknownExtKeyUsage)
	}
	for i := range ueku {
		if cert.UnknownExtKeyUsage[i].String() != certgen.OIDKey(ueku[i]) {
			fail("unknown-eku", "unknown ext key usage: want %v got %v", ueku, cert.UnknownExtKeyUsage)
		}
	}
	if cert.BasicConstraintsValid != bcValid || cert.IsCA != isCA {
		fail("basic-constraints", "basic constraints: want valid=%v ca=%v got valid=%v ca=%v", bcValid, isCA, cert.BasicConstraintsValid, cert.IsCA)
	}
	gotPL := normPathLen(cert.BasicConstraintsValid, cert.MaxPathLen, cert.MaxPathLenZero)
	if gotPL != pathLen || (bcValid && cert.MaxPathLenZero != (pathLen == 0)) || (pathLen == -1 && cert.BasicConstraintsValid && cert.MaxPathLen > 0) {
		fail("max-path-len", "path length: want %d got MaxPathLen=%d MaxPathLenZero=%v", pathLen, cert.MaxPathLen, cert.MaxPathLenZero)
	}
	if !bytes.Equal(cert.SubjectKeyId, ski) {
		fail("ski", "subject key id: want %x got %x", ski, cert.SubjectKeyId)
	}
	if !bytes.Equal(cert.AuthorityKeyId, aki) {
		fail("aki", "authority key id: want %x (the template's) got %x", aki, cert.AuthorityKeyId)
	}
	if !eqStrs(cert.DNSNames, dns) {
		fail("san-dns", "DNS names: want %q got %q", dns, cert.DNSNames)
	}
	if !eqStrs(cert.EmailAddresses, emails) {
		fail("san-email", "email addresses: want %q got %q", emails, cert.EmailAddresses)
	}
	if len(cert.IPAddresses) != len(ips) {
		fail("san-ip", "IP addresses: want %v got %v", ips, cert.IPAddresses)
	}
	for i := range ips {
		if !bytes.Equal(cert.IPAddresses[i], certgen.NormIP(ips[i])) {
			fail("san-ip", "IP address %d: want %x got %x", i, certgen.NormIP(ips[i]), []byte(cert.IPAddresses[i]))
		}
	}
	if !eqStrs(cert.OCSPServer, spec.OCSP) || !eqStrs(cert.IssuingCertificateURL, spec.IssuerURL) {
		fail("aia", "AIA: want ocsp=%q issuers=%q got %q %q", spec.OCSP, spec.IssuerURL, cert.OCSPServer, cert.IssuingCertificateURL)
	}
	if !eqStrs(cert.CRLDistributionPoints, spec.CRLDP) {
		fail("crl-dp", "CRL distribution points: want %q got %q", spec.CRLDP, cert.CRLDistributionPoints)
	}
	if len(cert.PolicyIdentifiers) != len(spec.Policies) {
		fail("policies", "policies: want %v got %v", spec.Policies, cert.PolicyIdentifiers)
	}
	for i := range spec.Policies {
		if cert.PolicyIdentifiers[i].String() != certgen.OIDKey(spec.Policies[i]) {
			fail("policies", "policies: want %v got %v", spec.Policies, cert.PolicyIdentifiers)
		}
	}
	// name constraints
	gss := func(l []x509.GeneralSubtreeString) (out []string) {
		for _, s := range l {
			if s.Min != 0 || s.Max != 0 {
				out = append(out, fmt.Sprintf("%s[min=%d,max=%d]", s.Data, s.Min, s.Max))
			} else {
				out = append(out, s.Data)
			}
		}
		return
	}
	if !eqStrs(gss(cert.PermittedDNSNames), spec.PermDNS) || !eqStrs(gss(cert.ExcludedDNSNames), spec.ExclDNS) ||
		!eqStrs(gss(cert.PermittedEmailAddresses), spec.PermEmail) || !eqStrs(gss(cert.ExcludedEmailAddresses), spec.ExclEmail) {
		fail("nc-strings", "name constraints: want permDNS=%q exclDNS=%q permEmail=%q exclEmail=%q got %q %q %q %q", spec.PermDNS, spec.ExclDNS, spec.PermEmail, spec.ExclEmail,
			gss(cert.PermittedDNSNames), gss(cert.ExcludedDNSNames), gss(cert.PermittedEmailAddresses), gss(cert.ExcludedEmailAddresses))
	}
	cmpDir := func(what string, want []certgen.Name, got []x509.GeneralSubtreeName) {
		if len(want) != len(got) {
			fail("nc-dirname", "%s directory names: want %d got %d", what, len(want), len(got))
		}
		for i := range want {
			if d := want[i].CompareFilled(&got[i].Data); d != "" {
				fail("nc-dirname", "%s directory name %d: %s", what, i, d)
			}
		}
	}
	cmpDir("permitted", spec.PermDir, cert.PermittedDirectoryNames)
	cmpDir("excluded", spec.ExclDir, cert.ExcludedDirectoryNames)
	cmpIP := func(what string, want []certgen.IPNet, got []x509.GeneralSubtreeIP) {
		if len(want) != len(got) {
			fail("nc-ip", "%s IP ranges: want %d got %d", what, len(want), len(got))
		}
		for i := range want {
			if !bytes.Equal(want[i].IP, got[i].Data.IP) || !bytes.Equal(want[i].Mask, got[i].Data.Mask) {
				fail("nc-ip", "%s IP range %d: want %x/%x got %x/%x", what, i, want[i].IP, want[i].Mask, []byte(got[i].Data.IP), []byte(got[i].Data.Mask))
			}
		}
	}
	cmpIP("permitted", spec.PermIP, cert.PermittedIPAddresses)
	cmpIP("excluded", spec.ExclIP, cert.ExcludedIPAddresses)
	if spec.HasNC() && cert.NameConstraintsCritical != spec.NCCritical {
		fail("nc-critical", "NameConstraintsCritical: want %v got %v", spec.NCCritical, cert.NameConstraintsCritical)
	}
	// extra extensions: each appears verbatim; an overriding one is the only extension of its type
	used := make([]bool, len(cert.Extensions))
	for _, e := range spec.Extras {
		found := false
		for i, pe := range cert.Extensions {
			if !used[i] && pe.Id.String() == certgen.OIDKey(e.OID) && pe.Critical == e.Critical && bytes.Equal(pe.Value, e.Value) {
				used[i], found = true, true
				break
			}
		}
		if !found {
			fail("extra-extension", "extra extension %v (critical=%v, %x) not found in the parsed extensions %v", e.OID, e.Critical, e.Value, cert.Extensions)
		}
		if e.Exp != nil {
			n := 0
			for _, pe := range cert.Extensions {
				if pe.Id.String() == certgen.OIDKey(e.OID) {
					n++
				}
			}
			if n != 1 {
				fail("extra-override", "extension %v is overridden by an extra extension but appears %d times", e.OID, n)
			}
		}
	}
	// signature algorithm and signature
	wantAlg := alg
	if wantAlg == 0 {
		wantAlg = certgen.DefaultSigAlg(signer)
	}
	if cert.SignatureAlgorithm != wantAlg {
		fail("sig-alg", "signature algorithm: want %v got %v", wantAlg, cert.SignatureAlgorithm)
	}
	vp := verifyParent
	if c.Mode == 0 {
		vp = cert
	}
	if err := vp.CheckSignature(cert.SignatureAlgorithm, cert.RawTBSCertificate, cert.Signature); err != nil {
		fail("signature", "the created certificate's signature does not verify under the signer's certificate key (%s, %v): %v", signer.Name, wantAlg, err)
	}
	caCapable := vp.BasicConstraintsValid && vp.IsCA && (vp.KeyUsage == 0 || vp.KeyUsage&x509.KeyUsageCertSign != 0)
	if caCapable {
		if err := cert.CheckSignatureFrom(vp); err != nil {
			fail("check-signature-from", "CheckSignatureFrom(parent) = %v for a CA parent that signed it", err)
		}
		r.Class("verified-from-ca-parent")
	}
	if c.Mode == 0 && !cert.SelfSigned {
		fail("self-signed-flag", "self-signed certificate parsed with SelfSigned=false")
	}
	// the subject public key is the one passed in
	if !samePub(cert.PublicKey, subj) {
		fail("public-key", "parsed public key differs from the subject key %s", subj.Name)
	}

	// --- classes
	r.Class(fmt.Sprintf("mode=%d", c.Mode))
	r.Class("subject-key:" + kind(subj))
	r.Class("signer-key:" + kind(signer))
	r.Class(fmt.Sprintf("alg=%v", wantAlg))
	if alg != 0 {
		r.Class("alg-requested")
	}
	f := spec.Features()
	r.Class(fmt.Sprintf("features=%d", min(f, 8)))
	for _, p := range []struct {
		on bool
		n  string
	}{{spec.BCValid && spec.MaxPathLen == 0 && spec.MaxPathLenZero, "pathlen-zero"}, {spec.BCValid && spec.MaxPathLen == 0 && !spec.MaxPathLenZero, "pathlen-0-unset"},
		{spec.BCValid && spec.MaxPathLen > 0, "pathlen-n"}, {len(spec.IPs) > 0, "san-ip"}, {spec.HasNC(), "name-constraints"}, {len(spec.PermIP)+len(spec.ExclIP) > 0, "nc-ip"},
		{len(spec.PermDir)+len(spec.ExclDir) > 0, "nc-dirname"}, {len(spec.Extras) > 0, "extras"}, {len(spec.Policies) > 0, "policies"}, {len(spec.CRLDP) > 0, "crl-dp"},
		{len(spec.OCSP)+len(spec.IssuerURL) > 0, "aia"}, {spec.KeyUsage > 255, "ku-bit8"}, {len(spec.UnknownEKU) > 0, "unknown-eku"},
		{spec.NotBefore.Unix >= 2524608000 || spec.NotAfter.Unix >= 2524608000, "generalized-time"}, {spec.NotBefore.Unix < -631152000 || spec.NotAfter.Unix < -631152000, "before-1950"},
		{spec.NotBefore.ZoneMin != 0 || spec.NotAfter.ZoneMin != 0, "non-utc"}} {
		if p.on {
			r.Class(p.n)
		}
	}
	for _, ip := range spec.IPs {
		if len(ip) == 16 && len(certgen.NormIP(ip)) == 4 {
			r.Class("ipv4-in-16-bytes")
		}
	}
	if f >= 3 || alg != 0 || !(signer.Kind == "rsa" && signer.Bits == 2048 && signer.NPrimes == 2) {
		r.NonTrivial()
	}
}

func kind(k *keys.Key) string {
	switch k.Kind {
	case "rsa":
		return fmt.Sprintf("rsa%d/%dp", k.Bits, k.NPrimes)
	case "ec":
		return k.Curve
	}
	return k.Kind
}

func samePub(pub any, k *keys.Key) bool {
	b1, err1 := x509.MarshalPKIXPublicKey(pub)
	b2, err2 := x509.MarshalPKIXPublicKey(k.ZPub)
	return err1 == nil && err2 == nil && bytes.Equal(b1, b2)
}

func gen(t *rapid.T) Case {
	var c Case
	c.SubjectKey = certgen.GenSignerKey(t, "subject-key")
	c.Mode = rapid.SampledFrom([]int{0, 0, 1, 1, 2}).Draw(t, "mode")
	d := rapid.SampledFrom([]int{15, 30, 50, 80}).Draw(t, "density")
	c.T = certgen.GenCert(t, "t", certgen.GenOpts{Density: d, AllEKU: true, Overrides: true, OldTimes: true})
	signer := keys.Get(c.SubjectKey)
	if c.Mode != 0 {
		c.ParentKey = certgen.GenSignerKey(t, "parent-key")
		signer = keys.Get(c.ParentKey)
		ca := certgen.Chance(t, "parent-ca", 80)
		c.Parent = certgen.GenCert(t, "p", certgen.GenOpts{Density: 15, ForceCA: ca, NoExtras: true})
		c.Parent.SigAlg = 0
	}
	c.T.SigAlg = certgen.GenSigAlg(t, "sigalg", signer)
	return c
}

func TestPropIssue(t *testing.T) {
	kit.Run(t, kit.Spec[Case]{ID: "C04", Name: "issue", Rule: rule, Gen: gen, Check: check, Quick: 3000, Thorough: 30000,
		Assumptions: []string{
			"domain: serial >= 0 and <= 20 octets; attribute and SAN/URL strings valid UTF-8 (SAN/URL/constraint strings are copied as bytes); IP SANs of 4 or 16 bytes; IP name constraints with equal-length address and mask (4+4 or 16+16); name-constraint Min/Max left 0 (the builder does not encode them); IsCA only with BasicConstraintsValid; MaxPathLen >= -1; key usage within the 9 defined bits; years 1..9999",
			"AuthorityKeyId: the parsed value is compared with the TEMPLATE's (property statement; buildExtensions documents that it ignores the parent's SubjectKeyId)",
			"MaxPathLen: -1, and 0 without MaxPathLenZero, both mean 'unset' (documented); compared after that normalisation",
			"an ExtraExtensions entry with the OID of a generated extension replaces it (documented); its expected meaning comes from the generator that encoded it with the independent der package",
			"(key, algorithm) pairs the signer cannot produce (wrong key type, RSA modulus too small per RFC 8017) are outside the domain: only 'no panic' is required",
			"values of one attribute type are compared as multisets (DER SET OF ordering)",
			"URIs in SANs / URI name constraints are not covered: CreateCertificate has no input for them",
		}})
}
