package c24

import (
	"bytes"
	"fmt"
	"io"
	"time"

	"github.com/zmap/zcrypto/tls"
	"verifharness/tlskit"
)

// EKM describes one ExportKeyingMaterial request made on both ends.
type EKM struct {
	Label      string `json:"label"`
	Context    []byte `json:"context"`
	NilContext bool   `json:"nil_context"`
	Len        int    `json:"len"`
}

// connOut is everything observed about one client<->server connection.
type connOut struct {
	Res      tlskit.Result
	CS, SS   tls.ConnectionState
	Recs     []tlskit.Record
	PingErr  error
	CEkm     []byte
	SEkm     []byte
	CEkmErr  error
	SEkmErr  error
	LeakWait bool
}

func (o *connOut) ok() bool {
	return o.Res.ClientErr == nil && o.Res.ServerErr == nil && !o.Res.TimedOut
}
func (o *connOut) bothFailed() bool {
	return o.Res.ClientErr != nil && o.Res.ServerErr != nil && !o.Res.TimedOut
}

func (o *connOut) errs() string {
	return fmt.Sprintf("client error: %v; server error: %v; timed out: %v", o.Res.ClientErr, o.Res.ServerErr, o.Res.TimedOut)
}

// runConn performs one handshake through the recording proxy and, when both
// ends complete it, a ping/pong exchange (which also lets a TLS 1.3 client
// process the NewSessionTicket messages) and the EKM request.
func runConn(cc, sc *tls.Config, hook tlskit.Hook, ekm EKM, limit time.Duration) *connOut {
	out := &connOut{}
	p := tlskit.NewProxy(hook)
	c, s := tls.Client(p.Client, cc), tls.Server(p.Server, sc)
	out.Res = tlskit.Handshake(c, s, limit)
	if out.ok() {
		dl := time.Now().Add(limit)
		c.SetDeadline(dl)
		s.SetDeadline(dl)
		done := make(chan error, 1)
		go func() {
			buf := make([]byte, 4)
			_, err := io.ReadFull(s, buf)
			if err == nil && string(buf) != "ping" {
				err = fmt.Errorf("server read %q", buf)
			}
			if err == nil {
				_, err = s.Write([]byte("pong"))
			}
			done <- err
		}()
		buf := make([]byte, 4)
		_, err := c.Write([]byte("ping"))
		if err == nil {
			_, err = io.ReadFull(c, buf)
		}
		if err == nil && string(buf) != "pong" {
			err = fmt.Errorf("client read %q", buf)
		}
		if serr := <-done; err == nil {
			err = serr
		}
		out.PingErr = err
		out.CS, out.SS = c.ConnectionState(), s.ConnectionState()
		ctx := ekm.Context
		if ekm.NilContext {
			ctx = nil
		} else if ctx == nil {
			ctx = []byte{}
		}
		out.CEkm, out.CEkmErr = out.CS.ExportKeyingMaterial(ekm.Label, ctx, ekm.Len)
		out.SEkm, out.SEkmErr = out.SS.ExportKeyingMaterial(ekm.Label, ctx, ekm.Len)
	}
	c.Close()
	s.Close()
	w := make(chan struct{})
	go func() { p.Wait(); close(w) }()
	select {
	case <-w:
	case <-time.After(limit):
		out.LeakWait = true
	}
	out.Recs = p.T.Records(-1)
	return out
}

// serverHello is the part of a plaintext ServerHello the check looks at.
type serverHello struct {
	Version uint16
	Random  []byte
	Suite   uint16
}

// findServerHello returns the first ServerHello of the server->client flight
// (nil if the server never sent one).  RFC 5246 7.4.1.3 / RFC 8446 4.1.3 layout.
func findServerHello(recs []tlskit.Record) *serverHello {
	for _, r := range recs {
		if r.Dir != tlskit.ServerToClient {
			continue
		}
		if r.Type() != 22 {
			return nil
		}
		b := r.Body()
		if len(b) < 4+2+32+1 || b[0] != 2 {
			return nil
		}
		sh := &serverHello{Version: uint16(b[4])<<8 | uint16(b[5]), Random: append([]byte{}, b[6:38]...)}
		sid := int(b[38])
		if len(b) >= 39+sid+2 {
			sh.Suite = uint16(b[39+sid])<<8 | uint16(b[40+sid])
		}
		return sh
	}
	return nil
}

const greaseVersion = 0x0a0a

// stripVersions rewrites the supported_versions extension of a ClientHello
// record in place: every version >= floor becomes a GREASE value (RFC 8701),
// which a server must ignore.  It reports whether the extension was found.
func stripVersions(raw []byte, floor uint16) ([]byte, bool) {
	out := append([]byte{}, raw...)
	if len(out) < 5+4+2+32+1 || out[0] != 22 || out[5] != 1 {
		return out, false
	}
	b := out[5:]
	pos := 4 + 2 + 32
	if pos >= len(b) {
		return out, false
	}
	pos += 1 + int(b[pos]) // session id
	if pos+2 > len(b) {
		return out, false
	}
	pos += 2 + (int(b[pos])<<8 | int(b[pos+1])) // cipher suites
	if pos+1 > len(b) {
		return out, false
	}
	pos += 1 + int(b[pos]) // compression
	if pos+2 > len(b) {
		return out, false
	}
	end := pos + 2 + (int(b[pos])<<8 | int(b[pos+1]))
	pos += 2
	if end > len(b) {
		return out, false
	}
	for pos+4 <= end {
		typ := int(b[pos])<<8 | int(b[pos+1])
		l := int(b[pos+2])<<8 | int(b[pos+3])
		body := b[pos+4:]
		if l > len(body) {
			return out, false
		}
		body = body[:l]
		if typ == 43 && l >= 1 && int(body[0]) == l-1 {
			for i := 1; i+1 < l; i += 2 {
				v := uint16(body[i])<<8 | uint16(body[i+1])
				if v >= floor && v>>8 == 3 {
					body[i], body[i+1] = greaseVersion>>8, greaseVersion&0xff
				}
			}
			return out, true
		}
		pos += 4 + l
	}
	return out, false
}

// clientFlightAfterHello returns the client->server records after the first.
func clientFlightAfterHello(recs []tlskit.Record) []tlskit.Record {
	var out []tlskit.Record
	n := 0
	for _, r := range recs {
		if r.Dir == tlskit.ClientToServer {
			if n > 0 {
				out = append(out, r)
			}
			n++
		}
	}
	return out
}

func isAlert(r tlskit.Record, level, desc byte) bool {
	return r.Type() == 21 && bytes.Equal(r.Body(), []byte{level, desc})
}
