package c24

import (
	"bytes"
	"encoding/json"
	"fmt"
	"math/bits"
	"sort"
	"testing"
	"time"

	"github.com/zmap/zcrypto/tls"
	"pgregory.net/rapid"
	"verifharness/kit"
	"verifharness/tlsgen"
	"verifharness/tlskit"
)

// Case is one generated pair of configurations plus the experiment plan.
type Case struct {
	Client tlsgen.Client `json:"client"`
	Server tlsgen.Server `json:"server"`
	// Client2, when set, replaces the client description on the second
	// connection (the session cache is carried over).
	Client2   *tlsgen.Client `json:"client2,omitempty"`
	EKM       EKM            `json:"ekm"`
	Seed      uint64         `json:"seed"`
	Downgrade bool           `json:"downgrade"`
	// Indirect: the server Config is returned by GetConfigForClient of an outer Config whose own
	// version range and suite list are different (TLS 1.0 only, RC4); the returned Config is the
	// one that "will be used to handle this connection", so the model is unchanged.
	Indirect bool `json:"indirect,omitempty"`
	// CloneCfg: bit 0 - the server, bit 1 - the client runs on Config.Clone() of the described
	// Config (what net/http-style servers and dialers do); a clone is the same configuration.
	CloneCfg int `json:"clone_cfg,omitempty"`
}

func indirect(c Case, inner *tls.Config) *tls.Config {
	if !c.Indirect {
		return inner
	}
	return &tls.Config{Time: inner.Time, Rand: tlsgen.NewRand(c.Seed, 9), MinVersion: tls.VersionTLS10, MaxVersion: tls.VersionTLS10,
		CipherSuites:       []uint16{tls.TLS_RSA_WITH_RC4_128_SHA},
		GetConfigForClient: func(*tls.ClientHelloInfo) (*tls.Config, error) { return inner, nil }}
}

const limit = 20 * time.Second

// Finding keys of the deviations the model can switch on.
var devKey = map[tlsgen.Dev]string{
	tlsgen.DevClientListedFilter:    "C24:client-omits-implemented-suite",
	tlsgen.DevForceNo13Defaults:     "C24:forcesuites-client-omits-tls13-defaults",
	tlsgen.DevServer13IgnoresConfig: "C24:tls13-server-ignores-configured-suites",
	tlsgen.DevECDSA3DESAsRSA:        "C24:ecdhe-ecdsa-3des-classified-as-rsa",
	tlsgen.DevDSSSelectable:         "C24:dhe-dss-selected-with-rsa-key",
	tlsgen.DevAESDeprioritized:      "C24:client-order-overridden-aes-gcm-deprioritized",
	tlsgen.DevHybridCountsAsCurve:   "C24:hybrid-group-counted-as-ecdhe-curve",
}

var devWhat = map[tlsgen.Dev]string{
	tlsgen.DevClientListedFilter:    "a client without ForceSuites does not offer a configured, implemented suite that is missing from the upstream table (DHE_RSA_*, RSA_AES_256_CBC_SHA256, ECDHE_ECDSA_3DES, DHE_DSS_*)",
	tlsgen.DevForceNo13Defaults:     "a client with ForceSuites and no TLS 1.3 id in CipherSuites advertises TLS 1.3 but offers no TLS 1.3 suite (documented: the default TLS 1.3 list is used)",
	tlsgen.DevServer13IgnoresConfig: "a TLS 1.3 server negotiates a TLS 1.3 suite that its Config.CipherSuites does not list (documented: listed TLS 1.3 ids are the ones used)",
	tlsgen.DevECDSA3DESAsRSA:        "TLS_ECDHE_ECDSA_WITH_3DES_EDE_CBC_SHA is selected by a server holding an RSA key (handshake then fails) and never by one holding an ECDSA key",
	tlsgen.DevDSSSelectable:         "a TLS_DHE_DSS_* suite is selected by a server holding an RSA key and the handshake fails although another shared suite is usable",
	tlsgen.DevHybridCountsAsCurve:   "below TLS 1.3 the only group shared by the CurvePreferences is a TLS 1.3-only hybrid group; the server nevertheless selects an ECDHE suite and fails (no supported elliptic curves offered) although a non-ECDHE suite is shared and usable",
	tlsgen.DevAESDeprioritized:      "with PreferServerCipherSuites=false the server does not pick the client's most preferred suite: ChaCha20 is moved in front of the ECDHE AES-GCM suites preceding it",
}

// masks in order of increasing number of deviations
var devMasks = func() []tlsgen.Dev {
	var m []tlsgen.Dev
	for i := 0; i < 1<<tlsgen.DevCount; i++ {
		m = append(m, tlsgen.Dev(i))
	}
	sort.SliceStable(m, func(i, j int) bool { return bits.OnesCount(uint(m[i])) < bits.OnesCount(uint(m[j])) })
	return m
}()

func has(l []uint16, v uint16) bool {
	for _, x := range l {
		if x == v {
			return true
		}
	}
	return false
}

// matches: does the observed connection agree with a predicted outcome on
// completion, version and cipher suite?
func matches(o tlsgen.Outcome, out *connOut) bool {
	if o.Fail != "" {
		return out.bothFailed()
	}
	if o.MayFail && out.bothFailed() {
		return true
	}
	return out.ok() && out.CS.Version == o.V && out.SS.Version == o.V &&
		out.CS.CipherSuite == out.SS.CipherSuite && has(o.Accept, out.CS.CipherSuite)
}

func js(v any) string { b, _ := json.Marshal(v); return string(b) }

func describe(cl tlsgen.Client, sv tlsgen.Server, o tlsgen.Outcome, out *connOut) string {
	names := func(l []uint16) []string {
		var n []string
		for _, id := range l {
			n = append(n, tlsgen.Name(id))
		}
		return n
	}
	s := fmt.Sprintf("client=%s\nserver=%s\nmodel(documentation): common versions %x, version %x, fail=%q, acceptable suites %v, candidates %v (ordered=%v), alpn %q\n",
		js(cl), js(sv), o.Common, o.V, o.Fail, names(o.Accept), names(o.Cands), o.Ordered, o.Proto)
	s += "observed: " + out.errs() + "\n"
	if out.ok() {
		s += fmt.Sprintf("client view: version %x suite %s alpn %q resumed %v\nserver view: version %x suite %s alpn %q resumed %v\n",
			out.CS.Version, tlsgen.Name(out.CS.CipherSuite), out.CS.NegotiatedProtocol, out.CS.DidResume,
			out.SS.Version, tlsgen.Name(out.SS.CipherSuite), out.SS.NegotiatedProtocol, out.SS.DidResume)
	}
	if sh := findServerHello(out.Recs); sh != nil {
		s += fmt.Sprintf("ServerHello on the wire: version %x suite %s random tail %q\n", sh.Version, tlsgen.Name(sh.Suite), sh.Random[24:])
	}
	return s
}

// reconcile finds the smallest set of known deviations under which the model
// reproduces the observed completion/version/suite, reports every deviation
// needed (each under its own key; listed ones are counted and the case goes
// on), and returns the outcome to use for the remaining assertions.
func reconcile(r *kit.R, tag string, cl tlsgen.Client, sv tlsgen.Server, out *connOut, hw bool) tlsgen.Outcome {
	if out.Res.TimedOut {
		r.Failf("timeout:"+tag, "handshake did not finish within %v\n%s", limit, describe(cl, sv, tlsgen.Negotiate(cl, sv, 0, hw), out))
	}
	doc := tlsgen.Negotiate(cl, sv, 0, hw)
	if out.ok() {
		// both ends must describe the same connection, whatever it is
		if out.CS.Version != out.SS.Version || out.CS.CipherSuite != out.SS.CipherSuite {
			r.Failf("C24:ends-disagree", "%s: version/suite differ between the two ends\n%s", tag, describe(cl, sv, doc, out))
		}
	}
	for _, m := range devMasks {
		o := doc
		if m != 0 {
			o = tlsgen.Negotiate(cl, sv, m, hw)
		}
		if !matches(o, out) {
			continue
		}
		for d := tlsgen.Dev(1); d < 1<<tlsgen.DevCount; d <<= 1 {
			if m&d == 0 {
				continue
			}
			r.Class("deviation:" + devKey[d][4:])
			if !r.Known(devKey[d]) {
				r.Failf(devKey[d], "%s: %s\n%s", tag, devWhat[d], describe(cl, sv, doc, out))
			}
		}
		return o
	}
	// nothing explains it: name the disagreement with the documentation
	d := describe(cl, sv, doc, out)
	switch {
	case out.Res.ClientErr == nil != (out.Res.ServerErr == nil):
		r.Failf("C24:one-sided-completion", "%s: exactly one end completed the handshake\n%s", tag, d)
	case doc.Fail != "" && out.ok():
		if len(doc.Common) == 0 || out.CS.Version != doc.V {
			r.Failf("C24:version", "%s: negotiated version is not the highest shared one\n%s", tag, d)
		}
		r.Failf("C24:unexpected-success", "%s: handshake completed although the model says %q\n%s", tag, doc.Fail, d)
	case doc.Fail == "" && !out.ok():
		r.Failf("C24:handshake-failed", "%s: configurations share version %x and a usable suite but the handshake failed\n%s", tag, doc.V, d)
	case out.CS.Version != doc.V:
		r.Failf("C24:version", "%s: negotiated version is not the highest shared one\n%s", tag, d)
	case has(doc.Cands, out.CS.CipherSuite):
		r.Failf("C24:suite-preference", "%s: negotiated suite is shared and usable but not the one the documented preference rule selects\n%s", tag, d)
	default:
		r.Failf("C24:suite-not-enabled-or-usable", "%s: negotiated suite is not among the suites both sides enable and the server key can serve\n%s", tag, d)
	}
	return doc
}

func suiteHash384(id uint16) bool { s, ok := tlsgen.Info(id); return ok && s.SHA384 }

func check(c Case, r *kit.R) {
	hw := tls.VerifHasAESGCMHardwareSupport()
	cl, sv := c.Client, c.Server
	roots := sv.Roots()
	cc, sc := cl.Config(roots), sv.Config()
	cc.Rand, sc.Rand = tlsgen.NewRand(c.Seed, 1, 1), tlsgen.NewRand(c.Seed, 2, 1)
	if c.CloneCfg&1 != 0 {
		sc = sc.Clone()
		r.Class("server runs on Config.Clone()")
	}
	if c.CloneCfg&2 != 0 {
		cc = cc.Clone()
		r.Class("client runs on Config.Clone()")
	}
	sc = indirect(c, sc)
	if c.Indirect {
		r.Class("server config through GetConfigForClient")
	}

	// ---- first connection -------------------------------------------------
	out := runConn(cc, sc, nil, c.EKM, limit)
	o := reconcile(r, "connection 1", cl, sv, out, hw)

	kind := tlsgen.KeyKind(sv.Key)
	r.Class("key=" + kind)
	if len(o.Common) >= 2 || len(o.Cands) >= 2 {
		r.NonTrivial()
	}
	if o.Fail != "" {
		r.Class("expect-fail: " + o.Fail[:min(len(o.Fail), 24)])
		return
	}
	if o.MayFail {
		r.Class(fmt.Sprintf("tls13 share of a group outside CurvePreferences: completed=%v", out.ok()))
		if !out.ok() {
			return
		}
	}
	r.Class(fmt.Sprintf("v=%x", o.V))
	if s, ok := tlsgen.Info(out.CS.CipherSuite); ok {
		r.Class("kx=" + s.Kx.String())
	}
	if o.V != tlsgen.TLS13 {
		switch {
		case !o.Ordered:
			r.Class("pref=unspecified(default list)")
		case sv.PreferServer:
			r.Class(fmt.Sprintf("pref=server cands>=2:%v", len(o.Cands) >= 2))
		default:
			r.Class(fmt.Sprintf("pref=client cands>=2:%v", len(o.Cands) >= 2))
		}
	}
	d := func() string { return describe(cl, sv, o, out) }
	if out.CS.NegotiatedProtocol != out.SS.NegotiatedProtocol || out.CS.NegotiatedProtocol != o.Proto {
		r.Failf("C24:alpn", "ALPN result: want %q on both ends\n%s", o.Proto, d())
	}
	if o.Proto != "" {
		r.Class("alpn=negotiated")
	} else if len(cl.ALPN) > 0 && len(sv.ALPN) > 0 {
		r.Class("alpn=no-overlap")
	}
	if out.CS.DidResume || out.SS.DidResume {
		r.Failf("C24:resumed-without-session", "first connection reports DidResume\n%s", d())
	}
	if !out.CS.HandshakeComplete || !out.SS.HandshakeComplete {
		r.Failf("C24:handshake-complete-flag", "HandshakeComplete false after a successful Handshake()\n%s", d())
	}
	if out.PingErr != nil {
		r.Failf("C24:data-after-handshake", "application data did not pass after the handshake: %v\n%s", out.PingErr, d())
	}
	checkEKM(r, c.EKM, out, d)
	checkSentinel(r, o, out, d)

	// ---- second connection (resumption) -----------------------------------
	cl2 := cl
	if c.Client2 != nil {
		cl2 = *c.Client2
		r.Class("second-client-changed")
	}
	cc2 := cc
	if c.Client2 != nil {
		cc2 = cl2.Config(roots)
		if cl.Cache && cl2.Cache {
			cc2.ClientSessionCache = cc.ClientSessionCache
		}
	}
	if c.Client2 != nil {
		cc2.Rand = tlsgen.NewRand(c.Seed, 1, 2)
	}
	out2 := runConn(cc2, sc, nil, c.EKM, limit)
	if out2.Res.TimedOut {
		r.Failf("timeout:connection 2", "second handshake did not finish within %v", limit)
	}
	ticketsOn := cl.Cache && cl2.Cache && !cl.TicketsDisabled && !cl2.TicketsDisabled && !sv.TicketsDisabled
	resumed := out2.ok() && (out2.CS.DidResume || out2.SS.DidResume)
	if !resumed {
		o2 := reconcile(r, "connection 2", cl2, sv, out2, hw)
		if out2.ok() {
			d2 := func() string { return describe(cl2, sv, o2, out2) }
			if out2.CS.NegotiatedProtocol != out2.SS.NegotiatedProtocol || out2.CS.NegotiatedProtocol != o2.Proto {
				r.Failf("C24:alpn", "connection 2 ALPN result: want %q on both ends\n%s", o2.Proto, d2())
			}
			checkEKM(r, c.EKM, out2, d2)
			checkSentinel(r, o2, out2, d2)
			if ticketsOn && c.Client2 == nil {
				r.Failf("C24:not-resumed", "tickets are enabled on both sides and the configurations are unchanged, but the second connection was a full handshake\nfirst: version %x suite %s\n%s",
					out.CS.Version, tlsgen.Name(out.CS.CipherSuite), d2())
			}
		}
		r.Class(fmt.Sprintf("resumed=false tickets=%v", ticketsOn))
	} else {
		o2 := tlsgen.Negotiate(cl2, sv, 0, hw)
		// deviations that widen what the second client offers / the server accepts
		oAll := tlsgen.Negotiate(cl2, sv, o2devs(r), hw)
		d2 := func() string {
			return "first connection: " + fmt.Sprintf("version %x suite %s\n", out.CS.Version, tlsgen.Name(out.CS.CipherSuite)) + describe(cl2, sv, o2, out2)
		}
		if out2.CS.DidResume != out2.SS.DidResume {
			r.Failf("C24:resumption-status-disagree", "the two ends disagree on DidResume\n%s", d2())
		}
		if !ticketsOn {
			r.Failf("C24:resumed-with-tickets-disabled", "session resumed although tickets/cache are disabled on one side\n%s", d2())
		}
		if out2.CS.Version != out2.SS.Version || out2.CS.CipherSuite != out2.SS.CipherSuite {
			r.Failf("C24:ends-disagree", "connection 2: version/suite differ between the two ends\n%s", d2())
		}
		if out2.CS.Version != out.CS.Version || len(o2.Common) == 0 || out2.CS.Version != o2.V {
			r.Failf("C24:resumed-version", "resumed connection must keep the session's version and that must be the highest shared one\n%s", d2())
		}
		if out2.CS.Version != tlsgen.TLS13 {
			if out2.CS.CipherSuite != out.CS.CipherSuite {
				r.Failf("C24:resumed-suite", "resumed TLS<=1.2 connection must keep the session's cipher suite\n%s", d2())
			}
			if !has(o2.Cands, out2.CS.CipherSuite) && !has(oAll.Cands, out2.CS.CipherSuite) {
				r.Failf("C24:resumed-suite-not-enabled", "resumed with a suite the second client/server do not both enable\n%s", d2())
			}
		} else {
			if suiteHash384(out2.CS.CipherSuite) != suiteHash384(out.CS.CipherSuite) {
				r.Failf("C24:resumed-suite", "TLS 1.3 PSK used with a suite of a different hash\n%s", d2())
			}
			if !has(o2.Cands, out2.CS.CipherSuite) && !has(oAll.Cands, out2.CS.CipherSuite) {
				r.Failf("C24:resumed-suite-not-enabled", "resumed with a suite the second client/server do not both enable\n%s", d2())
			}
		}
		if out2.CS.NegotiatedProtocol != out2.SS.NegotiatedProtocol || out2.CS.NegotiatedProtocol != o2.Proto {
			r.Failf("C24:alpn", "resumed connection ALPN result: want %q on both ends\n%s", o2.Proto, d2())
		}
		if out2.PingErr != nil {
			r.Failf("C24:data-after-handshake", "application data did not pass after the resumed handshake: %v\n%s", out2.PingErr, d2())
		}
		checkEKM(r, c.EKM, out2, d2)
		checkSentinel(r, o2, out2, d2)
		r.Class(fmt.Sprintf("resumed=true tls13=%v", out2.CS.Version == tlsgen.TLS13))
	}

	// ---- downgrade experiment ---------------------------------------------
	if c.Downgrade {
		checkDowngrade(r, c, o, hw)
	}
}

// o2devs returns the listed (known) deviations, for membership tests on a
// resumed connection where no negotiation outcome can be matched.
func o2devs(r *kit.R) tlsgen.Dev {
	var m tlsgen.Dev
	for d := tlsgen.Dev(1); d < 1<<tlsgen.DevCount; d <<= 1 {
		if kit.IsKnown(devKey[d]) {
			m |= d
		}
	}
	return m
}

var reservedLabels = map[string]bool{"client finished": true, "server finished": true, "master secret": true, "key expansion": true}

func checkEKM(r *kit.R, e EKM, out *connOut, d func() string) {
	if reservedLabels[e.Label] {
		// RFC 5705 section 4: labels of the TLS PRF itself must not be exported (TLS <= 1.2)
		if out.CS.Version != tlsgen.TLS13 && (out.CEkmErr == nil || out.SEkmErr == nil) {
			r.Failf("C24:ekm-reserved-label", "ExportKeyingMaterial accepted the reserved label %q\n%s", e.Label, d())
		}
		if (out.CEkmErr == nil) != (out.SEkmErr == nil) || !bytes.Equal(out.CEkm, out.SEkm) {
			r.Failf("C24:ekm", "ExportKeyingMaterial(%q) differs between the ends: %x/%v vs %x/%v\n%s", e.Label, out.CEkm, out.CEkmErr, out.SEkm, out.SEkmErr, d())
		}
		return
	}
	if out.CEkmErr != nil || out.SEkmErr != nil {
		r.Failf("C24:ekm", "ExportKeyingMaterial(%q, %x, %d) failed: client %v, server %v\n%s", e.Label, e.Context, e.Len, out.CEkmErr, out.SEkmErr, d())
	}
	if len(out.CEkm) != e.Len || !bytes.Equal(out.CEkm, out.SEkm) {
		r.Failf("C24:ekm", "exported keying material differs between the ends (want %d bytes): client %x server %x\n%s", e.Len, out.CEkm, out.SEkm, d())
	}
}

func checkSentinel(r *kit.R, o tlsgen.Outcome, out *connOut, d func() string) {
	sh := findServerHello(out.Recs)
	if sh == nil {
		r.Failf("C24:harness-no-serverhello", "completed connection without a ServerHello in the transcript\n%s", d())
	}
	tail := string(sh.Random[24:])
	isSentinel := tail == "DOWNGRD\x01" || tail == "DOWNGRD\x00"
	switch {
	case o.Sentinel != "" && tail != o.Sentinel:
		r.Failf("C24:downgrade-sentinel-missing", "server max version is above the negotiated %x but ServerHello.random ends in %q, want %q\n%s", o.V, tail, o.Sentinel, d())
	case o.Sentinel == "" && isSentinel:
		r.Failf("C24:downgrade-sentinel-unexpected", "ServerHello.random carries a downgrade sentinel although the server negotiated its highest version\n%s", d())
	}
	if o.Sentinel != "" {
		r.Class("sentinel-present-checked")
	}
}

// checkDowngrade re-runs the pair with a man-in-the-middle that hides every
// client version >= the naturally negotiated one, so the server is made to
// negotiate below what both support.
func checkDowngrade(r *kit.R, c Case, o tlsgen.Outcome, hw bool) {
	cl, sv := c.Client, c.Server
	if len(o.Common) < 2 {
		return
	}
	vLow := o.Common[len(o.Common)-2]
	smax, cmax := uint16(0), uint16(0)
	for _, v := range tlsgen.EffVersions(sv.MinVersion, sv.MaxVersion) {
		smax = max(smax, v)
	}
	for _, v := range tlsgen.EffVersions(cl.MinVersion, cl.MaxVersion) {
		cmax = max(cmax, v)
	}
	if smax < tlsgen.TLS12 {
		return // RFC 8446 4.1.3 defines the sentinel for TLS 1.2+ servers only
	}
	clx := cl
	clx.Cache = false
	cc, sc := clx.Config(sv.Roots()), sv.Config()
	cc.Rand, sc.Rand = tlsgen.NewRand(c.Seed, 1, 3), tlsgen.NewRand(c.Seed, 2, 3)
	sc = indirect(c, sc)
	patched := false
	hook := func(rec tlskit.Record) ([][]byte, bool) {
		if rec.Dir == tlskit.ClientToServer && rec.Index == 0 {
			raw, ok := stripVersions(rec.Raw, o.V)
			patched = ok
			return [][]byte{raw}, true
		}
		return nil, true
	}
	out := runConn(cc, sc, hook, c.EKM, limit)
	if out.Res.TimedOut {
		r.Failf("timeout:downgrade", "downgrade experiment did not finish within %v", limit)
	}
	if !patched {
		r.Class("downgrade: no supported_versions to strip")
		return
	}
	sh := findServerHello(out.Recs)
	if sh == nil {
		r.Class("downgrade: server sent no ServerHello")
		return
	}
	d := func() string {
		return fmt.Sprintf("downgrade experiment: versions >= %x hidden from the server (GREASE), expecting it to negotiate %x; client max %x, server max %x\n", o.V, vLow, cmax, smax) +
			describe(cl, sv, o, out)
	}
	if sh.Version != vLow {
		r.Failf("C24:downgrade-version", "server did not pick the highest remaining shared version\n%s", d())
	}
	want := "DOWNGRD\x00"
	if vLow == tlsgen.TLS12 {
		want = "DOWNGRD\x01"
	}
	if string(sh.Random[24:]) != want {
		r.Failf("C24:downgrade-sentinel-missing", "server negotiated %x below its maximum %x but ServerHello.random ends in %q, want %q\n%s", vLow, smax, sh.Random[24:], want, d())
	}
	r.Class(fmt.Sprintf("downgrade: sentinel checked v'=%x", vLow))
	// RFC 8446 4.1.3: TLS 1.3 clients MUST check both values when TLS 1.2 or
	// below is negotiated; TLS 1.2 clients SHOULD check the second value when
	// TLS 1.1 or below is negotiated -> abort with illegal_parameter.
	clientChecks := cmax == tlsgen.TLS13 || (cmax == tlsgen.TLS12 && vLow <= tlsgen.TLS11)
	if !clientChecks {
		return
	}
	after := clientFlightAfterHello(out.Recs)
	if out.Res.ClientErr == nil || len(after) != 1 || !isAlert(after[0], 2, 47) {
		var desc []string
		for _, a := range after {
			desc = append(desc, fmt.Sprintf("type %d len %d %x", a.Type(), len(a.Body()), a.Body()[:min(len(a.Body()), 4)]))
		}
		r.Failf("C24:downgrade-not-detected", "client supporting %x was downgraded to %x with the sentinel present but did not abort at the ServerHello with illegal_parameter; client records after the ClientHello: %v\n%s", cmax, vLow, desc, d())
	}
	r.Class("downgrade: client abort checked")
}

// ---------------------------------------------------------------------------

const rule = "pairs (client Config, server Config): version ranges over {0,SSL3.0,TLS1.0-1.3} (incl. empty ranges), CipherSuites = nil or a permutation of a subset of a small shared base plus extra implemented/unimplemented ids (all 40 implemented TLS<=1.2 suites and the 3 TLS 1.3 suites), ForceSuites, PreferServerCipherSuites, server key in {RSA-2048, RSA-1024, ECDSA P-256/384/521, Ed25519}, CurvePreferences sub-lists incl. X25519MLKEM768, ALPN lists, tickets on/off, session cache on/off; each case = first connection + second connection (resumption; client description optionally changed) + optional man-in-the-middle downgrade run. Non-trivial: the two configurations share >= 2 protocol versions or >= 2 usable cipher suites; distinct by case hash"

func genEKM(t *rapid.T) EKM {
	e := EKM{Label: rapid.SampledFrom([]string{"EXPERIMENTAL verif", "EXPORTER-verif", "EXPORTER_x", "a", "client finished", "key expansion"}).Draw(t, "ekm-label"),
		Len: rapid.SampledFrom([]int{1, 16, 20, 32, 48, 64, 100}).Draw(t, "ekm-len")}
	switch rapid.IntRange(0, 2).Draw(t, "ekm-ctx") {
	case 0:
		e.NilContext = true
	case 1:
		e.Context = []byte{}
	default:
		e.Context = rapid.SliceOfN(rapid.Byte(), 1, 24).Draw(t, "ekm-ctxbytes")
	}
	return e
}

func gen(t *rapid.T) Case {
	key := tlsgen.GenKey(t)
	base := tlsgen.GenBaseFor(t, "base", tlsgen.KeyKind(key))
	c := Case{Client: tlsgen.GenClient(t, base), Server: tlsgen.GenServer(t, base, key)}
	// steer towards overlapping version ranges most of the time
	if len(tlsgen.CommonVersions(c.Client, c.Server)) == 0 && rapid.IntRange(0, 3).Draw(t, "fix-versions") != 0 {
		c.Server.MinVersion, c.Server.MaxVersion = 0, 0
		if rapid.Bool().Draw(t, "fix-versions-client") {
			c.Client.MinVersion = 0
		}
	}
	if rapid.IntRange(0, 3).Draw(t, "client2") == 0 {
		c2 := c.Client
		switch rapid.IntRange(0, 2).Draw(t, "client2-what") {
		case 0:
			c2.Suites = tlsgen.GenSuites(t, "client2-suites", base)
		case 1:
			c2.MinVersion, c2.MaxVersion = tlsgen.GenVersionRange(t, "client2-vers")
		default:
			c2.Suites = tlsgen.GenSuites(t, "client2-suites", base)
			c2.ALPN = tlsgen.GenALPN(t, "client2-alpn")
			c2.ForceSuites = rapid.Bool().Draw(t, "client2-force")
		}
		c.Client2 = &c2
	}
	c.EKM = genEKM(t)
	c.Seed = rapid.Uint64().Draw(t, "seed")
	c.Downgrade = rapid.IntRange(0, 2).Draw(t, "downgrade") != 0
	c.Indirect = rapid.IntRange(0, 3).Draw(t, "indirect") == 0
	c.CloneCfg = rapid.SampledFrom([]int{0, 0, 0, 1, 2, 3}).Draw(t, "clone-cfg")
	return c
}

func TestPropNegotiation(t *testing.T) {
	kit.Run(t, kit.Spec[Case]{ID: "C24", Name: "negotiation", Rule: rule, Gen: gen, Check: check,
		Quick: 2000, Thorough: 50000,
		Assumptions: []string{
			"domain: Config fields named in the property quantifier only (versions, CipherSuites, ForceSuites, PreferServerCipherSuites, one server certificate, CurvePreferences, NextProtos, SessionTicketsDisabled, ClientSessionCache); ServerRandom/ClientRandom overrides, fingerprint/external ClientHellos, renegotiation and client certificates are outside",
			"Config.Time = tlskit.Now, Config.Rand = per-case deterministic stream; every handshake runs under a 20 s limit, a time-out is inconclusive unless it reproduces alone",
			"nil CipherSuites: the documentation promises only 'a default list of secure suites' - the model takes the set tls.CipherSuites() and asserts membership, not order; TLS 1.3 suite order is undocumented - membership only",
			"downgrade sentinel asserted for servers whose maximum is TLS 1.2 or 1.3 (RFC 8446 4.1.3); client abort asserted for TLS 1.3 clients, and for TLS 1.2 clients negotiated down to <= TLS 1.1",
		}})
}
