package c24

// A server holding several certificates of different key types: "an implemented cipher suite
// usable with the server's key" then means usable with ONE of its keys, and the server has to
// present that one.  The main sub-check uses one certificate per server.

import (
	"bytes"
	"fmt"
	"testing"

	"github.com/zmap/zcrypto/tls"
	"pgregory.net/rapid"
	"verifharness/kit"
	"verifharness/tlsgen"
)

type TwoCertCase struct {
	Keys       []string `json:"keys"` // server certificates in Config.Certificates order
	ClientKind string   `json:"client_kind"` // family of the suites the client offers: rsa | ec | both
	Version    uint16   `json:"version"`
	Suites     []uint16 `json:"suites"`
	Prefer     bool     `json:"prefer_server"`
	Seed       uint64   `json:"seed"`
}

func familySuites(kind string, v uint16) []uint16 {
	var out []uint16
	for _, s := range tlsgen.Suites {
		if !s.Listed || (s.TLS12Only && v < tlsgen.TLS12) {
			continue
		}
		switch s.Kx {
		case tlsgen.KxRSA, tlsgen.KxECDHERSA, tlsgen.KxDHERSA:
			if kind == "rsa" || kind == "both" {
				out = append(out, s.ID)
			}
		case tlsgen.KxECDHEECDSA:
			if kind == "ec" || kind == "both" {
				out = append(out, s.ID)
			}
		}
	}
	return out
}

func checkTwoCert(c TwoCertCase, r *kit.R) {
	sc := &tls.Config{MinVersion: tlsgen.TLS10, MaxVersion: c.Version, PreferServerCipherSuites: c.Prefer, Rand: tlsgen.NewRand(c.Seed, 2)}
	sc.CipherSuites = tlsgen.ListedLegacy() // every listed suite enabled (the default list leaves out RC4 / 3DES / CBC-SHA256)
	roots := tlsgen.Identity(c.Keys[0]).Roots // every pool identity is issued by the same test CA
	for _, k := range c.Keys {
		sc.Certificates = append(sc.Certificates, tlsgen.Identity(k).Cert)
	}
	cl := tlsgen.Client{ForceSuites: true}
	cl.MinVersion, cl.MaxVersion, cl.Suites = tlsgen.TLS10, c.Version, c.Suites
	cc := cl.Config(roots)
	cc.Rand = tlsgen.NewRand(c.Seed, 1)
	out := runConn(cc, sc, nil, EKM{Label: "EXPERIMENTAL verif", Len: 16, NilContext: true}, limit)
	if out.Res.TimedOut {
		r.Failf("timeout:two-certificates", "handshake did not finish within %v", limit)
	}
	r.Class(fmt.Sprintf("server keys %v, client offers %s suites", kinds(c.Keys), c.ClientKind))
	if !out.ok() {
		r.Failf("C24:two-certificates:handshake-failed", "server with certificates %v, client offering only %s suites %04x at version <= %04x: the configurations share a version and a suite usable with one of the server's keys, but the handshake failed: client %v / server %v",
			c.Keys, c.ClientKind, c.Suites, c.Version, out.Res.ClientErr, out.Res.ServerErr)
	}
	s, ok := tlsgen.Info(out.CS.CipherSuite)
	if !ok {
		r.Failf("C24:two-certificates:suite", "negotiated suite %04x is not in the table", out.CS.CipherSuite)
	}
	wantKind := "rsa"
	if s.Kx == tlsgen.KxECDHEECDSA {
		wantKind = "ec"
	}
	if len(out.CS.PeerCertificates) == 0 {
		r.Failf("C24:two-certificates:certificate", "the client saw no server certificate")
	}
	got := ""
	for _, k := range c.Keys {
		if bytes.Equal(out.CS.PeerCertificates[0].Raw, tlsgen.Identity(k).Leaf.Raw) {
			got = tlsgen.KeyKind(k)
		}
	}
	if got != wantKind {
		r.Failf("C24:two-certificates:certificate", "negotiated suite %s needs a %s key, the server presented its %q certificate", s.Name, wantKind, got)
	}
	found := false
	for _, id := range c.Suites {
		found = found || id == out.CS.CipherSuite
	}
	if !found {
		r.Failf("C24:two-certificates:suite", "negotiated suite %04x was not offered (%04x)", out.CS.CipherSuite, c.Suites)
	}
	if c.ClientKind != "both" {
		r.NonTrivial()
	}
}

func kinds(ks []string) []string {
	var out []string
	for _, k := range ks {
		out = append(out, tlsgen.KeyKind(k))
	}
	return out
}

func genTwoCert(t *rapid.T) TwoCertCase {
	c := TwoCertCase{Seed: rapid.Uint64().Draw(t, "seed")}
	rsaK := rapid.SampledFrom([]string{"rsa2048-p2-1", "rsa1024-p2-0"}).Draw(t, "rsa-key")
	ecK := rapid.SampledFrom([]string{"ecP-256-0", "ecP-384-0"}).Draw(t, "ec-key")
	c.Keys = rapid.SampledFrom([][]string{{ecK, rsaK}, {rsaK, ecK}, {ecK, rsaK, "ecP-521-0"}}).Draw(t, "order")
	c.ClientKind = rapid.SampledFrom([]string{"rsa", "ec", "rsa", "ec", "both"}).Draw(t, "client-kind")
	c.Version = rapid.SampledFrom([]uint16{tlsgen.TLS12, tlsgen.TLS12, tlsgen.TLS11, tlsgen.TLS10}).Draw(t, "version")
	fam := familySuites(c.ClientKind, c.Version)
	n := rapid.IntRange(1, min(4, len(fam))).Draw(t, "nsuites")
	perm := rapid.Permutation(fam).Draw(t, "perm")
	c.Suites = perm[:n]
	c.Prefer = rapid.Bool().Draw(t, "prefer")
	return c
}

func TestPropTwoCertificates(t *testing.T) {
	kit.Run(t, kit.Spec[TwoCertCase]{ID: "C24", Name: "two-certificates", Gen: genTwoCert, Check: checkTwoCert, Quick: 300, Thorough: 6000,
		Rule: "a server with two or three certificates of different key types (ECDSA first or RSA first), every listed suite enabled, TLS 1.0-1.2; a client (ForceSuites) offering 1-4 listed suites of ONE family (RSA-certificate suites or ECDSA-certificate suites) or of both. The handshake must complete, with an offered suite, and the certificate presented must be the one whose key type the negotiated suite needs. Non-trivial: the client's suites fit only one of the server's key types; distinct by case hash",
		Assumptions: []string{"all pool identities are issued by one test CA, so the client trusts whichever certificate is presented", "DHE_RSA, ECDHE_RSA and RSA key-transport suites need an RSA certificate, ECDHE_ECDSA suites an ECDSA certificate (from the suite names)"}})
}
