package keys

import (
	"crypto"
	"crypto/rand"
	stdrsa "crypto/rsa"
	"crypto/sha256"
	"testing"

	zrsa "github.com/zmap/zcrypto/rsa"
)

func TestPool(t *testing.T) {
	h := sha256.Sum256([]byte("x"))
	for _, k := range All() {
		if k.Kind != "rsa" || k.Bits < 1024 {
			continue
		}
		sig, err := stdrsa.SignPKCS1v15(rand.Reader, k.StdPriv.(*stdrsa.PrivateKey), crypto.SHA256, h[:])
		if err != nil {
			t.Fatalf("%s std sign: %v", k.Name, err)
		}
		if err := zrsa.VerifyPKCS1v15(k.ZPub.(*zrsa.PublicKey), crypto.SHA256, h[:], sig); err != nil {
			t.Fatalf("%s z verify: %v", k.Name, err)
		}
	}
	t.Logf("%d keys", len(All()))
}
