// Package keys is the fixed, embedded pool of test keys (generated once by
// keys/gen, committed).  Every key is available in the form zcrypto's APIs take
// (zcrypto/rsa, zcrypto/dsa, std ecdsa/ed25519) and as Go standard-library keys
// for independent (differential) signing and verification.
package keys

import (
	stddsa "crypto/dsa"
	"crypto/ecdsa"
	"crypto/ed25519"
	"crypto/elliptic"
	stdrsa "crypto/rsa"
	_ "embed"
	"encoding/hex"
	"encoding/json"
	"math/big"
	"sync"

	zdsa "github.com/zmap/zcrypto/dsa"
	zrsa "github.com/zmap/zcrypto/rsa"
	_ "github.com/zmap/zcrypto/x509" // sets GODEBUG rsa1024min=0 like every zcrypto user
)

//go:embed keys.json
var raw []byte

// Key is one pool key.
type Key struct {
	Index   int
	Name    string
	Kind    string // "rsa" | "ec" | "ed25519" | "dsa"
	Bits    int    // rsa modulus bits / curve bits / dsa L
	Curve   string // "P-224" ... for ec
	NPrimes int    // rsa
	ZPriv   any    // *zrsa.PrivateKey | *ecdsa.PrivateKey | ed25519.PrivateKey | *zdsa.PrivateKey
	ZPub    any    // *zrsa.PublicKey  | *ecdsa.PublicKey  | ed25519.PublicKey  | *zdsa.PublicKey
	StdPriv any    // *stdrsa.PrivateKey | *ecdsa.PrivateKey | ed25519.PrivateKey | *stddsa.PrivateKey
	StdPub  any
}

var (
	once sync.Once
	all  []*Key
)

func bi(s string) *big.Int {
	v, ok := new(big.Int).SetString(s, 10)
	if !ok {
		panic("keys: bad integer")
	}
	return v
}

func load() {
	var f struct {
		RSA []struct {
			Name    string
			Bits    int
			N, D, E string
			Primes  []string
		}
		EC  []struct{ Name, Curve, D string }
		Ed  []struct{ Name, Seed string }
		DSA []struct{ Name, P, Q, G, X, Y string }
	}
	if err := json.Unmarshal(raw, &f); err != nil {
		panic(err)
	}
	add := func(k *Key) { k.Index = len(all); all = append(all, k) }
	for _, r := range f.RSA {
		zp := &zrsa.PrivateKey{PublicKey: zrsa.PublicKey{N: bi(r.N), E: bi(r.E)}, D: bi(r.D)}
		sp := &stdrsa.PrivateKey{PublicKey: stdrsa.PublicKey{N: bi(r.N), E: int(bi(r.E).Int64())}, D: bi(r.D)}
		for _, p := range r.Primes {
			zp.Primes = append(zp.Primes, bi(p))
			sp.Primes = append(sp.Primes, bi(p))
		}
		zp.Precompute()
		sp.Precompute()
		add(&Key{Name: r.Name, Kind: "rsa", Bits: r.Bits, NPrimes: len(r.Primes), ZPriv: zp, ZPub: &zp.PublicKey, StdPriv: sp, StdPub: &sp.PublicKey})
	}
	curves := map[string]elliptic.Curve{"P-224": elliptic.P224(), "P-256": elliptic.P256(), "P-384": elliptic.P384(), "P-521": elliptic.P521()}
	for _, e := range f.EC {
		c := curves[e.Curve]
		d := bi(e.D)
		x, y := c.ScalarBaseMult(d.Bytes())
		p := &ecdsa.PrivateKey{PublicKey: ecdsa.PublicKey{Curve: c, X: x, Y: y}, D: d}
		add(&Key{Name: e.Name, Kind: "ec", Bits: c.Params().BitSize, Curve: e.Curve, ZPriv: p, ZPub: &p.PublicKey, StdPriv: p, StdPub: &p.PublicKey})
	}
	for _, e := range f.Ed {
		seed, _ := hex.DecodeString(e.Seed)
		p := ed25519.NewKeyFromSeed(seed)
		add(&Key{Name: e.Name, Kind: "ed25519", Bits: 256, ZPriv: p, ZPub: p.Public().(ed25519.PublicKey), StdPriv: p, StdPub: p.Public().(ed25519.PublicKey)})
	}
	for _, d := range f.DSA {
		zp := &zdsa.PrivateKey{X: bi(d.X)}
		zp.P, zp.Q, zp.G, zp.Y = bi(d.P), bi(d.Q), bi(d.G), bi(d.Y)
		sp := &stddsa.PrivateKey{X: bi(d.X)}
		sp.P, sp.Q, sp.G, sp.Y = bi(d.P), bi(d.Q), bi(d.G), bi(d.Y)
		add(&Key{Name: d.Name, Kind: "dsa", Bits: zp.P.BitLen(), ZPriv: zp, ZPub: &zp.PublicKey, StdPriv: sp, StdPub: &sp.PublicKey})
	}
}

// All returns every pool key (stable order; Index is the position).
func All() []*Key { once.Do(load); return all }

// Of returns the keys of one kind ("rsa", "ec", "ed25519", "dsa").
func Of(kind string) []*Key {
	var r []*Key
	for _, k := range All() {
		if k.Kind == kind {
			r = append(r, k)
		}
	}
	return r
}

// Get returns the key at pool index i (mod pool size).
func Get(i int) *Key { a := All(); return a[((i%len(a))+len(a))%len(a)] }

// ByName returns the named key or nil.
func ByName(n string) *Key {
	for _, k := range All() {
		if k.Name == n {
			return k
		}
	}
	return nil
}

// Signers are the keys usable as certificate keys (CreateCertificate accepts
// crypto.Signer keys: rsa, ec, ed25519).  RSA-512 is excluded (too small for
// SHA-512 PKCS#1 v1.5 / PSS signatures); use Of("rsa") when it is wanted.
func Signers() []*Key {
	var r []*Key
	for _, k := range All() {
		if k.Kind == "dsa" || (k.Kind == "rsa" && k.Bits < 1024) {
			continue
		}
		r = append(r, k)
	}
	return r
}

// Fast are the signer keys that are cheap to use (RSA <= 2048 two-prime,
// ECDSA P-256/P-384, Ed25519); meant for PKI/TLS generators where the key type
// matters but the size does not.
func Fast() []*Key {
	var r []*Key
	for _, k := range Signers() {
		switch k.Kind {
		case "rsa":
			if k.Bits > 2048 || k.NPrimes != 2 {
				continue
			}
		case "ec":
			if k.Curve != "P-256" && k.Curve != "P-384" {
				continue
			}
		}
		r = append(r, k)
	}
	return r
}
