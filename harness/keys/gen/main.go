//go:build ignore

// gen writes keys/keys.json: the fixed pool of test keys (run once, offline; the
// output is committed).  go run keys/gen/main.go
package main

import (
	"crypto/ecdsa"
	"crypto/ed25519"
	"crypto/elliptic"
	"crypto/rand"
	"encoding/hex"
	"encoding/json"
	"fmt"
	"os"

	zdsa "github.com/zmap/zcrypto/dsa"
	zrsa "github.com/zmap/zcrypto/rsa"
)

type RSA struct {
	Name   string `json:"name"`
	Bits   int    `json:"bits"`
	N, D   string
	E      string   `json:"e"`
	Primes []string `json:"primes"`
}
type EC struct {
	Name, Curve, D string
}
type Ed struct {
	Name, Seed string
}
type DSA struct {
	Name          string
	P, Q, G, X, Y string
}
type File struct {
	RSA []RSA
	EC  []EC
	Ed  []Ed
	DSA []DSA
}

func main() {
	var f File
	for _, s := range []struct{ bits, primes, n int }{{512, 2, 1}, {1024, 2, 2}, {1024, 3, 1}, {2048, 2, 3}, {2048, 3, 1}, {3072, 2, 1}, {3072, 4, 1}, {4096, 2, 1}, {4096, 5, 1}} {
		for i := 0; i < s.n; i++ {
			k, err := zrsa.GenerateMultiPrimeKey(rand.Reader, s.primes, s.bits)
			if err != nil {
				panic(err)
			}
			r := RSA{Name: fmt.Sprintf("rsa%d-p%d-%d", s.bits, s.primes, i), Bits: s.bits, N: k.N.String(), D: k.D.String(), E: k.E.String()}
			for _, p := range k.Primes {
				r.Primes = append(r.Primes, p.String())
			}
			f.RSA = append(f.RSA, r)
		}
	}
	for _, c := range []struct {
		name string
		c    elliptic.Curve
		n    int
	}{{"P-224", elliptic.P224(), 2}, {"P-256", elliptic.P256(), 3}, {"P-384", elliptic.P384(), 2}, {"P-521", elliptic.P521(), 2}} {
		for i := 0; i < c.n; i++ {
			k, err := ecdsa.GenerateKey(c.c, rand.Reader)
			if err != nil {
				panic(err)
			}
			f.EC = append(f.EC, EC{Name: fmt.Sprintf("ec%s-%d", c.name, i), Curve: c.name, D: k.D.String()})
		}
	}
	for i := 0; i < 3; i++ {
		_, priv, _ := ed25519.GenerateKey(rand.Reader)
		f.Ed = append(f.Ed, Ed{Name: fmt.Sprintf("ed25519-%d", i), Seed: hex.EncodeToString(priv.Seed())})
	}
	for _, s := range []struct {
		name string
		sz   zdsa.ParameterSizes
		n    int
	}{{"L1024N160", zdsa.L1024N160, 2}, {"L2048N224", zdsa.L2048N224, 1}, {"L2048N256", zdsa.L2048N256, 1}} {
		var params zdsa.Parameters
		if err := zdsa.GenerateParameters(&params, rand.Reader, s.sz); err != nil {
			panic(err)
		}
		for i := 0; i < s.n; i++ {
			k := &zdsa.PrivateKey{}
			k.Parameters = params
			if err := zdsa.GenerateKey(k, rand.Reader); err != nil {
				panic(err)
			}
			f.DSA = append(f.DSA, DSA{Name: fmt.Sprintf("dsa-%s-%d", s.name, i), P: k.P.String(), Q: k.Q.String(), G: k.G.String(), X: k.X.String(), Y: k.Y.String()})
		}
	}
	b, _ := json.MarshalIndent(f, "", " ")
	os.WriteFile("keys/keys.json", b, 0o644)
}
