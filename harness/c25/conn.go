package c25

import (
	"sort"
	"sync"
	"sync/atomic"
	"time"

	"github.com/zmap/zcrypto/tls"
	"verifharness/keys"
	"verifharness/tlskit"
)

// segConn is the receiver's transport.  Until Drain is called it passes reads
// through (handshake).  Afterwards the first Read collects everything the
// peer has sent up to the end of the stream and the data is handed out in
// segments of the planned sizes, so that the segmentation seen by the TLS
// layer is exactly the plan, independent of goroutine timing.
type segConn struct {
	*tlskit.End
	drain  atomic.Bool
	loaded bool
	buf    []byte
	end    error
	seg    []int
	i      int
	Reads  int
}

func (s *segConn) Drain() { s.drain.Store(true) }

func (s *segConn) Read(p []byte) (int, error) {
	if !s.drain.Load() {
		return s.End.Read(p)
	}
	if !s.loaded {
		tmp := make([]byte, 65536)
		for {
			n, err := s.End.Read(tmp)
			s.buf = append(s.buf, tmp[:n]...)
			if err != nil {
				s.end = err
				break
			}
		}
		s.loaded = true
	}
	if len(s.buf) == 0 {
		return 0, s.end
	}
	if len(p) == 0 {
		return 0, nil
	}
	n := 0
	if len(s.seg) > 0 {
		n = s.seg[s.i%len(s.seg)]
		s.i++
	}
	if n <= 0 || n > len(p) {
		n = len(p)
	}
	if n > len(s.buf) {
		n = len(s.buf)
	}
	copy(p, s.buf[:n])
	s.buf = s.buf[n:]
	s.Reads++
	return n, nil
}

// MatrixEntry is one (version, suite, server key) triple under which a
// zcrypto client and a zcrypto server complete a handshake and negotiate
// exactly that suite.
type MatrixEntry struct {
	Version uint16
	Suite   uint16
	Key     string
}

const (
	rsaKey = "rsa2048-p2-1"
	ecKey  = "ecP-256-0"
)

func configs(version, suite uint16, key string, noDyn, noBeast bool) (*tls.Config, *tls.Config) {
	id := tlskit.NewIdentity(keys.ByName(key), "example.test")
	cc := &tls.Config{RootCAs: id.Roots, ServerName: "example.test", Time: tlskit.Now, MinVersion: version, MaxVersion: version,
		CipherSuites: []uint16{suite}, ForceSuites: true, SessionTicketsDisabled: true,
		DynamicRecordSizingDisabled: noDyn, DisableTLS10BEASTMitigation: noBeast}
	sc := &tls.Config{Certificates: []tls.Certificate{id.Cert}, Time: tlskit.Now, MinVersion: version, MaxVersion: version,
		CipherSuites: []uint16{suite}, SessionTicketsDisabled: true,
		DynamicRecordSizingDisabled: noDyn, DisableTLS10BEASTMitigation: noBeast}
	return cc, sc
}

var (
	matrixOnce sync.Once
	matrix     []MatrixEntry
)

// usableMatrix probes every (version, suite, key kind) once.
func usableMatrix() []MatrixEntry {
	matrixOnce.Do(func() {
		seen := map[MatrixEntry]bool{}
		for _, s := range tls.VerifC25Suites() {
			vs := []uint16{v10, v11, v12}
			if s.TLS13 {
				vs = []uint16{v13}
			}
			for _, v := range vs {
				if _, ok := suiteFor(v, s.ID); !ok || s.DSS {
					continue
				}
				ks := []string{rsaKey}
				if s.ECSign {
					ks = []string{ecKey}
				}
				if s.TLS13 {
					ks = []string{rsaKey, ecKey}
				}
				for _, k := range ks {
					e := MatrixEntry{v, s.ID, k}
					if seen[e] {
						continue
					}
					seen[e] = true
					cc, sc := configs(v, s.ID, k, false, false)
					p := tlskit.NewProxy(nil)
					c, sv := tls.Client(p.Client, cc), tls.Server(p.Server, sc)
					res := tlskit.Handshake(c, sv, 10*time.Second)
					ok := res.ClientErr == nil && res.ServerErr == nil && !res.TimedOut &&
						c.ConnectionState().CipherSuite == s.ID && c.ConnectionState().Version == v
					c.Close()
					sv.Close()
					if ok {
						matrix = append(matrix, e)
					}
				}
			}
		}
		sort.Slice(matrix, func(i, j int) bool {
			a, b := matrix[i], matrix[j]
			if a.Version != b.Version {
				return a.Version < b.Version
			}
			if a.Suite != b.Suite {
				return a.Suite < b.Suite
			}
			return a.Key < b.Key
		})
	})
	return matrix
}
