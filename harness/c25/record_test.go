package c25

import (
	"bytes"
	"fmt"
	"sort"
	"testing"

	"github.com/zmap/zcrypto/tls"
	"pgregory.net/rapid"
	"verifharness/kit"
)

// ---------------------------------------------------------------------------
// record layer, directly (hook): zcrypto halfConn against the reference

type RecOp struct {
	Typ   uint8  `json:"typ"`
	Len   int    `json:"len"`
	Fill  uint8  `json:"fill"`
	Nonce []byte `json:"nonce,omitempty"` // sender randomness (explicit IV / nonce)
	Pad   int    `json:"pad"`             // reference writer: CBC padding_length (-1 minimal) / TLS 1.3 zero padding
}

type Fault struct {
	Rec  int    `json:"rec"`
	Kind string `json:"kind"` // flip | trunc | extend | replay | swap
	Pos  int    `json:"pos"`  // flip: byte offset (mod length); trunc: body bytes kept (mod); replay: earlier record (mod)
	Mask uint8  `json:"mask,omitempty"`
	Adj  bool   `json:"adj,omitempty"` // trunc/extend: also rewrite the header length
	Ext  []byte `json:"ext,omitempty"`
}

type RecCase struct {
	Version  uint16  `json:"version"`
	Suite    uint16  `json:"suite"`
	Key      []byte  `json:"key"` // TLS 1.3: traffic secret
	IV       []byte  `json:"iv"`
	MAC      []byte  `json:"mac"`
	Writer   string  `json:"writer"` // "z": zcrypto encrypts, "r": the reference encrypts
	Recs     []RecOp `json:"recs"`
	Faults   []Fault `json:"faults,omitempty"`
	Sweep    string  `json:"sweep,omitempty"` // exhaustive fault family on record SweepRec: bits | trunc | order
	SweepRec int     `json:"sweep_rec,omitempty"`
}

type combo struct{ version, suite uint16 }

// all (version, suite) pairs for which both zcrypto (suite table) and the
// RFCs define the record protection
var combos = func() []combo {
	seen := map[combo]bool{}
	var out []combo
	for _, s := range tls.VerifC25Suites() {
		vs := []uint16{v10, v11, v12}
		if s.TLS13 {
			vs = []uint16{v13}
		}
		for _, v := range vs {
			c := combo{v, s.ID}
			if _, ok := suiteFor(v, s.ID); ok && !seen[c] {
				seen[c] = true
				out = append(out, c)
			}
		}
	}
	sort.Slice(out, func(i, j int) bool {
		if out[i].version != out[j].version {
			return out[i].version < out[j].version
		}
		return out[i].suite < out[j].suite
	})
	return out
}()

// TLS 1.3 has only three suites: weight them up in the random draws
var comboPool = func() []combo {
	var out []combo
	for _, c := range combos {
		out = append(out, c)
		if c.version == v13 {
			out = append(out, c, c, c, c)
		}
	}
	return out
}()

func payload(op RecOp) []byte {
	b := make([]byte, op.Len)
	for i := range b {
		b[i] = op.Fill + byte(i*13) ^ byte(i>>8)
	}
	return b
}

type cyc struct {
	b []byte
	i int
}

func (c *cyc) Read(p []byte) (int, error) {
	for i := range p {
		if len(c.b) == 0 {
			p[i] = 0xa5
		} else {
			p[i] = c.b[c.i%len(c.b)]
			c.i++
		}
	}
	return len(p), nil
}

func newZ(c RecCase, forRead bool) (*tls.VerifC25Half, error) {
	if c.Version == v13 {
		return tls.VerifC25NewHalf13(c.Suite, c.Key)
	}
	return tls.VerifC25NewHalf(c.Version, c.Suite, c.Key, c.IV, c.MAC, forRead)
}

func versionName(v uint16) string {
	return map[uint16]string{v10: "tls10", v11: "tls11", v12: "tls12", v13: "tls13"}[v]
}

func clipb(b []byte) []byte {
	if len(b) > 40 {
		return b[:40]
	}
	return b
}

// zDecrypt calls zcrypto's decrypt on a copy (it works in place).
func zDecrypt(h *tls.VerifC25Half, rec []byte) ([]byte, uint8, error) {
	p, t, err := h.Decrypt(append([]byte(nil), rec...))
	return append([]byte(nil), p...), t, err
}

// explicitOf extracts the sender-chosen explicit IV/nonce from a record so
// that the reference writer can reproduce it.
func explicitOf(s refSuite, version uint16, rec []byte) []byte {
	switch {
	case version == v13:
		return nil
	case s.enc == "gcm":
		return rec[5:13]
	case s.isCBC() && version >= v11:
		return rec[5 : 5+s.blockSize()]
	}
	return nil
}

func checkRecord(c RecCase, r *kit.R) {
	s, ok := suiteFor(c.Version, c.Suite)
	if !ok || len(c.Recs) == 0 {
		r.Failf("harness:bad-case", "no reference for version %#x suite %#04x", c.Version, c.Suite)
	}
	r.Class(versionName(c.Version))
	r.Class("cipher=" + s.enc)
	r.Class("writer=" + c.Writer)
	zW, err := newZ(c, false)
	if err != nil {
		r.Failf("harness:bad-case", "zcrypto writer: %v", err)
	}
	rW, err := newRefHalf(c.Version, c.Suite, c.Key, c.IV, c.MAC)
	if err != nil {
		r.Failf("harness:bad-case", "reference writer: %v", err)
	}
	// ---- produce the records
	var recs, plains [][]byte
	maxLen := 0
	for i, op := range c.Recs {
		pl := payload(op)
		plains = append(plains, pl)
		if op.Len > maxLen {
			maxLen = op.Len
		}
		if c.Writer == "z" {
			rec, err := zW.Encrypt(op.Typ, pl, &cyc{b: op.Nonce})
			if err != nil {
				r.Failf("C25:record:encrypt-error", "encrypt record %d: %v", i, err)
			}
			rec = append([]byte(nil), rec...)
			// the same record from the RFC transcription (same explicit IV/nonce, minimal padding)
			minPad := -1
			if c.Version == v13 {
				minPad = 0
			}
			want, err := rW.encrypt(op.Typ, pl, encOpts{explicit: explicitOf(s, c.Version, rec), pad: minPad})
			if err != nil {
				r.Failf("harness:ref", "reference encrypt: %v", err)
			}
			if !bytes.Equal(rec, want) {
				r.Failf("C25:record:encrypt-format", "record %d (type %d, %d bytes) produced by zcrypto differs from the RFC construction:\n zcrypto %x...\n rfc     %x...", i, op.Typ, op.Len, clipb(rec), clipb(want))
			}
			if zW.Seq() != uint64(i+1) {
				r.Failf("C25:record:seq", "writer sequence number %d after %d records", zW.Seq(), i+1)
			}
			recs = append(recs, rec)
		} else {
			rec, err := rW.encrypt(op.Typ, pl, encOpts{explicit: op.Nonce, pad: op.Pad})
			if err != nil {
				r.Failf("harness:bad-case", "reference encrypt: %v", err)
			}
			if s.isCBC() && op.Pad >= s.blockSize() {
				r.Class("cbc-long-padding")
			}
			if c.Version == v13 && op.Pad > 0 {
				r.Class("tls13-padding")
			}
			recs = append(recs, rec)
		}
	}
	if maxLen >= 16383 {
		r.Class("payload>=16383")
	}
	// ---- baseline: everything is read back, in order
	zR, err := newZ(c, true)
	if err != nil {
		r.Failf("harness:bad-case", "zcrypto reader: %v", err)
	}
	rR, _ := newRefHalf(c.Version, c.Suite, c.Key, c.IV, c.MAC)
	for i, rec := range recs {
		got, typ, err := zDecrypt(zR, rec)
		if err != nil {
			r.Failf("C25:record:valid-rejected", "zcrypto decrypt rejected valid record %d written by %q (type %d, %d bytes): %v", i, c.Writer, c.Recs[i].Typ, c.Recs[i].Len, err)
		}
		if !bytes.Equal(got, plains[i]) || typ != c.Recs[i].Typ {
			r.Failf("C25:record:roundtrip", "record %d written by %q: decrypt returned type %d %x..., sent type %d %x...", i, c.Writer, typ, clipb(got), c.Recs[i].Typ, clipb(plains[i]))
		}
		if zR.Seq() != uint64(i+1) {
			r.Failf("C25:record:seq", "reader sequence number %d after %d records", zR.Seq(), i+1)
		}
		if c.Writer == "z" {
			got, typ, err := rR.decrypt(rec)
			if err != nil || !bytes.Equal(got, plains[i]) || typ != c.Recs[i].Typ {
				r.Failf("C25:record:encrypt-format", "the RFC reference cannot read record %d written by zcrypto: %v", i, err)
			}
		}
	}
	// ---- faults
	nt := s.isCBC() || maxLen >= 16383
	try := func(k int, mutated []byte, desc string) {
		if k >= len(recs) {
			return
		}
		if bytes.Equal(mutated, recs[k]) {
			return
		}
		nt = true
		if c.Version == v13 && len(mutated) > 0 && mutated[0] == 20 {
			r.Class("tls13-ccs-passthrough") // RFC 8446 D.4: not decrypted here; the connection level judges it
			return
		}
		zR2, _ := newZ(c, true)
		rR2, _ := newRefHalf(c.Version, c.Suite, c.Key, c.IV, c.MAC)
		for i := 0; i < k; i++ {
			if _, _, err := zDecrypt(zR2, recs[i]); err != nil {
				r.Failf("harness:replay-prefix", "prefix record %d rejected on replay: %v", i, err)
			}
			if _, _, err := rR2.decrypt(recs[i]); err != nil {
				r.Failf("harness:replay-prefix", "reference: prefix record %d rejected: %v", i, err)
			}
		}
		got, typ, zerr := zDecrypt(zR2, mutated)
		want, wtyp, rerr := rR2.decrypt(mutated)
		switch {
		case zerr == nil && rerr != nil:
			r.Failf("C25:record:forgery-accepted", "%s %s: zcrypto decrypt accepted a tampered record (%s) and returned type %d %x... (original %x...)",
				versionName(c.Version), fmt.Sprintf("%#04x", c.Suite), desc, typ, clipb(got), clipb(plains[k]))
		case zerr == nil && rerr == nil:
			// Up to TLS 1.2 the length field of the header is not an input of
			// decrypt (the MAC / additional data use the actual fragment length);
			// it only frames the stream, so a changed length is judged end to end.
			onlyLength := c.Version != v13 && len(mutated) == len(recs[k]) && bytes.Equal(mutated[:3], recs[k][:3]) && bytes.Equal(mutated[5:], recs[k][5:])
			if !onlyLength {
				r.Failf("C25:record:tampered-accepted", "%s %#04x: %s is accepted by zcrypto (and by the RFC reference) although the record differs from the one sent", versionName(c.Version), c.Suite, desc)
			}
			r.Class("fault-in-length-field-only(framing)")
			if !bytes.Equal(got, want) || typ != wtyp {
				r.Failf("C25:record:roundtrip", "%s: zcrypto and the reference disagree on a valid record: %x vs %x", desc, clipb(got), clipb(want))
			}
		case zerr != nil && rerr == nil:
			r.Failf("C25:record:valid-rejected", "%s: record is valid by the RFC construction but zcrypto rejected it: %v", desc, zerr)
		default:
			if zR2.Seq() != uint64(k) {
				r.Failf("C25:record:seq", "%s: sequence number advanced to %d on a rejected record", desc, zR2.Seq())
			}
		}
	}
	flip := func(k, pos int, mask uint8) []byte {
		m := append([]byte(nil), recs[k]...)
		m[pos] ^= mask
		return m
	}
	resize := func(k, body int, ext []byte, adj bool) []byte {
		m := append([]byte(nil), recs[k]...)
		if body < len(m)-5 {
			m = m[:5+body]
		}
		m = append(m, ext...)
		if adj {
			n := len(m) - 5
			m[3], m[4] = byte(n>>8), byte(n)
		}
		return m
	}
	switch c.Sweep {
	case "":
		for _, f := range c.Faults {
			k := f.Rec % len(recs)
			r.Class("fault=" + f.Kind)
			switch f.Kind {
			case "flip":
				if f.Mask == 0 {
					continue
				}
				pos := f.Pos % len(recs[k])
				if pos < 5 {
					r.Class("fault-in-header")
				}
				try(k, flip(k, pos, f.Mask), fmt.Sprintf("record %d byte %d xor %#02x", k, pos, f.Mask))
			case "trunc":
				body := len(recs[k]) - 5
				if body == 0 {
					continue
				}
				try(k, resize(k, f.Pos%body, nil, f.Adj), fmt.Sprintf("record %d body cut from %d to %d bytes (header adjusted: %v)", k, body, f.Pos%body, f.Adj))
			case "extend":
				if len(f.Ext) == 0 {
					continue
				}
				try(k, resize(k, len(recs[k]), f.Ext, f.Adj), fmt.Sprintf("record %d extended by %d bytes (header adjusted: %v)", k, len(f.Ext), f.Adj))
			case "replay":
				if k == 0 {
					continue
				}
				j := f.Pos % k
				try(k, recs[j], fmt.Sprintf("record %d replayed at position %d", j, k))
			case "swap":
				if k+1 < len(recs) {
					try(k, recs[k+1], fmt.Sprintf("record %d delivered before record %d", k+1, k))
				}
			}
		}
	case "bits":
		k := c.SweepRec % len(recs)
		for pos := range recs[k] {
			for bit := 0; bit < 8; bit++ {
				try(k, flip(k, pos, 1<<uint(bit)), fmt.Sprintf("record %d byte %d bit %d flipped", k, pos, bit))
			}
		}
		r.Class("sweep=bits")
	case "trunc":
		k := c.SweepRec % len(recs)
		for body := 0; body < len(recs[k])-5; body++ {
			try(k, resize(k, body, nil, false), fmt.Sprintf("record %d body cut to %d bytes", k, body))
			try(k, resize(k, body, nil, true), fmt.Sprintf("record %d body cut to %d bytes, header adjusted", k, body))
		}
		for _, n := range []int{1, 2, 8, 16, 17} {
			ext := bytes.Repeat([]byte{0x5c}, n)
			try(k, resize(k, len(recs[k]), ext, false), fmt.Sprintf("record %d extended by %d bytes", k, n))
			try(k, resize(k, len(recs[k]), ext, true), fmt.Sprintf("record %d extended by %d bytes, header adjusted", k, n))
		}
		r.Class("sweep=trunc+extend")
	case "order":
		for k := range recs {
			for j := range recs {
				if j != k {
					try(k, recs[j], fmt.Sprintf("record %d delivered at position %d", j, k))
				}
			}
		}
		r.Class("sweep=order")
	}
	if nt {
		r.NonTrivial()
	}
}

// ---- generator

func keyMaterial(t *rapid.T, c combo) (key, iv, mac []byte) {
	s, _ := suiteFor(c.version, c.suite)
	if c.version == v13 {
		n := 32
		if s.sha384 {
			n = 48
		}
		return rapid.SliceOfN(rapid.Byte(), n, n).Draw(t, "secret"), nil, nil
	}
	key = rapid.SliceOfN(rapid.Byte(), s.keyLen, s.keyLen).Draw(t, "key")
	iv = rapid.SliceOfN(rapid.Byte(), s.ivLen, s.ivLen).Draw(t, "iv")
	mac = rapid.SliceOfN(rapid.Byte(), s.macLen, s.macLen).Draw(t, "mac")
	if iv == nil {
		iv = []byte{}
	}
	if mac == nil {
		mac = []byte{}
	}
	return
}

var smallLens = []int{0, 1, 2, 3, 7, 8, 11, 12, 13, 15, 16, 17, 27, 28, 31, 32, 33, 43, 44, 47, 48, 63, 64, 100, 255, 256, 1000}

func genRecCase(t *rapid.T) RecCase {
	cb := comboPool[int((uint64(rapid.Uint32().Draw(t, "combo"))*2654435761>>9)%uint64(len(comboPool)))]
	s, _ := suiteFor(cb.version, cb.suite)
	c := RecCase{Version: cb.version, Suite: cb.suite, Writer: rapid.SampledFrom([]string{"z", "r"}).Draw(t, "writer")}
	c.Key, c.IV, c.MAC = keyMaterial(t, cb)
	n := rapid.IntRange(1, 5).Draw(t, "nrecs")
	big := rapid.IntRange(0, 7).Draw(t, "big") == 0
	for i := 0; i < n; i++ {
		op := RecOp{Typ: rapid.SampledFrom([]uint8{23, 23, 23, 22, 21}).Draw(t, "typ"), Fill: rapid.Byte().Draw(t, "fill"), Pad: -1}
		if big && i == n-1 {
			op.Len = rapid.SampledFrom([]int{16384, 16383, 16000, 5000}).Draw(t, "len")
		} else {
			op.Len = rapid.SampledFrom(smallLens).Draw(t, "len")
		}
		nl := 0
		switch {
		case cb.version == v13:
		case s.enc == "gcm":
			nl = 8
		case s.isCBC() && cb.version >= v11:
			nl = s.blockSize()
		}
		if nl > 0 {
			op.Nonce = rapid.SliceOfN(rapid.Byte(), nl, nl).Draw(t, "nonce")
		}
		if c.Writer == "r" {
			switch {
			case s.isCBC():
				bs := s.blockSize()
				min := bs - 1 - (op.Len+s.macLen)%bs
				k := rapid.IntRange(0, (255-min)/bs).Draw(t, "padblocks")
				if rapid.IntRange(0, 2).Draw(t, "padmin") == 0 {
					k = 0
				}
				op.Pad = min + k*bs
			case cb.version == v13:
				op.Pad = 0
				if room := 16384 - op.Len; room > 0 && rapid.Bool().Draw(t, "pad13") {
					if room > 300 {
						room = 300
					}
					op.Pad = rapid.IntRange(1, room).Draw(t, "pad13n")
				}
			}
		}
		if cb.version == v13 && op.Pad < 0 {
			op.Pad = 0
		}
		c.Recs = append(c.Recs, op)
	}
	nf := rapid.IntRange(0, 4).Draw(t, "nfaults")
	for i := 0; i < nf; i++ {
		f := Fault{Rec: rapid.IntRange(0, n-1).Draw(t, "frec"), Kind: rapid.SampledFrom([]string{"flip", "flip", "flip", "trunc", "extend", "replay", "swap"}).Draw(t, "fkind")}
		switch f.Kind {
		case "flip":
			switch rapid.IntRange(0, 3).Draw(t, "fwhere") {
			case 0:
				f.Pos = rapid.IntRange(0, 4).Draw(t, "fpos") // header
			case 1:
				f.Pos = 1<<20 - 1 - rapid.IntRange(0, 40).Draw(t, "fpos") // near the end (tag / MAC / padding) after the modulo
			default:
				f.Pos = rapid.IntRange(0, 20000).Draw(t, "fpos")
			}
			f.Mask = rapid.SampledFrom([]uint8{1, 2, 4, 8, 16, 32, 64, 128, 0xff, 0x03}).Draw(t, "fmask")
		case "trunc":
			f.Pos = rapid.IntRange(0, 20000).Draw(t, "fpos")
			f.Adj = rapid.Bool().Draw(t, "fadj")
		case "extend":
			f.Ext = rapid.SliceOfN(rapid.Byte(), 1, 33).Draw(t, "fext")
			f.Adj = rapid.Bool().Draw(t, "fadj")
		case "replay":
			f.Pos = rapid.IntRange(0, 4).Draw(t, "fpos")
		}
		c.Faults = append(c.Faults, f)
	}
	return c
}

const recRule = "record layer through the hook: a (version, suite) pair from all pairs defined by the suite tables x TLS 1.0-1.3, random keys/IVs (TLS 1.3: random traffic secret), 1-5 records of type 23/22/21 with payload sizes around the block boundaries and up to 16384, written either by zcrypto's halfConn.encrypt or by the RFC-transcribed reference (CBC: every valid padding length up to 255, TLS 1.3: zero padding); up to 4 faults (bit flips in header/nonce/body/MAC/tag/padding, body truncation, extension, replay of an earlier record, delivery out of order), each applied to a fresh reader that has consumed the untouched prefix. Non-trivial: a case with at least one effective fault, a CBC suite or a payload >= 16383; distinct by case hash."

func TestPropRecord(t *testing.T) {
	kit.Run(t, kit.Spec[RecCase]{ID: "C25", Name: "record", Rule: recRule, Gen: genRecCase, Check: checkRecord, Quick: 5000, Thorough: 60000, Assumptions: assumptions})
}

// TestPropRecordFaults enumerates, for every (version, suite) pair and fixed
// keys, every single-bit flip, every truncation/extension and every
// misordering of three small records.
func TestPropRecordFaults(t *testing.T) {
	kit.Run(t, kit.Spec[RecCase]{ID: "C25", Name: "record-faults", Check: checkRecord, Assumptions: assumptions,
		Rule: "exhaustive fault enumeration at the record layer: for every (version, suite) pair, fixed keys and three records (0, 1 and 37 payload bytes, written by zcrypto), EVERY single-bit flip of every record, every body truncation (with and without header adjustment), extensions by 1/2/8/16/17 bytes and every delivery of record j in place of record k must be rejected by halfConn.decrypt (and by the reference). Every case is non-trivial.",
		Enum: func(shard, nshards int, yield func(RecCase) bool) {
			i := 0
			for _, cb := range combos {
				s, _ := suiteFor(cb.version, cb.suite)
				for _, sweep := range []string{"bits", "trunc", "order"} {
					for k := 0; k < 3; k++ {
						if sweep == "order" && k > 0 {
							continue
						}
						if i++; i%nshards != shard {
							continue
						}
						c := RecCase{Version: cb.version, Suite: cb.suite, Writer: "z", Sweep: sweep, SweepRec: k}
						fillb := func(n int, seed byte) []byte {
							b := make([]byte, n)
							for j := range b {
								b[j] = seed + byte(j*31)
							}
							return b
						}
						if cb.version == v13 {
							n := 32
							if s.sha384 {
								n = 48
							}
							c.Key = fillb(n, byte(cb.suite))
						} else {
							c.Key, c.IV, c.MAC = fillb(s.keyLen, byte(cb.suite)), fillb(s.ivLen, byte(cb.suite>>8)), fillb(s.macLen, byte(cb.version))
						}
						for _, l := range []int{0, 1, 37} {
							c.Recs = append(c.Recs, RecOp{Typ: 23, Len: l, Fill: byte(l), Nonce: fillb(16, byte(l+1)), Pad: -1})
						}
						if !yield(c) {
							return
						}
					}
				}
			}
		}})
}

// ---------------------------------------------------------------------------
// extractPadding against the plain padding check

type PadCase struct {
	Len     int   `json:"len"`     // payload length
	PadByte uint8 `json:"pad"`     // value of the last byte and of the padding bytes
	Corrupt int   `json:"corrupt"` // -1: none; else offset from the end of the byte that is altered
	Xor     uint8 `json:"xor"`
	Body    uint8 `json:"body"` // value of the non-padding bytes
}

func checkPadding(c PadCase, r *kit.R) {
	b := bytes.Repeat([]byte{c.Body}, c.Len)
	for i := 0; i < c.Len && i <= int(c.PadByte); i++ {
		b[c.Len-1-i] = c.PadByte
	}
	if c.Corrupt >= 0 && c.Corrupt < c.Len && c.Xor != 0 {
		b[c.Len-1-c.Corrupt] ^= c.Xor
		r.Class("corrupted")
	}
	toRemove, good := tls.VerifC25ExtractPadding(append([]byte(nil), b...))
	pad, ok := refPadding(b)
	switch {
	case c.Len == 0:
		r.Class("empty")
		if toRemove != 0 || good != 0 {
			r.Failf("C25:padding:empty", "extractPadding(empty) = (%d, %d), want (0, 0)", toRemove, good)
		}
		return
	case ok:
		r.Class("valid")
		if good != 255 || toRemove != pad+1 {
			r.Failf("C25:padding:valid-rejected", "extractPadding on valid padding %d of a %d-byte payload = (%d, %d), want (%d, 255)", pad, c.Len, toRemove, good, pad+1)
		}
	default:
		r.Class("invalid")
		if int(b[len(b)-1]) >= len(b) {
			r.Class("padding-longer-than-payload")
		}
		if good != 0 {
			r.Failf("C25:padding:invalid-accepted", "extractPadding accepted invalid padding: payload len %d tail %x -> (%d, %d)", c.Len, clipTail(b), toRemove, good)
		}
		if toRemove != 1 {
			r.Failf("C25:padding:invalid-toremove", "extractPadding on invalid padding returned toRemove %d (documented: padding length zeroed, i.e. 1)", toRemove)
		}
	}
	r.NonTrivial()
}

func clipTail(b []byte) []byte {
	if len(b) > 24 {
		return b[len(b)-24:]
	}
	return b
}

func TestPropPadding(t *testing.T) {
	lens := []int{0, 1, 2, 3, 7, 8, 9, 15, 16, 17, 31, 32, 33, 48, 64, 100, 255, 256, 257, 258, 300, 512}
	kit.Run(t, kit.Spec[PadCase]{ID: "C25", Name: "padding", Check: checkPadding, Assumptions: assumptions,
		Rule: "exhaustive: extractPadding vs the plain RFC 5246 s.6.2.3.2 check for payload lengths {0..3,7..9,15..17,31..33,48,64,100,255..258,300,512} x every padding byte 0..255 x {intact, one altered byte at each offset 0..min(len,258)-1 from the end (xor 0x01 and 0x80)}; result (good, toRemove) must be (255, p+1) for valid and (0, 1) for invalid padding. Every non-empty case is non-trivial.",
		Enum: func(shard, nshards int, yield func(PadCase) bool) {
			i := 0
			for _, l := range lens {
				for p := 0; p < 256; p++ {
					maxOff := l
					if maxOff > 258 {
						maxOff = 258
					}
					for off := -1; off < maxOff; off++ {
						for _, x := range []uint8{0x01, 0x80} {
							if off == -1 && x != 0x01 {
								continue
							}
							if i++; i%nshards != shard {
								continue
							}
							if !yield(PadCase{Len: l, PadByte: uint8(p), Corrupt: off, Xor: x, Body: uint8(p) ^ 0x55}) {
								return
							}
						}
					}
				}
			}
		}})
}
