package c25

// TLS 1.3 KeyUpdate (RFC 8446 section 4.6.3).  zcrypto never initiates a key
// update, but every peer may: a KeyUpdate arrives in the middle of the
// application data stream, the receiver must switch its receiving keys exactly
// there and, when asked (update_requested), answer with a KeyUpdate of its own
// and switch its sending keys.  "Application data arrives intact or not at all"
// has to hold across such switches, in both directions, also when the answer
// cannot be written because the receiver's transport no longer accepts writes.
//
// The initiating peer is a zcrypto connection driven through the verif hook
// tls.VerifC25SendKeyUpdate (sends the message and advances the sending keys).

import (
	"bytes"
	"fmt"
	"io"
	"net"
	"sync/atomic"
	"testing"
	"time"

	"github.com/zmap/zcrypto/tls"
	"pgregory.net/rapid"
	"verifharness/keys"
	"verifharness/kit"
	"verifharness/tlskit"
)

type KUOp struct {
	// K: "write" (N bytes), "update" (KeyUpdate, update_not_requested), "update-req" (update_requested)
	K string `json:"k"`
	N int    `json:"n,omitempty"`
}

type KUCase struct {
	Suite           uint16 `json:"suite"`
	Key             string `json:"key"`
	SenderIsServer  bool   `json:"sender_is_server"`
	Ops             []KUOp `json:"ops"`  // first direction: sender -> receiver
	Back            []KUOp `json:"back"` // afterwards: receiver -> sender (skipped when BreakWrites)
	BreakWrites     bool   `json:"break_writes"` // the receiver's transport rejects writes once the handshake is done
	ReadBuf         int    `json:"read_buf"`
	Tickets         bool   `json:"tickets"`
	ReceiverCloseWr bool   `json:"receiver_closewrite"` // receiver sends close_notify before it starts reading
}

// brokenWrites fails every Write once armed (a peer that went away for writing purposes: the
// reading direction keeps working, as with a half-closed TCP connection).
type brokenWrites struct {
	net.Conn
	armed atomic.Bool
}

func (b *brokenWrites) Write(p []byte) (int, error) {
	if b.armed.Load() {
		return 0, io.ErrClosedPipe
	}
	return b.Conn.Write(p)
}

func kuPattern(dir, i int) byte { return byte(i*17 + i>>7 + dir*101 + 3) }

// runDirection lets `from` execute ops and CloseWrite while `to` reads to the end; returns what arrived.
func runDirection(r *kit.R, what string, dir int, from, to *tls.Conn, ops []KUOp, readBuf int, closeWrite bool, limit time.Duration) (want, got []byte, rerr error) {
	type wres struct {
		err error
		at  int
	}
	wdone := make(chan wres, 1)
	for _, op := range ops {
		if op.K == "write" {
			base := len(want)
			for j := 0; j < op.N; j++ {
				want = append(want, kuPattern(dir, base+j))
			}
		}
	}
	go func() {
		pos := 0
		for i, op := range ops {
			var err error
			switch op.K {
			case "write":
				_, err = from.Write(want[pos : pos+op.N])
				pos += op.N
			case "update":
				err = tls.VerifC25SendKeyUpdate(from, false)
			case "update-req":
				err = tls.VerifC25SendKeyUpdate(from, true)
			}
			if err != nil {
				wdone <- wres{err, i}
				return
			}
		}
		if closeWrite {
			wdone <- wres{from.CloseWrite(), -1}
			return
		}
		wdone <- wres{nil, -1}
	}()
	type rres struct {
		got []byte
		err error
	}
	rdone := make(chan rres, 1)
	go func() {
		var out rres
		buf := make([]byte, readBuf)
		for len(out.got) < len(want) || closeWrite {
			n, err := to.Read(buf)
			out.got = append(out.got, buf[:n]...)
			if err != nil {
				out.err = err
				break
			}
		}
		rdone <- out
	}()
	select {
	case rr := <-rdone:
		got, rerr = rr.got, rr.err
	case <-time.After(limit):
		r.Failf("C25:key-update:hang", "%s: the reader did not reach the end of the stream within %v", what, limit)
	}
	select {
	case w := <-wdone:
		if w.err != nil {
			r.Failf("C25:key-update:sender", "%s: the sending side failed at step %d: %v", what, w.at, w.err)
		}
	case <-time.After(limit):
		r.Failf("C25:key-update:hang", "%s: the writer did not finish within %v", what, limit)
	}
	return want, got, rerr
}

func checkKU(c KUCase, r *kit.R) {
	limit := kit.WatchdogSeconds()
	px := tlskit.NewProxy(nil)
	id := tlskit.NewIdentity(keys.ByName(c.Key), "example.test")
	ccfg := &tls.Config{Time: tlskit.Now, RootCAs: id.Roots, ServerName: "example.test", MinVersion: tls.VersionTLS13, MaxVersion: tls.VersionTLS13, CipherSuites: []uint16{c.Suite}}
	scfg := &tls.Config{Time: tlskit.Now, Certificates: []tls.Certificate{id.Cert}, MinVersion: tls.VersionTLS13, MaxVersion: tls.VersionTLS13, SessionTicketsDisabled: !c.Tickets}
	if c.Tickets {
		ccfg.ClientSessionCache = tls.NewLRUClientSessionCache(2)
	}
	var ctr, str net.Conn = px.Client, px.Server
	bw := &brokenWrites{}
	if c.SenderIsServer { // the receiver is the client
		bw.Conn = px.Client
		ctr = bw
	} else {
		bw.Conn = px.Server
		str = bw
	}
	cc, sc := tls.Client(ctr, ccfg), tls.Server(str, scfg)
	defer func() {
		px.Client.Close()
		px.Server.Close()
	}()
	res := tlskit.Handshake(cc, sc, limit)
	if res.ClientErr != nil || res.ServerErr != nil || res.TimedOut {
		r.Failf("C25:key-update:setup", "genuine TLS 1.3 handshake failed: %+v", res)
	}
	if cs := cc.ConnectionState(); cs.Version != tls.VersionTLS13 || cs.CipherSuite != c.Suite {
		r.Class("negotiated-something-else")
		r.Skip()
	}
	sender, receiver := cc, sc
	if c.SenderIsServer {
		sender, receiver = sc, cc
	}
	if c.ReceiverCloseWr {
		if err := receiver.CloseWrite(); err != nil {
			r.Failf("C25:key-update:setup", "receiver CloseWrite: %v", err)
		}
		r.Class("receiver sent close_notify first")
	}
	if c.BreakWrites {
		bw.armed.Store(true)
		r.Class("receiver transport rejects writes")
	}
	nUpd, nReq := 0, 0
	for _, op := range c.Ops {
		switch op.K {
		case "update":
			nUpd++
		case "update-req":
			nReq++
		}
	}
	r.Class(fmt.Sprintf("suite=%04x sender=%s", c.Suite, map[bool]string{true: "server", false: "client"}[c.SenderIsServer]))
	if nUpd > 0 {
		r.Class("KeyUpdate(update_not_requested) in the stream")
	}
	if nReq > 0 {
		r.Class("KeyUpdate(update_requested) in the stream")
	}
	want, got, rerr := runDirection(r, "sender->receiver", 0, sender, receiver, c.Ops, c.ReadBuf, true, limit)
	if !bytes.Equal(got, want) {
		i := 0
		for i < len(got) && i < len(want) && got[i] == want[i] {
			i++
		}
		r.Failf("C25:key-update:stream", "sender->receiver: %d of %d bytes arrived (first difference at %d), Read ended with %v; %d KeyUpdates without and %d with update_requested in the stream, break_writes=%v", len(got), len(want), i, rerr, nUpd, nReq, c.BreakWrites)
	}
	if rerr != io.EOF {
		r.Failf("C25:key-update:end", "sender->receiver: the stream arrived completely but Read ended with %v instead of io.EOF", rerr)
	}
	if nUpd+nReq > 0 {
		r.NonTrivial()
	}
	if c.BreakWrites || c.ReceiverCloseWr || len(c.Back) == 0 {
		return
	}
	// the way back: the receiver's sending keys must be the generation the sender now expects
	// (one step per answered update_requested), and it may send KeyUpdates of its own
	want2, got2, rerr2 := runDirection(r, "receiver->sender", 1, receiver, sender, c.Back, c.ReadBuf, false, limit)
	if !bytes.Equal(got2, want2) {
		r.Failf("C25:key-update:stream-back", "receiver->sender after %d answered update requests: %d of %d bytes arrived, Read ended with %v", nReq, len(got2), len(want2), rerr2)
	}
	r.Class("both directions")
}

func genKUOps(t *rapid.T, label string) []KUOp {
	n := rapid.IntRange(1, 6).Draw(t, label+"-n")
	var ops []KUOp
	for i := 0; i < n; i++ {
		switch rapid.IntRange(0, 4).Draw(t, label+"-kind") {
		case 0:
			ops = append(ops, KUOp{K: "update"})
		case 1:
			ops = append(ops, KUOp{K: "update-req"})
		default:
			ops = append(ops, KUOp{K: "write", N: rapid.SampledFrom([]int{1, 2, 100, 1000, 16384, 16385, 40000}).Draw(t, label+"-size")})
		}
	}
	return ops
}

func genKU(t *rapid.T) KUCase {
	c := KUCase{Suite: rapid.SampledFrom([]uint16{tls.TLS_AES_128_GCM_SHA256, tls.TLS_AES_256_GCM_SHA384, tls.TLS_CHACHA20_POLY1305_SHA256}).Draw(t, "suite")}
	c.Key = rapid.SampledFrom([]string{"ecP-256-0", "rsa2048-p2-1", "ed25519-0"}).Draw(t, "key")
	c.SenderIsServer = rapid.Bool().Draw(t, "sender-is-server")
	c.Tickets = rapid.Bool().Draw(t, "tickets")
	c.Ops = genKUOps(t, "ops")
	switch rapid.IntRange(0, 5).Draw(t, "receiver-mode") {
	case 0:
		c.BreakWrites = true
	case 1:
		c.ReceiverCloseWr = true
	default:
		c.Back = genKUOps(t, "back")
	}
	c.ReadBuf = rapid.SampledFrom([]int{1, 13, 4096, 20000}).Draw(t, "readbuf")
	return c
}

func TestPropKeyUpdate(t *testing.T) {
	kit.Run(t, kit.Spec[KUCase]{ID: "C25", Name: "key-update", Gen: genKU, Check: checkKU, Quick: 400, Thorough: 8000,
		Rule: "a completed TLS 1.3 handshake (three suites; ECDSA, RSA, Ed25519 identities; tickets on/off); one side sends 1-6 steps {application data of 1..40000 bytes, KeyUpdate(update_not_requested), KeyUpdate(update_requested)} through the verif hook and CloseWrite, the other side reads to the end (buffer 1..20000); in 1 case of 6 the reader's transport rejects all writes (its KeyUpdate answer cannot be sent), in 1 of 6 the reader has already sent close_notify; otherwise the reader afterwards sends such a sequence of its own, which the first side reads. Received bytes must equal sent bytes in both directions, the first direction must end in io.EOF. Non-trivial: at least one KeyUpdate in the first direction; distinct by case hash",
		Assumptions: []string{
			"the initiating peer is a zcrypto connection whose KeyUpdate is sent by the verif hook VerifC25SendKeyUpdate (message + next sending keys, RFC 8446 section 7.2); zcrypto has no public API for it",
			"a transport that rejects writes while still delivering reads models a half-closed connection",
		}})
}
