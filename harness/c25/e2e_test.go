package c25

import (
	"bytes"
	"fmt"
	"io"
	"sync"
	"testing"
	"time"

	"github.com/zmap/zcrypto/tls"
	"pgregory.net/rapid"
	"verifharness/kit"
	"verifharness/tlskit"
)

var assumptions = []string{
	"Trusted primitives shared with zcrypto: AES, 3DES, RC4, GCM, HMAC, SHA-1/256/384 of the Go standard library and x/crypto/chacha20poly1305; the constructions built from them (nonces, additional data, MAC input, padding, record framing) are what is checked.",
	"Record-layer hook domain: complete records (5-byte header present), record types 21/22/23; a TLS 1.3 record whose outer type is turned into change_cipher_spec is not judged at the hook level (RFC 8446 D.4 - the connection level rejects it, which the end-to-end check observes).",
	"End-to-end: (version, suite, server key) triples are those under which a zcrypto client and server actually negotiate the requested suite (65 triples; DSS suites and TLS_ECDHE_ECDSA_WITH_3DES_EDE_CBC_SHA never negotiate and are covered at the record layer only); the client sets ForceSuites. The writer writes everything and closes before the reader starts, so the transport segmentation seen by the reader is exactly the planned one.",
	"A stream that ends (all remaining records dropped) is reported by zcrypto as io.EOF at a record boundary; this counts as 'returns an error' (the delivered data is a prefix).",
}

// WireFault is applied by the proxy to post-handshake record number Rec of the tested direction.
type WireFault struct {
	Rec  int    `json:"rec"`
	Kind string `json:"kind"` // modify | drop | dup | swap | dropbyte | dupbyte
	Pos  int    `json:"pos"`  // byte offset (mod record length)
	Mask uint8  `json:"mask,omitempty"`
}

type E2ECase struct {
	Version uint16 `json:"version"`
	Suite   uint16 `json:"suite"`
	Key     string `json:"key"`
	Dir     int    `json:"dir"`    // 0: client writes, server reads; 1: server writes, client reads
	Writes  []int  `json:"writes"` // sizes of the successive Write calls
	Fill    uint8  `json:"fill"`
	Seg     []int  `json:"seg"` // reader-side transport segmentation (cyclic segment sizes, 0 = unlimited)
	// ReadSizes: sizes of the buffers handed to the reader's successive Read calls (cyclic;
	// empty = one 40000-byte buffer, larger than any record).  Small buffers leave part of a
	// record pending inside the connection between Read calls.  Used only when the case
	// plans no wire fault (see the read loop).
	ReadSizes []int       `json:"read_sizes,omitempty"`
	NoDynamic bool        `json:"no_dynamic,omitempty"`
	NoBeast   bool        `json:"no_beast,omitempty"`
	Faults    []WireFault `json:"faults,omitempty"`
}

func stream(fill uint8, n int) []byte {
	b := make([]byte, n)
	for i := range b {
		b[i] = fill + byte(i) ^ byte(i>>8)*31 ^ byte(i>>16)*7
	}
	return b
}

// plaintextBound returns the largest plaintext a record with the given
// fragment length can carry, and whether the bound is exact.
func plaintextBound(version uint16, s refSuite, fragLen int) (n int, exact bool) {
	switch {
	case version == v13:
		return fragLen - 16 - 1, true // tag + inner content type (zcrypto sends no padding)
	case s.enc == "gcm":
		return fragLen - 8 - 16, true
	case s.enc == "chacha":
		return fragLen - 16, true
	case s.enc == "rc4":
		return fragLen - s.macLen, true
	default:
		n = fragLen - s.macLen - 1
		if version >= v11 {
			n -= s.blockSize()
		}
		return n, false
	}
}

type faultHook struct {
	mu     sync.Mutex
	armed  bool
	dir    int
	base   int
	faults []WireFault
	held   []byte
	fired  map[int]string // relative record index -> kind
	wire   [][]byte       // post-handshake records of the direction as sent
	fwd    []byte         // the byte stream actually forwarded to the reader
}

func (h *faultHook) hook(rec tlskit.Record) ([][]byte, bool) {
	h.mu.Lock()
	defer h.mu.Unlock()
	if !h.armed || rec.Dir != h.dir {
		return nil, true
	}
	i := rec.Index - h.base
	h.wire = append(h.wire, rec.Raw)
	raw := append([]byte(nil), rec.Raw...)
	var out [][]byte
	emit := true
	for _, f := range h.faults {
		if f.Rec != i || len(raw) == 0 {
			continue
		}
		switch f.Kind {
		case "modify":
			if f.Mask != 0 {
				raw[f.Pos%len(raw)] ^= f.Mask
				h.fired[i] = f.Kind
			}
		case "drop":
			emit = false
			h.fired[i] = f.Kind
		case "dup":
			out = append(out, append([]byte(nil), raw...))
			h.fired[i] = f.Kind
		case "swap":
			if h.held == nil {
				h.held = raw
				emit = false
				h.fired[i] = f.Kind
			}
		case "dropbyte":
			p := f.Pos % len(raw)
			raw = append(raw[:p:p], raw[p+1:]...)
			h.fired[i] = f.Kind
		case "dupbyte":
			p := f.Pos % len(raw)
			raw = append(raw[:p+1:p+1], raw[p:]...)
			h.fired[i] = f.Kind
		}
	}
	if emit {
		out = append(out, raw)
		if h.held != nil && h.fired[i] != "swap" {
			out = append(out, h.held) // the held record follows its successor
			h.held = nil
		}
	}
	for _, ch := range out {
		h.fwd = append(h.fwd, ch...)
	}
	if len(out) == 0 {
		return nil, false
	}
	return out, true
}

func checkE2E(c E2ECase, r *kit.R) {
	s, ok := suiteFor(c.Version, c.Suite)
	if !ok {
		r.Failf("harness:bad-case", "no parameters for %#x/%#04x", c.Version, c.Suite)
	}
	r.Class(versionName(c.Version))
	r.Class("cipher=" + s.enc)
	r.Class(fmt.Sprintf("dir=%d", c.Dir))
	total := 0
	bigWrite := false
	for _, w := range c.Writes {
		total += w
		if w > 16384 {
			bigWrite = true
		}
	}
	sent := stream(c.Fill, total)

	hk := &faultHook{dir: c.Dir, faults: c.Faults, fired: map[int]string{}}
	p := tlskit.NewProxy(hk.hook)
	cc, sc := configs(c.Version, c.Suite, c.Key, c.NoDynamic, c.NoBeast)
	var rdEnd *segConn
	var client, server *tls.Conn
	if c.Dir == 0 {
		rdEnd = &segConn{End: p.Server, seg: c.Seg}
		client, server = tls.Client(p.Client, cc), tls.Server(rdEnd, sc)
	} else {
		rdEnd = &segConn{End: p.Client, seg: c.Seg}
		client, server = tls.Client(rdEnd, cc), tls.Server(p.Server, sc)
	}
	var delivered []byte
	var reads []int
	var termErr error
	var writeErr, hsErr error
	wroteAll := false
	g := kit.GuardT(60*time.Second, func() {
		res := tlskit.Handshake(client, server, 20*time.Second)
		if res.ClientErr != nil || res.ServerErr != nil || res.TimedOut {
			hsErr = fmt.Errorf("handshake: %+v", res)
			return
		}
		if st := client.ConnectionState(); st.CipherSuite != c.Suite || st.Version != c.Version {
			hsErr = fmt.Errorf("handshake negotiated %#x/%#04x", st.Version, st.CipherSuite)
			return
		}
		wr, rd := client, server
		if c.Dir == 1 {
			wr, rd = server, client
		}
		hk.mu.Lock()
		hk.base = len(p.T.Records(c.Dir))
		hk.armed = true
		hk.mu.Unlock()
		// the writer writes everything and closes (never blocks: the transport queues)
		off := 0
		wroteAll = true
		for _, w := range c.Writes {
			n, err := wr.Write(sent[off : off+w])
			if err != nil || n != w {
				wroteAll = false
				writeErr = fmt.Errorf("Write(%d bytes) = %d, %v", w, n, err)
				break
			}
			off += w
		}
		wr.Close()
		// now the reader
		rdEnd.Drain()
		buf := make([]byte, 40000)
		for {
			b := buf
			// only without planned faults: the tamper oracle below counts delivered records
			// as Read calls, which needs a buffer that holds a whole record
			if len(c.ReadSizes) > 0 && len(c.Faults) == 0 {
				if sz := c.ReadSizes[len(reads)%len(c.ReadSizes)]; sz > 0 && sz < len(buf) {
					b = buf[:sz]
				}
			}
			n, err := rd.Read(b)
			if n > 0 {
				delivered = append(delivered, buf[:n]...)
				reads = append(reads, n)
			}
			if err != nil {
				termErr = err
				break
			}
			if len(reads) > 100000+2*len(sent) {
				termErr = fmt.Errorf("harness: reader does not terminate")
				break
			}
		}
		rd.Close()
		p.Wait()
	})
	r.Must(g, "e2e exchange")
	if hsErr != nil {
		r.Failf("harness:handshake", "%s %#04x %s: %v", versionName(c.Version), c.Suite, c.Key, hsErr)
	}
	if !wroteAll {
		r.Failf("C25:e2e:write-error", "%s %#04x: %v", versionName(c.Version), c.Suite, writeErr)
	}

	// ---- what went over the wire (before the faults): no record above 2^14 plaintext bytes
	hk.mu.Lock()
	wire, fired, fwd := hk.wire, hk.fired, hk.fwd
	hk.mu.Unlock()
	// genuine = number of leading records that reached the reader byte for byte
	// (the longest common prefix of the stream sent and the stream forwarded)
	var sentWire []byte
	for _, raw := range wire {
		sentWire = append(sentWire, raw...)
	}
	lcp := 0
	for lcp < len(sentWire) && lcp < len(fwd) && sentWire[lcp] == fwd[lcp] {
		lcp++
	}
	tampered := !bytes.Equal(sentWire, fwd)
	genuine, end := 0, 0
	for _, raw := range wire {
		end += len(raw)
		if end > lcp {
			break
		}
		genuine++
	}
	for i, raw := range wire {
		if len(raw) < 5 {
			continue
		}
		frag := int(raw[3])<<8 | int(raw[4])
		if frag != len(raw)-5 {
			r.Failf("C25:e2e:record-framing", "record %d: header length %d, %d bytes on the wire", i, frag, len(raw)-5)
		}
		bound, exact := plaintextBound(c.Version, s, frag)
		limit := 16384
		if !exact {
			limit += s.blockSize() - 1 // CBC: the fragment length determines the plaintext length only up to the padding
		}
		if bound > limit {
			r.Failf("C25:e2e:record-too-large", "%s %#04x: record %d carries %d (exact: %v) plaintext bytes in a %d-byte fragment, more than 2^14", versionName(c.Version), c.Suite, i, bound, exact, frag)
		}
		if bound >= 16384 {
			r.Class("full-size-record")
		}
	}

	// ---- delivery
	firstFault := -1
	for k := range fired {
		if firstFault < 0 || k < firstFault {
			firstFault = k
		}
	}
	if !bytes.HasPrefix(sent, delivered) {
		i := 0
		for i < len(delivered) && i < len(sent) && delivered[i] == sent[i] {
			i++
		}
		r.Failf("C25:e2e:wrong-data", "%s %#04x faults %v: the reader received %d bytes that are not a prefix of the %d bytes written (first difference at offset %d); terminal error %v",
			versionName(c.Version), c.Suite, fired, len(delivered), len(sent), i, termErr)
	}
	segClass := "seg=records"
	if len(c.Seg) > 0 {
		switch {
		case len(c.Seg) == 1 && c.Seg[0] == 1:
			segClass = "seg=1-byte"
		case len(c.Seg) == 1 && c.Seg[0] == 0:
			segClass = "seg=coalesced"
		default:
			segClass = "seg=mixed"
		}
	}
	r.Class(segClass)
	// whether a fault was effective is decided by the streams, not by the plan
	// (faults may cancel each other or combine on one record)
	if !tampered {
		r.Class("no-effective-fault")
		if !bytes.Equal(delivered, sent) {
			r.Failf("C25:e2e:data-lost", "%s %#04x no fault, writes %v, segmentation %v read sizes %v: %d of %d bytes delivered, then %v", versionName(c.Version), c.Suite, c.Writes, c.Seg, c.ReadSizes, len(delivered), len(sent), termErr)
		}
		if termErr != io.EOF {
			r.Failf("C25:e2e:no-clean-eof", "%s %#04x no fault: all data delivered but the stream ended with %v instead of io.EOF (close_notify)", versionName(c.Version), c.Suite, termErr)
		}
	} else {
		kind := "combined"
		if firstFault >= 0 {
			kind = fired[firstFault]
		}
		r.Class("fault=" + kind)
		if len(fired) > 1 {
			r.Class("multiple-faults")
		}
		// every Read hands out at most one record; only the leading records
		// that arrived byte for byte may be delivered, nothing after them
		if len(reads) > genuine {
			r.Failf("C25:e2e:tampered-data-delivered", "%s %#04x: fault %q on post-handshake record %d: only the first %d records reached the reader intact, but it delivered %d records (%d bytes) before failing with %v",
				versionName(c.Version), c.Suite, kind, firstFault, genuine, len(reads), len(delivered), termErr)
		}
		if termErr == nil {
			r.Failf("C25:e2e:no-error", "fault %q on record %d: no error returned", kind, firstFault)
		}
		if termErr == io.EOF {
			r.Class("fault-ends-in-EOF")
		} else {
			r.Class("fault-ends-in-error")
		}
	}
	if tampered || bigWrite || s.isCBC() {
		r.NonTrivial()
	}
}

func genE2E(t *rapid.T) E2ECase {
	var m []MatrixEntry
	for _, e := range usableMatrix() {
		m = append(m, e)
		if e.Version == v13 {
			m = append(m, e, e)
		}
	}
	e := m[int((uint64(rapid.Uint32().Draw(t, "combo"))*2654435761>>9)%uint64(len(m)))]
	c := E2ECase{Version: e.Version, Suite: e.Suite, Key: e.Key, Dir: rapid.IntRange(0, 1).Draw(t, "dir"), Fill: rapid.Byte().Draw(t, "fill")}
	c.NoDynamic = rapid.IntRange(0, 2).Draw(t, "nodyn") == 0
	c.NoBeast = rapid.IntRange(0, 3).Draw(t, "nobeast") == 0
	n := rapid.IntRange(1, 6).Draw(t, "nwrites")
	huge := rapid.IntRange(0, 5).Draw(t, "huge") == 0
	for i := 0; i < n; i++ {
		w := rapid.SampledFrom([]int{0, 1, 1, 2, 3, 100, 1000, 1207, 1208, 4000, 16383, 16384, 16385}).Draw(t, "write")
		if huge && i == n-1 {
			w = rapid.SampledFrom([]int{40000, 32768, 32769, 140000}).Draw(t, "write")
		}
		c.Writes = append(c.Writes, w)
	}
	switch rapid.IntRange(0, 4).Draw(t, "seg") {
	case 0:
		c.Seg = []int{1}
	case 1:
		c.Seg = []int{0}
	case 2:
		k := rapid.IntRange(1, 6).Draw(t, "segn")
		for i := 0; i < k; i++ {
			c.Seg = append(c.Seg, rapid.SampledFrom([]int{1, 2, 3, 4, 5, 6, 13, 100, 1000, 5000, 16389, 20000}).Draw(t, "segsize"))
		}
	case 3:
		c.Seg = []int{5, 0} // header alone, then the rest
	}
	// reader buffer sizes: half of the cases keep the single large buffer
	if rapid.Bool().Draw(t, "small-reads") {
		k := rapid.IntRange(1, 3).Draw(t, "nread")
		for i := 0; i < k; i++ {
			c.ReadSizes = append(c.ReadSizes, rapid.SampledFrom([]int{1, 2, 7, 100, 1000, 5000, 16383, 16384, 40000}).Draw(t, "readsize"))
		}
	}
	nf := rapid.SampledFrom([]int{0, 1, 1, 1, 1, 2, 3}).Draw(t, "nfaults")
	for i := 0; i < nf; i++ {
		f := WireFault{Rec: rapid.IntRange(0, 8).Draw(t, "frec"), Kind: rapid.SampledFrom([]string{"modify", "modify", "modify", "drop", "dup", "swap", "dropbyte", "dupbyte"}).Draw(t, "fkind")}
		switch rapid.IntRange(0, 3).Draw(t, "fwhere") {
		case 0:
			f.Pos = rapid.IntRange(0, 4).Draw(t, "fpos")
		case 1:
			f.Pos = 1<<20 - 1 - rapid.IntRange(0, 40).Draw(t, "fpos")
		default:
			f.Pos = rapid.IntRange(0, 20000).Draw(t, "fpos")
		}
		f.Mask = rapid.SampledFrom([]uint8{1, 2, 4, 8, 16, 32, 64, 128, 0xff}).Draw(t, "fmask")
		c.Faults = append(c.Faults, f)
	}
	return c
}

const e2eRule = "end to end over the tlskit proxy: a (version, suite, key) triple from the 65 negotiable ones, direction, 1-6 Write calls of sizes {0,1,2,3,100,1000,1207,1208,4000,16383,16384,16385} and occasionally 32768..140000, dynamic record sizing / BEAST splitting on or off, a reader-side transport segmentation (per record, 1-byte dribble, fully coalesced, header-then-rest, mixed sizes) and 0-3 wire faults after the handshake (modify a byte, drop / duplicate / swap records, drop / duplicate a byte). No effective fault: delivered == written and the stream ends with io.EOF; every record on the wire carries <= 2^14 plaintext bytes (exact for AEAD/stream suites, up to the padding ambiguity for CBC). Fault: delivered data is a prefix of the written data, no record from the first faulted one onwards is delivered, an error is returned. Non-trivial: an effective fault, a Write > 16384 or a CBC suite; distinct by case hash."

func TestPropE2E(t *testing.T) {
	kit.Run(t, kit.Spec[E2ECase]{ID: "C25", Name: "e2e", Rule: e2eRule, Gen: genE2E, Check: checkE2E, Quick: 500, Thorough: 4000, Assumptions: assumptions})
}

// TestPropE2EFaults enumerates single wire faults for every negotiable triple.
func TestPropE2EFaults(t *testing.T) {
	type plan struct {
		kind string
		pos  int
	}
	plans := []plan{{"modify", 0}, {"modify", 1}, {"modify", 2}, {"modify", 3}, {"modify", 4}, {"modify", 5}, {"modify", 1<<20 - 1}, {"modify", 1 << 19},
		{"drop", 0}, {"dup", 0}, {"swap", 0}, {"dropbyte", 7}, {"dupbyte", 7}}
	kit.Run(t, kit.Spec[E2ECase]{ID: "C25", Name: "e2e-faults", Check: checkE2E, Assumptions: assumptions, EnumTiers: "thorough",
		Rule: "exhaustive single-fault enumeration end to end (thorough tier): for each of the 65 negotiable (version, suite, key) triples x both directions, a fixed exchange (Writes 1, 300, 5000 bytes, then close) and every fault of {modify header byte 0..4, first / middle / last fragment byte; drop; duplicate; swap with successor; drop a byte; duplicate a byte} on each post-handshake record 0..3 (three data records or their BEAST halves, and the close_notify alert). Same oracle as e2e. Every case is non-trivial.",
		Enum: func(shard, nshards int, yield func(E2ECase) bool) {
			i := 0
			for _, e := range usableMatrix() {
				for dir := 0; dir < 2; dir++ {
					for rec := 0; rec < 4; rec++ {
						for _, pl := range plans {
							if i++; i%nshards != shard {
								continue
							}
							c := E2ECase{Version: e.Version, Suite: e.Suite, Key: e.Key, Dir: dir, Writes: []int{1, 300, 5000}, Fill: byte(i), NoBeast: true,
								Faults: []WireFault{{Rec: rec, Kind: pl.kind, Pos: pl.pos, Mask: 0x01}}}
							if !yield(c) {
								return
							}
						}
					}
				}
			}
		}})
}
