package c25

// Reference record layer: an independent transcription of the record
// protection of RFC 2246 §6.2.3 (TLS 1.0), RFC 4346 §6.2.3 (1.1, explicit
// IV), RFC 5246 §6.2.3 (1.2: stream, CBC, AEAD), RFC 5288 (AES-GCM nonce),
// RFC 7905 (ChaCha20-Poly1305 nonce) and RFC 8446 §5.2/5.3 (TLS 1.3), built
// only on the primitive ciphers/hashes of the standard library and
// x/crypto/chacha20poly1305.  Nothing from zcrypto is used.

import (
	"bytes"
	"crypto/aes"
	"crypto/cipher"
	"crypto/des"
	"crypto/hmac"
	"crypto/rc4"
	"crypto/sha1"
	"crypto/sha256"
	"crypto/sha512"
	"errors"
	"hash"

	"golang.org/x/crypto/chacha20poly1305"
)

const (
	v10 = 0x0301
	v11 = 0x0302
	v12 = 0x0303
	v13 = 0x0304
)

type refSuite struct {
	enc    string // "rc4", "3des", "aes-cbc", "gcm", "chacha"
	keyLen int
	macLen int // 0 for AEAD
	ivLen  int // key-block IV length: CBC block size, 4 for GCM, 12 for ChaCha / TLS 1.3
	mac    string
	sha384 bool // TLS 1.3: HKDF hash
	only12 bool // defined for TLS 1.2 only (AEAD and SHA-256 MAC suites)
}

var (
	sRC4      = refSuite{enc: "rc4", keyLen: 16, macLen: 20, mac: "sha1"}
	s3DES     = refSuite{enc: "3des", keyLen: 24, macLen: 20, ivLen: 8, mac: "sha1"}
	sAES128   = refSuite{enc: "aes-cbc", keyLen: 16, macLen: 20, ivLen: 16, mac: "sha1"}
	sAES256   = refSuite{enc: "aes-cbc", keyLen: 32, macLen: 20, ivLen: 16, mac: "sha1"}
	sAES128s2 = refSuite{enc: "aes-cbc", keyLen: 16, macLen: 32, ivLen: 16, mac: "sha256", only12: true}
	sAES256s2 = refSuite{enc: "aes-cbc", keyLen: 32, macLen: 32, ivLen: 16, mac: "sha256", only12: true}
	sGCM128   = refSuite{enc: "gcm", keyLen: 16, ivLen: 4, only12: true}
	sGCM256   = refSuite{enc: "gcm", keyLen: 32, ivLen: 4, only12: true}
	sChaCha   = refSuite{enc: "chacha", keyLen: 32, ivLen: 12, only12: true}
)

// IANA ids -> parameters (RFC 5246 App. C, 4492, 5288, 5289, 7905)
var refSuites = map[uint16]refSuite{
	0x0005: sRC4, 0x0066: sRC4, 0xc007: sRC4, 0xc011: sRC4,
	0x000a: s3DES, 0x0013: s3DES, 0x0016: s3DES, 0xc008: s3DES, 0xc012: s3DES,
	0x002f: sAES128, 0x0032: sAES128, 0x0033: sAES128, 0xc009: sAES128, 0xc013: sAES128,
	0x0035: sAES256, 0x0038: sAES256, 0x0039: sAES256, 0xc00a: sAES256, 0xc014: sAES256,
	0x003c: sAES128s2, 0x0040: sAES128s2, 0x0067: sAES128s2, 0xc023: sAES128s2, 0xc027: sAES128s2,
	0x003d: sAES256s2, 0x006a: sAES256s2, 0x006b: sAES256s2,
	0x009c: sGCM128, 0x009e: sGCM128, 0x00a2: sGCM128, 0xc02b: sGCM128, 0xc02f: sGCM128,
	0x009d: sGCM256, 0x009f: sGCM256, 0x00a3: sGCM256, 0xc02c: sGCM256, 0xc030: sGCM256,
	0xcca8: sChaCha, 0xcca9: sChaCha, 0xccaa: sChaCha,
}

// RFC 8446 B.4
var refSuites13 = map[uint16]refSuite{
	0x1301: {enc: "gcm", keyLen: 16, ivLen: 12},
	0x1302: {enc: "gcm", keyLen: 32, ivLen: 12, sha384: true},
	0x1303: {enc: "chacha", keyLen: 32, ivLen: 12},
}

func suiteFor(version, id uint16) (refSuite, bool) {
	if version == v13 {
		s, ok := refSuites13[id]
		return s, ok
	}
	s, ok := refSuites[id]
	if ok && s.only12 && version != v12 {
		return s, false
	}
	return s, ok
}

func (s refSuite) isCBC() bool  { return s.enc == "3des" || s.enc == "aes-cbc" }
func (s refSuite) isAEAD() bool { return s.enc == "gcm" || s.enc == "chacha" }
func (s refSuite) blockSize() int {
	if s.enc == "3des" {
		return 8
	}
	return 16
}

// ---- TLS 1.3 traffic keys (RFC 8446 §7.1, §7.3; RFC 5869) -------------------

func hkdfExpandLabel(newHash func() hash.Hash, secret []byte, label string, length int) []byte {
	full := "tls13 " + label
	info := []byte{byte(length >> 8), byte(length), byte(len(full))}
	info = append(info, full...)
	info = append(info, 0) // empty context
	var okm, t []byte
	for i := 1; len(okm) < length; i++ {
		m := hmac.New(newHash, secret)
		m.Write(t)
		m.Write(info)
		m.Write([]byte{byte(i)})
		t = m.Sum(nil)
		okm = append(okm, t...)
	}
	return okm[:length]
}

// ---- one direction of a connection ------------------------------------------

type refHalf struct {
	version uint16
	s       refSuite
	key, iv []byte
	macKey  []byte
	seq     uint64
	stream  *rc4.Cipher
	block   cipher.Block
	chainIV []byte // TLS 1.0 CBC: IV for the next record
	aead    cipher.AEAD
}

// newRefHalf: for TLS <= 1.2 key/iv/macKey are the key-block parts of this
// direction; for TLS 1.3 key is the traffic secret (iv, macKey unused).
func newRefHalf(version, suite uint16, key, iv, macKey []byte) (*refHalf, error) {
	s, ok := suiteFor(version, suite)
	if !ok {
		return nil, errors.New("ref: suite not defined for version")
	}
	h := &refHalf{version: version, s: s, key: key, iv: append([]byte(nil), iv...), macKey: macKey}
	if version == v13 {
		nh := sha256.New
		if s.sha384 {
			nh = sha512.New384
		}
		h.key = hkdfExpandLabel(nh, key, "key", s.keyLen)
		h.iv = hkdfExpandLabel(nh, key, "iv", 12)
	}
	var err error
	switch s.enc {
	case "rc4":
		h.stream, err = rc4.NewCipher(h.key)
	case "3des":
		h.block, err = des.NewTripleDESCipher(h.key)
		h.chainIV = append([]byte(nil), h.iv...)
	case "aes-cbc":
		h.block, err = aes.NewCipher(h.key)
		h.chainIV = append([]byte(nil), h.iv...)
	case "gcm":
		var b cipher.Block
		if b, err = aes.NewCipher(h.key); err == nil {
			h.aead, err = cipher.NewGCM(b)
		}
	case "chacha":
		h.aead, err = chacha20poly1305.New(h.key)
	}
	return h, err
}

func (h *refHalf) seqBytes() []byte {
	b := make([]byte, 8)
	for i := 0; i < 8; i++ {
		b[7-i] = byte(h.seq >> (8 * uint(i)))
	}
	return b
}

// MAC(MAC_write_key, seq_num + type + version + length + fragment)
func (h *refHalf) macOf(typ uint8, recVersion uint16, content []byte) []byte {
	nh := sha1.New
	if h.s.mac == "sha256" {
		nh = sha256.New
	}
	m := hmac.New(nh, h.macKey)
	m.Write(h.seqBytes())
	m.Write([]byte{typ, byte(recVersion >> 8), byte(recVersion), byte(len(content) >> 8), byte(len(content))})
	m.Write(content)
	return m.Sum(nil)
}

// nonce of the AEAD suites
func (h *refHalf) nonce(explicit []byte) []byte {
	if h.version != v13 && h.s.enc == "gcm" {
		return append(append([]byte(nil), h.iv...), explicit...) // RFC 5288: salt(4) + nonce_explicit(8)
	}
	// RFC 7905 / RFC 8446 §5.3: the 64-bit sequence number, left-padded to iv length, XOR iv
	n := append([]byte(nil), h.iv...)
	sb := h.seqBytes()
	for i := 0; i < 8; i++ {
		n[len(n)-8+i] ^= sb[i]
	}
	return n
}

// encOpts selects the free choices of the sender.
type encOpts struct {
	explicit []byte // explicit IV (CBC, TLS >= 1.1; block size) or explicit nonce (GCM, TLS 1.2; 8 bytes)
	pad      int    // CBC: padding_length (-1: minimal); TLS 1.3: number of zero padding bytes
}

func header(typ uint8, v uint16, n int) []byte {
	return []byte{typ, byte(v >> 8), byte(v), byte(n >> 8), byte(n)}
}

// encrypt produces one complete record (header + protected fragment).
func (h *refHalf) encrypt(typ uint8, content []byte, o encOpts) ([]byte, error) {
	defer func() { h.seq++ }()
	recV := h.version
	switch {
	case h.version == v13:
		inner := append(append([]byte(nil), content...), typ)
		inner = append(inner, make([]byte, o.pad)...)
		n := len(inner) + 16
		hdr := header(23, v12, n)
		return append(hdr, h.aead.Seal(nil, h.nonce(nil), inner, hdr)...), nil
	case h.s.isAEAD():
		var explicit []byte
		if h.s.enc == "gcm" {
			explicit = o.explicit
			if len(explicit) != 8 {
				return nil, errors.New("ref: GCM needs an 8-byte explicit nonce")
			}
		}
		aad := append(h.seqBytes(), header(typ, recV, len(content))...)
		body := append(append([]byte(nil), explicit...), h.aead.Seal(nil, h.nonce(explicit), content, aad)...)
		return append(header(typ, recV, len(body)), body...), nil
	case h.s.enc == "rc4":
		body := append(append([]byte(nil), content...), h.macOf(typ, recV, content)...)
		h.stream.XORKeyStream(body, body)
		return append(header(typ, recV, len(body)), body...), nil
	default: // CBC
		bs := h.s.blockSize()
		plain := append(append([]byte(nil), content...), h.macOf(typ, recV, content)...)
		pad := o.pad
		if pad < 0 {
			pad = bs - 1 - len(plain)%bs
		}
		if (len(plain)+pad+1)%bs != 0 || pad > 255 {
			return nil, errors.New("ref: bad padding length requested")
		}
		for i := 0; i <= pad; i++ {
			plain = append(plain, byte(pad))
		}
		iv := h.chainIV
		var body []byte
		if h.version >= v11 {
			if len(o.explicit) != bs {
				return nil, errors.New("ref: CBC needs a block-size explicit IV")
			}
			iv = o.explicit
			body = append(body, iv...)
		}
		ct := make([]byte, len(plain))
		cipher.NewCBCEncrypter(h.block, iv).CryptBlocks(ct, plain)
		h.chainIV = append([]byte(nil), ct[len(ct)-bs:]...)
		body = append(body, ct...)
		return append(header(typ, recV, len(body)), body...), nil
	}
}

var errBadRecord = errors.New("ref: bad record")

// decrypt authenticates and opens one complete record.
func (h *refHalf) decrypt(rec []byte) (content []byte, typ uint8, err error) {
	if len(rec) < 5 {
		return nil, 0, errBadRecord
	}
	typ = rec[0]
	recV := uint16(rec[1])<<8 | uint16(rec[2])
	body := rec[5:]
	switch {
	case h.version == v13:
		if typ != 23 {
			return nil, 0, errBadRecord
		}
		inner, err := h.aead.Open(nil, h.nonce(nil), body, rec[:5])
		if err != nil {
			return nil, 0, errBadRecord
		}
		if len(inner) > 16384+1 {
			return nil, 0, errBadRecord
		}
		i := len(inner) - 1
		for i >= 0 && inner[i] == 0 {
			i--
		}
		if i < 0 {
			return nil, 0, errBadRecord
		}
		h.seq++
		return inner[:i], inner[i], nil
	case h.s.isAEAD():
		var explicit []byte
		if h.s.enc == "gcm" {
			if len(body) < 8 {
				return nil, 0, errBadRecord
			}
			explicit, body = body[:8], body[8:]
		}
		if len(body) < 16 {
			return nil, 0, errBadRecord
		}
		aad := append(h.seqBytes(), header(typ, recV, len(body)-16)...)
		content, err := h.aead.Open(nil, h.nonce(explicit), body, aad)
		if err != nil {
			return nil, 0, errBadRecord
		}
		h.seq++
		return content, typ, nil
	case h.s.enc == "rc4":
		plain := make([]byte, len(body))
		h.stream.XORKeyStream(plain, body)
		if len(plain) < h.s.macLen {
			return nil, 0, errBadRecord
		}
		content, mac := plain[:len(plain)-h.s.macLen], plain[len(plain)-h.s.macLen:]
		if !bytes.Equal(mac, h.macOf(typ, recV, content)) {
			return nil, 0, errBadRecord
		}
		h.seq++
		return content, typ, nil
	default: // CBC
		bs := h.s.blockSize()
		iv := h.chainIV
		if h.version >= v11 {
			if len(body) < bs {
				return nil, 0, errBadRecord
			}
			iv, body = body[:bs], body[bs:]
		}
		if len(body) == 0 || len(body)%bs != 0 {
			return nil, 0, errBadRecord
		}
		plain := make([]byte, len(body))
		cipher.NewCBCDecrypter(h.block, iv).CryptBlocks(plain, body)
		h.chainIV = append([]byte(nil), body[len(body)-bs:]...)
		pad, ok := refPadding(plain)
		if !ok || len(plain) < pad+1+h.s.macLen {
			return nil, 0, errBadRecord
		}
		plain = plain[:len(plain)-pad-1]
		content, mac := plain[:len(plain)-h.s.macLen], plain[len(plain)-h.s.macLen:]
		if !bytes.Equal(mac, h.macOf(typ, recV, content)) {
			return nil, 0, errBadRecord
		}
		h.seq++
		return content, typ, nil
	}
}

// refPadding: RFC 2246/5246 §6.2.3.2 — the last byte is padding_length p; the
// p bytes before it must all equal p.  Plain (non constant-time) check.
func refPadding(b []byte) (pad int, ok bool) {
	if len(b) == 0 {
		return 0, false
	}
	p := int(b[len(b)-1])
	if len(b) < p+1 {
		return 0, false
	}
	for _, x := range b[len(b)-1-p:] {
		if int(x) != p {
			return 0, false
		}
	}
	return p, true
}
