// Package c07 checks property C07: chain verification returns only valid
// chains and partitions them by date.
//
// The oracle is a validity predicate per returned chain written from the
// property statement.  It reads certificates from their DER with pkigen's
// zcrypto-independent reader and verifies signatures with the Go standard
// library.  Completeness (every valid chain is returned) is NOT asserted; a
// small reference path enumerator is used only to label cases.
package c07

import (
	"fmt"
	"strings"
	"testing"
	"time"

	"github.com/zmap/zcrypto/x509"
	"pgregory.net/rapid"
	"verifharness/kit"
	"verifharness/pkigen"
)

// Opts is one set of verification options.
type Opts struct {
	When   int      `json:"when"`             // verification time pkigen.Time(When), -1..2*NInstants-1 (even = exactly on a validity instant)
	Usages []string `json:"usages,omitempty"` // requested EKU codes; empty = zcrypto's default (serverAuth)
	DNS    string   `json:"dns,omitempty"`    // requested DNS name, "" = none
	NilInt bool     `json:"nil_inter,omitempty"`
}

type Case struct {
	PKI    pkigen.PKI `json:"pki"`
	Target int        `json:"target"`
	Opts   []Opts     `json:"opts"`
}

var usageSets = [][]string{
	nil, nil, nil, {pkigen.EKUAny}, {pkigen.EKUAny}, {pkigen.EKUServer}, {pkigen.EKUServer}, {pkigen.EKUClient}, {pkigen.EKUServer, pkigen.EKUClient},
	{pkigen.EKUServer, pkigen.EKUClient}, {pkigen.EKUClient, pkigen.EKUServer}, {pkigen.EKUCode}, {pkigen.EKUClient, pkigen.EKUAny}, {pkigen.EKUEmail, pkigen.EKUClient},
	{pkigen.EKUNSSGC}, {pkigen.EKUServer, pkigen.EKUServer},
}

var hostPool = []string{"", "", "", "a.example", "A.Example.", "b.example", "x.example", "x.y.example", "example", "n0", "n1", "N2", "*.example"}

func gen(t *rapid.T) Case {
	c := Case{PKI: pkigen.GenPKI(t)}
	if len(c.PKI.Leaves) > 0 && pkigen.IntN(t, 0, 7, "anyTarget") > 0 {
		c.Target = pkigen.Pick(t, c.PKI.Leaves, "target")
	} else {
		c.Target = pkigen.IntN(t, 0, len(c.PKI.Certs)-1, "target")
	}
	n := pkigen.IntN(t, 2, 4, "nOpts")
	for i := 0; i < n; i++ {
		o := Opts{Usages: pkigen.Pick(t, usageSets, "usages"), DNS: pkigen.Pick(t, hostPool, "dns")}
		if pkigen.IntN(t, 0, 2, "midlife") == 0 {
			o.When = pkigen.IntN(t, 3, 7, "when")
		} else {
			o.When = pkigen.IntN(t, -1, 2*pkigen.NInstants-1, "when")
		}
		if len(c.PKI.Inter) == 0 {
			o.NilInt = rapid.Bool().Draw(t, "nilInter")
		}
		c.Opts = append(c.Opts, o)
	}
	return c
}

// ---------------------------------------------------------------------------
// oracle pieces (all over pkigen.Info, i.e. bytes + standard library)

type world struct {
	r      *kit.R
	b      *pkigen.Built
	signed map[[2]int]bool // memo: child index, parent index -> std signature verification
	isRoot map[[32]byte]bool
}

func (w *world) signedBy(child, parent int) bool {
	k := [2]int{child, parent}
	if v, ok := w.signed[k]; ok {
		return v
	}
	valid, ok := w.b.Info[child].SignedBy(w.b.Info[parent])
	if !ok {
		w.r.Failf("harness:c07-unknown-key", "certificate %d holds a key outside the universe", parent)
	}
	w.signed[k] = valid
	return valid
}

func permits(in *pkigen.Info, usage string) bool {
	if !in.HasEKU {
		return true
	}
	for _, o := range in.EKU {
		if o == pkigen.EKUOID[pkigen.EKUAny] || o == pkigen.EKUOID[usage] {
			return true
		}
		if usage == pkigen.EKUServer && (o == pkigen.EKUOID[pkigen.EKUNSSGC] || o == pkigen.EKUOID[pkigen.EKUMSSGC]) {
			return true
		}
	}
	return false
}

// usagesSatisfied: some acceptable usage is permitted by every certificate of
// the chain (VerifyOptions.KeyUsages: "which Extended Key Usage values are
// acceptable ... empty list means ExtKeyUsageServerAuth ... a constraint down
// the chain ... To accept any key usage, include ExtKeyUsageAny").
func (w *world) usagesSatisfied(chain []int, req []string) bool {
	if len(req) == 0 {
		req = []string{pkigen.EKUServer}
	}
	for _, u := range req {
		if u == pkigen.EKUAny {
			return true
		}
	}
	for _, u := range req {
		ok := true
		for _, i := range chain {
			if !permits(w.b.Info[i], u) {
				ok = false
				break
			}
		}
		if ok {
			return true
		}
	}
	return false
}

// structural validity of a chain of PKI indices (everything but EKU and dates);
// returns "" or the violated clause.
func (w *world) structure(chain []int, target int) (key, msg string) {
	if len(chain) == 0 {
		return "empty-chain", "empty chain"
	}
	if w.b.Info[chain[0]].FP != w.b.Info[target].FP {
		return "wrong-start", "chain does not start at the verified certificate"
	}
	last := w.b.Info[chain[len(chain)-1]]
	if !w.isRoot[last.FP] {
		return "not-rooted", fmt.Sprintf("last element (subject %q) is not in the supplied roots", last.SubjCN)
	}
	seen := map[[32]byte]bool{}
	for pos, i := range chain {
		in := w.b.Info[i]
		if seen[in.FP] {
			return "repeated-certificate", fmt.Sprintf("certificate at position %d occurs twice", pos)
		}
		seen[in.FP] = true
		if pos+1 < len(chain) {
			p := chain[pos+1]
			if !in.IssuedBy(w.b.Info[p]) {
				return "issuer-name-mismatch", fmt.Sprintf("issuer of element %d (%q) is not the subject of element %d (%q)", pos, in.IssCN, pos+1, w.b.Info[p].SubjCN)
			}
			if !w.signedBy(i, p) {
				return "bad-signature-link", fmt.Sprintf("signature of element %d does not verify under the key of element %d (standard library)", pos, pos+1)
			}
		}
		if pos > 0 && pos < len(chain)-1 {
			if !in.HasBC || !in.IsCA {
				return "intermediate-not-ca", fmt.Sprintf("intermediate at position %d is not a CA certificate (version %d, basicConstraints present=%v cA=%v)", pos, in.Version, in.HasBC, in.IsCA)
			}
			if in.PathLen >= 0 && pos-1 > in.PathLen {
				return "path-length-exceeded", fmt.Sprintf("intermediate at position %d has pathLenConstraint %d but %d intermediates follow it", pos, in.PathLen, pos-1)
			}
		}
	}
	return "", ""
}

func (w *world) window(chain []int) (lo, hi time.Time) {
	lo, hi = w.b.Info[chain[0]].NotBefore, w.b.Info[chain[0]].NotAfter
	for _, i := range chain[1:] {
		if w.b.Info[i].NotBefore.After(lo) {
			lo = w.b.Info[i].NotBefore
		}
		if w.b.Info[i].NotAfter.Before(hi) {
			hi = w.b.Info[i].NotAfter
		}
	}
	return
}

// dateClass: "current" when lo < t < hi, "never" when the window is empty
// (lo >= hi), otherwise "expired" (the window precedes or follows t).
func dateClass(lo, hi, t time.Time) string {
	switch {
	case lo.Before(t) && t.Before(hi):
		return "current"
	case !lo.Before(hi):
		return "never"
	}
	return "expired"
}

// hostMatches: the documented hostname rule (C09) restricted to DNS names.
func hostMatches(in *pkigen.Info, host string) bool {
	pats := in.DNS
	hasSAN := false
	for _, o := range in.ExtOIDs {
		if o == "2.5.29.17" {
			hasSAN = true
		}
	}
	if !hasSAN {
		pats = []string{in.SubjCN}
	}
	h := strings.TrimSuffix(strings.ToLower(host), ".") // hosts and names here are pure ASCII
	for _, p := range pats {
		p = strings.TrimSuffix(strings.ToLower(p), ".")
		if p == "" || h == "" {
			continue
		}
		pl, hl := strings.Split(p, "."), strings.Split(h, ".")
		if len(pl) != len(hl) {
			continue
		}
		ok := true
		for i := range pl {
			if pl[i] != "*" && pl[i] != hl[i] {
				ok = false
			}
		}
		if ok {
			return true
		}
	}
	return false
}

// refChains counts structurally valid chains from target (reference
// enumerator; labelling only), up to a cap.
func (w *world) refChains(target int) int {
	n := len(w.b.Info)
	count := 0
	var walk func(chain []int)
	walk = func(chain []int) {
		if count >= 50 || len(chain) > 7 {
			return
		}
		if k, _ := w.structure(chain, target); k == "" {
			count++
		}
		tip := chain[len(chain)-1]
		for p := 0; p < n; p++ {
			dup := false
			for _, x := range chain {
				if w.b.Info[x].FP == w.b.Info[p].FP {
					dup = true
				}
			}
			if dup || w.b.Index(w.b.DER[p]) != p {
				continue
			}
			if w.b.Info[tip].IssuedBy(w.b.Info[p]) && w.signedBy(tip, p) {
				walk(append(append([]int(nil), chain...), p))
			}
		}
	}
	walk([]int{target})
	return count
}

// ---------------------------------------------------------------------------

func usageConsts(codes []string) []x509.ExtKeyUsage {
	var out []x509.ExtKeyUsage
	for _, c := range codes {
		out = append(out, pkigen.EKUConst(c))
	}
	return out
}

func (w *world) indices(chain x509.CertificateChain, what string) []int {
	out := make([]int, len(chain))
	for i, c := range chain {
		if c == nil {
			w.r.Failf("C07:nil-in-chain", "%s: nil certificate at position %d", what, i)
		}
		out[i] = w.b.Index(c.Raw)
		if out[i] < 0 {
			w.r.Failf("C07:foreign-certificate", "%s: element %d is none of the supplied certificates", what, i)
		}
	}
	return out
}

type tally struct {
	chains, maxLen, dupChains int
	cur, exp, nev             int
}

// judge checks one returned list against the predicate; class is the date class
// the list claims.
func (w *world) judge(api string, o Opts, target int, list []x509.CertificateChain, class string, req []string, tl *tally, seen map[string]bool) {
	t := pkigen.Time(o.When)
	for ci, ch := range list {
		what := fmt.Sprintf("%s opts=%+v %s chain %d", api, o, class, ci)
		idx := w.indices(ch, what)
		if k, msg := w.structure(idx, target); k != "" {
			w.r.Failf("C07:"+k, "%s %v: %s", what, w.describe(idx), msg)
		}
		if !w.usagesSatisfied(idx, req) {
			w.r.Failf("C07:eku-not-satisfied", "%s %v: no requested usage %v is permitted by every certificate of the chain", what, w.describe(idx), req)
		}
		lo, hi := w.window(idx)
		if want := dateClass(lo, hi, t); want != class {
			w.r.Failf("C07:date-partition-"+class+"-should-be-"+want, "%s %v: common window (%s, %s), time %s: chain is %s but was returned as %s", what, w.describe(idx),
				lo.Format("2006-01-02"), hi.Format("2006-01-02"), t.Format("2006-01-02"), want, class)
		}
		id := fmt.Sprint(idx)
		if seen[id] {
			tl.dupChains++
		}
		seen[id] = true
		tl.chains++
		if len(idx) > tl.maxLen {
			tl.maxLen = len(idx)
		}
	}
}

func (w *world) describe(idx []int) []string {
	var s []string
	for _, i := range idx {
		in := w.b.Info[i]
		s = append(s, fmt.Sprintf("#%d(%s<-%s)", i, in.SubjCN, in.IssCN))
	}
	return s
}

func errKind(err error) string {
	switch e := err.(type) {
	case nil:
		return "nil"
	case x509.CertificateInvalidError:
		return fmt.Sprintf("invalid-%d", int(e.Reason))
	case x509.UnknownAuthorityError:
		return "unknown-authority"
	case x509.HostnameError:
		return "hostname"
	}
	return "other"
}

func check(c Case, r *kit.R) {
	if c.Target < 0 || c.Target >= len(c.PKI.Certs) || len(c.Opts) == 0 {
		r.Failf("harness:c07-bad-case", "target/options out of range")
	}
	b, err := c.PKI.Build()
	if err != nil {
		r.Failf("harness:c07-build", "%v", err)
	}
	w := &world{r: r, b: b, signed: map[[2]int]bool{}, isRoot: map[[32]byte]bool{}}
	for _, i := range c.PKI.Roots {
		w.isRoot[b.Info[i].FP] = true
	}
	target := b.Certs[c.Target]
	tin := b.Info[c.Target]
	var tl tally
	anyNilErr, anyHostReject, onBoundary := false, false, false

	for _, o := range c.Opts {
		if o.When < -1 || o.When > 2*pkigen.NInstants-1 {
			r.Failf("harness:c07-bad-case", "when out of range")
		}
		mk := func() x509.VerifyOptions {
			vo := x509.VerifyOptions{Roots: b.Pool(c.PKI.Roots), CurrentTime: pkigen.Time(o.When), KeyUsages: usageConsts(o.Usages), DNSName: o.DNS}
			if !(o.NilInt && len(c.PKI.Inter) == 0) {
				vo.Intermediates = b.Pool(c.PKI.Inter)
			}
			return vo
		}
		// --- Verify
		cur, exp, nev, verr := target.Verify(mk())
		seen := map[string]bool{}
		before := tl
		w.judge("Verify", o, c.Target, cur, "current", o.Usages, &tl, seen)
		w.judge("Verify", o, c.Target, exp, "expired", o.Usages, &tl, seen)
		w.judge("Verify", o, c.Target, nev, "never", o.Usages, &tl, seen)
		tl.cur += len(cur)
		tl.exp += len(exp)
		tl.nev += len(nev)
		if verr == nil {
			anyNilErr = true
			if len(cur) == 0 {
				r.Failf("C07:nil-error-without-current-chain", "Verify opts=%+v returned a nil error and no current chain (expired %d, never %d)", o, len(exp), len(nev))
			}
			if o.DNS != "" && !hostMatches(tin, o.DNS) {
				r.Failf("C07:nil-error-despite-name-mismatch", "Verify opts=%+v returned a nil error although %q matches none of the certificate's names (DNS %q, CN %q)", o, o.DNS, tin.DNS, tin.SubjCN)
			}
		} else if errKind(verr) == "hostname" {
			anyHostReject = true
		}
		r.Class("verify-err:" + errKind(verr))
		if tl.chains > before.chains && o.When%2 == 0 {
			onBoundary = true
		}

		// --- ValidateWithStupidDetail: no key usages passed on (serverAuth), host checked separately
		chains, val, serr := target.ValidateWithStupidDetail(mk())
		var tl2 tally
		w.judge("ValidateWithStupidDetail", o, c.Target, chains, "current", nil, &tl2, map[string]bool{})
		if serr == nil {
			if len(chains) == 0 {
				r.Failf("C07:stupid-nil-error-without-current-chain", "ValidateWithStupidDetail opts=%+v returned a nil error and no chain", o)
			}
			if o.DNS != "" && !hostMatches(tin, o.DNS) {
				r.Failf("C07:stupid-nil-error-despite-name-mismatch", "ValidateWithStupidDetail opts=%+v returned a nil error although %q does not match", o, o.DNS)
			}
		}
		if val == nil {
			r.Failf("C07:stupid-nil-validation", "ValidateWithStupidDetail returned a nil *Validation")
		}
		r.Class("stupid-err:" + errKind(serr))
	}

	// labelling
	f := c.PKI.Features()
	ref := w.refChains(c.Target)
	switch {
	case tl.chains == 0 && ref == 0:
		r.Class("chains:none-exist")
	case tl.chains == 0:
		r.Class("chains:none-returned-but-structurally-valid-chain-exists(eku/completeness)")
	default:
		r.Class("chains:returned")
	}
	for _, kv := range []struct {
		k string
		v bool
	}{{"pki:cross-sign", f.CrossSign}, {"pki:shared-subject", f.SharedSubject}, {"pki:loop", f.Loop}, {"pki:bad-signature", f.BadSignature}, {"pki:self-issued-rollover", f.SelfIssued},
		{"pki:v1", f.V1}, {"pki:duplicate", f.Duplicate}, {"got:current", tl.cur > 0}, {"got:expired", tl.exp > 0}, {"got:never", tl.nev > 0},
		{"got:len>=3", tl.maxLen >= 3}, {"got:len>=4", tl.maxLen >= 4}, {"got:len>=5", tl.maxLen >= 5}, {"got:len=1(target is a root)", tl.chains > 0 && tl.maxLen == 1},
		{"got:same-chain-returned-twice", tl.dupChains > 0}, {"got:nil-error", anyNilErr}, {"got:hostname-error", anyHostReject}, {"time:on-validity-instant-with-chains", onBoundary},
		{"ref:several-valid-chains", ref >= 2}} {
		if kv.v {
			r.Class(kv.k)
		}
	}
	if tl.chains > 0 && (f.CrossSign || f.SharedSubject || f.Loop || f.BadSignature) {
		r.NonTrivial()
	}
}

const rule = "a pkigen PKI (1-3 root entities, 0-5 intermediate entities with 1-2 certificates each, 0-2 cross-signs, 1-2 leaves over 2-5 names x 2-4 keys; random CA flags / absent basicConstraints / version-1 CAs, pathLen in {none,0,1,2}, 12 EKU sets, validity windows from 6 instants incl. single-instant and reversed ones, key-usage without certSign, proper / shared / mismatching / absent key ids, 5% wrong signer / issuer name / subject key per certificate, roots also among intermediates and vice versa, byte-identical duplicates, shuffled pool order), one target (mostly a leaf) and 2-4 option sets (time on or between the instants, 11 usage lists incl. empty/any/duplicates, DNS name matching or not, nil intermediates). Each option set is run through Verify and ValidateWithStupidDetail with fresh pools. Non-trivial: the PKI has a cross-sign, a shared subject, a loop or a bad signature AND at least one chain was returned; distinct by case hash"

var assumptions = []string{
	"only soundness is judged ('returns only'): a valid chain that is not returned, or returned twice, is not a violation",
	"the common validity window is the open interval (max NotBefore, min NotAfter): current iff lo < t < hi (TimeInValidityPeriod documents strict comparison), never-valid iff lo >= hi, expired otherwise",
	"'satisfies the requested extended key usages' is read from the VerifyOptions.KeyUsages documentation: some acceptable usage (serverAuth when the list is empty; anything when it includes Any) is permitted by every certificate of the chain including the root, where a certificate without EKU extension or with anyExtendedKeyUsage permits everything and Netscape/Microsoft SGC permit serverAuth (documented in checkChainForKeyUsage)",
	"path length: an intermediate at chain position i (leaf = 0) with pathLenConstraint p requires i-1 <= p; not applied to the root (the statement speaks of intermediates)",
	"Roots is never nil (system roots are outside the property); CurrentTime is always set",
}

func TestPropChains(t *testing.T) {
	kit.Run(t, kit.Spec[Case]{ID: "C07", Name: "chains", Rule: rule, Gen: gen, Check: check, Quick: 1200, Thorough: 20000, Assumptions: assumptions})
}
