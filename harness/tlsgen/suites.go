// Package tlsgen describes TLS client/server configurations as plain
// JSON-friendly structs, builds zcrypto tls.Configs from them, generates them
// with rapid, and contains a negotiation model written from the documentation
// of tls.Config (not from the handshake code).
package tlsgen

import (
	"fmt"

	"github.com/zmap/zcrypto/tls"
)

// Protocol versions (IANA values).
const (
	SSL30 uint16 = 0x0300
	TLS10 uint16 = 0x0301
	TLS11 uint16 = 0x0302
	TLS12 uint16 = 0x0303
	TLS13 uint16 = 0x0304
)

// AllVersions lists the versions the package documents as supported, ascending.
var AllVersions = []uint16{TLS10, TLS11, TLS12, TLS13}

// Kx is the key-exchange/authentication family of a cipher suite, read off the
// suite NAME (RFC 5246 A.5, RFC 4492/8422, RFC 5288/5289, RFC 7905, RFC 8446).
type Kx int

const (
	KxRSA        Kx = iota // TLS_RSA_*: RSA key transport, RSA certificate
	KxECDHERSA             // TLS_ECDHE_RSA_*: ECDHE signed with an RSA key
	KxECDHEECDSA           // TLS_ECDHE_ECDSA_*: ECDHE signed with an ECDSA (RFC 8422: or EdDSA) key
	KxDHERSA               // TLS_DHE_RSA_*: finite-field DHE signed with an RSA key
	KxDHEDSS               // TLS_DHE_DSS_*: DHE signed with a DSA key
	KxTLS13                // TLS 1.3 suite (AEAD+hash only)
)

func (k Kx) String() string {
	return [...]string{"RSA", "ECDHE_RSA", "ECDHE_ECDSA", "DHE_RSA", "DHE_DSS", "TLS13"}[k]
}

// Suite describes one cipher suite by attributes that follow from its name.
type Suite struct {
	ID        uint16
	Name      string
	Kx        Kx
	TLS12Only bool   // SHA-256/384 MAC or AEAD: defined for TLS 1.2 only (RFC 5246, 5288, 5289, 7905)
	Cipher    string // "AESCBC" "AESGCM" "CHACHA" "RC4" "3DES"
	SHA384    bool   // PRF / HKDF hash is SHA-384
	// Listed: returned by tls.CipherSuites() or tls.InsecureCipherSuites(),
	// the package's public list of implemented suites.
	Listed bool
	// Default: returned by tls.CipherSuites() (the "secure" list the
	// documentation calls the default).
	Default bool
}

// Suites is every suite the package implements (distinct IDs of the
// implemented table; cross-checked against the hook in the package test).
var Suites = []Suite{
	// --- listed by tls.CipherSuites()
	{tls.TLS_RSA_WITH_3DES_EDE_CBC_SHA, "TLS_RSA_WITH_3DES_EDE_CBC_SHA", KxRSA, false, "3DES", false, true, true},
	{tls.TLS_RSA_WITH_AES_128_CBC_SHA, "TLS_RSA_WITH_AES_128_CBC_SHA", KxRSA, false, "AESCBC", false, true, true},
	{tls.TLS_RSA_WITH_AES_256_CBC_SHA, "TLS_RSA_WITH_AES_256_CBC_SHA", KxRSA, false, "AESCBC", false, true, true},
	{tls.TLS_RSA_WITH_AES_128_GCM_SHA256, "TLS_RSA_WITH_AES_128_GCM_SHA256", KxRSA, true, "AESGCM", false, true, true},
	{tls.TLS_RSA_WITH_AES_256_GCM_SHA384, "TLS_RSA_WITH_AES_256_GCM_SHA384", KxRSA, true, "AESGCM", true, true, true},
	{tls.TLS_ECDHE_ECDSA_WITH_AES_128_CBC_SHA, "TLS_ECDHE_ECDSA_WITH_AES_128_CBC_SHA", KxECDHEECDSA, false, "AESCBC", false, true, true},
	{tls.TLS_ECDHE_ECDSA_WITH_AES_256_CBC_SHA, "TLS_ECDHE_ECDSA_WITH_AES_256_CBC_SHA", KxECDHEECDSA, false, "AESCBC", false, true, true},
	{tls.TLS_ECDHE_RSA_WITH_3DES_EDE_CBC_SHA, "TLS_ECDHE_RSA_WITH_3DES_EDE_CBC_SHA", KxECDHERSA, false, "3DES", false, true, true},
	{tls.TLS_ECDHE_RSA_WITH_AES_128_CBC_SHA, "TLS_ECDHE_RSA_WITH_AES_128_CBC_SHA", KxECDHERSA, false, "AESCBC", false, true, true},
	{tls.TLS_ECDHE_RSA_WITH_AES_256_CBC_SHA, "TLS_ECDHE_RSA_WITH_AES_256_CBC_SHA", KxECDHERSA, false, "AESCBC", false, true, true},
	{tls.TLS_ECDHE_ECDSA_WITH_AES_128_GCM_SHA256, "TLS_ECDHE_ECDSA_WITH_AES_128_GCM_SHA256", KxECDHEECDSA, true, "AESGCM", false, true, true},
	{tls.TLS_ECDHE_ECDSA_WITH_AES_256_GCM_SHA384, "TLS_ECDHE_ECDSA_WITH_AES_256_GCM_SHA384", KxECDHEECDSA, true, "AESGCM", true, true, true},
	{tls.TLS_ECDHE_RSA_WITH_AES_128_GCM_SHA256, "TLS_ECDHE_RSA_WITH_AES_128_GCM_SHA256", KxECDHERSA, true, "AESGCM", false, true, true},
	{tls.TLS_ECDHE_RSA_WITH_AES_256_GCM_SHA384, "TLS_ECDHE_RSA_WITH_AES_256_GCM_SHA384", KxECDHERSA, true, "AESGCM", true, true, true},
	{tls.TLS_ECDHE_RSA_WITH_CHACHA20_POLY1305_SHA256, "TLS_ECDHE_RSA_WITH_CHACHA20_POLY1305_SHA256", KxECDHERSA, true, "CHACHA", false, true, true},
	{tls.TLS_ECDHE_ECDSA_WITH_CHACHA20_POLY1305_SHA256, "TLS_ECDHE_ECDSA_WITH_CHACHA20_POLY1305_SHA256", KxECDHEECDSA, true, "CHACHA", false, true, true},
	// --- listed by tls.InsecureCipherSuites()
	{tls.TLS_RSA_WITH_RC4_128_SHA, "TLS_RSA_WITH_RC4_128_SHA", KxRSA, false, "RC4", false, true, false},
	{tls.TLS_RSA_WITH_AES_128_CBC_SHA256, "TLS_RSA_WITH_AES_128_CBC_SHA256", KxRSA, true, "AESCBC", false, true, false},
	{tls.TLS_ECDHE_ECDSA_WITH_RC4_128_SHA, "TLS_ECDHE_ECDSA_WITH_RC4_128_SHA", KxECDHEECDSA, false, "RC4", false, true, false},
	{tls.TLS_ECDHE_RSA_WITH_RC4_128_SHA, "TLS_ECDHE_RSA_WITH_RC4_128_SHA", KxECDHERSA, false, "RC4", false, true, false},
	{tls.TLS_ECDHE_ECDSA_WITH_AES_128_CBC_SHA256, "TLS_ECDHE_ECDSA_WITH_AES_128_CBC_SHA256", KxECDHEECDSA, true, "AESCBC", false, true, false},
	{tls.TLS_ECDHE_RSA_WITH_AES_128_CBC_SHA256, "TLS_ECDHE_RSA_WITH_AES_128_CBC_SHA256", KxECDHERSA, true, "AESCBC", false, true, false},
	// --- implemented (zcrypto additions), not in the public lists
	{tls.TLS_RSA_WITH_AES_256_CBC_SHA256, "TLS_RSA_WITH_AES_256_CBC_SHA256", KxRSA, true, "AESCBC", false, false, false},
	{tls.TLS_DHE_RSA_WITH_3DES_EDE_CBC_SHA, "TLS_DHE_RSA_WITH_3DES_EDE_CBC_SHA", KxDHERSA, false, "3DES", false, false, false},
	{tls.TLS_DHE_RSA_WITH_AES_128_CBC_SHA, "TLS_DHE_RSA_WITH_AES_128_CBC_SHA", KxDHERSA, false, "AESCBC", false, false, false},
	{tls.TLS_DHE_RSA_WITH_AES_256_CBC_SHA, "TLS_DHE_RSA_WITH_AES_256_CBC_SHA", KxDHERSA, false, "AESCBC", false, false, false},
	{tls.TLS_DHE_RSA_WITH_AES_128_CBC_SHA256, "TLS_DHE_RSA_WITH_AES_128_CBC_SHA256", KxDHERSA, true, "AESCBC", false, false, false},
	{tls.TLS_DHE_RSA_WITH_AES_256_CBC_SHA256, "TLS_DHE_RSA_WITH_AES_256_CBC_SHA256", KxDHERSA, true, "AESCBC", false, false, false},
	{tls.TLS_DHE_RSA_WITH_AES_128_GCM_SHA256, "TLS_DHE_RSA_WITH_AES_128_GCM_SHA256", KxDHERSA, true, "AESGCM", false, false, false},
	{tls.TLS_DHE_RSA_WITH_AES_256_GCM_SHA384, "TLS_DHE_RSA_WITH_AES_256_GCM_SHA384", KxDHERSA, true, "AESGCM", true, false, false},
	{tls.TLS_DHE_RSA_WITH_CHACHA20_POLY1305_SHA256, "TLS_DHE_RSA_WITH_CHACHA20_POLY1305_SHA256", KxDHERSA, true, "CHACHA", false, false, false},
	{tls.TLS_ECDHE_ECDSA_WITH_3DES_EDE_CBC_SHA, "TLS_ECDHE_ECDSA_WITH_3DES_EDE_CBC_SHA", KxECDHEECDSA, false, "3DES", false, false, false},
	{tls.TLS_DHE_DSS_WITH_3DES_EDE_CBC_SHA, "TLS_DHE_DSS_WITH_3DES_EDE_CBC_SHA", KxDHEDSS, false, "3DES", false, false, false},
	{tls.TLS_DHE_DSS_WITH_AES_128_CBC_SHA, "TLS_DHE_DSS_WITH_AES_128_CBC_SHA", KxDHEDSS, false, "AESCBC", false, false, false},
	{tls.TLS_DHE_DSS_WITH_AES_256_CBC_SHA, "TLS_DHE_DSS_WITH_AES_256_CBC_SHA", KxDHEDSS, false, "AESCBC", false, false, false},
	{tls.TLS_DHE_DSS_WITH_RC4_128_SHA, "TLS_DHE_DSS_WITH_RC4_128_SHA", KxDHEDSS, false, "RC4", false, false, false},
	{tls.TLS_DHE_DSS_WITH_AES_128_CBC_SHA256, "TLS_DHE_DSS_WITH_AES_128_CBC_SHA256", KxDHEDSS, true, "AESCBC", false, false, false},
	{tls.TLS_DHE_DSS_WITH_AES_256_CBC_SHA256, "TLS_DHE_DSS_WITH_AES_256_CBC_SHA256", KxDHEDSS, true, "AESCBC", false, false, false},
	{tls.TLS_DHE_DSS_WITH_AES_128_GCM_SHA256, "TLS_DHE_DSS_WITH_AES_128_GCM_SHA256", KxDHEDSS, true, "AESGCM", false, false, false},
	{tls.TLS_DHE_DSS_WITH_AES_256_GCM_SHA384, "TLS_DHE_DSS_WITH_AES_256_GCM_SHA384", KxDHEDSS, true, "AESGCM", true, false, false},
	// --- TLS 1.3
	{tls.TLS_AES_128_GCM_SHA256, "TLS_AES_128_GCM_SHA256", KxTLS13, false, "AESGCM", false, true, true},
	{tls.TLS_AES_256_GCM_SHA384, "TLS_AES_256_GCM_SHA384", KxTLS13, false, "AESGCM", true, true, true},
	{tls.TLS_CHACHA20_POLY1305_SHA256, "TLS_CHACHA20_POLY1305_SHA256", KxTLS13, false, "CHACHA", false, true, true},
}

// TLS13IDs are the three TLS 1.3 suites.
var TLS13IDs = []uint16{tls.TLS_AES_128_GCM_SHA256, tls.TLS_AES_256_GCM_SHA384, tls.TLS_CHACHA20_POLY1305_SHA256}

// Unimplemented are registered suite IDs the package does not implement; used
// as noise in generated lists.
var Unimplemented = []uint16{tls.TLS_RSA_WITH_RC4_128_MD5, 0xc024 /* ECDHE_ECDSA_AES_256_CBC_SHA384 */, tls.TLS_RSA_WITH_NULL_SHA}

var byID = func() map[uint16]*Suite {
	m := map[uint16]*Suite{}
	for i := range Suites {
		if _, dup := m[Suites[i].ID]; dup {
			panic(fmt.Sprintf("tlsgen: duplicate suite %04x", Suites[i].ID))
		}
		m[Suites[i].ID] = &Suites[i]
	}
	return m
}()

// Info returns the table entry of an implemented suite.
func Info(id uint16) (*Suite, bool) { s, ok := byID[id]; return s, ok }

// IsTLS13 reports whether id is one of the three TLS 1.3 suites.
func IsTLS13(id uint16) bool { s, ok := byID[id]; return ok && s.Kx == KxTLS13 }

// Legacy returns the IDs of all implemented TLS 1.0-1.2 suites.
func Legacy() []uint16 {
	var out []uint16
	for _, s := range Suites {
		if s.Kx != KxTLS13 {
			out = append(out, s.ID)
		}
	}
	return out
}

// ListedLegacy returns the TLS 1.0-1.2 suites of the public lists
// (tls.CipherSuites() + tls.InsecureCipherSuites()).
func ListedLegacy() []uint16 {
	var out []uint16
	for _, s := range Suites {
		if s.Kx != KxTLS13 && s.Listed {
			out = append(out, s.ID)
		}
	}
	return out
}

// DefaultLegacy returns the TLS 1.0-1.2 suites of tls.CipherSuites(): the set
// (order unspecified) used when Config.CipherSuites is nil.
func DefaultLegacy() []uint16 {
	var out []uint16
	for _, s := range Suites {
		if s.Kx != KxTLS13 && s.Default {
			out = append(out, s.ID)
		}
	}
	return out
}

// Name returns a printable suite name.
func Name(id uint16) string {
	if s, ok := byID[id]; ok {
		return s.Name
	}
	return fmt.Sprintf("0x%04X", id)
}

// Curves (TLS named groups).
const (
	P256               uint16 = 23
	P384               uint16 = 24
	P521               uint16 = 25
	X25519             uint16 = 29
	X25519MLKEM768     uint16 = 4588
	SecP256r1MLKEM768  uint16 = 4587
	SecP384r1MLKEM1024 uint16 = 4589
)

// DefaultCurves is the documented default of Config.CurvePreferences ("If
// empty, the default will be used") - the classical groups of the package.
var DefaultCurves = []uint16{X25519, P256, P384, P521}

// IsHybrid reports whether a group is a TLS 1.3-only hybrid PQ group.
func IsHybrid(g uint16) bool { return g == 4587 || g == 4588 || g == 4589 }
