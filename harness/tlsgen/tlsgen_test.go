//go:build verif

package tlsgen

import (
	"sort"
	"testing"
	"time"

	"github.com/zmap/zcrypto/tls"
	"verifharness/tlskit"
)

func idset(l []uint16) []int {
	m := map[uint16]bool{}
	for _, v := range l {
		m[v] = true
	}
	var out []int
	for v := range m {
		out = append(out, int(v))
	}
	sort.Ints(out)
	return out
}

func eq(a, b []int) bool {
	if len(a) != len(b) {
		return false
	}
	for i := range a {
		if a[i] != b[i] {
			return false
		}
	}
	return true
}

// The hand-written table must describe exactly the implemented suites, and its
// Listed/Default columns exactly the public lists.
func TestTableMatchesPackage(t *testing.T) {
	if a, b := idset(Legacy()), idset(tls.VerifImplementedSuiteIDs()); !eq(a, b) {
		t.Fatalf("implemented table drifted:\n table %x\n hook  %x", a, b)
	}
	var listed, def []uint16
	for _, s := range tls.CipherSuites() {
		listed = append(listed, s.ID)
		def = append(def, s.ID)
	}
	for _, s := range tls.InsecureCipherSuites() {
		listed = append(listed, s.ID)
	}
	var tl, td []uint16
	for _, s := range Suites {
		if s.Listed {
			tl = append(tl, s.ID)
		}
		if s.Default {
			td = append(td, s.ID)
		}
		if s.Name != tls.CipherSuiteName(s.ID) && s.Listed {
			t.Errorf("name of %04x: table %s package %s", s.ID, s.Name, tls.CipherSuiteName(s.ID))
		}
	}
	if !eq(idset(tl), idset(listed)) || !eq(idset(td), idset(def)) {
		t.Fatalf("public lists drifted")
	}
	up := append(tls.VerifUpstreamSuiteIDs(), TLS13IDs...)
	if !eq(idset(up), idset(listed)) {
		t.Fatalf("upstream table != public lists: %x vs %x", idset(up), idset(listed))
	}
}

func TestSmokeBuild(t *testing.T) {
	for _, k := range ServerKeys {
		sv := Server{Key: k}
		cl := Client{Cache: true}
		o := Negotiate(cl, sv, 0, false)
		p := tlskit.NewProxy(nil)
		cc, sc := cl.Config(sv.Roots()), sv.Config()
		c, s := tls.Client(p.Client, cc), tls.Server(p.Server, sc)
		r := tlskit.Handshake(c, s, 10*time.Second)
		if r.ClientErr != nil || r.ServerErr != nil || r.TimedOut {
			t.Fatalf("%s: %+v", k, r)
		}
		cs := c.ConnectionState()
		if o.Fail != "" || cs.Version != o.V || !contains(o.Accept, cs.CipherSuite) {
			t.Fatalf("%s: model %+v got %x %x", k, o, cs.Version, cs.CipherSuite)
		}
		c.Close()
		s.Close()
	}
}
