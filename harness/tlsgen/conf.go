package tlsgen

import (
	"crypto/aes"
	"crypto/cipher"
	"crypto/sha256"
	"encoding/binary"
	"io"
	"sync"

	"github.com/zmap/zcrypto/tls"
	"github.com/zmap/zcrypto/x509"
	"verifharness/keys"
	"verifharness/tlskit"
)

// ServerName is the DNS name of every generated server identity.
const ServerName = "example.test"

// Side holds the fields common to client and server descriptions.  A nil
// slice means "field left unset" (JSON null), which is distinct from empty.
type Side struct {
	MinVersion      uint16   `json:"min"`
	MaxVersion      uint16   `json:"max"`
	Suites          []uint16 `json:"suites"`
	Curves          []uint16 `json:"curves"`
	ALPN            []string `json:"alpn"`
	TicketsDisabled bool     `json:"tickets_disabled"`
}

// Client describes a client tls.Config.
type Client struct {
	Side
	ForceSuites bool `json:"force_suites"`
	Cache       bool `json:"cache"` // attach an LRU ClientSessionCache
	SkipVerify  bool `json:"skip_verify"`
}

// Server describes a server tls.Config.
type Server struct {
	Side
	PreferServer bool   `json:"prefer_server"`
	Key          string `json:"key"`         // pool key name of the server certificate
	ClientAuth   int    `json:"client_auth"` // tls.ClientAuthType
}

// ServerKeys are the pool keys used for generated server identities.
var ServerKeys = []string{"rsa2048-p2-1", "rsa1024-p2-0", "ecP-256-0", "ecP-384-0", "ecP-521-0", "ed25519-0"}

// KeyKind returns "rsa", "ec" or "ed25519" for a pool key name.
func KeyKind(name string) string {
	k := keys.ByName(name)
	if k == nil {
		panic("tlsgen: unknown key " + name)
	}
	return k.Kind
}

// Identity returns the cached identity (CA, leaf, tls.Certificate, roots) of a server key.
func Identity(name string) *tlskit.Identity {
	k := keys.ByName(name)
	if k == nil {
		panic("tlsgen: unknown key " + name)
	}
	return tlskit.NewIdentity(k, ServerName)
}

func curveIDs(in []uint16) []tls.CurveID {
	if in == nil {
		return nil
	}
	out := make([]tls.CurveID, len(in))
	for i, c := range in {
		out[i] = tls.CurveID(c)
	}
	return out
}

func (s Side) apply(c *tls.Config) {
	c.Time = tlskit.Now
	c.MinVersion = s.MinVersion
	c.MaxVersion = s.MaxVersion
	if s.Suites != nil {
		c.CipherSuites = append([]uint16{}, s.Suites...)
	}
	c.CurvePreferences = curveIDs(s.Curves)
	if s.ALPN != nil {
		c.NextProtos = append([]string{}, s.ALPN...)
	}
	c.SessionTicketsDisabled = s.TicketsDisabled
}

// Config builds the client configuration; roots verify the server identity.
// Config.Time is tlskit.Now.  The returned Config owns a fresh session cache
// when Cache is set, so reuse the same *tls.Config across connections that
// should share sessions.
func (cl Client) Config(roots *x509.CertPool) *tls.Config {
	c := &tls.Config{ServerName: ServerName, RootCAs: roots}
	cl.Side.apply(c)
	c.ForceSuites = cl.ForceSuites
	c.InsecureSkipVerify = cl.SkipVerify
	if cl.Cache {
		c.ClientSessionCache = tls.NewLRUClientSessionCache(4)
	}
	return c
}

// Config builds the server configuration with the identity of sv.Key.
func (sv Server) Config() *tls.Config {
	id := Identity(sv.Key)
	c := &tls.Config{Certificates: []tls.Certificate{id.Cert}}
	sv.Side.apply(c)
	c.PreferServerCipherSuites = sv.PreferServer
	c.ClientAuth = tls.ClientAuthType(sv.ClientAuth)
	return c
}

// Roots returns the root pool that verifies the identity of sv.Key.
func (sv Server) Roots() *x509.CertPool { return Identity(sv.Key).Roots }

// Rand is a deterministic, goroutine-safe byte stream (AES-CTR keyed by the
// seed words) for tls.Config.Rand, so that a replayed case sees the same
// nonces wherever the library consumes randomness deterministically.
type Rand struct {
	mu sync.Mutex
	s  cipher.Stream
}

// NewRand derives an independent stream from a case seed and stream labels.
func NewRand(seed uint64, labels ...uint64) *Rand {
	var buf [8]byte
	h := sha256.New()
	binary.BigEndian.PutUint64(buf[:], seed)
	h.Write(buf[:])
	for _, l := range labels {
		binary.BigEndian.PutUint64(buf[:], l)
		h.Write(buf[:])
	}
	k := h.Sum(nil)
	b, _ := aes.NewCipher(k[:16])
	return &Rand{s: cipher.NewCTR(b, k[16:32])}
}

func (r *Rand) Read(p []byte) (int, error) {
	r.mu.Lock()
	defer r.mu.Unlock()
	for i := range p {
		p[i] = 0
	}
	r.s.XORKeyStream(p, p)
	return len(p), nil
}

var _ io.Reader = (*Rand)(nil)
