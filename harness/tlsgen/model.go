package tlsgen

import (
	"github.com/zmap/zcrypto/tls"
)

// This file is the reference negotiation model.  It is written from the
// documentation of tls.Config (MinVersion, MaxVersion, CipherSuites,
// PreferServerCipherSuites, ForceSuites, CurvePreferences, NextProtos,
// SessionTicketsDisabled), from the suite names (RFC 5246/4492/8422/5288/5289/
// 7905/8446) and from RFC 7301 (ALPN) / RFC 8446 4.1.3 (downgrade sentinel) -
// not from the handshake code.
//
// Dev flags switch on, one by one, the places where the implementation was
// found to deviate from that documentation; with dev == 0 the model is the
// documentation.  Checks use them to (a) name a disagreement precisely and
// (b) keep searching behind a recorded finding.

// Dev is a set of known deviations of the implementation from the documentation.
type Dev uint

const (
	// DevClientListedFilter: a client without ForceSuites offers only the
	// configured suites that are in the public lists (tls.CipherSuites /
	// InsecureCipherSuites), silently dropping the other implemented suites
	// (DHE_RSA_*, RSA_AES_256_CBC_SHA256, ECDHE_ECDSA_3DES, DHE_DSS_*).
	DevClientListedFilter Dev = 1 << iota
	// DevForceNo13Defaults: a client with ForceSuites offers no TLS 1.3 suite
	// unless one is listed explicitly (the documented default list is not used).
	DevForceNo13Defaults
	// DevServer13IgnoresConfig: a TLS 1.3 server negotiates from all three
	// TLS 1.3 suites whatever Config.CipherSuites lists.
	DevServer13IgnoresConfig
	// DevECDSA3DESAsRSA: the server treats TLS_ECDHE_ECDSA_WITH_3DES_EDE_CBC_SHA
	// as an RSA-signed suite: selectable with an RSA key (then the handshake
	// fails), never selectable with an ECDSA/Ed25519 key.
	DevECDSA3DESAsRSA
	// DevDSSSelectable: the server selects TLS_DHE_DSS_* suites when it holds
	// an RSA key (then the handshake fails).
	DevDSSSelectable
	// DevAESDeprioritized: when honouring the client's order the server moves
	// ChaCha20 suites in front of the ECDHE AES-GCM suites that directly
	// precede them (no AES-GCM hardware detected).
	DevAESDeprioritized
	// DevHybridCountsAsCurve: below TLS 1.3 the server considers ECDHE possible
	// when the only group shared with the client is a TLS 1.3-only hybrid group
	// (X25519MLKEM768 ...); it selects an ECDHE suite and the handshake fails.
	DevHybridCountsAsCurve
	DevCount = 7
)

// EffVersions returns the protocol versions a (MinVersion, MaxVersion) pair
// enables, ascending.  "If zero, TLS 1.0 is taken as the minimum"; "if zero,
// the maximum version supported by this package is used (TLS 1.3)".
func EffVersions(min, max uint16) []uint16 {
	var out []uint16
	for _, v := range AllVersions {
		if min != 0 && v < min {
			continue
		}
		if max != 0 && v > max {
			continue
		}
		out = append(out, v)
	}
	return out
}

func maxOf(vs []uint16) uint16 {
	var m uint16
	for _, v := range vs {
		if v > m {
			m = v
		}
	}
	return m
}

func contains(l []uint16, v uint16) bool {
	for _, x := range l {
		if x == v {
			return true
		}
	}
	return false
}

func dedupe(l []uint16) []uint16 {
	var out []uint16
	for _, v := range l {
		if !contains(out, v) {
			out = append(out, v)
		}
	}
	return out
}

// CommonVersions returns the versions both sides enable, ascending.
func CommonVersions(cl Client, sv Server) []uint16 {
	var out []uint16
	sv_ := EffVersions(sv.MinVersion, sv.MaxVersion)
	for _, v := range EffVersions(cl.MinVersion, cl.MaxVersion) {
		if contains(sv_, v) {
			out = append(out, v)
		}
	}
	return out
}

// ClientLegacy returns the TLS 1.0-1.2 suites the client offers, and whether
// their order is the configured preference order (false: default list, order
// unspecified by the documentation).
func ClientLegacy(cl Client, dev Dev) (ids []uint16, ordered bool) {
	if cl.Suites == nil {
		return DefaultLegacy(), false
	}
	for _, id := range dedupe(cl.Suites) {
		if cl.ForceSuites {
			ids = append(ids, id) // "Add all ciphers in CipherSuites to Client Hello even if unimplemented"
			continue
		}
		s, ok := Info(id)
		if !ok || s.Kx == KxTLS13 {
			continue
		}
		if dev&DevClientListedFilter != 0 && !s.Listed {
			continue
		}
		ids = append(ids, id)
	}
	return ids, true
}

func listed13(l []uint16) []uint16 {
	var out []uint16
	for _, id := range dedupe(l) {
		if IsTLS13(id) {
			out = append(out, id)
		}
	}
	return out
}

// Client13 returns the TLS 1.3 suites the client enables: "any TLS 1.3 suite
// IDs present in the list are used; if none are present (or the list is nil),
// a default list of secure suites is used".
func Client13(cl Client, dev Dev) []uint16 {
	ids := listed13(cl.Suites)
	if cl.ForceSuites && dev&DevForceNo13Defaults != 0 {
		return ids
	}
	if len(ids) == 0 {
		return append([]uint16{}, TLS13IDs...)
	}
	return ids
}

// Server13 returns the TLS 1.3 suites the server enables (same rule).
func Server13(sv Server, dev Dev) []uint16 {
	ids := listed13(sv.Suites)
	if len(ids) == 0 || dev&DevServer13IgnoresConfig != 0 {
		return append([]uint16{}, TLS13IDs...)
	}
	return ids
}

// ServerLegacy returns the server's enabled TLS 1.0-1.2 suite list.
func ServerLegacy(sv Server) (ids []uint16, ordered bool) {
	if sv.Suites == nil {
		return DefaultLegacy(), false
	}
	return dedupe(sv.Suites), true
}

func effCurves(c []uint16) []uint16 {
	if len(c) == 0 {
		return DefaultCurves
	}
	return c
}

// hybridFallback returns the classical component group of a hybrid group (0 if none).
func hybridFallback(g uint16) uint16 {
	switch g {
	case 4587:
		return P256
	case 4588:
		return X25519
	case 4589:
		return P384
	}
	return 0
}

// CurveOverlap reports whether the two curve preference lists share a group;
// classicalOnly restricts to groups usable before TLS 1.3.
func CurveOverlap(a, b []uint16, classicalOnly bool) bool {
	for _, g := range effCurves(a) {
		if classicalOnly && IsHybrid(g) {
			continue
		}
		if contains(effCurves(b), g) {
			return true
		}
	}
	return false
}

// Usable reports whether an implemented TLS 1.0-1.2 suite can be negotiated at
// version v by a server holding a key of the given kind ("rsa", "ec",
// "ed25519"), given whether the two sides share a classical curve.
func Usable(s *Suite, keyKind string, v uint16, curveOverlap bool) bool {
	if s.Kx == KxTLS13 || v >= TLS13 {
		return false
	}
	if s.TLS12Only && v != TLS12 {
		return false
	}
	switch s.Kx {
	case KxRSA, KxDHERSA:
		return keyKind == "rsa"
	case KxECDHERSA:
		return keyKind == "rsa" && curveOverlap
	case KxECDHEECDSA:
		// Ed25519 signatures exist from TLS 1.2 on (RFC 8422 5.10 / documented
		// by the package: "Ed25519 public keys are not supported before TLS 1.2").
		return curveOverlap && (keyKind == "ec" || (keyKind == "ed25519" && v == TLS12))
	}
	return false // DHE_DSS: DSA certificates are not supported by the package
}

// Outcome is what the documentation (plus the deviations in dev) predicts for
// one connection.
type Outcome struct {
	Common []uint16 `json:"common"`
	V      uint16   `json:"v"`
	// Fail is non-empty when the handshake must fail (reason).
	Fail string `json:"fail,omitempty"`
	// MayFail: the documentation does not decide whether the handshake
	// completes (it may fail, or complete with one of Accept).
	MayFail bool `json:"may_fail,omitempty"`
	// Accept lists the acceptable negotiated suites: one element when the
	// documented preference rule is decisive, all candidates otherwise.
	Accept []uint16 `json:"accept,omitempty"`
	// Cands are all shared usable suites at V (preference order when Ordered).
	Cands   []uint16 `json:"cands,omitempty"`
	Ordered bool     `json:"ordered"`
	Proto   string   `json:"proto"`
	// Sentinel is the downgrade marker the ServerHello random must end with
	// ("" = must not carry one).
	Sentinel string `json:"sentinel,omitempty"`
}

// ALPN returns the protocol RFC 7301 3.2 selects: the server's most preferred
// protocol that the client advertised ("" when none).
func ALPN(client, server []string) string {
	if len(client) == 0 {
		return ""
	}
	for _, s := range server {
		for _, c := range client {
			if s == c {
				return s
			}
		}
	}
	return ""
}

var (
	gcmECDHE = map[uint16]bool{
		tls.TLS_ECDHE_RSA_WITH_AES_128_GCM_SHA256: true, tls.TLS_ECDHE_RSA_WITH_AES_256_GCM_SHA384: true,
		tls.TLS_ECDHE_ECDSA_WITH_AES_128_GCM_SHA256: true, tls.TLS_ECDHE_ECDSA_WITH_AES_256_GCM_SHA384: true,
		tls.TLS_AES_128_GCM_SHA256: true, tls.TLS_AES_256_GCM_SHA384: true,
	}
	chachaECDHE = map[uint16]bool{
		tls.TLS_ECDHE_RSA_WITH_CHACHA20_POLY1305_SHA256: true, tls.TLS_ECDHE_ECDSA_WITH_CHACHA20_POLY1305_SHA256: true,
		tls.TLS_CHACHA20_POLY1305_SHA256: true,
	}
)

// deprioritized returns the order in which ChaCha20 suites have moved in front
// of the run of ECDHE AES-GCM suites directly preceding them.
func deprioritized(l []uint16) []uint16 {
	out := append([]uint16{}, l...)
	for i := 1; i < len(out); i++ {
		for j := i; j > 0 && chachaECDHE[out[j]] && gcmECDHE[out[j-1]]; j-- {
			out[j], out[j-1] = out[j-1], out[j]
		}
	}
	return out
}

// Negotiate predicts the outcome of a handshake between cl and sv.  hwAES is
// the implementation's "AES-GCM hardware detected" flag (only consulted for
// DevAESDeprioritized).
func Negotiate(cl Client, sv Server, dev Dev, hwAES bool) Outcome {
	o := Outcome{Common: CommonVersions(cl, sv)}
	if len(o.Common) == 0 {
		o.Fail = "no common protocol version"
		return o
	}
	o.V = maxOf(o.Common)
	o.Proto = ALPN(cl.ALPN, sv.ALPN)
	smax := maxOf(EffVersions(sv.MinVersion, sv.MaxVersion))
	if smax >= TLS12 && o.V < smax { // RFC 8446 4.1.3
		if o.V == TLS12 {
			o.Sentinel = "DOWNGRD\x01"
		} else {
			o.Sentinel = "DOWNGRD\x00"
		}
	}
	kind := KeyKind(sv.Key)

	if o.V == TLS13 {
		c13, s13 := Client13(cl, dev), Server13(sv, dev)
		for _, id := range c13 {
			if contains(s13, id) {
				o.Cands = append(o.Cands, id)
			}
		}
		if len(o.Cands) == 0 {
			o.Fail = "no common TLS 1.3 cipher suite"
			return o
		}
		if !CurveOverlap(cl.Curves, sv.Curves, false) {
			// The client sends, next to the share of a hybrid first preference,
			// a share of the hybrid's classical component even when that group
			// is not in its CurvePreferences; a server that supports only the
			// classical group then completes.  The property says nothing about
			// groups, so either outcome is accepted in exactly this situation.
			if fb := hybridFallback(effCurves(cl.Curves)[0]); fb != 0 && contains(effCurves(sv.Curves), fb) {
				o.MayFail = true
				o.Accept = o.Cands
				return o
			}
			o.Fail = "no common key-exchange group"
			return o
		}
		o.Accept = o.Cands
		return o
	}

	overlap := CurveOverlap(cl.Curves, sv.Curves, true)
	cids, cord := ClientLegacy(cl, dev)
	sids, sord := ServerLegacy(sv)
	pref, other := cids, sids
	o.Ordered = cord
	if sv.PreferServer {
		pref, other = sids, cids
		o.Ordered = sord
	}
	if !sv.PreferServer && o.Ordered && dev&DevAESDeprioritized != 0 && !hwAES {
		pref = deprioritized(pref)
	}
	// what the implementation takes for "ECDHE is possible"
	ecdheImpl := overlap || (dev&DevHybridCountsAsCurve != 0 && CurveOverlap(cl.Curves, sv.Curves, false))
	bogusFirst, anyBogus := uint16(0), false
	for _, id := range pref {
		s, ok := Info(id)
		if !ok || s.Kx == KxTLS13 || !contains(other, id) {
			continue
		}
		good := Usable(s, kind, o.V, overlap)
		bogus := false
		if !overlap && ecdheImpl && (!s.TLS12Only || o.V == TLS12) {
			bogus = (s.Kx == KxECDHERSA && kind == "rsa") || (s.Kx == KxECDHEECDSA && kind != "rsa")
		}
		if dev&DevECDSA3DESAsRSA != 0 && id == tls.TLS_ECDHE_ECDSA_WITH_3DES_EDE_CBC_SHA {
			good = false
			bogus = kind == "rsa" && ecdheImpl
		}
		if dev&DevDSSSelectable != 0 && s.Kx == KxDHEDSS {
			bogus = kind == "rsa" && (!s.TLS12Only || o.V == TLS12)
		}
		if good {
			o.Cands = append(o.Cands, id)
		} else if bogus {
			anyBogus = true
			if len(o.Cands) == 0 && bogusFirst == 0 {
				bogusFirst = id
			}
		}
	}
	if bogusFirst != 0 && o.Ordered {
		o.Cands = nil
		o.Fail = "server selects " + Name(bogusFirst) + ", which it cannot serve"
		return o
	}
	if anyBogus && !o.Ordered {
		// default list in unknown order: the unusable suite may or may not come first
		o.MayFail = true
	}
	if len(o.Cands) == 0 {
		o.Fail = "no common usable cipher suite"
		return o
	}
	if o.Ordered {
		o.Accept = o.Cands[:1]
	} else {
		o.Accept = o.Cands
	}
	return o
}
