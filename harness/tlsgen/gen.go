package tlsgen

import (
	"pgregory.net/rapid"
)

// GenVersionRange draws (MinVersion, MaxVersion): zero values, SSL 3.0 as a
// minimum and (rarely) an empty range are included.
func GenVersionRange(t *rapid.T, label string) (min, max uint16) {
	min = rapid.SampledFrom([]uint16{0, 0, 0, SSL30, TLS10, TLS10, TLS11, TLS12, TLS12, TLS13}).Draw(t, label+"-min")
	max = rapid.SampledFrom([]uint16{0, 0, TLS10, TLS11, TLS12, TLS12, TLS12, TLS13}).Draw(t, label+"-max")
	if min != 0 && max != 0 && min > max && rapid.IntRange(0, 9).Draw(t, label+"-keep-empty") != 0 {
		min, max = max, min
	}
	return
}

// weighted pool of suites to build lists from: every implemented suite, the
// zcrypto additions and the TLS 1.3 suites a little more often.
func suitePool() []uint16 {
	var p []uint16
	for _, s := range Suites {
		n := 2
		if !s.Listed {
			n = 3
		}
		if s.Kx == KxDHEDSS {
			n = 1
		}
		if s.Kx == KxTLS13 {
			n = 4
		}
		for i := 0; i < n; i++ {
			p = append(p, s.ID)
		}
	}
	return p
}

var pool = suitePool()

// GenBase draws a small set of distinct suites both sides are likely to share.
func GenBase(t *rapid.T, label string) []uint16 {
	n := rapid.IntRange(1, 7).Draw(t, label+"-n")
	var out []uint16
	for i := 0; i < n; i++ {
		id := rapid.SampledFrom(pool).Draw(t, label)
		if !contains(out, id) {
			out = append(out, id)
		}
	}
	return out
}

// GenBaseFor is GenBase biased (3:1) towards suites a server key of the given
// kind ("rsa", "ec", "ed25519") can serve, so that shared usable suites are common.
func GenBaseFor(t *rapid.T, label, kind string) []uint16 {
	var fit []uint16
	for _, id := range pool {
		s, _ := Info(id)
		switch s.Kx {
		case KxRSA, KxECDHERSA, KxDHERSA:
			if kind == "rsa" {
				fit = append(fit, id)
			}
		case KxECDHEECDSA:
			if kind != "rsa" {
				fit = append(fit, id)
			}
		case KxTLS13:
			fit = append(fit, id)
		}
	}
	n := rapid.IntRange(1, 10).Draw(t, label+"-n")
	var out []uint16
	for i := 0; i < n; i++ {
		src := fit
		if rapid.IntRange(0, 3).Draw(t, label+"-any") == 0 {
			src = pool
		}
		id := rapid.SampledFrom(src).Draw(t, label)
		if !contains(out, id) {
			out = append(out, id)
		}
	}
	return out
}

// GenSuites draws a CipherSuites value: nil (default) or a permutation of a
// random subset of base plus a few extra suites (implemented or not).
func GenSuites(t *rapid.T, label string, base []uint16) []uint16 {
	if rapid.IntRange(0, 7).Draw(t, label+"-nil") == 0 {
		return nil
	}
	var l []uint16
	for _, id := range base {
		if rapid.IntRange(0, 4).Draw(t, label+"-take") != 0 {
			l = append(l, id)
		}
	}
	nx := rapid.SampledFrom([]int{0, 0, 1, 1, 2, 3, 6, 16}).Draw(t, label+"-nextra")
	for i := 0; i < nx; i++ {
		var id uint16
		if rapid.IntRange(0, 11).Draw(t, label+"-unimpl") == 0 {
			id = rapid.SampledFrom(Unimplemented).Draw(t, label+"-x")
		} else {
			id = rapid.SampledFrom(pool).Draw(t, label+"-x")
		}
		if !contains(l, id) || rapid.IntRange(0, 19).Draw(t, label+"-dup") == 0 {
			l = append(l, id)
		}
	}
	if len(l) == 0 {
		l = append(l, base[0])
	}
	return rapid.Permutation(l).Draw(t, label+"-perm")
}

// GenCurves draws a CurvePreferences value (nil = default).
func GenCurves(t *rapid.T, label string) []uint16 {
	if rapid.IntRange(0, 2).Draw(t, label+"-nil") != 0 {
		return nil
	}
	// all three TLS 1.3-only hybrid groups the package implements (each is a different
	// code path: different classical component and KEM, own secret concatenation)
	all := []uint16{X25519, P256, P384, P521, X25519MLKEM768, SecP256r1MLKEM768, SecP384r1MLKEM1024}
	var l []uint16
	for _, g := range all {
		p := 2
		if IsHybrid(g) {
			p = 5
		}
		if rapid.IntRange(0, p).Draw(t, label+"-take") == 0 {
			l = append(l, g)
		}
	}
	if len(l) == 0 {
		l = append(l, rapid.SampledFrom(all[:4]).Draw(t, label+"-one"))
	}
	return rapid.Permutation(l).Draw(t, label+"-perm")
}

var protos = []string{"h2", "http/1.1", "spdy/3", "verif", "x"}

// GenALPN draws a NextProtos value (nil = none).
func GenALPN(t *rapid.T, label string) []string {
	if rapid.IntRange(0, 2).Draw(t, label+"-nil") == 0 {
		return nil
	}
	var l []string
	for _, p := range protos {
		if rapid.IntRange(0, 1).Draw(t, label+"-take") == 0 {
			l = append(l, p)
		}
	}
	if len(l) == 0 {
		l = append(l, rapid.SampledFrom(protos).Draw(t, label+"-one"))
	}
	return rapid.Permutation(l).Draw(t, label+"-perm")
}

// GenSide draws the common part of a description.
func GenSide(t *rapid.T, label string, base []uint16) Side {
	var s Side
	s.MinVersion, s.MaxVersion = GenVersionRange(t, label+"-vers")
	s.Suites = GenSuites(t, label+"-suites", base)
	s.Curves = GenCurves(t, label+"-curves")
	s.ALPN = GenALPN(t, label+"-alpn")
	s.TicketsDisabled = rapid.IntRange(0, 4).Draw(t, label+"-notickets") == 0
	return s
}

// GenClient draws a client description.
func GenClient(t *rapid.T, base []uint16) Client {
	return Client{Side: GenSide(t, "client", base),
		ForceSuites: rapid.IntRange(0, 2).Draw(t, "client-force") == 0,
		Cache:       rapid.IntRange(0, 4).Draw(t, "client-cache") != 0}
}

// GenServer draws a server description (no client authentication).
func GenServer(t *rapid.T, base []uint16, key string) Server {
	return Server{Side: GenSide(t, "server", base),
		PreferServer: rapid.Bool().Draw(t, "server-prefer"),
		Key:          key}
}

// GenKey draws a server key name.
func GenKey(t *rapid.T) string { return rapid.SampledFrom(ServerKeys).Draw(t, "server-key") }
