package c32

// Scripted client against a real zcrypto server.

import (
	"crypto/rand"
	stdrsa "crypto/rsa"
	"crypto/sha256"
	"fmt"
	"math/big"
	"testing"

	"pgregory.net/rapid"
	"verifharness/keys"
	"verifharness/kit"
	"verifharness/tlskit"
)

type CHSpec struct {
	RecVers int       `json:"rec_vers"`
	Vers    int       `json:"vers"`
	SessID  int       `json:"sess_id"` // length of the legacy session id
	Suites  []int     `json:"suites"`
	Comp    []byte    `json:"comp"`
	Exts    []ExtSpec `json:"exts"`
	NoExts  bool      `json:"no_exts,omitempty"`
	RawBody []byte    `json:"raw_body,omitempty"`
	// Ticket: 0 none, 1 genuine ticket of a primed session, 2 truncated, 3 one byte flipped, 4 doubled
	Ticket int `json:"ticket,omitempty"`
	Flip   int `json:"flip,omitempty"`
}

type CliCase struct {
	Cfg     Cfg      `json:"cfg"`
	CH      CHSpec   `json:"ch"`
	Flights [][]Step `json:"flights"` // flight 0 is sent after the server's first flight
	Frame   Framing  `json:"frame"`
}

func (s CHSpec) build(seed uint64, ticket []byte, override *ExtSpec) []byte {
	if s.RawBody != nil {
		return s.RawBody
	}
	h := sha256.Sum256([]byte(fmt.Sprint("client-random", seed)))
	sid := sha256.Sum256(h[:])
	var suites []byte
	for _, x := range s.Suites {
		suites = append(suites, u16(x)...)
	}
	n := s.SessID
	var sidBytes []byte
	for len(sidBytes) < n {
		sidBytes = append(sidBytes, sid[:]...)
	}
	sidBytes = sidBytes[:n]
	body := cat(u16(s.Vers), h[:], vec8(sidBytes[:min(n, 255)]), vec16(suites), vec8(s.Comp))
	if s.NoExts {
		return body
	}
	var ex, last []byte
	for _, e := range s.Exts {
		if override != nil && e.Type == override.Type {
			continue
		}
		if e.Type == 41 { // pre_shared_key must be the last extension
			last = append(last, ext(e.Type, e.Data)...)
			continue
		}
		ex = append(ex, ext(e.Type, e.Data)...)
	}
	if override != nil {
		ex = append(ex, ext(override.Type, override.Data)...)
	}
	if s.Ticket != 0 && ticket != nil {
		tk := append([]byte(nil), ticket...)
		switch s.Ticket {
		case 2:
			tk = tk[:len(tk)*2/3]
		case 3:
			tk[((s.Flip%len(tk))+len(tk))%len(tk)] ^= 0x20
		case 4:
			tk = append(tk, tk...)
		}
		ex = append(ex, ext(35, tk)...)
	}
	ex = append(ex, last...)
	return append(body, vec16(ex)...)
}

// serverFlight is what the scripted client understood of the server's answer.
type serverFlight struct {
	msgs     [][]byte
	vers     uint16
	suite    int
	random   []byte
	skx      []byte
	certReq  bool
	done     bool
	tls13    bool
	hrr      bool
	resuming bool
}

func parseServerFlight(stream []byte) serverFlight {
	var f serverFlight
	f.msgs = splitHandshake(stream)
	for _, m := range f.msgs {
		body := m[4:]
		switch m[0] {
		case hsServerHello:
			if len(body) >= 35 {
				f.vers = uint16(body[0])<<8 | uint16(body[1])
				f.random = body[2:34]
				n := int(body[34])
				if len(body) >= 35+n+3 {
					f.suite = int(body[35+n])<<8 | int(body[36+n])
					rest := body[35+n+3:]
					if len(rest) >= 2 {
						rest = rest[2:]
						for len(rest) >= 4 {
							t := int(rest[0])<<8 | int(rest[1])
							l := int(rest[2])<<8 | int(rest[3])
							if len(rest) < 4+l {
								break
							}
							if t == 43 {
								f.tls13 = true
							}
							rest = rest[4+l:]
						}
					}
				}
				if string(f.random) == string(hrrRandom) {
					f.hrr = true
				}
			}
		case hsServerKeyExchange:
			f.skx = body
		case hsCertificateRequest:
			f.certReq = true
		case hsServerHelloDone:
			f.done = true
		}
	}
	if len(f.msgs) > 0 && !f.done && !f.tls13 && f.random != nil {
		f.resuming = true
	}
	return f
}

// ckxBody builds a ClientKeyExchange body.
//
//	A: 0 valid for the negotiated key exchange, 1 empty, 2 length prefix too long,
//	   3 length prefix too short, 4 hostile value B, 5 raw Data
func ckxBody(s Step, f serverFlight, serverKey *keys.Key, chVers int) []byte {
	lenPrefix := 2 // RSA, DHE: uint16; ECDHE: uint8
	var val []byte
	switch {
	case isRSAKx(f.suite):
		pm := make([]byte, 48)
		pm[0], pm[1] = byte(chVers>>8), byte(chVers)
		for i := 2; i < 48; i++ {
			pm[i] = byte(i)
		}
		pub, _ := serverKey.StdPub.(*stdrsa.PublicKey)
		if pub != nil {
			val, _ = stdrsa.EncryptPKCS1v15(rand.Reader, pub, pm)
			if s.A == 4 {
				k := (pub.N.BitLen() + 7) / 8
				switch s.B % 5 {
				case 0:
					val = make([]byte, k)
				case 1:
					val = pub.N.Bytes()
				case 2:
					val = []byte{7}
				case 3:
					val = append(val, 0)
				default:
					val[len(val)/2] ^= 0x55
				}
			}
		}
	case isDHE(f.suite):
		p := new(big.Int)
		if len(f.skx) >= 2 {
			n := int(f.skx[0])<<8 | int(f.skx[1])
			if len(f.skx) >= 2+n {
				p.SetBytes(f.skx[2 : 2+n])
			}
		}
		y := big.NewInt(2)
		if s.A == 4 {
			switch s.B % 7 {
			case 0:
				y = big.NewInt(0)
			case 1:
				y = big.NewInt(1)
			case 2:
				y = new(big.Int).Sub(p, big.NewInt(1))
			case 3:
				y = new(big.Int).Set(p)
			case 4:
				y = new(big.Int).Add(p, big.NewInt(3))
			case 5:
				y = new(big.Int).Lsh(big.NewInt(1), 8191)
			default:
				y = nil
			}
		}
		if y != nil {
			val = new(big.Int).Abs(y).Bytes()
		}
	default: // ECDHE
		lenPrefix = 1
		group := 29
		if len(f.skx) >= 3 {
			group = int(f.skx[1])<<8 | int(f.skx[2])
		}
		mode := 0
		if s.A == 4 {
			mode = 1 + s.B%8
		}
		val = ecPoint(group, mode, f.random)
		if len(val) > 255 {
			val = val[:255]
		}
	}
	pre := func(n int) []byte {
		if lenPrefix == 1 {
			return []byte{byte(n)}
		}
		return u16(n)
	}
	switch s.A {
	case 1:
		return nil
	case 2:
		return cat(pre(len(val)+5), val)
	case 3:
		if len(val) > 2 {
			return cat(pre(len(val)-2), val)
		}
	case 5:
		return s.Data
	}
	return cat(pre(len(val)), val)
}

// certVerifyBody builds a CertificateVerify body.
//
//	A: 0 valid signature over the transcript, 1 garbage, 2 empty, 3 lying length; C: scheme (0: default for the key)
func certVerifyBody(s Step, k *keys.Key, vers uint16, transcript []byte) []byte {
	scheme := s.C
	if scheme == 0 {
		switch k.Kind {
		case "rsa":
			scheme = 0x0401
		case "ec":
			scheme = 0x0403
		default:
			scheme = 0x0807
		}
	}
	var sig []byte
	switch s.A {
	case 0:
		var ok bool
		if sig, ok = tlsSign(k, vers, uint16(scheme), transcript); !ok {
			sig = make([]byte, 64)
		}
	case 1, 3:
		sig = cat(hashOf(5, transcript), make([]byte, 16))
		d := sha256.Sum256(transcript)
		sig = append(d[:], d[:]...)
	}
	var alg []byte
	if vers >= 0x0303 {
		alg = u16(scheme)
	}
	if s.A == 3 {
		return cat(alg, u16(len(sig)+4), sig)
	}
	return cat(alg, vec16(sig))
}

func checkCliScript(c CliCase, r *kit.R) {
	withPermissive(c.Cfg.Permissive, func() {
		scfg := c.Cfg.serverConfig()
		var ticket []byte
		if c.CH.Ticket != 0 {
			// genuine TLS <= 1.2 handshake first; the NewSessionTicket travels in plaintext
			pc := c.Cfg
			pc.Tickets = true
			if pc.MaxVer == 0 || pc.MaxVer > 0x0303 {
				pc.MaxVer = 0x0303
			}
			n0 := make(chan struct{}, 1)
			pl := &plan{classes: map[string]bool{}}
			px := tlskit.NewProxy(pl.hook)
			cli := newEndpoint("client", px.Client, pc.clientConfig(), n0)
			srv := newEndpoint("server", px.Server, pc.serverConfig(), n0)
			cli.send, srv.send, cli.want = []byte("a"), []byte("b"), 1
			runPair(r, "priming handshake", cli, srv, px, pl)
			judge(r, "priming handshake", cli, srv)
			var s2c []byte
			for _, rec := range px.T.Records(tlskit.ServerToClient) {
				s2c = append(s2c, rec.Raw...)
			}
			// the ticket is in the second plaintext handshake run (after the client's flight)
			for len(s2c) >= 5 {
				n := int(s2c[3])<<8 | int(s2c[4])
				if len(s2c) < 5+n {
					break
				}
				if s2c[0] == recHandshake && n >= 10 && s2c[5] == hsNewSessionTicket {
					m := s2c[5 : 5+n]
					tl := int(m[8])<<8 | int(m[9])
					if len(m) >= 10+tl {
						ticket = m[10 : 10+tl]
					}
				}
				s2c = s2c[5+n:]
			}
			if ticket != nil {
				r.Class("ticket:captured")
			}
		}
		a, b := tlskit.RawPair()
		notify := make(chan struct{}, 1)
		srv := newEndpoint("server", a, scfg, notify)
		srv.send, srv.reads = []byte("HTTP/1.0 200 OK\r\n\r\n"), 3
		io := &peerIO{end: b, target: srv, notify: notify}
		what := "scripted client" + fmtSteps(c.Flights)
		go srv.run()

		serverKey := keyOr(c.Cfg.Key, "rsa2048-p2-1")
		clientKey := keyOr(c.Cfg.ClientKey, "ecP-256-0")
		stuck := false
		func() {
			chMsg := hsMsg(hsClientHello, c.CH.build(c.Cfg.Seed, ticket, nil))
			recv := uint16(c.CH.RecVers)
			f := c.Frame
			f.Ver = int(recv)
			io.send(frame([]item{{hs: true, raw: chMsg}}, f), c.Frame.Seg)
			if !io.settle() {
				stuck = true
				return
			}
			sf := parseServerFlight(io.drain())
			if sf.random != nil {
				r.Class(fmt.Sprintf("server-hello vers=%04x tls13=%v hrr=%v resume=%v", sf.vers, sf.tls13, sf.hrr, sf.resuming))
			} else {
				r.Class("no-server-hello")
			}
			transcript := append([]byte(nil), chMsg...)
			for _, m := range sf.msgs {
				transcript = append(transcript, m...)
			}
			vers := sf.vers
			ctx := func(s Step) (byte, []byte, bool) {
				var typ byte
				var body []byte
				switch s.Kind {
				case "cert":
					typ, body = hsCertificate, certChain(s, clientKey, "client.test")
				case "ckx":
					typ, body = hsClientKeyExchange, ckxBody(s, sf, serverKey, c.CH.Vers)
				case "certverify":
					typ, body = hsCertificateVerify, certVerifyBody(s, clientKey, vers, transcript)
				case "finished":
					typ, body = hsFinished, s.Data
				case "ch": // a second ClientHello (HelloRetryRequest answer, or an unsolicited one)
					var ov *ExtSpec
					switch s.A {
					case 1:
						ov = &ExtSpec{51, vec16(cat(u16(29), vec16(ecPoint(29, 0, sf.random))))}
					case 2:
						ov = &ExtSpec{51, vec16(cat(u16(23), vec16(ecPoint(23, 0, nil))))}
					case 3:
						ov = &ExtSpec{51, vec16(cat(u16(24), vec16(ecPoint(24, s.B%9, nil))))}
					case 4:
						ov = &ExtSpec{51, vec16(nil)}
					}
					typ, body = hsClientHello, c.CH.build(c.Cfg.Seed+uint64(s.B), ticket, ov)
				default:
					return 0, nil, false
				}
				transcript = append(transcript, hsMsg(typ, body)...)
				return typ, body, true
			}
			fr := c.Frame
			if fr.Ver == 0 {
				fr.Ver = int(vers)
				if sf.tls13 || vers == 0 {
					fr.Ver = 0x0303
				}
			}
			for i, fl := range c.Flights {
				if srv.isDone() {
					break
				}
				io.send(frame(buildItems(fl, ctx), fr), c.Frame.Seg)
				if !io.settle() {
					stuck = true
					return
				}
				if out := io.drain(); len(out) > 0 {
					r.Class(fmt.Sprintf("server-replied-after-flight%d", i))
				}
			}
		}()
		b.Close()
		if stuck {
			awaitDone(r, what+" (server neither finished nor waiting for input)", srv)
		}
		awaitDone(r, what, srv)
		if dbgEndpoint != nil {
			dbgEndpoint(srv)
		}
		judge(r, what, srv)
		r.Class("server-err:" + errClass(srv.hsErr))
		r.Class(fmt.Sprintf("log-messages=%d", srv.consumed))
		if srv.consumed >= 1 {
			r.NonTrivial()
		}
	})
}

// ---------------------------------------------------------------------------
// generator

func sniExt(name string) []byte { return vec16(cat([]byte{0}, vec16([]byte(name)))) }

func u16list(v ...int) []byte {
	var b []byte
	for _, x := range v {
		b = append(b, u16(x)...)
	}
	return b
}

func genChExt(t *rapid.T, l string) ExtSpec {
	rnd := func(n int) []byte { return rapid.SliceOfN(rapid.Byte(), n, n).Draw(t, l+"bytes") }
	switch uni(t, l+"which", 19) {
	case 0: // server_name
		return ExtSpec{0, pick(t, l+"v", [][]byte{sniExt("other.test"), sniExt("example.test."), sniExt(""), vec16(nil), vec16(cat([]byte{1}, vec16([]byte("x")))),
			vec16(cat([]byte{0}, vec16([]byte("a")), []byte{0}, vec16([]byte("b")))), {0, 9, 0}, sniExt(string(make([]byte, 300))), sniExt("ex\x00mple.test")})}
	case 1: // supported_groups
		return ExtSpec{10, pick(t, l+"v", [][]byte{vec16(u16list(29)), vec16(u16list(23)), vec16(u16list(24)), vec16(u16list(25)), vec16(u16list(4588, 29)), vec16(u16list(21)),
			vec16(nil), vec16([]byte{0, 29, 0}), vec16(u16list(0xffff, 0)), {0}, vec16(u16list(4588)), vec16(u16list(4587, 4589, 23))})}
	case 2:
		return ExtSpec{11, pick(t, l+"v", [][]byte{vec8(nil), vec8([]byte{1}), vec8([]byte{1, 2, 0}), {5, 0}, nil})}
	case 3: // signature_algorithms
		return ExtSpec{13, pick(t, l+"v", [][]byte{vec16(u16list(0x0807)), vec16(u16list(0x0201)), vec16(u16list(0x0203, 0x0201)), vec16(nil), vec16([]byte{4, 1, 4}),
			vec16(u16list(0xeeee, 0)), vec16(u16list(0x0804)), vec16(u16list(0x0403)), vec16(u16list(0x0101, 0x0102)), {0}})}
	case 4: // status_request
		return ExtSpec{5, pick(t, l+"v", [][]byte{{1, 0, 0, 0, 0}, {1, 0, 2, 0, 0, 0, 0}, {2, 0, 0, 0, 0}, {1}, nil, {1, 0, 9, 0}})}
	case 5:
		return ExtSpec{18, pick(t, l+"v", [][]byte{nil, {0}, {0, 0}})}
	case 6: // ALPN
		return ExtSpec{16, pick(t, l+"v", [][]byte{vec16(vec8([]byte("h2"))), vec16(cat(vec8([]byte("http/1.1")), vec8([]byte("h2")))), vec16(vec8(nil)), vec16(nil), {0, 9, 1},
			vec16(vec8(make([]byte, 255))), nil})}
	case 7: // session_ticket with garbage
		return ExtSpec{35, pick(t, l+"v", [][]byte{nil, rnd(1), rnd(16), rnd(31), rnd(32), rnd(48), rnd(64), rnd(200)})}
	case 8:
		return ExtSpec{0xff01, pick(t, l+"v", [][]byte{{0}, vec8(make([]byte, 12)), {5, 1}, nil, vec8(make([]byte, 24))})}
	case 9:
		return ExtSpec{23, pick(t, l+"v", [][]byte{nil, {0}})}
	case 10:
		return ExtSpec{15, pick(t, l+"v", [][]byte{{1}, {2}, nil, {1, 1}})}
	case 11:
		return ExtSpec{40, pick(t, l+"v", [][]byte{vec16(rnd(32)), vec16(nil), vec16(rnd(1)), rnd(3), vec16(make([]byte, 255)), vec16(vec16(rnd(32)))})}
	case 12: // supported_versions
		return ExtSpec{43, pick(t, l+"v", [][]byte{vec8(u16list(0x0304, 0x0303)), vec8(u16list(0x0304)), vec8(u16list(0x0303)), vec8(u16list(0x0301)), vec8(u16list(0x7f1c, 0x0a0a)),
			vec8(nil), vec8([]byte{3, 4, 3}), vec8(u16list(0x0300)), vec8(u16list(0x0305, 0x0304)), {9}})}
	case 13: // key_share
		entry := func(g int, d []byte) []byte { return cat(u16(g), vec16(d)) }
		return ExtSpec{51, pick(t, l+"v", [][]byte{
			vec16(entry(29, rnd(32))), vec16(entry(23, ecPoint(23, 0, nil))), vec16(entry(24, ecPoint(24, 0, nil))), vec16(entry(25, ecPoint(25, 0, nil))),
			vec16(entry(29, rnd(31))), vec16(entry(29, nil)), vec16(entry(29, make([]byte, 32))), vec16(entry(23, ecPoint(23, 4, nil))), vec16(entry(23, ecPoint(23, 6, nil))),
			vec16(entry(23, ecPoint(23, 5, nil))), vec16(nil), vec16(cat(entry(29, rnd(32)), entry(29, rnd(32)))), vec16(cat(entry(23, ecPoint(23, 0, nil)), entry(29, rnd(32)))),
			vec16(entry(4588, make([]byte, 1216))), vec16(entry(4588, make([]byte, 1215))), vec16(entry(4588, rnd(32))), vec16(entry(4587, make([]byte, 1249))),
			vec16(entry(4589, make([]byte, 1665))), vec16(entry(4589, make([]byte, 97))), vec16(entry(0x6399, rnd(32))), vec16(entry(21, ecPoint(21, 0, nil))), {0, 7, 0, 29},
			vec16(entry(4588, append(make([]byte, 1184), rnd(32)...)))})}
	case 14:
		return ExtSpec{45, pick(t, l+"v", [][]byte{vec8([]byte{1}), vec8([]byte{0}), vec8(nil), vec8([]byte{0, 1, 2}), {3, 1}})}
	case 15: // pre_shared_key
		ident := func(id []byte, age int) []byte {
			return cat(vec16(id), []byte{byte(age >> 24), byte(age >> 16), byte(age >> 8), byte(age)})
		}
		return ExtSpec{41, pick(t, l+"v", [][]byte{
			cat(vec16(ident(rnd(48), 0)), vec16(vec8(make([]byte, 32)))), cat(vec16(ident(rnd(100), 1<<31)), vec16(vec8(make([]byte, 48)))),
			cat(vec16(ident(rnd(1), 0)), vec16(vec8(make([]byte, 1)))), cat(vec16(ident(nil, 0)), vec16(vec8(make([]byte, 32)))),
			cat(vec16(cat(ident(rnd(48), 0), ident(rnd(48), 5))), vec16(vec8(make([]byte, 32)))), cat(vec16(ident(rnd(48), 0)), vec16(nil)),
			cat(vec16(ident(rnd(48), 0)), vec16(vec8(make([]byte, 255)))), cat(vec16(nil), vec16(nil)), {0, 5, 0}})}
	case 16:
		return ExtSpec{pick(t, l+"type", []int{44, 42, 21, 49, 50, 13172, 0xabcd, 28, 1, 47}), rnd(uni(t, l+"len", 20))}
	case 17: // duplicate of a benign extension
		return ExtSpec{pick(t, l+"type", []int{0, 10, 11, 13, 43, 51, 45, 35, 0xff01}), nil}
	default:
		return ExtSpec{uni(t, l+"type", 64), rnd(uni(t, l+"len", 8))}
	}
}

func genCliCase(t *rapid.T) CliCase {
	c := CliCase{Cfg: genCfg(t)}
	c.Cfg.Permissive = oneIn(t, "permissive", 4)
	if c.Cfg.ClientAuth != 0 && c.Cfg.ClientKey == "" {
		c.Cfg.ClientKey = "ecP-256-0"
	}
	if len(c.Cfg.Suites) == 1 && oneIn(t, "srv-default-suites", 3) {
		c.Cfg.Suites = nil
	}
	maxv := int(c.Cfg.MaxVer)

	// ---- benign ClientHello
	ch := &c.CH
	ch.Vers = maxv
	if ch.Vers > 0x0303 {
		ch.Vers = 0x0303
	}
	ch.RecVers = pick(t, "recvers", []int{0x0301, 0x0303})
	ch.SessID = pick(t, "sid", []int{32, 0})
	var pool []uint16
	if len(c.Cfg.Suites) == 1 {
		pool = c.Cfg.Suites
	} else {
		// what a server with default CipherSuites accepts
		pool = []uint16{0xc02f, 0xc030, 0xc013, 0xc014, 0x009c, 0x009d, 0x002f, 0x0035, 0xcca8}
		if c.Cfg.Key[:2] != "rs" {
			pool = []uint16{0xc02b, 0xc02c, 0xc009, 0xc00a, 0xcca9}
		}
		if ch.Vers < 0x0303 {
			pool = []uint16{0xc013, 0xc014, 0x002f, 0x0035}
			if c.Cfg.Key[:2] != "rs" {
				pool = []uint16{0xc009, 0xc00a}
			}
		}
	}
	ns := 1 + uni(t, "nsuites", 3)
	for i := 0; i < ns; i++ {
		ch.Suites = append(ch.Suites, int(pick(t, fmt.Sprintf("suite%d", i), pool)))
	}
	ch.Comp = []byte{0}
	tls13 := maxv == 0x0304 && !oneIn(t, "tls13", 3)
	ch.Exts = []ExtSpec{{0, sniExt(serverName)}, {10, vec16(u16list(29, 23, 24, 25))}, {11, vec8([]byte{0})},
		{13, vec16(u16list(0x0804, 0x0403, 0x0807, 0x0805, 0x0806, 0x0401, 0x0501, 0x0601, 0x0503, 0x0603, 0x0201, 0x0203))}}
	if rapid.Bool().Draw(t, "reneg") {
		ch.Exts = append(ch.Exts, ExtSpec{0xff01, []byte{0}})
	} else {
		ch.Suites = append(ch.Suites, 0x00ff)
	}
	if oneIn(t, "ocsp", 3) {
		ch.Exts = append(ch.Exts, ExtSpec{5, []byte{1, 0, 0, 0, 0}})
	}
	if oneIn(t, "sct", 3) {
		ch.Exts = append(ch.Exts, ExtSpec{18, nil})
	}
	if c.Cfg.ALPN && rapid.Bool().Draw(t, "alpn") {
		ch.Exts = append(ch.Exts, ExtSpec{16, vec16(cat(vec8([]byte("h2")), vec8([]byte("http/1.1"))))})
	}
	if oneIn(t, "ems", 3) {
		ch.Exts = append(ch.Exts, ExtSpec{23, nil})
	}
	if c.Cfg.Tickets && !tls13 {
		switch uni(t, "ticket", 4) {
		case 0:
			ch.Exts = append(ch.Exts, ExtSpec{35, nil})
		case 1:
			ch.Ticket = 1
		}
	}
	if tls13 {
		ch.Suites = append([]int{pick(t, "suite13", []int{0x1301, 0x1302, 0x1303})}, ch.Suites...)
		ch.SessID = 32
		ch.Exts = append(ch.Exts, ExtSpec{43, vec8(u16list(0x0304, 0x0303))}, ExtSpec{45, vec8([]byte{1})})
		switch uni(t, "ks13", 4) {
		case 0, 1:
			ch.Exts = append(ch.Exts, ExtSpec{51, vec16(cat(u16(29), vec16(ecPoint(29, 0, []byte{byte(c.Cfg.Seed), 3, 5, 7}))))})
		case 2:
			ch.Exts = append(ch.Exts, ExtSpec{51, vec16(cat(u16(23), vec16(ecPoint(23, 0, nil))))})
		default: // no usable share: HelloRetryRequest
			ch.Exts = append(ch.Exts, ExtSpec{51, vec16(nil)})
		}
	}
	// flight 0: [Certificate] ClientKeyExchange [CertificateVerify] ChangeCipherSpec Finished(garbage)
	var f0 []Step
	if tls13 {
		n := uni(t, "f13", 4)
		for i := 0; i < n; i++ {
			f0 = append(f0, genHostileStep(t, fmt.Sprintf("f13-%d", i)))
		}
		if oneIn(t, "ch2", 2) {
			f0 = append([]Step{{Kind: "ch", A: 1 + uni(t, "ch2-a", 4), B: uni(t, "ch2-b", 9)}}, f0...)
		}
	} else {
		sendCert := c.Cfg.ClientAuth != 0
		if sendCert {
			f0 = append(f0, Step{Kind: "cert", A: pick(t, "cert-chain", []int{0, 1, 0, 2})})
		}
		f0 = append(f0, Step{Kind: "ckx"})
		if sendCert && f0[0].A != 2 {
			f0 = append(f0, Step{Kind: "certverify"})
		}
		f0 = append(f0, Step{Kind: "ccs"}, Step{Kind: "finished", Data: make([]byte, 12)})
	}
	c.Frame.Pack = pick(t, "pack", []int{0, 1, 2})
	if c.Frame.Pack == 2 {
		c.Frame.Frag = pick(t, "frag", []int{1, 2, 3, 4, 5, 7, 64, 100, 1000})
	}
	c.Frame.Seg = pick(t, "seg", []int{0, 0, 0, 1, 5, 100})

	// ---- hostile deviations
	find := func(kind string) int {
		for i := range f0 {
			if f0[i].Kind == kind {
				return i
			}
		}
		return -1
	}
	nd := pick(t, "ndev", []int{1, 1, 1, 2, 2, 3, 0})
	for d := 0; d < nd; d++ {
		l := fmt.Sprintf("dev%d-", d)
		menu := []string{"ch-vers", "ch-recvers", "ch-sid", "ch-suites", "ch-comp", "ch-ext", "ch-ext", "ch-ext", "ch-ext", "ch-dropext", "ch-noexts", "ch-raw", "ticket", "flight", "tail"}
		if !tls13 {
			menu = append(menu, "cert", "cert", "cert", "ckx", "ckx", "ckx", "ckx", "certverify", "certverify", "flight", "ccs")
		}
		switch pick(t, l+"what", menu) {
		case "ch-vers":
			ch.Vers = pick(t, l+"v", []int{0x0300, 0x0301, 0x0302, 0x0303, 0x0304, 0x0305, 0x0002, 0xffff, 0, 0x0200})
		case "ch-recvers":
			ch.RecVers = pick(t, l+"v", []int{0x0300, 0x0304, 0x0002, 0xffff, 0x1000, 0x0fff, 0})
		case "ch-sid":
			ch.SessID = pick(t, l+"v", []int{1, 31, 33, 255, 0, 32})
		case "ch-suites":
			first := 0x002f
			if len(ch.Suites) > 0 {
				first = ch.Suites[0]
			}
			ch.Suites = pick(t, l+"v", [][]int{{}, {0x00ff}, {0x5600, first}, {0x1301}, {0xffff, 0}, {0x0033, 0x0039, 0x009e}, {0xc02b, 0xc02f}, {0x0005}, {0x000a, 0x002f, 0x0035},
				{0x1301, 0x1302, 0x1303, 0xc02f, 0xc02b, 0x009c}})
		case "ch-comp":
			ch.Comp = pick(t, l+"v", [][]byte{nil, {1}, {1, 0}, {0, 0, 0}, {64}})
		case "ch-ext":
			e := genChExt(t, l)
			replaced := false
			if rapid.Bool().Draw(t, l+"replace") {
				for i := range ch.Exts {
					if ch.Exts[i].Type == e.Type {
						ch.Exts[i] = e
						replaced = true
						break
					}
				}
			}
			if !replaced {
				i := uni(t, l+"pos", len(ch.Exts)+1)
				ch.Exts = append(ch.Exts[:i:i], append([]ExtSpec{e}, ch.Exts[i:]...)...)
			}
		case "ch-dropext":
			if len(ch.Exts) > 0 {
				i := uni(t, l+"i", len(ch.Exts))
				ch.Exts = append(ch.Exts[:i:i], ch.Exts[i+1:]...)
			}
		case "ch-noexts":
			ch.NoExts = true
		case "ch-raw":
			ch.RawBody = genBytes(t, l+"raw", 120)
		case "ticket":
			ch.Ticket = 1 + uni(t, l+"v", 4)
			ch.Flip = uni(t, l+"flip", 200)
		case "cert":
			st := hostileCertStep(t, l+"cert")
			if i := find("cert"); i >= 0 {
				f0[i] = st
			} else {
				f0 = append([]Step{st}, f0...)
			}
			if find("certverify") < 0 {
				if i := find("ckx"); i >= 0 {
					f0 = append(f0[:i+1:i+1], append([]Step{{Kind: "certverify", A: pick(t, l+"cv", []int{0, 1})}}, f0[i+1:]...)...)
				}
			}
		case "ckx":
			if i := find("ckx"); i >= 0 {
				f0[i].A = pick(t, l+"mode", []int{4, 4, 4, 4, 1, 2, 3, 5})
				f0[i].B = uni(t, l+"b", 16)
				if f0[i].A == 5 {
					f0[i].Data = genBytes(t, l+"raw", 300)
				}
			}
		case "certverify":
			cv := Step{Kind: "certverify", A: pick(t, l+"mode", []int{1, 2, 3, 0}), C: pick(t, l+"scheme", append([]int{0}, sigSchemes...))}
			if i := find("certverify"); i >= 0 {
				f0[i] = cv
			} else if i := find("ckx"); i >= 0 {
				f0 = append(f0[:i+1:i+1], append([]Step{cv}, f0[i+1:]...)...)
			}
		case "ccs":
			if i := find("ccs"); i >= 0 {
				if rapid.Bool().Draw(t, l+"drop") {
					f0 = append(f0[:i:i], f0[i+1:]...)
				} else {
					f0[i].Data = pick(t, l+"ccs", [][]byte{{2}, {1, 1}, {0}})
				}
			}
		case "flight":
			if len(f0) == 0 {
				f0 = append(f0, genHostileStep(t, l+"only"))
				break
			}
			switch uni(t, l+"mut", 5) {
			case 0:
				if len(f0) > 1 {
					i := uni(t, l+"swap", len(f0)-1)
					f0[i], f0[i+1] = f0[i+1], f0[i]
				}
			case 1:
				i := uni(t, l+"dup", len(f0))
				f0 = append(f0[:i+1:i+1], f0[i:]...)
			case 2:
				i := uni(t, l+"del", len(f0))
				f0 = append(f0[:i:i], f0[i+1:]...)
			case 3:
				i := uni(t, l+"insch", len(f0)+1)
				f0 = append(f0[:i:i], append([]Step{{Kind: "ch", A: uni(t, l+"ch-a", 5), B: uni(t, l+"ch-b", 9)}}, f0[i:]...)...)
			default:
				i := uni(t, l+"ins", len(f0)+1)
				f0 = append(f0[:i:i], append([]Step{genHostileStep(t, l+"ins")}, f0[i:]...)...)
			}
		case "tail":
			c.Flights = append(c.Flights, nil) // marker, filled below
		}
	}
	tails := len(c.Flights)
	c.Flights = [][]Step{f0}
	for i := 0; i < tails; i++ {
		c.Flights = append(c.Flights, []Step{genHostileStep(t, fmt.Sprintf("tail%da", i)), genHostileStep(t, fmt.Sprintf("tail%db", i))})
	}
	return c
}

const cliRule = "a hand-written scripted client drives a real zcrypto server (configurations as in 'faults', all ClientAuth modes, tickets, permissive parsing) with a generated ClientHello (version/record-version/session-id/suite-list/compression variants; SNI, supported_groups, point formats, signature_algorithms, status_request, SCT, ALPN, session tickets that are garbage or genuine/truncated/bit-flipped/doubled tickets of a primed session, renegotiation_info, EMS, heartbeat, extended random, supported_versions, key_share entries with valid/short/empty/zero/off-curve/compressed/infinity points, duplicate groups and ML-KEM hybrids of right and wrong sizes, psk_key_exchange_modes, pre_shared_key with hostile identity/binder shapes, unknown and duplicate extensions), a second ClientHello (HelloRetryRequest answer or unsolicited), then Certificate (genuine, empty, garbage, hostile key), ClientKeyExchange (RSA: zero/N/short/long/corrupted ciphertext; ECDHE: hostile points; DHE: Y in {0,1,p-1,p,>p,8192 bit,empty}; lying length prefixes), CertificateVerify (valid transcript signature, garbage, empty, lying length, unexpected scheme), ChangeCipherSpec/Finished garbage and arbitrary records, duplicated/omitted/reordered/inserted, coalesced or fragmented and segmented. Non-trivial: the server consumed >= 1 full handshake message (its log contains the ClientHello)"

func TestPropScriptedClient(t *testing.T) {
	kit.Run(t, kit.Spec[CliCase]{ID: "C32", Name: "scripted-client", Rule: cliRule, Gen: genCliCase, Check: checkCliScript,
		Quick: 700, Thorough: 6000, Assumptions: commonAssumptions})
}
