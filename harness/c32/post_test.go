package c32

// Hostile plaintext inside the protected channel: after a genuine handshake
// the peer (a real zcrypto Conn used as a record writer) sends generated
// handshake messages, alerts and other records under the session keys.

import (
	"fmt"
	"testing"

	"github.com/zmap/zcrypto/tls"
	"pgregory.net/rapid"
	"verifharness/kit"
	"verifharness/tlskit"
)

type PostCase struct {
	Cfg    Cfg    `json:"cfg"`
	Target string `json:"target"` // endpoint under observation: "client" | "server"
	Steps  []Step `json:"steps"`
	End    int    `json:"end"` // how the peer ends: 0 Close (close_notify), 1 transport close, 2 CloseWrite, 3 just stops
	App    int    `json:"app"`
}

func writeRecord(c *tls.Conn, typ int, data []byte) error {
	var err error
	switch typ {
	case 20:
		_, err = c.WriteRecord(20, data)
	case 21:
		_, err = c.WriteRecord(21, data)
	case 22:
		_, err = c.WriteRecord(22, data)
	case 23:
		_, err = c.WriteRecord(23, data)
	case 24:
		_, err = c.WriteRecord(24, data)
	case 0:
		_, err = c.WriteRecord(0, data)
	case 25:
		_, err = c.WriteRecord(25, data)
	default:
		_, err = c.WriteRecord(255, data)
	}
	return err
}

func checkPost(c PostCase, r *kit.R) {
	withPermissive(c.Cfg.Permissive, func() {
		notify := make(chan struct{}, 1)
		pl := &plan{classes: map[string]bool{}}
		px := tlskit.NewProxy(pl.hook)
		cli := newEndpoint("client", px.Client, c.Cfg.clientConfig(), notify)
		srv := newEndpoint("server", px.Server, c.Cfg.serverConfig(), notify)
		app := make([]byte, c.App)
		cli.send, srv.send, cli.want = app, app, len(app)
		target, peer := cli, srv
		if c.Target == "server" {
			target, peer = srv, cli
		}
		target.reads = 60
		key := keyOr(c.Cfg.Key, "rsa2048-p2-1")
		id := tlskit.NewIdentity(key, serverName)
		zero := make([]byte, 32)
		ctx := func(s Step) (byte, []byte, bool) {
			switch s.Kind {
			case "cert":
				return hsCertificate, certChain(s, key, serverName), true
			case "skx":
				return hsServerKeyExchange, skxBody(s, key, 0x0303, zero, zero), true
			case "certreq":
				return hsCertificateRequest, certReqBody(s, 0x0303, id.CA.RawSubject), true
			case "done":
				return hsServerHelloDone, s.Data, true
			}
			return 0, nil, false
		}
		delivered := 0
		peer.after = func(e *endpoint) {
			for _, s := range c.Steps {
				ok := true
				e.call("peer:"+s.Kind, func() {
					switch s.Kind {
					case "app":
						_, err := e.conn.Write(s.Data)
						ok = err == nil
					case "record":
						ok = writeRecord(e.conn, s.Type, s.Data) == nil
					case "alert":
						ok = writeRecord(e.conn, 21, []byte{byte(s.A), byte(s.B)}) == nil
					case "ccs":
						ok = writeRecord(e.conn, 20, []byte{1}) == nil
					default:
						for _, it := range buildItems([]Step{s}, ctx) {
							if it.hs {
								ok = writeRecord(e.conn, 22, it.raw) == nil
							}
						}
					}
				})
				if !ok {
					break
				}
				delivered++
			}
			switch c.End {
			case 1:
				e.call("peer:transport-close", func() { e.cc.Conn.Close() })
			case 2:
				e.call("peer:CloseWrite", func() { e.conn.CloseWrite() })
				e.call("peer:Read", func() { e.conn.Read(make([]byte, 64)) })
			case 3:
				e.call("peer:Read", func() { e.conn.Read(make([]byte, 64)) })
			}
		}
		what := fmt.Sprintf("post-handshake play against the %s:%s", c.Target, fmtSteps([][]Step{c.Steps}))
		stalled := runPair(r, what, cli, srv, px, pl)
		judge(r, what, cli, srv)
		r.Class("target=" + c.Target)
		r.Class(fmt.Sprintf("vers=%04x", target.conn.ConnectionState().Version))
		if stalled {
			r.Class("stalled->closed")
		}
		if target.hsOK && peer.hsOK {
			r.Class(fmt.Sprintf("delivered>=%d", min(delivered, 3)))
			r.Class("target-data-err:" + errClass(target.dataErr))
			if delivered > 0 {
				r.NonTrivial()
			}
		} else {
			r.Class("handshake-failed")
		}
	})
}

func genPostStep(t *rapid.T, l string, target string, tls13 bool) []Step {
	rnd := func(n int) []byte { return rapid.SliceOfN(rapid.Byte(), n, n).Draw(t, l+"bytes") }
	raw := func(typ int, body []byte) []Step { return []Step{{Kind: "raw", Type: typ, Data: body}} }
	switch uni(t, l+"kind", 16) {
	case 0: // HelloRequest (renegotiation trigger for a client)
		return raw(hsHelloRequest, pick(t, l+"v", [][]byte{nil, nil, {0}}))
	case 1: // KeyUpdate
		return raw(hsKeyUpdate, pick(t, l+"v", [][]byte{{0}, {1}, {1}, {2}, nil, {0, 0}, {255}}))
	case 2: // NewSessionTicket, TLS 1.3 layout
		nonce := pick(t, l+"nonce", [][]byte{{1}, nil, make([]byte, 255)})
		label := pick(t, l+"label", [][]byte{rnd(32), nil, rnd(1), make([]byte, 300)})
		exts := pick(t, l+"exts", [][]byte{nil, ext(42, []byte{0, 0, 0, 1}), ext(42, []byte{1}), {0, 1}, ext(0xabcd, rnd(3))})
		life := pick(t, l+"life", [][]byte{{0, 0, 1, 0}, {0, 0, 0, 0}, {0xff, 0xff, 0xff, 0xff}, {0, 9, 0x3a, 0x81}})
		body := cat(life, rnd(4), vec8(nonce), vec16(label), vec16(exts))
		if oneIn(t, l+"trunc", 5) {
			body = body[:uni(t, l+"cut", len(body))]
		}
		return raw(hsNewSessionTicket, body)
	case 3: // NewSessionTicket, TLS 1.2 layout
		return raw(hsNewSessionTicket, cat([]byte{0, 0, 1, 0}, vec16(rnd(uni(t, l+"n", 40)))))
	case 4: // post-handshake CertificateRequest (TLS 1.3) / CertificateRequest
		return raw(hsCertificateRequest, pick(t, l+"v", [][]byte{cat(vec8(nil), vec16(ext(13, vec16(u16list(0x0403))))), cat(vec8([]byte{1}), vec16(nil)), {1, 1, 0, 0}, nil}))
	case 5: // a fresh hello in the wrong direction / at the wrong time
		sh := SHSpec{Vers: 0x0303, Suite: pick(t, l+"suite", []int{0xc02f, 0x002f, 0x009e, 0x1301}), SessID: pick(t, l+"sid", []int{0, 2})}
		b, _ := sh.build(nil, 7)
		typ := hsServerHello
		if target == "server" {
			typ = hsClientHello
			ch := CHSpec{Vers: 0x0303, SessID: 0, Suites: []int{0xc02f, 0x002f, 0x00ff}, Comp: []byte{0}, Exts: []ExtSpec{{10, vec16(u16list(29, 23))}, {11, vec8([]byte{0})}}}
			b = ch.build(9, nil, nil)
		}
		return raw(typ, b)
	case 6: // a scripted renegotiation flight for a client that accepted the HelloRequest
		sh := SHSpec{Vers: 0x0303, Suite: pick(t, l+"suite", []int{0x009e, 0xc02f, 0x002f, 0x0033}), SessID: 2,
			Exts: pick(t, l+"exts", [][]ExtSpec{nil, {{0xff01, vec8(make([]byte, 24))}}, {{0xff01, []byte{0}}}})}
		b, _ := sh.build(nil, 11)
		out := []Step{{Kind: "raw", Type: hsHelloRequest}, {Kind: "raw", Type: hsServerHello, Data: b}, {Kind: "cert", A: pick(t, l+"chain", []int{0, 0, 3, 2}), B: uni(t, l+"hk", len(hostileKinds))}}
		if !isRSAKx(sh.Suite) {
			fam := 0
			if isDHE(sh.Suite) {
				fam = 1
			}
			out = append(out, Step{Kind: "skx", A: fam, Type: 29, B: pick(t, l+"b", []int{0, 0, 1, 2, 4}), C: 0x0401, D: pick(t, l+"d", []int{1, 2, 3})})
		}
		return append(out, Step{Kind: "done"})
	case 7:
		return raw(hsFinished, rnd(pick(t, l+"n", []int{12, 32, 48, 0})))
	case 8: // handshake header announcing a huge message, or a fragment
		return []Step{{Kind: "hs-literal", Data: cat([]byte{pick(t, l+"ht", []byte{0, 4, 24, 13, 2})}, u24(pick(t, l+"hl", []int{0xffffff, 65537, 65536, 5, 70000})), rnd(3))}}
	case 9: // alert storm
		n := pick(t, l+"n", []int{1, 1, 5, 17, 40})
		var out []Step
		for i := 0; i < n; i++ {
			out = append(out, Step{Kind: "alert", A: 1, B: pick(t, l+"desc", []int{100, 90, 112, 10, 41})})
		}
		return out
	case 10:
		return []Step{{Kind: "alert", A: pick(t, l+"lvl", []int{2, 0, 3, 1}), B: pick(t, l+"desc", []int{0, 10, 20, 40, 80, 255})}}
	case 11: // empty application-data records
		n := pick(t, l+"n", []int{1, 5, 17, 40})
		var out []Step
		for i := 0; i < n; i++ {
			out = append(out, Step{Kind: "record", Type: 23})
		}
		return out
	case 12:
		return []Step{{Kind: "ccs"}}
	case 13:
		return []Step{{Kind: "record", Type: pick(t, l+"rt", []int{24, 0, 25, 255, 21, 20}), Data: rnd(uni(t, l+"n", 40))}}
	case 14:
		return raw(pick(t, l+"type", []int{1, 2, 5, 8, 11, 12, 14, 15, 16, 22, 254, 99}), rnd(uni(t, l+"n", 60)))
	default:
		return []Step{{Kind: "app", Data: rnd(1 + uni(t, l+"n", 300))}}
	}
}

func genPostCase(t *rapid.T) PostCase {
	c := PostCase{Cfg: genCfg(t)}
	if c.Cfg.ClientAuth >= 2 && c.Cfg.ClientKey == "" {
		c.Cfg.ClientKey = "ecP-256-0"
	}
	c.Cfg.SkipVerify = c.Cfg.SkipVerify || oneIn(t, "skipverify2", 3)
	c.Target = pick(t, "target", []string{"client", "client", "server"})
	n := 1 + uni(t, "nsteps", 4)
	for i := 0; i < n; i++ {
		c.Steps = append(c.Steps, genPostStep(t, fmt.Sprintf("s%d-", i), c.Target, c.Cfg.MaxVer == 0x0304)...)
	}
	c.End = uni(t, "end", 4)
	c.App = pick(t, "app", []int{10, 0, 1, 2000})
	return c
}

const postRule = "genuine handshake (configurations as in 'faults', renegotiation never/once/freely), then the peer - a real zcrypto Conn used as a record writer - sends 1-4 groups of hostile plaintext under the session keys: HelloRequest, KeyUpdate (valid/invalid values), NewSessionTicket in TLS 1.3 and 1.2 layouts with hostile lifetime/nonce/label/extension fields, CertificateRequest, hellos in the wrong direction, a scripted renegotiation flight (ServerHello, genuine/empty/hostile Certificate, unsigned or garbage-signed ServerKeyExchange, ServerHelloDone), Finished, huge or fragmentary handshake headers, storms of warning alerts and of empty application-data records, fatal/odd alerts, ChangeCipherSpec, unknown record types, arbitrary handshake types, application data; it then closes with close_notify, closes the transport, half-closes or stalls. Non-trivial: both handshakes completed and >= 1 hostile record was delivered (the target consumed a whole handshake before)"

func TestPropPostHandshake(t *testing.T) {
	kit.Run(t, kit.Spec[PostCase]{ID: "C32", Name: "post-handshake", Rule: postRule, Gen: genPostCase, Check: checkPost,
		Quick: 500, Thorough: 4000, Assumptions: commonAssumptions})
}
