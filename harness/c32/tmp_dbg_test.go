package c32

import (
	"encoding/json"
	"pgregory.net/rapid"
	"testing"

	"verifharness/kit"
)

func TestDbgSrv(t *testing.T) {
	for _, suite := range []int{0x002f, 0xc02f, 0x009e, 0xc013, 0x0033} {
		for _, vers := range []int{0x0303, 0x0301} {
			c := SrvCase{Cfg: Cfg{Key: "rsa2048-p2-1", MaxVer: uint16(vers), Suites: allSuites, Force: true, Seed: 5}}
			c.SH = SHSpec{Vers: vers, Suite: suite, SessID: 2}
			skx := Step{Kind: "skx", A: 0, Type: 29, C: 0x0401}
			if suite == 0x009e || suite == 0x0033 {
				skx = Step{Kind: "skx", A: 1, C: 0x0401}
			}
			f0 := []Step{{Kind: "cert"}}
			if suite != 0x002f {
				f0 = append(f0, skx)
			}
			f0 = append(f0, Step{Kind: "done"})
			c.Flights = [][]Step{f0, {{Kind: "ccs"}, {Kind: "finished", Data: make([]byte, 12)}}}
			r := &kit.R{}
			func() {
				defer func() { recover() }()
				checkSrvScript(c, r)
			}()
			t.Logf("suite %x vers %x: %+v", suite, vers, r)
		}
	}
}

func TestDbgSrvGen(t *testing.T) {
	n := 0
	rapid.Check(t, func(rt *rapid.T) {
		c := genSrvCase(rt)
		r := &kit.R{}
		dbgEndpoint = func(e *endpoint) {
			if e.consumed == 0 && n < 60 {
				n++
				b, _ := json.Marshal(c.SH)
				fr, _ := json.Marshal(c.Frame)
				t.Logf("%s %s suites=%d force=%v max=%x: %v", b, fr, len(c.Cfg.Suites), c.Cfg.Force, c.Cfg.MaxVer, e.hsErr)
			}
		}
		func() {
			defer func() { recover() }()
			checkSrvScript(c, r)
		}()
		dbgEndpoint = nil
	})
}
