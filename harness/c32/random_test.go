package c32

// Pure random / lightly structured byte streams against a real client and a
// real server, and the two native fuzz targets (thorough tier).

import (
	"fmt"
	"os"
	"path/filepath"
	"testing"

	"pgregory.net/rapid"
	"verifharness/kit"
	"verifharness/tlskit"
)

type RandCase struct {
	Cfg    Cfg    `json:"cfg"`
	Target string `json:"target"`
	Stream []byte `json:"stream"`
	Seg    int    `json:"seg"`
}

// playStream feeds the stream to a fresh endpoint (a client first emits its
// ClientHello), closes the transport and waits for the endpoint to return.
// It returns the endpoint and "" or a description of a liveness failure.
func playStream(role string, cfg Cfg, stream []byte, seg int) (*endpoint, string) {
	a, b := tlskit.RawPair()
	notify := make(chan struct{}, 1)
	var e *endpoint
	if role == "client" {
		e = newEndpoint("client", a, cfg.clientConfig(), notify)
	} else {
		e = newEndpoint("server", a, cfg.serverConfig(), notify)
	}
	e.send, e.reads = []byte("hello"), 3
	io := &peerIO{end: b, target: e, notify: notify}
	go e.run()
	fail := ""
	if !io.settle() {
		fail = "not waiting for input and not finished before any input"
	} else {
		io.drain()
		io.send(stream, seg)
		if !io.settle() {
			fail = "neither finished nor waiting for input after the stream"
		}
	}
	b.Close()
	return e, fail
}

func checkRand(c RandCase, r *kit.R) {
	withPermissive(c.Cfg.Permissive, func() {
		e, fail := playStream(c.Target, c.Cfg, c.Stream, c.Seg)
		what := fmt.Sprintf("random stream of %d bytes against the %s", len(c.Stream), c.Target)
		if fail != "" {
			what += " (" + fail + ")"
		}
		awaitDone(r, what, e)
		judge(r, what, e)
		r.Class("target=" + c.Target)
		r.Class("err:" + errClass(e.hsErr))
		rd, _, _ := e.cc.snap()
		if rd >= 5 {
			r.Class("consumed>=1-record-header")
		}
		// non-trivial here: the endpoint consumed at least a full record header
		// and went on to parse its body (pure noise never gets a handshake message accepted)
		if rd > 5 {
			r.NonTrivial()
		}
	})
}

func genRandCase(t *rapid.T) RandCase {
	c := RandCase{Cfg: genCfg(t), Target: pick(t, "target", []string{"client", "server"})}
	n := 1 + uni(t, "nparts", 4)
	for i := 0; i < n; i++ {
		l := fmt.Sprintf("p%d-", i)
		switch uni(t, l+"kind", 5) {
		case 0: // noise
			c.Stream = append(c.Stream, rapid.SliceOfN(rapid.Byte(), 0, 300).Draw(t, l+"noise")...)
		case 1: // plausible record header, noise body of the announced length
			body := rapid.SliceOfN(rapid.Byte(), 0, 200).Draw(t, l+"body")
			c.Stream = append(c.Stream, record(pick(t, l+"type", []byte{22, 22, 21, 20, 23}), pick(t, l+"ver", []uint16{0x0303, 0x0301, 0x0302, 0x0304}), body)...)
		case 2: // handshake record with a plausible message header and noise body
			body := rapid.SliceOfN(rapid.Byte(), 0, 200).Draw(t, l+"body")
			c.Stream = append(c.Stream, record(22, 0x0303, hsMsg(pick(t, l+"hs", []byte{1, 2, 11, 12, 14, 16, 4, 13, 15, 20}), body))...)
		case 3: // header announcing more than follows
			c.Stream = append(c.Stream, 22, 3, 3, byte(uni(t, l+"hi", 72)), byte(uni(t, l+"lo", 256)))
			c.Stream = append(c.Stream, rapid.SliceOfN(rapid.Byte(), 0, 40).Draw(t, l+"part")...)
		default:
			c.Stream = append(c.Stream, genRecord(t, l+"rec")...)
		}
	}
	c.Seg = pick(t, "seg", []int{0, 0, 1, 3, 17})
	return c
}

const randRule = "random byte streams (noise, plausible record headers with noise bodies, plausible handshake headers with noise bodies, headers announcing more than follows, odd record types/versions), optionally segmented byte-wise, fed to a real client (after its ClientHello) or a real server, followed by transport close. Non-trivial: the endpoint consumed a complete record header and went on into the record body; distinct by case hash"

func TestPropRandomStream(t *testing.T) {
	kit.Run(t, kit.Spec[RandCase]{ID: "C32", Name: "random-stream", Rule: randRule, Gen: genRandCase, Check: checkRand,
		Quick: 800, Thorough: 8000, Assumptions: commonAssumptions})
}

// ---------------------------------------------------------------------------
// native fuzz targets.  data[0] selects the configuration, data[1] the
// transport segmentation, the rest is the peer's byte stream.

var fuzzCfgs = []Cfg{
	{Key: "rsa2048-p2-1", MaxVer: 0x0303, Seed: 1},
	{Key: "rsa2048-p2-1", MaxVer: 0x0304, Seed: 2},
	{Key: "ecP-256-0", MaxVer: 0x0303, Seed: 3, ClientAuth: 1, Tickets: true},
	{Key: "rsa2048-p2-1", MaxVer: 0x0303, Seed: 4, Suites: []uint16{0x009e, 0x0033}, Force: true, SkipVerify: true},
	{Key: "rsa2048-p2-1", MaxVer: 0x0301, Seed: 5, Suites: []uint16{0x002f}, Force: true},
	{Key: "ed25519-0", MaxVer: 0x0303, Seed: 6, ClientAuth: 2, ClientKey: "ed25519-0"},
	{Key: "rsa2048-p2-1", MaxVer: 0x0303, Seed: 7, Permissive: true, SkipVerify: true, Reneg: 2},
	{Key: "ecP-256-0", MaxVer: 0x0304, Seed: 8, Tickets: true, ALPN: true},
}

// capture records the genuine flights of a configuration: what a real server
// sends to a real client and vice versa (seed corpus).
func capture(c Cfg) (toClient, toServer []byte) {
	notify := make(chan struct{}, 1)
	pl := &plan{classes: map[string]bool{}}
	px := tlskit.NewProxy(pl.hook)
	cli := newEndpoint("client", px.Client, c.clientConfig(), notify)
	srv := newEndpoint("server", px.Server, c.serverConfig(), notify)
	cli.send, srv.send, cli.want = []byte("ping"), []byte("pong"), 4
	r := &kit.R{}
	func() {
		defer func() { recover() }()
		runPair(r, "capture", cli, srv, px, pl)
	}()
	for _, rec := range px.T.Records(tlskit.ServerToClient) {
		toClient = append(toClient, rec.Raw...)
	}
	for _, rec := range px.T.Records(tlskit.ClientToServer) {
		toServer = append(toServer, rec.Raw...)
	}
	return
}

func fuzzOne(t *testing.T, role string, data []byte) {
	if len(data) < 2 {
		return
	}
	cfg := fuzzCfgs[int(data[0])%len(fuzzCfgs)]
	seg := 0
	if data[1]&0x80 != 0 {
		seg = 1 + int(data[1]&0x7f)
	}
	stream := data[2:]
	if len(stream) > 1<<16 {
		return
	}
	// debugging aid: with C32_FUZZ_JOURNAL=<dir> every worker process records the input it is
	// about to run, so that an input on which a worker gets stuck (and which the fuzzing engine
	// therefore never saves) can be recovered from <dir>/<pid>
	if dir := os.Getenv("C32_FUZZ_JOURNAL"); dir != "" {
		os.WriteFile(filepath.Join(dir, fmt.Sprintf("%s-%d", role, os.Getpid())), data, 0o644)
	}
	var e *endpoint
	var fail string
	withPermissive(cfg.Permissive, func() { e, fail = playStream(role, cfg, stream, seg) })
	if fail != "" && os.Getenv("C32_DEBUG_SETTLE") != "" {
		op, _ := e.op.Load().(string)
		rd, wr, w := e.cc.snap()
		t.Fatalf("settle failed: %s op=%s rd=%d wr=%d waiting=%v len=%d", fail, op, rd, wr, w, len(stream))
	}
	select {
	case <-e.done:
	case <-timeAfter():
		op, _ := e.op.Load().(string)
		t.Fatalf("C32:timeout:%s:%s: still inside %s after the transport was closed (%s)", role, op, op, fail)
	}
	e.mu.Lock()
	defer e.mu.Unlock()
	for _, p := range e.panics {
		key := "C32:panic:" + shortSite(p.Site)
		if kit.IsKnown(key) {
			continue
		}
		t.Fatalf("%s: %s endpoint panicked in %s: %s\n%s", key, role, p.Op, p.Val, p.Stack)
	}
}

func FuzzClientPeer(f *testing.F) {
	for i, c := range fuzzCfgs {
		toClient, _ := capture(c)
		if len(toClient) > 6000 {
			toClient = toClient[:6000]
		}
		f.Add(append([]byte{byte(i), 0}, toClient...))
	}
	f.Add([]byte{0, 0, 22, 3, 3, 0, 4, 2, 0, 0, 0})
	f.Add([]byte{1, 0x83, 21, 3, 3, 0, 2, 1, 0})
	f.Fuzz(func(t *testing.T, data []byte) { fuzzOne(t, "client", data) })
}

func FuzzServerPeer(f *testing.F) {
	for i, c := range fuzzCfgs {
		_, toServer := capture(c)
		if len(toServer) > 6000 {
			toServer = toServer[:6000]
		}
		f.Add(append([]byte{byte(i), 0}, toServer...))
	}
	f.Add([]byte{0, 0, 22, 3, 1, 0, 4, 1, 0, 0, 0})
	f.Add([]byte{2, 0x81, 0x80, 0x2e, 1, 0, 2})
	f.Fuzz(func(t *testing.T, data []byte) { fuzzOne(t, "server", data) })
}
