package c32

// Fault plans over genuine zcrypto client <-> zcrypto server runs.

import (
	"fmt"
	"sort"
	"sync"
	"testing"
	"time"

	"pgregory.net/rapid"
	"verifharness/keys"
	"verifharness/kit"
	"verifharness/tlskit"
)

// Fault is one manipulation of record Rec (per-direction index) of direction
// Dir (0 client->server, 1 server->client).
type Fault struct {
	Dir  int    `json:"dir"`
	Rec  int    `json:"rec"`
	Op   string `json:"op"`
	Off  int    `json:"off"`            // byte offset inside the record (reduced modulo its length)
	Val  int    `json:"val,omitempty"`  // xor mask / byte value / length value / split size
	Data []byte `json:"data,omitempty"` // inserted / replacement bytes
}

type FaultCase struct {
	Cfg    Cfg     `json:"cfg"`
	Faults []Fault `json:"faults"`
	App    int     `json:"app"` // bytes of application data each side writes
}

var faultOps = []string{
	"flip", "set", "trunc", "insert", "insert-fix", "inject", "split", "split-rec", "merge", "reorder", "repeat", "drop",
	"replace-body", "resize-body", "msg-len", "rec-len", "msg-type", "rec-type", "rec-ver", "close-after",
}

// plan is the stateful proxy hook that applies a FaultCase.
type plan struct {
	mu       sync.Mutex
	faults   []Fault
	held     [2][]byte // record held back by reorder / merge
	heldOp   [2]string
	cut      [2]bool // stream cut: drop everything that follows
	seen     [2]int64
	emitted  [2]int64
	applied  int // faults that met their record
	deepest  int // highest record index a fault was applied at
	closeEnd func(dir int)
	classes  map[string]bool
}

func sumLen(chunks [][]byte) int64 {
	var n int64
	for _, c := range chunks {
		n += int64(len(c))
	}
	return n
}

func (p *plan) hook(rec tlskit.Record) ([][]byte, bool) {
	p.mu.Lock()
	defer p.mu.Unlock()
	d := rec.Dir
	p.seen[d] += int64(len(rec.Raw))
	if p.cut[d] {
		return nil, false
	}
	raw := append([]byte(nil), rec.Raw...)
	var pre, post [][]byte
	out := [][]byte{raw}
	drop, hold, closeAfter := false, "", false
	for _, f := range p.faults {
		if f.Dir != d || f.Rec != rec.Index || len(raw) == 0 {
			continue
		}
		p.applied++
		if rec.Index > p.deepest {
			p.deepest = rec.Index
		}
		p.classes["op="+f.Op] = true
		off := f.Off % len(raw)
		if off < 0 {
			off = 0
		}
		switch f.Op {
		case "flip":
			m := byte(f.Val)
			if m == 0 {
				m = 1
			}
			raw[off] ^= m
		case "set":
			raw[off] = byte(f.Val)
		case "trunc": // truncate the stream inside this record
			raw = raw[:off]
			p.cut[d] = true
			closeAfter = true
		case "insert": // raw insertion, lengths left alone
			raw = cat(raw[:off], f.Data, raw[off:])
		case "insert-fix": // insertion into the record body with the record length corrected
			if len(raw) >= 5 {
				o := 5 + off%(len(raw)-4)
				raw = cat(raw[:o], f.Data, raw[o:])
				n := len(raw) - 5
				raw[3], raw[4] = byte(n>>8), byte(n)
			}
		case "inject": // a whole extra record in front
			pre = append(pre, f.Data)
		case "split": // two transport segments
			if off > 0 {
				post = nil
				out = [][]byte{raw[:off], raw[off:]}
				raw = nil
			}
		case "split-rec": // re-frame the body as two records
			if len(raw) > 6 {
				body := raw[5:]
				k := 1 + off%(len(body)-1)
				a := cat(raw[:3], u16(k), body[:k])
				b := cat(raw[:3], u16(len(body)-k), body[k:])
				out = [][]byte{a, b}
				raw = nil
			}
		case "merge", "reorder":
			hold = f.Op
		case "repeat":
			n := f.Val%3 + 1
			for i := 0; i < n; i++ {
				post = append(post, append([]byte(nil), raw...))
			}
		case "drop":
			drop = true
		case "replace-body": // handshake-message body replaced, all lengths consistent
			if len(raw) >= 9 && raw[0] == recHandshake {
				raw = cat(raw[:3], u16(4+len(f.Data)), raw[5:6], u24(len(f.Data)), f.Data)
			} else if len(raw) >= 5 {
				raw = cat(raw[:3], u16(len(f.Data)), f.Data)
			}
		case "resize-body": // body cut or zero-extended to Val bytes, lengths consistent
			if len(raw) >= 9 && raw[0] == recHandshake {
				body := raw[9:]
				n := f.Val % 700
				nb := make([]byte, n)
				copy(nb, body)
				raw = cat(raw[:3], u16(4+n), raw[5:6], u24(n), nb)
			}
		case "msg-len": // 24-bit handshake length field overwritten
			if len(raw) >= 9 {
				copy(raw[6:9], u24(f.Val))
			}
		case "rec-len":
			if len(raw) >= 5 {
				copy(raw[3:5], u16(f.Val))
			}
		case "msg-type":
			if len(raw) >= 6 {
				raw[5] = byte(f.Val)
			}
		case "rec-type":
			raw[0] = byte(f.Val)
		case "rec-ver":
			if len(raw) >= 3 {
				copy(raw[1:3], u16(f.Val))
			}
		case "close-after":
			p.cut[d] = true
			closeAfter = true
		}
		if raw != nil {
			out = [][]byte{raw}
		}
	}
	var chunks [][]byte
	if h := p.held[d]; h != nil {
		// the record after a held one: emit according to the pending operation
		p.held[d] = nil
		cur := cat(out...)
		if p.heldOp[d] == "merge" && len(h) >= 5 && len(cur) >= 5 && h[0] == cur[0] {
			body := cat(h[5:], cur[5:])
			if len(body) <= 0xffff {
				chunks = append(chunks, cat(h[:3], u16(len(body)), body))
			} else {
				chunks = append(chunks, cat(h, cur))
			}
		} else if p.heldOp[d] == "merge" {
			chunks = append(chunks, cat(h, cur))
		} else {
			chunks = append(chunks, cur, h)
		}
		out = nil
	}
	if hold != "" && !drop && out != nil {
		p.held[d] = cat(out...)
		p.heldOp[d] = hold
		out = nil
	}
	if drop {
		out = nil
	}
	chunks = append(chunks, pre...)
	chunks = append(chunks, out...)
	chunks = append(chunks, post...)
	var nz [][]byte
	for _, c := range chunks {
		if len(c) > 0 {
			nz = append(nz, c)
		}
	}
	if closeAfter && p.closeEnd != nil {
		defer p.closeEnd(d)
	}
	if len(nz) == 0 {
		return nil, false
	}
	p.emitted[d] += sumLen(nz)
	return nz, true
}

// runPair runs a real client against a real server through the proxy and
// returns when both endpoint goroutines have finished; a stalled exchange
// (both sides waiting for bytes that will never come) is ended by closing the
// transport, after which both must return within the watchdog.
func runPair(r *kit.R, what string, cli, srv *endpoint, px *tlskit.Proxy, pl *plan) (stalled bool) {
	go srv.run()
	go cli.run()
	notify := cli.notify
	tick := time.NewTicker(2 * time.Millisecond)
	defer tick.Stop()
	hard := time.NewTimer(kit.WatchdogSeconds())
	defer hard.Stop()
	quiet := 0
	for !(cli.isDone() && srv.isDone()) {
		select {
		case <-notify:
		case <-tick.C:
		case <-hard.C:
			// neither finished nor quiescent: somebody computes or spins
			px.Client.Close()
			px.Server.Close()
			awaitDone(r, what+" (no progress and not waiting for input)", cli, srv)
			return true
		}
		crd, cwr, cwait := cli.cc.snap()
		srd, swr, swait := srv.cc.snap()
		pl.mu.Lock()
		seen, emitted := pl.seen, pl.emitted
		pl.mu.Unlock()
		cq := cli.isDone() || (cwait && crd == emitted[1])
		sq := srv.isDone() || (swait && srd == emitted[0])
		if cq && sq && cwr == seen[0] && swr == seen[1] && !(cli.isDone() && srv.isDone()) {
			// confirm on two consecutive observations (the pumps may be between
			// reading bytes and handing the record to the hook)
			quiet++
			if quiet >= 2 {
				stalled = true
				break
			}
			continue
		}
		quiet = 0
	}
	px.Client.Close()
	px.Server.Close()
	awaitDone(r, what, cli, srv)
	return stalled
}

func checkFault(c FaultCase, r *kit.R) { checkFaultDbg(c, r, nil) }

func checkFaultDbg(c FaultCase, r *kit.R, dbg func(cli, srv *endpoint)) {
	withPermissive(c.Cfg.Permissive, func() {
		notify := make(chan struct{}, 1)
		pl := &plan{faults: c.Faults, classes: map[string]bool{}}
		px := tlskit.NewProxy(pl.hook)
		pl.closeEnd = func(dir int) {
			// the sender's stream ends here: the receiver sees EOF after the bytes forwarded so far
			if dir == tlskit.ClientToServer {
				px.Client.CloseWrite()
			} else {
				px.Server.CloseWrite()
			}
		}
		cli := newEndpoint("client", px.Client, c.Cfg.clientConfig(), notify)
		srv := newEndpoint("server", px.Server, c.Cfg.serverConfig(), notify)
		app := make([]byte, c.App)
		for i := range app {
			app[i] = byte(i)
		}
		cli.send, srv.send = app, app
		cli.want = len(app)
		what := fmt.Sprintf("fault plan %+v", c.Faults)
		stalled := runPair(r, what, cli, srv, px, pl)
		if dbg != nil {
			dbg(cli, srv)
		}
		judge(r, what, cli, srv)

		// the proxy's pump goroutines may still be forwarding (or dropping) records while the
		// connections wind down, and the hook mutates the plan under pl.mu: read a snapshot
		// under the same lock (an unlocked iteration here crashed the process with "concurrent
		// map iteration and map write", which the driver reported as a violation)
		pl.mu.Lock()
		var planClasses []string
		for k := range pl.classes {
			planClasses = append(planClasses, k)
		}
		applied, deepest := pl.applied, pl.deepest
		pl.mu.Unlock()
		sort.Strings(planClasses)
		for _, k := range planClasses {
			r.Class(k)
		}
		r.Class(fmt.Sprintf("vers=%04x", srv.conn.ConnectionState().Version))
		if stalled {
			r.Class("stalled->closed")
		}
		switch {
		case cli.hsOK && srv.hsOK:
			r.Class("handshake:both-ok")
		case cli.hsOK || srv.hsOK:
			r.Class("handshake:one-ok")
		default:
			r.Class("handshake:both-failed")
		}
		if applied == 0 {
			r.Class("fault-not-reached")
		}
		// non-trivial: a fault was applied to a record that is not the first of
		// its direction, i.e. the receiver had consumed >= 1 full message before
		if applied > 0 && deepest >= 1 {
			r.NonTrivial()
		}
	})
}

var (
	rsaSuitesLegacy   = []uint16{0x002f, 0x0035, 0x000a, 0x0005, 0xc013, 0xc014, 0xc012, 0xc011, 0x0033, 0x0039, 0x0016}
	rsaSuitesTLS12    = []uint16{0x003c, 0x009c, 0x009d, 0xc027, 0xc02f, 0xc030, 0xcca8, 0x0067, 0x006b, 0x009e, 0x009f, 0xccaa}
	ecdsaSuitesLegacy = []uint16{0xc009, 0xc00a, 0xc007}
	ecdsaSuitesTLS12  = []uint16{0xc023, 0xc02b, 0xc02c, 0xcca9}
	versions          = []uint16{0x0301, 0x0302, 0x0303, 0x0303, 0x0304, 0x0304}
)

func suitePool(key string, maxVer uint16) []uint16 {
	ec := key[:2] == "ec" || key[:2] == "ed"
	var pool []uint16
	if ec {
		pool = append(pool, ecdsaSuitesLegacy...)
		if maxVer >= 0x0303 {
			pool = append(pool, ecdsaSuitesTLS12...)
		}
	} else {
		pool = append(pool, rsaSuitesLegacy...)
		if maxVer >= 0x0303 {
			pool = append(pool, rsaSuitesTLS12...)
		}
	}
	return pool
}

func genCfg(t *rapid.T) Cfg {
	c := Cfg{Seed: rapid.Uint64().Draw(t, "seed")}
	c.Key = pick(t, "key", []string{"rsa2048-p2-1", "rsa2048-p2-1", "ecP-256-0", "ed25519-0", "rsa1024-p2-0", "ecP-384-0"})
	if keys.ByName(c.Key) == nil {
		c.Key = "rsa2048-p2-1"
	}
	c.MaxVer = pick(t, "maxver", versions)
	if c.Key == "ed25519-0" && c.MaxVer < 0x0303 {
		c.MaxVer = 0x0303
	}
	if !oneIn(t, "suitemode", 3+1) && c.MaxVer <= 0x0303 {
		c.Suites = []uint16{pick(t, "suite", suitePool(c.Key, c.MaxVer))}
		c.Force = true
	}
	c.ClientAuth = pick(t, "clientauth", []int{0, 0, 0, 1, 2, 4})
	if c.ClientAuth != 0 && !oneIn(t, "clientcert", 7+1) {
		c.ClientKey = pick(t, "clientkey", []string{"ecP-256-0", "rsa2048-p2-1", "ed25519-0"})
		if c.ClientKey == "ed25519-0" && c.MaxVer < 0x0303 {
			c.ClientKey = "ecP-256-0"
		}
	}
	c.SkipVerify = oneIn(t, "skipverify", 3+1)
	c.Tickets = rapid.Bool().Draw(t, "tickets")
	c.ALPN = rapid.Bool().Draw(t, "alpn")
	c.Reneg = pick(t, "reneg", []int{0, 0, 1, 2})
	c.PreferSrv = rapid.Bool().Draw(t, "prefersrv")
	c.NoDynRec = rapid.Bool().Draw(t, "nodynrec")
	c.SCT = rapid.Bool().Draw(t, "sct")
	c.EMS = rapid.Bool().Draw(t, "ems")
	c.ExtRandom = oneIn(t, "extrandom", 7+1)
	c.Heartbeat = oneIn(t, "heartbeat", 3+1)
	return c
}

func genBytes(t *rapid.T, label string, max int) []byte {
	return rapid.SliceOfN(rapid.Byte(), 0, max).Draw(t, label)
}

// genRecord draws a hostile stand-alone record.
func genRecord(t *rapid.T, label string) []byte {
	typ := pick(t, label+"-type", []byte{20, 21, 21, 22, 22, 23, 24, 0, 0x80, 255})
	ver := pick(t, label+"-ver", []uint16{0x0301, 0x0303, 0x0303, 0x0304, 0x0300, 0x0002, 0x1603, 0xffff})
	var body []byte
	switch uni(t, label+"-kind", 7+1) {
	case 0:
		body = nil
	case 1:
		body = []byte{1} // CCS body
	case 2:
		body = []byte{pick(t, label+"-lvl", []byte{1, 2, 0, 3}), pick(t, label+"-desc", []byte{0, 10, 40, 90, 100, 112, 255})}
	case 3:
		body = hsMsg(pick(t, label+"-hs", []byte{0, 1, 2, 4, 8, 11, 12, 13, 14, 15, 16, 20, 22, 24, 99}), genBytes(t, label+"-hsbody", 40))
	case 4: // handshake header announcing a long / huge message
		body = cat([]byte{pick(t, label+"-hs2", []byte{2, 11, 12, 16, 4})}, u24(pick(t, label+"-hlen", []int{0xffffff, 65537, 65536, 16385, 1 << 20})), genBytes(t, label+"-part", 8))
	default:
		body = genBytes(t, label+"-body", 64)
	}
	return record(typ, ver, body)
}

func genFault(t *rapid.T, i int) Fault {
	l := fmt.Sprintf("f%d-", i)
	f := Fault{Dir: uni(t, l+"dir", 1+1), Op: pick(t, l+"op", faultOps)}
	f.Rec = pick(t, l+"rec", []int{0, 1, 1, 2, 2, 3, 3, 4, 5, 6, 7, 8, 9})
	// offsets: header bytes, handshake header bytes, early body, anywhere
	f.Off = uni(t, l+"off", pick(t, l+"offrange", []int{13, 13, 81, 81, 1501}))
	switch f.Op {
	case "flip":
		f.Val = pick(t, l+"mask", []int{1, 0x80, 0xff, 0x40, 2})
	case "set":
		f.Val = pick(t, l+"val", []int{0, 1, 0x7f, 0x80, 0xff, 0x16, 0x03})
	case "insert", "insert-fix":
		f.Data = genBytes(t, l+"data", 24)
	case "inject":
		f.Data = genRecord(t, l+"rec")
	case "repeat":
		f.Val = uni(t, l+"n", 2+1)
	case "replace-body":
		f.Data = genBytes(t, l+"body", 80)
	case "resize-body":
		f.Val = pick(t, l+"size", []int{0, 1, 2, 3, 4, 5, 33, 34, 35, 38, 39, 40, 41, 64, 100, 300, 699})
	case "msg-len":
		f.Val = pick(t, l+"len", []int{0, 1, 2, 3, 4, 0xffffff, 0x010000, 0x00ffff, 65537, 16384, 16385})
	case "rec-len":
		f.Val = pick(t, l+"len", []int{0, 1, 3, 4, 5, 16384, 16385, 18432, 18433, 0xffff})
	case "msg-type":
		f.Val = pick(t, l+"typ", []int{0, 1, 2, 4, 5, 8, 11, 12, 13, 14, 15, 16, 20, 22, 24, 254, 99})
	case "rec-type":
		f.Val = pick(t, l+"typ", []int{20, 21, 22, 23, 24, 0, 0x80, 255})
	case "rec-ver":
		f.Val = pick(t, l+"ver", []int{0x0300, 0x0301, 0x0302, 0x0303, 0x0304, 0x0002, 0xffff})
	}
	return f
}

func genFaultCase(t *rapid.T) FaultCase {
	c := FaultCase{Cfg: genCfg(t)}
	n := pick(t, "nfaults", []int{1, 1, 1, 2, 2, 3})
	for i := 0; i < n; i++ {
		c.Faults = append(c.Faults, genFault(t, i))
	}
	c.App = pick(t, "app", []int{0, 1, 2, 100, 1500, 20000})
	return c
}

const faultRule = "genuine zcrypto client<->server runs (TLS 1.0-1.3; RSA/ECDSA/Ed25519 keys; RSA, ECDHE and DHE key exchange; CBC/GCM/ChaCha/RC4/3DES; optional client auth, tickets, ALPN, renegotiation setting) behind the record-aware proxy with 1-3 faults {flip,set,trunc,insert,insert-fix,inject,split,split-rec,merge,reorder,repeat,drop,replace-body,resize-body,msg-len,rec-len,msg-type,rec-type,rec-ver,close-after} at (direction, record index i, byte offset j) covering handshake and data phase. Non-trivial: a fault met its record and that record was not the first of its direction (the receiver had consumed >= 1 full handshake message); distinct by case hash"

var commonAssumptions = []string{
	"liveness is decided up to a watchdog (kit.WatchdogSeconds): a call that is still running that long after the transport was closed is reported as blocking",
	"panics are observed in the goroutines that call Handshake/Read/Write/Close/ConnectionState/GetHandshakeLog (owned by the check); a panic in any other goroutine kills the shard and is reported by the driver from the journal",
	"Config.Rand is a deterministic generator and Config.Time a fixed clock; endpoints run over an in-memory transport",
}

func TestPropFaults(t *testing.T) {
	kit.Run(t, kit.Spec[FaultCase]{ID: "C32", Name: "faults", Rule: faultRule, Gen: genFaultCase, Check: checkFault,
		Quick: 800, Thorough: 6000, Assumptions: commonAssumptions})
}
