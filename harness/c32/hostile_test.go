package c32

// Certificates that are well-formed, correctly CA-signed and carry hostile
// subject public keys, so that the *handshake* signature / key-exchange code
// (not only the parser or the chain verifier) meets the key.

import (
	"fmt"
	"math/big"
	"sync"
	"testing"

	stddsa "crypto/dsa"
	"crypto/ed25519"
	stdrsa "crypto/rsa"

	"github.com/zmap/zcrypto/tls"
	"verifharness/der"
	"verifharness/keys"
	"verifharness/kit"
	"verifharness/pki"
	"verifharness/tlskit"
)

// hostileKinds lists the subject-public-key variants.  Family tells which
// private key type the presenting endpoint pairs it with.
type hostileKind struct {
	Name   string
	Family string // "rsa" | "ec" | "ed25519"
	SPKI   func() []byte
}

func rsaSPKI(n, e *big.Int) []byte {
	return der.Seq(der.Seq(der.OID(1, 2, 840, 113549, 1, 1, 1), der.Null()), der.BitString(der.Seq(der.Int(n), der.Int(e))))
}

func edSPKI(k []byte) []byte { return der.Seq(der.Seq(der.OID(1, 3, 101, 112)), der.BitString(k)) }

func ecSPKI(curve []int, point []byte) []byte {
	return der.Seq(der.Seq(der.OID(1, 2, 840, 10045, 2, 1), der.OID(curve...)), der.BitString(point))
}

func realN() *big.Int {
	return new(big.Int).Set(keys.ByName("rsa2048-p2-1").StdPub.(*stdrsa.PublicKey).N)
}

func bigHex(s string) *big.Int { v, _ := new(big.Int).SetString(s, 16); return v }

var p256 = []int{1, 2, 840, 10045, 3, 1, 7}

var hostileKinds = []hostileKind{
	// Ed25519 keys of the wrong size (RFC 8410 keys are exactly 32 bytes)
	{"ed25519-len0", "ed25519", func() []byte { return edSPKI(nil) }},
	{"ed25519-len1", "ed25519", func() []byte { return edSPKI([]byte{7}) }},
	{"ed25519-len16", "ed25519", func() []byte { return edSPKI(make([]byte, 16)) }},
	{"ed25519-len31", "ed25519", func() []byte { return edSPKI(make([]byte, 31)) }},
	{"ed25519-len33", "ed25519", func() []byte { return edSPKI(make([]byte, 33)) }},
	{"ed25519-zero32", "ed25519", func() []byte { return edSPKI(make([]byte, 32)) }},
	{"ed25519-other32", "ed25519", func() []byte { return edSPKI([]byte(keys.ByName("ed25519-1").StdPub.(ed25519.PublicKey))) }},
	// RSA keys with odd values
	{"rsa-n1-e1", "rsa", func() []byte { return rsaSPKI(big.NewInt(1), big.NewInt(1)) }},
	{"rsa-n2-e3", "rsa", func() []byte { return rsaSPKI(big.NewInt(2), big.NewInt(3)) }},
	{"rsa-n3bytes", "rsa", func() []byte { return rsaSPKI(big.NewInt(0x0f4243), big.NewInt(65537)) }},
	{"rsa-even-n", "rsa", func() []byte { n := realN(); n.Lsh(n.Rsh(n, 1), 1); return rsaSPKI(n, big.NewInt(65537)) }},
	{"rsa-e1", "rsa", func() []byte { return rsaSPKI(realN(), big.NewInt(1)) }},
	{"rsa-e2", "rsa", func() []byte { return rsaSPKI(realN(), big.NewInt(2)) }},
	{"rsa-e-eq-n", "rsa", func() []byte { return rsaSPKI(realN(), realN()) }},
	{"rsa-e-64bytes", "rsa", func() []byte { return rsaSPKI(realN(), new(big.Int).Lsh(big.NewInt(0x10001), 490)) }},
	{"rsa-n-512bit", "rsa", func() []byte {
		return rsaSPKI(new(big.Int).Set(keys.ByName("rsa512-p2-0").StdPub.(*stdrsa.PublicKey).N), big.NewInt(65537))
	}},
	{"rsa-n-8200bit", "rsa", func() []byte {
		n := new(big.Int).Lsh(realN(), 6152)
		n.Add(n, big.NewInt(1))
		return rsaSPKI(n, big.NewInt(3))
	}},
	// accepted by the parser only in permissive mode
	{"rsa-n0", "rsa", func() []byte { return rsaSPKI(big.NewInt(0), big.NewInt(65537)) }},
	{"rsa-neg-n", "rsa", func() []byte { return rsaSPKI(new(big.Int).Neg(realN()), big.NewInt(65537)) }},
	{"rsa-e0", "rsa", func() []byte { return rsaSPKI(realN(), big.NewInt(0)) }},
	{"rsa-neg-e", "rsa", func() []byte { return rsaSPKI(realN(), big.NewInt(-65537)) }},
	{"rsa-neg-e-even-n", "rsa", func() []byte { n := realN(); n.Lsh(n.Rsh(n, 1), 1); return rsaSPKI(n, big.NewInt(-2)) }},
	// ECDSA keys
	{"ec-other-p256", "ec", func() []byte { return spkiOf("ecP-256-1") }},
	{"ec-p224", "ec", func() []byte { return spkiOf("ecP-224-0") }},
	{"ec-p521", "ec", func() []byte { return spkiOf("ecP-521-0") }},
	{"ec-off-curve", "ec", func() []byte { p := make([]byte, 65); p[0] = 4; p[64] = 1; return ecSPKI(p256, p) }},
	{"ec-empty-point", "ec", func() []byte { return ecSPKI(p256, nil) }},
	{"ec-infinity", "ec", func() []byte { return ecSPKI(p256, []byte{0}) }},
	// key types the TLS code has no use for
	{"x25519", "ed25519", func() []byte { return der.Seq(der.Seq(der.OID(1, 3, 101, 110)), der.BitString(make([]byte, 32))) }},
	{"x25519-short", "ec", func() []byte { return der.Seq(der.Seq(der.OID(1, 3, 101, 110)), der.BitString(make([]byte, 5))) }},
	{"dsa", "rsa", func() []byte { return spkiOf("dsa-L1024N160-0") }},
	{"unknown-alg", "rsa", func() []byte { return der.Seq(der.Seq(der.OID(1, 2, 3, 4, 5)), der.BitString([]byte{1, 2, 3})) }},
	{"rsa-garbage-key", "rsa", func() []byte {
		return der.Seq(der.Seq(der.OID(1, 2, 840, 113549, 1, 1, 1), der.Null()), der.BitString([]byte{0x30, 0x03, 0x02, 0x01}))
	}},
}

func hostileKindIndex(name string) int {
	for i, k := range hostileKinds {
		if k.Name == name {
			return i
		}
	}
	return -1
}

// spkiOf returns the SubjectPublicKeyInfo of a pool key's genuine certificate.
func spkiOf(name string) []byte {
	k := keys.ByName(name)
	if k.Kind == "dsa" {
		// no certificate can be issued for a DSA key through the pool helpers: build the SPKI by hand
		pub := k.StdPub.(*stddsa.PublicKey)
		return der.Seq(der.Seq(der.OID(1, 2, 840, 10040, 4, 1), der.Seq(der.Int(pub.P), der.Int(pub.Q), der.Int(pub.G))), der.BitString(der.Int(pub.Y)))
	}
	id := tlskit.NewIdentity(k, "spki.test")
	ch, err := tbsChildren(id.Leaf.RawTBSCertificate)
	if err != nil {
		panic(err)
	}
	return ch[6].Full
}

func tbsChildren(tbs []byte) ([]der.TLV, error) {
	t, _, err := der.Parse(tbs)
	if err != nil {
		return nil, err
	}
	ch, err := der.Children(t.Body)
	if err != nil {
		return nil, err
	}
	if len(ch) < 7 || ch[0].Class != 2 {
		return nil, fmt.Errorf("unexpected TBS shape (%d children)", len(ch))
	}
	return ch, nil
}

var (
	hostMu    sync.Mutex
	hostCache = map[string][]byte{}
)

// hostileLeaf returns DER of a leaf for dns signed by the identity's CA whose
// SubjectPublicKeyInfo is the hostile kind (all other fields as in the genuine leaf).
func hostileLeaf(kind int, dns string) []byte {
	hostMu.Lock()
	defer hostMu.Unlock()
	ck := fmt.Sprint(kind, dns)
	if d, ok := hostCache[ck]; ok {
		return d
	}
	id := tlskit.NewIdentity(keys.ByName("ecP-256-0"), dns)
	ch, err := tbsChildren(id.Leaf.RawTBSCertificate)
	if err != nil {
		panic(err)
	}
	var body []byte
	for i, c := range ch {
		if i == 6 {
			body = append(body, hostileKinds[kind].SPKI()...)
		} else {
			body = append(body, c.Full...)
		}
	}
	d := pki.ResignTBS(der.Seq(body), id.CAKey)
	hostCache[ck] = d
	return d
}

func familyKey(f string) *keys.Key {
	switch f {
	case "rsa":
		return keys.ByName("rsa2048-p2-1")
	case "ec":
		return keys.ByName("ecP-256-0")
	}
	return keys.ByName("ed25519-0")
}

// HostCase: one endpoint presents a hostile certificate together with a real
// private key of the matching family, the other endpoint is the target.
type HostCase struct {
	Side       string `json:"side"` // who presents the hostile certificate: "server" | "client"
	Kind       string `json:"kind"`
	Vers       uint16 `json:"vers"`
	Kx         string `json:"kx"` // "rsa" | "ecdhe" | "dhe" | "default"
	SkipVerify bool   `json:"skip_verify"`
	Permissive bool   `json:"permissive"`
	ClientAuth int    `json:"client_auth"` // for Side == client
}

func kxSuites(kx, family string, vers uint16) ([]uint16, bool) {
	switch kx {
	case "rsa":
		if family != "rsa" {
			return nil, false
		}
		if vers >= 0x0303 {
			return []uint16{0x009c, 0x002f}, true
		}
		return []uint16{0x002f}, true
	case "dhe":
		if family != "rsa" {
			return nil, false
		}
		if vers >= 0x0303 {
			return []uint16{0x009e, 0x0033}, true
		}
		return []uint16{0x0033}, true
	case "ecdhe":
		if family == "rsa" {
			if vers >= 0x0303 {
				return []uint16{0xc02f, 0xc013}, true
			}
			return []uint16{0xc013}, true
		}
		if vers >= 0x0303 {
			return []uint16{0xc02b, 0xc009}, true
		}
		return []uint16{0xc009}, true
	}
	return nil, true
}

func checkHost(c HostCase, r *kit.R) {
	ki := hostileKindIndex(c.Kind)
	if ki < 0 {
		r.Skip()
	}
	hk := hostileKinds[ki]
	withPermissive(c.Permissive, func() {
		good := tlskit.NewIdentity(keys.ByName("rsa2048-p2-1"), serverName)
		fam := hk.Family
		if c.Side == "client" {
			fam = "rsa" // the server's own (genuine) key
		}
		suites, _ := kxSuites(c.Kx, fam, c.Vers)
		seed := uint64(ki)<<16 | uint64(c.Vers)
		ccfg := &tls.Config{Time: tlskit.Now, Rand: newDRBG(seed, "client"), RootCAs: good.Roots, ServerName: serverName,
			MinVersion: 0x0301, MaxVersion: c.Vers, CipherSuites: suites, ForceSuites: suites != nil, InsecureSkipVerify: c.SkipVerify}
		scfg := &tls.Config{Time: tlskit.Now, Rand: newDRBG(seed, "server"), MinVersion: 0x0301, MaxVersion: c.Vers, CipherSuites: suites,
			Certificates: []tls.Certificate{good.Cert}}
		bad := tls.Certificate{PrivateKey: familyKey(hk.Family).ZPriv}
		if c.Side == "server" {
			bad.Certificate = [][]byte{hostileLeaf(ki, serverName)}
			scfg.Certificates = []tls.Certificate{bad}
		} else {
			bad.Certificate = [][]byte{hostileLeaf(ki, "client.test")}
			ccfg.Certificates = []tls.Certificate{bad}
			scfg.ClientAuth = tls.ClientAuthType(c.ClientAuth)
			scfg.ClientCAs = good.Roots
		}
		notify := make(chan struct{}, 1)
		pl := &plan{classes: map[string]bool{}}
		px := tlskit.NewProxy(pl.hook)
		cli := newEndpoint("client", px.Client, ccfg, notify)
		srv := newEndpoint("server", px.Server, scfg, notify)
		cli.send, srv.send, cli.want = []byte("ping"), []byte("pong"), 4
		what := fmt.Sprintf("hostile certificate %+v", c)
		runPair(r, what, cli, srv, px, pl)
		judge(r, what, cli, srv)

		target := cli
		if c.Side == "client" {
			target = srv
		}
		r.Class("kind=" + c.Kind)
		r.Class(fmt.Sprintf("side=%s vers=%04x kx=%s", c.Side, c.Vers, c.Kx))
		switch {
		case cli.hsOK && srv.hsOK:
			r.Class("handshake:completed")
		default:
			r.Class("handshake:rejected")
		}
		// non-trivial: the target consumed at least one full handshake message
		// (always true here: the certificate comes after the hello)
		if target.consumed >= 1 {
			r.NonTrivial()
		}
	})
}

func enumHost(shard, nshards int, yield func(HostCase) bool) {
	i := 0
	for _, side := range []string{"server", "client"} {
		for _, k := range hostileKinds {
			for _, v := range []uint16{0x0301, 0x0302, 0x0303, 0x0304} {
				for _, kx := range []string{"default", "rsa", "ecdhe", "dhe"} {
					fam := k.Family
					if side == "client" {
						fam = "rsa"
					}
					if _, ok := kxSuites(kx, fam, v); !ok || (v == 0x0304 && kx != "default") {
						continue
					}
					for _, skip := range []bool{false, true} {
						for _, perm := range []bool{false, true} {
							cas := []int{0}
							if side == "client" {
								cas = []int{1, 2, 4}
								if skip {
									continue // InsecureSkipVerify is irrelevant for the client-certificate direction
								}
							}
							for _, ca := range cas {
								i++
								if i%nshards != shard {
									continue
								}
								if !yield(HostCase{Side: side, Kind: k.Name, Vers: v, Kx: kx, SkipVerify: skip, Permissive: perm, ClientAuth: ca}) {
									return
								}
							}
						}
					}
				}
			}
		}
	}
}

func TestPropHostileCert(t *testing.T) {
	kit.Run(t, kit.Spec[HostCase]{ID: "C32", Name: "hostile-cert", Check: checkHost, Enum: enumHost,
		Rule:        fmt.Sprintf("exhaustive product: {server, client} presents a CA-signed certificate whose subject public key is one of %d hostile variants (Ed25519 keys of 0/1/16/31/33 bytes, RSA with N in {0,1,2,even,negative,3 bytes,512 bit,8200 bit} or E in {0,1,2,negative,N,64 bytes}, foreign/off-curve/empty EC points, X25519, DSA, unknown algorithm) paired with a genuine private key of the same family, against a genuine peer x TLS 1.0-1.3 x {default, RSA, ECDHE, DHE} key exchange x InsecureSkipVerify x permissive ASN.1 parsing x ClientAuth {request, require-any, require-and-verify}; the handshake signature / key-exchange code of the target meets the key. Non-trivial: the target consumed >= 1 full handshake message (log shows the peer's hello)", len(hostileKinds)),
		Assumptions: commonAssumptions})
}
