package c32

// Scripted peers: a hand-written TLS peer (independent of zcrypto's message
// code) that plays generated, mostly well-formed but hostile handshake messages
// against a real zcrypto client or server.

import (
	"crypto"
	"crypto/ecdsa"
	"crypto/ed25519"
	"crypto/elliptic"
	"crypto/md5"
	"crypto/rand"
	stdrsa "crypto/rsa"
	"crypto/sha1"
	"crypto/sha256"
	"crypto/sha512"
	"fmt"
	"math/big"
	"strings"
	"time"

	"verifharness/keys"
	"verifharness/kit"
	"verifharness/tlskit"
)

// Step is one thing the scripted peer sends.
type Step struct {
	Kind string `json:"kind"`
	Type int    `json:"type,omitempty"`
	A    int    `json:"a,omitempty"`
	B    int    `json:"b,omitempty"`
	C    int    `json:"c,omitempty"`
	D    int    `json:"d,omitempty"`
	Data []byte `json:"data,omitempty"`
}

type ExtSpec struct {
	Type int    `json:"type"`
	Data []byte `json:"data"`
}

// Framing of a flight.
type Framing struct {
	Pack int `json:"pack"` // 0 one record per message, 1 all handshake bytes coalesced, 2 fragments of Frag bytes
	Frag int `json:"frag,omitempty"`
	Seg  int `json:"seg,omitempty"` // transport segment size (0: one write)
	Ver  int `json:"ver,omitempty"` // record-layer version (0: 0x0303)
}

// ---------------------------------------------------------------------------
// peer side of the transport

type peerIO struct {
	end    *tlskit.End
	target *endpoint
	sent   int64
	notify chan struct{}
}

// send writes bytes to the target in segments.
func (p *peerIO) send(b []byte, seg int) {
	if seg <= 0 || seg >= len(b) {
		if len(b) > 0 {
			p.end.Write(b)
			p.sent += int64(len(b))
		}
		return
	}
	for len(b) > 0 {
		n := seg
		if n > len(b) {
			n = len(b)
		}
		p.end.Write(b[:n])
		p.sent += int64(n)
		b = b[n:]
	}
}

// settle waits until the target has either finished or consumed everything
// that was sent and is blocked in Read again.  It reports false if the target
// did neither within the watchdog (it is then computing or spinning).
func (p *peerIO) settle() bool {
	tick := time.NewTicker(time.Millisecond)
	defer tick.Stop()
	hard := time.NewTimer(kit.WatchdogSeconds())
	defer hard.Stop()
	for {
		if p.target.isDone() {
			return true
		}
		rd, _, waiting := p.target.cc.snap()
		if waiting && rd == p.sent {
			return true
		}
		select {
		case <-p.notify:
		case <-tick.C:
		case <-hard.C:
			return false
		}
	}
}

// drain returns everything the target has written so far without blocking.
func (p *peerIO) drain() []byte {
	var out []byte
	buf := make([]byte, 16384)
	p.end.SetReadDeadline(time.Unix(1, 0))
	for {
		n, err := p.end.Read(buf)
		out = append(out, buf[:n]...)
		if err != nil {
			break
		}
	}
	p.end.SetReadDeadline(time.Time{})
	return out
}

// frame turns a list of built items into wire bytes.
type item struct {
	hs  bool   // handshake message (may be coalesced / fragmented)
	typ byte   // record type for non-handshake items
	raw []byte // handshake message bytes, record body, or (typ == 0xfe) literal wire bytes
}

func frame(items []item, f Framing) []byte {
	ver := uint16(f.Ver)
	if ver == 0 {
		ver = 0x0303
	}
	var out, pending []byte
	flush := func() {
		if len(pending) == 0 {
			return
		}
		if f.Pack == 2 {
			out = append(out, records(recHandshake, ver, pending, f.Frag)...)
		} else {
			out = append(out, records(recHandshake, ver, pending, 0)...)
		}
		pending = nil
	}
	for _, it := range items {
		switch {
		case it.hs:
			pending = append(pending, it.raw...)
			if f.Pack == 0 {
				flush()
			}
		case it.typ == 0xfe:
			flush()
			out = append(out, it.raw...)
		default:
			flush()
			out = append(out, record(it.typ, ver, it.raw)...)
		}
	}
	flush()
	return out
}

// ---------------------------------------------------------------------------
// signatures computed with the Go standard library

func hashOf(h crypto.Hash, msg []byte) []byte {
	switch h {
	case crypto.SHA1:
		d := sha1.Sum(msg)
		return d[:]
	case crypto.SHA256:
		d := sha256.Sum256(msg)
		return d[:]
	case crypto.SHA384:
		d := sha512.Sum384(msg)
		return d[:]
	case crypto.SHA512:
		d := sha512.Sum512(msg)
		return d[:]
	case crypto.MD5SHA1:
		a := md5.Sum(msg)
		b := sha1.Sum(msg)
		return append(a[:], b[:]...)
	case crypto.MD5:
		a := md5.Sum(msg)
		return a[:]
	}
	return nil
}

// tlsSign signs msg the way TLS (<= 1.2 ServerKeyExchange / CertificateVerify)
// expects for the scheme on the wire (vers >= 1.2) or the legacy defaults.
// ok is false when the key cannot produce that scheme.
func tlsSign(k *keys.Key, vers uint16, scheme uint16, msg []byte) (sig []byte, ok bool) {
	defer func() {
		if recover() != nil {
			sig, ok = nil, false
		}
	}()
	if vers < 0x0303 {
		switch k.Kind {
		case "rsa":
			s, err := stdrsa.SignPKCS1v15(rand.Reader, k.StdPriv.(*stdrsa.PrivateKey), crypto.MD5SHA1, hashOf(crypto.MD5SHA1, msg))
			return s, err == nil
		case "ec":
			s, err := ecdsa.SignASN1(rand.Reader, k.StdPriv.(*ecdsa.PrivateKey), hashOf(crypto.SHA1, msg))
			return s, err == nil
		}
		return nil, false
	}
	var h crypto.Hash
	switch scheme >> 8 {
	case 1:
		h = crypto.MD5
	case 2:
		h = crypto.SHA1
	case 4:
		h = crypto.SHA256
	case 5:
		h = crypto.SHA384
	case 6:
		h = crypto.SHA512
	}
	switch {
	case scheme == 0x0807 && k.Kind == "ed25519":
		return ed25519.Sign(k.StdPriv.(ed25519.PrivateKey), msg), true
	case scheme == 0x0804 || scheme == 0x0805 || scheme == 0x0806:
		if k.Kind != "rsa" {
			return nil, false
		}
		h = map[uint16]crypto.Hash{0x0804: crypto.SHA256, 0x0805: crypto.SHA384, 0x0806: crypto.SHA512}[scheme]
		s, err := stdrsa.SignPSS(rand.Reader, k.StdPriv.(*stdrsa.PrivateKey), h, hashOf(h, msg), &stdrsa.PSSOptions{SaltLength: stdrsa.PSSSaltLengthEqualsHash})
		return s, err == nil
	case scheme&0xff == 1 && h != 0 && k.Kind == "rsa":
		s, err := stdrsa.SignPKCS1v15(rand.Reader, k.StdPriv.(*stdrsa.PrivateKey), h, hashOf(h, msg))
		return s, err == nil
	case scheme&0xff == 3 && h != 0 && k.Kind == "ec":
		s, err := ecdsa.SignASN1(rand.Reader, k.StdPriv.(*ecdsa.PrivateKey), hashOf(h, msg))
		return s, err == nil
	}
	return nil, false
}

// ---------------------------------------------------------------------------
// builders shared by both scripted peers

// certChain builds a TLS <= 1.2 Certificate message body.
//
//	A: 0 genuine leaf, 1 genuine leaf + CA, 2 empty list, 3 hostile leaf (kind B),
//	   4 garbage DER (Data), 5 genuine leaf + zero-length entry, 6 raw body (Data),
//	   7 hostile leaf (kind B) + CA
func certChain(s Step, k *keys.Key, dns string) []byte {
	id := tlskit.NewIdentity(k, dns)
	var list []byte
	add := func(d []byte) { list = append(list, vec24(d)...) }
	switch s.A {
	case 0:
		add(id.Leaf.Raw)
	case 1:
		add(id.Leaf.Raw)
		add(id.CA.Raw)
	case 2:
	case 3, 7:
		add(hostileLeaf(((s.B%len(hostileKinds))+len(hostileKinds))%len(hostileKinds), dns))
		if s.A == 7 {
			add(id.CA.Raw)
		}
	case 4:
		add(s.Data)
	case 5:
		add(id.Leaf.Raw)
		add(nil)
	default:
		return s.Data
	}
	return vec24(list)
}

var rfc5114p = bigHex("87A8E61DB4B6663CFFBBD19C651959998CEEF608660DD0F25D2CEED4435E3B00E00DF8F1D61957D4FAF7DF4561B2AA3016C3D91134096FAA3BF4296D830E9A7C209E0C6497517ABD5A8A9D306BCF67ED91F9E6725B4758C022E0B1EF4275BF7B6C5BFC11D45F9088B941F54EB1E59BB8BC39A0BF12307F5C4FDB70C581B23F76B63ACAE1CAA6B7902D52526735488A0EF13C6D9A51BFA4AB3AD8347796524D8EF6A167B5A41825D967E144E5140564251CCACB83E6B486F6B3CA3F7971506026C0B857F689962856DED4010ABD0BE621C3A3960A54E710C375F26375D7014103A4B54330C198AF126116D2276E11715F693877FAD7EF09CADB094AE91E1A1597")

func curveOf(id int) (elliptic.Curve, string) {
	switch id {
	case 23:
		return elliptic.P256(), "ecP-256-1"
	case 24:
		return elliptic.P384(), "ecP-384-1"
	case 25:
		return elliptic.P521(), "ecP-521-1"
	case 21:
		return elliptic.P224(), "ecP-224-1"
	}
	return nil, ""
}

// ecPoint builds a public value for the named group.
//
//	mode: 0 valid, 1 all zero (right length), 2 one byte short, 3 empty, 4 off-curve,
//	      5 compressed form, 6 point at infinity encoding, 7 255 random-ish bytes, 8 one byte long
func ecPoint(group, mode int, fill []byte) []byte {
	n := 32
	var valid []byte
	if c, name := curveOf(group); c != nil {
		pub := keys.ByName(name).StdPub.(*ecdsa.PublicKey)
		valid = elliptic.Marshal(c, pub.X, pub.Y)
		n = len(valid)
	} else {
		valid = make([]byte, 32)
		copy(valid, fill)
		valid[0] |= 9
	}
	switch mode {
	case 0:
		return valid
	case 1:
		return make([]byte, n)
	case 2:
		return valid[:n-1]
	case 3:
		return nil
	case 4:
		p := append([]byte(nil), valid...)
		p[n-1] ^= 1
		return p
	case 5:
		if n > 33 {
			p := append([]byte{2}, valid[1:1+(n-1)/2]...)
			return p
		}
		return valid
	case 6:
		return []byte{0}
	case 7:
		p := make([]byte, 255)
		copy(p, fill)
		p[0] = 4
		return p
	}
	return append(valid, 0)
}

// skxBody builds a ServerKeyExchange body.
//
//	A: 0 ECDHE, 1 DHE, 2 raw Data
//	ECDHE: Type = curve id on the wire, B = point mode, Data[0] (if present) overrides the curve_type byte
//	DHE:   B = p mode, Type = g mode | y mode << 4
//	C: signature scheme on the wire (TLS 1.2), D: signature mode
//	   0 valid, 1 garbage of plausible size, 2 empty, 3 absent, 4 length too big, 5 length too small
func skxBody(s Step, k *keys.Key, vers uint16, cr, sr []byte) []byte {
	var params []byte
	switch s.A {
	case 0:
		ct := byte(3)
		if len(s.Data) > 0 {
			ct = s.Data[0]
		}
		pt := ecPoint(s.Type, s.B, sr)
		params = cat([]byte{ct}, u16(s.Type), vec8(pt[:min(len(pt), 255)]))
	case 1:
		p := new(big.Int).Set(rfc5114p)
		switch s.B {
		case 1:
			p = big.NewInt(0)
		case 2:
			p = big.NewInt(1)
		case 3:
			p = big.NewInt(2)
		case 4:
			p = big.NewInt(23)
		case 5:
			p.Sub(p, big.NewInt(1))
		case 6:
			p.Lsh(p, 6144).Add(p, big.NewInt(1))
		case 7:
			p = big.NewInt(65537)
		case 8:
			p = big.NewInt(4)
		}
		g := big.NewInt(2)
		switch s.Type & 15 {
		case 1:
			g = big.NewInt(0)
		case 2:
			g = big.NewInt(1)
		case 3:
			g = new(big.Int).Sub(p, big.NewInt(1))
		case 4:
			g = new(big.Int).Add(p, big.NewInt(5))
		}
		var y *big.Int
		switch s.Type >> 4 {
		case 1:
			y = big.NewInt(0)
		case 2:
			y = big.NewInt(1)
		case 3:
			y = new(big.Int).Sub(p, big.NewInt(1))
		case 4:
			y = new(big.Int).Set(p)
		case 5:
			y = new(big.Int).Add(p, big.NewInt(7))
		default:
			if p.Sign() > 0 {
				y = new(big.Int).Exp(g, big.NewInt(0x1234567), p)
			} else {
				y = big.NewInt(3)
			}
		}
		abs := func(v *big.Int) []byte { return new(big.Int).Abs(v).Bytes() }
		params = cat(vec16(abs(p)), vec16(abs(g)), vec16(abs(y)))
	default:
		return s.Data
	}
	if s.D == 3 {
		return params
	}
	signed := cat(cr, sr, params)
	var sig []byte
	if s.D == 0 {
		var ok bool
		if sig, ok = tlsSign(k, vers, uint16(s.C), signed); !ok {
			sig = hashOf(crypto.SHA512, signed)
		}
	} else if s.D != 2 {
		sig = cat(hashOf(crypto.SHA512, signed), hashOf(crypto.SHA512, params), hashOf(crypto.SHA256, cr))
	}
	var alg []byte
	if vers >= 0x0303 {
		alg = u16(s.C)
	}
	switch s.D {
	case 4:
		return cat(params, alg, u16(len(sig)+9), sig)
	case 5:
		if len(sig) > 3 {
			return cat(params, alg, u16(len(sig)-3), sig)
		}
	case 6:
		return cat(params, alg) // the message ends right after the algorithm identifier
	case 7:
		return cat(params, alg, []byte{0}) // ... or one octet later, inside the length field
	case 8:
		return cat(params, alg[:len(alg)/2]) // ... or inside the algorithm identifier
	}
	return cat(params, alg, vec16(sig))
}

// certReqBody builds a CertificateRequest (TLS <= 1.2).
//
//	A: types 0 {rsa,ecdsa}, 1 empty, 2 Data
//	B: signature algorithms 0 default list, 1 empty, 2 odd length, 3 unknown only, 4 Ed25519 only
//	C: CAs 0 none, 1 the test CA's subject, 2 garbage DN, 3 length mismatch
func certReqBody(s Step, vers uint16, caSubject []byte) []byte {
	types := []byte{1, 64}
	switch s.A {
	case 1:
		types = nil
	case 2:
		types = s.Data
		if len(types) > 255 {
			types = types[:255]
		}
	}
	out := vec8(types)
	if vers >= 0x0303 {
		algs := cat(u16(0x0804), u16(0x0403), u16(0x0807), u16(0x0401), u16(0x0503), u16(0x0201), u16(0x0203))
		switch s.B {
		case 1:
			algs = nil
		case 2:
			algs = algs[:5]
		case 3:
			algs = cat(u16(0xeeee), u16(0x0000))
		case 4:
			algs = u16(0x0807)
		}
		out = append(out, vec16(algs)...)
	}
	switch s.C {
	case 0:
		out = append(out, u16(0)...)
	case 1:
		out = append(out, vec16(vec16(caSubject))...)
	case 2:
		out = append(out, vec16(vec16([]byte{0x30, 0x03, 0x31, 0x01, 0x00}))...)
	default:
		out = append(out, u16(500)...)
		out = append(out, 1, 2, 3)
	}
	return out
}

// buildItems turns steps that need no handshake context into items; the
// context dependent kinds are resolved by the callback.
func buildItems(steps []Step, ctx func(Step) (byte, []byte, bool)) []item {
	var items []item
	for _, s := range steps {
		switch s.Kind {
		case "raw":
			items = append(items, item{hs: true, raw: hsMsg(byte(s.Type), s.Data)})
		case "hs-literal": // literal handshake-layer bytes (possibly an incomplete header)
			items = append(items, item{hs: true, raw: s.Data})
		case "ccs":
			b := []byte{1}
			if len(s.Data) > 0 {
				b = s.Data
			}
			items = append(items, item{typ: recCCS, raw: b})
		case "alert":
			items = append(items, item{typ: recAlert, raw: []byte{byte(s.A), byte(s.B)}})
		case "record":
			items = append(items, item{typ: byte(s.Type), raw: s.Data})
		case "wire":
			items = append(items, item{typ: 0xfe, raw: s.Data})
		default:
			if ctx != nil {
				if typ, body, ok := ctx(s); ok {
					items = append(items, item{hs: true, raw: hsMsg(typ, body)})
				}
			}
		}
	}
	return items
}

func errClass(err error) string {
	if err == nil {
		return "ok"
	}
	s := err.Error()
	// drop variable tails (parser details, lengths, type names)
	for _, cut := range []string{" of length ", " with version ", "unsupported protocol version", "failed to parse certificate", "of type *tls."} {
		if i := strings.Index(s, cut); i > 0 {
			s = s[:i+len(cut)]
		}
	}
	if len(s) > 90 {
		s = s[:90]
	}
	return s
}

func fmtSteps(st [][]Step) string {
	var b strings.Builder
	for i, f := range st {
		fmt.Fprintf(&b, " flight%d:", i)
		for _, s := range f {
			fmt.Fprintf(&b, " %s", s.Kind)
			if s.Kind == "raw" {
				fmt.Fprintf(&b, "(%d)", s.Type)
			}
		}
	}
	return b.String()
}
