package c32

// Scripted server against a real zcrypto client.

import (
	"crypto/sha256"
	"fmt"
	"testing"

	"pgregory.net/rapid"
	"verifharness/keys"
	"verifharness/kit"
	"verifharness/tlskit"
)

type SHSpec struct {
	Vers    int       `json:"vers"`
	Random  int       `json:"random"`  // 0 derived, 1 HelloRetryRequest magic, 2 downgrade canary 1.2, 3 canary 1.1
	SessID  int       `json:"sess_id"` // 0 empty, 1 echo, 2 fresh 32 bytes, 3 33 bytes (malformed)
	Suite   int       `json:"suite"`
	Comp    int       `json:"comp"`
	Exts    []ExtSpec `json:"exts"`
	NoExts  bool      `json:"no_exts,omitempty"`
	RawBody []byte    `json:"raw_body,omitempty"` // replaces everything when non-nil
	// SessionSuite: select the cipher suite of the primed session (Resume cases)
	SessionSuite bool `json:"session_suite,omitempty"`
}

type SrvCase struct {
	Cfg     Cfg      `json:"cfg"`
	Resume  bool     `json:"resume,omitempty"` // prime the client's session cache with a genuine handshake first
	SH      SHSpec   `json:"sh"`
	Flights [][]Step `json:"flights"` // flight 0 follows the ServerHello; later flights are sent after the client has reacted
	Frame   Framing  `json:"frame"`
}

var hrrRandom = []byte{0xCF, 0x21, 0xAD, 0x74, 0xE5, 0x9A, 0x61, 0x11, 0xBE, 0x1D, 0x8C, 0x02, 0x1E, 0x65, 0xB8, 0x91,
	0xC2, 0xA2, 0x11, 0x16, 0x7A, 0xBB, 0x8C, 0x5E, 0x07, 0x9E, 0x09, 0xE2, 0xC8, 0xA8, 0x33, 0x9C}

func (s SHSpec) build(clientSessID []byte, seed uint64) (body, random []byte) {
	h := sha256.Sum256([]byte(fmt.Sprint("server-random", seed)))
	random = h[:]
	switch s.Random {
	case 1:
		random = append([]byte(nil), hrrRandom...)
	case 2:
		copy(random[24:], "DOWNGRD\x01")
	case 3:
		copy(random[24:], "DOWNGRD\x00")
	}
	if s.RawBody != nil {
		return s.RawBody, random
	}
	var sid []byte
	switch s.SessID {
	case 1:
		sid = clientSessID
	case 2:
		x := sha256.Sum256(random)
		sid = x[:]
	case 3:
		sid = make([]byte, 33)
	}
	body = cat(u16(s.Vers), random, vec8(sid), u16(s.Suite), []byte{byte(s.Comp)})
	if !s.NoExts {
		var ex []byte
		for _, e := range s.Exts {
			ex = append(ex, ext(e.Type, e.Data)...)
		}
		body = append(body, vec16(ex)...)
	}
	return body, random
}

func (s SHSpec) negotiated() uint16 {
	v := uint16(s.Vers)
	for _, e := range s.Exts {
		if e.Type == 43 && len(e.Data) == 2 {
			v = uint16(e.Data[0])<<8 | uint16(e.Data[1])
		}
	}
	return v
}

func checkSrvScript(c SrvCase, r *kit.R) {
	withPermissive(c.Cfg.Permissive, func() {
		ccfg := c.Cfg.clientConfig()
		if c.Resume {
			// genuine handshake first so that the client holds a session for serverName
			pc := c.Cfg
			pc.Tickets = true
			ccfg = pc.clientConfig()
			scfg := pc.serverConfig()
			scfg.ClientAuth = 0
			n0 := make(chan struct{}, 1)
			pl := &plan{classes: map[string]bool{}}
			px := tlskit.NewProxy(pl.hook)
			cli := newEndpoint("client", px.Client, ccfg, n0)
			srv := newEndpoint("server", px.Server, scfg, n0)
			cli.send, srv.send, cli.want = []byte("a"), []byte("b"), 1
			runPair(r, "priming handshake", cli, srv, px, pl)
			judge(r, "priming handshake", cli, srv)
			if cli.hsOK {
				r.Class("resume:primed")
				if c.SH.SessionSuite {
					c.SH.Suite = int(cli.conn.ConnectionState().CipherSuite)
				}
			}
		}
		a, b := tlskit.RawPair()
		notify := make(chan struct{}, 1)
		cli := newEndpoint("client", a, ccfg, notify)
		cli.send, cli.reads = []byte("GET / HTTP/1.0\r\n\r\n"), 3
		io := &peerIO{end: b, target: cli, notify: notify}
		what := "scripted server" + fmtSteps(c.Flights)
		go cli.run()

		key := keyOr(c.Cfg.Key, "rsa2048-p2-1")
		id := tlskit.NewIdentity(key, serverName)
		stuck := false
		func() {
			if !io.settle() {
				stuck = true
				return
			}
			first := splitHandshake(io.drain())
			var cr, sid []byte
			if len(first) > 0 && len(first[0]) >= 4+2+32+1 && first[0][0] == hsClientHello {
				m := first[0]
				cr = m[6:38]
				n := int(m[38])
				if len(m) >= 39+n {
					sid = m[39 : 39+n]
				}
			} else {
				r.Class("no-client-hello")
				return
			}
			shBody, sr := c.SH.build(sid, c.Cfg.Seed)
			vers := c.SH.negotiated()
			ctx := func(s Step) (byte, []byte, bool) {
				switch s.Kind {
				case "cert":
					return hsCertificate, certChain(s, key, serverName), true
				case "status":
					switch s.A {
					case 0:
						return hsCertificateStatus, cat([]byte{1}, vec24(s.Data)), true
					case 1:
						return hsCertificateStatus, cat([]byte{2}, vec24(s.Data)), true
					}
					return hsCertificateStatus, s.Data, true
				case "skx":
					return hsServerKeyExchange, skxBody(s, key, vers, cr, sr), true
				case "certreq":
					return hsCertificateRequest, certReqBody(s, vers, id.CA.RawSubject), true
				case "done":
					return hsServerHelloDone, s.Data, true
				case "nst":
					// NewSessionTicket: lifetime + ticket
					return hsNewSessionTicket, cat([]byte{0, 0, byte(s.A), byte(s.B)}, vec16(s.Data)), true
				case "finished":
					return hsFinished, s.Data, true
				}
				return 0, nil, false
			}
			for i, fl := range c.Flights {
				items := buildItems(fl, ctx)
				if i == 0 {
					items = append([]item{{hs: true, raw: hsMsg(hsServerHello, shBody)}}, items...)
				}
				io.send(frame(items, c.Frame), c.Frame.Seg)
				if !io.settle() {
					stuck = true
					return
				}
				if cli.isDone() {
					break
				}
				if out := io.drain(); len(out) > 0 {
					r.Class(fmt.Sprintf("client-replied-after-flight%d", i))
				}
			}
		}()
		b.Close() // the transport is closed: everything must return now
		if stuck {
			awaitDone(r, what+" (client neither finished nor waiting for input)", cli)
		}
		awaitDone(r, what, cli)
		if dbgEndpoint != nil {
			dbgEndpoint(cli)
		}
		judge(r, what, cli)

		r.Class("client-err:" + errClass(cli.hsErr))
		r.Class(fmt.Sprintf("sh-vers=%04x", c.SH.negotiated()))
		r.Class(fmt.Sprintf("log-messages=%d", cli.consumed))
		if cli.consumed >= 1 {
			r.NonTrivial()
		}
	})
}

// ---------------------------------------------------------------------------
// generator

var allSuites = append(append(append(append([]uint16{}, rsaSuitesLegacy...), rsaSuitesTLS12...), ecdsaSuitesLegacy...), ecdsaSuitesTLS12...)

func genShExt(t *rapid.T, i int) ExtSpec {
	l := fmt.Sprintf("ext%d-", i)
	// types 11..15 are unknown to zcrypto's ServerHello parser, which rejects any unknown
	// extension with a non-empty body: keep them rare so that most hellos are accepted
	which := pick(t, l+"which", []int{0, 0, 0, 1, 1, 2, 2, 3, 3, 4, 4, 5, 5, 6, 7, 7, 8, 9, 10, 10, 11, 12, 13, 14, 15, 16, 16})
	v := pick(t, l+"variant", []int{0, 0, 0, 0, 1, 1, 1, 2, 3, 4})
	rnd := func(n int) []byte {
		return rapid.SliceOfN(rapid.Byte(), n, n).Draw(t, l+"bytes")
	}
	switch which {
	case 0: // renegotiation_info
		return ExtSpec{0xff01, [][]byte{{0}, {0}, vec8(make([]byte, 12)), {5, 1}, nil}[v]}
	case 1: // ALPN
		return ExtSpec{16, [][]byte{vec16(vec8([]byte("h2"))), vec16(vec8([]byte("http/1.1"))), vec16(cat(vec8([]byte("h2")), vec8([]byte("x")))), vec16(vec8(nil)), {0, 9, 1}}[v]}
	case 2:
		return ExtSpec{5, [][]byte{nil, nil, {1}, {0, 0}, nil}[v]}
	case 3:
		return ExtSpec{35, [][]byte{nil, nil, {1, 2, 3}, nil, nil}[v]}
	case 4: // SCT list
		return ExtSpec{18, [][]byte{vec16(vec16(rnd(40))), vec16(cat(vec16(rnd(40)), vec16(rnd(40)))), vec16(nil), vec16(vec16(nil)), {0, 50, 0}}[v]}
	case 5:
		return ExtSpec{11, [][]byte{vec8([]byte{0}), vec8([]byte{0}), vec8(nil), vec8([]byte{1, 2}), {4, 0}}[v]}
	case 6: // supported_versions
		return ExtSpec{43, [][]byte{u16(0x0304), u16(0x0304), u16(0x0303), u16(0x0305), {3}}[v]}
	case 7: // key_share
		switch v {
		case 0:
			return ExtSpec{51, cat(u16(29), vec16(rnd(32)))}
		case 1:
			return ExtSpec{51, cat(u16(23), vec16(ecPoint(23, uni(t, l+"pt", 8+1), nil)))}
		case 2:
			return ExtSpec{51, cat(u16(29), vec16(rnd(pick(t, l+"n", []int{0, 1, 31, 33}))))}
		case 3:
			return ExtSpec{51, u16(pick(t, l+"grp", []int{23, 24, 25, 29, 4588, 0, 99}))} // HelloRetryRequest form
		default:
			g := pick(t, l+"grp", []int{4588, 4587, 4589, 24, 25})
			n := pick(t, l+"n", []int{1120, 1153, 1665, 1119, 32, 0, 97, 133})
			return ExtSpec{51, cat(u16(g), vec16(make([]byte, n)))}
		}
	case 8:
		return ExtSpec{44, [][]byte{vec16(rnd(8)), vec16(rnd(8)), vec16(nil), {0}, vec16(make([]byte, 300))}[v]}
	case 9:
		return ExtSpec{41, [][]byte{u16(0), u16(0), u16(1), u16(0xffff), {0}}[v]}
	case 10:
		return ExtSpec{23, [][]byte{nil, nil, {0}, nil, nil}[v]}
	case 11:
		return ExtSpec{15, [][]byte{{1}, {2}, nil, {3}, {1, 1}}[v]}
	case 12:
		return ExtSpec{40, [][]byte{vec16(rnd(32)), vec16(rnd(1)), vec16(nil), rnd(3), vec16(make([]byte, 255))}[v]}
	case 13:
		return ExtSpec{pick(t, l+"type", []int{0, 10, 13, 21, 42, 45, 49, 50, 0xabcd, 0xffff}), rnd(uni(t, l+"len", 12+1))}
	case 14: // NPN (legacy)
		return ExtSpec{13172, [][]byte{nil, vec8([]byte("h2")), {9}, nil, nil}[v]}
	case 15:
		return ExtSpec{uni(t, l+"type", 60+1), rnd(uni(t, l+"len", 6+1))}
	default: // unknown extension with an empty body (accepted and logged)
		return ExtSpec{pick(t, l+"type", []int{15, 13172, 0xabcd, 21, 28, 0}), nil}
	}
}

// (the second group: the expected signature type under a hash id that is unassigned, reserved or not implemented)
var sigSchemes = []int{0x0401, 0x0804, 0x0403, 0x0807, 0x0501, 0x0601, 0x0201, 0x0203, 0x0805, 0x0806, 0x0503, 0x0603, 0x0101, 0x0402, 0x0000, 0xffff, 0x0808,
	0x0001, 0x0301, 0x0701, 0x0801, 0xff01, 0x0003, 0x0303, 0x0703, 0xff03, 0x0002, 0x0702}

func isDHE(suite int) bool {
	switch suite {
	case 0x0033, 0x0039, 0x0067, 0x006b, 0x009e, 0x009f, 0x0016, 0xccaa:
		return true
	}
	return false
}

func isRSAKx(suite int) bool {
	switch suite {
	case 0x002f, 0x0035, 0x000a, 0x0005, 0x003c, 0x009c, 0x009d:
		return true
	}
	return false
}

// benignSKX is a ServerKeyExchange the client accepts (valid group, point and signature).
func benignSKX(t *rapid.T, suite int, key string) Step {
	s := Step{Kind: "skx"}
	good := 0x0401
	switch {
	case key[:2] == "ec":
		good = 0x0403
	case key[:2] == "ed":
		good = 0x0807
	}
	if isDHE(suite) {
		s.A = 1
		good = pick(t, "skx-dhe-alg", []int{0x0401, 0x0501, 0x0601, 0x0201})
	} else {
		s.Type = pick(t, "skx-curve", []int{29, 23, 24, 25})
		if key[:2] == "rs" && rapid.Bool().Draw(t, "skx-pss") {
			good = 0x0804
		}
	}
	s.C = good
	return s
}

func hostileCertStep(t *rapid.T, label string) Step {
	s := Step{Kind: "cert"}
	s.A = pick(t, label+"-chain", []int{3, 3, 3, 7, 2, 4, 5, 6})
	switch s.A {
	case 3, 7:
		s.B = uni(t, label+"-hostile", len(hostileKinds))
	case 4:
		s.Data = genBytes(t, label+"-der", 40)
	case 6:
		s.Data = rapid.OneOf(rapid.Just([]byte{0, 0, 5, 0, 0, 9, 1}), rapid.Just([]byte{0xff, 0xff, 0xff}), rapid.SliceOfN(rapid.Byte(), 0, 12)).Draw(t, label+"-body")
	}
	return s
}

func genHostileStep(t *rapid.T, label string) Step {
	switch uni(t, label+"-kind", 8) {
	case 0:
		return Step{Kind: "ccs"}
	case 1:
		return Step{Kind: "alert", A: pick(t, label+"-lvl", []int{1, 1, 2, 0, 3}), B: pick(t, label+"-desc", []int{0, 10, 20, 40, 42, 80, 90, 100, 112, 255})}
	case 2:
		return Step{Kind: "record", Type: pick(t, label+"-rt", []int{23, 24, 0, 99, 0x80, 22, 21, 20}), Data: genBytes(t, label+"-rb", 48)}
	case 3: // handshake header announcing a huge message
		return Step{Kind: "hs-literal", Data: cat([]byte{pick(t, label+"-ht", []byte{2, 4, 11, 12, 13, 14, 16, 20, 22})},
			u24(pick(t, label+"-hl", []int{0xffffff, 65537, 65536, 70000, 1 << 20})), genBytes(t, label+"-hp", 16))}
	case 4:
		return Step{Kind: "wire", Data: genBytes(t, label+"-wire", 64)}
	default:
		return Step{Kind: "raw", Type: pick(t, label+"-type", []int{0, 1, 2, 4, 5, 8, 11, 12, 13, 14, 15, 16, 20, 22, 24, 254, 99}), Data: genBytes(t, label+"-body", 60)}
	}
}

// genSrvCase builds a script the client accepts up to the (unforgeable)
// Finished message and then applies a few hostile deviations, so that every
// stage of the client's handshake code meets hostile input.
func genSrvCase(t *rapid.T) SrvCase {
	c := SrvCase{Cfg: genCfg(t)}
	c.Cfg.Permissive = oneIn(t, "permissive", 4)
	c.Cfg.DSA = oneIn(t, "dsa", 4)
	c.Cfg.ClientAuth = 0
	if !oneIn(t, "offerall", 4) || len(c.Cfg.Suites) == 1 {
		// the client offers everything so that any selection is "offered"
		c.Cfg.Suites = append(append([]uint16{}, allSuites...), 0x1301, 0x1302, 0x1303)
		c.Cfg.Force = true
	}
	if rapid.Bool().Draw(t, "clientcert2") {
		c.Cfg.ClientKey = pick(t, "clientkey2", []string{"ecP-256-0", "rsa2048-p2-1", "ed25519-0"})
	}
	c.Resume = oneIn(t, "resume", 10)
	if c.Resume && c.Cfg.MaxVer > 0x0303 {
		c.Cfg.MaxVer = 0x0303
	}

	// ---- benign script
	sh := &c.SH
	sh.Vers = int(c.Cfg.MaxVer)
	if sh.Vers > 0x0303 {
		sh.Vers = 0x0303
	}
	tls13 := c.Cfg.MaxVer == 0x0304 && !oneIn(t, "tls13", 3)
	pool := suitePool(c.Cfg.Key, uint16(sh.Vers))
	if !c.Cfg.Force {
		pool = []uint16{0xc02f, 0xc030, 0xc013, 0xc014, 0x009c, 0x002f, 0x0035, 0xcca8}
		if c.Cfg.Key[:2] != "rs" {
			pool = []uint16{0xc02b, 0xc02c, 0xc009, 0xc00a, 0xcca9}
		}
		if sh.Vers < 0x0303 {
			pool = []uint16{0xc013, 0xc014, 0x002f, 0x0035}
			if c.Cfg.Key[:2] != "rs" {
				pool = []uint16{0xc009, 0xc00a}
			}
		}
	}
	sh.Suite = int(pick(t, "sh-suite", pool))
	sh.SessID = pick(t, "sh-sid", []int{2, 0})
	resumeEcho := c.Resume && !oneIn(t, "sh-resume-noecho", 4)
	if resumeEcho {
		sh.SessID = 1
		sh.SessionSuite = !oneIn(t, "sh-resume-othersuite", 4)
	}
	ticket, ocsp := false, false
	if tls13 {
		sh.Suite = pick(t, "sh-suite13", []int{0x1301, 0x1302, 0x1303})
		sh.SessID = 1
		sh.Exts = append(sh.Exts, ExtSpec{43, u16(0x0304)}, ExtSpec{51, cat(u16(29), vec16(rapid.SliceOfN(rapid.Byte(), 32, 32).Draw(t, "sh-x25519")))})
	} else {
		if rapid.Bool().Draw(t, "sh-reneg") {
			sh.Exts = append(sh.Exts, ExtSpec{0xff01, []byte{0}})
		}
		if c.Cfg.ALPN && rapid.Bool().Draw(t, "sh-alpn") {
			sh.Exts = append(sh.Exts, ExtSpec{16, vec16(vec8([]byte("h2")))})
		}
		if oneIn(t, "sh-ocsp", 3) {
			sh.Exts = append(sh.Exts, ExtSpec{5, nil})
			ocsp = true
		}
		if oneIn(t, "sh-ticket", 3) {
			sh.Exts = append(sh.Exts, ExtSpec{35, nil})
			ticket = true
		}
		if oneIn(t, "sh-sct", 4) {
			sh.Exts = append(sh.Exts, ExtSpec{18, vec16(vec16(rapid.SliceOfN(rapid.Byte(), 40, 40).Draw(t, "sh-sctbytes")))})
		}
		if oneIn(t, "sh-points", 3) {
			sh.Exts = append(sh.Exts, ExtSpec{11, []byte{1, 0}})
		}
		if oneIn(t, "sh-ems", 4) {
			sh.Exts = append(sh.Exts, ExtSpec{23, nil})
		}
		if oneIn(t, "sh-unknown-empty", 6) {
			sh.Exts = append(sh.Exts, ExtSpec{pick(t, "sh-unknown-type", []int{0xabcd, 21, 28, 13172}), nil})
		}
		sh.NoExts = len(sh.Exts) == 0 && rapid.Bool().Draw(t, "sh-noexts")
	}
	var f0, f1 []Step
	if tls13 {
		n := uni(t, "f13", 4)
		for i := 0; i < n; i++ {
			f0 = append(f0, genHostileStep(t, fmt.Sprintf("f13-%d", i)))
		}
	} else {
		f0 = append(f0, Step{Kind: "cert", A: pick(t, "cert-chain", []int{0, 1})})
		if ocsp {
			f0 = append(f0, Step{Kind: "status", Data: genBytes(t, "status-data", 30)})
		}
		if !isRSAKx(sh.Suite) {
			f0 = append(f0, benignSKX(t, sh.Suite, c.Cfg.Key))
		}
		if oneIn(t, "certreq", 3) {
			f0 = append(f0, Step{Kind: "certreq", C: pick(t, "cr-cas", []int{0, 1})})
		}
		f0 = append(f0, Step{Kind: "done"})
		if ticket {
			f1 = append(f1, Step{Kind: "nst", A: uni(t, "nst-a", 256), B: uni(t, "nst-b", 256), Data: rapid.SliceOfN(rapid.Byte(), 1, 40).Draw(t, "nst-ticket")})
		}
		f1 = append(f1, Step{Kind: "ccs"}, Step{Kind: "finished", Data: make([]byte, 12)})
		if resumeEcho {
			// abbreviated handshake: [NewSessionTicket] ChangeCipherSpec Finished follow the ServerHello directly
			f0, f1 = f1, nil
		}
	}
	c.Frame.Pack = pick(t, "pack", []int{0, 1, 2})
	if c.Frame.Pack == 2 {
		c.Frame.Frag = pick(t, "frag", []int{1, 2, 3, 4, 5, 7, 64, 100, 1000})
	}
	c.Frame.Seg = pick(t, "seg", []int{0, 0, 0, 1, 5, 100})
	c.Frame.Ver = sh.Vers

	// ---- hostile deviations
	find := func(kind string) int {
		for i := range f0 {
			if f0[i].Kind == kind {
				return i
			}
		}
		return -1
	}
	nd := pick(t, "ndev", []int{1, 1, 1, 2, 2, 3, 0})
	for d := 0; d < nd; d++ {
		l := fmt.Sprintf("dev%d-", d)
		menu := []string{"sh-vers", "sh-suite", "sh-random", "sh-sid", "sh-comp", "sh-ext", "sh-ext", "sh-ext", "sh-raw", "rec-ver", "tail", "tail", "flight"}
		if !tls13 {
			menu = append(menu, "cert", "cert", "cert", "cert", "status", "skx-params", "skx-params", "skx-params", "skx-params", "skx-sig", "skx-sig", "skx-cut", "skx-cut", "skx-family", "skx-toggle",
				"certreq", "certreq", "done", "flight", "flight")
		}
		switch pick(t, l+"what", menu) {
		case "sh-vers":
			sh.Vers = pick(t, l+"v", []int{0x0300, 0x0301, 0x0302, 0x0303, 0x0304, 0x0305, 0x0002, 0xffff, 0})
		case "sh-suite":
			sh.Suite = pick(t, l+"v", []int{0, 0x00ff, 0x1301, 0x5600, 0xc02f, 0x002f, 0x0032, 0xffff, 0x0033, 0xc009, 0x009e, 0xc02b, 0x0005})
		case "sh-random":
			sh.Random = pick(t, l+"v", []int{1, 2, 3})
		case "sh-sid":
			sh.SessID = pick(t, l+"v", []int{0, 1, 2, 3})
		case "sh-comp":
			sh.Comp = pick(t, l+"v", []int{1, 64, 255})
		case "sh-ext":
			e := genShExt(t, d)
			i := uni(t, l+"pos", len(sh.Exts)+1)
			sh.Exts = append(sh.Exts[:i:i], append([]ExtSpec{e}, sh.Exts[i:]...)...)
			sh.NoExts = false
		case "sh-raw":
			sh.RawBody = genBytes(t, l+"raw", 80)
		case "rec-ver":
			c.Frame.Ver = pick(t, l+"v", []int{0x0301, 0x0300, 0x0303, 0x0304, 0x0505, 0x0002})
		case "cert":
			if i := find("cert"); i >= 0 {
				f0[i] = hostileCertStep(t, l+"cert")
			}
		case "status":
			st := Step{Kind: "status", A: pick(t, l+"k", []int{0, 1, 2}), Data: genBytes(t, l+"d", 30)}
			if i := find("status"); i >= 0 {
				f0[i] = st
			} else if i := find("cert"); i >= 0 {
				f0 = append(f0[:i+1:i+1], append([]Step{st}, f0[i+1:]...)...)
			}
		case "skx-params":
			if i := find("skx"); i >= 0 {
				if f0[i].A == 1 {
					switch uni(t, l+"which", 3) {
					case 0:
						f0[i].B = 1 + uni(t, l+"p", 8)
					case 1:
						f0[i].Type = (f0[i].Type &^ 15) | (1 + uni(t, l+"g", 4))
					default:
						f0[i].Type = (f0[i].Type & 15) | (1+uni(t, l+"y", 5))<<4
					}
				} else {
					switch uni(t, l+"which", 3) {
					case 0:
						f0[i].Type = pick(t, l+"curve", []int{21, 4588, 0, 0xffff, 30, 23, 24, 25, 29})
					case 1:
						f0[i].B = 1 + uni(t, l+"pt", 8)
					default:
						f0[i].Data = []byte{pick(t, l+"ct", []byte{1, 2, 0, 4})}
					}
				}
			}
		case "skx-sig":
			if i := find("skx"); i >= 0 {
				if rapid.Bool().Draw(t, l+"alg") {
					f0[i].C = pick(t, l+"scheme", sigSchemes)
				} else {
					f0[i].D = 1 + uni(t, l+"mode", 8)
				}
			}
		case "skx-cut":
			// the message ends inside or right after the (expected, acceptable) algorithm identifier
			if i := find("skx"); i >= 0 {
				f0[i].D = 6 + uni(t, l+"cut", 3)
			}
		case "skx-family":
			if i := find("skx"); i >= 0 {
				f0[i].A = pick(t, l+"fam", []int{0, 1, 2})
				if f0[i].A == 2 {
					f0[i].Data = genBytes(t, l+"raw", 300)
				} else if f0[i].A == 0 && f0[i].Type == 0 {
					f0[i].Type = 29
				}
			}
		case "skx-toggle":
			if i := find("skx"); i >= 0 {
				f0 = append(f0[:i:i], f0[i+1:]...)
			} else if i := find("done"); i >= 0 {
				f0 = append(f0[:i:i], append([]Step{benignSKX(t, pick(t, l+"as", []int{0xc02f, 0x009e}), c.Cfg.Key)}, f0[i:]...)...)
			}
		case "certreq":
			cr := Step{Kind: "certreq", A: pick(t, l+"types", []int{0, 1, 2}), B: pick(t, l+"algs", []int{0, 1, 2, 3, 4}), C: pick(t, l+"cas", []int{0, 1, 2, 3}), Data: genBytes(t, l+"data", 6)}
			if i := find("certreq"); i >= 0 {
				f0[i] = cr
			} else if i := find("done"); i >= 0 {
				f0 = append(f0[:i:i], append([]Step{cr}, f0[i:]...)...)
			}
		case "done":
			if i := find("done"); i >= 0 {
				if rapid.Bool().Draw(t, l+"drop") {
					f0 = append(f0[:i:i], f0[i+1:]...)
				} else {
					f0[i].Data = genBytes(t, l+"body", 4)
				}
			}
		case "flight":
			if len(f0) == 0 {
				f0 = append(f0, genHostileStep(t, l+"only"))
				break
			}
			switch uni(t, l+"mut", 4) {
			case 0:
				if len(f0) > 1 {
					i := uni(t, l+"swap", len(f0)-1)
					f0[i], f0[i+1] = f0[i+1], f0[i]
				}
			case 1:
				i := uni(t, l+"dup", len(f0))
				f0 = append(f0[:i+1:i+1], f0[i:]...)
			case 2:
				i := uni(t, l+"del", len(f0))
				f0 = append(f0[:i:i], f0[i+1:]...)
			default:
				i := uni(t, l+"ins", len(f0)+1)
				f0 = append(f0[:i:i], append([]Step{genHostileStep(t, l+"ins")}, f0[i:]...)...)
			}
		case "tail":
			switch uni(t, l+"tail", 5) {
			case 0:
				f1 = append([]Step{{Kind: "nst", A: uni(t, l+"a", 256), B: uni(t, l+"b", 256), Data: rapid.OneOf(rapid.Just([]byte(nil)), rapid.SliceOfN(rapid.Byte(), 1, 40)).Draw(t, l+"ticket")}}, f1...)
			case 1:
				for i := range f1 {
					if f1[i].Kind == "ccs" {
						f1[i].Data = pick(t, l+"ccs", [][]byte{{2}, {1, 1}, {0}})
					}
				}
			case 2:
				for i := range f1 {
					if f1[i].Kind == "ccs" {
						f1 = append(f1[:i:i], f1[i+1:]...)
						break
					}
				}
			case 3:
				i := uni(t, l+"pos", len(f1)+1)
				f1 = append(f1[:i:i], append([]Step{genHostileStep(t, l+"x")}, f1[i:]...)...)
			default:
				for i := range f1 {
					if f1[i].Kind == "finished" {
						f1[i].Data = genBytes(t, l+"fin", 40)
					}
				}
			}
		}
	}
	c.Flights = [][]Step{f0}
	if len(f1) > 0 {
		c.Flights = append(c.Flights, f1)
	}
	if oneIn(t, "f2", 4) {
		c.Flights = append(c.Flights, []Step{genHostileStep(t, "f2a"), genHostileStep(t, "f2b")})
	}
	return c
}

const srvRule = "a hand-written scripted server answers a real zcrypto client (configurations as in 'faults', offering all implemented suites, optional client certificate, permissive parsing, DSA-enabled signature lists, optionally a primed session cache) with a generated ServerHello (version/suite/session-id/compression/extension variants incl. TLS 1.3 supported_versions, key_share, HelloRetryRequest, cookies, downgrade canaries), Certificate (genuine, empty, garbage or carrying a hostile key), CertificateStatus, ServerKeyExchange (ECDHE: valid/zero/short/empty/off-curve/compressed/infinity/over-long points on known and unknown groups; DHE: p in {RFC 5114, 0, 1, 2, 4, 23, even, 8192-bit, 65537}, g in {2, 0, 1, p-1, >p}, Ys in {valid, 0, 1, p-1, p, >p}; signature genuinely valid for the presented key, garbage, empty, absent, with a lying length, or cut off inside or right after the algorithm identifier or inside the length field, under expected and unexpected schemes), CertificateRequest, ServerHelloDone, then NewSessionTicket/ChangeCipherSpec/Finished garbage and arbitrary records, with duplicated/omitted/reordered/inserted messages, coalesced or fragmented (1-1000 byte records) and segmented at the transport. Non-trivial: the client consumed >= 1 full handshake message (its log contains the ServerHello)"

func TestPropScriptedServer(t *testing.T) {
	_ = keys.All
	kit.Run(t, kit.Spec[SrvCase]{ID: "C32", Name: "scripted-server", Rule: srvRule, Gen: genSrvCase, Check: checkSrvScript,
		Quick: 700, Thorough: 6000, Assumptions: commonAssumptions})
}
