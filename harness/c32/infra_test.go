package c32

// Shared machinery of the C32 checks: deterministic randomness for the
// endpoints, a byte-counting transport wrapper that makes "the endpoint is
// waiting for input it will never get" observable without timers, the guarded
// endpoint runner (the oracle), configuration building and wire helpers.

import (
	"crypto/sha256"
	"encoding/binary"
	"encoding/json"
	"fmt"
	"math/bits"
	"net"
	"runtime"
	"strings"
	"sync"
	"sync/atomic"
	"time"

	"github.com/zmap/zcrypto/encoding/asn1"
	"github.com/zmap/zcrypto/tls"
	"pgregory.net/rapid"
	"verifharness/keys"
	"verifharness/kit"
	"verifharness/tlskit"
)

// ---------------------------------------------------------------------------
// deterministic randomness handed to tls.Config.Rand (so that a replayed case
// produces the same hellos and key shares; only Go's MaybeReadByte jitter and
// the scheduler remain outside the case)

type drbg struct {
	mu  sync.Mutex
	key [32]byte
	ctr uint64
	buf []byte
}

func newDRBG(seed uint64, label string) *drbg {
	d := &drbg{}
	var s [8]byte
	binary.BigEndian.PutUint64(s[:], seed)
	d.key = sha256.Sum256(append(s[:], label...))
	return d
}

func (d *drbg) Read(p []byte) (int, error) {
	d.mu.Lock()
	defer d.mu.Unlock()
	n := len(p)
	for len(p) > 0 {
		if len(d.buf) == 0 {
			var c [8]byte
			binary.BigEndian.PutUint64(c[:], d.ctr)
			d.ctr++
			h := sha256.Sum256(append(d.key[:], c[:]...))
			d.buf = h[:]
		}
		k := copy(p, d.buf)
		p = p[k:]
		d.buf = d.buf[k:]
	}
	return n, nil
}

// ---------------------------------------------------------------------------
// countConn wraps the transport end given to the endpoint under test.

type countConn struct {
	net.Conn
	mu      sync.Mutex
	rd, wr  int64 // bytes the endpoint has read / written so far
	waiting bool  // endpoint is inside transport Read
	notify  chan struct{}
}

func newCountConn(c net.Conn, notify chan struct{}) *countConn {
	return &countConn{Conn: c, notify: notify}
}

func (c *countConn) ping() {
	select {
	case c.notify <- struct{}{}:
	default:
	}
}

func (c *countConn) Read(b []byte) (int, error) {
	c.mu.Lock()
	c.waiting = true
	c.mu.Unlock()
	c.ping()
	n, err := c.Conn.Read(b)
	c.mu.Lock()
	c.waiting = false
	c.rd += int64(n)
	c.mu.Unlock()
	return n, err
}

func (c *countConn) Write(b []byte) (int, error) {
	n, err := c.Conn.Write(b)
	c.mu.Lock()
	c.wr += int64(n)
	c.mu.Unlock()
	c.ping()
	return n, err
}

func (c *countConn) snap() (rd, wr int64, waiting bool) {
	c.mu.Lock()
	defer c.mu.Unlock()
	return c.rd, c.wr, c.waiting
}

// ---------------------------------------------------------------------------
// endpoint runner = the oracle's observation point

type panicRec struct {
	Op    string
	Site  string
	Val   string
	Stack string
}

// endpoint drives one real zcrypto tls.Conn in a goroutine owned by the check.
type endpoint struct {
	role   string // "client" | "server"
	conn   *tls.Conn
	cc     *countConn
	send   []byte            // application data written after a successful handshake
	reads  int               // maximum number of Read calls in the data phase
	want   int               // client: bytes expected back
	echo   bool              // server style: read first, then write
	after  func(e *endpoint) // replaces the default data phase when set
	notify chan struct{}

	done     chan struct{}
	op       atomic.Value // name of the call in progress
	mu       sync.Mutex
	panics   []panicRec
	hsErr    error
	hsOK     bool
	gotData  int
	dataErr  error // first error of the data phase
	logJSON  int   // length of the marshalled handshake log
	consumed int   // handshake messages of the peer present in the log
}

func (e *endpoint) call(name string, fn func()) bool {
	e.op.Store(name)
	g := kit.GuardInline(fn)
	if g.Panicked {
		e.mu.Lock()
		e.panics = append(e.panics, panicRec{Op: name, Site: g.Site, Val: fmt.Sprint(g.PanicVal), Stack: g.Stack})
		e.mu.Unlock()
		return false
	}
	return true
}

// run executes Handshake, an optional data phase, Close, calls after Close,
// ConnectionState and the handshake log + JSON; every call is recovered.
func (e *endpoint) run() {
	defer func() {
		e.op.Store("finished")
		close(e.done)
		select {
		case e.notify <- struct{}{}:
		default:
		}
	}()
	ok := e.call("Handshake", func() {
		err := e.conn.Handshake()
		e.mu.Lock()
		e.hsErr, e.hsOK = err, err == nil
		e.mu.Unlock()
	})
	if ok && e.hsOK && e.after != nil {
		e.after(e)
	} else if ok && e.hsOK {
		buf := make([]byte, 4096)
		readSome := func() bool {
			alive := true
			e.call("Read", func() {
				n, err := e.conn.Read(buf)
				e.mu.Lock()
				e.gotData += n
				e.mu.Unlock()
				if err != nil {
					alive = false
					e.mu.Lock()
					if e.dataErr == nil {
						e.dataErr = err
					}
					e.mu.Unlock()
				}
			})
			return alive
		}
		writeAll := func() bool {
			alive := true
			if len(e.send) == 0 {
				return true
			}
			e.call("Write", func() {
				if _, err := e.conn.Write(e.send); err != nil {
					alive = false
				}
			})
			return alive
		}
		alive := true
		if e.echo {
			alive = readSome()
			if alive {
				alive = writeAll()
			}
		} else {
			alive = writeAll()
		}
		for i := 0; alive && i < e.reads; i++ {
			if !e.echo {
				// the client stops once the echo has arrived; the server reads until EOF
				e.mu.Lock()
				enough := e.gotData >= e.want
				e.mu.Unlock()
				if enough {
					break
				}
			}
			alive = readSome()
		}
	}
	e.call("Close", func() { e.conn.Close() })
	e.call("Read-after-Close", func() { e.conn.Read(make([]byte, 16)) })
	e.call("Write-after-Close", func() { e.conn.Write([]byte("x")) })
	e.call("Close-again", func() { e.conn.Close() })
	e.call("ConnectionState", func() { _ = e.conn.ConnectionState() })
	e.call("GetHandshakeLog+json.Marshal", func() {
		l := e.conn.GetHandshakeLog()
		b, err := json.Marshal(l)
		_ = err // an error value is a result, not a violation
		n := 0
		if l != nil {
			if e.role == "client" {
				for _, present := range []bool{l.ServerHello != nil, l.ServerCertificates != nil, l.ServerKeyExchange != nil, l.ServerFinished != nil} {
					if present {
						n++
					}
				}
			} else {
				for _, present := range []bool{l.ClientHello != nil, l.ClientKeyExchange != nil, l.ClientFinished != nil} {
					if present {
						n++
					}
				}
			}
		}
		e.mu.Lock()
		e.logJSON = len(b)
		e.consumed = n
		e.mu.Unlock()
	})
}

func newEndpoint(role string, raw net.Conn, cfg *tls.Config, notify chan struct{}) *endpoint {
	e := &endpoint{role: role, notify: notify, done: make(chan struct{}), reads: 40}
	e.cc = newCountConn(raw, notify)
	if role == "client" {
		e.conn = tls.Client(e.cc, cfg)
	} else {
		e.conn = tls.Server(e.cc, cfg)
		e.echo = true
	}
	e.op.Store("not started")
	return e
}

func (e *endpoint) isDone() bool {
	select {
	case <-e.done:
		return true
	default:
		return false
	}
}

func timeAfter() <-chan time.Time { return time.After(kit.WatchdogSeconds()) }

// dbgEndpoint is a development hook (nil in the checks).
var dbgEndpoint func(*endpoint)

// shortSite turns "github.com/zmap/zcrypto/tls.verifyHandshakeSignature" into
// "tls.verifyHandshakeSignature".
func shortSite(s string) string {
	s = strings.TrimPrefix(s, "github.com/zmap/zcrypto/")
	return s
}

// judge reports the recovered panics of the endpoints (violations) and
// returns after classifying the outcome.
func judge(r *kit.R, what string, eps ...*endpoint) {
	for _, e := range eps {
		e.mu.Lock()
		ps := append([]panicRec(nil), e.panics...)
		e.mu.Unlock()
		// report an unknown panic in preference to a known one
		var known *panicRec
		for i := range ps {
			key := "C32:panic:" + shortSite(ps[i].Site)
			if kit.IsKnown(key) {
				if known == nil {
					known = &ps[i]
				}
				continue
			}
			r.Failf(key, "%s: %s endpoint panicked in %s: %s\n%s", what, e.role, ps[i].Op, ps[i].Val, ps[i].Stack)
		}
		if known != nil {
			r.Failf("C32:panic:"+shortSite(known.Site), "%s: %s endpoint panicked in %s: %s", what, e.role, known.Op, known.Val)
		}
	}
}

// awaitDone waits (watchdog) for the endpoints to finish after the transport
// has been closed; a goroutine still inside a call is the "blocks after the
// transport is closed" violation.
func awaitDone(r *kit.R, what string, eps ...*endpoint) {
	limit := time.NewTimer(kit.WatchdogSeconds())
	defer limit.Stop()
	for _, e := range eps {
		select {
		case <-e.done:
		case <-limit.C:
			op, _ := e.op.Load().(string)
			buf := make([]byte, 1<<16)
			buf = buf[:runtime.Stack(buf, true)]
			r.Failf("C32:timeout:"+e.role+":"+op, "%s: %s endpoint still inside %s %v after the transport was closed\n%s", what, e.role, op, kit.WatchdogSeconds(), buf)
		}
	}
}

// ---------------------------------------------------------------------------
// configuration

// Cfg is the JSON description of both endpoint configurations of a case.
type Cfg struct {
	MinVer     uint16   `json:"min,omitempty"`
	MaxVer     uint16   `json:"max,omitempty"`
	Key        string   `json:"key"`              // server key (pool name)
	Suites     []uint16 `json:"suites,omitempty"` // nil: defaults
	Force      bool     `json:"force,omitempty"`  // client ForceSuites
	ClientAuth int      `json:"client_auth,omitempty"`
	ClientKey  string   `json:"client_key,omitempty"` // client certificate key, "" none
	SkipVerify bool     `json:"skip_verify,omitempty"`
	Tickets    bool     `json:"tickets,omitempty"`
	Reneg      int      `json:"reneg,omitempty"`
	DSA        bool     `json:"dsa,omitempty"`
	ALPN       bool     `json:"alpn,omitempty"`
	PreferSrv  bool     `json:"prefer_server,omitempty"`
	NoDynRec   bool     `json:"no_dyn_rec,omitempty"`
	Curves     []uint16 `json:"curves,omitempty"`
	SCT        bool     `json:"sct,omitempty"`
	ExtRandom  bool     `json:"ext_random,omitempty"`
	EMS        bool     `json:"ems,omitempty"`
	Heartbeat  bool     `json:"heartbeat,omitempty"`
	Permissive bool     `json:"permissive,omitempty"` // asn1.AllowPermissiveParsing while the case runs
	Seed       uint64   `json:"seed"`
}

const serverName = "example.test"

func curveIDs(v []uint16) []tls.CurveID {
	var r []tls.CurveID
	for _, c := range v {
		r = append(r, tls.CurveID(c))
	}
	return r
}

func keyOr(name, def string) *keys.Key {
	if k := keys.ByName(name); k != nil {
		return k
	}
	return keys.ByName(def)
}

func (c Cfg) clientConfig() *tls.Config {
	id := tlskit.NewIdentity(keyOr(c.Key, "rsa2048-p2-1"), serverName)
	cfg := &tls.Config{Time: tlskit.Now, Rand: newDRBG(c.Seed, "client"), RootCAs: id.Roots, ServerName: serverName,
		MinVersion: c.MinVer, MaxVersion: c.MaxVer, CipherSuites: c.Suites, ForceSuites: c.Force,
		InsecureSkipVerify: c.SkipVerify, Renegotiation: tls.RenegotiationSupport(c.Reneg), ClientDSAEnabled: c.DSA,
		DynamicRecordSizingDisabled: c.NoDynRec, CurvePreferences: curveIDs(c.Curves),
		SignedCertificateTimestampExt: c.SCT, ExtendedRandom: c.ExtRandom, ExtendedMasterSecret: c.EMS, HeartbeatEnabled: c.Heartbeat}
	if c.ALPN {
		cfg.NextProtos = []string{"h2", "http/1.1"}
	}
	if c.ClientKey != "" {
		cid := tlskit.NewIdentity(keyOr(c.ClientKey, "ecP-256-0"), "client.test")
		cfg.Certificates = []tls.Certificate{cid.Cert}
	}
	if c.Tickets {
		cfg.ClientSessionCache = tls.NewLRUClientSessionCache(4)
	}
	return cfg
}

func (c Cfg) serverConfig() *tls.Config {
	id := tlskit.NewIdentity(keyOr(c.Key, "rsa2048-p2-1"), serverName)
	cfg := &tls.Config{Time: tlskit.Now, Rand: newDRBG(c.Seed, "server"), Certificates: []tls.Certificate{id.Cert},
		MinVersion: c.MinVer, MaxVersion: c.MaxVer, CipherSuites: c.Suites, ClientAuth: tls.ClientAuthType(c.ClientAuth),
		SessionTicketsDisabled: !c.Tickets, PreferServerCipherSuites: c.PreferSrv,
		DynamicRecordSizingDisabled: c.NoDynRec, CurvePreferences: curveIDs(c.Curves)}
	for i := range cfg.SessionTicketKey {
		cfg.SessionTicketKey[i] = byte(i + 1)
	}
	if c.ALPN {
		cfg.NextProtos = []string{"http/1.1", "h2"}
	}
	if c.ClientAuth != 0 {
		cid := tlskit.NewIdentity(keyOr(c.ClientKey, "ecP-256-0"), "client.test")
		cfg.ClientCAs = cid.Roots
	}
	return cfg
}

// permissive sets zcrypto's global ASN.1 leniency switch for one case.  Cases
// run sequentially inside a shard process, so the switch cannot leak into a
// concurrently running case; it is restored on return.
var permMu sync.Mutex

func withPermissive(on bool, fn func()) {
	permMu.Lock()
	defer permMu.Unlock()
	old := asn1.AllowPermissiveParsing
	asn1.AllowPermissiveParsing = on
	defer func() { asn1.AllowPermissiveParsing = old }()
	fn()
}

// ---------------------------------------------------------------------------
// unbiased draws.  rapid's integer and SampledFrom generators favour small
// values and range bounds, which would make every "one case in n" deviation far
// more frequent than intended and the generated peers uniformly broken; fair
// coin flips (rapid.Bool) are combined instead.  Index 0 is always the benign
// choice, so shrinking moves towards well-formed behaviour.

func uni(t *rapid.T, label string, n int) int {
	if n <= 1 {
		return 0
	}
	k := bits.Len(uint(n - 1))
	for try := 0; try < 16; try++ {
		v := 0
		for i := 0; i < k; i++ {
			if rapid.Bool().Draw(t, label) {
				v |= 1 << i
			}
		}
		if v < n {
			return v
		}
	}
	return 0
}

// oneIn is true in one case out of n.
func oneIn(t *rapid.T, label string, n int) bool { return uni(t, label, n) == n-1 }

func pick[T any](t *rapid.T, label string, xs []T) T { return xs[uni(t, label, len(xs))] }

// ---------------------------------------------------------------------------
// TLS wire helpers (independent of zcrypto's marshalling code)

func u16(v int) []byte { return []byte{byte(v >> 8), byte(v)} }
func u24(v int) []byte { return []byte{byte(v >> 16), byte(v >> 8), byte(v)} }
func cat(bs ...[]byte) []byte {
	var r []byte
	for _, b := range bs {
		r = append(r, b...)
	}
	return r
}
func vec8(b []byte) []byte  { return cat([]byte{byte(len(b))}, b) }
func vec16(b []byte) []byte { return cat(u16(len(b)), b) }
func vec24(b []byte) []byte { return cat(u24(len(b)), b) }

// hsMsg frames a handshake message.
func hsMsg(typ byte, body []byte) []byte { return cat([]byte{typ}, u24(len(body)), body) }

// record frames one TLS record (body is not split).
func record(typ byte, ver uint16, body []byte) []byte {
	return cat([]byte{typ, byte(ver >> 8), byte(ver)}, u16(len(body)), body)
}

// records splits data into records of at most frag bytes (frag <= 0: 16384).
func records(typ byte, ver uint16, data []byte, frag int) []byte {
	if frag <= 0 || frag > 16384 {
		frag = 16384
	}
	var out []byte
	if len(data) == 0 {
		return record(typ, ver, nil)
	}
	for len(data) > 0 {
		n := len(data)
		if n > frag {
			n = frag
		}
		out = append(out, record(typ, ver, data[:n])...)
		data = data[n:]
	}
	return out
}

func ext(typ int, data []byte) []byte { return cat(u16(typ), vec16(data)) }

const (
	recCCS       = 20
	recAlert     = 21
	recHandshake = 22
	recAppData   = 23

	hsHelloRequest       = 0
	hsClientHello        = 1
	hsServerHello        = 2
	hsNewSessionTicket   = 4
	hsEndOfEarlyData     = 5
	hsEncryptedExts      = 8
	hsCertificate        = 11
	hsServerKeyExchange  = 12
	hsCertificateRequest = 13
	hsServerHelloDone    = 14
	hsCertificateVerify  = 15
	hsClientKeyExchange  = 16
	hsFinished           = 20
	hsCertificateStatus  = 22
	hsKeyUpdate          = 24
)

// splitHandshake reassembles the handshake messages contained in plaintext
// handshake records of a byte stream (stops at the first non-handshake record
// or at malformed framing).  Returns complete messages (with 4-byte headers).
func splitHandshake(stream []byte) [][]byte {
	var hs []byte
	for len(stream) >= 5 {
		n := int(stream[3])<<8 | int(stream[4])
		if len(stream) < 5+n {
			break
		}
		if stream[0] != recHandshake {
			break
		}
		hs = append(hs, stream[5:5+n]...)
		stream = stream[5+n:]
	}
	var msgs [][]byte
	for len(hs) >= 4 {
		n := int(hs[1])<<16 | int(hs[2])<<8 | int(hs[3])
		if len(hs) < 4+n {
			break
		}
		msgs = append(msgs, hs[:4+n])
		hs = hs[4+n:]
	}
	return msgs
}
