package c32

import (
	"fmt"
	"testing"

	"pgregory.net/rapid"
	"verifharness/kit"
)

func TestSanityCfg(t *testing.T) {
	bad := map[string]int{}
	n := 0
	rapid.Check(t, func(rt *rapid.T) {
		c := FaultCase{Cfg: genCfg(rt), App: 10}
		r := &kit.R{}
		func() {
			defer func() { recover() }()
			checkFaultDbg(c, r, func(cli, srv *endpoint) {
				n++
				if !cli.hsOK || !srv.hsOK {
					bad[fmt.Sprintf("key=%s max=%x suites=%x ca=%d ck=%s: %v | %v", c.Cfg.Key, c.Cfg.MaxVer, c.Cfg.Suites, c.Cfg.ClientAuth, c.Cfg.ClientKey, cli.hsErr, srv.hsErr)]++
				}
			})
		}()
	})
	for k, v := range bad {
		t.Logf("%d %s", v, k)
	}
	t.Logf("total %d", n)
}
