package c26

// Exporter on a live connection, called several times.  ConnectionState keeps ONE
// exporter closure per connection, so "returns the bytes defined by RFC 5705 /
// RFC 8446 section 7.5 for all inputs" also has to hold for the second and
// later calls and on both peers.  The function-level sub-checks build a fresh
// exporter for every call and cannot see state kept between calls.
//
// Oracle: (1) the value is a function of (label, context, length) only - the
// same arguments give the same bytes at any position of the call history and on
// either peer; (2) TLS 1.0-1.2: every value equals the harness' own RFC 5705
// transcription, computed from the master secret taken from the key log and the
// hello randoms; (3) different (label, context) give different values (>= 16
// bytes): the context is not ignored.  In TLS 1.3 an absent and an empty context
// are the same input (RFC 8446 section 7.5), below they are not (RFC 5705 section 4).

import (
	"bytes"
	"encoding/hex"
	"fmt"
	"strings"
	"sync"
	"testing"
	"time"

	"github.com/zmap/zcrypto/tls"
	"pgregory.net/rapid"
	"verifharness/kit"
	"verifharness/tlsgen"
	"verifharness/tlskit"
)

type ExpCall struct {
	Server  bool   `json:"server"`
	Label   string `json:"label"`
	HasCtx  bool   `json:"has_ctx"`
	Context []byte `json:"context"`
	Len     int    `json:"len"`
}

type HistCase struct {
	Version uint16    `json:"version"`
	Suite   uint16    `json:"suite"`
	Seed    uint64    `json:"seed"`
	Calls   []ExpCall `json:"calls"`
}

type keyLog struct {
	mu sync.Mutex
	b  bytes.Buffer
}

func (k *keyLog) Write(p []byte) (int, error) {
	k.mu.Lock()
	defer k.mu.Unlock()
	return k.b.Write(p)
}

// master returns the TLS <= 1.2 master secret logged for the client random.
func (k *keyLog) master(cr []byte) []byte {
	k.mu.Lock()
	defer k.mu.Unlock()
	for _, line := range strings.Split(k.b.String(), "\n") {
		f := strings.Fields(line)
		if len(f) == 3 && f[0] == "CLIENT_RANDOM" && f[1] == hex.EncodeToString(cr) {
			m, err := hex.DecodeString(f[2])
			if err == nil {
				return m
			}
		}
	}
	return nil
}

var histSuites = map[uint16][]uint16{
	0x0301: {tls.TLS_RSA_WITH_AES_128_CBC_SHA, tls.TLS_ECDHE_RSA_WITH_AES_256_CBC_SHA, tls.TLS_RSA_WITH_3DES_EDE_CBC_SHA},
	0x0302: {tls.TLS_RSA_WITH_AES_128_CBC_SHA, tls.TLS_ECDHE_RSA_WITH_AES_128_CBC_SHA},
	0x0303: {tls.TLS_ECDHE_RSA_WITH_AES_128_GCM_SHA256, tls.TLS_ECDHE_RSA_WITH_AES_256_GCM_SHA384, tls.TLS_RSA_WITH_AES_128_CBC_SHA, tls.TLS_ECDHE_RSA_WITH_CHACHA20_POLY1305_SHA256, tls.TLS_RSA_WITH_AES_256_GCM_SHA384},
	0x0304: {tls.TLS_AES_128_GCM_SHA256, tls.TLS_AES_256_GCM_SHA384, tls.TLS_CHACHA20_POLY1305_SHA256},
}

const histKey = "rsa2048-p2-1"

func histCheck(c HistCase, r *kit.R) {
	const limit = 20 * time.Second
	kl := &keyLog{}
	cl := tlsgen.Client{}
	cl.MinVersion, cl.MaxVersion, cl.Suites = c.Version, c.Version, []uint16{c.Suite}
	sv := tlsgen.Server{Key: histKey}
	sv.MinVersion, sv.MaxVersion = c.Version, c.Version
	if c.Version != 0x0304 {
		sv.Suites = []uint16{c.Suite}
	}
	cc, sc := cl.Config(tlsgen.Identity(histKey).Roots), sv.Config()
	cc.Time, sc.Time = tlskit.Now, tlskit.Now
	cc.Rand, sc.Rand = tlsgen.NewRand(c.Seed, 1), tlsgen.NewRand(c.Seed, 2)
	cc.KeyLogWriter = kl
	p := tlskit.NewProxy(nil)
	client, server := tls.Client(p.Client, cc), tls.Server(p.Server, sc)
	defer func() {
		client.Close()
		server.Close()
		w := make(chan struct{})
		go func() { p.Wait(); close(w) }()
		select {
		case <-w:
		case <-time.After(limit):
		}
	}()
	res := tlskit.Handshake(client, server, limit)
	if res.TimedOut {
		r.Failf("timeout:handshake", "handshake did not finish within %v", limit)
	}
	if res.ClientErr != nil || res.ServerErr != nil {
		// the configurations share version, suite and a trusted identity: interoperability is C24's
		// subject, here it is only the vehicle
		r.Class(fmt.Sprintf("handshake-failed v=%04x suite=%04x", c.Version, c.Suite))
		r.Skip()
	}
	cs, ss := client.ConnectionState(), server.ConnectionState()
	if cs.Version != c.Version || cs.CipherSuite != c.Suite {
		r.Class("negotiated-something-else")
		r.Skip()
	}
	r.Class(fmt.Sprintf("v=%04x", c.Version))
	var master, crand, srand []byte
	if c.Version != 0x0304 {
		hl := client.GetHandshakeLog()
		if hl != nil && hl.ClientHello != nil && hl.ServerHello != nil {
			crand, srand = hl.ClientHello.Random, hl.ServerHello.Random
			master = kl.master(crand)
		}
		if master == nil {
			r.Class("no-master-secret-in-keylog")
		} else {
			r.Class("rfc5705-oracle-available")
		}
	}
	type seen struct {
		val  []byte
		call int
	}
	byArgs := map[string]seen{}
	byInput := map[string]seen{} // (label, context) -> first value of >= 16 bytes
	sides := [2]int{}
	for i, call := range c.Calls {
		st, who := &cs, "client"
		if call.Server {
			st, who = &ss, "server"
			sides[1]++
		} else {
			sides[0]++
		}
		var ctx []byte
		if call.HasCtx {
			ctx = append([]byte{}, call.Context...)
		}
		got, err := st.ExportKeyingMaterial(call.Label, ctx, call.Len)
		if err != nil {
			r.Failf("C26:exporter-conn:error", "call %d (%s): ExportKeyingMaterial(%q, %x, %d) returned %v", i, who, call.Label, ctx, call.Len, err)
		}
		if len(got) != call.Len {
			r.Failf("C26:exporter-conn:length", "call %d (%s): %d bytes returned, %d requested", i, who, len(got), call.Len)
		}
		ctxKey := "absent"
		if call.HasCtx || c.Version == 0x0304 {
			ctxKey = "ctx:" + hex.EncodeToString(ctx)
		}
		in := call.Label + "|" + ctxKey
		args := fmt.Sprintf("%s|%d", in, call.Len)
		if prev, ok := byArgs[args]; ok {
			r.Class("repeated-arguments")
			if !bytes.Equal(prev.val, got) {
				r.Failf("C26:exporter-conn:history", "call %d (%s) ExportKeyingMaterial(%q, ctx %s, %d) = %x but call %d with the same arguments on the same connection gave %x: the value depends on the call history or on the peer", i, who, call.Label, ctxKey, call.Len, got, prev.call, prev.val)
			}
		} else {
			byArgs[args] = seen{got, i}
		}
		if master != nil {
			want, oerr := oEKM(c.Version, c.Suite, master, crand, srand, call.Label, ctx, call.HasCtx, call.Len)
			if oerr == nil && !bytes.Equal(want, got) {
				r.Failf("C26:exporter-conn:rfc5705", "call %d (%s) ExportKeyingMaterial(%q, ctx %s, %d) = %x, RFC 5705 with the connection's master secret gives %x", i, who, call.Label, ctxKey, call.Len, got, want)
			}
		}
		if call.Len >= 16 {
			for k, prev := range byInput {
				if k != in && bytes.Equal(prev.val[:16], got[:16]) {
					r.Failf("C26:exporter-conn:collision", "call %d (%s): inputs %q and %q export the same leading bytes %x", i, who, in, k, got[:16])
				}
			}
			if _, ok := byInput[in]; !ok {
				byInput[in] = seen{got, i}
			}
		}
	}
	if sides[0] > 0 && sides[1] > 0 {
		r.Class("both-peers")
	}
	if len(c.Calls) >= 2 {
		r.NonTrivial()
	}
}

func histGen(t *rapid.T) HistCase {
	c := HistCase{Seed: rapid.Uint64().Draw(t, "seed")}
	c.Version = rapid.SampledFrom([]uint16{0x0304, 0x0304, 0x0303, 0x0303, 0x0302, 0x0301}).Draw(t, "version")
	c.Suite = rapid.SampledFrom(histSuites[c.Version]).Draw(t, "suite")
	labels := []string{"EXPORTER-verif-a", "EXPORTER-verif-b", "EXPERIMENTAL c26"}
	ctxs := [][]byte{{}, {0}, []byte("ctx"), []byte("ctx2"), bytes.Repeat([]byte{0xa5}, 70)}
	n := rapid.IntRange(2, 6).Draw(t, "ncalls")
	for i := 0; i < n; i++ {
		var call ExpCall
		if i > 0 && rapid.IntRange(0, 2).Draw(t, "repeat") == 0 {
			// same arguments as an earlier call, possibly on the other peer
			call = c.Calls[rapid.IntRange(0, i-1).Draw(t, "of")]
			call.Server = rapid.Bool().Draw(t, "server")
		} else {
			call.Server = rapid.Bool().Draw(t, "server")
			call.Label = rapid.SampledFrom(labels).Draw(t, "label")
			call.HasCtx = rapid.IntRange(0, 3).Draw(t, "hasctx") != 0
			if call.HasCtx {
				call.Context = rapid.SampledFrom(ctxs).Draw(t, "ctx")
			}
			call.Len = rapid.SampledFrom([]int{32, 32, 16, 20, 48, 64, 1, 0, 33, 100}).Draw(t, "len")
		}
		c.Calls = append(c.Calls, call)
	}
	return c
}

func TestPropExporterHistory(t *testing.T) {
	kit.Run(t, kit.Spec[HistCase]{ID: "C26", Name: "exporter-history", Gen: histGen, Check: histCheck, Quick: 400, Thorough: 8000,
		Rule: "a genuine handshake at TLS 1.0-1.3 (suites of every PRF/hash family, RSA identity), then 2-6 ConnectionState.ExportKeyingMaterial calls spread over both peers (3 labels; context absent, empty or one of 4 values; lengths 0-100; one call in three repeats the arguments of an earlier call, possibly on the other peer). Equal arguments must give equal bytes at any position of the history and on either peer; below TLS 1.3 every value must equal the harness' RFC 5705 transcription under the master secret read from the key log; different (label, context) inputs must not export the same leading 16 bytes. Non-trivial: at least two calls on a completed handshake; distinct by case hash",
		Assumptions: []string{
			"TLS 1.3 values are checked for history/peer independence and input separation only (the exporter master secret is not observable without a hook; the formula itself is decided by sub-check tls13)",
			"the master secret of TLS <= 1.2 connections is read from Config.KeyLogWriter (CLIENT_RANDOM line) and the randoms from the client's handshake log",
		}})
}
