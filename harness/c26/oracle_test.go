package c26

import (
	"bytes"
	stdhkdf "crypto/hkdf"
	"crypto/sha256"
	"crypto/sha512"
	"encoding/hex"
	"strings"
	"testing"
)

// Self-test of the RFC transcription against published vectors (not part of
// the property run; `go test -tags verif -run TestOracle ./c26`).

func unhex(s string) []byte {
	s = strings.Join(strings.Fields(s), "")
	b, err := hex.DecodeString(s)
	if err != nil {
		panic(err)
	}
	return b
}

func TestOracleVectors(t *testing.T) {
	// RFC 5869 A.1
	ikm := bytes.Repeat([]byte{0x0b}, 22)
	salt := unhex("000102030405060708090a0b0c")
	info := unhex("f0f1f2f3f4f5f6f7f8f9")
	prk := oHKDFExtract("sha256", salt, ikm)
	if hex.EncodeToString(prk) != "077709362c2e32df0ddc3f0dc47bba6390b6c73bb50f9c3122ec844ad7c2b3e5" {
		t.Errorf("RFC 5869 A.1 PRK: %x", prk)
	}
	okm := oHKDFExpand("sha256", prk, info, 42)
	if hex.EncodeToString(okm) != "3cb25f25faacd57a90434f64d0362f2a2d2d0a90cf1a5a4c5db02d56ecc4c5bf34007208d5b887185865" {
		t.Errorf("RFC 5869 A.1 OKM: %x", okm)
	}
	// RFC 8448 section 3 (simple 1-RTT handshake)
	early := oExtract13("sha256", nil, nil)
	if hex.EncodeToString(early) != "33ad0a1c607ec03b09e6cd9893680ce210adf300aa1f2660e1b22e10f170f92a" {
		t.Errorf("RFC 8448 early secret: %x", early)
	}
	derived := oDeriveSecret("sha256", early, []byte("derived"), nil)
	if hex.EncodeToString(derived) != "6f2615a108c702c5678f54fc9dbab69716c076189c48250cebeac3576c3611ba" {
		t.Errorf("RFC 8448 derived: %x", derived)
	}
	hsSecret := oExtract13("sha256", unhex("8bd4054fb55b9d63fdfbacf9f04b9f0d35e6d63f537563efd46272900f89492d"), derived)
	if hex.EncodeToString(hsSecret) != "1dc826e93606aa6fdc0aadc12f741b01046aa6b99f691ed221a9f0ca043fbeac" {
		t.Errorf("RFC 8448 handshake secret: %x", hsSecret)
	}
	master := oExtract13("sha256", nil, unhex("43de77e0c77713859a944db9db2590b53190a65b3ee2e4f12dd7a0bb7ce254b4"))
	if hex.EncodeToString(master) != "18df06843d13a08bf2a449844c5f8a478001bc4d4c627984d5a41da8d0402919" {
		t.Errorf("RFC 8448 master secret: %x", master)
	}
	k, iv := oTrafficKey("sha256", unhex("b67b7d690cc16c4e75e54213cb2d37b4e9c912bcded9105d42befd59d391ad38"), 16)
	if hex.EncodeToString(k) != "3fce516009c21727d0f2e4e86ee403bc" || hex.EncodeToString(iv) != "5d313eb2671276ee13000b30" {
		t.Errorf("RFC 8448 traffic key: %x %x", k, iv)
	}
	// GnuTLS TLS 1.0 trace (vector shipped with crypto/tls)
	pms := unhex("0302cac83ad4b1db3b9ab49ad05957de2a504a634a386fc600889321e1a971f57479466830ac3e6f468e87f5385fa0c5")
	cr := unhex("4ae66303755184a3917fcb44880605fcc53baa01912b22ed94473fc69cebd558")
	sr := unhex("4ae663020ec16e6bb5130be918cfcafd4d765979a3136a5d50c593446e4e44db")
	ms := oMaster(v10, 0x0005, pms, cr, sr)
	if hex.EncodeToString(ms) != "3d851bab6e5556e959a16bc36d66cfae32f672bfa9ecdef6096cbb1b23472df1da63dbbd9827606413221d149ed08ceb" {
		t.Errorf("GnuTLS master: %x", ms)
	}
	keys := oKeys(v10, 0x0005, ms, cr, sr, 20, 16, 0)
	want := []string{"805aaa19b3d2c0a0759a4b6c9959890e08480119", "2d22f9fe519c075c16448305ceee209fc24ad109", "d50b5771244f850cd8117a9ccafe2cf1", "e076e33206b30507a85c32855acd0919"}
	for i, w := range want {
		if hex.EncodeToString(keys[i]) != w {
			t.Errorf("GnuTLS key block part %d: %x", i, keys[i])
		}
	}
	e1, _ := oEKM(v10, 0x0005, ms, cr, sr, "label", []byte("context"), true, 32)
	e2, _ := oEKM(v10, 0x0005, ms, cr, sr, "label", nil, false, 32)
	if hex.EncodeToString(e1) != "4d1bb6fc278c37d27aa6e2a13c2e079095d143272c2aa939da33d88c1c0cec22" || hex.EncodeToString(e2) != "93fba89599b6321ae538e27c6548ceb8b46821864318f5190d64a375e5d69d41" {
		t.Errorf("GnuTLS EKM: %x %x", e1, e2)
	}
	// RFC 5246 PRF test vector widely circulated (IETF TLS list, "TLS 1.2 PRF with SHA-256")
	got := oPRF12("sha256", unhex("9bbe436ba940f017b17652849a71db35"), []byte("test label"), unhex("a0ba9f936cda311827a6f796ffd5198c"), 100)
	if hex.EncodeToString(got) != "e3f229ba727be17b8d122620557cd453c2aab21d07c3d495329b52d4e61edb5a6b301791e90d35c9c9a46b4e14baf9af0fa022f7077def17abfd3797c0564bab4fbc91666e9def9b97fce34f796789baa48082d122ee42c5a72e5a5110fff70187347b66" {
		t.Errorf("TLS 1.2 SHA-256 PRF vector: %x", got)
	}
}

// own HKDF against the standard library's crypto/hkdf on a sweep of lengths
func TestOracleHKDFAgainstStd(t *testing.T) {
	for n := 0; n <= 300; n += 7 {
		key := bytes.Repeat([]byte{byte(n)}, n%70)
		info := bytes.Repeat([]byte{byte(n + 1)}, n%50)
		a, _ := stdhkdf.Expand(sha256.New, key, string(info), n)
		if !bytes.Equal(a, oHKDFExpand("sha256", key, info, n)) {
			t.Fatalf("expand sha256 n=%d", n)
		}
		b, _ := stdhkdf.Expand(sha512.New384, key, string(info), n)
		if !bytes.Equal(b, oHKDFExpand("sha384", key, info, n)) {
			t.Fatalf("expand sha384 n=%d", n)
		}
		c, _ := stdhkdf.Extract(sha512.New384, key, info)
		if !bytes.Equal(c, oHKDFExtract("sha384", info, key)) {
			t.Fatalf("extract n=%d", n)
		}
	}
}
