package c26

// Independent transcription of the key-derivation definitions of
// RFC 2246 §5/§6.3/§7.4.9, RFC 5246 §5/§6.3/§7.4.9/§8.1, RFC 5705 §4,
// RFC 5869 §2 and RFC 8446 §4.4.4/§7.1/§7.2/§7.3/§7.5.
// Only crypto/hmac and the hash packages are used (no x/crypto/hkdf, nothing
// from zcrypto).  Deliberately naive: a fresh HMAC per call, plain byte
// concatenation, no state reuse.

import (
	"crypto/hmac"
	"crypto/md5"
	"crypto/sha1"
	"crypto/sha256"
	"crypto/sha512"
	"errors"
	"hash"
)

func hashNew(name string) func() hash.Hash {
	switch name {
	case "md5":
		return md5.New
	case "sha1":
		return sha1.New
	case "sha256":
		return sha256.New
	case "sha384":
		return sha512.New384
	}
	panic("oracle: unknown hash " + name)
}

func hashLen(name string) int { return hashNew(name)().Size() }

func cat(parts ...[]byte) []byte {
	var out []byte
	for _, p := range parts {
		out = append(out, p...)
	}
	return out
}

func hmacOnce(h string, key, msg []byte) []byte {
	m := hmac.New(hashNew(h), key)
	m.Write(msg)
	return m.Sum(nil)
}

func digest(h string, msgs ...[]byte) []byte {
	d := hashNew(h)()
	for _, m := range msgs {
		d.Write(m)
	}
	return d.Sum(nil)
}

// RFC 2246 §5 / RFC 5246 §5:
//
//	P_hash(secret, seed) = HMAC_hash(secret, A(1) + seed) +
//	                       HMAC_hash(secret, A(2) + seed) + ...
//	A(0) = seed,  A(i) = HMAC_hash(secret, A(i-1))
func oPHash(h string, secret, seed []byte, n int) []byte {
	var out []byte
	a := seed // A(0)
	for len(out) < n {
		a = hmacOnce(h, secret, a) // A(i)
		out = append(out, hmacOnce(h, secret, cat(a, seed))...)
	}
	return out[:n]
}

// RFC 2246 §5:
//
//	L_S1 = L_S2 = ceil(L_S / 2);  S1 = first L_S1 bytes, S2 = last L_S2 bytes
//	PRF(secret, label, seed) = P_MD5(S1, label + seed) XOR P_SHA-1(S2, label + seed)
func oPRF10(secret, label, seed []byte, n int) []byte {
	half := (len(secret) + 1) / 2
	s1 := secret[:half]
	s2 := secret[len(secret)-half:]
	ls := cat(label, seed)
	a := oPHash("md5", s1, ls, n)
	b := oPHash("sha1", s2, ls, n)
	out := make([]byte, n)
	for i := range out {
		out[i] = a[i] ^ b[i]
	}
	return out
}

// RFC 5246 §5: PRF(secret, label, seed) = P_<hash>(secret, label + seed)
func oPRF12(h string, secret, label, seed []byte, n int) []byte {
	return oPHash(h, secret, cat(label, seed), n)
}

const (
	v10 = 0x0301
	v11 = 0x0302
	v12 = 0x0303
)

// prfHash12 is the PRF hash of a TLS 1.2 cipher suite: SHA-256 unless the
// suite definition says otherwise (RFC 5246 §5, §1.2); the suites of RFC
// 5288 / RFC 5289 whose name ends in _SHA384 use SHA-384.
func prfHash12(suite uint16) string {
	if s, ok := rfcSuites[suite]; ok && s.sha384 {
		return "sha384"
	}
	return "sha256"
}

func oPRF(version, suite uint16, secret, label, seed []byte, n int) []byte {
	switch version {
	case v10, v11:
		return oPRF10(secret, label, seed, n)
	case v12:
		return oPRF12(prfHash12(suite), secret, label, seed, n)
	}
	panic("oracle: version")
}

// RFC 5246 §8.1: master_secret = PRF(pre_master_secret, "master secret",
// ClientHello.random + ServerHello.random)[0..47]
func oMaster(version, suite uint16, pms, cr, sr []byte) []byte {
	return oPRF(version, suite, pms, []byte("master secret"), cat(cr, sr), 48)
}

// RFC 5246 §6.3: key_block = PRF(master_secret, "key expansion",
// server_random + client_random), partitioned as client_write_MAC_key,
// server_write_MAC_key, client_write_key, server_write_key, client_write_IV,
// server_write_IV.
func oKeys(version, suite uint16, master, cr, sr []byte, macLen, keyLen, ivLen int) [6][]byte {
	kb := oPRF(version, suite, master, []byte("key expansion"), cat(sr, cr), 2*macLen+2*keyLen+2*ivLen)
	var out [6][]byte
	lens := []int{macLen, macLen, keyLen, keyLen, ivLen, ivLen}
	for i, l := range lens {
		out[i] = kb[:l]
		kb = kb[l:]
	}
	return out
}

// RFC 2246 §7.4.9: verify_data = PRF(master_secret, finished_label,
// MD5(handshake_messages) + SHA-1(handshake_messages))[0..11];
// RFC 5246 §7.4.9: ... Hash(handshake_messages), Hash = the PRF hash.
func oHandshakeHash(version, suite uint16, msgs [][]byte) []byte {
	if version == v12 {
		return digest(prfHash12(suite), msgs...)
	}
	return cat(digest("md5", msgs...), digest("sha1", msgs...))
}

func oFinished(version, suite uint16, master []byte, msgs [][]byte, label string) []byte {
	return oPRF(version, suite, master, []byte(label), oHandshakeHash(version, suite, msgs), 12)
}

// RFC 5705 §4: PRF(master_secret, label, client_random + server_random
// [+ context_value_length + context_value])[length]; context length is a
// uint16; the labels of the TLS handshake itself are reserved.
func oEKM(version, suite uint16, master, cr, sr []byte, label string, context []byte, hasContext bool, length int) ([]byte, error) {
	switch label {
	case "client finished", "server finished", "master secret", "key expansion":
		return nil, errors.New("reserved label")
	}
	seed := cat(cr, sr)
	if hasContext {
		if len(context) > 0xffff {
			return nil, errors.New("context too long")
		}
		seed = cat(seed, []byte{byte(len(context) >> 8), byte(len(context))}, context)
	}
	return oPRF(version, suite, master, []byte(label), seed, length), nil
}

// ---- RFC 5869 ----------------------------------------------------------

// HKDF-Extract(salt, IKM) = HMAC-Hash(salt, IKM); absent salt = HashLen zeros.
func oHKDFExtract(h string, salt, ikm []byte) []byte {
	if salt == nil {
		salt = make([]byte, hashLen(h))
	}
	return hmacOnce(h, salt, ikm)
}

// HKDF-Expand(PRK, info, L): T(0) = "", T(i) = HMAC(PRK, T(i-1) | info | i), OKM = first L octets of T(1)|T(2)|...
func oHKDFExpand(h string, prk, info []byte, l int) []byte {
	if l > 255*hashLen(h) {
		panic("oracle: HKDF-Expand length")
	}
	var okm, t []byte
	for i := 1; len(okm) < l; i++ {
		t = hmacOnce(h, prk, cat(t, info, []byte{byte(i)}))
		okm = append(okm, t...)
	}
	return okm[:l]
}

// ---- RFC 8446 §7.1 -------------------------------------------------------

// struct { uint16 length; opaque label<7..255> = "tls13 " + Label; opaque context<0..255>; } HkdfLabel
func oExpandLabel(h string, secret []byte, label, context []byte, length int) []byte {
	full := cat([]byte("tls13 "), label)
	if len(full) > 255 || len(context) > 255 || length > 0xffff {
		panic("oracle: HkdfLabel field overflow")
	}
	info := cat([]byte{byte(length >> 8), byte(length)}, []byte{byte(len(full))}, full, []byte{byte(len(context))}, context)
	return oHKDFExpand(h, secret, info, length)
}

// Derive-Secret(Secret, Label, Messages) = HKDF-Expand-Label(Secret, Label, Transcript-Hash(Messages), Hash.length)
func oDeriveSecret(h string, secret, label []byte, msgs [][]byte) []byte {
	return oExpandLabel(h, secret, label, digest(h, msgs...), hashLen(h))
}

// §7.1: a secret that is not available is Hash.length zero bytes.  In the
// schedule the salt is the "current secret" and the IKM is the new input.
func oExtract13(h string, newSecret, currentSecret []byte) []byte {
	if newSecret == nil {
		newSecret = make([]byte, hashLen(h))
	}
	if currentSecret == nil {
		currentSecret = make([]byte, hashLen(h))
	}
	return oHKDFExtract(h, currentSecret, newSecret)
}

// §7.2: application_traffic_secret_N+1 = HKDF-Expand-Label(secret_N, "traffic upd", "", Hash.length)
func oNextTrafficSecret(h string, secret []byte) []byte {
	return oExpandLabel(h, secret, []byte("traffic upd"), nil, hashLen(h))
}

// §7.3: key = HKDF-Expand-Label(Secret, "key", "", key_length); iv = HKDF-Expand-Label(Secret, "iv", "", iv_length)
func oTrafficKey(h string, secret []byte, keyLen int) (key, iv []byte) {
	return oExpandLabel(h, secret, []byte("key"), nil, keyLen), oExpandLabel(h, secret, []byte("iv"), nil, 12)
}

// §4.4.4: finished_key = HKDF-Expand-Label(BaseKey, "finished", "", Hash.length);
// verify_data = HMAC(finished_key, Transcript-Hash(...))
func oFinished13(h string, baseKey []byte, msgs [][]byte) []byte {
	fk := oExpandLabel(h, baseKey, []byte("finished"), nil, hashLen(h))
	return hmacOnce(h, fk, digest(h, msgs...))
}

// §7.5: TLS-Exporter(label, context_value, key_length) =
// HKDF-Expand-Label(Derive-Secret(Secret, label, ""), "exporter", Hash(context_value), key_length)
// with Secret = exporter_master_secret = Derive-Secret(Master Secret, "exp master", ClientHello...server Finished)
func oExporter13(h string, master []byte, msgs [][]byte, label, context []byte, length int) []byte {
	ems := oDeriveSecret(h, master, []byte("exp master"), msgs)
	s := oDeriveSecret(h, ems, label, nil)
	return oExpandLabel(h, s, []byte("exporter"), digest(h, context), length)
}

// ---- cipher-suite parameters (IANA registry; RFC 5246 App. C, RFC 4492,
// RFC 5288, RFC 5289, RFC 7905, RFC 8446 App. B.4) --------------------------

type rfcSuite struct {
	keyLen, macLen, ivLen int // enc_key_length, mac_key_length, fixed_iv_length (block size for CBC)
	sha384                bool
}

var (
	rc4sha    = rfcSuite{16, 20, 0, false}
	des3sha   = rfcSuite{24, 20, 8, false}
	aes128sha = rfcSuite{16, 20, 16, false}
	aes256sha = rfcSuite{32, 20, 16, false}
	aes128s2  = rfcSuite{16, 32, 16, false}
	aes256s2  = rfcSuite{32, 32, 16, false}
	gcm128    = rfcSuite{16, 0, 4, false}
	gcm256    = rfcSuite{32, 0, 4, true}
	chacha    = rfcSuite{32, 0, 12, false}
)

var rfcSuites = map[uint16]rfcSuite{
	0x0005: rc4sha, 0x000a: des3sha, 0x0013: des3sha, 0x0016: des3sha,
	0x002f: aes128sha, 0x0032: aes128sha, 0x0033: aes128sha,
	0x0035: aes256sha, 0x0038: aes256sha, 0x0039: aes256sha,
	0x003c: aes128s2, 0x003d: aes256s2, 0x0040: aes128s2, 0x0066: rc4sha,
	0x0067: aes128s2, 0x006a: aes256s2, 0x006b: aes256s2,
	0x009c: gcm128, 0x009d: gcm256, 0x009e: gcm128, 0x009f: gcm256, 0x00a2: gcm128, 0x00a3: gcm256,
	0xc007: rc4sha, 0xc008: des3sha, 0xc009: aes128sha, 0xc00a: aes256sha,
	0xc011: rc4sha, 0xc012: des3sha, 0xc013: aes128sha, 0xc014: aes256sha,
	0xc023: aes128s2, 0xc027: aes128s2,
	0xc02b: gcm128, 0xc02c: gcm256, 0xc02f: gcm128, 0xc030: gcm256,
	0xcca8: chacha, 0xcca9: chacha, 0xccaa: chacha,
}

type rfcSuite13 struct {
	keyLen int
	hash   string
}

var rfcSuites13 = map[uint16]rfcSuite13{
	0x1301: {16, "sha256"}, // TLS_AES_128_GCM_SHA256
	0x1302: {32, "sha384"}, // TLS_AES_256_GCM_SHA384
	0x1303: {32, "sha256"}, // TLS_CHACHA20_POLY1305_SHA256
}
