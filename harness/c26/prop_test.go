package c26

import (
	"bytes"
	"fmt"
	"sort"
	"testing"

	"github.com/zmap/zcrypto/tls"
	"pgregory.net/rapid"
	"verifharness/kit"
)

// Case is one call of one derivation function.  Unused fields stay zero.
// nil and empty byte strings are distinct (JSON null vs ""), which matters
// for the RFC 5705 context and for the TLS 1.3 "secret not available" inputs.
type Case struct {
	Fn      string   `json:"fn"`
	Version uint16   `json:"version,omitempty"`
	Suite   uint16   `json:"suite,omitempty"`
	Hash    string   `json:"hash,omitempty"`
	Secret  []byte   `json:"secret"`
	Secret2 []byte   `json:"secret2"` // extract: current secret (salt)
	Label   []byte   `json:"label"`
	Seed    []byte   `json:"seed"` // seed / context
	CR      []byte   `json:"cr,omitempty"`
	SR      []byte   `json:"sr,omitempty"`
	Msgs    [][]byte `json:"msgs,omitempty"`
	NilTr   bool     `json:"nil_transcript,omitempty"`
	N       int      `json:"n"`
	MACLen  int      `json:"mac_len,omitempty"`
	KeyLen  int      `json:"key_len,omitempty"`
	IVLen   int      `json:"iv_len,omitempty"`
	// ekm13: messages hashed into the transcript AFTER the exporter was built (the handshake goes
	// on writing the client's second flight into the same hash), and how often the one exporter is
	// evaluated (evaluation i > 0 uses the context with byte i appended)
	Later  [][]byte `json:"later,omitempty"`
	Repeat int      `json:"repeat,omitempty"`
}

// ---------------------------------------------------------------------------
// generators

var hashSizes = []int{16, 20, 32, 48, 64, 128}

// genLen: output lengths 0..max biased to the hash-block boundaries.
func genLen(t *rapid.T, max int, name string) int {
	switch rapid.IntRange(0, 9).Draw(t, name+"-kind") {
	case 0:
		return rapid.SampledFrom([]int{0, 1, 2}).Draw(t, name)
	case 1, 2, 3:
		h := rapid.SampledFrom(hashSizes).Draw(t, name+"-h")
		k := rapid.IntRange(1, 8).Draw(t, name+"-k")
		d := rapid.IntRange(-1, 1).Draw(t, name+"-d")
		n := h*k + d
		if n > max {
			n = max
		}
		return n
	case 4:
		return max - rapid.IntRange(0, 2).Draw(t, name)
	default:
		return rapid.IntRange(0, max).Draw(t, name)
	}
}

// genBytes: byte strings 0..max, biased to empty / HMAC block boundaries; never nil.
func genBytes(t *rapid.T, max int, name string) []byte {
	var n int
	switch rapid.IntRange(0, 7).Draw(t, name+"-kind") {
	case 0:
		n = 0
	case 1:
		n = rapid.SampledFrom([]int{1, 2, 3, 47, 48, 49}).Draw(t, name+"-n")
	case 2:
		n = rapid.SampledFrom([]int{63, 64, 65, 127, 128, 129}).Draw(t, name+"-n")
	default:
		n = rapid.IntRange(0, max).Draw(t, name+"-n")
	}
	if n > max {
		n = max
	}
	b := rapid.SliceOfN(rapid.Byte(), n, n).Draw(t, name)
	if b == nil {
		b = []byte{}
	}
	return b
}

func genNilable(t *rapid.T, max int, name string) []byte {
	if rapid.IntRange(0, 5).Draw(t, name+"-nil") == 0 {
		return nil
	}
	return genBytes(t, max, name)
}

var asciiLabels = []string{"", "label", "EXPERIMENTAL verif", "master secret", "key expansion", "client finished", "server finished",
	"extended master secret", "c hs traffic", "s ap traffic", "derived", "exp master", "res master", "exporter", "finished", "key", "iv",
	"traffic upd", "resumption", "res binder", "ext binder", "c e traffic", "e exp master", "ttls keying material", "Master Secret", "master secret "}

func genLabel(t *rapid.T, max int) []byte {
	switch rapid.IntRange(0, 5).Draw(t, "label-kind") {
	case 0, 1, 2:
		l := rapid.SampledFrom(asciiLabels).Draw(t, "label")
		if len(l) > max {
			l = l[:max]
		}
		return []byte(l)
	case 3:
		n := rapid.SampledFrom([]int{max, max - 1, max / 2}).Draw(t, "label-n")
		b := rapid.SliceOfN(rapid.ByteRange(0x20, 0x7e), n, n).Draw(t, "label")
		if b == nil {
			b = []byte{}
		}
		return b
	default:
		return genBytes(t, max, "label")
	}
}

func genMsgs(t *rapid.T) [][]byte {
	n := rapid.IntRange(0, 5).Draw(t, "nmsgs")
	var out [][]byte
	for i := 0; i < n; i++ {
		out = append(out, genBytes(t, 150, fmt.Sprintf("msg%d", i)))
	}
	return out
}

var suiteIDs = func() []uint16 {
	var ids []uint16
	for id := range rfcSuites {
		ids = append(ids, id)
	}
	sort.Slice(ids, func(i, j int) bool { return ids[i] < ids[j] })
	return ids
}()

var sha384IDs = []uint16{0x009d, 0x009f, 0x00a3, 0xc02c, 0xc030}

func genSuite(t *rapid.T) uint16 {
	if rapid.IntRange(0, 2).Draw(t, "suite-384") == 0 {
		return rapid.SampledFrom(sha384IDs).Draw(t, "suite")
	}
	return rapid.SampledFrom(suiteIDs).Draw(t, "suite")
}

func genVersion(t *rapid.T) uint16 {
	return rapid.SampledFrom([]uint16{v10, v11, v12, v12}).Draw(t, "version")
}

func genRandom(t *rapid.T, name string) []byte {
	// the handshake always passes 32-byte randoms; other lengths are within
	// the functions' domain (plain concatenation) and are sampled rarely
	if rapid.IntRange(0, 9).Draw(t, name+"-odd") == 0 {
		return genBytes(t, 64, name)
	}
	return rapid.SliceOfN(rapid.Byte(), 32, 32).Draw(t, name)
}

func genPRF(t *rapid.T) Case {
	c := Case{Fn: rapid.SampledFrom([]string{"phash", "prf10", "prf12", "prfver"}).Draw(t, "fn")}
	c.Secret = genNilable(t, 200, "secret")
	c.Seed = genNilable(t, 200, "seed")
	c.N = genLen(t, 512, "n")
	switch c.Fn {
	case "phash":
		c.Hash = rapid.SampledFrom([]string{"md5", "sha1", "sha256", "sha384"}).Draw(t, "hash")
	case "prf10":
		c.Label = genLabel(t, 80)
	case "prf12":
		c.Hash = rapid.SampledFrom([]string{"sha256", "sha384"}).Draw(t, "hash")
		c.Label = genLabel(t, 80)
	case "prfver":
		c.Version = genVersion(t)
		c.Suite = genSuite(t)
		c.Label = genLabel(t, 80)
	}
	return c
}

func genDerive12(t *rapid.T) Case {
	c := Case{Fn: rapid.SampledFrom([]string{"master", "keys", "keys-suite", "finished", "ekm", "ekm"}).Draw(t, "fn")}
	c.Version = genVersion(t)
	c.Suite = genSuite(t)
	c.Secret = genBytes(t, 200, "secret")
	if c.Fn != "master" && rapid.IntRange(0, 3).Draw(t, "ms48") != 0 {
		c.Secret = rapid.SliceOfN(rapid.Byte(), 48, 48).Draw(t, "master")
	}
	c.CR = genRandom(t, "cr")
	c.SR = genRandom(t, "sr")
	switch c.Fn {
	case "keys":
		c.MACLen = rapid.SampledFrom([]int{0, 0, 16, 20, 32, 48, 1, 7}).Draw(t, "maclen")
		c.KeyLen = rapid.SampledFrom([]int{0, 5, 8, 16, 24, 32, 3}).Draw(t, "keylen")
		c.IVLen = rapid.SampledFrom([]int{0, 4, 8, 12, 16, 1}).Draw(t, "ivlen")
	case "finished":
		c.Msgs = genMsgs(t)
	case "ekm":
		c.Label = genLabel(t, 80)
		switch rapid.IntRange(0, 11).Draw(t, "ctx-kind") {
		case 0, 1, 2:
			c.Seed = nil
		case 3:
			c.Seed = []byte{}
		case 4: // the 2^16 limit
			n := rapid.SampledFrom([]int{65535, 65536, 65537, 70000}).Draw(t, "ctx-n")
			c.Seed = bytes.Repeat([]byte{rapid.Byte().Draw(t, "ctx-fill")}, n)
		default:
			c.Seed = genBytes(t, 200, "ctx")
		}
		c.N = genLen(t, 512, "n")
	}
	return c
}

var ids13 = []uint16{0x1301, 0x1302, 0x1303}

func genTLS13(t *rapid.T) Case {
	c := Case{Fn: rapid.SampledFrom([]string{"expand", "expand", "derive", "extract", "next", "tkey", "fin13", "ekm13", "ekm13"}).Draw(t, "fn")}
	c.Suite = rapid.SampledFrom(ids13).Draw(t, "suite")
	hl := hashLen(rfcSuites13[c.Suite].hash)
	// secrets: mostly Hash.length (what the schedule produces), also arbitrary
	if rapid.IntRange(0, 2).Draw(t, "sec-kind") == 0 {
		c.Secret = genBytes(t, 200, "secret")
	} else {
		c.Secret = rapid.SliceOfN(rapid.Byte(), hl, hl).Draw(t, "secret")
	}
	switch c.Fn {
	case "expand":
		c.Label = genLabel(t, 249) // "tls13 " + label <= 255
		c.Seed = genNilable(t, 255, "context")
		if rapid.IntRange(0, 5).Draw(t, "ctx255") == 0 {
			c.Seed = rapid.SliceOfN(rapid.Byte(), 255, 255).Draw(t, "context")
		}
		if rapid.IntRange(0, 11).Draw(t, "n-big") == 0 {
			c.N = 255*hl - rapid.IntRange(0, hl+1).Draw(t, "n") // up to the HKDF limit
		} else {
			c.N = genLen(t, 512, "n")
		}
	case "derive":
		c.Label = genLabel(t, 249)
		c.NilTr = rapid.IntRange(0, 3).Draw(t, "niltr") == 0
		if !c.NilTr {
			c.Msgs = genMsgs(t)
		}
	case "extract":
		c.Secret = genNilable(t, 200, "new")
		c.Secret2 = genNilable(t, 200, "current")
		if rapid.Bool().Draw(t, "cur-hl") && c.Secret2 != nil {
			c.Secret2 = rapid.SliceOfN(rapid.Byte(), hl, hl).Draw(t, "current")
		}
	case "fin13":
		c.Msgs = genMsgs(t)
	case "ekm13":
		c.Msgs = genMsgs(t)
		c.Label = genLabel(t, 249)
		c.Seed = genNilable(t, 300, "context")
		c.N = genLen(t, 512, "n")
		if rapid.Bool().Draw(t, "later") {
			c.Later = genMsgs(t)
		}
		c.Repeat = rapid.IntRange(1, 3).Draw(t, "repeat")
	}
	return c
}

// ---------------------------------------------------------------------------
// oracle comparison

func eq(r *kit.R, key, what string, got, want []byte) {
	if !bytes.Equal(got, want) {
		r.Failf(key, "%s: zcrypto %x, RFC oracle %x", what, got, want)
	}
}

// classes common to all functions; returns whether the case is non-trivial by the rule
func classify(r *kit.R, c Case, hashes []string, n int) {
	r.Class("fn=" + c.Fn)
	nt := n == 0
	for _, h := range hashes {
		r.Class("hash=" + h)
		if h == "sha384" {
			nt = true
		}
		if n%hashLen(h) != 0 {
			nt = true
		}
	}
	switch {
	case n == 0:
		r.Class("len=0")
	default:
		aligned := true
		for _, h := range hashes {
			if n%hashLen(h) != 0 {
				aligned = false
			}
		}
		if aligned {
			r.Class("len=aligned")
		} else {
			r.Class("len=unaligned")
		}
		if n > 255 {
			r.Class("len>255")
		}
	}
	if nt {
		r.NonTrivial()
	}
}

func hashesFor(version, suite uint16) []string {
	if version == v12 {
		return []string{prfHash12(suite)}
	}
	return []string{"md5", "sha1"}
}

func verName(v uint16) string {
	return map[uint16]string{v10: "tls10", v11: "tls11", v12: "tls12"}[v]
}

func secretClass(r *kit.R, s []byte) {
	switch {
	case s == nil:
		r.Class("secret=nil")
	case len(s) == 0:
		r.Class("secret=empty")
	case len(s)%2 == 1:
		r.Class("secret=odd")
	}
	if len(s) > 128 {
		r.Class("secret>128")
	} else if len(s) > 64 {
		r.Class("secret>64")
	}
}

func checkPRF(c Case, r *kit.R) {
	secretClass(r, c.Secret)
	if c.Seed == nil {
		r.Class("seed=nil")
	}
	if len(c.Label) == 0 && c.Fn != "phash" {
		r.Class("label=empty")
	}
	switch c.Fn {
	case "phash":
		classify(r, c, []string{c.Hash}, c.N)
		eq(r, "C26:phash", "pHash("+c.Hash+")", tls.VerifC26PHash(c.Hash, c.Secret, c.Seed, c.N), oPHash(c.Hash, c.Secret, c.Seed, c.N))
	case "prf10":
		classify(r, c, []string{"md5", "sha1"}, c.N)
		eq(r, "C26:prf10", "prf10", tls.VerifC26PRF10(c.Secret, c.Label, c.Seed, c.N), oPRF10(c.Secret, c.Label, c.Seed, c.N))
	case "prf12":
		classify(r, c, []string{c.Hash}, c.N)
		eq(r, "C26:prf12", "prf12("+c.Hash+")", tls.VerifC26PRF12(c.Hash, c.Secret, c.Label, c.Seed, c.N), oPRF12(c.Hash, c.Secret, c.Label, c.Seed, c.N))
	case "prfver":
		classify(r, c, hashesFor(c.Version, c.Suite), c.N)
		r.Class(verName(c.Version))
		eq(r, "C26:prf-for-version", fmt.Sprintf("prfForVersion(%#x, %#04x)", c.Version, c.Suite),
			tls.VerifC26PRFForVersion(c.Version, c.Suite, c.Secret, c.Label, c.Seed, c.N), oPRF(c.Version, c.Suite, c.Secret, c.Label, c.Seed, c.N))
	default:
		r.Failf("harness:bad-case", "fn %q", c.Fn)
	}
}

var keyNames = [6]string{"clientMAC", "serverMAC", "clientKey", "serverKey", "clientIV", "serverIV"}

func checkDerive12(c Case, r *kit.R) {
	hs := hashesFor(c.Version, c.Suite)
	r.Class(verName(c.Version))
	secretClass(r, c.Secret)
	if len(c.CR) != 32 || len(c.SR) != 32 {
		r.Class("random!=32")
	}
	switch c.Fn {
	case "master":
		classify(r, c, hs, 48)
		eq(r, "C26:master-secret", "masterFromPreMasterSecret",
			tls.VerifC26MasterFromPreMasterSecret(c.Version, c.Suite, c.Secret, c.CR, c.SR), oMaster(c.Version, c.Suite, c.Secret, c.CR, c.SR))
	case "keys", "keys-suite":
		mac, key, iv := c.MACLen, c.KeyLen, c.IVLen
		if c.Fn == "keys-suite" {
			s := rfcSuites[c.Suite]
			mac, key, iv = s.macLen, s.keyLen, s.ivLen
		}
		classify(r, c, hs, 2*mac+2*key+2*iv)
		got := tls.VerifC26KeysFromMasterSecret(c.Version, c.Suite, c.Secret, c.CR, c.SR, mac, key, iv)
		want := oKeys(c.Version, c.Suite, c.Secret, c.CR, c.SR, mac, key, iv)
		for i := range got {
			eq(r, "C26:key-block:"+keyNames[i], fmt.Sprintf("keysFromMasterSecret(mac=%d,key=%d,iv=%d).%s", mac, key, iv, keyNames[i]), got[i], want[i])
		}
	case "finished":
		classify(r, c, hs, 12)
		if len(c.Msgs) == 0 {
			r.Class("transcript=empty")
		}
		sum, cl, sv := tls.VerifC26Finished(c.Version, c.Suite, c.Secret, c.Msgs)
		eq(r, "C26:handshake-hash", "finishedHash.Sum", sum, oHandshakeHash(c.Version, c.Suite, c.Msgs))
		eq(r, "C26:finished:client", "finishedHash.clientSum", cl, oFinished(c.Version, c.Suite, c.Secret, c.Msgs, "client finished"))
		eq(r, "C26:finished:server", "finishedHash.serverSum", sv, oFinished(c.Version, c.Suite, c.Secret, c.Msgs, "server finished"))
	case "ekm":
		classify(r, c, hs, c.N)
		switch {
		case c.Seed == nil:
			r.Class("context=nil")
		case len(c.Seed) == 0:
			r.Class("context=empty")
		case len(c.Seed) >= 65535:
			r.Class("context>=65535")
		}
		got, gerr := tls.VerifC26EKM(c.Version, c.Suite, c.Secret, c.CR, c.SR, string(c.Label), c.Seed, c.N)
		want, werr := oEKM(c.Version, c.Suite, c.Secret, c.CR, c.SR, string(c.Label), c.Seed, c.Seed != nil, c.N)
		if werr != nil {
			r.Class("ekm=rejected")
		}
		if (gerr != nil) != (werr != nil) {
			r.Failf("C26:ekm:error", "ekmFromMasterSecret(label %q, context len %d): zcrypto error %v, RFC 5705 oracle error %v", c.Label, len(c.Seed), gerr, werr)
		}
		if werr == nil {
			eq(r, "C26:ekm", "ekmFromMasterSecret", got, want)
		}
	default:
		r.Failf("harness:bad-case", "fn %q", c.Fn)
	}
}

func checkTLS13(c Case, r *kit.R) {
	s, ok := rfcSuites13[c.Suite]
	if !ok {
		r.Failf("harness:bad-case", "suite %#x", c.Suite)
	}
	h := s.hash
	hl := hashLen(h)
	r.Class(fmt.Sprintf("suite=%#04x", c.Suite))
	if c.Fn != "extract" && len(c.Secret) != hl {
		r.Class("secret!=hashlen")
	}
	switch c.Fn {
	case "expand":
		classify(r, c, []string{h}, c.N)
		if c.Seed == nil {
			r.Class("context=nil")
		} else if len(c.Seed) == 255 {
			r.Class("context=255")
		}
		if len(c.Label) == 249 {
			r.Class("label=249")
		}
		if c.N > 512 {
			r.Class("len~255*hashlen")
		}
		eq(r, "C26:expand-label", "expandLabel", tls.VerifC26ExpandLabel(c.Suite, c.Secret, string(c.Label), c.Seed, c.N), oExpandLabel(h, c.Secret, c.Label, c.Seed, c.N))
	case "derive":
		classify(r, c, []string{h}, hl)
		if c.NilTr {
			r.Class("transcript=nil")
		}
		eq(r, "C26:derive-secret", "deriveSecret", tls.VerifC26DeriveSecret(c.Suite, c.Secret, string(c.Label), c.NilTr, c.Msgs), oDeriveSecret(h, c.Secret, c.Label, c.Msgs))
	case "extract":
		classify(r, c, []string{h}, hl)
		if c.Secret == nil {
			r.Class("new=nil")
		}
		if c.Secret2 == nil {
			r.Class("current=nil")
		}
		eq(r, "C26:extract", "extract", tls.VerifC26Extract(c.Suite, c.Secret, c.Secret2), oExtract13(h, c.Secret, c.Secret2))
	case "next":
		classify(r, c, []string{h}, hl)
		eq(r, "C26:next-traffic-secret", "nextTrafficSecret", tls.VerifC26NextTrafficSecret(c.Suite, c.Secret), oNextTrafficSecret(h, c.Secret))
	case "tkey":
		classify(r, c, []string{h}, s.keyLen)
		r.NonTrivial() // the 12-byte IV is never a multiple of the hash size
		gk, gi := tls.VerifC26TrafficKey(c.Suite, c.Secret)
		wk, wi := oTrafficKey(h, c.Secret, s.keyLen)
		eq(r, "C26:traffic-key:key", "trafficKey key", gk, wk)
		eq(r, "C26:traffic-key:iv", "trafficKey iv", gi, wi)
	case "fin13":
		classify(r, c, []string{h}, hl)
		eq(r, "C26:finished13", "cipherSuiteTLS13.finishedHash", tls.VerifC26FinishedHash13(c.Suite, c.Secret, c.Msgs), oFinished13(h, c.Secret, c.Msgs))
	case "ekm13":
		classify(r, c, []string{h}, c.N)
		if c.Seed == nil {
			r.Class("context=nil")
		}
		got, err := tls.VerifC26ExportKeyingMaterial13(c.Suite, c.Secret, c.Msgs, string(c.Label), c.Seed, c.N)
		if err != nil {
			r.Failf("C26:exporter13:error", "exportKeyingMaterial returned %v", err)
		}
		eq(r, "C26:exporter13", "exportKeyingMaterial", got, oExporter13(h, c.Secret, c.Msgs, c.Label, c.Seed, c.N))
		// one exporter, built at the server Finished, evaluated Repeat times while the transcript
		// hash it was built from keeps growing: RFC 8446 7.5 fixes the exporter master secret at
		// ClientHello..server Finished
		var calls []tls.VerifC26Export
		for i := 0; i < max(c.Repeat, 1); i++ {
			ctx := c.Seed
			if i > 0 {
				ctx = append(append([]byte{}, c.Seed...), byte(i))
			}
			calls = append(calls, tls.VerifC26Export{Label: string(c.Label), Context: ctx, Length: c.N})
		}
		outs, err := tls.VerifC26ExportKeyingMaterial13Seq(c.Suite, c.Secret, c.Msgs, c.Later, calls)
		if err != nil || len(outs) != len(calls) {
			r.Failf("C26:exporter13:error", "exportKeyingMaterial (sequence) returned %d values, %v", len(outs), err)
		}
		for i, cl := range calls {
			eq(r, "C26:exporter13:sequence", fmt.Sprintf("exportKeyingMaterial, evaluation %d of one exporter after %d later transcript messages,", i, len(c.Later)), outs[i], oExporter13(h, c.Secret, c.Msgs, c.Label, cl.Context, c.N))
		}
		if len(c.Later) > 0 {
			r.Class("exporter: transcript grows after construction")
		}
		if c.Repeat > 1 {
			r.Class("exporter: evaluated repeatedly")
		}
	default:
		r.Failf("harness:bad-case", "fn %q", c.Fn)
	}
}

const ntRule = "Non-trivial: output length 0, or not a multiple of the hash size of (one of) the underlying hash(es), or SHA-384 involved; distinct by case hash."

var assumptions = []string{
	"RFC 7627 (extended master secret): zcrypto contains no EMS derivation function (the extension is only advertised/parsed), so that clause of the statement has nothing to call and is not exercised.",
	"Domain of expandLabel/deriveSecret/exportKeyingMaterial (TLS 1.3): label <= 249 bytes, context <= 255 bytes, length <= 255*Hash.length (the limits of the HkdfLabel structure and of HKDF-Expand; zcrypto panics outside, as every caller stays inside).",
	"prfForVersion and friends are called with versions 0x0301..0x0303 and a suite id present in implementedCipherSuites (other versions panic by design).",
}

func TestPropPRF(t *testing.T) {
	kit.Run(t, kit.Spec[Case]{ID: "C26", Name: "prf", Gen: genPRF, Check: checkPRF, Quick: 10000, Thorough: 200000, Assumptions: assumptions,
		Rule: "pHash(md5|sha1|sha256|sha384), prf10, prf12(sha256|sha384) and prfForVersion(version, suite) on secrets 0..200 bytes (nil, empty, odd, > HMAC block), labels (ASCII incl. the reserved ones, empty, long, binary), seeds 0..200 bytes (nil/empty) and output lengths 0..512 biased to k*hashsize-1..+1, compared byte-for-byte with P_hash/PRF transcribed from RFC 2246 s.5 / RFC 5246 s.5. " + ntRule})
}

func TestPropDerive12(t *testing.T) {
	kit.Run(t, kit.Spec[Case]{ID: "C26", Name: "derive12", Gen: genDerive12, Check: checkDerive12, Quick: 10000, Thorough: 200000, Assumptions: assumptions,
		Rule: "masterFromPreMasterSecret, keysFromMasterSecret (arbitrary and per-suite RFC lengths; all six outputs), finishedHash Sum/clientSum/serverSum over message lists, ekmFromMasterSecret (nil/empty/long context incl. the 2^16 limit, reserved labels) for versions 1.0/1.1/1.2 x all implemented suite ids, against RFC 5246 s.8.1/6.3/7.4.9 and RFC 5705 s.4 transcriptions. " + ntRule})
}

func TestPropTLS13(t *testing.T) {
	kit.Run(t, kit.Spec[Case]{ID: "C26", Name: "tls13", Gen: genTLS13, Check: checkTLS13, Quick: 10000, Thorough: 200000, Assumptions: assumptions,
		Rule: "expandLabel (label 0..249, context nil/0..255, length 0..512 and near 255*hashlen), deriveSecret (nil transcript / message lists), extract (nil/empty/arbitrary new and current secret), nextTrafficSecret, trafficKey, finishedHash, exportKeyingMaterial for the three TLS 1.3 suites, against own HKDF (RFC 5869) + RFC 8446 s.7.1/7.2/7.3/7.5/4.4.4 transcriptions. " + ntRule})
}

// SuiteCase is one cipher-suite table entry.
type SuiteCase struct {
	Table string `json:"table"`
	Index int    `json:"index"`
	ID    uint16 `json:"id"`
}

// TestPropSuiteParams: the key-block lengths and PRF hash the handshake takes
// from the suite tables equal the RFC values (exhaustive over both tables and
// the TLS 1.3 table).
func TestPropSuiteParams(t *testing.T) {
	suites := tls.VerifC26Suites()
	suites13 := tls.VerifC26Suites13()
	kit.Run(t, kit.Spec[SuiteCase]{ID: "C26", Name: "suite-params", Assumptions: assumptions,
		Rule: "exhaustive: every entry of cipherSuites, implementedCipherSuites and cipherSuitesTLS13; keyLen/macLen/ivLen (enc_key_length, mac_key_length, fixed_iv_length resp. CBC block size), the SHA-384 PRF flag and the TLS 1.3 hash/key length must equal the values of the defining RFCs (5246 App. C, 4492, 5288, 5289, 7905, 8446 B.4). Every entry is non-trivial.",
		Enum: func(shard, nshards int, yield func(SuiteCase) bool) {
			i := 0
			for _, s := range suites {
				if i++; i%nshards == shard {
					if !yield(SuiteCase{s.Table, s.Index, s.ID}) {
						return
					}
				}
			}
			for j, s := range suites13 {
				if i++; i%nshards == shard {
					if !yield(SuiteCase{"cipherSuitesTLS13", j, s.ID}) {
						return
					}
				}
			}
		},
		Check: func(c SuiteCase, r *kit.R) {
			r.Class("table=" + c.Table)
			r.NonTrivial()
			if c.Table == "cipherSuitesTLS13" {
				if c.Index >= len(suites13) || suites13[c.Index].ID != c.ID {
					r.Skip()
				}
				s := suites13[c.Index]
				w, ok := rfcSuites13[c.ID]
				if !ok {
					r.Failf("C26:suite13-unknown", "TLS 1.3 suite %#04x is not defined by RFC 8446", c.ID)
				}
				if s.KeyLen != w.keyLen || s.Hash.Size() != hashLen(w.hash) {
					r.Failf("C26:suite13-params", "suite %#04x: keyLen %d hash size %d, RFC 8446 B.4: %d / %s", c.ID, s.KeyLen, s.Hash.Size(), w.keyLen, w.hash)
				}
				return
			}
			var s *tls.VerifC26Suite
			for k := range suites {
				if suites[k].Table == c.Table && suites[k].Index == c.Index && suites[k].ID == c.ID {
					s = &suites[k]
				}
			}
			if s == nil {
				r.Skip()
			}
			w, ok := rfcSuites[c.ID]
			if !ok {
				r.Failf("C26:suite-unknown", "%s[%d]: suite %#04x has no RFC parameters in the oracle table", c.Table, c.Index, c.ID)
			}
			if s.KeyLen != w.keyLen || s.MACLen != w.macLen || s.IVLen != w.ivLen {
				r.Failf("C26:suite-lengths", "%s[%d] %#04x: key/mac/iv = %d/%d/%d, RFC: %d/%d/%d", c.Table, c.Index, c.ID, s.KeyLen, s.MACLen, s.IVLen, w.keyLen, w.macLen, w.ivLen)
			}
			if s.SHA384 != w.sha384 {
				r.Failf("C26:suite-prf-hash", "%s[%d] %#04x: SHA-384 PRF flag %v, RFC: %v", c.Table, c.Index, c.ID, s.SHA384, w.sha384)
			}
		}})
}
