// Package pki holds small helpers to issue certificates with zcrypto's own
// x509.CreateCertificate from pool keys, and to assemble/re-sign certificates
// from raw TBS bytes independently of zcrypto (for hostile / mutated objects).
package pki

import (
	"crypto"
	"crypto/ecdsa"
	"crypto/ed25519"
	"crypto/rand"
	stdrsa "crypto/rsa"
	"crypto/sha256"
	"crypto/sha512"
	"fmt"
	"math/big"
	"time"

	"github.com/zmap/zcrypto/x509"
	"github.com/zmap/zcrypto/x509/pkix"
	"verifharness/der"
	"verifharness/keys"
)

// Epoch is the fixed reference time of generated PKIs (no wall clock).
var Epoch = time.Date(2024, 1, 1, 0, 0, 0, 0, time.UTC)

// Spec is a JSON-friendly description of one certificate to issue.
type Spec struct {
	CN         string   `json:"cn"`
	Org        string   `json:"org,omitempty"`
	Key        int      `json:"key"`    // pool index of the subject key
	Serial     int64    `json:"serial"` // > 0
	CA         bool     `json:"ca"`
	BCValid    bool     `json:"bc_valid"`
	MaxPathLen int      `json:"max_path_len"` // -1 unset
	NotBefore  int64    `json:"not_before"`   // seconds relative to Epoch
	NotAfter   int64    `json:"not_after"`
	DNS        []string `json:"dns,omitempty"`
	IPs        []string `json:"ips,omitempty"`
	EKU        []int    `json:"eku,omitempty"` // x509.ExtKeyUsage values
	KeyUsage   int      `json:"key_usage,omitempty"`
	SKI        []byte   `json:"ski,omitempty"`
	SigAlg     int      `json:"sig_alg,omitempty"` // x509.SignatureAlgorithm, 0 = default for signer
}

// Template converts a Spec to a zcrypto certificate template.
func (s Spec) Template() *x509.Certificate {
	t := &x509.Certificate{
		SerialNumber:          big.NewInt(s.Serial),
		Subject:               pkix.Name{CommonName: s.CN},
		NotBefore:             Epoch.Add(time.Duration(s.NotBefore) * time.Second),
		NotAfter:              Epoch.Add(time.Duration(s.NotAfter) * time.Second),
		BasicConstraintsValid: s.BCValid || s.CA,
		IsCA:                  s.CA,
		MaxPathLen:            s.MaxPathLen,
		MaxPathLenZero:        s.MaxPathLen == 0 && (s.BCValid || s.CA),
		DNSNames:              s.DNS,
		KeyUsage:              x509.KeyUsage(s.KeyUsage),
		SubjectKeyId:          s.SKI,
		SignatureAlgorithm:    x509.SignatureAlgorithm(s.SigAlg),
	}
	if s.Org != "" {
		t.Subject.Organization = []string{s.Org}
	}
	for _, e := range s.EKU {
		t.ExtKeyUsage = append(t.ExtKeyUsage, x509.ExtKeyUsage(e))
	}
	return t
}

// Issue creates and parses a certificate.  parent == nil means self-signed
// with the subject key.  signer is the key that signs (normally the parent's).
func Issue(tmpl *x509.Certificate, parent *x509.Certificate, subject, signer *keys.Key) (*x509.Certificate, error) {
	if parent == nil {
		parent = tmpl
		if signer == nil {
			signer = subject
		}
	}
	d, err := x509.CreateCertificate(rand.Reader, tmpl, parent, subject.ZPub, signer.ZPriv)
	if err != nil {
		return nil, err
	}
	return x509.ParseCertificate(d)
}

// MustIssue is Issue that panics on error (generator bug).
func MustIssue(tmpl *x509.Certificate, parent *x509.Certificate, subject, signer *keys.Key) *x509.Certificate {
	c, err := Issue(tmpl, parent, subject, signer)
	if err != nil {
		panic(fmt.Sprintf("pki: issue %q: %v", tmpl.Subject.CommonName, err))
	}
	return c
}

// SimpleCA returns a self-signed CA valid Epoch-1y .. Epoch+10y.
func SimpleCA(cn string, k *keys.Key) *x509.Certificate {
	return MustIssue(Spec{CN: cn, Key: k.Index, Serial: 1, CA: true, MaxPathLen: -1, NotBefore: -365 * 86400, NotAfter: 3650 * 86400,
		KeyUsage: int(x509.KeyUsageCertSign | x509.KeyUsageCRLSign | x509.KeyUsageDigitalSignature)}.Template(), nil, k, k)
}

// SimpleLeaf returns a server leaf for the DNS names, issued by ca (key caKey).
func SimpleLeaf(cn string, dns []string, k *keys.Key, ca *x509.Certificate, caKey *keys.Key, serial int64) *x509.Certificate {
	t := Spec{CN: cn, Key: k.Index, Serial: serial, MaxPathLen: -1, NotBefore: -86400, NotAfter: 3650 * 86400, DNS: dns,
		KeyUsage: int(x509.KeyUsageDigitalSignature | x509.KeyUsageKeyEncipherment),
		EKU:      []int{int(x509.ExtKeyUsageServerAuth), int(x509.ExtKeyUsageClientAuth)}}.Template()
	return MustIssue(t, ca, k, caKey)
}

// Independent signing (standard library only) -------------------------------

// sigAlgDER returns the AlgorithmIdentifier DER and hash for a key's default algorithm.
func sigAlgDER(k *keys.Key) ([]byte, crypto.Hash) {
	switch k.Kind {
	case "rsa":
		return der.Seq(der.OID(1, 2, 840, 113549, 1, 1, 11), der.Null()), crypto.SHA256
	case "ec":
		if k.Curve == "P-384" {
			return der.Seq(der.OID(1, 2, 840, 10045, 4, 3, 3)), crypto.SHA384
		}
		if k.Curve == "P-521" {
			return der.Seq(der.OID(1, 2, 840, 10045, 4, 3, 4)), crypto.SHA512
		}
		return der.Seq(der.OID(1, 2, 840, 10045, 4, 3, 2)), crypto.SHA256
	case "ed25519":
		return der.Seq(der.OID(1, 3, 101, 112)), 0
	}
	panic("pki: no default signature algorithm for " + k.Kind)
}

// DefaultSigAlgDER is the AlgorithmIdentifier encoding SignStd uses for k.
func DefaultSigAlgDER(k *keys.Key) []byte { a, _ := sigAlgDER(k); return a }

// SignStd signs msg with the key's default algorithm using only the Go
// standard library (independent of zcrypto's signing code).
func SignStd(k *keys.Key, msg []byte) []byte {
	_, h := sigAlgDER(k)
	var digest []byte
	switch h {
	case crypto.SHA256:
		d := sha256.Sum256(msg)
		digest = d[:]
	case crypto.SHA384:
		d := sha512.Sum384(msg)
		digest = d[:]
	case crypto.SHA512:
		d := sha512.Sum512(msg)
		digest = d[:]
	}
	switch k.Kind {
	case "rsa":
		s, err := stdrsa.SignPKCS1v15(rand.Reader, k.StdPriv.(*stdrsa.PrivateKey), h, digest)
		if err != nil {
			panic(err)
		}
		return s
	case "ec":
		s, err := ecdsa.SignASN1(rand.Reader, k.StdPriv.(*ecdsa.PrivateKey), digest)
		if err != nil {
			panic(err)
		}
		return s
	case "ed25519":
		return ed25519.Sign(k.StdPriv.(ed25519.PrivateKey), msg)
	}
	panic("pki: cannot sign with " + k.Kind)
}

// AssembleCert wraps TBS bytes into Certificate ::= SEQUENCE { tbs, alg, BIT STRING sig }.
func AssembleCert(tbs, algDER, sig []byte) []byte {
	return der.Seq(tbs, algDER, der.BitString(sig))
}

// ResignTBS signs arbitrary TBS bytes with signer's default algorithm and
// returns the certificate DER.  The TBS' inner signature algorithm field is the
// caller's business (zcrypto does not compare inner and outer algorithm unless
// it says so).
func ResignTBS(tbs []byte, signer *keys.Key) []byte {
	return AssembleCert(tbs, DefaultSigAlgDER(signer), SignStd(signer, tbs))
}
