package c28

// Independent TLS <= 1.2 cryptography for the C28 oracle, transcribed from
// RFC 2246/4346/5246 (PRF, key block, Finished), RFC 5288 (AES-GCM), RFC 7905
// (ChaCha20-Poly1305) and RFC 5246 6.2.3 (stream/CBC MAC-then-encrypt).  Only
// Go standard-library primitives (and x/crypto's chacha20poly1305) are used;
// nothing from zcrypto.

import (
	"bytes"
	"crypto"
	"crypto/aes"
	"crypto/cipher"
	"crypto/des"
	"crypto/ecdsa"
	"crypto/ed25519"
	"crypto/hmac"
	"crypto/md5"
	"crypto/rc4"
	"crypto/rsa"
	"crypto/sha1"
	"crypto/sha256"
	"crypto/sha512"
	"encoding/binary"
	"errors"
	"fmt"
	"hash"

	"golang.org/x/crypto/chacha20poly1305"
)

type suiteInfo struct {
	name   string
	kx     string // rsa | dhe_rsa | ecdhe_rsa | ecdhe_ecdsa
	cipher string // aes128cbc aes256cbc 3des rc4 aes128gcm aes256gcm chacha
	mac    string // sha1 | sha256 | "" (AEAD)
	sha384 bool   // TLS 1.2 PRF / handshake hash is SHA-384
	only12 bool   // defined for TLS 1.2 only
}

// IANA TLS Cipher Suite registry entries of the suites zcrypto implements.
var suites = map[uint16]suiteInfo{
	0x0005: {"TLS_RSA_WITH_RC4_128_SHA", "rsa", "rc4", "sha1", false, false},
	0x000a: {"TLS_RSA_WITH_3DES_EDE_CBC_SHA", "rsa", "3des", "sha1", false, false},
	0x002f: {"TLS_RSA_WITH_AES_128_CBC_SHA", "rsa", "aes128cbc", "sha1", false, false},
	0x0035: {"TLS_RSA_WITH_AES_256_CBC_SHA", "rsa", "aes256cbc", "sha1", false, false},
	0x003c: {"TLS_RSA_WITH_AES_128_CBC_SHA256", "rsa", "aes128cbc", "sha256", false, true},
	0x003d: {"TLS_RSA_WITH_AES_256_CBC_SHA256", "rsa", "aes256cbc", "sha256", false, true},
	0x009c: {"TLS_RSA_WITH_AES_128_GCM_SHA256", "rsa", "aes128gcm", "", false, true},
	0x009d: {"TLS_RSA_WITH_AES_256_GCM_SHA384", "rsa", "aes256gcm", "", true, true},
	0x0016: {"TLS_DHE_RSA_WITH_3DES_EDE_CBC_SHA", "dhe_rsa", "3des", "sha1", false, false},
	0x0033: {"TLS_DHE_RSA_WITH_AES_128_CBC_SHA", "dhe_rsa", "aes128cbc", "sha1", false, false},
	0x0039: {"TLS_DHE_RSA_WITH_AES_256_CBC_SHA", "dhe_rsa", "aes256cbc", "sha1", false, false},
	0x0067: {"TLS_DHE_RSA_WITH_AES_128_CBC_SHA256", "dhe_rsa", "aes128cbc", "sha256", false, true},
	0x006b: {"TLS_DHE_RSA_WITH_AES_256_CBC_SHA256", "dhe_rsa", "aes256cbc", "sha256", false, true},
	0x009e: {"TLS_DHE_RSA_WITH_AES_128_GCM_SHA256", "dhe_rsa", "aes128gcm", "", false, true},
	0x009f: {"TLS_DHE_RSA_WITH_AES_256_GCM_SHA384", "dhe_rsa", "aes256gcm", "", true, true},
	0xccaa: {"TLS_DHE_RSA_WITH_CHACHA20_POLY1305_SHA256", "dhe_rsa", "chacha", "", false, true},
	0xc007: {"TLS_ECDHE_ECDSA_WITH_RC4_128_SHA", "ecdhe_ecdsa", "rc4", "sha1", false, false},
	0xc009: {"TLS_ECDHE_ECDSA_WITH_AES_128_CBC_SHA", "ecdhe_ecdsa", "aes128cbc", "sha1", false, false},
	0xc00a: {"TLS_ECDHE_ECDSA_WITH_AES_256_CBC_SHA", "ecdhe_ecdsa", "aes256cbc", "sha1", false, false},
	0xc011: {"TLS_ECDHE_RSA_WITH_RC4_128_SHA", "ecdhe_rsa", "rc4", "sha1", false, false},
	0xc012: {"TLS_ECDHE_RSA_WITH_3DES_EDE_CBC_SHA", "ecdhe_rsa", "3des", "sha1", false, false},
	0xc013: {"TLS_ECDHE_RSA_WITH_AES_128_CBC_SHA", "ecdhe_rsa", "aes128cbc", "sha1", false, false},
	0xc014: {"TLS_ECDHE_RSA_WITH_AES_256_CBC_SHA", "ecdhe_rsa", "aes256cbc", "sha1", false, false},
	0xc023: {"TLS_ECDHE_ECDSA_WITH_AES_128_CBC_SHA256", "ecdhe_ecdsa", "aes128cbc", "sha256", false, true},
	0xc027: {"TLS_ECDHE_RSA_WITH_AES_128_CBC_SHA256", "ecdhe_rsa", "aes128cbc", "sha256", false, true},
	0xc02b: {"TLS_ECDHE_ECDSA_WITH_AES_128_GCM_SHA256", "ecdhe_ecdsa", "aes128gcm", "", false, true},
	0xc02c: {"TLS_ECDHE_ECDSA_WITH_AES_256_GCM_SHA384", "ecdhe_ecdsa", "aes256gcm", "", true, true},
	0xc02f: {"TLS_ECDHE_RSA_WITH_AES_128_GCM_SHA256", "ecdhe_rsa", "aes128gcm", "", false, true},
	0xc030: {"TLS_ECDHE_RSA_WITH_AES_256_GCM_SHA384", "ecdhe_rsa", "aes256gcm", "", true, true},
	0xcca8: {"TLS_ECDHE_RSA_WITH_CHACHA20_POLY1305_SHA256", "ecdhe_rsa", "chacha", "", false, true},
	0xcca9: {"TLS_ECDHE_ECDSA_WITH_CHACHA20_POLY1305_SHA256", "ecdhe_ecdsa", "chacha", "", false, true},
}

func (s suiteInfo) lens() (mac, key, iv int) {
	switch s.mac {
	case "sha1":
		mac = 20
	case "sha256":
		mac = 32
	}
	switch s.cipher {
	case "aes128cbc":
		key, iv = 16, 16
	case "aes256cbc":
		key, iv = 32, 16
	case "3des":
		key, iv = 24, 8
	case "rc4":
		key, iv = 16, 0
	case "aes128gcm":
		key, iv = 16, 4
	case "aes256gcm":
		key, iv = 32, 4
	case "chacha":
		key, iv = 32, 12
	}
	return
}

// pHash is P_hash of RFC 5246 section 5.
func pHash(h func() hash.Hash, secret, seed []byte, n int) []byte {
	var out []byte
	mac := hmac.New(h, secret)
	mac.Write(seed)
	a := mac.Sum(nil)
	for len(out) < n {
		mac.Reset()
		mac.Write(a)
		mac.Write(seed)
		out = mac.Sum(out)
		mac.Reset()
		mac.Write(a)
		a = mac.Sum(nil)
	}
	return out[:n]
}

// prf is the TLS PRF for the version (and, in TLS 1.2, the suite's hash).
func prf(version uint16, s suiteInfo, secret []byte, label string, seed []byte, n int) []byte {
	ls := append([]byte(label), seed...)
	if version >= 0x0303 {
		if s.sha384 {
			return pHash(sha512.New384, secret, ls, n)
		}
		return pHash(sha256.New, secret, ls, n)
	}
	// RFC 2246 section 5: split the secret, XOR P_MD5 and P_SHA-1
	half := (len(secret) + 1) / 2
	s1, s2 := secret[:half], secret[len(secret)-half:]
	a := pHash(md5.New, s1, ls, n)
	b := pHash(sha1.New, s2, ls, n)
	for i := range a {
		a[i] ^= b[i]
	}
	return a
}

func masterSecret(version uint16, s suiteInfo, pms, clientRandom, serverRandom []byte) []byte {
	return prf(version, s, pms, "master secret", append(append([]byte{}, clientRandom...), serverRandom...), 48)
}

// transcriptHash is Hash(handshake_messages) as used by Finished.
func transcriptHash(version uint16, s suiteInfo, msgs [][]byte) []byte {
	if version >= 0x0303 {
		var h hash.Hash = sha256.New()
		if s.sha384 {
			h = sha512.New384()
		}
		for _, m := range msgs {
			h.Write(m)
		}
		return h.Sum(nil)
	}
	m5, s1 := md5.New(), sha1.New()
	for _, m := range msgs {
		m5.Write(m)
		s1.Write(m)
	}
	return s1.Sum(m5.Sum(nil))
}

func finishedVerifyData(version uint16, s suiteInfo, master []byte, client bool, msgs [][]byte) []byte {
	label := "server finished"
	if client {
		label = "client finished"
	}
	return prf(version, s, master, label, transcriptHash(version, s, msgs), 12)
}

type keySet struct {
	clientMAC, serverMAC, clientKey, serverKey, clientIV, serverIV []byte
}

func keyBlock(version uint16, s suiteInfo, master, clientRandom, serverRandom []byte) keySet {
	m, k, iv := s.lens()
	kb := prf(version, s, master, "key expansion", append(append([]byte{}, serverRandom...), clientRandom...), 2*m+2*k+2*iv)
	cut := func(n int) []byte { v := kb[:n]; kb = kb[n:]; return v }
	var ks keySet
	ks.clientMAC, ks.serverMAC = cut(m), cut(m)
	ks.clientKey, ks.serverKey = cut(k), cut(k)
	ks.clientIV, ks.serverIV = cut(iv), cut(iv)
	return ks
}

// decryptFirst decrypts the FIRST record sent under a new cipher state
// (sequence number 0) and returns the plaintext fragment.
func decryptFirst(version uint16, s suiteInfo, macKey, key, iv []byte, recType uint8, recVersion uint16, body []byte) ([]byte, error) {
	seq := make([]byte, 8)
	hdr := func(n int) []byte {
		h := append([]byte{}, seq...)
		h = append(h, recType, byte(recVersion>>8), byte(recVersion))
		return append(h, byte(n>>8), byte(n))
	}
	checkMAC := func(plainAndMAC []byte) ([]byte, error) {
		var hf func() hash.Hash = sha1.New
		ml := 20
		if s.mac == "sha256" {
			hf, ml = sha256.New, 32
		}
		if len(plainAndMAC) < ml {
			return nil, errors.New("record shorter than its MAC")
		}
		plain, tag := plainAndMAC[:len(plainAndMAC)-ml], plainAndMAC[len(plainAndMAC)-ml:]
		mac := hmac.New(hf, macKey)
		mac.Write(hdr(len(plain)))
		mac.Write(plain)
		if !hmac.Equal(mac.Sum(nil), tag) {
			return nil, errors.New("bad record MAC")
		}
		return plain, nil
	}
	switch s.cipher {
	case "aes128gcm", "aes256gcm":
		blk, err := aes.NewCipher(key)
		if err != nil {
			return nil, err
		}
		g, _ := cipher.NewGCM(blk)
		if len(body) < 8+16 {
			return nil, errors.New("GCM record too short")
		}
		nonce := append(append([]byte{}, iv...), body[:8]...)
		return g.Open(nil, nonce, body[8:], hdr(len(body)-8-16))
	case "chacha":
		a, err := chacha20poly1305.New(key)
		if err != nil {
			return nil, err
		}
		if len(body) < 16 {
			return nil, errors.New("ChaCha record too short")
		}
		nonce := append([]byte{}, iv...) // iv XOR (0^4 || seq), seq = 0
		return a.Open(nil, nonce, body, hdr(len(body)-16))
	case "rc4":
		c, err := rc4.NewCipher(key)
		if err != nil {
			return nil, err
		}
		out := make([]byte, len(body))
		c.XORKeyStream(out, body)
		return checkMAC(out)
	case "aes128cbc", "aes256cbc", "3des":
		var blk cipher.Block
		var err error
		if s.cipher == "3des" {
			blk, err = des.NewTripleDESCipher(key)
		} else {
			blk, err = aes.NewCipher(key)
		}
		if err != nil {
			return nil, err
		}
		bs := blk.BlockSize()
		civ := iv
		if version >= 0x0302 { // explicit IV (RFC 4346 6.2.3.2)
			if len(body) < bs {
				return nil, errors.New("CBC record shorter than its IV")
			}
			civ, body = body[:bs], body[bs:]
		}
		if len(body) == 0 || len(body)%bs != 0 {
			return nil, fmt.Errorf("CBC record length %d not a multiple of %d", len(body), bs)
		}
		out := make([]byte, len(body))
		cipher.NewCBCDecrypter(blk, civ).CryptBlocks(out, body)
		pad := int(out[len(out)-1])
		if pad+1 > len(out) {
			return nil, errors.New("bad CBC padding length")
		}
		for _, b := range out[len(out)-pad-1:] {
			if int(b) != pad {
				return nil, errors.New("bad CBC padding bytes")
			}
		}
		return checkMAC(out[:len(out)-pad-1])
	}
	return nil, fmt.Errorf("unknown cipher %q", s.cipher)
}

// ---------------------------------------------------------------------------
// signature algorithms as named on the wire

type wireSig struct {
	family string      // rsa-pkcs1 | rsa-pss | dsa | ecdsa | ed25519 | unknown
	hash   string      // md5 sha1 sha224 sha256 sha384 sha512 | intrinsic
	h      crypto.Hash // 0 for intrinsic
}

var hashByID = map[uint8]struct {
	name string
	h    crypto.Hash
}{1: {"md5", crypto.MD5}, 2: {"sha1", crypto.SHA1}, 3: {"sha224", crypto.SHA224}, 4: {"sha256", crypto.SHA256}, 5: {"sha384", crypto.SHA384}, 6: {"sha512", crypto.SHA512}}

// nameScheme interprets the two SignatureAndHashAlgorithm / SignatureScheme bytes
// (RFC 5246 7.4.1.4.1, RFC 8446 4.2.3).
func nameScheme(hashByte, sigByte uint8) wireSig {
	if hashByte == 8 {
		switch sigByte {
		case 4:
			return wireSig{"rsa-pss", "sha256", crypto.SHA256}
		case 5:
			return wireSig{"rsa-pss", "sha384", crypto.SHA384}
		case 6:
			return wireSig{"rsa-pss", "sha512", crypto.SHA512}
		case 7:
			return wireSig{"ed25519", "intrinsic", 0}
		}
		return wireSig{family: "unknown"}
	}
	h, ok := hashByID[hashByte]
	if !ok {
		return wireSig{family: "unknown"}
	}
	switch sigByte {
	case 1:
		return wireSig{"rsa-pkcs1", h.name, h.h}
	case 2:
		return wireSig{"dsa", h.name, h.h}
	case 3:
		return wireSig{"ecdsa", h.name, h.h}
	}
	return wireSig{family: "unknown"}
}

// JSON names zcrypto may use for each family (tls_names.go signatureNames):
// the generic and the specific RSA names are both accepted.
var sigNamesOK = map[string][]string{
	"rsa-pkcs1": {"rsa", "pkcs1v15"},
	"rsa-pss":   {"rsa", "rsapss"},
	"dsa":       {"dsa"},
	"ecdsa":     {"ecdsa"},
	"ed25519":   {"ed25519"},
}
var hashNamesOK = map[string][]string{
	"md5": {"md5"}, "sha1": {"sha1"}, "sha224": {"sha224"}, "sha256": {"sha256"}, "sha384": {"sha384"}, "sha512": {"sha512"},
	"intrinsic": {"intrinsic", "none"},
}

func oneOf(s string, l []string) bool {
	for _, x := range l {
		if x == s {
			return true
		}
	}
	return false
}

// skxDigest recomputes what the server signed (RFC 5246 7.4.3, RFC 4492 5.4):
// for TLS 1.2 the named hash over client_random || server_random || params, for
// earlier versions MD5||SHA-1 (RSA) or SHA-1 (ECDSA); Ed25519 signs the
// concatenation itself.
func skxDigest(version uint16, ws wireSig, rsaKey bool, cr, sr, params []byte) []byte {
	msg := append(append(append([]byte{}, cr...), sr...), params...)
	if version >= 0x0303 {
		if ws.h == 0 {
			return msg
		}
		h := ws.h.New()
		h.Write(msg)
		return h.Sum(nil)
	}
	s := sha1.Sum(msg)
	if rsaKey {
		m := md5.Sum(msg)
		return append(m[:], s[:]...)
	}
	return s[:]
}

// verifySKX verifies the ServerKeyExchange signature with the Go standard library.
func verifySKX(version uint16, ws wireSig, pub any, digest, sig []byte) error {
	switch k := pub.(type) {
	case *rsa.PublicKey:
		if version < 0x0303 {
			return rsa.VerifyPKCS1v15(k, crypto.MD5SHA1, digest, sig)
		}
		switch ws.family {
		case "rsa-pkcs1":
			return rsa.VerifyPKCS1v15(k, ws.h, digest, sig)
		case "rsa-pss":
			return rsa.VerifyPSS(k, ws.h, digest, sig, &rsa.PSSOptions{SaltLength: rsa.PSSSaltLengthEqualsHash})
		}
		return fmt.Errorf("RSA key with %s signature", ws.family)
	case *ecdsa.PublicKey:
		if version >= 0x0303 && ws.family != "ecdsa" {
			return fmt.Errorf("ECDSA key with %s signature", ws.family)
		}
		if !ecdsa.VerifyASN1(k, digest, sig) {
			return errors.New("ECDSA verification failed")
		}
		return nil
	case ed25519.PublicKey:
		if !ed25519.Verify(k, digest, sig) {
			return errors.New("Ed25519 verification failed")
		}
		return nil
	}
	return fmt.Errorf("unsupported key type %T", pub)
}

func be16(v uint16) []byte { b := make([]byte, 2); binary.BigEndian.PutUint16(b, v); return b }

var _ = bytes.Equal
