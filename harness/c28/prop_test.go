// Package c28 checks property C28: after a client handshake every populated
// part of Conn.GetHandshakeLog() equals what was exchanged on the wire (parsed
// by the harness' own TLS parser, package tlswire) and the secrets the
// connection actually used (the captured encrypted Finished records are
// decrypted with keys derived - by the harness' own PRF - from the LOGGED
// master secret).
//
// "Populated" is read conservatively (DESIGN.md, C28): a true boolean, a
// non-empty byte string / list, a non-zero scalar or a non-nil sub-structure
// must agree with the wire; false / empty / nil asserts nothing.  A length field
// that contradicts the value next to it is reported.
package c28

import (
	"bytes"
	"crypto/ecdh"
	"crypto/elliptic"
	stdrsa "crypto/rsa"
	"encoding/base64"
	"encoding/json"
	"fmt"
	"math/big"
	"os"
	"strings"
	"testing"
	"time"

	"github.com/zmap/zcrypto/tls"
	"pgregory.net/rapid"
	"verifharness/keys"
	"verifharness/kit"
	"verifharness/tlskit"
	"verifharness/tlswire"
)

type sctV1 struct {
	logID, ext, sig []byte
	ts              uint64
	hash, sigAlg    byte
}

// readSCTv1 reads a v1 SignedCertificateTimestamp from the front of b (RFC 6962 section 3.2).
func readSCTv1(b []byte) (s sctV1, ok bool) {
	if len(b) < 1+32+8+2 || b[0] != 0 {
		return s, false
	}
	s.logID = b[1:33]
	for _, x := range b[33:41] {
		s.ts = s.ts<<8 | uint64(x)
	}
	b = b[41:]
	n := int(b[0])<<8 | int(b[1])
	if len(b) < 2+n+4 {
		return s, false
	}
	s.ext = b[2 : 2+n]
	b = b[2+n:]
	s.hash, s.sigAlg = b[0], b[1]
	m := int(b[2])<<8 | int(b[3])
	if len(b) < 4+m {
		return s, false
	}
	s.sig = b[4 : 4+m]
	return s, true
}

type Case struct {
	Key        string   `json:"key"`     // server key (pool name)
	Version    uint16   `json:"version"` // MaxVersion of both sides (client MinVersion is TLS 1.0)
	Suite      uint16   `json:"suite"`   // the suite the server is restricted to (TLS <= 1.2)
	Extra      []uint16 `json:"extra"`   // further suites offered by the client
	SuiteFirst bool     `json:"suite_first"`
	Curve      uint16   `json:"curve"` // 0: defaults, else CurvePreferences = [curve] on both sides
	ClientALPN []string `json:"client_alpn"`
	ServerALPN []string `json:"server_alpn"`
	OCSP       []byte   `json:"ocsp"`        // stapled response
	SCTs       [][]byte `json:"scts"`        // served SCT list
	SendCA     bool     `json:"send_ca"`     // server chain = leaf + CA
	ServerSig  uint16   `json:"server_sig"`  // Certificate.SupportedSignatureAlgorithms = [it] (0: unrestricted)
	Tickets    string   `json:"tickets"`     // "none": no client cache; "on"; "server-off": server SessionTicketsDisabled
	ForceTkt   bool     `json:"force_tkt"`   // Config.ForceSessionTicketExt
	Resume     bool     `json:"resume"`      // run a second handshake on the same cache and check its log too
	Rotate     bool     `json:"rotate"`      // rotate the server's ticket key before the second handshake (the server then re-issues a ticket while resuming)
	ClientCert bool     `json:"client_cert"` // server requests, client sends a certificate
	ServerRand []byte   `json:"server_rand"` // Config.ServerRandom (32 bytes or empty)
	Mode       string   `json:"mode"`        // "default" | "fingerprint" | "external"
	// fingerprint / external hello contents
	HRandom  []byte   `json:"h_random"`  // 32 bytes or empty (fingerprint: fresh)
	HSession []byte   `json:"h_session"` // session id
	HTicket  []byte   `json:"h_ticket"`  // session_ticket extension contents (nil: extension absent unless empty-but-present)
	HHasTkt  bool     `json:"h_has_tkt"`
	HSigAlgs []uint16 `json:"h_sigalgs"` // signature_algorithms (empty: extension absent)
	HOrder   []string `json:"h_order"`   // order of optional extensions: sni alpn status sct ems reneg ticket
	ExtCache bool     `json:"ext_cache"` // external mode: also set Config.ClientSessionCache
	HSupVer  bool     `json:"h_supver"`  // external mode: the hello carries supported_versions
}

const host = "example.test"

var debugFail = os.Getenv("C28_DEBUG") != ""

// ---------------------------------------------------------------------------

type wire struct {
	cf, sf    *tlswire.Flight
	ch        *tlswire.ClientHello
	chRaw     []byte
	sh        *tlswire.ServerHello
	version   uint16 // negotiated
	tls13     bool
	suite     suiteInfo
	knownSuit bool
}

type run struct {
	log     *tls.ServerHandshake
	srvLog  *tls.ServerHandshake
	w       *wire
	resumed bool // client reported DidResume
}

func flights(r *kit.R, p *tlskit.Proxy) (*tlswire.Flight, *tlswire.Flight) {
	parse := func(dir int, who string) *tlswire.Flight {
		var recs []tlswire.Record
		for _, rec := range p.T.Records(dir) {
			pr, err := tlswire.ParseRecord(rec.Raw)
			if err != nil {
				r.Failf("C28:wire-malformed", "%s flight: %v", who, err)
			}
			recs = append(recs, pr)
		}
		f, err := tlswire.Reassemble(recs)
		if err != nil {
			r.Failf("C28:wire-malformed", "%s flight: %v", who, err)
		}
		return f
	}
	return parse(tlskit.ClientToServer, "client"), parse(tlskit.ServerToClient, "server")
}

func (c Case) serverConfig() *tls.Config {
	id := tlskit.NewIdentity(keys.ByName(c.Key), host)
	cert := id.Cert
	if c.SendCA {
		cert.Certificate = [][]byte{id.Leaf.Raw, id.CA.Raw}
	}
	cert.OCSPStaple = c.OCSP
	cert.SignedCertificateTimestamps = c.SCTs
	if c.ServerSig != 0 {
		cert.SupportedSignatureAlgorithms = []tls.SignatureScheme{tls.SignatureScheme(c.ServerSig)}
	}
	cfg := &tls.Config{Time: tlskit.Now, Certificates: []tls.Certificate{cert}, MinVersion: tls.VersionTLS10, MaxVersion: c.Version,
		NextProtos: c.ServerALPN, SessionTicketsDisabled: c.Tickets == "server-off"}
	if c.Version < tls.VersionTLS13 {
		cfg.CipherSuites = []uint16{c.Suite}
	}
	if c.Curve != 0 {
		cfg.CurvePreferences = []tls.CurveID{tls.CurveID(c.Curve)}
	}
	if len(c.ServerRand) == 32 {
		cfg.ServerRandom = c.ServerRand
	}
	if c.ClientCert {
		cfg.ClientAuth = tls.RequireAnyClientCert
	}
	if c.Rotate {
		cfg.SetSessionTicketKeys([][32]byte{{1, 1, 1}})
	}
	return cfg
}

func (c Case) clientSuites() []uint16 {
	if c.SuiteFirst {
		return append([]uint16{c.Suite}, c.Extra...)
	}
	return append(append([]uint16{}, c.Extra...), c.Suite)
}

func (c Case) clientConfig(cache tls.ClientSessionCache) *tls.Config {
	id := tlskit.NewIdentity(keys.ByName(c.Key), host)
	cfg := &tls.Config{Time: tlskit.Now, RootCAs: id.Roots, ServerName: host, MinVersion: tls.VersionTLS10, MaxVersion: c.Version,
		NextProtos: c.ClientALPN, ForceSessionTicketExt: c.ForceTkt}
	if c.Version < tls.VersionTLS13 {
		// ForceSuites: makeClientHello otherwise drops implemented DHE_RSA / *_SHA256 suites (C24's subject)
		cfg.ForceSuites = true
		cfg.CipherSuites = c.clientSuites()
	}
	if c.Curve != 0 {
		cfg.CurvePreferences = []tls.CurveID{tls.CurveID(c.Curve)}
	}
	if c.Tickets != "none" {
		cfg.ClientSessionCache = cache
	}
	if c.ClientCert {
		cid := tlskit.NewIdentity(keys.ByName("ecP-256-1"), "client.test")
		cfg.Certificates = []tls.Certificate{cid.Cert}
	}
	switch c.Mode {
	case "fingerprint":
		cfg.ClientFingerprintConfiguration = c.fingerprint()
		cfg.ClientSessionCache = nil // known C29 finding: panics together with a fingerprint
	case "external":
		cfg.ExternalClientHello = c.externalHello()
		if !c.ExtCache {
			cfg.ClientSessionCache = nil
		}
	}
	return cfg
}

func (c Case) curveList() []uint16 {
	if c.Curve != 0 {
		return []uint16{c.Curve}
	}
	return []uint16{29, 23, 24, 25}
}

func (c Case) fingerprint() *tls.ClientFingerprintConfiguration {
	fp := &tls.ClientFingerprintConfiguration{HandshakeVersion: c.Version, ClientRandom: c.HRandom, SessionID: c.HSession,
		CipherSuites: c.clientSuites(), CompressionMethods: []uint8{0}}
	var cs []tls.CurveID
	for _, g := range c.curveList() {
		cs = append(cs, tls.CurveID(g))
	}
	fp.Extensions = append(fp.Extensions, &tls.SupportedCurvesExtension{Curves: cs}, &tls.PointFormatExtension{Formats: []uint8{0}})
	if len(c.HSigAlgs) > 0 {
		fp.Extensions = append(fp.Extensions, &tls.SignatureAlgorithmExtension{SignatureAndHashes: c.HSigAlgs})
	}
	for _, k := range c.HOrder {
		switch k {
		case "sni":
			fp.Extensions = append(fp.Extensions, &tls.SNIExtension{Domains: []string{host}})
		case "alpn":
			if len(c.ClientALPN) > 0 {
				fp.Extensions = append(fp.Extensions, &tls.ALPNExtension{Protocols: c.ClientALPN})
			}
		case "status":
			fp.Extensions = append(fp.Extensions, &tls.StatusRequestExtension{})
		case "sct":
			fp.Extensions = append(fp.Extensions, &tls.SCTExtension{})
		case "ems":
			fp.Extensions = append(fp.Extensions, &tls.ExtendedMasterSecretExtension{})
		case "reneg":
			fp.Extensions = append(fp.Extensions, &tls.SecureRenegotiationExtension{})
		case "ticket":
			if c.HHasTkt {
				fp.Extensions = append(fp.Extensions, &tls.SessionTicketExtension{Ticket: c.HTicket})
			}
		}
	}
	return fp
}

// externalHello builds raw ClientHello bytes with the harness' own encoders.
func (c Case) externalHello() []byte {
	random := c.HRandom
	if len(random) != 32 {
		random = bytes.Repeat([]byte{0x5a}, 32)
	}
	var ext []byte
	ext = append(ext, tlswire.EncSupportedGroups(c.curveList())...)
	ext = append(ext, tlswire.EncPointFormats([]uint8{0})...)
	if len(c.HSigAlgs) > 0 {
		ext = append(ext, tlswire.EncSignatureAlgorithms(c.HSigAlgs)...)
	}
	for _, k := range c.HOrder {
		switch k {
		case "sni":
			ext = append(ext, tlswire.EncSNI(host)...)
		case "alpn":
			if len(c.ClientALPN) > 0 {
				ext = append(ext, tlswire.EncALPN(c.ClientALPN)...)
			}
		case "status":
			ext = append(ext, tlswire.EncStatusRequestOCSP()...)
		case "sct":
			ext = append(ext, tlswire.EncSCT()...)
		case "ems":
			ext = append(ext, tlswire.EncExtendedMasterSecret()...)
		case "reneg":
			ext = append(ext, tlswire.EncRenegotiationInfo(nil)...)
		case "ticket":
			if c.HHasTkt {
				ext = append(ext, tlswire.EncSessionTicket(c.HTicket)...)
			}
		}
	}
	if c.HSupVer {
		var vs []byte
		for ver := c.Version; ver >= 0x0301; ver-- {
			vs = append(vs, byte(ver>>8), byte(ver))
		}
		ext = append(ext, tlswire.Ext(tlswire.ExtSupportedVersions, append([]byte{byte(len(vs))}, vs...))...)
	}
	return tlswire.EncClientHello(c.Version, random, c.HSession, c.clientSuites(), []uint8{0}, ext, true)
}

// both runs the two handshakes concurrently with panic containment
// (tlskit.Handshake has none inside its goroutines) and a time limit.
func both(cli, srv *tls.Conn, p *tlskit.Proxy, limit time.Duration) (res tlskit.Result, cg, sg kit.GuardResult) {
	done := make(chan struct{}, 2)
	go func() {
		cg = kit.GuardInline(func() { res.ClientErr = cli.Handshake() })
		if cg.Panicked {
			p.Client.Close() // the Conn may still hold its handshake mutex
		} else if res.ClientErr != nil {
			cli.Close()
		}
		done <- struct{}{}
	}()
	go func() {
		sg = kit.GuardInline(func() { res.ServerErr = srv.Handshake() })
		if sg.Panicked {
			p.Server.Close()
		} else if res.ServerErr != nil {
			srv.Close()
		}
		done <- struct{}{}
	}()
	timer := time.After(limit)
	for i := 0; i < 2; i++ {
		select {
		case <-done:
		case <-timer:
			res.TimedOut = true
			p.Client.Close()
			p.Server.Close()
			for ; i < 2; i++ {
				<-done
			}
			return
		}
	}
	return
}

// handshake runs one client<->server handshake through the recording proxy.
func handshake(r *kit.R, cliCfg, srvCfg *tls.Config) (*run, tlskit.Result) {
	p := tlskit.NewProxy(nil)
	cli := tls.Client(p.Client, cliCfg)
	srv := tls.Server(p.Server, srvCfg)
	res, cg, sg := both(cli, srv, p, 15*time.Second)
	if cg.Panicked && cliCfg.ExternalClientHello != nil && cliCfg.ClientSessionCache != nil && strings.HasSuffix(cg.Site, "loadSession") {
		p.Client.Close()
		p.Server.Close()
		if !r.Known(keyExtNoSupVer) {
			r.Failf(keyExtNoSupVer, "Config{ExternalClientHello (without supported_versions), ClientSessionCache}: Handshake panics in loadSession (hello.supportedVersions[0]): %v\n%s", cg.PanicVal, cg.Stack)
		}
		r.Skip()
	}
	if cg.Panicked || sg.Panicked {
		p.Client.Close()
		p.Server.Close()
	}
	r.Must(cg, "client handshake")
	r.Must(sg, "server handshake")
	out := &run{log: cli.GetHandshakeLog(), srvLog: srv.GetHandshakeLog()}
	if res.ClientErr == nil && res.ServerErr == nil && !res.TimedOut {
		out.resumed = cli.ConnectionState().DidResume
	}
	cli.Close()
	srv.Close()
	p.Wait()
	if res.ClientErr != nil || res.ServerErr != nil || res.TimedOut {
		return out, res
	}
	w := &wire{}
	w.cf, w.sf = flights(r, p)
	out.w = w
	return out, res
}

// ---------------------------------------------------------------------------

func check(c Case, r *kit.R) {
	srvCfg := c.serverConfig()
	cache := tls.NewLRUClientSessionCache(4)
	first, res := handshake(r, c.clientConfig(cache), srvCfg)
	r.Class("mode=" + c.Mode)
	if first.w == nil {
		r.Class("handshake-failed")
		r.Class(fmt.Sprintf("handshake-failed:%s", shortErr(res)))
		if debugFail {
			r.Class(fmt.Sprintf("F v=%04x suite=%04x key=%s sig=%04x curve=%d mode=%s cc=%v", c.Version, c.Suite, c.Key, c.ServerSig, c.Curve, c.Mode, c.ClientCert))
		}
		r.Skip() // which configurations interoperate is C24's subject
	}
	v := &verifier{c: c, r: r, run: first}
	v.all()
	if c.Resume && c.Tickets != "none" && c.Mode == "default" {
		if c.Rotate {
			srvCfg.SetSessionTicketKeys([][32]byte{{2, 2, 2}, {1, 1, 1}})
		}
		second, res := handshake(r, c.clientConfig(cache), srvCfg)
		if second.w == nil {
			r.Class("second-handshake-failed:" + shortErr(res))
			r.Skip()
		}
		v2 := &verifier{c: c, r: r, run: second, second: true, prev: first}
		v2.all()
		if second.resumed && second.w.sf.Find(tlswire.HsNewSessionTicket) != nil {
			r.Class("resumed-with-new-ticket")
		}
		if second.resumed {
			r.Class("resumed")
			r.NonTrivial()
		} else {
			r.Class("second-not-resumed")
		}
	}
	if v.ntr {
		r.NonTrivial()
	}
}

func shortErr(res tlskit.Result) string {
	s := "timeout"
	if res.ClientErr != nil {
		s = "client: " + res.ClientErr.Error()
	} else if res.ServerErr != nil {
		s = "server: " + res.ServerErr.Error()
	}
	if len(s) > 70 {
		s = s[:70]
	}
	return s
}

// ---------------------------------------------------------------------------
// verifier

type verifier struct {
	c      Case
	r      *kit.R
	run    *run
	second bool
	prev   *run
	js     map[string]any
	ntr    bool
}

const (
	keySKXHash     = "C28:skx-sigalg-hash"
	keyCHTicket    = "C28:ch-ticket-value-missing"
	keyCHEd25519   = "C28:ch-sigalg-ed25519-hash"
	keyExtTicket   = "C28:external-hello-ticket-not-on-wire"
	keyExtNoSupVer = "C28:external-hello-session-cache-panic"
)

func (v *verifier) failf(key, format string, a ...any) {
	which := "first handshake"
	if v.second {
		which = "second handshake"
	}
	v.r.Failf(key, which+": "+format, a...)
}

// known reports a finding but lets the case continue when it is listed.
func (v *verifier) known(key, format string, a ...any) {
	if !v.r.Known(key) {
		v.failf(key, format, a...)
	}
}

func (v *verifier) all() {
	w, log := v.run.w, v.run.log
	if log == nil {
		v.failf("C28:no-log", "GetHandshakeLog() is nil after a successful handshake")
	}
	chm := w.cf.Find(tlswire.HsClientHello)
	shm := w.sf.Find(tlswire.HsServerHello)
	if chm == nil || shm == nil || &w.cf.Msgs[0] != chm || &w.sf.Msgs[0] != shm {
		v.failf("C28:wire-malformed", "flights do not start with ClientHello / ServerHello")
	}
	var err error
	if w.ch, err = tlswire.ParseClientHello(chm.Body); err != nil {
		v.failf("C28:wire-malformed", "ClientHello: %v", err)
	}
	w.chRaw = chm.Raw
	if w.sh, err = tlswire.ParseServerHello(shm.Body); err != nil {
		v.failf("C28:wire-malformed", "ServerHello: %v", err)
	}
	w.version = w.sh.Version
	if d, n := w.sh.Ext(tlswire.ExtSupportedVersions); n > 0 {
		sv, err := tlswire.ParseServerSupportedVersions(d)
		if err != nil {
			v.failf("C28:wire-malformed", "ServerHello supported_versions: %v", err)
		}
		w.version = sv
	}
	w.tls13 = w.version == 0x0304
	w.suite, w.knownSuit = suites[w.sh.CipherSuite]
	if !w.tls13 && !w.knownSuit {
		v.failf("C28:harness", "negotiated suite %04x is not in the oracle table", w.sh.CipherSuite)
	}

	b, err := json.Marshal(log)
	if err != nil {
		v.failf("C28:json", "json.Marshal(GetHandshakeLog()): %v", err)
	}
	dec := json.NewDecoder(bytes.NewReader(b))
	dec.UseNumber()
	if err := dec.Decode(&v.js); err != nil {
		v.failf("C28:json", "the JSON encoding of the log does not decode: %v", err)
	}

	v.clientHello()
	v.serverHello()
	if w.tls13 {
		v.r.Class("tls13")
		v.certificates13()
		return
	}
	v.r.Class(fmt.Sprintf("v=%04x kx=%s cipher=%s", w.version, w.suite.kx, w.suite.cipher))
	resumedOnWire := w.sf.Find(tlswire.HsCertificate) == nil
	if resumedOnWire != v.run.resumed {
		v.failf("C28:harness", "resumption on the wire %v, ConnectionState.DidResume %v", resumedOnWire, v.run.resumed)
	}
	if w.sf.Find(tlswire.HsCertificateStatus) != nil {
		v.r.Class("ocsp-stapled")
	}
	if w.sf.Find(tlswire.HsCertificateRequest) != nil {
		v.r.Class("client-cert-requested")
	}
	if !resumedOnWire {
		v.certificates()
		v.serverKeyExchange()
		v.clientKeyExchange()
	} else {
		if log.ServerCertificates != nil || log.ServerKeyExchange != nil || log.ClientKeyExchange != nil {
			v.failf("C28:resumed-extra", "resumed handshake logs certificates / key exchange messages that were not exchanged")
		}
	}
	v.sessionTicket()
	v.secretsAndFinished(resumedOnWire)
	if w.version == 0x0303 && (w.suite.kx == "ecdhe_rsa" || w.suite.kx == "ecdhe_ecdsa") && !resumedOnWire {
		v.ntr = true
	}
	if d, n := w.ch.Ext(tlswire.ExtSessionTicket); n > 0 && len(d) > 0 {
		v.ntr = true
		v.r.Class("hello-carries-ticket")
	}
}

// jget walks the generic JSON value.
func (v *verifier) jget(path ...string) any {
	var cur any = v.js
	for _, p := range path {
		m, ok := cur.(map[string]any)
		if !ok {
			return nil
		}
		cur = m[p]
	}
	return cur
}

func jbytes(x any) ([]byte, bool) {
	s, ok := x.(string)
	if !ok {
		return nil, false
	}
	b, err := base64.StdEncoding.DecodeString(s)
	return b, err == nil
}

func jnum(x any) (int64, bool) {
	n, ok := x.(json.Number)
	if !ok {
		return 0, false
	}
	i, err := n.Int64()
	return i, err == nil
}

// jsonBytes: if the JSON value at path is present it must be the base64 of want.
func (v *verifier) jsonBytes(want []byte, path ...string) {
	x := v.jget(path...)
	if x == nil {
		return
	}
	b, ok := jbytes(x)
	if !ok || (len(b) > 0 && !bytes.Equal(b, want)) {
		v.failf("C28:json-mismatch", "JSON %s = %v, wire value %x", strings.Join(path, "."), x, want)
	}
}

func (v *verifier) jsonNum(want int64, path ...string) {
	x := v.jget(path...)
	if x == nil {
		return
	}
	n, ok := jnum(x)
	if !ok || (n != 0 && n != want) {
		v.failf("C28:json-mismatch", "JSON %s = %v, wire value %d", strings.Join(path, "."), x, want)
	}
}

func hasExt(exts []tlswire.Extension, t uint16) ([]byte, bool) {
	for _, e := range exts {
		if e.Type == t {
			return e.Data, true
		}
	}
	return nil, false
}

// sigPairOK checks a logged SignatureAndHash (by its JSON names) against a wire code point.
func sigPairOK(sigName, hashName string, scheme uint16) (sigOK, hashOK bool) {
	ws := nameScheme(uint8(scheme>>8), uint8(scheme))
	if ws.family == "unknown" {
		return false, false
	}
	return oneOf(sigName, sigNamesOK[ws.family]), oneOf(hashName, hashNamesOK[ws.hash])
}

func sigNames(r *kit.R, sh *tls.SignatureAndHash) (string, string) {
	b, err := json.Marshal(sh)
	if err != nil {
		r.Failf("C28:json", "SignatureAndHash.MarshalJSON: %v", err)
	}
	var aux struct {
		S string `json:"signature_algorithm"`
		H string `json:"hash_algorithm"`
	}
	json.Unmarshal(b, &aux)
	return aux.S, aux.H
}

func (v *verifier) clientHello() {
	w, l := v.run.w.ch, v.run.log.ClientHello
	if l == nil {
		return
	}
	f := func(what string, got, want any) {
		v.failf("C28:client-hello-"+what, "log.ClientHello.%s = %v, ClientHello on the wire has %v", what, got, want)
	}
	if l.Version != 0 && uint16(l.Version) != w.Version {
		f("version", l.Version, w.Version)
	}
	if len(l.Random) > 0 && !bytes.Equal(l.Random, w.Random) {
		f("random", fmt.Sprintf("%x", l.Random), fmt.Sprintf("%x", w.Random))
	}
	if len(l.SessionID) > 0 && !bytes.Equal(l.SessionID, w.SessionID) {
		f("session-id", fmt.Sprintf("%x", l.SessionID), fmt.Sprintf("%x", w.SessionID))
	}
	if len(l.CipherSuites) > 0 {
		ok := len(l.CipherSuites) == len(w.CipherSuites)
		for i := 0; ok && i < len(w.CipherSuites); i++ {
			ok = uint16(l.CipherSuites[i]) == w.CipherSuites[i]
		}
		if !ok {
			f("suites", l.CipherSuites, w.CipherSuites)
		}
	}
	if len(l.CompressionMethods) > 0 {
		ok := len(l.CompressionMethods) == len(w.Compression)
		for i := 0; ok && i < len(w.Compression); i++ {
			ok = uint8(l.CompressionMethods[i]) == w.Compression[i]
		}
		if !ok {
			f("compression", l.CompressionMethods, w.Compression)
		}
	}
	boolExt := func(name string, val bool, t uint16) {
		if _, ok := hasExt(w.Extensions, t); val && !ok {
			f(name, true, fmt.Sprintf("no extension %d", t))
		}
	}
	// Three booleans are copied by clientHelloMsg.MakeLog straight from the message that is
	// marshalled (ocspStapling, ticketSupported, scts), so for them "false" is a statement
	// about the wire too and is compared in both directions.  Every other boolean stays
	// one-sided: MakeLog never fills heartbeat / extended master secret / sctEnabled, and
	// SecureRenegotiation is by design false on an initial handshake although the (empty)
	// extension is sent.
	boolExt2 := func(name string, val bool, t uint16) {
		boolExt(name, val, t)
		if _, ok := hasExt(w.Extensions, t); !val && ok {
			f(name, false, fmt.Sprintf("extension %d is on the wire", t))
		}
	}
	boolExt2("ocsp-stapling", l.OcspStapling, tlswire.ExtStatusRequest)
	boolExt("heartbeat", l.HeartbeatSupported, tlswire.ExtHeartbeat)
	boolExt("extended-master-secret", l.ExtendedMasterSecret, tlswire.ExtExtendedMasterSecret)
	boolExt2("scts", l.Scts, tlswire.ExtSCT)
	boolExt("sct-enabled", l.SctEnabled, tlswire.ExtSCT)
	if l.SecureRenegotiation {
		d, ok := hasExt(w.Extensions, tlswire.ExtRenegotiationInfo)
		if rc, err := tlswire.ParseRenegotiationInfo(d); !ok || err != nil || len(rc) == 0 {
			f("secure-renegotiation", true, "no non-empty renegotiation_info")
		}
	}
	if len(l.ExtendedRandom) > 0 {
		if d, ok := hasExt(w.Extensions, tlswire.ExtExtendedRandom); !ok || !bytes.Contains(d, l.ExtendedRandom) {
			f("extended-random", fmt.Sprintf("%x", l.ExtendedRandom), fmt.Sprintf("%x", d))
		}
	}
	if _, ok := hasExt(w.Extensions, tlswire.ExtSessionTicket); ok && !l.TicketSupported {
		f("ticket", false, "the session_ticket extension is on the wire")
	}
	if l.TicketSupported {
		if _, ok := hasExt(w.Extensions, tlswire.ExtSessionTicket); !ok {
			if v.c.Mode == "external" {
				v.known(keyExtTicket, "log.ClientHello.TicketSupported = true but the ClientHello on the wire has no session_ticket extension (ExternalClientHello with a ClientSessionCache: loadSession flips the flag after the bytes were fixed)")
			} else {
				f("ticket", true, "no session_ticket extension")
			}
		}
	}
	if l.ServerName != "" {
		d, ok := hasExt(w.Extensions, tlswire.ExtServerName)
		names, err := tlswire.ParseSNI(d)
		if !ok || err != nil || len(names) != 1 || string(names[0].Name) != l.ServerName {
			f("server-name", l.ServerName, fmt.Sprintf("%v (%v)", names, err))
		}
	}
	if len(l.SupportedCurves) > 0 {
		d, _ := hasExt(w.Extensions, tlswire.ExtSupportedGroups)
		g, err := tlswire.ParseSupportedGroups(d)
		ok := err == nil && len(g) == len(l.SupportedCurves)
		for i := 0; ok && i < len(g); i++ {
			ok = uint16(l.SupportedCurves[i]) == g[i]
		}
		if !ok {
			f("curves", l.SupportedCurves, g)
		}
	}
	if len(l.SupportedPoints) > 0 {
		d, _ := hasExt(w.Extensions, tlswire.ExtECPointFormats)
		p, err := tlswire.ParsePointFormats(d)
		ok := err == nil && len(p) == len(l.SupportedPoints)
		for i := 0; ok && i < len(p); i++ {
			ok = uint8(l.SupportedPoints[i]) == p[i]
		}
		if !ok {
			f("points", l.SupportedPoints, p)
		}
	}
	if len(l.SupportedVersions) > 0 {
		d, _ := hasExt(w.Extensions, tlswire.ExtSupportedVersions)
		sv, err := tlswire.ParseClientSupportedVersions(d)
		ok := err == nil && len(sv) == len(l.SupportedVersions)
		for i := 0; ok && i < len(sv); i++ {
			ok = uint16(l.SupportedVersions[i]) == sv[i]
		}
		if !ok {
			f("supported-versions", l.SupportedVersions, sv)
		}
	}
	if len(l.AlpnProtocols) > 0 {
		d, _ := hasExt(w.Extensions, tlswire.ExtALPN)
		p, err := tlswire.ParseALPN(d)
		if err != nil || strings.Join(p, "\x00") != strings.Join(l.AlpnProtocols, "\x00") || len(p) != len(l.AlpnProtocols) {
			f("alpn", l.AlpnProtocols, p)
		}
	}
	if st := l.SessionTicket; st != nil {
		d, ok := hasExt(w.Extensions, tlswire.ExtSessionTicket)
		switch {
		case !ok && (st.Length != 0 || len(st.Value) != 0):
			if v.c.Mode == "external" {
				v.known(keyExtTicket, "log.ClientHello.SessionTicket (length %d) but the ClientHello on the wire has no session_ticket extension", st.Length)
			} else {
				f("session-ticket", fmt.Sprintf("length %d", st.Length), "no session_ticket extension")
			}
		case len(st.Value) > 0 && !bytes.Equal(st.Value, d):
			f("session-ticket", fmt.Sprintf("%x", st.Value), fmt.Sprintf("%x", d))
		case st.Length != 0 && st.Length != len(d):
			f("session-ticket-length", st.Length, len(d))
		case st.Length != len(st.Value):
			v.known(keyCHTicket, "log.ClientHello.SessionTicket has Length %d but Value holds %d bytes; the ticket sent on the wire is %.32x...: the logged byte string is not complete", st.Length, len(st.Value), d)
		}
	}
	if len(l.SignatureAndHashes) > 0 {
		d, _ := hasExt(w.Extensions, tlswire.ExtSignatureAlgorithms)
		algs, err := tlswire.ParseSignatureAlgorithms(d)
		if err != nil {
			f("sigalgs", l.SignatureAndHashes, "no signature_algorithms extension")
		}
		// the logged list must be an order-preserving sub-list of the wire list
		// (entries zcrypto has no name for are dropped = not populated)
		j := 0
		for i := range l.SignatureAndHashes {
			sn, hn := sigNames(v.r, &l.SignatureAndHashes[i])
			found := false
			for ; j < len(algs); j++ {
				sOK, hOK := sigPairOK(sn, hn, algs[j])
				if sOK && hOK {
					found = true
					j++
					break
				}
				if sOK && algs[j] == 0x0807 {
					v.known(keyCHEd25519, "log.ClientHello.SignatureAndHashes[%d] = (%s, %s) for the wire code point 0x0807 (ed25519, hash byte 8 = Intrinsic): the logged hash algorithm is not the one named on the wire", i, sn, hn)
					found = true
					j++
					break
				}
			}
			if !found {
				f("sigalgs", fmt.Sprintf("entry %d (%s,%s) of %d", i, sn, hn, len(l.SignatureAndHashes)), fmt.Sprintf("%04x", algs))
			}
		}
		if len(l.SignatureAndHashes) < len(algs) {
			v.r.Class("ch-sigalgs-filtered")
		}
	}
	for _, u := range l.UnknownExtensions {
		found := false
		for _, e := range w.Extensions {
			if bytes.Equal(e.Raw(), u) || bytes.Equal(e.Data, u) {
				found = true
			}
		}
		if !found {
			f("unknown-extension", fmt.Sprintf("%x", u), "no such extension")
		}
	}
	// JSON encoding
	v.jsonNum(int64(w.Version), "client_hello", "version", "value")
	v.jsonBytes(w.Random, "client_hello", "random")
	v.jsonBytes(w.SessionID, "client_hello", "session_id")
	if arr, ok := v.jget("client_hello", "cipher_suites").([]any); ok && len(arr) > 0 {
		if len(arr) != len(w.CipherSuites) {
			v.failf("C28:json-mismatch", "JSON client_hello.cipher_suites has %d entries, wire %d", len(arr), len(w.CipherSuites))
		}
		for i, e := range arr {
			m, _ := e.(map[string]any)
			if n, ok := jnum(m["value"]); !ok || n != int64(w.CipherSuites[i]) || !strings.EqualFold(fmt.Sprint(m["hex"]), fmt.Sprintf("0x%04x", w.CipherSuites[i])) {
				v.failf("C28:json-mismatch", "JSON client_hello.cipher_suites[%d] = %v, wire %04x", i, e, w.CipherSuites[i])
			}
		}
	}
	if d, ok := hasExt(w.Extensions, tlswire.ExtSessionTicket); ok {
		v.jsonBytes(d, "client_hello", "session_ticket", "value")
		v.jsonNum(int64(len(d)), "client_hello", "session_ticket", "length")
	}
}

func (v *verifier) serverHello() {
	w, l := v.run.w.sh, v.run.log.ServerHello
	if l == nil {
		return
	}
	f := func(what string, got, want any) {
		v.failf("C28:server-hello-"+what, "log.ServerHello.%s = %v, ServerHello on the wire has %v", what, got, want)
	}
	if l.Version != 0 && uint16(l.Version) != w.Version {
		f("version", l.Version, w.Version)
	}
	if len(l.Random) > 0 && !bytes.Equal(l.Random, w.Random) {
		f("random", fmt.Sprintf("%x", l.Random), fmt.Sprintf("%x", w.Random))
	}
	if len(l.SessionID) > 0 && !bytes.Equal(l.SessionID, w.SessionID) {
		f("session-id", fmt.Sprintf("%x", l.SessionID), fmt.Sprintf("%x", w.SessionID))
	}
	if l.CipherSuite != 0 && uint16(l.CipherSuite) != w.CipherSuite {
		f("suite", l.CipherSuite, w.CipherSuite)
	}
	if l.CompressionMethod != 0 && uint8(l.CompressionMethod) != w.Compression {
		f("compression", l.CompressionMethod, w.Compression)
	}
	boolExt := func(name string, val bool, t uint16) {
		if _, ok := hasExt(w.Extensions, t); val && !ok {
			f(name, true, fmt.Sprintf("no extension %d", t))
		}
	}
	boolExt("ocsp-stapling", l.OcspStapling, tlswire.ExtStatusRequest)
	boolExt("ticket", l.TicketSupported, tlswire.ExtSessionTicket)
	boolExt("heartbeat", l.HeartbeatSupported, tlswire.ExtHeartbeat)
	boolExt("extended-master-secret", l.ExtendedMasterSecret, tlswire.ExtExtendedMasterSecret)
	if l.SecureRenegotiation {
		d, ok := hasExt(w.Extensions, tlswire.ExtRenegotiationInfo)
		if rc, err := tlswire.ParseRenegotiationInfo(d); !ok || err != nil || len(rc) == 0 {
			f("secure-renegotiation", true, "no non-empty renegotiation_info")
		}
	}
	if len(l.SignedCertificateTimestamps) > 0 {
		d, _ := hasExt(w.Extensions, tlswire.ExtSCT)
		scts, err := tlswire.ParseSCTList(d)
		ok := err == nil && len(scts) == len(l.SignedCertificateTimestamps)
		for i := 0; ok && i < len(scts); i++ {
			ok = bytes.Equal(scts[i], l.SignedCertificateTimestamps[i].Raw)
		}
		if !ok {
			f("scts", fmt.Sprintf("%d SCTs", len(l.SignedCertificateTimestamps)), fmt.Sprintf("%x (%v)", scts, err))
		}
		// the parsed form next to each raw entry must be the RFC 6962 reading of THAT entry
		// (SignedCertificateTimestamp: version 0, log id, timestamp, extensions<0..2^16-1>,
		// digitally-signed), and absent when the entry is not one
		nParsed, nRaw := 0, 0
		for i, e := range l.SignedCertificateTimestamps {
			want, wok := readSCTv1(e.Raw)
			switch {
			case wok && e.Parsed == nil:
				f(fmt.Sprintf("scts[%d].parsed", i), nil, fmt.Sprintf("entry %x is a well-formed v1 SCT", e.Raw))
			case !wok && e.Parsed != nil:
				f(fmt.Sprintf("scts[%d].parsed", i), fmt.Sprintf("%+v", *e.Parsed), fmt.Sprintf("entry %x is not a v1 SCT", e.Raw))
			case wok:
				nParsed++
				g := e.Parsed
				if g.SCTVersion != 0 || !bytes.Equal(g.LogID[:], want.logID) || g.Timestamp != want.ts || !bytes.Equal(g.Extensions, want.ext) ||
					byte(g.Signature.HashAlgorithm) != want.hash || byte(g.Signature.SignatureAlgorithm) != want.sigAlg || !bytes.Equal(g.Signature.Signature, want.sig) {
					f(fmt.Sprintf("scts[%d].parsed", i), fmt.Sprintf("%+v", *g), fmt.Sprintf("entry %x", e.Raw))
				}
			default:
				nRaw++
			}
		}
		if nParsed > 0 && nRaw > 0 {
			v.r.Class("server-scts: parseable and unparseable entries mixed")
		}
		v.r.Class("server-scts")
	}
	if l.AlpnProtocol != "" {
		if v.run.w.tls13 {
			// EncryptedExtensions is not visible; the protocol must at least be one the client offered
			d, _ := hasExt(v.run.w.ch.Extensions, tlswire.ExtALPN)
			offered, _ := tlswire.ParseALPN(d)
			if !oneOf(l.AlpnProtocol, offered) {
				f("alpn", l.AlpnProtocol, fmt.Sprintf("client offered %q", offered))
			}
		} else {
			d, ok := hasExt(w.Extensions, tlswire.ExtALPN)
			p, err := tlswire.ParseServerALPN(d)
			if !ok || err != nil || p != l.AlpnProtocol {
				f("alpn", l.AlpnProtocol, fmt.Sprintf("%q (%v)", p, err))
			}
		}
		v.r.Class("alpn-negotiated")
	}
	if l.SupportedVersions != nil && l.SupportedVersions.SelectedVersion != 0 {
		d, ok := hasExt(w.Extensions, tlswire.ExtSupportedVersions)
		sv, err := tlswire.ParseServerSupportedVersions(d)
		if !ok || err != nil || sv != uint16(l.SupportedVersions.SelectedVersion) {
			f("supported-versions", l.SupportedVersions.SelectedVersion, sv)
		}
	}
	if l.KeyShare != nil && l.KeyShare.KeyExchange != nil {
		d, ok := hasExt(w.Extensions, tlswire.ExtKeyShare)
		ks, err := tlswire.ParseServerKeyShare(d)
		if !ok || err != nil || ks.Group != uint16(*l.KeyShare.KeyExchange) {
			f("key-share", *l.KeyShare.KeyExchange, ks.Group)
		}
	}
	if len(l.ExtensionIdentifiers) > 0 {
		ok := len(l.ExtensionIdentifiers) == len(w.Extensions)
		for i := 0; ok && i < len(w.Extensions); i++ {
			ok = l.ExtensionIdentifiers[i] == w.Extensions[i].Type
		}
		if !ok {
			f("extension-identifiers", l.ExtensionIdentifiers, fmt.Sprintf("%d extensions", len(w.Extensions)))
		}
	}
	v.jsonNum(int64(w.Version), "server_hello", "version", "value")
	v.jsonBytes(w.Random, "server_hello", "random")
	v.jsonBytes(w.SessionID, "server_hello", "session_id")
	v.jsonNum(int64(w.CipherSuite), "server_hello", "cipher_suite", "value")
	if name, ok := v.jget("server_hello", "cipher_suite", "name").(string); ok && v.run.w.knownSuit && name != "unknown" {
		if name != v.run.w.suite.name && strings.TrimSuffix(v.run.w.suite.name, "_SHA256") != name {
			v.failf("C28:json-mismatch", "JSON server_hello.cipher_suite.name = %q for wire suite %04x (%s)", name, w.CipherSuite, v.run.w.suite.name)
		}
	}
}

func (v *verifier) checkCerts(certs [][]byte, where string) {
	l := v.run.log.ServerCertificates
	if l == nil {
		return
	}
	f := func(what string, got, want any) {
		v.failf("C28:certificates-"+what, "log.ServerCertificates.%s = %v, %s has %v", what, got, where, want)
	}
	if len(l.Certificate.Raw) > 0 && (len(certs) == 0 || !bytes.Equal(l.Certificate.Raw, certs[0])) {
		f("leaf", fmt.Sprintf("%d bytes", len(l.Certificate.Raw)), "a different leaf certificate")
	}
	if l.Certificate.Parsed != nil && (len(certs) == 0 || !bytes.Equal(l.Certificate.Parsed.Raw, certs[0])) {
		f("leaf-parsed", "Parsed.Raw", "a different leaf certificate")
	}
	if len(l.Chain) > 0 {
		if len(l.Chain) != len(certs)-1 {
			f("chain", fmt.Sprintf("%d chain certificates", len(l.Chain)), fmt.Sprintf("%d certificates in total", len(certs)))
		}
		for i := range l.Chain {
			if len(l.Chain[i].Raw) > 0 && !bytes.Equal(l.Chain[i].Raw, certs[i+1]) {
				f("chain", fmt.Sprintf("chain[%d]", i), "a different certificate")
			}
			if l.Chain[i].Parsed != nil && !bytes.Equal(l.Chain[i].Parsed.Raw, certs[i+1]) {
				f("chain-parsed", fmt.Sprintf("chain[%d].Parsed", i), "a different certificate")
			}
		}
		v.r.Class("chain-logged")
	}
	if len(certs) > 0 {
		v.jsonBytes(certs[0], "server_certificates", "certificate", "raw")
	}
}

func (v *verifier) certificates() {
	m := v.run.w.sf.Find(tlswire.HsCertificate)
	certs, err := tlswire.ParseCertificate(m.Body)
	if err != nil {
		v.failf("C28:wire-malformed", "Certificate: %v", err)
	}
	v.checkCerts(certs, "the Certificate message on the wire")
}

// TLS 1.3: the Certificate message is encrypted; the reference is the chain the
// harness configured the server with.
func (v *verifier) certificates13() {
	v.checkCerts(v.c.serverConfig().Certificates[0].Certificate, "the chain the server was configured with")
}

func bigEq(a *big.Int, b []byte) bool { return a != nil && a.Cmp(new(big.Int).SetBytes(b)) == 0 }

func nistCurve(id uint16) (elliptic.Curve, ecdh.Curve) {
	switch id {
	case 23:
		return elliptic.P256(), ecdh.P256()
	case 24:
		return elliptic.P384(), ecdh.P384()
	case 25:
		return elliptic.P521(), ecdh.P521()
	}
	return nil, nil
}

// pointMatches compares a logged ECPoint with the wire encoding of the point.
func pointMatches(curve uint16, x, y *big.Int, wirePoint []byte) bool {
	if curve == 29 {
		return y == nil && bigEq(x, wirePoint)
	}
	ec, _ := nistCurve(curve)
	if ec == nil || len(wirePoint) == 0 || wirePoint[0] != 4 {
		return false
	}
	n := (len(wirePoint) - 1) / 2
	return bigEq(x, wirePoint[1:1+n]) && bigEq(y, wirePoint[1+n:])
}

func (v *verifier) serverKeyExchange() {
	w, l := v.run.w, v.run.log.ServerKeyExchange
	m := w.sf.Find(tlswire.HsServerKeyExchange)
	if l == nil {
		return
	}
	if m == nil {
		v.failf("C28:skx-absent", "log.ServerKeyExchange is populated but no ServerKeyExchange was sent")
	}
	f := func(what string, got, want any) {
		v.failf("C28:skx-"+what, "log.ServerKeyExchange.%s = %v, ServerKeyExchange on the wire has %v", what, got, want)
	}
	tls12 := w.version == 0x0303
	var skx *tlswire.SKX
	var err error
	if w.suite.kx == "dhe_rsa" {
		skx, err = tlswire.ParseSKXDHE(m.Body, tls12)
	} else {
		skx, err = tlswire.ParseSKXECDHE(m.Body, tls12)
	}
	if err != nil {
		v.failf("C28:wire-malformed", "ServerKeyExchange: %v", err)
	}
	if len(l.Raw) > 0 && !bytes.Equal(l.Raw, m.Body) {
		f("raw", fmt.Sprintf("%d bytes", len(l.Raw)), fmt.Sprintf("%d bytes", len(m.Body)))
	}
	if p := l.ECDHParams; p != nil {
		if w.suite.kx == "dhe_rsa" {
			f("ecdh-params", "ECDH parameters", "a DHE key exchange")
		}
		if p.TLSCurveID != 0 && uint16(p.TLSCurveID) != skx.Curve {
			f("curve", p.TLSCurveID, skx.Curve)
		}
		if p.ServerPublic != nil && (p.ServerPublic.X != nil || p.ServerPublic.Y != nil) && !pointMatches(skx.Curve, p.ServerPublic.X, p.ServerPublic.Y, skx.Point) {
			f("server-public", fmt.Sprintf("(%v,%v)", p.ServerPublic.X, p.ServerPublic.Y), fmt.Sprintf("%x", skx.Point))
		}
		v.jsonNum(int64(skx.Curve), "server_key_exchange", "ecdh_params", "curve_id", "id")
	}
	if p := l.DHParams; p != nil {
		if w.suite.kx != "dhe_rsa" {
			f("dh-params", "DH parameters", "an ECDHE key exchange")
		}
		if p.Prime != nil && !bigEq(p.Prime, skx.P) {
			f("dh-prime", p.Prime, fmt.Sprintf("%x", skx.P))
		}
		if p.Generator != nil && !bigEq(p.Generator, skx.G) {
			f("dh-generator", p.Generator, fmt.Sprintf("%x", skx.G))
		}
		if p.ServerPublic != nil && !bigEq(p.ServerPublic, skx.Ys) {
			f("dh-server-public", p.ServerPublic, fmt.Sprintf("%x", skx.Ys))
		}
	}
	key := keys.ByName(v.c.Key)
	_, isRSA := key.StdPub.(*stdrsa.PublicKey)
	ws := wireSig{}
	if tls12 {
		ws = nameScheme(skx.HashAlg, skx.SigAlg)
		if ws.family == "unknown" {
			v.failf("C28:harness", "ServerKeyExchange uses code point %04x the oracle cannot name", skx.Scheme())
		}
		v.r.Class(fmt.Sprintf("skx-scheme=%04x", skx.Scheme()))
	}
	digest := skxDigest(w.version, ws, isRSA, w.ch.Random, w.sh.Random, skx.Params)
	if len(l.Digest) > 0 && !bytes.Equal(l.Digest, digest) {
		f("digest", fmt.Sprintf("%x", l.Digest), fmt.Sprintf("%x (recomputed from the wire)", digest))
	}
	if s := l.Signature; s != nil {
		if len(s.Raw) > 0 && !bytes.Equal(s.Raw, skx.Signature) {
			f("signature", fmt.Sprintf("%x", s.Raw), fmt.Sprintf("%x", skx.Signature))
		}
		v.jsonBytes(skx.Signature, "server_key_exchange", "signature", "raw")
		if s.Version != 0 && uint16(s.Version) != w.version {
			f("signature-version", s.Version, w.version)
		}
		if s.Valid {
			if err := verifySKX(w.version, ws, key.StdPub, digest, skx.Signature); err != nil {
				f("signature-valid", true, "a signature the standard library rejects: "+err.Error())
			}
		}
		if s.SigHashExtension != nil {
			if !tls12 {
				f("signature-algorithm", "a SignatureAndHashAlgorithm", "none (not TLS 1.2)")
			}
			sn, hn := sigNames(v.r, s.SigHashExtension)
			sOK, hOK := sigPairOK(sn, hn, skx.Scheme())
			js, _ := v.jget("server_key_exchange", "signature", "signature_and_hash_type", "signature_algorithm").(string)
			jh, _ := v.jget("server_key_exchange", "signature", "signature_and_hash_type", "hash_algorithm").(string)
			if js != sn || jh != hn {
				v.failf("C28:json-mismatch", "JSON signature_and_hash_type = (%s,%s), struct encodes as (%s,%s)", js, jh, sn, hn)
			}
			if !sOK {
				f("signature-algorithm", fmt.Sprintf("signature %q (id %d)", sn, s.SigHashExtension.Signature), fmt.Sprintf("code point %04x = %s", skx.Scheme(), ws.family))
			}
			if !hOK {
				v.known(keySKXHash, "log.ServerKeyExchange.Signature.SigHashExtension names hash %q (id %d) but the ServerKeyExchange on the wire names code point %04x = %s with %s", hn, s.SigHashExtension.Hash, skx.Scheme(), ws.family, ws.hash)
			}
		}
	}
}

func (v *verifier) clientKeyExchange() {
	w, l := v.run.w, v.run.log.ClientKeyExchange
	m := w.cf.Find(tlswire.HsClientKeyExchange)
	if l == nil || m == nil {
		return
	}
	f := func(what string, got, want any) {
		v.failf("C28:ckx-"+what, "log.ClientKeyExchange.%s = %v, ClientKeyExchange on the wire has %v", what, got, want)
	}
	if len(l.Raw) > 0 && !bytes.Equal(l.Raw, m.Raw) && !bytes.Equal(l.Raw, m.Body) {
		f("raw", fmt.Sprintf("%x", l.Raw), fmt.Sprintf("%x", m.Raw))
	}
	switch w.suite.kx {
	case "rsa":
		epms, err := tlswire.ParseCKXRSA(m.Body)
		if err != nil {
			v.failf("C28:wire-malformed", "ClientKeyExchange: %v", err)
		}
		if p := l.RSAParams; p != nil {
			if len(p.EncryptedPMS) > 0 && !bytes.Equal(p.EncryptedPMS, epms) {
				f("rsa-encrypted-pms", fmt.Sprintf("%x", p.EncryptedPMS), fmt.Sprintf("%x", epms))
			}
			if p.Length != 0 && int(p.Length) != len(epms) {
				f("rsa-length", p.Length, len(epms))
			}
		}
		if l.DHParams != nil || l.ECDHParams != nil {
			f("params", "DH/ECDH parameters", "an RSA key exchange")
		}
	case "dhe_rsa":
		yc, err := tlswire.ParseCKXDHE(m.Body)
		if err != nil {
			v.failf("C28:wire-malformed", "ClientKeyExchange: %v", err)
		}
		if p := l.DHParams; p != nil && p.ClientPublic != nil && !bigEq(p.ClientPublic, yc) {
			f("dh-client-public", p.ClientPublic, fmt.Sprintf("%x", yc))
		}
	default:
		pt, err := tlswire.ParseCKXECDHE(m.Body)
		if err != nil {
			v.failf("C28:wire-malformed", "ClientKeyExchange: %v", err)
		}
		if p := l.ECDHParams; p != nil {
			skxm := w.sf.Find(tlswire.HsServerKeyExchange)
			skx, _ := tlswire.ParseSKXECDHE(skxm.Body, w.version == 0x0303)
			if p.TLSCurveID != 0 && skx != nil && uint16(p.TLSCurveID) != skx.Curve {
				f("curve", p.TLSCurveID, skx.Curve)
			}
			if p.ClientPublic != nil && (p.ClientPublic.X != nil || p.ClientPublic.Y != nil) && skx != nil && !pointMatches(skx.Curve, p.ClientPublic.X, p.ClientPublic.Y, pt) {
				f("client-public", fmt.Sprintf("(%v,%v)", p.ClientPublic.X, p.ClientPublic.Y), fmt.Sprintf("%x", pt))
			}
		}
	}
}

func (v *verifier) sessionTicket() {
	w, l := v.run.w, v.run.log.SessionTicket
	m := w.sf.Find(tlswire.HsNewSessionTicket)
	if m != nil {
		v.r.Class("new-session-ticket")
	}
	if l == nil {
		return
	}
	f := func(what string, got, want any) {
		v.failf("C28:session-ticket-"+what, "log.SessionTicket.%s = %v, wire has %v", what, got, want)
	}
	if l.Length != len(l.Value) && (l.Length != 0 || len(l.Value) != 0) {
		f("length", fmt.Sprintf("Length %d with %d value bytes", l.Length, len(l.Value)), "-")
	}
	if m == nil {
		// no ticket was issued in this handshake; a logged ticket can only be the one the client offered
		d, ok := hasExt(w.ch.Extensions, tlswire.ExtSessionTicket)
		if len(l.Value) > 0 && (!ok || !bytes.Equal(d, l.Value)) {
			f("value", fmt.Sprintf("%x", l.Value), "no NewSessionTicket message and a different (or no) ticket in the ClientHello")
		}
		v.r.Class("ticket-log-without-nst")
		return
	}
	t, err := tlswire.ParseNewSessionTicket(m.Body)
	if err != nil {
		v.failf("C28:wire-malformed", "NewSessionTicket: %v", err)
	}
	if len(l.Value) > 0 && !bytes.Equal(l.Value, t.Ticket) {
		f("value", fmt.Sprintf("%x", l.Value), fmt.Sprintf("%x", t.Ticket))
	}
	if l.Length != 0 && l.Length != len(t.Ticket) {
		f("length", l.Length, len(t.Ticket))
	}
	if l.LifetimeHint != 0 && l.LifetimeHint != t.LifetimeHint {
		f("lifetime", l.LifetimeHint, t.LifetimeHint)
	}
	v.jsonBytes(t.Ticket, "session_ticket", "value")
	v.jsonNum(int64(len(t.Ticket)), "session_ticket", "length")
	v.jsonNum(int64(t.LifetimeHint), "session_ticket", "lifetime_hint")
}

func raws(ms []tlswire.Msg) [][]byte {
	var out [][]byte
	for _, m := range ms {
		out = append(out, m.Raw)
	}
	return out
}

// secretsAndFinished ties the logged key material and Finished messages to the wire.
func (v *verifier) secretsAndFinished(resumed bool) {
	w, l := v.run.w, v.run.log
	km := l.KeyMaterial
	var master, pms []byte
	if km != nil && km.MasterSecret != nil {
		master = km.MasterSecret.Value
		if km.MasterSecret.Length != len(master) && (km.MasterSecret.Length != 0 || len(master) != 0) {
			v.failf("C28:master-length", "log.KeyMaterial.MasterSecret: Length %d, %d value bytes", km.MasterSecret.Length, len(master))
		}
	}
	if km != nil && km.PreMasterSecret != nil {
		pms = km.PreMasterSecret.Value
		if km.PreMasterSecret.Length != len(pms) && (km.PreMasterSecret.Length != 0 || len(pms) != 0) {
			v.failf("C28:premaster-length", "log.KeyMaterial.PreMasterSecret: Length %d, %d value bytes", km.PreMasterSecret.Length, len(pms))
		}
	}
	if len(pms) > 0 && len(master) > 0 {
		if want := masterSecret(w.version, w.suite, pms, w.ch.Random, w.sh.Random); !bytes.Equal(want, master) {
			v.failf("C28:master-vs-premaster", "logged master secret %x is not PRF(logged pre-master secret, \"master secret\", client_random || server_random) = %x", master, want)
		}
	}
	if len(pms) > 0 && !resumed {
		v.premaster(pms)
	}
	if len(master) > 0 {
		v.jsonBytes(master, "key_material", "master_secret", "value")
	}

	// handshake transcript in protocol order
	var clientFinSeen, serverFinSeen [][]byte
	if resumed {
		serverFinSeen = append(raws(w.cf.Msgs), raws(w.sf.Msgs)...) // CH, SH, [NST]
	} else {
		i := 0
		for i < len(w.sf.Msgs) && w.sf.Msgs[i].Type != tlswire.HsNewSessionTicket {
			i++
		}
		clientFinSeen = append([][]byte{w.cf.Msgs[0].Raw}, raws(w.sf.Msgs[:i])...)
		clientFinSeen = append(clientFinSeen, raws(w.cf.Msgs[1:])...)
		_ = serverFinSeen
	}
	if len(master) == 0 {
		return // nothing logged to tie to the wire
	}
	if !w.cf.SawCCS || !w.sf.SawCCS || len(w.cf.AfterCCS) == 0 || len(w.sf.AfterCCS) == 0 {
		v.failf("C28:wire-malformed", "missing ChangeCipherSpec / Finished records")
	}
	ks := keyBlock(w.version, w.suite, master, w.ch.Random, w.sh.Random)
	open := func(rec tlswire.Record, mac, key, iv []byte, who string) []byte {
		pt, err := decryptFirst(w.version, w.suite, mac, key, iv, rec.Type, rec.Version, rec.Body)
		if err != nil {
			v.failf("C28:master-secret-not-used", "the %s Finished record on the wire does not decrypt under keys derived from the logged master secret (%v): the logged key material is not what the connection used", who, err)
		}
		if len(pt) != 16 || pt[0] != tlswire.HsFinished || pt[1] != 0 || pt[2] != 0 || pt[3] != 12 {
			v.failf("C28:wire-malformed", "%s Finished plaintext % x", who, pt)
		}
		return pt
	}
	cfin := open(w.cf.AfterCCS[0], ks.clientMAC, ks.clientKey, ks.clientIV, "client")
	sfin := open(w.sf.AfterCCS[0], ks.serverMAC, ks.serverKey, ks.serverIV, "server")
	if resumed {
		clientFinSeen = append(append([][]byte{}, serverFinSeen...), sfin)
	} else {
		serverFinSeen = append(append([][]byte{}, clientFinSeen...), cfin)
		for _, m := range w.sf.Msgs {
			if m.Type == tlswire.HsNewSessionTicket {
				serverFinSeen = append(serverFinSeen, m.Raw)
			}
		}
	}
	wantC := finishedVerifyData(w.version, w.suite, master, true, clientFinSeen)
	wantS := finishedVerifyData(w.version, w.suite, master, false, serverFinSeen)
	if !bytes.Equal(cfin[4:], wantC) || !bytes.Equal(sfin[4:], wantS) {
		v.failf("C28:harness", "oracle PRF disagrees with the Finished messages on the wire (client %x vs %x, server %x vs %x)", cfin[4:], wantC, sfin[4:], wantS)
	}
	if f := l.ClientFinished; f != nil && len(f.VerifyData) > 0 && !bytes.Equal(f.VerifyData, cfin[4:]) {
		v.failf("C28:client-finished", "log.ClientFinished.VerifyData = %x, the (decrypted) Finished on the wire carries %x", f.VerifyData, cfin[4:])
	}
	if f := l.ServerFinished; f != nil && len(f.VerifyData) > 0 && !bytes.Equal(f.VerifyData, sfin[4:]) {
		v.failf("C28:server-finished", "log.ServerFinished.VerifyData = %x, the (decrypted) Finished on the wire carries %x", f.VerifyData, sfin[4:])
	}
	v.jsonBytes(cfin[4:], "client_finished", "verify_data")
	v.jsonBytes(sfin[4:], "server_finished", "verify_data")
	v.r.Class("finished-decrypted")
}

// premaster checks the logged pre-master secret against the key exchange on the wire.
func (v *verifier) premaster(pms []byte) {
	w, l := v.run.w, v.run.log
	ckx := w.cf.Find(tlswire.HsClientKeyExchange)
	switch w.suite.kx {
	case "rsa":
		priv, ok := keys.ByName(v.c.Key).StdPriv.(*stdrsa.PrivateKey)
		epms, err := tlswire.ParseCKXRSA(ckx.Body)
		if !ok || err != nil {
			return
		}
		got, err := stdrsa.DecryptPKCS1v15(nil, priv, epms)
		if err != nil {
			v.failf("C28:harness", "cannot decrypt the RSA ClientKeyExchange: %v", err)
		}
		if !bytes.Equal(got, pms) {
			v.failf("C28:premaster", "logged pre-master secret %x, the ClientKeyExchange on the wire decrypts (server key) to %x", pms, got)
		}
		v.r.Class("pms-checked=rsa")
	case "dhe_rsa":
		p := l.ClientKeyExchange
		skxm := w.sf.Find(tlswire.HsServerKeyExchange)
		if p == nil || p.DHParams == nil || p.DHParams.ClientPrivate == nil || skxm == nil {
			return
		}
		skx, err := tlswire.ParseSKXDHE(skxm.Body, w.version == 0x0303)
		if err != nil {
			return
		}
		P, G, Ys := new(big.Int).SetBytes(skx.P), new(big.Int).SetBytes(skx.G), new(big.Int).SetBytes(skx.Ys)
		yc, _ := tlswire.ParseCKXDHE(ckx.Body)
		if pub := new(big.Int).Exp(G, p.DHParams.ClientPrivate, P); !bigEq(pub, yc) {
			v.failf("C28:ckx-dh-client-private", "logged DH client private key does not generate the dh_Yc on the wire")
		}
		want := new(big.Int).Exp(Ys, p.DHParams.ClientPrivate, P).Bytes()
		if !bytes.Equal(want, pms) {
			v.failf("C28:premaster", "logged pre-master secret %x, DH(logged client private, dh_Ys on the wire) = %x", pms, want)
		}
		v.r.Class("pms-checked=dhe")
	default:
		p := l.ClientKeyExchange
		skxm := w.sf.Find(tlswire.HsServerKeyExchange)
		if p == nil || p.ECDHParams == nil || p.ECDHParams.ClientPrivate == nil || len(p.ECDHParams.ClientPrivate.Value) == 0 || skxm == nil {
			return
		}
		skx, err := tlswire.ParseSKXECDHE(skxm.Body, w.version == 0x0303)
		if err != nil {
			return
		}
		if p.ECDHParams.ClientPrivate.Length != len(p.ECDHParams.ClientPrivate.Value) {
			v.failf("C28:ckx-ecdh-client-private", "ClientPrivate: Length %d, %d value bytes", p.ECDHParams.ClientPrivate.Length, len(p.ECDHParams.ClientPrivate.Value))
		}
		var curve ecdh.Curve = ecdh.X25519()
		if skx.Curve != 29 {
			_, curve = nistCurve(skx.Curve)
		}
		if curve == nil {
			return
		}
		priv, err := curve.NewPrivateKey(p.ECDHParams.ClientPrivate.Value)
		if err != nil {
			v.failf("C28:ckx-ecdh-client-private", "logged ECDH client private key is not a valid scalar: %v", err)
		}
		pt, _ := tlswire.ParseCKXECDHE(ckx.Body)
		if !bytes.Equal(priv.PublicKey().Bytes(), pt) {
			v.failf("C28:ckx-ecdh-client-private", "logged ECDH client private key does not generate the ecdh_Yc on the wire")
		}
		peer, err := curve.NewPublicKey(skx.Point)
		if err != nil {
			return
		}
		want, err := priv.ECDH(peer)
		if err != nil {
			return
		}
		if !bytes.Equal(want, pms) {
			v.failf("C28:premaster", "logged pre-master secret %x, ECDH(logged client private, server point on the wire) = %x", pms, want)
		}
		v.r.Class("pms-checked=ecdhe")
	}
}

// ---------------------------------------------------------------------------
// generator

type combo struct {
	key    string
	suites []uint16
}

var (
	rsaKeys   = []string{"rsa2048-p2-1", "rsa2048-p2-1", "rsa1024-p2-0", "rsa3072-p2-0"}
	ecKeys    = []string{"ecP-256-0", "ecP-256-0", "ecP-384-0", "ecP-521-0"}
	rsaAny    = []uint16{0x002f, 0x0035, 0x000a, 0x0005, 0xc013, 0xc014, 0xc012, 0xc011, 0x0033, 0x0039, 0x0016}
	rsa12     = []uint16{0x003c, 0x003d, 0x009c, 0x009d, 0xc027, 0xc02f, 0xc030, 0xcca8, 0x0067, 0x006b, 0x009e, 0x009f, 0xccaa}
	ecdsaAny  = []uint16{0xc009, 0xc00a, 0xc007}
	ecdsa12   = []uint16{0xc023, 0xc02b, 0xc02c, 0xcca9}
	rsaSigs   = []uint16{0, 0, 0, 0x0804, 0x0805, 0x0806, 0x0401, 0x0501, 0x0601, 0x0201}
	ecdsaSigs = []uint16{0, 0, 0x0403, 0x0503, 0x0603, 0x0203}
	legacyRSA = []uint16{0x0401, 0x0501, 0x0601, 0x0201, 0x0301, 0x0402, 0x0202}
	alpnNames = []string{"h2", "http/1.1", "spdy/3.1", "acme-tls/1", "x"}
)

func gen(t *rapid.T) Case {
	c := Case{}
	c.Version = rapid.SampledFrom([]uint16{0x0303, 0x0303, 0x0303, 0x0303, 0x0302, 0x0301, 0x0304}).Draw(t, "version")
	kind := rapid.SampledFrom([]string{"rsa", "rsa", "ec", "ec", "ed"}).Draw(t, "keykind")
	if kind == "ed" && c.Version < 0x0303 {
		kind = "ec"
	}
	switch kind {
	case "rsa":
		c.Key = rapid.SampledFrom(rsaKeys).Draw(t, "key")
		pool := rsaAny
		if c.Version >= 0x0303 && rapid.IntRange(0, 2).Draw(t, "suite12") > 0 {
			pool = rsa12
		}
		c.Suite = rapid.SampledFrom(pool).Draw(t, "suite")
		c.ServerSig = rapid.SampledFrom(rsaSigs).Draw(t, "server-sig")
	case "ec":
		c.Key = rapid.SampledFrom(ecKeys).Draw(t, "key")
		pool := ecdsaAny
		if c.Version >= 0x0303 && rapid.IntRange(0, 2).Draw(t, "suite12") > 0 {
			pool = ecdsa12
		}
		c.Suite = rapid.SampledFrom(pool).Draw(t, "suite")
		c.ServerSig = rapid.SampledFrom(ecdsaSigs).Draw(t, "server-sig")
	default:
		c.Key = "ed25519-0"
		c.Suite = rapid.SampledFrom(ecdsa12).Draw(t, "suite")
	}
	if c.Version != 0x0303 {
		c.ServerSig = 0
	}
	all := append(append(append(append([]uint16{}, rsaAny...), rsa12...), ecdsaAny...), ecdsa12...)
	c.Extra = rapid.SliceOfN(rapid.SampledFrom(all), 0, 5).Draw(t, "extra")
	c.SuiteFirst = rapid.Bool().Draw(t, "suite-first")
	c.Curve = rapid.SampledFrom([]uint16{0, 0, 29, 23, 24, 25}).Draw(t, "curve")
	if rapid.Bool().Draw(t, "alpn") {
		c.ClientALPN = rapid.SliceOfNDistinct(rapid.SampledFrom(alpnNames), 1, 4, rapid.ID[string]).Draw(t, "client-alpn")
		c.ServerALPN = rapid.SliceOfNDistinct(rapid.SampledFrom(alpnNames), 0, 3, rapid.ID[string]).Draw(t, "server-alpn")
	}
	if rapid.IntRange(0, 2).Draw(t, "ocsp") == 0 {
		c.OCSP = rapid.SliceOfN(rapid.Byte(), 1, 60).Draw(t, "ocsp-bytes")
	}
	if rapid.IntRange(0, 2).Draw(t, "sct") == 0 {
		// each entry: a well-formed RFC 6962 v1 SCT, a truncated one, or arbitrary bytes (the server
		// serves whatever it is given; the log must say for each entry what it is)
		n := rapid.IntRange(1, 4).Draw(t, "nscts")
		for i := 0; i < n; i++ {
			switch rapid.IntRange(0, 3).Draw(t, "sct-kind") {
			case 0:
				c.SCTs = append(c.SCTs, rapid.SliceOfN(rapid.Byte(), 1, 50).Draw(t, "sct-garbage"))
			default:
				b := []byte{0}
				b = append(b, rapid.SliceOfN(rapid.Byte(), 32, 32).Draw(t, "sct-logid")...)
				b = append(b, rapid.SliceOfN(rapid.Byte(), 8, 8).Draw(t, "sct-ts")...)
				ext := rapid.SliceOfN(rapid.Byte(), 0, 5).Draw(t, "sct-ext")
				b = append(b, byte(len(ext)>>8), byte(len(ext)))
				b = append(b, ext...)
				sig := rapid.SliceOfN(rapid.Byte(), 0, 72).Draw(t, "sct-sig")
				b = append(b, rapid.SampledFrom([]byte{4, 5, 2, 0, 9}).Draw(t, "sct-hash"), rapid.SampledFrom([]byte{3, 1, 0, 7}).Draw(t, "sct-sigalg"), byte(len(sig)>>8), byte(len(sig)))
				b = append(b, sig...)
				if rapid.IntRange(0, 4).Draw(t, "sct-trunc") == 0 {
					b = b[:rapid.IntRange(1, len(b)-1).Draw(t, "sct-cut")]
				}
				c.SCTs = append(c.SCTs, b)
			}
		}
	}
	c.SendCA = rapid.Bool().Draw(t, "send-ca")
	c.Tickets = rapid.SampledFrom([]string{"on", "on", "on", "none", "server-off"}).Draw(t, "tickets")
	c.ForceTkt = rapid.IntRange(0, 3).Draw(t, "force-ticket") == 0
	c.Resume = rapid.IntRange(0, 2).Draw(t, "resume") == 0
	c.Rotate = c.Resume && rapid.Bool().Draw(t, "rotate")
	c.ClientCert = rapid.IntRange(0, 5).Draw(t, "client-cert") == 0
	if rapid.IntRange(0, 3).Draw(t, "server-random") == 0 {
		c.ServerRand = rapid.SliceOfN(rapid.Byte(), 32, 32).Draw(t, "server-rand")
	}
	c.Mode = rapid.SampledFrom([]string{"default", "default", "default", "fingerprint", "external"}).Draw(t, "mode")
	if c.Version == 0x0304 {
		c.Mode = "default"
	}
	if c.Mode != "default" {
		if rapid.Bool().Draw(t, "h-random") {
			c.HRandom = rapid.SliceOfN(rapid.Byte(), 32, 32).Draw(t, "h-random-bytes")
		}
		c.HSession = rapid.SliceOfN(rapid.Byte(), 0, 32).Draw(t, "h-session")
		c.HHasTkt = rapid.Bool().Draw(t, "h-has-ticket")
		if c.HHasTkt && rapid.Bool().Draw(t, "h-ticket-nonempty") {
			c.HTicket = rapid.SliceOfN(rapid.Byte(), 1, 80).Draw(t, "h-ticket")
		}
		c.ServerSig = 0
		if c.Version == 0x0303 {
			switch {
			case kind == "rsa":
				// at least one PKCS#1 scheme the server can sign with (fingerprints cannot name PSS or ECDSA)
				c.HSigAlgs = append(rapid.SliceOfNDistinct(rapid.SampledFrom(legacyRSA), 0, 4, rapid.ID[uint16]).Draw(t, "h-sigalgs"),
					rapid.SampledFrom([]uint16{0x0401, 0x0501, 0x0601, 0x0201}).Draw(t, "h-sigalg-usable"))
				if c.Mode == "external" && rapid.Bool().Draw(t, "h-sigalgs-modern") {
					c.HSigAlgs = append([]uint16{0x0804, 0x0807, 0x0403}, c.HSigAlgs...)
				}
			case kind == "ec":
				c.Mode = "external"
				c.HSigAlgs = append(rapid.SliceOfNDistinct(rapid.SampledFrom([]uint16{0x0807, 0x0401, 0x0804, 0x0402}), 0, 3, rapid.ID[uint16]).Draw(t, "h-sigalgs-ec"),
					rapid.SampledFrom([]uint16{0x0403, 0x0503, 0x0603, 0x0203}).Draw(t, "h-sigalg-usable"))
			default:
				c.Mode = "external"
				c.HSigAlgs = append(rapid.SliceOfNDistinct(rapid.SampledFrom([]uint16{0x0403, 0x0401, 0x0804}), 0, 3, rapid.ID[uint16]).Draw(t, "h-sigalgs-ed"), 0x0807)
			}
		}
		c.HOrder = rapid.Permutation([]string{"sni", "alpn", "status", "sct", "ems", "reneg", "ticket"}).Draw(t, "h-order")
		c.HOrder = c.HOrder[:rapid.IntRange(0, len(c.HOrder)).Draw(t, "h-count")]
		c.ExtCache = c.Mode == "external" && rapid.IntRange(0, 3).Draw(t, "ext-cache") == 0
		c.HSupVer = c.Mode == "external" && rapid.IntRange(0, 2).Draw(t, "h-supver") > 0
	}
	return c
}

const rule = "zcrypto client <-> zcrypto server handshakes through a recording proxy: TLS 1.0-1.3, RSA 1024/2048/3072, ECDSA P-256/384/521 and Ed25519 server keys, all 31 implemented TLS<=1.2 suites (RSA, DHE_RSA, ECDHE_RSA, ECDHE_ECDSA x RC4/3DES/AES-CBC/AES-GCM/ChaCha20), curve X25519/P-256/P-384/P-521 or default, ALPN lists, OCSP staple, SCT lists, leaf or leaf+CA chain, restricted server signature scheme (PSS/PKCS1/ECDSA x SHA-1..SHA-512), tickets on/off/server-off, ForceSessionTicketExt, client certificate, explicit ServerRandom, optional second (resumed) handshake on the same session cache, with or without a rotated server ticket key (ticket re-issued while resuming); client hello from the default path, from a ClientFingerprintConfiguration (explicit random, session id, bogus ticket, legacy signature algorithms, permuted optional extensions) or from ExternalClientHello bytes. Failed handshakes are skipped. Non-trivial: TLS 1.2 ECDHE full handshake (carries a signature algorithm), a ClientHello that carries a ticket, or a resumed second handshake; distinct by case hash"

func TestPropLog(t *testing.T) {
	kit.Run(t, kit.Spec[Case]{ID: "C28", Name: "log", Rule: rule, Gen: gen, Check: check, Quick: 2000, Thorough: 30000,
		Assumptions: []string{
			"'populated' = true boolean / non-empty bytes or list / non-zero scalar / non-nil sub-structure; false, empty and nil log fields assert nothing - except the three ClientHello booleans that MakeLog copies from the marshalled message (ocsp stapling, session ticket, SCT), which are compared in both directions",
			"logged signature algorithms are compared by their JSON names: rsa or pkcs1v15 for PKCS#1, rsa or rsapss for PSS, ecdsa, dsa, ed25519; hash by name, 'intrinsic' or 'none' for Ed25519",
			"ClientHello.SignatureAndHashes may be an order-preserving sub-list of the wire list (schemes zcrypto has no name for are not populated)",
			"a logged SessionTicket without a NewSessionTicket message in the same handshake must be the ticket the ClientHello offered; its lifetime hint is not checked",
			"TLS 1.3: only the hello messages are compared with the wire; certificates are compared with the chain the server was configured with; ALPN must be one of the offered protocols",
		}})
}
