package c06

import (
	"bytes"
	"crypto/ecdsa"
	"crypto/ed25519"
	"crypto/md5"
	"crypto/rand"
	stdrsa "crypto/rsa"
	"crypto/sha1"
	"crypto/sha256"
	"encoding/json"
	"encoding/pem"
	"fmt"
	"math/big"
	"os"
	"path/filepath"
	"sort"
	"sync"
	"testing"
	"time"

	"github.com/zmap/zcrypto/encoding/asn1"
	"github.com/zmap/zcrypto/x509"
	"github.com/zmap/zcrypto/x509/pkix"
	"pgregory.net/rapid"
	"verifharness/certgen"
	"verifharness/der"
	"verifharness/keys"
	"verifharness/kit"
	"verifharness/pki"
)

const keyLax = "C06:accepted-with-inconsistent-explicit-length"

// oracle checks every metadata clause of C06 on accepted certificate bytes b,
// using only the der package, std hashes and std signature verification.
func oracle(r *kit.R, b []byte, cert *x509.Certificate) (p *certgen.Parts, selfIssued, selfSigned, decided bool) {
	fail := func(k, f string, a ...any) {
		r.Failf("C06:"+k, f+"\nder=%x", append(a, b)...)
	}
	m5, s1, s256 := md5.Sum(b), sha1.Sum(b), sha256.Sum256(b)
	if !bytes.Equal(cert.Raw, b) || !bytes.Equal(cert.FingerprintMD5, m5[:]) || !bytes.Equal(cert.FingerprintSHA1, s1[:]) || !bytes.Equal(cert.FingerprintSHA256, s256[:]) {
		fail("whole-certificate", "Raw / MD5 / SHA-1 / SHA-256 fingerprints are not those of the input bytes")
	}
	p, err := certgen.Split(b)
	if err != nil || len(p.Rest) != 0 || p.LaxExplicit {
		// accepted although the nesting of TLV lengths is inconsistent: encoding/asn1 does not check the
		// length of an EXPLICIT wrapper ([0] version, [3] extensions) against its content, so the parser
		// continues where the inner element ends and the Raw* fields are taken from places that are not
		// the issuer/subject/SPKI elements of the input as DER structures it.
		if !r.Known(keyLax) {
			fail("accepted-with-inconsistent-explicit-length", "ParseCertificate accepts a certificate whose EXPLICIT wrapper length disagrees with its content (walker: %v); the sub-encodings are not well defined", err)
		}
		r.Class("known:inconsistent-explicit-length")
		return nil, false, false, false
	}
	for _, f := range []struct {
		name      string
		got, want []byte
	}{{"Raw", cert.Raw, b}, {"RawTBSCertificate", cert.RawTBSCertificate, p.TBS.Full}, {"RawIssuer", cert.RawIssuer, p.Issuer.Full},
		{"RawSubject", cert.RawSubject, p.Subject.Full}, {"RawSubjectPublicKeyInfo", cert.RawSubjectPublicKeyInfo, p.SPKI.Full}} {
		if !bytes.Equal(f.got, f.want) {
			fail("raw:"+f.name, "%s is not the exact sub-encoding of the input:\n got %x\nwant %x", f.name, f.got, f.want)
		}
	}
	spki, tbs := sha256.Sum256(p.SPKI.Full), sha256.Sum256(p.TBS.Full)
	ss := sha256.Sum256(append(append([]byte{}, p.SPKI.Full...), p.Subject.Full...))
	for _, f := range []struct {
		name      string
		got, want []byte
	}{{"FingerprintMD5", cert.FingerprintMD5, m5[:]}, {"FingerprintSHA1", cert.FingerprintSHA1, s1[:]}, {"FingerprintSHA256", cert.FingerprintSHA256, s256[:]},
		{"SPKIFingerprint", cert.SPKIFingerprint, spki[:]}, {"TBSCertificateFingerprint", cert.TBSCertificateFingerprint, tbs[:]},
		{"SPKISubjectFingerprint", cert.SPKISubjectFingerprint, ss[:]}} {
		if !bytes.Equal(f.got, f.want) {
			fail("fingerprint:"+f.name, "%s = %x, the named hash of the named bytes is %x", f.name, f.got, f.want)
		}
	}
	if int64(cert.Version) != p.Version+1 {
		fail("version", "Version = %d, encoded version is %d (present: %v)", cert.Version, p.Version, p.HasVersion)
	}
	if !bytes.Equal(cert.Signature, p.SigBytes()) && p.Sig.Body[0] == 0 {
		fail("signature-bytes", "Signature differs from the BIT STRING content")
	}
	selfIssued = bytes.Equal(p.Issuer.Full, p.Subject.Full)
	if !selfIssued {
		if cert.SelfSigned {
			fail("self-signed", "SelfSigned = true although issuer != subject")
		}
		return p, false, false, true
	}
	if !bytes.Equal(p.InnerAlg.Full, p.OuterAlg.Full) || len(p.Sig.Body) == 0 || p.Sig.Body[0] != 0 {
		return p, true, false, false // which algorithm "the signature" is under is ambiguous
	}
	ok, decided := certgen.StdVerifySPKI(p.SPKI.Full, p.InnerAlg.Full, p.TBS.Full, p.SigBytes())
	if !decided {
		return p, true, false, false
	}
	if cert.SelfSigned != ok {
		fail("self-signed", "SelfSigned = %v, but issuer == subject and the standard library says the signature verifies under the certificate's own key: %v", cert.SelfSigned, ok)
	}
	return p, true, ok, true
}

// ---------------------------------------------------------------------------
// generated + transformed certificates

// Case: a certificate created by the library, optionally transformed.
//
//	Mode 0 self-signed; 1 self-issued but signed by ParentKey; 2 issued by a parent named Parent (key ParentKey);
//	3 signed by its OWN key but with an issuer name that is a near-variant of the subject (see IssuerVariant)
//	Version: -2 keep the created TBS; else rebuild the TBS with this version (-1: field absent) and re-sign with std crypto
//	Flip: XOR one byte (region 1: inside the signature value, 2: anywhere, 3: inside the subject name, 4: length octet of the [0] version wrapper)
type Case struct {
	T          certgen.Cert `json:"t"`
	SubjectKey int          `json:"subject_key"`
	Mode       int          `json:"mode"`
	Parent     certgen.Name `json:"parent"`
	ParentKey  int          `json:"parent_key"`
	Version    int          `json:"version"`
	FlipRegion int          `json:"flip_region"`
	FlipOff    int          `json:"flip_off"`
	FlipXor    byte         `json:"flip_xor"`
	// IssuerVariant (mode 3 only): how the issuer of a certificate signed by its OWN key is
	// made to differ from the subject: 1 = the string type of the first attribute value is
	// switched between PrintableString and UTF8String (same text, other DER), 2 = the case of
	// the first ASCII letter of the first attribute value is toggled.
	IssuerVariant int `json:"issuer_variant,omitempty"`
	// ReAlg > 0: the finished certificate is given AlgorithmIdentifier row ReAlg-1 of the oracle's
	// own table (every OID it can read, alias OIDs included) in both places and is re-signed with
	// the standard library under that algorithm; skipped when the row does not fit the signer's key.
	ReAlg int `json:"re_alg,omitempty"`
}

// reAlg rebuilds b with the table row's AlgorithmIdentifier and a genuine std signature.
func reAlg(b []byte, row int, signer *keys.Key) ([]byte, bool) {
	oid, alg := certgen.AlgAt(row)
	if alg.Key != signer.Kind {
		return nil, false
	}
	p, err := certgen.Split(b)
	if err != nil {
		return nil, false
	}
	algDER := der.Seq(oid)
	if alg.Key == "rsa" {
		algDER = der.Seq(oid, der.Null())
	}
	var kids [][]byte
	start := 0
	if p.HasVersion {
		start = 1
	}
	for j, k := range p.Kids {
		if j == start+1 {
			kids = append(kids, algDER)
		} else {
			kids = append(kids, k.Full)
		}
	}
	tbs := der.Seq(kids...)
	var digest []byte
	if alg.Hash != 0 {
		h := alg.Hash.New()
		h.Write(tbs)
		digest = h.Sum(nil)
	}
	var sig []byte
	switch alg.Key {
	case "rsa":
		sig, err = stdrsa.SignPKCS1v15(rand.Reader, signer.StdPriv.(*stdrsa.PrivateKey), alg.Hash, digest)
	case "ec":
		sig, err = ecdsa.SignASN1(rand.Reader, signer.StdPriv.(*ecdsa.PrivateKey), digest)
	case "ed25519":
		sig = ed25519.Sign(signer.StdPriv.(ed25519.PrivateKey), tbs)
	default:
		return nil, false
	}
	if err != nil {
		return nil, false
	}
	return pki.AssembleCert(tbs, algDER, sig), true
}

// nearVariantIssuer rewrites, inside a copy of the TBS bytes, the first attribute value of
// the issuer name (same length, so every enclosing length stays valid).  ok is false when the
// name has no value the requested variant applies to.
func nearVariantIssuer(p *certgen.Parts, variant int) (tbs []byte, ok bool) {
	tbs = append([]byte{}, p.TBS.Full...)
	base := cap(p.TBS.Full)
	rdns, err := der.Children(p.Issuer.Body)
	if err != nil {
		return nil, false
	}
	for _, rdn := range rdns {
		atvs, err := der.Children(rdn.Body)
		if err != nil {
			return nil, false
		}
		for _, atv := range atvs {
			kv, err := der.Children(atv.Body)
			if err != nil || len(kv) != 2 {
				continue
			}
			v := kv[1]
			off := base - cap(v.Full) // offset of the value's identifier octet inside the TBS
			if off < 0 || off >= len(tbs) || tbs[off] != v.Full[0] {
				return nil, false
			}
			switch variant {
			case 1:
				printable := true
				for _, ch := range v.Body {
					if !(ch >= 'a' && ch <= 'z' || ch >= 'A' && ch <= 'Z' || ch >= '0' && ch <= '9' || ch == ' ' || ch == '-' || ch == '.') {
						printable = false
					}
				}
				if v.Full[0] == 0x13 {
					tbs[off] = 0x0c
					return tbs, true
				}
				if v.Full[0] == 0x0c && printable && len(v.Body) > 0 {
					tbs[off] = 0x13
					return tbs, true
				}
			case 2:
				for i, ch := range v.Body {
					if ch >= 'a' && ch <= 'z' || ch >= 'A' && ch <= 'Z' {
						tbs[off+v.HeaderLen+i] ^= 0x20
						return tbs, true
					}
				}
			}
		}
	}
	return nil, false
}

const rule = "certificates created by CreateCertificate from the C04 template generator (pool keys RSA/ECDSA/Ed25519, requested algorithms incl. MD5/SHA1/PSS) in four modes (self-signed, self-issued but signed by another key, issued by a parent, signed by its own key with an issuer that is a near-variant of the subject: other string type or one letter's case), optionally re-assembled with another version field (absent, 0..3, 100) and re-signed with the standard library, optionally (1 in 4) given each AlgorithmIdentifier of the oracle's own OID table that fits the signer's key (MD5/SHA-1/SHA-2 with RSA incl. the ISO alias 1.3.14.3.2.29, ECDSA with SHA-1/SHA-2, Ed25519) and re-signed under it, optionally with one byte flipped (in the signature, in the subject, anywhere); every variant ParseCertificate accepts is compared with an independent TLV walk + std hashes + std signature verification, and is parsed once more through ParseCertificates in front of and behind a companion certificate (rich in extensions / extension-free / precertificate), where it must come out with the same metadata (oracle again, JSON forms equal). Non-trivial: self-issued-but-not-self-signed, a transformed variant, or a non-RSA-2048 key; distinct by case hash"

func build(c Case, r *kit.R) []byte {
	subj := keys.Get(c.SubjectKey)
	signer := subj
	tmpl := c.T.X509()
	parent := tmpl
	switch c.Mode {
	case 1:
		signer = keys.Get(c.ParentKey)
	case 2:
		signer = keys.Get(c.ParentKey)
		parent = &x509.Certificate{Subject: c.Parent.PKIX()}
	}
	if !certgen.SigCompat(signer, x509.SignatureAlgorithm(c.T.SigAlg)) {
		r.Class("incompatible-key/algorithm")
		r.Skip()
	}
	b, err := x509.CreateCertificate(rand.Reader, tmpl, parent, subj.ZPub, signer.ZPriv)
	if err != nil {
		r.Failf("C06:create-error", "CreateCertificate: %v", err)
	}
	if c.Version != -2 {
		p, err := certgen.Split(b)
		if err != nil {
			r.Failf("C06:oracle-cannot-split", "the TLV walker cannot decompose a library-created certificate: %v", err)
		}
		if !bytes.Equal(p.InnerAlg.Full, pki.DefaultSigAlgDER(signer)) {
			r.Class("version-rebuild-skipped(non-default-alg)")
		} else {
			b = pki.ResignTBS(p.TBSWith(int64(c.Version), p.ExtFulls()), signer)
			r.Class(fmt.Sprintf("version-field=%d", c.Version))
		}
	}
	if c.Mode == 3 {
		p, err := certgen.Split(b)
		if err != nil {
			r.Failf("C06:oracle-cannot-split", "the TLV walker cannot decompose a library-created certificate: %v", err)
		}
		if !bytes.Equal(p.InnerAlg.Full, pki.DefaultSigAlgDER(signer)) {
			r.Class("issuer-variant-skipped(non-default-alg)")
		} else if tbs, ok := nearVariantIssuer(p, c.IssuerVariant); ok {
			b = pki.ResignTBS(tbs, signer) // genuinely signed by its own key, issuer != subject
			r.Class(fmt.Sprintf("own-key-signed-issuer-variant=%d", c.IssuerVariant))
		} else {
			r.Class("issuer-variant-not-applicable")
		}
	}
	if c.ReAlg > 0 {
		if nb, ok := reAlg(b, c.ReAlg-1, signer); ok {
			b = nb
			_, a := certgen.AlgAt(c.ReAlg - 1)
			r.Class(fmt.Sprintf("re-signed-under-table-row=%d(%s,hash=%d)", c.ReAlg-1, a.Key, a.Hash))
		} else {
			r.Class("re-alg-not-applicable")
		}
	}
	if c.FlipRegion != 0 && c.FlipXor != 0 {
		p, err := certgen.Split(b)
		if err == nil {
			lo, hi := 0, len(b)
			switch c.FlipRegion {
			case 1:
				hi = len(b)
				lo = len(b) - len(p.SigBytes())
			case 4:
				// the length octet of the EXPLICIT [0] version wrapper
				if p.HasVersion {
					lo = cap(b) - cap(p.Kids[0].Full) + 1
					hi = lo + 1
				}
			case 3:
				lo = bytes.Index(b, p.Subject.Body)
				hi = lo + len(p.Subject.Body)
				if c.Mode != 2 {
					// issuer == subject: flip the second occurrence (the subject), the issuer comes first
					if j := bytes.Index(b[lo+1:], p.Subject.Body); j >= 0 {
						lo = lo + 1 + j
						hi = lo + len(p.Subject.Body)
					}
				}
			}
			if hi > lo {
				b = append([]byte{}, b...)
				b[lo+((c.FlipOff%(hi-lo))+(hi-lo))%(hi-lo)] ^= c.FlipXor
				r.Class(fmt.Sprintf("flip-region=%d", c.FlipRegion))
			}
		}
	}
	return b
}

// companions are certificates placed in front of the certificate under test when it is parsed
// through ParseCertificates: one with many extensions, one with none, one precertificate.
var companions = sync.OnceValue(func() [][]byte {
	k := keys.ByName("ecP-256-0")
	mk := func(t *x509.Certificate) []byte {
		b, err := x509.CreateCertificate(rand.Reader, t, t, k.ZPub, k.ZPriv)
		if err != nil {
			panic(err)
		}
		return b
	}
	rich := &x509.Certificate{SerialNumber: big.NewInt(77), Subject: pkix.Name{CommonName: "companion.example.test", Organization: []string{"Companion"}},
		NotBefore: pki.Epoch, NotAfter: pki.Epoch.Add(240 * time.Hour), KeyUsage: x509.KeyUsageCertSign | x509.KeyUsageDigitalSignature,
		ExtKeyUsage: []x509.ExtKeyUsage{x509.ExtKeyUsageServerAuth}, BasicConstraintsValid: true, IsCA: true, MaxPathLen: 3,
		SubjectKeyId: []byte{1, 2, 3, 4}, AuthorityKeyId: []byte{5, 6, 7, 8}, DNSNames: []string{"companion.example.test", "*.companion.example.test"},
		EmailAddresses: []string{"c@example.test"}, PolicyIdentifiers: []asn1.ObjectIdentifier{{2, 23, 140, 1, 2, 1}},
		CRLDistributionPoints: []string{"http://crl.example.test/c.crl"}, OCSPServer: []string{"http://ocsp.example.test/"},
		PermittedDNSNames: []x509.GeneralSubtreeString{{Data: "example.test"}}}
	bare := &x509.Certificate{SerialNumber: big.NewInt(78), Subject: pkix.Name{CommonName: "bare"}, NotBefore: pki.Epoch, NotAfter: pki.Epoch.Add(240 * time.Hour)}
	pre := &x509.Certificate{SerialNumber: big.NewInt(79), Subject: pkix.Name{CommonName: "pre.example.test"}, NotBefore: pki.Epoch, NotAfter: pki.Epoch.Add(240 * time.Hour),
		DNSNames: []string{"pre.example.test"}, ExtraExtensions: []pkix.Extension{{Id: asn1.ObjectIdentifier{1, 3, 6, 1, 4, 1, 11129, 2, 4, 3}, Critical: true, Value: []byte{5, 0}}}}
	return [][]byte{mk(rich), mk(bare), mk(pre)}
})

// bundleCheck parses companion || b with ParseCertificates: the certificate under test must come
// out with the metadata ParseCertificate gave it (the metadata is a function of its DER bytes).
func bundleCheck(r *kit.R, b []byte, single *x509.Certificate, which int) {
	comp := companions()[((which%3)+3)%3]
	for _, order := range []int{0, 1} {
		in, at := append(append([]byte{}, comp...), b...), 1
		if order == 1 {
			in, at = append(append([]byte{}, b...), comp...), 0
		}
		certs, err := x509.ParseCertificates(in)
		if err != nil || len(certs) != 2 {
			r.Failf("C06:bundle:rejected", "ParseCertificate accepts the certificate and the companion, ParseCertificates of the two concatenated (position %d) returns %d certificates, %v\nder=%x", at, len(certs), err, b)
		}
		got := certs[at]
		oracle(r, b, got)
		j1, e1 := json.Marshal(single)
		j2, e2 := json.Marshal(got)
		if (e1 == nil) != (e2 == nil) || !bytes.Equal(j1, j2) {
			r.Failf("C06:bundle:metadata-differs", "the certificate parsed as element %d of a two-certificate bundle (companion %d) differs from the same bytes parsed alone (FingerprintNoCT %x vs %x, %d vs %d extensions)\njson alone:  %s\njson bundle: %s\nder=%x",
				at, which%3, got.FingerprintNoCT, single.FingerprintNoCT, len(got.Extensions), len(single.Extensions), j1, j2, b)
		}
	}
	r.Class("parsed-in-a-bundle-too")
}

func check(c Case, r *kit.R) {
	b := build(c, r)
	cert, err := x509.ParseCertificate(b)
	if err != nil {
		r.Class("rejected")
		return
	}
	_, selfIssued, selfSigned, decided := oracle(r, b, cert)
	bundleCheck(r, b, cert, c.FlipOff+c.SubjectKey+c.Mode)
	transformed := c.Version != -2 || (c.FlipRegion != 0 && c.FlipXor != 0) || c.Mode == 3
	switch {
	case !decided:
		r.Class("self-signed-undecided")
	case selfSigned:
		r.Class("self-signed")
	case selfIssued:
		r.Class("self-issued-not-self-signed")
	default:
		r.Class("issued")
	}
	r.Class(fmt.Sprintf("version=%d", cert.Version))
	r.Class(fmt.Sprintf("mode=%d", c.Mode))
	k := keys.Get(c.SubjectKey)
	r.Class("key:" + k.Kind)
	if !transformed && decided {
		// untransformed library output: the flag is known by construction, too
		signerIdx := c.SubjectKey
		if c.Mode != 0 {
			signerIdx = c.ParentKey
		}
		if want := selfIssued && signerIdx == c.SubjectKey; cert.SelfSigned != want {
			r.Failf("C06:self-signed", "mode %d certificate parsed with SelfSigned=%v", c.Mode, cert.SelfSigned)
		}
	}
	if (selfIssued && !selfSigned && decided) || transformed || !(k.Kind == "rsa" && k.Bits == 2048) {
		r.NonTrivial()
	}
}

func gen(t *rapid.T) Case {
	var c Case
	c.SubjectKey = certgen.GenSignerKey(t, "subject-key")
	c.Mode = rapid.SampledFrom([]int{0, 0, 1, 1, 2, 3, 3}).Draw(t, "mode")
	if c.Mode == 3 {
		c.IssuerVariant = rapid.SampledFrom([]int{1, 1, 2}).Draw(t, "issuer-variant")
	}
	c.T = certgen.GenCert(t, "t", certgen.GenOpts{Density: rapid.SampledFrom([]int{10, 30, 60}).Draw(t, "density"), Overrides: true})
	signer := keys.Get(c.SubjectKey)
	if c.Mode == 1 || c.Mode == 2 {
		c.ParentKey = certgen.GenSignerKey(t, "parent-key")
		for c.Mode == 1 && c.ParentKey == c.SubjectKey {
			c.ParentKey = certgen.GenSignerKey(t, "parent-key")
		}
		signer = keys.Get(c.ParentKey)
	}
	if c.Mode == 2 {
		c.Parent = certgen.GenName(t, "parent", 10)
		if certgen.Chance(t, "parent-same-name", 20) {
			c.Parent = c.T.Subject // issued by another key under the same name
		}
	}
	c.T.SigAlg = 0
	if certgen.Chance(t, "alg", 40) {
		c.T.SigAlg = certgen.GenSigAlg(t, "sigalg", signer)
	}
	if certgen.Chance(t, "re-alg", 25) {
		var rows []int
		for i := 0; i < certgen.AlgTableLen(); i++ {
			if _, a := certgen.AlgAt(i); a.Key == signer.Kind {
				rows = append(rows, i)
			}
		}
		if len(rows) > 0 {
			c.ReAlg = 1 + rapid.SampledFrom(rows).Draw(t, "re-alg-row")
		}
	}
	c.Version = -2
	if certgen.Chance(t, "reversion", 30) {
		c.Version = rapid.SampledFrom([]int{-1, 0, 1, 2, 3, 100}).Draw(t, "version")
	}
	if certgen.Chance(t, "flip", 35) {
		c.FlipRegion = rapid.SampledFrom([]int{1, 1, 3, 3, 2, 1, 3, 4}).Draw(t, "flip-region")
		c.FlipOff = rapid.IntRange(0, 4000).Draw(t, "flip-off")
		c.FlipXor = byte(rapid.SampledFrom([]int{1, 2, 0x20, 0x80, 0xff}).Draw(t, "flip-xor"))
	}
	return c
}

func TestPropMeta(t *testing.T) {
	kit.Run(t, kit.Spec[Case]{ID: "C06", Name: "meta", Rule: rule, Gen: gen, Check: check, Quick: 2000, Thorough: 12000,
		Assumptions: []string{
			"'the certificate's signature verifies under its own key' is evaluated with the Go standard library (crypto/x509.ParsePKIXPublicKey + crypto/rsa|ecdsa|ed25519) under the algorithm the harness reads from the AlgorithmIdentifier with its own OID table; when inner and outer AlgorithmIdentifier differ, the key is not a std-supported RSA/ECDSA/Ed25519 key, or the algorithm is outside the table (DSA, MD2), the self-signed clause is not asserted for issuer == subject (class self-signed-undecided)",
			"ValidityPeriod is not part of the statement and is not asserted",
		}})
}

// ---------------------------------------------------------------------------
// corpus: the repository's own test certificates

type CorpusCase struct {
	File  string `json:"file"`
	Index int    `json:"index"`
}

func repoDir() string {
	if d := os.Getenv("VERIF_REPO"); d != "" {
		return d
	}
	return "/repo"
}

func corpus() []CorpusCase {
	var out []CorpusCase
	var files []string
	for _, pat := range []string{"x509/testdata/*", "data/test/certificates/*", "verifier/testdata/*", "tls/testdata/*.pem", "x509/revocation/*/testdata/*"} {
		m, _ := filepath.Glob(filepath.Join(repoDir(), pat))
		files = append(files, m...)
	}
	sort.Strings(files)
	for _, f := range files {
		b, err := os.ReadFile(f)
		if err != nil {
			continue
		}
		rel, _ := filepath.Rel(repoDir(), f)
		i := 0
		for {
			var blk *pem.Block
			blk, b = pem.Decode(b)
			if blk == nil {
				break
			}
			if blk.Type == "CERTIFICATE" {
				out = append(out, CorpusCase{File: rel, Index: i})
			}
			i++
		}
	}
	return out
}

func loadCorpus(c CorpusCase) []byte {
	b, err := os.ReadFile(filepath.Join(repoDir(), c.File))
	if err != nil {
		return nil
	}
	i := 0
	for {
		var blk *pem.Block
		blk, b = pem.Decode(b)
		if blk == nil {
			return nil
		}
		if i == c.Index {
			return blk.Bytes
		}
		i++
	}
}

func TestPropCorpus(t *testing.T) {
	kit.Run(t, kit.Spec[CorpusCase]{ID: "C06", Name: "corpus",
		Rule: "exhaustive over the PEM certificates in the repository's test data (x509/testdata, data/test/certificates, verifier/testdata, tls/testdata): every one ParseCertificate accepts (strict mode) goes through the same oracle. Non-trivial: accepted",
		Check: func(c CorpusCase, r *kit.R) {
			b := loadCorpus(c)
			if b == nil {
				r.Class("unreadable")
				return
			}
			cert, err := x509.ParseCertificate(b)
			if err != nil {
				r.Class("rejected")
				return
			}
			_, selfIssued, selfSigned, decided := oracle(r, b, cert)
			switch {
			case !decided:
				r.Class("self-signed-undecided")
			case selfSigned:
				r.Class("self-signed")
			case selfIssued:
				r.Class("self-issued-not-self-signed")
			default:
				r.Class("issued")
			}
			r.Class(fmt.Sprintf("version=%d", cert.Version))
			r.NonTrivial()
		},
		Enum: func(shard, nshards int, yield func(CorpusCase) bool) {
			for i, c := range corpus() {
				if i%nshards != shard {
					continue
				}
				if !yield(c) {
					return
				}
			}
		}})
}

// ---------------------------------------------------------------------------
// no-CT fingerprint

// CTCase: a canonical certificate and the placements of CT extensions.
type CTCase struct {
	T          certgen.Cert  `json:"t"`
	SubjectKey int           `json:"subject_key"`
	SignerKey  int           `json:"signer_key"`
	SCTs       []certgen.SCT `json:"scts"`
	// PoisonNonCritical: encode the poison extension without the critical flag (the parser
	// still treats it as the CT poison and reports a precertificate).
	PoisonNonCritical bool `json:"poison_non_critical,omitempty"`
}

const ruleCT = "a canonical certificate (created by CreateCertificate with the key's default algorithm from the C04 template generator, 0..n extensions) and, for EVERY position 0..n of its extension list, three twins re-assembled with the der package and re-signed with the standard library: CT poison (critical, or in 35% of cases non-critical) inserted there, an SCT-list extension (1-3 generated SCTs) inserted there, and both (poison at i, SCT list before/after it and at both ends); all must parse, have the same FingerprintNoCT as the CT-free certificate, and that value must be SHA-256 of the CT-free TBS bytes; plus the family in which the CT extensions are the only extensions (poison, SCT list, both in either order) against the same certificate without an extensions field: equal no-CT fingerprints. Non-trivial: >= 1 other extension; distinct by case hash"

func checkCT(c CTCase, r *kit.R) {
	subj, signer := keys.Get(c.SubjectKey), keys.Get(c.SignerKey)
	tmpl := c.T.X509()
	parent := tmpl
	if c.SignerKey != c.SubjectKey {
		parent = &x509.Certificate{Subject: c.T.Subject.PKIX()}
		parent.Subject.CommonName = "issuer of " + parent.Subject.CommonName
	}
	b, err := x509.CreateCertificate(rand.Reader, tmpl, parent, subj.ZPub, signer.ZPriv)
	if err != nil {
		r.Failf("C06:create-error", "CreateCertificate: %v", err)
	}
	base, err := x509.ParseCertificate(b)
	if err != nil {
		r.Failf("C06:parse-error", "ParseCertificate of a created certificate: %v", err)
	}
	p, _, _, _ := oracle(r, b, base)
	if p == nil {
		r.Failf("C06:oracle-cannot-split", "the TLV walker cannot decompose a library-created certificate\nder=%x", b)
	}
	want := sha256.Sum256(p.TBS.Full)
	if !bytes.Equal(base.FingerprintNoCT, want[:]) {
		r.Failf("C06:noct-of-ct-free-certificate", "a canonically encoded certificate without CT extensions has FingerprintNoCT %x, SHA-256 of its TBS is %x\nder=%x", base.FingerprintNoCT, want, b)
	}
	if base.IsPrecert || len(base.SignedCertificateTimestampList) != 0 {
		r.Failf("C06:ct-flags", "CT-free certificate parsed with IsPrecert=%v, %d SCTs", base.IsPrecert, len(base.SignedCertificateTimestampList))
	}
	exts := p.ExtFulls()
	n := len(exts)
	poison, sct := certgen.PoisonExtDERCritical(!c.PoisonNonCritical), certgen.SCTListExtDER(c.SCTs)
	if c.PoisonNonCritical {
		r.Class("poison-non-critical")
	} else {
		r.Class("poison-critical")
	}
	ins := func(l [][]byte, i int, e []byte) [][]byte {
		out := append([][]byte{}, l[:i]...)
		out = append(out, e)
		return append(out, l[i:]...)
	}
	ver := int64(2)
	try := func(what string, l [][]byte, wantPre bool, wantSCT int) {
		tb := p.TBSWith(ver, l)
		d := pki.ResignTBS(tb, signer)
		cert, err := x509.ParseCertificate(d)
		if err != nil {
			r.Failf("C06:ct-twin-rejected", "%s: ParseCertificate rejects the twin: %v\nder=%x", what, err, d)
		}
		oracle(r, d, cert)
		if !bytes.Equal(cert.FingerprintNoCT, base.FingerprintNoCT) {
			r.Failf("C06:noct-differs", "%s: FingerprintNoCT %x differs from the CT-free certificate's %x\ntwin=%x\nbase=%x", what, cert.FingerprintNoCT, base.FingerprintNoCT, d, b)
		}
		if cert.IsPrecert != wantPre || len(cert.SignedCertificateTimestampList) != wantSCT {
			r.Failf("C06:ct-flags", "%s: IsPrecert=%v (want %v), %d SCTs (want %d)", what, cert.IsPrecert, wantPre, len(cert.SignedCertificateTimestampList), wantSCT)
		}
	}
	for i := 0; i <= n; i++ {
		try(fmt.Sprintf("poison at %d/%d", i, n), ins(exts, i, poison), true, 0)
		try(fmt.Sprintf("SCT list at %d/%d", i, n), ins(exts, i, sct), false, len(c.SCTs))
		withP := ins(exts, i, poison)
		seen := map[int]bool{}
		for _, j := range []int{0, i, i + 1, n + 1} {
			if seen[j] {
				continue
			}
			seen[j] = true
			try(fmt.Sprintf("poison at %d, SCT list at %d of %d", i, j, n+1), ins(withP, j, sct), true, len(c.SCTs))
		}
	}
	// the same certificate with an extension list that holds nothing but CT extensions, against
	// its counterpart without an extensions field (only the clause of the statement is asserted:
	// the no-CT fingerprints of the family agree)
	{
		bare := pki.ResignTBS(p.TBSWith(ver, nil), signer)
		bc, err := x509.ParseCertificate(bare)
		if err != nil {
			r.Failf("C06:ct-twin-rejected", "extension-free twin: ParseCertificate rejects it: %v\nder=%x", err, bare)
		}
		oracle(r, bare, bc)
		for _, f := range []struct {
			what    string
			l       [][]byte
			wantPre bool
			wantSCT int
		}{{"poison only", [][]byte{poison}, true, 0}, {"SCT list only", [][]byte{sct}, false, len(c.SCTs)},
			{"poison, SCT list only", [][]byte{poison, sct}, true, len(c.SCTs)}, {"SCT list, poison only", [][]byte{sct, poison}, true, len(c.SCTs)}} {
			d := pki.ResignTBS(p.TBSWith(ver, f.l), signer)
			cert, err := x509.ParseCertificate(d)
			if err != nil {
				r.Failf("C06:ct-twin-rejected", "%s: ParseCertificate rejects the twin: %v\nder=%x", f.what, err, d)
			}
			oracle(r, d, cert)
			if !bytes.Equal(cert.FingerprintNoCT, bc.FingerprintNoCT) {
				r.Failf("C06:noct-differs", "%s: FingerprintNoCT %x differs from %x of the same certificate without an extensions field\ntwin=%x\nbare=%x", f.what, cert.FingerprintNoCT, bc.FingerprintNoCT, d, bare)
			}
			if cert.IsPrecert != f.wantPre || len(cert.SignedCertificateTimestampList) != f.wantSCT {
				r.Failf("C06:ct-flags", "%s: IsPrecert=%v (want %v), %d SCTs (want %d)", f.what, cert.IsPrecert, f.wantPre, len(cert.SignedCertificateTimestampList), f.wantSCT)
			}
		}
		r.Class("ct-extensions-as-the-only-extensions")
	}
	r.Class(fmt.Sprintf("extensions=%d", min(n, 8)))
	r.Class(fmt.Sprintf("scts=%d", len(c.SCTs)))
	r.Class("key:" + signer.Kind)
	if c.T.NotBefore.Unix >= 2524608000 || c.T.NotAfter.Unix >= 2524608000 {
		r.Class("generalized-time")
	}
	if n >= 1 {
		r.NonTrivial()
	}
}

func genCT(t *rapid.T) CTCase {
	var c CTCase
	c.SubjectKey = certgen.GenSignerKey(t, "subject-key")
	c.SignerKey = c.SubjectKey
	if certgen.Chance(t, "issued", 50) {
		c.SignerKey = certgen.GenSignerKey(t, "signer-key")
	}
	c.T = certgen.GenCert(t, "t", certgen.GenOpts{Density: rapid.SampledFrom([]int{0, 10, 30, 60}).Draw(t, "density"), OldTimes: true})
	c.T.SigAlg = 0
	c.PoisonNonCritical = certgen.Chance(t, "poison-non-critical", 35)
	n := rapid.IntRange(1, 3).Draw(t, "nsct")
	for i := 0; i < n; i++ {
		c.SCTs = append(c.SCTs, certgen.SCT{
			LogID:     rapid.SliceOfN(rapid.Byte(), 32, 32).Draw(t, "logid"),
			Timestamp: rapid.Uint64().Draw(t, "ts"),
			Ext:       rapid.SliceOfN(rapid.Byte(), 0, 5).Draw(t, "sct-ext"),
			HashAlg:   byte(rapid.IntRange(0, 6).Draw(t, "hash")),
			SigAlg:    byte(rapid.IntRange(0, 3).Draw(t, "sig")),
			Sig:       rapid.SliceOfN(rapid.Byte(), 0, 80).Draw(t, "sct-sig"),
		})
	}
	return c
}

func TestPropNoCT(t *testing.T) {
	kit.Run(t, kit.Spec[CTCase]{ID: "C06", Name: "noct", Rule: ruleCT, Gen: genCT, Check: checkCT, Quick: 250, Thorough: 2500,
		Assumptions: []string{
			"'canonically encoded' = produced by CreateCertificate (DER, v3, default signature algorithm); the twins differ from it only by the inserted CT extension(s) (poison with NULL value, critical or not; SCT list as OCTET STRING in OCTET STRING) and the signature",
			"templates here do not themselves carry CT extensions",
		}})
}

var _ = der.Null
