package c21

import (
	"bytes"
	"fmt"
	"math/big"
	"testing"

	"github.com/zmap/zcrypto/cryptobyte"
	cbasn1 "github.com/zmap/zcrypto/cryptobyte/asn1"
	"github.com/zmap/zcrypto/encoding/asn1"
	"pgregory.net/rapid"
	"verifharness/kit"
)

// ---------------------------------------------------------------------------
// writing

func writeBlock(b *cryptobyte.Builder, items []Item, fill int) {
	for _, it := range items {
		write(b, it)
	}
	if fill > 0 {
		b.AddBytes(make([]byte, fill))
	}
}

func write(b *cryptobyte.Builder, it Item) {
	block := func(c *cryptobyte.Builder) { writeBlock(c, it.Sub, it.Fill) }
	switch it.K {
	case "u8":
		b.AddUint8(uint8(it.U))
	case "u16":
		b.AddUint16(uint16(it.U))
	case "u24":
		b.AddUint24(uint32(it.U))
	case "u32":
		b.AddUint32(uint32(it.U))
	case "raw":
		b.AddBytes(it.B)
	case "unwrite":
		b.AddBytes(it.B)
		b.Unwrite(int(it.U))
	case "lp1":
		b.AddUint8LengthPrefixed(block)
	case "lp2":
		b.AddUint16LengthPrefixed(block)
	case "lp3":
		b.AddUint24LengthPrefixed(block)
	case "lp4":
		b.AddUint32LengthPrefixed(block)
	case "int64":
		b.AddASN1Int64(it.I)
	case "uint64":
		b.AddASN1Uint64(it.U)
	case "big":
		b.AddASN1BigInt(bigOf(it))
	case "enum":
		b.AddASN1Enum(it.I)
	case "int64tag":
		b.AddASN1Int64WithTag(it.I, cbasn1.Tag(it.Tag))
	case "bool":
		b.AddASN1Boolean(it.I != 0)
	case "oid":
		b.AddASN1ObjectIdentifier(asn1.ObjectIdentifier(it.Arcs))
	case "octet":
		b.AddASN1OctetString(it.B)
	case "bits":
		b.AddASN1BitString(it.B)
	case "gtime":
		b.AddASN1GeneralizedTime(it.time())
	case "null":
		b.AddASN1NULL()
	case "asn1":
		b.AddASN1(cbasn1.Tag(it.Tag), block)
	case "opt":
		if it.P {
			b.AddASN1(cbasn1.Tag(it.Tag), block)
		}
	case "optint":
		if it.P {
			b.AddASN1(cbasn1.Tag(it.Tag), func(c *cryptobyte.Builder) { c.AddASN1Int64(it.I) })
		}
	case "optoctet":
		if it.P {
			b.AddASN1(cbasn1.Tag(it.Tag), func(c *cryptobyte.Builder) { c.AddASN1OctetString(it.B) })
		}
	case "optbool":
		if it.P {
			b.AddASN1Boolean(it.I != 0)
		}
	case "skipopt":
		if it.P {
			b.AddASN1(cbasn1.Tag(it.Tag), func(c *cryptobyte.Builder) { c.AddBytes(it.B) })
		}
	default:
		panic("c21: unknown item kind " + it.K)
	}
}

// ---------------------------------------------------------------------------
// reading back

type reader struct {
	r        *kit.R
	maxDepth int
	optData  bool // an optional reader was exercised with data following it
	longLen  bool // an ASN.1 element with a long-form length was read
}

func isDER(k string) bool {
	switch k {
	case "u8", "u16", "u24", "u32", "raw", "unwrite", "lp1", "lp2", "lp3", "lp4":
		return false
	}
	return true
}

func hx(b []byte) string {
	if len(b) > 48 {
		return fmt.Sprintf("%x…(%d bytes)", b[:48], len(b))
	}
	return fmt.Sprintf("%x", b)
}

// readBlock reads items (and fill zero bytes) from s, whose content must be exp.
func (rd *reader) readBlock(s *cryptobyte.String, items []Item, fill int, exp []byte, depth int, path string) {
	r := rd.r
	if depth > rd.maxDepth {
		rd.maxDepth = depth
	}
	if !bytes.Equal(*s, exp) {
		r.Failf("C21:block-content", "%s: block content is %s, expected %s", path, hx(*s), hx(exp))
	}
	pos := 0
	for i, it := range items {
		e, _ := enc(it)
		n := len(e)
		if pos+n > len(exp) {
			r.Failf("C21:output-length", "%s[%d] %s: output shorter than the model encoding", path, i, it.K)
		}
		itemExp, rest := exp[pos:pos+n], exp[pos+n:]
		p := fmt.Sprintf("%s[%d]%s", path, i, it.K)
		if n >= 2 && isDER(it.K) && itemExp[1]&0x80 != 0 {
			rd.longLen = true
			r.Class(fmt.Sprintf("asn1-lenlen=%d", itemExp[1]&0x7f))
		}
		rd.readItem(s, it, itemExp, rest, depth, p)
		if !bytes.Equal(*s, rest) {
			r.Failf("C21:remainder:"+it.K, "%s: after the read %d bytes remain (%s), expected the %d bytes %s", p, len(*s), hx(*s), len(rest), hx(rest))
		}
		pos += n
	}
	if fill > 0 {
		var z []byte
		if !s.ReadBytes(&z, fill) || !bytes.Equal(z, exp[pos:]) {
			r.Failf("C21:fill", "%s: reading the %d filler bytes failed", path, fill)
		}
	}
	if !s.Empty() {
		r.Failf("C21:block-not-empty", "%s: %d bytes left after reading the whole block", path, len(*s))
	}
}

func (rd *reader) fail(it Item, p, format string, args ...any) {
	rd.r.Failf("C21:read:"+it.K, p+": "+format, args...)
}

func (rd *reader) readItem(s *cryptobyte.String, it Item, itemExp, rest []byte, depth int, p string) {
	r := rd.r
	switch it.K {
	case "u8", "u16", "u24", "u32", "raw", "unwrite":
		rd.readPlain(s, it, itemExp, p)
	case "lp1", "lp2", "lp3", "lp4":
		n := int(it.K[2] - '0')
		var child cryptobyte.String
		ok := false
		switch n {
		case 1:
			ok = s.ReadUint8LengthPrefixed(&child)
		case 2:
			ok = s.ReadUint16LengthPrefixed(&child)
		case 3:
			ok = s.ReadUint24LengthPrefixed(&child)
		case 4: // there is no 32-bit length-prefixed reader: ReadUint32 + ReadBytes
			var l uint32
			ok = s.ReadUint32(&l) && s.ReadBytes((*[]byte)(&child), int(l))
		}
		if !ok {
			rd.fail(it, p, "length-prefixed read failed on %s", hx(itemExp))
		}
		rd.readBlock(&child, it.Sub, it.Fill, itemExp[n:], depth+1, p)
	case "int64":
		rd.readInt64(s, it, p)
	case "uint64":
		switch it.R % 4 {
		case 1:
			var v big.Int
			v.SetInt64(-77)
			if !s.ReadASN1Integer(&v) || v.Cmp(new(big.Int).SetUint64(it.U)) != 0 {
				rd.fail(it, p, "ReadASN1Integer(*big.Int) = %v, wrote %d", &v, it.U)
			}
		case 2:
			if it.U <= 0xff {
				var v uint8 = 3
				if !s.ReadASN1Integer(&v) || uint64(v) != it.U {
					rd.fail(it, p, "ReadASN1Integer(*uint8) = %d, wrote %d", v, it.U)
				}
				break
			}
			fallthrough
		case 3:
			var v uint = 3
			if !s.ReadASN1Integer(&v) || uint64(v) != it.U {
				rd.fail(it, p, "ReadASN1Integer(*uint) = %d, wrote %d", v, it.U)
			}
		default:
			var v uint64 = 3
			if !s.ReadASN1Integer(&v) || v != it.U {
				rd.fail(it, p, "ReadASN1Integer(*uint64) = %d, wrote %d", v, it.U)
			}
		}
	case "big":
		want := bigOf(it)
		if it.R%2 == 1 && want.IsInt64() {
			var v int64 = 5
			if !s.ReadASN1Integer(&v) || v != want.Int64() {
				rd.fail(it, p, "ReadASN1Integer(*int64) = %d, wrote big %v", v, want)
			}
			break
		}
		var v big.Int
		v.SetInt64(123456789)
		if !s.ReadASN1Integer(&v) || v.Cmp(want) != 0 {
			rd.fail(it, p, "ReadASN1Integer(*big.Int) = %v, wrote %v", &v, want)
		}
	case "enum":
		v := 7
		if !s.ReadASN1Enum(&v) || int64(v) != it.I {
			rd.fail(it, p, "ReadASN1Enum = %d, wrote %d", v, it.I)
		}
	case "int64tag":
		v := junk64
		if it.R%2 == 0 {
			v = 0x0102030405060708
		}
		if !s.ReadASN1Int64WithTag(&v, cbasn1.Tag(it.Tag)) || v != it.I {
			rd.fail(it, p, "ReadASN1Int64WithTag(%#x) = %d, wrote %d", it.Tag, v, it.I)
		}
	case "bool":
		v := it.I == 0
		if !s.ReadASN1Boolean(&v) || v != (it.I != 0) {
			rd.fail(it, p, "ReadASN1Boolean = %v, wrote %v", v, it.I != 0)
		}
	case "oid":
		var v asn1.ObjectIdentifier
		ok := s.ReadASN1ObjectIdentifier(&v)
		if !ok && maxSubID(it.Arcs) >= 1<<28 {
			r.Class("oid-subid>=2^28")
			const key = "C21:oid-subid-ge-2^28-unreadable"
			if r.Known(key) {
				*s = rest // resynchronise and keep checking behind the known finding
				return
			}
			r.Failf(key, "%s: OID %v written by AddASN1ObjectIdentifier (%s) cannot be read back: ReadASN1ObjectIdentifier returns false for any sub-identifier >= 2^28", p, it.Arcs, hx(itemExp))
		}
		if !ok || !v.Equal(asn1.ObjectIdentifier(it.Arcs)) {
			rd.fail(it, p, "ReadASN1ObjectIdentifier = %v,%v, wrote %v", v, ok, it.Arcs)
		}
	case "octet":
		var v []byte
		var ok bool
		if it.R%2 == 0 {
			ok = s.ReadASN1Bytes(&v, cbasn1.OCTET_STRING)
		} else {
			ok = s.ReadASN1((*cryptobyte.String)(&v), cbasn1.OCTET_STRING)
		}
		if !ok || !bytes.Equal(v, it.B) {
			rd.fail(it, p, "octet string read = %s,%v, wrote %s", hx(v), ok, hx(it.B))
		}
	case "bits":
		if it.R%2 == 0 {
			var v asn1.BitString
			if !s.ReadASN1BitString(&v) || !bytes.Equal(v.Bytes, it.B) || v.BitLength != 8*len(it.B) {
				rd.fail(it, p, "ReadASN1BitString = %s/%d, wrote %s", hx(v.Bytes), v.BitLength, hx(it.B))
			}
		} else {
			var v []byte
			if !s.ReadASN1BitStringAsBytes(&v) || !bytes.Equal(v, it.B) {
				rd.fail(it, p, "ReadASN1BitStringAsBytes = %s, wrote %s", hx(v), hx(it.B))
			}
		}
	case "gtime":
		want := it.time()
		v := want.AddDate(1, 0, 0)
		ok := s.ReadASN1GeneralizedTime(&v)
		_, goff := v.Zone()
		if !ok || !v.Equal(want) || goff != it.Off*60 {
			rd.fail(it, p, "ReadASN1GeneralizedTime = %v,%v, wrote %v (%s)", v, ok, want, itemExp)
		}
	case "null":
		if it.R%2 == 0 {
			var c cryptobyte.String
			if !s.ReadASN1(&c, cbasn1.NULL) || !c.Empty() {
				rd.fail(it, p, "ReadASN1(NULL) failed")
			}
		} else if !s.SkipASN1(cbasn1.NULL) {
			rd.fail(it, p, "SkipASN1(NULL) failed")
		}
	case "asn1":
		rd.readASN1(s, it, itemExp, depth, p)
	case "opt", "optint", "optoctet", "optbool", "skipopt":
		rd.readOptional(s, it, itemExp, rest, depth, p)
	default:
		panic("c21: unknown item kind " + it.K)
	}
}

func (rd *reader) readPlain(s *cryptobyte.String, it Item, itemExp []byte, p string) {
	n := len(itemExp)
	if n == 0 && *s == nil {
		// String(nil).ReadBytes(&out, 0) returns false although String{}.ReadBytes(&out, 0)
		// returns true; a nil String only arises when the whole output is empty.  Raw byte
		// runs are outside the value kinds listed by the property, so this is not asserted.
		rd.r.Class("zero-length-read-on-nil-String(skipped)")
		return
	}
	switch {
	case it.K[0] == 'u' && it.K != "unwrite" && it.R%3 == 0:
		var got uint64
		ok := false
		switch it.K {
		case "u8":
			var v uint8
			ok = s.ReadUint8(&v)
			got = uint64(v)
		case "u16":
			var v uint16
			ok = s.ReadUint16(&v)
			got = uint64(v)
		case "u24":
			var v uint32
			ok = s.ReadUint24(&v)
			got = uint64(v)
		case "u32":
			var v uint32
			ok = s.ReadUint32(&v)
			got = uint64(v)
		}
		if !ok || got != it.U {
			rd.fail(it, p, "fixed-width read = %d,%v, wrote %d", got, ok, it.U)
		}
	case it.R%3 == 1:
		out := make([]byte, n)
		if !s.CopyBytes(out) || !bytes.Equal(out, itemExp) {
			rd.fail(it, p, "CopyBytes(%d) = %s, wrote %s", n, hx(out), hx(itemExp))
		}
	case it.R%3 == 2:
		if !s.Skip(n) {
			rd.fail(it, p, "Skip(%d) failed", n)
		}
	default:
		var out []byte
		if !s.ReadBytes(&out, n) || !bytes.Equal(out, itemExp) {
			rd.fail(it, p, "ReadBytes(%d) = %s, wrote %s", n, hx(out), hx(itemExp))
		}
	}
}

// Output variables are handed to the readers holding junk (a caller may reuse a variable):
// every reader has to overwrite its output completely.
const junk64 = int64(-0x0123456789abcdf0)

func junkBig() *big.Int { v, _ := new(big.Int).SetString("-123456789012345678901234567890", 10); return v }

func fitsInt(v int64, bits uint) bool { return v >= -(1<<(bits-1)) && v < 1<<(bits-1) }

func (rd *reader) readInt64(s *cryptobyte.String, it Item, p string) {
	var got int64
	var ok bool
	what := ""
	switch v := it.R % 7; {
	case v == 1:
		x := 9
		ok, what = s.ReadASN1Integer(&x), "*int"
		got = int64(x)
	case v == 2:
		x := *junkBig()
		ok, what = s.ReadASN1Integer(&x), "*big.Int"
		if ok && !x.IsInt64() {
			ok = false
		}
		got = x.Int64()
	case v == 3:
		got = junk64
		if it.R%2 == 0 {
			got = 0x0102030405060708
		}
		ok, what = s.ReadASN1Int64WithTag(&got, cbasn1.INTEGER), "Int64WithTag"
	case v == 4 && fitsInt(it.I, 32):
		var x int32 = 9
		ok, what = s.ReadASN1Integer(&x), "*int32"
		got = int64(x)
	case v == 5 && fitsInt(it.I, 8):
		var x int8 = 9
		ok, what = s.ReadASN1Integer(&x), "*int8"
		got = int64(x)
	case v == 6 && it.I >= 0:
		var x uint64 = 9
		ok, what = s.ReadASN1Integer(&x), "*uint64"
		got = int64(x)
	default:
		got = junk64
		ok, what = s.ReadASN1Integer(&got), "*int64"
	}
	if !ok || got != it.I {
		rd.fail(it, p, "ReadASN1Integer(%s) = %d,%v, wrote %d", what, got, ok, it.I)
	}
}

func (rd *reader) readASN1(s *cryptobyte.String, it Item, itemExp []byte, depth int, p string) {
	tag := cbasn1.Tag(it.Tag)
	// header length: the model element is tag ‖ len ‖ content
	c, _ := encBlock(it.Sub, it.Fill)
	hdr := len(itemExp) - len(c)
	var child cryptobyte.String
	haveChild := true
	switch it.R % 8 {
	case 0:
		if !s.ReadASN1(&child, tag) {
			rd.fail(it, p, "ReadASN1(%#x) failed on %s", it.Tag, hx(itemExp))
		}
	case 1:
		var t cbasn1.Tag
		if !s.ReadAnyASN1(&child, &t) || t != tag {
			rd.fail(it, p, "ReadAnyASN1 failed or tag %#x != %#x", t, it.Tag)
		}
	case 2, 3:
		var el cryptobyte.String
		var t = tag
		ok := false
		if it.R%8 == 2 {
			ok = s.ReadASN1Element(&el, tag)
		} else {
			ok = s.ReadAnyASN1Element(&el, &t)
		}
		if !ok || t != tag || !bytes.Equal(el, itemExp) {
			rd.fail(it, p, "Read(Any)ASN1Element = %s,%v tag %#x, wrote %s", hx(el), ok, t, hx(itemExp))
		}
		if !el.ReadASN1(&child, tag) || !el.Empty() {
			rd.fail(it, p, "re-reading the element returned by ReadASN1Element failed")
		}
	case 4:
		present := false
		if !s.ReadOptionalASN1(&child, &present, tag) || !present {
			rd.fail(it, p, "ReadOptionalASN1(%#x) on a present element: present=%v", it.Tag, present)
		}
	case 5:
		if !s.PeekASN1Tag(tag) || !s.ReadASN1(&child, tag) {
			rd.fail(it, p, "PeekASN1Tag/ReadASN1(%#x) failed", it.Tag)
		}
	case 6:
		haveChild = false
		if !s.SkipASN1(tag) {
			rd.fail(it, p, "SkipASN1(%#x) failed", it.Tag)
		}
	case 7:
		var b []byte
		if !s.ReadASN1Bytes(&b, tag) {
			rd.fail(it, p, "ReadASN1Bytes(%#x) failed", it.Tag)
		}
		child = b
	}
	if haveChild {
		rd.readBlock(&child, it.Sub, it.Fill, itemExp[hdr:], depth+1, p)
	}
}

func (rd *reader) readOptional(s *cryptobyte.String, it Item, itemExp, rest []byte, depth int, p string) {
	r := rd.r
	tag := cbasn1.Tag(it.Tag)
	if len(rest) > 0 {
		rd.optData = true
	}
	if !it.P {
		// absent: the reader must return the default and leave the input untouched
		if len(rest) > 0 && rest[0] == optTag(it) {
			r.Class("absent-collision(skipped)")
			r.Skip() // ill-defined program (cannot be produced by the generator)
		}
		if len(rest) > 0 {
			r.Class("opt-absent+data:" + it.K)
		} else {
			r.Class("opt-absent-at-end:" + it.K)
		}
		key := "C21:optional-absent:" + it.K
		switch it.K {
		case "opt":
			var child cryptobyte.String
			present := true
			var pp *bool
			if it.R%3 != 2 {
				pp = &present
			} else {
				present = false
			}
			if !s.ReadOptionalASN1(&child, pp, tag) || present || child != nil {
				r.Failf(key, "%s: ReadOptionalASN1(%#x) on %s: present=%v out=%s", p, it.Tag, hx(rest), present, hx(child))
			}
		case "optint":
			switch it.R % 3 {
			case 0:
				var v int64 = 1
				if !s.ReadOptionalASN1Integer(&v, tag, it.I) || v != it.I {
					r.Failf(key, "%s: ReadOptionalASN1Integer absent: got %d want default %d", p, v, it.I)
				}
			case 1:
				v, def := junkBig(), big.NewInt(it.I)
				if !s.ReadOptionalASN1Integer(v, tag, def) || v.Cmp(big.NewInt(it.I)) != 0 {
					r.Failf(key, "%s: ReadOptionalASN1Integer(*big.Int) absent: got %v want default %d", p, v, it.I)
				}
				// the caller reuses its output variable for the next value (what a present read does);
				// its default must still be the default for the next absent read
				v.SetInt64(it.I ^ 0x7e7e7e)
				v.Add(v, big.NewInt(3))
				if def.Cmp(big.NewInt(it.I)) != 0 {
					r.Failf(key, "%s: ReadOptionalASN1Integer(*big.Int) absent: after the output variable was reused, the caller's default %d reads %v (output and default share storage)", p, it.I, def)
				}
			default:
				var v uint64 = 1
				d := uint64(it.I)
				if !s.ReadOptionalASN1Integer(&v, tag, d) || v != d {
					r.Failf(key, "%s: ReadOptionalASN1Integer(*uint64) absent: got %d want default %d", p, v, d)
				}
			}
		case "optoctet":
			v := []byte{1, 2, 3}
			present := true
			if !s.ReadOptionalASN1OctetString(&v, &present, tag) || present || v != nil {
				r.Failf(key, "%s: ReadOptionalASN1OctetString absent: present=%v out=%s", p, present, hx(v))
			}
		case "optbool":
			v := !it.D
			if !s.ReadOptionalASN1Boolean(&v, it.D) || v != it.D {
				r.Failf(key, "%s: ReadOptionalASN1Boolean absent: got %v want default %v", p, v, it.D)
			}
		case "skipopt":
			if !s.SkipOptionalASN1(tag) {
				r.Failf(key, "%s: SkipOptionalASN1 absent returned false", p)
			}
		}
		if !bytes.Equal(*s, rest) {
			r.Failf(key, "%s: an optional reader whose tag %#x is absent changed the input: %s -> %s", p, optTag(it), hx(rest), hx(*s))
		}
		return
	}
	if len(rest) > 0 {
		r.Class("opt-present+data:" + it.K)
	} else {
		r.Class("opt-present-at-end:" + it.K)
	}
	switch it.K {
	case "opt":
		var child cryptobyte.String
		present := false
		var pp *bool
		if it.R%3 != 2 {
			pp = &present
		} else {
			present = true
		}
		if !s.ReadOptionalASN1(&child, pp, tag) || !present {
			rd.fail(it, p, "ReadOptionalASN1(%#x) on a present element: present=%v", it.Tag, present)
		}
		c, _ := encBlock(it.Sub, it.Fill)
		rd.readBlock(&child, it.Sub, it.Fill, itemExp[len(itemExp)-len(c):], depth+1, p)
	case "optint":
		def := it.I ^ 0x5a5a
		switch v := it.R % 3; {
		case v == 1:
			x := *junkBig()
			if !s.ReadOptionalASN1Integer(&x, tag, big.NewInt(def)) || x.Cmp(big.NewInt(it.I)) != 0 {
				rd.fail(it, p, "ReadOptionalASN1Integer(*big.Int) present: got %v wrote %d", &x, it.I)
			}
		case v == 2 && it.I >= 0:
			var x uint64
			if !s.ReadOptionalASN1Integer(&x, tag, uint64(def)) || x != uint64(it.I) {
				rd.fail(it, p, "ReadOptionalASN1Integer(*uint64) present: got %d wrote %d", x, it.I)
			}
		default:
			x := junk64
			if !s.ReadOptionalASN1Integer(&x, tag, def) || x != it.I {
				rd.fail(it, p, "ReadOptionalASN1Integer present: got %d wrote %d", x, it.I)
			}
		}
	case "optoctet":
		var v []byte
		present := false
		var pp *bool
		if it.R%2 == 0 {
			pp = &present
		} else {
			present = true
		}
		if !s.ReadOptionalASN1OctetString(&v, pp, tag) || !present || !bytes.Equal(v, it.B) {
			rd.fail(it, p, "ReadOptionalASN1OctetString present: present=%v got %s wrote %s", present, hx(v), hx(it.B))
		}
	case "optbool":
		want := it.I != 0
		v := !want
		ok := s.ReadOptionalASN1Boolean(&v, it.D) // the default is independent of the written value
		if !ok || v != want || !bytes.Equal(*s, rest) {
			const key = "C21:optional-boolean-present"
			if r.Known(key) {
				*s = rest // resynchronise and keep checking behind the known finding
				return
			}
			r.Failf(key, "%s: ReadOptionalASN1Boolean on a present BOOLEAN %v followed by %s: ok=%v value=%v, %d bytes remain (expected %d): the element is consumed twice", p, want, hx(rest), ok, v, len(*s), len(rest))
		}
	case "skipopt":
		if !s.SkipOptionalASN1(tag) {
			rd.fail(it, p, "SkipOptionalASN1(%#x) on a present element failed", it.Tag)
		}
	}
}

// ---------------------------------------------------------------------------
// the check

func errReasons(items []Item, out []string) []string {
	for _, it := range items {
		if isOptional(it.K) && !it.P {
			continue
		}
		c, _ := encBlock(it.Sub, it.Fill)
		switch {
		case it.K == "asn1" && it.Tag&0x1f == 0x1f:
			out = append(out, "high-tag")
		case it.K == "lp1" && len(c) > 0xff, it.K == "lp2" && len(c) > 0xffff, it.K == "lp3" && len(c) > 0xffffff:
			out = append(out, it.K+"-too-long")
		}
		out = errReasons(it.Sub, out)
	}
	return out
}

func countKinds(items []Item, m map[string]bool) {
	for _, it := range items {
		m[it.K] = true
		countKinds(it.Sub, m)
	}
}

func check(c Case, r *kit.R) {
	asn1.AllowPermissiveParsing = false
	want, errItem := encBlock(c.Items, 0)
	b := cryptobyte.NewBuilder(nil)
	writeBlock(b, c.Items, 0)
	out, err := b.Bytes()
	if errItem {
		r.Class("builder-error-expected")
		for _, why := range errReasons(c.Items, nil) {
			r.Class("builder-error-expected:" + why)
		}
		if err == nil {
			r.Failf("C21:missing-builder-error", "the program contains a block longer than its length prefix or a high-tag-number identifier, but Builder.Bytes reports no error (%d bytes)", len(out))
		}
		return
	}
	if err != nil {
		r.Failf("C21:builder-error", "Builder.Bytes: %v", err)
	}
	if len(out) != len(want) {
		r.Failf("C21:output-length", "Builder wrote %d bytes, the values need %d (%s vs %s)", len(out), len(want), hx(out), hx(want))
	}
	kinds := map[string]bool{}
	countKinds(c.Items, kinds)
	for _, k := range kindNames {
		if kinds[k] {
			r.Class("k:" + k)
		}
	}
	rd := &reader{r: r}
	s := cryptobyte.String(out)
	rd.readBlock(&s, c.Items, 0, out, 0, "")
	r.Class(fmt.Sprintf("depth=%d", rd.maxDepth))
	if rd.optData {
		r.Class("nt:optional+data")
	}
	if rd.longLen {
		r.Class("nt:asn1-long-length")
	}
	if rd.maxDepth >= 2 {
		r.Class("nt:nesting>=2")
	}
	if rd.optData || rd.longLen || rd.maxDepth >= 2 {
		r.NonTrivial()
	}
}

var kindNames = []string{"u8", "u16", "u24", "u32", "raw", "unwrite", "lp1", "lp2", "lp3", "lp4", "int64", "uint64", "big", "enum",
	"int64tag", "bool", "oid", "octet", "bits", "gtime", "null", "asn1", "opt", "optint", "optoctet", "optbool", "skipopt"}

const rule = "write programs (trees, depth <= 4) over the whole Builder API: fixed-width ints, raw bytes, Unwrite, 1/2/3/4-byte length-prefixed blocks, ASN.1 int64/uint64/big/enum/tagged ints, booleans, OIDs (arcs up to 2^31-1), octet/bit strings, GeneralizedTimes (any whole-minute zone), NULL, AddASN1 with any low-tag identifier octet and bodies crossing the 128/256/65536 length boundaries; read back with the mirrored String methods (several reader variants per item) with optional readers placed both on present elements followed by data and on absent ones. After every read the value and the remaining String are compared with the written value and with the output suffix at the offset given by an independent model of the item's encoded length. Non-trivial: an optional reader is exercised with data following it, or nesting >= 2, or an ASN.1 long-form length; distinct by case hash"

var assumptions = []string{
	"raw AddBytes items have length >= 1 (String.ReadBytes(0) on a nil String returns false; raw byte runs are not among the value kinds the statement lists)",
	"OID arcs are in 0..2^31-1 and the first sub-identifier 40*a0+a1 is <= 2^31-1; GeneralizedTimes are whole seconds in years 1..9998 with whole-minute zone offsets within +-14h (the representable domain of the encoding)",
	"an ABSENT optional element is followed by a byte different from the tag the reader peeks for (otherwise 'absent' is not defined)",
	"the end offset of each item in the output is taken from an independent model of the canonical TLS-prefix/DER encoding length of the written value",
	"documented Builder errors (block longer than its 1/2/3-byte prefix, high-tag-number identifier) must be reported by Bytes; nothing is read back in that case",
}

// ---------------------------------------------------------------------------
// generator

var commonTags = []uint8{0x30, 0x31, 0xa0, 0xa1, 0xa2, 0xa3, 0x80, 0x81, 0x04, 0x02, 0x01, 0x0c, 0x13, 0x00, 0x60, 0xc1, 0xfe, 0x7e}

func genTag(t *rapid.T) uint8 {
	if rapid.IntRange(0, 3).Draw(t, "tagsel") > 0 {
		return rapid.SampledFrom(commonTags).Draw(t, "ctag")
	}
	v := rapid.Uint8().Draw(t, "tag")
	if v&0x1f == 0x1f {
		v &^= 0x01
	}
	return v
}

var int64Pool = []int64{0, 1, -1, 127, 128, -128, -129, 255, 256, 32767, 32768, -32768, -32769, 1<<31 - 1, 1 << 31, -(1 << 31), -(1 << 31) - 1,
	1<<55 - 1, 1 << 55, -(1 << 55), 1<<63 - 1, -(1 << 63), 0x7f00, 0x8000, 0x80ff, -0x7f01}

func genInt64(t *rapid.T) int64 {
	switch rapid.IntRange(0, 3).Draw(t, "isel") {
	case 0:
		return rapid.SampledFrom(int64Pool).Draw(t, "ipool")
	case 1:
		return int64(rapid.IntRange(-300, 300).Draw(t, "ismall"))
	case 2:
		sh := rapid.IntRange(0, 63).Draw(t, "ishift")
		return rapid.Int64().Draw(t, "i64") >> uint(sh)
	}
	return rapid.Int64().Draw(t, "i64")
}

var arcPool = []int{0, 1, 39, 40, 127, 128, 16383, 16384, 1<<21 - 1, 1 << 21, 1<<28 - 1, 1 << 28, 1<<31 - 1, 840, 113549, 311}

func genArc(t *rapid.T) int {
	switch rapid.IntRange(0, 3).Draw(t, "asel") {
	case 0:
		return rapid.SampledFrom(arcPool).Draw(t, "apool")
	case 1:
		return rapid.IntRange(0, 200).Draw(t, "asmall")
	case 2:
		return rapid.IntRange(0, 1<<28-1).Draw(t, "amid")
	}
	return rapid.IntRange(0, 1<<31-1).Draw(t, "abig") >> uint(rapid.IntRange(0, 30).Draw(t, "ashift"))
}

func genOID(t *rapid.T) []int {
	a0 := rapid.IntRange(0, 2).Draw(t, "a0")
	var a1 int
	if a0 < 2 {
		a1 = rapid.IntRange(0, 39).Draw(t, "a1")
	} else {
		a1 = genArc(t)
		if a1 > 1<<31-1-80 {
			a1 = 1<<31 - 1 - 80
		}
	}
	arcs := []int{a0, a1}
	n := rapid.IntRange(0, 7).Draw(t, "narcs")
	for i := 0; i < n; i++ {
		arcs = append(arcs, genArc(t))
	}
	return arcs
}

func genBytes(t *rapid.T, min int) []byte {
	var n int
	switch rapid.IntRange(0, 9).Draw(t, "bsel") {
	case 0:
		n = rapid.IntRange(120, 135).Draw(t, "blen128")
	case 1:
		n = rapid.IntRange(250, 262).Draw(t, "blen256")
	default:
		n = rapid.IntRange(min, 12).Draw(t, "blen")
	}
	return rapid.SliceOfN(rapid.Byte(), n, n).Draw(t, "bytes")
}

// rare is true about once in n draws (rapid favours the bounds of a range, so
// the rare event is mapped to an interior value).
func rare(t *rapid.T, label string, n int) bool {
	return rapid.IntRange(0, n-1).Draw(t, label) == n/3
}

func genFill(t *rapid.T, allowHuge bool) int {
	switch v := rapid.IntRange(0, 59).Draw(t, "fsel"); {
	case v >= 5 && v <= 8:
		return rapid.IntRange(100, 140).Draw(t, "fill128")
	case v >= 9 && v <= 12:
		return rapid.IntRange(240, 270).Draw(t, "fill256")
	case v >= 13 && v <= 20:
		return rapid.IntRange(1, 20).Draw(t, "fillsmall")
	case v == 31 && allowHuge:
		return rapid.IntRange(65500, 65560).Draw(t, "fill64k")
	}
	return 0
}

type kindW struct {
	k string
	w int
}

// kinds in order of interest; the tables are built round-robin so that rapid's
// bias towards small indices still yields every kind.
var kinds = []kindW{{"asn1", 8}, {"opt", 6}, {"optbool", 5}, {"lp1", 3}, {"optint", 4}, {"lp2", 3}, {"optoctet", 4}, {"lp3", 3}, {"oid", 4},
	{"skipopt", 3}, {"int64", 4}, {"big", 3}, {"gtime", 3}, {"uint64", 3}, {"bool", 3}, {"bits", 3}, {"octet", 3}, {"enum", 2}, {"int64tag", 2},
	{"null", 2}, {"unwrite", 2}, {"lp4", 1}, {"raw", 2}, {"u8", 2}, {"u16", 2}, {"u24", 2}, {"u32", 2}}

func isBlock(k string) bool {
	switch k {
	case "asn1", "opt", "lp1", "lp2", "lp3", "lp4":
		return true
	}
	return false
}

var kindTable, leafTable []string

func init() {
	for round := 0; round < 8; round++ {
		for _, k := range kinds {
			if k.w > round {
				kindTable = append(kindTable, k.k)
				if !isBlock(k.k) {
					leafTable = append(leafTable, k.k)
				}
			}
		}
	}
}

func genItems(t *rapid.T, depth int, budget *int, maxN int) []Item {
	n := rapid.IntRange(0, maxN).Draw(t, "n")
	var items []Item
	for i := 0; i < n && *budget > 0; i++ {
		*budget--
		items = append(items, genItem(t, depth, budget))
	}
	return items
}

func genItem(t *rapid.T, depth int, budget *int) Item {
	tab := kindTable
	if depth >= 4 || *budget <= 0 {
		tab = leafTable
	}
	it := Item{K: rapid.SampledFrom(tab).Draw(t, "kind"), R: rapid.IntRange(0, 839).Draw(t, "variant")}
	switch it.K {
	case "u8":
		it.U = uint64(rapid.Uint8().Draw(t, "u8"))
	case "u16":
		it.U = uint64(rapid.Uint16().Draw(t, "u16"))
	case "u24":
		it.U = uint64(rapid.Uint32Range(0, 1<<24-1).Draw(t, "u24"))
	case "u32":
		it.U = uint64(rapid.Uint32().Draw(t, "u32"))
	case "raw":
		it.B = genBytes(t, 1)
	case "unwrite":
		it.B = genBytes(t, 0)
		it.U = uint64(rapid.IntRange(0, len(it.B)).Draw(t, "unwrite"))
	case "lp1", "lp2", "lp3", "lp4", "asn1", "opt":
		it.Sub = genItems(t, depth+1, budget, 4)
		it.Fill = genFill(t, it.K != "lp1")
		if it.K == "lp1" && !rare(t, "oversize", 60) {
			// keep the (documented) oversize error rare
			if c, _ := encBlock(it.Sub, it.Fill); len(c) > 255 {
				it.Fill = 0
				if c, _ := encBlock(it.Sub, 0); len(c) > 255 {
					it.Sub = nil
				}
			}
		}
		if it.K == "lp2" && !rare(t, "oversize2", 60) {
			if c, _ := encBlock(it.Sub, it.Fill); len(c) > 65535 {
				it.Fill = 0
				if c, _ := encBlock(it.Sub, 0); len(c) > 65535 {
					it.Sub = nil
				}
			}
		}
		if it.K == "asn1" || it.K == "opt" {
			it.Tag = genTag(t)
			if it.K == "asn1" && rare(t, "hightag", 300) {
				it.Tag |= 0x1f
			}
		}
		if it.K == "opt" {
			it.P = rapid.Bool().Draw(t, "present")
			if !it.P {
				it.Sub, it.Fill = nil, 0
			}
		}
	case "int64", "enum":
		it.I = genInt64(t)
	case "int64tag":
		it.I = genInt64(t)
		it.Tag = genTag(t)
	case "uint64":
		v := genInt64(t)
		if rapid.Bool().Draw(t, "hi") {
			it.U = uint64(v)
		} else if v < 0 {
			it.U = uint64(-(v + 1))
		} else {
			it.U = uint64(v)
		}
	case "big":
		nb := rapid.IntRange(0, 40).Draw(t, "nbig")
		raw := rapid.SliceOfN(rapid.Byte(), nb, nb).Draw(t, "bigbytes")
		v := new(big.Int).SetBytes(raw)
		switch rapid.IntRange(0, 3).Draw(t, "bigform") {
		case 0:
			v.Neg(v)
		case 1: // power-of-two boundary
			v = new(big.Int).Lsh(big.NewInt(1), uint(8*nb))
			if rapid.Bool().Draw(t, "neg") {
				v.Neg(v)
			}
			v.Add(v, big.NewInt(int64(rapid.IntRange(-1, 1).Draw(t, "delta"))))
		}
		it.N = v.String()
	case "bool":
		if rapid.Bool().Draw(t, "b") {
			it.I = 1
		}
	case "oid":
		it.Arcs = genOID(t)
	case "octet":
		it.B = genBytes(t, 0)
	case "bits":
		it.B = genBytes(t, 0)
	case "gtime":
		it.T = rapid.Int64Range(-62135596800, 253370764799).Draw(t, "unix") // years 1..9998
		if rapid.Bool().Draw(t, "zone") {
			it.Off = rapid.IntRange(-14*60, 14*60).Draw(t, "off")
		}
	case "null":
	case "optint":
		it.I = genInt64(t)
		it.Tag = genTag(t)
		it.P = rapid.Bool().Draw(t, "present")
	case "optoctet":
		it.B = genBytes(t, 0)
		it.Tag = genTag(t)
		it.P = rapid.Bool().Draw(t, "present")
		if !it.P {
			it.B = nil
		}
	case "optbool":
		it.P = rapid.Bool().Draw(t, "present")
		it.D = rapid.Bool().Draw(t, "default")
		if it.P && rapid.Bool().Draw(t, "b") {
			it.I = 1
		}
	case "skipopt":
		it.Tag = genTag(t)
		it.P = rapid.Bool().Draw(t, "present")
		if it.P {
			it.B = genBytes(t, 0)
		}
	}
	return it
}

func gen(t *rapid.T) Case {
	budget := 40
	c := Case{Items: genItems(t, 0, &budget, 9)}
	fixCollisions(c.Items, 0)
	return c
}

func TestPropPrograms(t *testing.T) {
	kit.Run(t, kit.Spec[Case]{ID: "C21", Name: "programs", Rule: rule, Gen: gen, Check: check,
		Quick: 12000, Thorough: 120000, Assumptions: assumptions})
}

// TestPropLengths enumerates the length boundaries of every block kind
// deterministically: one block of content length L (filler bytes, optionally
// preceded by a nested element) wrapped 0..2 times, followed by a trailer item.
func TestPropLengths(t *testing.T) {
	env := kit.GetEnv()
	lens := []int{0, 1, 2, 126, 127, 128, 129, 254, 255, 256, 257, 65534, 65535, 65536, 65537, 70000}
	if env.Tier == "thorough" {
		lens = append(lens, 1<<24-2, 1<<24-1, 1<<24, 1<<24+1)
	}
	kinds := []string{"asn1", "lp1", "lp2", "lp3", "lp4", "opt"}
	wraps := []string{"", "asn1", "lp3", "asn1+asn1", "lp2+asn1"}
	kit.Run(t, kit.Spec[Case]{ID: "C21", Name: "lengths", Check: check, Assumptions: assumptions,
		Rule: fmt.Sprintf("exhaustive grid: block kind {asn1,lp1..lp4,present optional} x content length %v x wrapping %v x 8 reader variants, with a trailing item after the block; non-trivial as for programs", lens, wraps),
		Enum: func(shard, nshards int, yield func(Case) bool) {
			idx := 0
			for _, k := range kinds {
				for _, l := range lens {
					for _, w := range wraps {
						for v := 0; v < 8; v++ {
							idx++
							if idx%nshards != shard {
								continue
							}
							if l >= 1<<24-2 && v > 1 {
								continue
							}
							inner := Item{K: k, Fill: l, R: v, Tag: 0x30, P: true}
							if l >= 3 && v%2 == 1 { // a nested element in front of the filler
								inner.Sub = []Item{{K: "asn1", Tag: 0xa0, Fill: 1, R: v}}
								inner.Fill = l - 3
							}
							items := []Item{inner, {K: "u8", U: 0x30}}
							switch w {
							case "asn1":
								items = []Item{{K: "asn1", Tag: 0x31, Sub: items, R: v}, {K: "bool", I: 1}}
							case "lp3":
								items = []Item{{K: "lp3", Sub: items}, {K: "null"}}
							case "asn1+asn1":
								items = []Item{{K: "asn1", Tag: 0xa1, R: v + 1, Sub: []Item{{K: "int64", I: -129}, {K: "asn1", Tag: 0x30, R: v, Sub: items}}}}
							case "lp2+asn1":
								items = []Item{{K: "lp2", Sub: []Item{{K: "asn1", Tag: 0x04, R: v, Sub: items}}}, {K: "u16", U: 7}}
							}
							if !yield(Case{Items: items}) {
								return
							}
						}
					}
				}
			}
		}})
}
