// Package c21 checks that cryptobyte Builder writes and String reads are exact
// inverses (property C21).
//
// A case is a write program (tree of Items).  The program is written with one
// cryptobyte.Builder and read back with the mirrored String methods.  The only
// knowledge the oracle needs besides the written values is WHERE each item ends
// in the output; that comes from the independent model encoder in this file
// (TLS-style length prefixes and DER are canonical, so the encoded length of an
// item is determined by its value).
package c21

import (
	"fmt"
	"math/big"
	"time"
)

// Item is one node of a write program.
type Item struct {
	K    string `json:"k"`
	U    uint64 `json:"u,omitempty"`    // unsigned value (fixed width, uint64, unwrite count)
	I    int64  `json:"i,omitempty"`    // signed value
	B    []byte `json:"b,omitempty"`    // bytes (raw, octet string, bit string)
	N    string `json:"n,omitempty"`    // big integer, decimal
	Arcs []int  `json:"arcs,omitempty"` // OID
	T    int64  `json:"t,omitempty"`    // unix seconds
	Off  int    `json:"off,omitempty"`  // zone offset, minutes
	Tag  uint8  `json:"tag,omitempty"`  // identifier octet
	Sub  []Item `json:"sub,omitempty"`  // content of a block
	Fill int    `json:"fill,omitempty"` // zero bytes appended to the content of a block
	R    int    `json:"r,omitempty"`    // selects the reader variant
	P    bool   `json:"p,omitempty"`    // optional kinds: the element is written
	D    bool   `json:"d,omitempty"`    // optbool: default value
}

type Case struct {
	Items []Item `json:"items"`
}

func isOptional(k string) bool {
	switch k {
	case "opt", "optint", "optoctet", "optbool", "skipopt":
		return true
	}
	return false
}

func derLen(n int) []byte {
	switch {
	case n < 0x80:
		return []byte{byte(n)}
	case n <= 0xff:
		return []byte{0x81, byte(n)}
	case n <= 0xffff:
		return []byte{0x82, byte(n >> 8), byte(n)}
	case n <= 0xffffff:
		return []byte{0x83, byte(n >> 16), byte(n >> 8), byte(n)}
	default:
		return []byte{0x84, byte(n >> 24), byte(n >> 16), byte(n >> 8), byte(n)}
	}
}

func tlv(tag uint8, content []byte) []byte {
	out := make([]byte, 0, len(content)+6)
	out = append(out, tag)
	out = append(out, derLen(len(content))...)
	return append(out, content...)
}

// derInt is the minimal two's complement content of v.
func derInt(v *big.Int) []byte {
	if v.Sign() >= 0 {
		b := v.Bytes()
		if len(b) == 0 || b[0]&0x80 != 0 {
			b = append([]byte{0}, b...)
		}
		return b
	}
	n := new(big.Int).Neg(v)
	n.Sub(n, big.NewInt(1))
	b := n.Bytes()
	for i := range b {
		b[i] ^= 0xff
	}
	if len(b) == 0 || b[0]&0x80 == 0 {
		b = append([]byte{0xff}, b...)
	}
	return b
}

func base128(v int64) []byte {
	var tmp []byte
	tmp = append(tmp, byte(v&0x7f))
	for v >>= 7; v > 0; v >>= 7 {
		tmp = append(tmp, byte(v&0x7f)|0x80)
	}
	for i, j := 0, len(tmp)-1; i < j; i, j = i+1, j-1 {
		tmp[i], tmp[j] = tmp[j], tmp[i]
	}
	return tmp
}

func oidBody(arcs []int) []byte {
	body := base128(int64(arcs[0])*40 + int64(arcs[1]))
	for _, a := range arcs[2:] {
		body = append(body, base128(int64(a))...)
	}
	return body
}

// maxSubID is the largest sub-identifier of the encoded OID.
func maxSubID(arcs []int) int64 {
	m := int64(arcs[0])*40 + int64(arcs[1])
	for _, a := range arcs[2:] {
		if int64(a) > m {
			m = int64(a)
		}
	}
	return m
}

func (it Item) time() time.Time {
	t := time.Unix(it.T, 0)
	if it.Off == 0 {
		return t.UTC()
	}
	return t.In(time.FixedZone("", it.Off*60))
}

func gtimeBody(it Item) []byte {
	t := time.Unix(it.T, 0).UTC().Add(time.Duration(it.Off) * time.Minute) // wall clock of the zone, as a UTC time
	y, mo, d := t.Date()
	h, mi, s := t.Clock()
	out := fmt.Sprintf("%04d%02d%02d%02d%02d%02d", y, int(mo), d, h, mi, s)
	switch {
	case it.Off == 0:
		out += "Z"
	case it.Off > 0:
		out += fmt.Sprintf("+%02d%02d", it.Off/60, it.Off%60)
	default:
		out += fmt.Sprintf("-%02d%02d", -it.Off/60, -it.Off%60)
	}
	return []byte(out)
}

func bigOf(it Item) *big.Int {
	v, ok := new(big.Int).SetString(it.N, 10)
	if !ok {
		return new(big.Int)
	}
	return v
}

func encBlock(items []Item, fill int) (out []byte, errItem bool) {
	for _, it := range items {
		b, e := enc(it)
		out = append(out, b...)
		errItem = errItem || e
	}
	if fill > 0 {
		out = append(out, make([]byte, fill)...)
	}
	return
}

// enc is the model encoding of an item; errItem reports that the program asks
// the Builder for something it documents as an error (length that does not fit
// the prefix, high-tag-number identifier).
func enc(it Item) (out []byte, errItem bool) {
	switch it.K {
	case "u8":
		return []byte{byte(it.U)}, false
	case "u16":
		return []byte{byte(it.U >> 8), byte(it.U)}, false
	case "u24":
		return []byte{byte(it.U >> 16), byte(it.U >> 8), byte(it.U)}, false
	case "u32":
		return []byte{byte(it.U >> 24), byte(it.U >> 16), byte(it.U >> 8), byte(it.U)}, false
	case "raw":
		return it.B, false
	case "unwrite":
		return it.B[:len(it.B)-int(it.U)], false
	case "lp1", "lp2", "lp3", "lp4":
		n := int(it.K[2] - '0')
		c, e := encBlock(it.Sub, it.Fill)
		if n < 4 && len(c) >= 1<<(8*uint(n)) {
			e = true
		}
		p := make([]byte, n, n+len(c))
		for i := 0; i < n; i++ {
			p[i] = byte(len(c) >> (8 * uint(n-1-i)))
		}
		return append(p, c...), e
	case "int64":
		return tlv(0x02, derInt(big.NewInt(it.I))), false
	case "uint64":
		return tlv(0x02, derInt(new(big.Int).SetUint64(it.U))), false
	case "big":
		return tlv(0x02, derInt(bigOf(it))), false
	case "enum":
		return tlv(0x0a, derInt(big.NewInt(it.I))), false
	case "int64tag":
		return tlv(it.Tag, derInt(big.NewInt(it.I))), false
	case "bool":
		if it.I != 0 {
			return []byte{1, 1, 0xff}, false
		}
		return []byte{1, 1, 0}, false
	case "oid":
		return tlv(0x06, oidBody(it.Arcs)), false
	case "octet":
		return tlv(0x04, it.B), false
	case "bits":
		return tlv(0x03, append([]byte{0}, it.B...)), false
	case "gtime":
		return tlv(0x18, gtimeBody(it)), false
	case "null":
		return []byte{5, 0}, false
	case "asn1":
		c, e := encBlock(it.Sub, it.Fill)
		if it.Tag&0x1f == 0x1f {
			e = true
		}
		return tlv(it.Tag, c), e
	case "opt":
		if !it.P {
			return nil, false
		}
		c, e := encBlock(it.Sub, it.Fill)
		return tlv(it.Tag, c), e
	case "optint":
		if !it.P {
			return nil, false
		}
		return tlv(it.Tag, tlv(0x02, derInt(big.NewInt(it.I)))), false
	case "optoctet":
		if !it.P {
			return nil, false
		}
		return tlv(it.Tag, tlv(0x04, it.B)), false
	case "optbool":
		if !it.P {
			return nil, false
		}
		if it.I != 0 {
			return []byte{1, 1, 0xff}, false
		}
		return []byte{1, 1, 0}, false
	case "skipopt":
		if !it.P {
			return nil, false
		}
		return tlv(it.Tag, it.B), false
	}
	panic("c21: unknown item kind " + it.K)
}

// optTag is the identifier octet an optional reader looks for.
func optTag(it Item) uint8 {
	if it.K == "optbool" {
		return 0x01
	}
	return it.Tag
}

// fixCollisions makes every ABSENT optional item well defined: the byte that
// follows it in its block must differ from the tag the reader peeks for.  It
// is a deterministic function of the program (no random draws), applied by the
// generator; next is the first byte following the block content or -1.
func fixCollisions(items []Item, fill int) {
	for i := range items {
		fixCollisions(items[i].Sub, items[i].Fill)
	}
	for i := len(items) - 1; i >= 0; i-- {
		it := &items[i]
		if !isOptional(it.K) || it.P {
			continue
		}
		next := -1
		for j := i + 1; j < len(items) && next < 0; j++ {
			if b, _ := enc(items[j]); len(b) > 0 {
				next = int(b[0])
			}
		}
		if next < 0 && fill > 0 {
			next = 0
		}
		if next < 0 || uint8(next) != optTag(*it) {
			continue
		}
		if it.K == "optbool" {
			it.P = true // the tag cannot be changed: write the element instead
			continue
		}
		for uint8(next) == it.Tag || it.Tag&0x1f == 0x1f {
			it.Tag += 0x21
		}
	}
}
