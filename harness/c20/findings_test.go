package c20

import (
	"encoding/json"
	"os"
	"path/filepath"
	"testing"

	"verifharness/c01"
	"verifharness/der"
	"verifharness/dergen"
	"verifharness/keys"
	"verifharness/kit"
)

func writeReplay(t *testing.T, dir, file string, c Case) {
	b, _ := json.Marshal(c)
	rf := kit.ReplayFile{Property: "C20", Name: "cert", Key: "(hand-minimised; run ./vcheck C20 --replay)", Case: b}
	out, _ := json.MarshalIndent(rf, "", " ")
	os.MkdirAll(dir, 0o755)
	if err := os.WriteFile(filepath.Join(dir, file), out, 0o644); err != nil {
		t.Fatal(err)
	}
}

func TestWriteFindingReplays(t *testing.T) {
	dir := os.Getenv("VERIF_WRITE_REPLAYS")
	if dir == "" {
		t.Skip("VERIF_WRITE_REPLAYS not set")
	}
	signer := c01.Obj().CAKey.Index
	base := func(exts ...c01.ExtSpec) c01.CertSpec {
		return c01.CertSpec{KeyKind: "pool", Key: signer, Signer: signer, SigAlg: -1, Version: 2, Subject: 0, Serial: []byte{5}, Exts: exts}
	}
	// keyUsage BIT STRING with a long-form length (03 81 02 05 a0)
	ku := base(c01.ExtSpec{OID: []int{2, 5, 29, 15}, Crit: true, Value: []byte{0x03, 0x81, 0x02, 0x05, 0xa0}})
	writeReplay(t, dir, "finding-keyusage-long-form-length.json", Case{Target: "cert", Src: "built", Data: ku.Build()})
	// basicConstraints SEQUENCE { BOOLEAN TRUE } with a long-form length on the BOOLEAN
	bc := base(c01.ExtSpec{OID: []int{2, 5, 29, 19}, Crit: true, Value: []byte{0x30, 0x04, 0x01, 0x81, 0x01, 0xff}})
	writeReplay(t, dir, "finding-basicconstraints-long-form-length.json", Case{Target: "cert", Src: "built", Data: bc.Build()})
	// RSA-PSS parameters with a non-minimal salt length INTEGER (00 20)
	ps := base()
	ps.SigAlg = 6
	roots := dergen.ParseTree(ps.Build())
	tbsAlg := roots[0].Children[0].Children[2] // TBS.signature
	params := tbsAlg.Children[1]
	salt := params.Children[2].Children[0] // [2] EXPLICIT INTEGER
	salt.Body = append([]byte{0}, salt.Body...)
	writeReplay(t, dir, "finding-pss-params-nonminimal-integer.json", Case{Target: "cert", Src: "built", Data: dergen.EncodeAll(roots)})
	// a genuinely self-signed ECDSA certificate whose signature SEQUENCE { r, s } uses a long-form length for r
	ec := keys.ByName("ecP-256-0").Index
	ss := c01.CertSpec{KeyKind: "pool", Key: ec, Signer: ec, SigAlg: -1, SelfIssued: true, Version: 2, Subject: 0, Serial: []byte{5}}
	r := dergen.ParseTree(ss.Build())
	sig := r[0].Children[2]
	if sig.Encap != dergen.EncapBits || len(sig.Children) != 1 || len(sig.Children[0].Children) != 2 {
		t.Fatal("unexpected signature shape")
	}
	sig.Children[0].Children[0].LenMode = dergen.LenLongShort
	writeReplay(t, dir, "finding-selfsigned-ecdsa-signature-long-form-length.json", Case{Target: "cert", Src: "permenc", Data: dergen.EncodeAll(r)})
	_ = der.Null
}
