package c20

import (
	"math/big"

	"verifharness/c01"
	"verifharness/der"
)

func e(first byte, body ...[]byte) []byte { return der.Enc(first, body...) }

var seedCache = map[string][][]byte{}

// targetSeeds returns encodings that (mostly) decode into the named target in
// strict mode, plus a few that only permissive mode takes.
func targetSeeds(name string) [][]byte {
	if s, ok := seedCache[name]; ok {
		return s
	}
	ints := [][]byte{der.Int64(0), der.Int64(127), der.Int64(128), der.Int64(-1), der.Int64(-129), der.Int64(1<<31 - 1), der.Int64(-1 << 31), der.Int64(1 << 31), der.Int64(1<<63 - 1),
		der.Int(new(big.Int).Lsh(big.NewInt(1), 100)), e(2, []byte{0, 1}), e(2, []byte{0xff, 0xff})}
	utc := func(s string) []byte { return e(0x17, []byte(s)) }
	gen := func(s string) []byte { return e(0x18, []byte(s)) }
	times := [][]byte{utc("240101000000Z"), utc("2401010000Z"), utc("491231235959Z"), utc("500101000000Z"), utc("991231235959Z"), utc("240101000000+0100"), utc("2401010000-0800"),
		gen("20240101000000Z"), gen("20500101000000Z"), gen("19990101000000Z"), gen("20240101000000+0100"), utc("240230000000Z"), gen("20240101000000.5Z")}
	strs := [][]byte{der.Printable("abc DEF 123"), der.Printable("a*b&c"), der.IA5("a@b.c"), der.UTF8("caf\xc3\xa9"), e(0x14, []byte("t61\xe9")), e(0x12, []byte("123 456")), e(0x1e, []byte{0, 'B', 0, 'M'}),
		e(0x1b, []byte("general")), der.Printable("a_b"), der.IA5("\xe9"), der.UTF8("\xff"), e(0x12, []byte("12a")), e(0x1e, []byte{0, 'A', 0, 0})}
	tOpt := [][]byte{der.Seq(), der.Seq(der.Int64(9)), der.Seq(der.Int64(9), e(0x80, []byte{1, 2}), e(0xa1, der.UTF8("x")), e(0xa2), der.Null()),
		der.Seq(e(0x80, nil), der.Octets([]byte{7})), der.Seq(e(0xa1, der.UTF8("")), der.Seq()), der.Seq(e(0xa2), e(0xa2)), der.Seq(der.Int64(1), der.Int64(2))}
	tTagged := [][]byte{
		der.Seq(e(0x43, []byte{5}), e(0xc4, []byte("ia5")), der.Set(der.Int64(1), der.Int64(2))),
		der.Seq(e(0x43, []byte{0x00, 0x80}), e(0xc4, nil), der.Set(), gen("20240101000000Z"), e(0xa5, utc("240101000000Z")), e(0x12, []byte("12")), e(0x86, []byte("pr"))),
		der.Seq(e(0x43, []byte{1}), e(0xc4, []byte("x")), der.Set(der.Int64(3)), utc("500101000000Z"), e(0x86, []byte("a&b"))),
	}
	var s [][]byte
	switch name {
	case "RawValue", "any":
		s = append(append(append([][]byte{}, ints...), strs...), times...)
		s = append(s, der.Seq(der.Int64(1)), e(0xa0, der.Null()), der.OID(1, 2, 3), der.BitString([]byte{1}), der.Octets([]byte{1}), der.Bool(true), []byte{0x0c, 0x81, 0x05, 'x', 'x', 'x', 'x', 'x'})
	case "int", "int32", "int64", "bigInt":
		s = ints
	case "Enumerated":
		for _, i := range ints {
			s = append(s, append([]byte{0x0a}, i[1:]...))
		}
	case "BitString":
		s = [][]byte{der.BitString(nil), der.BitString([]byte{0xa0}), e(3, []byte{4, 0xf0}), e(3, []byte{7, 0x80}), e(3, []byte{0})}
	case "OID", "sliceOID":
		s = [][]byte{der.OID(1, 2, 840, 113549), der.OID(2, 5, 29, 15), der.OID(2, 999, 3), der.OID(0, 0), e(6, []byte{0x2a, 0x80, 0x01})}
		if name == "sliceOID" {
			s = [][]byte{der.Seq(s[0], s[1]), der.Seq(), der.Seq(s[2])}
		}
	case "Time", "TimeGeneralized":
		s = times
	case "sliceTime":
		s = [][]byte{der.Seq(times[0], times[7]), der.Seq(times[3], times[4]), der.Seq()}
	case "string":
		s = strs
	case "sliceString":
		s = [][]byte{der.Seq(strs[0], strs[2], strs[3]), der.Seq(strs[4], strs[5], strs[6]), der.Seq(), der.Seq(strs[1])}
	case "stringIA5tag":
		s = [][]byte{e(0x82, []byte("dns.example")), e(0x82, nil), e(0x82, []byte("\xe9"))}
	case "stringUTF8explicit":
		s = [][]byte{e(0xa0, der.UTF8("x")), e(0xa0, der.UTF8("")), e(0xa0, der.UTF8("\xff"))}
	case "bytes":
		s = [][]byte{der.Octets(nil), der.Octets([]byte{1, 2, 3}), []byte{0x04, 0x81, 0x01, 0x09}}
	case "sliceBytes":
		s = [][]byte{der.Seq(der.Octets(nil), der.Octets([]byte{1})), der.Seq()}
	case "bool":
		s = [][]byte{der.Bool(true), der.Bool(false), e(1, []byte{1})}
	case "Flag":
		s = [][]byte{e(0xa0), der.Int64(1)}
	case "sliceRaw", "sliceAny":
		s = [][]byte{der.Seq(ints[0], strs[0], times[0]), der.Seq(), der.Seq(der.Seq(), e(0xa0, der.Null())), der.Seq(strs[1], times[5])}
	case "sliceInt", "intSET", "sliceIntSetParam":
		body := [][]byte{ints[0], ints[2], ints[4]}
		if name == "sliceInt" {
			s = [][]byte{der.Seq(body...), der.Seq(), der.Seq(ints[10])}
		} else {
			s = [][]byte{der.Set(body...), der.Set(), der.Set(ints[10])}
		}
	case "tOpt":
		s = tOpt
	case "tOptApp":
		for _, x := range tOpt {
			s = append(s, append([]byte{0x61}, x[1:]...))
		}
	case "tTagged":
		s = tTagged
	case "tNest":
		s = [][]byte{
			der.Seq(der.Seq(tOpt[1], tOpt[2]), der.Seq(der.OID(1, 2, 3)), der.Seq(ints[1], ints[9]), der.UTF8("any"), der.Set(ints[0], strs[0]), e(0xa9, der.Seq(strs[0], strs[2]))),
			der.Seq(der.Seq(), der.Seq(), times[0]),
			der.Seq(der.Seq(tOpt[0]), der.Seq(), der.Seq(), der.Null()),
		}
	case "tEnumBits":
		s = [][]byte{der.Seq(e(0x0a, []byte{2}), der.BitString([]byte{0x80}), der.Bool(true), der.Int64(-5), der.Int64(1<<40)), der.Seq(e(0x0a, []byte{0, 1}), e(3, []byte{0}), der.Bool(false), ints[5], ints[8])}
	case "RDNSequence":
		for i := 0; i < 10; i++ {
			s = append(s, c01.NameDER(i))
		}
	case "Extensions":
		s = [][]byte{der.Seq(der.Seq(der.OID(2, 5, 29, 19), der.Bool(true), der.Octets(der.Seq())), der.Seq(der.OID(2, 5, 29, 15), der.Octets(der.BitString([]byte{0x80})))), der.Seq()}
	case "AlgorithmIdentifier":
		for _, a := range c01.SigAlgs {
			s = append(s, a.DER)
		}
	case "CertificateList":
		s = c01.Obj().CRLs
	case "OtherName":
		s = [][]byte{e(0xa0, der.OID(1, 3, 6, 1, 4, 1, 311, 20, 2, 3), e(0xa0, der.UTF8("upn"))), e(0xa0, der.OID(1, 2), e(0xa0, ints[10]))}
	case "EDIPartyName":
		s = [][]byte{e(0xa5, e(0xa0, der.UTF8("as")), e(0xa1, der.Printable("party"))), e(0xa5, e(0xa1, der.UTF8("p"))), e(0xa5, e(0xa1, der.Printable("a_b")))}
	}
	if len(s) == 0 {
		s = [][]byte{der.Null()}
	}
	seedCache[name] = s
	return s
}
