package c20

import (
	"bytes"
	"encoding/json"
	"fmt"
	"reflect"
	"testing"

	"github.com/zmap/zcrypto/encoding/asn1"
	"github.com/zmap/zcrypto/x509"
	"pgregory.net/rapid"
	"verifharness/c01"
	"verifharness/dergen"
	"verifharness/kit"
)

// Case: one input decoded into one target in both parsing modes.
type Case struct {
	Target string   `json:"target"` // "cert" or the name of a c01.ASN1Targets entry
	Src    string   `json:"src"`
	Ops    []string `json:"ops,omitempty"`
	Data   []byte   `json:"data"`
}

// deepEq compares two values structurally, including unexported fields (caches,
// big.Int internals, time.Time internals).  It returns the path of the first difference.
func deepEq(a, b reflect.Value, path string, depth int) string {
	if depth > 80 {
		return ""
	}
	if a.IsValid() != b.IsValid() {
		return path + ": validity differs"
	}
	if !a.IsValid() {
		return ""
	}
	if a.Type() != b.Type() {
		return fmt.Sprintf("%s: type %v vs %v", path, a.Type(), b.Type())
	}
	switch a.Kind() {
	case reflect.Bool:
		if a.Bool() != b.Bool() {
			return fmt.Sprintf("%s: %v vs %v", path, a.Bool(), b.Bool())
		}
	case reflect.Int, reflect.Int8, reflect.Int16, reflect.Int32, reflect.Int64:
		if a.Int() != b.Int() {
			return fmt.Sprintf("%s: %d vs %d", path, a.Int(), b.Int())
		}
	case reflect.Uint, reflect.Uint8, reflect.Uint16, reflect.Uint32, reflect.Uint64, reflect.Uintptr:
		if a.Uint() != b.Uint() {
			return fmt.Sprintf("%s: %d vs %d", path, a.Uint(), b.Uint())
		}
	case reflect.Float32, reflect.Float64:
		if a.Float() != b.Float() {
			return path + ": float differs"
		}
	case reflect.String:
		if a.String() != b.String() {
			return fmt.Sprintf("%s: %q vs %q", path, a.String(), b.String())
		}
	case reflect.Slice:
		if a.IsNil() != b.IsNil() {
			return fmt.Sprintf("%s: nil-ness differs (len %d vs %d)", path, a.Len(), b.Len())
		}
		fallthrough
	case reflect.Array:
		if a.Len() != b.Len() {
			return fmt.Sprintf("%s: len %d vs %d", path, a.Len(), b.Len())
		}
		if a.Kind() == reflect.Slice && a.Type().Elem().Kind() == reflect.Uint8 {
			if !bytes.Equal(a.Bytes(), b.Bytes()) {
				return fmt.Sprintf("%s: bytes %x vs %x", path, a.Bytes(), b.Bytes())
			}
			return ""
		}
		for i := 0; i < a.Len(); i++ {
			if d := deepEq(a.Index(i), b.Index(i), fmt.Sprintf("%s[%d]", path, i), depth+1); d != "" {
				return d
			}
		}
	case reflect.Map:
		if a.IsNil() != b.IsNil() || a.Len() != b.Len() {
			return fmt.Sprintf("%s: map size %d vs %d", path, a.Len(), b.Len())
		}
		it := a.MapRange()
		for it.Next() {
			bv := b.MapIndex(it.Key())
			if !bv.IsValid() {
				return fmt.Sprintf("%s: key %v missing", path, it.Key())
			}
			if d := deepEq(it.Value(), bv, fmt.Sprintf("%s[%v]", path, it.Key()), depth+1); d != "" {
				return d
			}
		}
	case reflect.Pointer:
		if a.IsNil() != b.IsNil() {
			return path + ": nil-ness of pointer differs"
		}
		if a.IsNil() || a.Pointer() == b.Pointer() {
			return ""
		}
		return deepEq(a.Elem(), b.Elem(), path+"*", depth+1)
	case reflect.Interface:
		if a.IsNil() != b.IsNil() {
			return path + ": nil-ness of interface differs"
		}
		if a.IsNil() {
			return ""
		}
		return deepEq(a.Elem(), b.Elem(), path, depth+1)
	case reflect.Struct:
		for i := 0; i < a.NumField(); i++ {
			if d := deepEq(a.Field(i), b.Field(i), path+"."+a.Type().Field(i).Name, depth+1); d != "" {
				return d
			}
		}
	case reflect.Func, reflect.Chan, reflect.UnsafePointer:
		if a.IsNil() != b.IsNil() {
			return path + ": nil-ness differs"
		}
	}
	return ""
}

func withMode(permissive bool, fn func()) kit.GuardResult {
	asn1.AllowPermissiveParsing = permissive
	g := kit.GuardInline(fn)
	asn1.AllowPermissiveParsing = false
	return g
}

func targetByName(n string) *c01.ASN1Target {
	for i := range c01.ASN1Targets {
		if c01.ASN1Targets[i].Name == n {
			return &c01.ASN1Targets[i]
		}
	}
	return nil
}

// eval returns (failure key, message, strict accepted, permissive accepted).
func eval(c Case) (key, msg string, okS, okP bool) {
	if c.Target == "cert" {
		var c1, c2 *x509.Certificate
		var e1, e2 error
		in1, in2 := append([]byte(nil), c.Data...), append([]byte(nil), c.Data...)
		if g := withMode(false, func() { c1, e1 = x509.ParseCertificate(in1) }); g.Panicked {
			return "", "", false, false // totality is C01's business
		}
		if g := withMode(true, func() { c2, e2 = x509.ParseCertificate(in2) }); g.Panicked {
			return "", "", e1 == nil, false
		}
		okS, okP = e1 == nil, e2 == nil
		if !okS {
			return
		}
		if !okP {
			return "C20:cert:permissive-rejects", fmt.Sprintf("strict mode accepts the certificate, permissive mode fails with: %v", e2), okS, okP
		}
		if c1 == nil || c2 == nil {
			return "C20:cert:nil", "nil certificate without error", okS, okP
		}
		if !bytes.Equal(c1.Raw, c2.Raw) || !bytes.Equal(c1.Raw, c.Data) {
			return "C20:cert:consumed-bytes", fmt.Sprintf("Raw differs: strict %d bytes, permissive %d bytes, input %d bytes", len(c1.Raw), len(c2.Raw), len(c.Data)), okS, okP
		}
		// field by field, so that every differing field has its own key and a
		// listed finding on one field does not hide a difference in another
		v1, v2 := reflect.ValueOf(c1).Elem(), reflect.ValueOf(c2).Elem()
		var knownKey, knownMsg string
		for i := 0; i < v1.NumField(); i++ {
			name := v1.Type().Field(i).Name
			if d := deepEq(v1.Field(i), v2.Field(i), name, 0); d != "" {
				cause := causeOf(name, c1, c.Data)
				k, m := "C20:cert:result-differs:"+name+cause, "parsed certificates differ between the modes at "+d+" (strict vs permissive)"
				if cause != "" {
					m += "; verified cause " + cause[1:]
				}
				if !kit.IsKnown(k) {
					return k, m, okS, okP
				}
				if knownKey == "" {
					knownKey, knownMsg = k, m
				}
			}
		}
		if knownKey != "" {
			return knownKey, knownMsg, okS, okP
		}
		// the JSON form (computed in strict mode for both, so only the parsed data matters)
		var j1, j2 []byte
		var je1, je2 error
		g1 := withMode(false, func() { j1, je1 = json.Marshal(c1) })
		g2 := withMode(false, func() { j2, je2 = json.Marshal(c2) })
		if g1.Panicked != g2.Panicked || (je1 == nil) != (je2 == nil) || !bytes.Equal(j1, j2) {
			return "C20:cert:json-differs", fmt.Sprintf("JSON forms differ between the modes (panic %v/%v, err %v/%v)", g1.Panicked, g2.Panicked, je1, je2), okS, okP
		}
		return
	}
	tg := targetByName(c.Target)
	if tg == nil {
		return "harness:unknown-target", c.Target, false, false
	}
	v1, v2 := tg.New(), tg.New()
	var r1, r2 []byte
	var e1, e2 error
	in1, in2 := append([]byte(nil), c.Data...), append([]byte(nil), c.Data...)
	if g := withMode(false, func() { r1, e1 = asn1.UnmarshalWithParams(in1, v1, tg.Params) }); g.Panicked {
		return
	}
	if g := withMode(true, func() { r2, e2 = asn1.UnmarshalWithParams(in2, v2, tg.Params) }); g.Panicked {
		return "", "", e1 == nil, false
	}
	okS, okP = e1 == nil, e2 == nil
	if !okS {
		return
	}
	if !okP {
		return "C20:asn1:permissive-rejects:" + c.Target, fmt.Sprintf("strict Unmarshal into %s succeeds, permissive fails with: %v", c.Target, e2), okS, okP
	}
	if len(r1) != len(r2) || !bytes.Equal(r1, r2) {
		return "C20:asn1:consumed-bytes:" + c.Target, fmt.Sprintf("rest differs: strict %d bytes, permissive %d bytes", len(r1), len(r2)), okS, okP
	}
	if d := deepEq(reflect.ValueOf(v1), reflect.ValueOf(v2), c.Target, 0); d != "" {
		return "C20:asn1:result-differs:" + c.Target, "decoded values differ between the modes at " + d, okS, okP
	}
	return
}

func check(c Case, r *kit.R) {
	r.Class("target:" + map[bool]string{true: "cert", false: "asn1"}[c.Target == "cert"])
	r.Class("src:" + c.Src)
	key, msg, okS, okP := eval(c)
	if key != "" {
		r.Failf(key, "%s", msg)
	}
	switch {
	case okS && okP:
		r.Class("both-accept")
		r.NonTrivial()
	case okP:
		r.Class("permissive-only")
	case okS:
		r.Class("strict-only(unreachable)")
	default:
		r.Class("both-reject")
	}
}

const rule = "target = x509.ParseCertificate or asn1.UnmarshalWithParams into one of 37 target types; input = valid object, certificate assembled with a pool key, genuine signature and arbitrary extension contents (policies with mixed user notices, all GeneralName kinds, name constraints, QC statements, ...), hostile certificate, TLV-level or byte-level mutation of a valid object, or random DER tree with mode-sensitive constants (non-minimal integers/lengths, odd times, string types with illegal characters). Oracle: strict accepts => permissive accepts, same rest / Raw, structurally identical result including unexported fields, identical JSON form. Non-trivial: strict mode accepted the input; distinct by hash of (target, input)"

var assumptions = []string{"inputs at most 32 KiB", "JSON forms are compared with the switch off for both results, so that only the parsed data is compared"}

func genCert(t *rapid.T) Case {
	c := Case{Target: "cert"}
	o := c01.Obj()
	table := []string{"permenc", "permenc", "permenc", "permenc", "mut", "mut", "mut", "mut", "built", "built", "built", "builtperm", "builtperm", "builtmut", "builtmut", "bytes", "hostile", "valid"}
	c.Src = table[rapid.IntRange(0, len(table)-1).Draw(t, "src")]
	seed := func() []byte { return o.Certs[rapid.IntRange(0, len(o.Certs)-1).Draw(t, "seed")] }
	switch c.Src {
	case "valid":
		c.Data = seed()
	case "built":
		c.Data = c01.GenValidKeyCert(t).Build()
	case "builtmut":
		c.Data, c.Ops = c01.MutateDER(t, c01.GenValidKeyCert(t).Build())
	case "permenc", "builtperm":
		var base []byte
		if c.Src == "permenc" {
			base = seed()
		} else {
			base = c01.GenValidKeyCert(t).Build()
		}
		roots := dergen.ParseTree(base)
		if roots == nil {
			c.Data = base
			break
		}
		// restrict to the extensions subtree most of the time: that is where strict mode tolerates local decode errors
		target := roots
		if rapid.IntRange(0, 3).Draw(t, "scope") > 0 {
			if sub := extensionNodes(roots); len(sub) > 0 {
				target = sub
			}
		}
		_, c.Ops = dergen.MutatePermissive(t, target, rapid.IntRange(1, 2).Draw(t, "np"))
		c.Data = dergen.EncodeAll(roots)
	case "hostile":
		c.Data = c01.GenHostileCert(t).Build()
	case "bytes":
		c.Data, c.Ops = dergen.MutateBytes(t, seed(), rapid.IntRange(1, 2).Draw(t, "nb"))
	default:
		c.Data, c.Ops = c01.MutateDER(t, seed())
	}
	return c
}

// extensionNodes returns the [3] extensions element of a certificate tree (if any).
func extensionNodes(roots []*dergen.Node) []*dergen.Node {
	if len(roots) != 1 || len(roots[0].Children) == 0 {
		return nil
	}
	for _, f := range roots[0].Children[0].Children {
		if f.Class == 2 && f.Tag == 3 && f.Constructed {
			return f.Children
		}
	}
	// also the signature algorithm parameters (RSA-PSS) are decoded leniently
	return nil
}

func genASN1(t *rapid.T) Case {
	tg := c01.ASN1Targets[rapid.IntRange(0, len(c01.ASN1Targets)-1).Draw(t, "target")]
	c := Case{Target: tg.Name}
	seeds := targetSeeds(tg.Name)
	table := []string{"mut", "mut", "mut", "mut", "permenc", "permenc", "tree", "tree", "valid", "bytes"}
	c.Src = table[rapid.IntRange(0, len(table)-1).Draw(t, "src")]
	seed := func() []byte { return seeds[rapid.IntRange(0, len(seeds)-1).Draw(t, "seed")] }
	switch c.Src {
	case "permenc":
		roots := dergen.ParseTree(seed())
		if roots == nil {
			c.Data = seed()
			break
		}
		_, c.Ops = dergen.MutatePermissive(t, roots, rapid.IntRange(1, 2).Draw(t, "np"))
		c.Data = dergen.EncodeAll(roots)
	case "valid":
		c.Data = seed()
	case "tree":
		c.Data = dergen.GenNode(t, rapid.IntRange(0, 3).Draw(t, "depth")).Encode()
	case "bytes":
		c.Data, c.Ops = dergen.MutateBytes(t, seed(), rapid.IntRange(1, 2).Draw(t, "nb"))
	default:
		c.Data, c.Ops = c01.MutateDER(t, seed())
	}
	if len(c.Data) > c01.MaxInput {
		c.Data = c.Data[:c01.MaxInput]
	}
	return c
}

func TestPropCert(t *testing.T) {
	kit.Run(t, kit.Spec[Case]{ID: "C20", Name: "cert", Rule: rule, Assumptions: assumptions, Gen: genCert, Check: check, Quick: 40000, Thorough: 200000, Sample: sample})
}

func TestPropASN1(t *testing.T) {
	kit.Run(t, kit.Spec[Case]{ID: "C20", Name: "asn1", Rule: rule, Assumptions: assumptions, Gen: genASN1, Check: check, Quick: 60000, Thorough: 400000, Sample: sample})
}

func sample(c Case) any {
	d := c.Data
	if len(d) > 96 {
		d = d[:96]
	}
	return map[string]any{"target": c.Target, "src": c.Src, "ops": c.Ops, "len": len(c.Data), "data_prefix": d}
}

// TestTargetSeedsDecode: every target has seeds and at least one decodes in strict mode.
func TestTargetSeedsDecode(t *testing.T) {
	for _, tg := range c01.ASN1Targets {
		seeds := targetSeeds(tg.Name)
		n := 0
		for _, s := range seeds {
			if _, _, okS, _ := eval(Case{Target: tg.Name, Data: s}); okS {
				n++
			}
		}
		if n == 0 && tg.Name != "sliceAny" { // []interface{} is not decodable at all (no universal type)
			t.Errorf("target %s: none of %d seeds decodes in strict mode", tg.Name, len(seeds))
		}
	}
}

// ---- native fuzzing with the differential oracle inside -------------------

func FuzzCertDiff(f *testing.F) {
	for i, s := range c01.Obj().Certs {
		if i < 30 {
			f.Add(s)
		}
	}
	f.Fuzz(func(t *testing.T, data []byte) {
		if len(data) > c01.MaxInput {
			return
		}
		if key, msg, _, _ := eval(Case{Target: "cert", Data: data}); key != "" && !kit.IsKnown(key) {
			t.Fatalf("VERIF-FAIL %s: %s", key, msg)
		}
	})
}

func FuzzASN1Diff(f *testing.F) {
	for i, tg := range c01.ASN1Targets {
		for j, s := range targetSeeds(tg.Name) {
			if j < 3 {
				f.Add(s, uint8(i))
			}
		}
	}
	f.Fuzz(func(t *testing.T, data []byte, which uint8) {
		if len(data) > c01.MaxInput {
			return
		}
		tg := c01.ASN1Targets[int(which)%len(c01.ASN1Targets)]
		if key, msg, _, _ := eval(Case{Target: tg.Name, Data: data}); key != "" && !kit.IsKnown(key) {
			t.Fatalf("VERIF-FAIL %s: %s", key, msg)
		}
	})
}
