package c20

import (
	"bytes"
	"math/big"

	"github.com/zmap/zcrypto/encoding/asn1"
	"github.com/zmap/zcrypto/x509"
	"github.com/zmap/zcrypto/x509/pkix"
	"verifharness/der"
)

// Cause classification of strict/permissive differences between two parses of
// one certificate.  A difference in a field is attributed to a cause ONLY when
// the cause hypothesis is verified on this very input; the cause then becomes a
// suffix of the failure key, so that a listed known finding identifies the
// failing mechanism and not merely the field (a different defect that changes
// the same field keeps the generic key and is still reported).

// decodesOnlyPermissively reports whether asn1.Unmarshal of b into a fresh value
// (made by mk) fails (or leaves bytes) in strict mode and succeeds completely in
// permissive mode.
func decodesOnlyPermissively(b []byte, mk func() interface{}) bool {
	try := func(permissive bool) (ok bool) {
		withMode(permissive, func() {
			rest, err := asn1.Unmarshal(append([]byte(nil), b...), mk())
			ok = err == nil && len(rest) == 0
		})
		return
	}
	return !try(false) && try(true)
}

// anyExtOnlyPermissive reports whether at least one instance of the extension
// (certificates may repeat an extension; the parser lets the last decodable one
// win) has a value that decodes only in permissive mode.
func anyExtOnlyPermissive(c *x509.Certificate, oid asn1.ObjectIdentifier, mk func() interface{}) bool {
	for _, e := range c.Extensions {
		if e.Id.Equal(oid) && decodesOnlyPermissively(e.Value, mk) {
			return true
		}
	}
	return false
}

type basicConstraintsShape struct {
	IsCA       bool `asn1:"optional"`
	MaxPathLen int  `asn1:"optional,default:-1"`
}

type dsaSigShape struct{ R, S *big.Int }

type pssParamsShape struct {
	Hash         pkix.AlgorithmIdentifier `asn1:"explicit,tag:0"`
	MGF          pkix.AlgorithmIdentifier `asn1:"explicit,tag:1"`
	SaltLength   int                      `asn1:"explicit,tag:2"`
	TrailerField int                      `asn1:"optional,explicit,tag:3,default:1"`
}

var oidPSS = []byte{0x2a, 0x86, 0x48, 0x86, 0xf7, 0x0d, 0x01, 0x01, 0x0a}

// tbsAlgorithm returns the OID body and the raw parameters of the signature
// AlgorithmIdentifier inside the TBSCertificate (the one zcrypto derives
// Certificate.SignatureAlgorithm from), read with the zcrypto-independent der
// package: TBSCertificate ::= SEQUENCE { [0] version OPTIONAL, serialNumber,
// signature AlgorithmIdentifier, ... }.
func tbsAlgorithm(data []byte) (oid, params []byte) {
	cert, _, err := der.Parse(data)
	if err != nil {
		return nil, nil
	}
	parts, err := der.Children(cert.Body)
	if err != nil || len(parts) < 3 {
		return nil, nil
	}
	tbs, err := der.Children(parts[0].Body)
	if err != nil {
		return nil, nil
	}
	i := 0
	if i < len(tbs) && tbs[i].Class == 2 && tbs[i].Tag == 0 {
		i++ // version
	}
	i++ // serialNumber
	if i >= len(tbs) {
		return nil, nil
	}
	alg, err := der.Children(tbs[i].Body)
	if err != nil || len(alg) == 0 {
		return nil, nil
	}
	oid = alg[0].Body
	if len(alg) > 1 {
		params = alg[1].Full
	}
	return
}

// pssOnlyPermissive reports whether GetSignatureAlgorithmFromAI's two decoding
// steps of RSASSA-PSS parameters succeed only in permissive mode: the
// parameters themselves, or (when those decode in both modes) the
// AlgorithmIdentifier nested in the MGF parameters.
func pssOnlyPermissive(params []byte) bool {
	if decodesOnlyPermissively(params, func() interface{} { return new(pssParamsShape) }) {
		return true
	}
	var p pssParamsShape
	ok := false
	withMode(true, func() {
		rest, err := asn1.Unmarshal(append([]byte(nil), params...), &p)
		ok = err == nil && len(rest) == 0
	})
	if !ok {
		return false
	}
	return decodesOnlyPermissively(p.MGF.Parameters.FullBytes, func() interface{} { return new(pkix.AlgorithmIdentifier) })
}

// causeOf returns the verified cause suffix for a difference in the named
// Certificate field, or "" when no known mechanism explains it on this input.
func causeOf(field string, strict *x509.Certificate, data []byte) string {
	switch field {
	case "KeyUsage":
		if anyExtOnlyPermissive(strict, asn1.ObjectIdentifier{2, 5, 29, 15}, func() interface{} { return new(asn1.BitString) }) {
			return ":strict-skips-undecodable-extension"
		}
	case "BasicConstraintsValid", "IsCA", "MaxPathLen", "MaxPathLenZero":
		if anyExtOnlyPermissive(strict, asn1.ObjectIdentifier{2, 5, 29, 19}, func() interface{} { return new(basicConstraintsShape) }) {
			return ":strict-skips-undecodable-extension"
		}
	case "SignatureAlgorithm":
		if oid, params := tbsAlgorithm(data); bytes.Equal(oid, oidPSS) && params != nil && pssOnlyPermissive(params) {
			return ":pss-parameters-decoded-with-mode-dependent-decoder"
		}
	case "SelfSigned", "ValidationLevel":
		// the self-signature test decodes the signature value (ECDSA/DSA
		// SEQUENCE{r,s}) or the PSS parameters with the mode-dependent decoder
		if bytes.Equal(strict.RawIssuer, strict.RawSubject) {
			if decodesOnlyPermissively(strict.Signature, func() interface{} { return new(dsaSigShape) }) {
				return ":signature-value-decoded-with-mode-dependent-decoder"
			}
			if oid, params := tbsAlgorithm(data); bytes.Equal(oid, oidPSS) && params != nil && pssOnlyPermissive(params) {
				return ":pss-parameters-decoded-with-mode-dependent-decoder"
			}
		}
	}
	return ""
}
