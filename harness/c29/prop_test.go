// Package c29 checks property C29: a client that uses a
// ClientFingerprintConfiguration sends a ClientHello that carries exactly the
// configured fields, and every built-in extension type encodes a well-formed
// extension that zcrypto's own ClientHello parser reads back.
//
// Oracle: the harness' own wire parser and RFC-layout encoders (package
// tlswire, no zcrypto imports).  The server is a stub that collects the first
// handshake message and closes.
package c29

import (
	"bytes"
	"encoding/binary"
	"fmt"
	"io"
	"strings"
	"testing"
	"time"

	"github.com/zmap/zcrypto/tls"
	"pgregory.net/rapid"
	"verifharness/kit"
	"verifharness/tlskit"
	"verifharness/tlswire"
)

// ExtSpec describes one configured extension (JSON-serialisable).
type ExtSpec struct {
	Kind  string   `json:"kind"`            // sni alpn curves points ticket sigalgs status sct ems reneg null
	Names [][]byte `json:"names,omitempty"` // sni: one host name; alpn: protocols
	U16   []uint16 `json:"u16,omitempty"`   // curves / signature algorithms (hash<<8|sig)
	U8    []uint8  `json:"u8,omitempty"`    // point formats
	Bytes []byte   `json:"bytes,omitempty"` // ticket
	Auto  bool     `json:"auto,omitempty"`  // Autopopulate (sni, ticket)
}

type Case struct {
	Version         uint16    `json:"version"`
	Random          []byte    `json:"random"` // 32 bytes: explicit client random; any other length: fresh randomness
	InsertTimestamp bool      `json:"insert_timestamp"`
	SessionID       []byte    `json:"session_id"`
	Suites          []uint16  `json:"suites"`
	ForceSuites     bool      `json:"force_suites"`
	Compression     []uint8   `json:"compression"`
	Exts            []ExtSpec `json:"exts"`
	ServerName      string    `json:"server_name"`   // Config.ServerName
	ShortReads      int       `json:"short_reads,omitempty"` // DetRand: the stream returns at most this many bytes per Read (0: all)
	DetRand         bool      `json:"det_rand"`      // Config.Rand = deterministic harness stream (else nil = crypto/rand)
	SessionCache    bool      `json:"session_cache"` // Config.ClientSessionCache set (a generic config knob next to the fingerprint)
}

// ---------------------------------------------------------------------------
// deterministic entropy stream handed to Config.Rand

// max > 0: a Read returns at most max bytes (an io.Reader may return fewer bytes than asked
// for; the documentation of Config.Rand asks for an io.Reader, nothing more)
type stream struct{ pos, max int }

func streamByte(i int) byte { return byte((i*197 + (i>>8)*31 + 13) ^ (i >> 3)) }
func (s *stream) Read(p []byte) (int, error) {
	if s.max > 0 && len(p) > s.max {
		p = p[:s.max]
	}
	for i := range p {
		p[i] = streamByte(s.pos)
		s.pos++
	}
	return len(p), nil
}
func streamPrefix(n int) []byte {
	b := make([]byte, n)
	(&stream{}).Read(b)
	return b
}

// ---------------------------------------------------------------------------

func (e ExtSpec) strs() []string {
	out := make([]string, len(e.Names))
	for i, n := range e.Names {
		out[i] = string(n)
	}
	return out
}

// build returns the zcrypto extension object for a spec.
func (e ExtSpec) build() tls.ClientExtension {
	switch e.Kind {
	case "sni":
		return &tls.SNIExtension{Domains: e.strs(), Autopopulate: e.Auto}
	case "alpn":
		return &tls.ALPNExtension{Protocols: e.strs()}
	case "curves":
		cs := make([]tls.CurveID, len(e.U16))
		for i, c := range e.U16 {
			cs[i] = tls.CurveID(c)
		}
		return &tls.SupportedCurvesExtension{Curves: cs}
	case "points":
		return &tls.PointFormatExtension{Formats: append([]uint8{}, e.U8...)}
	case "ticket":
		return &tls.SessionTicketExtension{Ticket: append([]byte{}, e.Bytes...), Autopopulate: e.Auto}
	case "sigalgs":
		return &tls.SignatureAlgorithmExtension{SignatureAndHashes: append([]uint16{}, e.U16...)}
	case "status":
		return &tls.StatusRequestExtension{}
	case "sct":
		return &tls.SCTExtension{}
	case "ems":
		return &tls.ExtendedMasterSecretExtension{}
	case "reneg":
		return &tls.SecureRenegotiationExtension{}
	}
	return &tls.NullExtension{}
}

// expected returns the RFC encoding the extension must have on the wire
// (nil: contributes nothing) given the Config.ServerName in force.
func (e ExtSpec) expected(serverName string) []byte {
	switch e.Kind {
	case "sni":
		if e.Auto {
			if serverName == "" {
				return nil
			}
			return tlswire.EncSNI(serverName)
		}
		return tlswire.EncSNI(string(e.Names[0]))
	case "alpn":
		return tlswire.EncALPN(e.strs())
	case "curves":
		return tlswire.EncSupportedGroups(e.U16)
	case "points":
		return tlswire.EncPointFormats(e.U8)
	case "ticket":
		return tlswire.EncSessionTicket(e.Bytes)
	case "sigalgs":
		return tlswire.EncSignatureAlgorithms(e.U16)
	case "status":
		return tlswire.EncStatusRequestOCSP()
	case "sct":
		return tlswire.EncSCT()
	case "ems":
		return tlswire.EncExtendedMasterSecret()
	case "reneg":
		return tlswire.EncRenegotiationInfo(nil)
	}
	return nil
}

func (c Case) fingerprint(exts []ExtSpec) *tls.ClientFingerprintConfiguration {
	fp := &tls.ClientFingerprintConfiguration{
		HandshakeVersion:   c.Version,
		ClientRandom:       append([]byte{}, c.Random...),
		InsertTimestamp:    c.InsertTimestamp,
		SessionID:          append([]byte{}, c.SessionID...),
		CipherSuites:       append([]uint16{}, c.Suites...),
		CompressionMethods: append([]uint8{}, c.Compression...),
	}
	for _, e := range exts {
		fp.Extensions = append(fp.Extensions, e.build())
	}
	return fp
}

func (c Case) config(fp *tls.ClientFingerprintConfiguration) *tls.Config {
	cfg := &tls.Config{Time: tlskit.Now, InsecureSkipVerify: true, ServerName: c.ServerName, ForceSuites: c.ForceSuites,
		ClientFingerprintConfiguration: fp}
	if c.DetRand {
		cfg.Rand = &stream{max: c.ShortReads}
	}
	if c.SessionCache {
		cfg.ClientSessionCache = tls.NewLRUClientSessionCache(4)
	}
	return cfg
}

// firstMessageComplete reports whether buf holds a complete first handshake message.
func firstMessageComplete(buf []byte) bool {
	recs, _, err := tlswire.SplitRecords(buf)
	if err != nil || len(recs) == 0 {
		return err != nil
	}
	var hs []byte
	for _, r := range recs {
		if r.Type != tlswire.TypeHandshake {
			return true // not what we expect; stop and let the oracle complain
		}
		hs = append(hs, r.Body...)
	}
	return len(hs) >= 4 && len(hs) >= 4+(int(hs[1])<<16|int(hs[2])<<8|int(hs[3]))
}

type sent struct {
	wire          []byte
	err           error
	before, after time.Time
	cachePanic    string
}

// send runs one client handshake against the stub and returns what reached the wire.
func send(r *kit.R, cfg *tls.Config) sent {
	cEnd, sEnd := tlskit.RawPair()
	got := make(chan []byte, 1)
	go func() {
		var buf []byte
		tmp := make([]byte, 65536)
		sEnd.SetReadDeadline(time.Now().Add(15 * time.Second))
		for {
			n, err := sEnd.Read(tmp)
			buf = append(buf, tmp[:n]...)
			if err != nil || firstMessageComplete(buf) {
				break
			}
		}
		sEnd.Close()
		got <- buf
	}()
	var s sent
	s.before = time.Now()
	conn := tls.Client(cEnd, cfg)
	g := kit.Guard(func() {
		s.err = conn.Handshake()
		s.after = time.Now()
	})
	cEnd.Close()
	s.wire = <-got
	if g.Panicked && cfg.ClientSessionCache != nil && strings.HasSuffix(g.Site, "loadSession") {
		s.cachePanic = fmt.Sprintf("%v\n%s", g.PanicVal, g.Stack)
		return s
	}
	r.Must(g, "client handshake with a fingerprint configuration")
	return s
}

func u16eq(a, b []uint16) bool {
	if len(a) != len(b) {
		return false
	}
	for i := range a {
		if a[i] != b[i] {
			return false
		}
	}
	return true
}

func strsEq(a, b []string) bool {
	if len(a) != len(b) {
		return false
	}
	for i := range a {
		if a[i] != b[i] {
			return false
		}
	}
	return true
}

const (
	keyTimestamp   = "C29:timestamp-prefix"
	keyECDSASigAlg = "C29:sigalg-ecdsa-rejected"
	keyCachePanic  = "C29:session-cache-panic"
)

// parseHello parses what reached the wire into exactly one ClientHello message.
func parseHello(r *kit.R, s sent) (tlswire.Msg, *tlswire.ClientHello) {
	if len(s.wire) == 0 {
		r.Failf("C29:not-sent", "no ClientHello reached the wire; Handshake returned: %v", s.err)
	}
	recs, rest, err := tlswire.SplitRecords(s.wire)
	if err != nil || len(rest) != 0 || len(recs) == 0 {
		r.Failf("C29:record-framing", "first flight is not a sequence of whole records: err=%v, %d records, %d trailing bytes", err, len(recs), len(rest))
	}
	for i, rec := range recs {
		if rec.Type != tlswire.TypeHandshake || rec.Version>>8 != 3 {
			r.Failf("C29:record-header", "record %d has type %d version %04x (want handshake(22), 03xx)", i, rec.Type, rec.Version)
		}
	}
	fl, err := tlswire.Reassemble(recs)
	if err != nil {
		r.Failf("C29:record-framing", "reassembly: %v", err)
	}
	if len(fl.Msgs) != 1 || fl.Msgs[0].Type != tlswire.HsClientHello {
		r.Failf("C29:record-framing", "first flight holds %d handshake messages (first type %v), want exactly one ClientHello", len(fl.Msgs), fl.Msgs)
	}
	ch, err := tlswire.ParseClientHello(fl.Msgs[0].Body)
	if err != nil {
		r.Failf("C29:hello-malformed", "ClientHello is not well-formed (RFC 5246 7.4.1.2): %v\n%x", err, fl.Msgs[0].Raw)
	}
	if len(recs) > 1 {
		r.Class("hello-spans-records")
	}
	return fl.Msgs[0], ch
}

func check(c Case, r *kit.R) {
	exts := append([]ExtSpec{}, c.Exts...)

	// Standard ECDSA code points in signature_algorithms (known finding: refused).
	for i, e := range exts {
		if e.Kind != "sigalgs" {
			continue
		}
		hasECDSA := false
		for _, a := range e.U16 {
			if a&0xff == 3 {
				hasECDSA = true
			}
		}
		if !hasECDSA {
			continue
		}
		r.Class("sigalgs-with-ecdsa")
		if err := e.build().CheckImplemented(); err != nil {
			if !r.Known(keyECDSASigAlg) {
				r.Failf(keyECDSASigAlg, "SignatureAlgorithmExtension%04x.CheckImplemented() = %v: a standard ECDSA SignatureAndHashAlgorithm (signature byte 3, RFC 5246 7.4.1.4.1) cannot be configured although zcrypto implements it", e.U16, err)
			}
			// keep searching behind the finding: replace ecdsa(3) by rsa(1)
			fixed := append([]uint16{}, e.U16...)
			for j := range fixed {
				if fixed[j]&0xff == 3 {
					fixed[j] = fixed[j]&0xff00 | 1
				}
			}
			exts[i].U16 = fixed
		}
	}

	s := send(r, c.config(c.fingerprint(exts)))
	if s.cachePanic != "" {
		if !r.Known(keyCachePanic) {
			r.Failf(keyCachePanic, "Config{ClientFingerprintConfiguration, ClientSessionCache}: Handshake panics before anything is sent (loadSession indexes hello.supportedVersions[0], which a fingerprinted hello never has): %s", s.cachePanic)
		}
		c.SessionCache = false // keep searching behind the finding
		s = send(r, c.config(c.fingerprint(exts)))
	}
	msg, ch := parseHello(r, s)

	// --- fixed fields ------------------------------------------------------
	if ch.Version != c.Version {
		r.Failf("C29:version", "client_version on the wire %04x, configured HandshakeVersion %04x", ch.Version, c.Version)
	}
	explicit := len(c.Random) == 32
	switch {
	case explicit:
		r.Class("random=explicit")
		if !bytes.Equal(ch.Random, c.Random) {
			r.Failf("C29:random", "client random on the wire %x, configured %x", ch.Random, c.Random)
		}
	default:
		fresh := ch.Random
		if c.InsertTimestamp {
			r.Class("random=timestamp+fresh")
			fresh = ch.Random[4:]
			ts := int64(binary.BigEndian.Uint32(ch.Random[:4]))
			okWall := ts >= s.before.Unix()-120 && ts <= s.after.Unix()+120
			okCfg := ts >= tlskit.Now().Unix()-120 && ts <= tlskit.Now().Unix()+120 // a repair may prefer Config.Time
			if !okWall && !okCfg {
				if !r.Known(keyTimestamp) {
					r.Failf(keyTimestamp, "InsertTimestamp: the first four bytes of the client random are %x (= %d); expected gmt_unix_time (RFC 5246 7.4.1.2) within 120 s of %d (wall clock) or %d (Config.Time)", ch.Random[:4], ts, s.before.Unix(), tlskit.Now().Unix())
				}
			}
		} else {
			r.Class("random=fresh")
		}
		if bytes.Equal(fresh, make([]byte, len(fresh))) {
			r.Failf("C29:random-fresh", "the random part of the client random is all zero: %x", ch.Random)
		}
		if c.DetRand {
			if !bytes.Contains(streamPrefix(8192), fresh) {
				r.Failf("C29:random-fresh", "Config.Rand was set but the random part of the client random (%x) was not read from it", fresh)
			}
		} else {
			s2 := send(r, c.config(c.fingerprint(exts)))
			_, ch2 := parseHello(r, s2)
			if bytes.Equal(ch2.Random[len(ch2.Random)-len(fresh):], fresh) {
				r.Failf("C29:random-fresh", "two handshakes from the same configuration sent the same 'fresh' random bytes %x", fresh)
			}
		}
	}
	if !bytes.Equal(ch.SessionID, c.SessionID) {
		r.Failf("C29:session-id", "session_id on the wire %x (%d bytes), configured %x (%d bytes)", ch.SessionID, len(ch.SessionID), c.SessionID, len(c.SessionID))
	}
	if !u16eq(ch.CipherSuites, c.Suites) {
		r.Failf("C29:suites", "cipher_suites on the wire %04x, configured %04x", ch.CipherSuites, c.Suites)
	}
	if !bytes.Equal(ch.Compression, c.Compression) {
		r.Failf("C29:compression", "compression_methods on the wire %x, configured %x", ch.Compression, c.Compression)
	}

	// --- extension block ---------------------------------------------------
	var want []byte
	var wantList [][]byte
	var wantKinds []string
	for _, e := range exts {
		if enc := e.expected(c.ServerName); enc != nil {
			want = append(want, enc...)
			wantList = append(wantList, enc)
			wantKinds = append(wantKinds, e.Kind)
		}
	}
	if !bytes.Equal(ch.ExtBlock, want) {
		// locate the first difference for the report
		detail := fmt.Sprintf("%d extensions on the wire, %d expected", len(ch.Extensions), len(wantList))
		for i := 0; i < len(wantList) && i < len(ch.Extensions); i++ {
			if !bytes.Equal(ch.Extensions[i].Raw(), wantList[i]) {
				detail = fmt.Sprintf("extension #%d (%s): wire %x, RFC encoding of the configured value %x", i, wantKinds[i], ch.Extensions[i].Raw(), wantList[i])
				break
			}
		}
		r.Failf("C29:extensions", "extension block differs from the concatenation of the configured extensions in order: %s", detail)
	}
	if len(want) == 0 && ch.HasExtensions {
		r.Class("empty-extension-block-present")
	}

	// --- each extension is well-formed for the harness' strict parser --------
	wf := func(i int, err error) {
		if err != nil {
			r.Failf("C29:ext-malformed", "extension #%d (%s) is not well-formed: %v (%x)", i, wantKinds[i], err, ch.Extensions[i].Raw())
		}
	}
	k := 0
	for _, e := range exts {
		if e.expected(c.ServerName) == nil {
			continue
		}
		d := ch.Extensions[k].Data
		switch e.Kind {
		case "sni":
			names, err := tlswire.ParseSNI(d)
			wf(k, err)
			wantName := c.ServerName
			if !e.Auto {
				wantName = string(e.Names[0])
			}
			if len(names) != 1 || names[0].Type != 0 || string(names[0].Name) != wantName {
				r.Failf("C29:ext-value", "server_name reads back as %v, configured %q", names, wantName)
			}
		case "alpn":
			p, err := tlswire.ParseALPN(d)
			wf(k, err)
			if !strsEq(p, e.strs()) {
				r.Failf("C29:ext-value", "ALPN reads back as %q, configured %q", p, e.strs())
			}
		case "curves":
			g, err := tlswire.ParseSupportedGroups(d)
			wf(k, err)
			if !u16eq(g, e.U16) {
				r.Failf("C29:ext-value", "supported_groups read back as %v, configured %v", g, e.U16)
			}
		case "points":
			f, err := tlswire.ParsePointFormats(d)
			wf(k, err)
			if !bytes.Equal(f, e.U8) {
				r.Failf("C29:ext-value", "ec_point_formats read back as %v, configured %v", f, e.U8)
			}
		case "sigalgs":
			a, err := tlswire.ParseSignatureAlgorithms(d)
			wf(k, err)
			if !u16eq(a, e.U16) {
				r.Failf("C29:ext-value", "signature_algorithms read back as %04x, configured %04x", a, e.U16)
			}
		case "ticket":
			if !bytes.Equal(d, e.Bytes) {
				r.Failf("C29:ext-value", "session ticket reads back as %x, configured %x", d, e.Bytes)
			}
		case "status":
			sr, err := tlswire.ParseStatusRequest(d)
			wf(k, err)
			if sr.StatusType != 1 || len(sr.ResponderIDList) != 0 || len(sr.RequestExtensions) != 0 {
				r.Failf("C29:ext-value", "status_request reads back as %+v", sr)
			}
		case "sct":
			wf(k, tlswire.ParseEmpty(d, "signed_certificate_timestamp"))
		case "ems":
			wf(k, tlswire.ParseEmpty(d, "extended_master_secret"))
		case "reneg":
			rc, err := tlswire.ParseRenegotiationInfo(d)
			wf(k, err)
			if len(rc) != 0 {
				r.Failf("C29:ext-value", "renegotiation_info reads back as %x", rc)
			}
		}
		k++
	}

	// --- zcrypto's own ClientHello parser reads the configured values back ---
	zh, ok := tls.VerifC29ParseClientHello(msg.Raw)
	if !ok {
		r.Failf("C29:zparse-reject", "clientHelloMsg.unmarshal rejects the ClientHello that was sent: %x", msg.Raw)
	}
	zfail := func(what string, got, want any) {
		r.Failf("C29:zparse-"+what, "clientHelloMsg.unmarshal reads %s back as %v, configured %v", what, got, want)
	}
	if zh.Vers() != c.Version {
		zfail("version", zh.Vers(), c.Version)
	}
	if !bytes.Equal(zh.Random(), ch.Random) {
		zfail("random", zh.Random(), ch.Random)
	}
	if !bytes.Equal(zh.SessionID(), c.SessionID) {
		zfail("session-id", zh.SessionID(), c.SessionID)
	}
	if !u16eq(zh.CipherSuites(), c.Suites) {
		zfail("suites", zh.CipherSuites(), c.Suites)
	}
	if !bytes.Equal(zh.CompressionMethods(), c.Compression) {
		zfail("compression", zh.CompressionMethods(), c.Compression)
	}
	has := map[string]*ExtSpec{}
	for i := range exts {
		if exts[i].expected(c.ServerName) != nil {
			has[exts[i].Kind] = &exts[i]
		}
	}
	wantSNI := ""
	if e := has["sni"]; e != nil {
		wantSNI = c.ServerName
		if !e.Auto {
			wantSNI = string(e.Names[0])
		}
	}
	if zh.ServerName() != wantSNI {
		zfail("sni", zh.ServerName(), wantSNI)
	}
	var wantALPN []string
	if e := has["alpn"]; e != nil {
		wantALPN = e.strs()
	}
	if !strsEq(zh.ALPNProtocols(), wantALPN) {
		zfail("alpn", zh.ALPNProtocols(), wantALPN)
	}
	var wantCurves, wantSig []uint16
	if e := has["curves"]; e != nil {
		wantCurves = e.U16
	}
	if e := has["sigalgs"]; e != nil {
		wantSig = e.U16
	}
	if !u16eq(zh.SupportedCurves(), wantCurves) {
		zfail("curves", zh.SupportedCurves(), wantCurves)
	}
	if !u16eq(zh.SignatureAlgorithms(), wantSig) {
		zfail("sigalgs", zh.SignatureAlgorithms(), wantSig)
	}
	var wantPoints []uint8
	if e := has["points"]; e != nil {
		wantPoints = e.U8
	}
	if !bytes.Equal(zh.SupportedPoints(), wantPoints) {
		zfail("points", zh.SupportedPoints(), wantPoints)
	}
	var wantTicket []byte
	if e := has["ticket"]; e != nil {
		wantTicket = e.Bytes
	}
	if zh.TicketSupported() != (has["ticket"] != nil) || !bytes.Equal(zh.SessionTicket(), wantTicket) {
		zfail("ticket", fmt.Sprintf("(%v,%x)", zh.TicketSupported(), zh.SessionTicket()), fmt.Sprintf("(%v,%x)", has["ticket"] != nil, wantTicket))
	}
	if zh.OCSPStapling() != (has["status"] != nil) {
		zfail("status", zh.OCSPStapling(), has["status"] != nil)
	}
	if zh.SCTs() != (has["sct"] != nil) {
		zfail("sct", zh.SCTs(), has["sct"] != nil)
	}
	if zh.ExtendedMasterSecret() != (has["ems"] != nil) {
		zfail("ems", zh.ExtendedMasterSecret(), has["ems"] != nil)
	}
	scsv := false
	for _, su := range c.Suites {
		if su == 0x00ff {
			scsv = true
		}
	}
	if zh.SecureRenegotiationSupported() != (has["reneg"] != nil || scsv) || len(zh.SecureRenegotiation()) != 0 {
		zfail("reneg", zh.SecureRenegotiationSupported(), has["reneg"] != nil || scsv)
	}

	// --- classes -------------------------------------------------------------
	n := len(wantList)
	switch {
	case n == 0:
		r.Class("exts=0")
	case n < 3:
		r.Class("exts=1-2")
	case n < 7:
		r.Class("exts=3-6")
	default:
		r.Class("exts=7+")
	}
	for _, e := range exts {
		cl := "ext:" + e.Kind
		if e.Auto {
			cl += "(auto)"
		}
		r.Class(cl)
	}
	r.Class(fmt.Sprintf("sid=%s", map[bool]string{true: "32", false: map[bool]string{true: "0", false: "1-31"}[len(c.SessionID) == 0]}[len(c.SessionID) == 32]))
	if c.ForceSuites {
		r.Class("force-suites")
	}
	if len(c.Suites) >= 128 {
		r.Class("suites>=128")
	}
	if c.SessionCache {
		r.Class("config-session-cache")
	}
	if s.err == nil {
		r.Failf("C29:harness", "handshake against a closing stub returned nil")
	}
	if n >= 3 {
		r.NonTrivial()
	}
}

// ---------------------------------------------------------------------------
// generator

var implementedSuites = tls.VerifC29ImplementedSuites()
var curves = tls.VerifC29DefaultCurves()

func genHost(t *rapid.T, label string) string {
	n := rapid.IntRange(1, 3).Draw(t, label+"-labels")
	var parts []string
	for i := 0; i < n; i++ {
		parts = append(parts, rapid.StringMatching(`[a-z0-9]([a-z0-9-]{0,10}[a-z0-9])?`).Draw(t, label))
	}
	return strings.Join(parts, ".")
}

func genExt(t *rapid.T, kind string) ExtSpec {
	e := ExtSpec{Kind: kind}
	switch kind {
	case "sni":
		e.Auto = rapid.IntRange(0, 3).Draw(t, "sni-auto") == 0
		if !e.Auto {
			e.Names = [][]byte{[]byte(genHost(t, "sni"))}
		}
	case "alpn":
		n := rapid.IntRange(1, 5).Draw(t, "alpn-n")
		for i := 0; i < n; i++ {
			var p []byte
			switch rapid.IntRange(0, 5).Draw(t, "alpn-kind") {
			case 0:
				p = rapid.SliceOfN(rapid.Byte(), 1, 255).Draw(t, "alpn-bytes")
			case 1:
				p = bytes.Repeat([]byte{'x'}, 255)
			default:
				p = []byte(rapid.SampledFrom([]string{"h2", "http/1.1", "spdy/3.1", "h3", "x", "acme-tls/1"}).Draw(t, "alpn-name"))
			}
			e.Names = append(e.Names, p)
		}
	case "curves":
		e.U16 = rapid.SliceOfN(rapid.SampledFrom(curves), 1, 6).Draw(t, "curves")
	case "points":
		e.U8 = make([]uint8, rapid.IntRange(1, 3).Draw(t, "points-n"))
	case "ticket":
		e.Auto = rapid.Bool().Draw(t, "ticket-auto")
		switch rapid.IntRange(0, 9).Draw(t, "ticket-kind") {
		case 0:
		case 1:
			e.Bytes = rapid.SliceOfN(rapid.Byte(), 16000, 17000).Draw(t, "ticket-big") // the hello spans two records
		case 2:
			e.Bytes = rapid.SliceOfN(rapid.Byte(), 255, 257).Draw(t, "ticket-256")
		default:
			e.Bytes = rapid.SliceOfN(rapid.Byte(), 1, 200).Draw(t, "ticket")
		}
	case "sigalgs":
		n := rapid.IntRange(1, 12).Draw(t, "sig-n")
		ecdsa := rapid.IntRange(0, 3).Draw(t, "sig-ecdsa") == 0
		for i := 0; i < n; i++ {
			h := rapid.SampledFrom([]uint16{4, 5, 6, 2, 3, 1}).Draw(t, "sig-hash")
			sigs := []uint16{1, 1, 2}
			if ecdsa {
				sigs = []uint16{1, 2, 3}
			}
			e.U16 = append(e.U16, h<<8|rapid.SampledFrom(sigs).Draw(t, "sig-sig"))
		}
	}
	return e
}

func gen(t *rapid.T) Case {
	c := Case{Compression: []uint8{0}}
	c.Version = rapid.SampledFrom([]uint16{0x0303, 0x0303, 0x0302, 0x0301, 0x0300, 0x0304, 0x0200, 0xfeff}).Draw(t, "version")
	if rapid.IntRange(0, 7).Draw(t, "version-any") == 0 {
		c.Version = rapid.Uint16().Draw(t, "version-raw")
	}
	switch rapid.IntRange(0, 9).Draw(t, "random-kind") {
	case 0, 1, 2, 3:
		c.Random = rapid.SliceOfN(rapid.Byte(), 32, 32).Draw(t, "random")
	case 4:
		c.Random = make([]byte, 32) // explicit all-zero random is a legitimate configuration
	case 5:
		c.Random = rapid.SliceOfN(rapid.Byte(), 1, 31).Draw(t, "random-short") // "otherwise the field will be random"
	case 6:
		c.Random = rapid.SliceOfN(rapid.Byte(), 33, 40).Draw(t, "random-long")
	default:
		c.Random = []byte{}
	}
	c.InsertTimestamp = rapid.Bool().Draw(t, "timestamp")
	switch rapid.IntRange(0, 3).Draw(t, "sid-kind") {
	case 0:
		c.SessionID = []byte{}
	case 1:
		c.SessionID = rapid.SliceOfN(rapid.Byte(), 32, 32).Draw(t, "sid32")
	default:
		c.SessionID = rapid.SliceOfN(rapid.Byte(), 1, 31).Draw(t, "sid")
	}
	c.ForceSuites = rapid.IntRange(0, 2).Draw(t, "force") == 0
	if c.ForceSuites {
		lo, hi := 1, 40
		if rapid.IntRange(0, 9).Draw(t, "suites-many") == 0 {
			lo, hi = 120, 300 // the 2-byte vector length needs its high byte
		}
		c.Suites = rapid.SliceOfN(rapid.OneOf(rapid.Uint16(), rapid.SampledFrom([]uint16{0x00ff, 0x5600, 0x0a0a, 0x1301, 0x1302, 0x1303, 0xc02b, 0x0000, 0xffff})), lo, hi).Draw(t, "suites-any")
	} else {
		c.Suites = rapid.SliceOfN(rapid.SampledFrom(implementedSuites), 1, 24).Draw(t, "suites")
	}
	if rapid.IntRange(0, 2).Draw(t, "has-servername") > 0 {
		c.ServerName = genHost(t, "servername")
	}
	c.DetRand = rapid.IntRange(0, 2).Draw(t, "detrand") == 0
	if c.DetRand {
		c.ShortReads = rapid.SampledFrom([]int{0, 0, 1, 3, 7, 31}).Draw(t, "short-reads")
	}
	c.SessionCache = rapid.IntRange(0, 24).Draw(t, "session-cache") == 0

	kinds := []string{"sni", "alpn", "curves", "points", "ticket", "sigalgs", "status", "sct", "ems", "reneg"}
	perm := rapid.Permutation(kinds).Draw(t, "order")
	var n int
	switch rapid.IntRange(0, 9).Draw(t, "ext-count-kind") {
	case 0:
		n = 0
	case 1:
		n = rapid.IntRange(1, 2).Draw(t, "ext-count-small")
	case 2:
		n = len(kinds)
	default:
		n = rapid.IntRange(3, len(kinds)).Draw(t, "ext-count")
	}
	for _, k := range perm[:n] {
		if rapid.IntRange(0, 5).Draw(t, "null-before") == 0 {
			c.Exts = append(c.Exts, ExtSpec{Kind: "null"})
		}
		c.Exts = append(c.Exts, genExt(t, k))
	}
	if rapid.IntRange(0, 5).Draw(t, "null-last") == 0 {
		c.Exts = append(c.Exts, ExtSpec{Kind: "null"})
	}
	return c
}

const rule = "fingerprint configurations: handshake version (TLS/SSL/DTLS code points and raw uint16), client random explicit (32 bytes) / absent / wrong length, with and without InsertTimestamp, session id 0..32 bytes, 1..24 implemented suites or 1..40 (occasionally 120..300) arbitrary ids with ForceSuites (incl. SCSV, GREASE, TLS 1.3 ids), compression [0], and a random-order subset of all ten built-in extension types (each at most once, NullExtension interspersed) with random contents: SNI with one host name or Autopopulate from Config.ServerName, ALPN 1..5 protocols of 1..255 arbitrary bytes, 1..6 curves, 1..3 point formats, tickets of 0..17000 bytes (a hello spanning two records included), 1..12 signature algorithms {rsa,dsa,ecdsa} x {md5..sha512}; Config.Rand nil or a deterministic stream (half of the time returning at most 1, 3, 7 or 31 bytes per Read); occasionally Config.ClientSessionCache set. Non-trivial: at least 3 extensions reach the wire; distinct by case hash"

var assumptions = []string{
	"SNIExtension carries exactly one host name without trailing dot (RFC 6066 allows one name per name_type; the encoder has no per-entry type byte); with Autopopulate the Domains list is left empty and the name comes from Config.ServerName",
	"each built-in extension type occurs at most once per fingerprint (RFC 5246 7.4.1.4: no two extensions of the same type); list-valued extensions are non-empty as their RFC lower bounds require",
	"compression methods = [0] (the only value marshal accepts); session id at most 32 bytes; at least one cipher suite",
	"InsertTimestamp: the prefix is accepted if it is within 120 s of the wall clock (the code reads time.Now()) or of Config.Time",
	"an empty extension list may be sent as an absent or an empty extensions block",
}

func sample(c Case) any {
	for i := range c.Exts {
		if len(c.Exts[i].Bytes) > 64 {
			c.Exts = append([]ExtSpec{}, c.Exts...)
			c.Exts[i].Bytes = c.Exts[i].Bytes[:64]
		}
	}
	return c
}

func TestPropFingerprint(t *testing.T) {
	kit.Run(t, kit.Spec[Case]{ID: "C29", Name: "fingerprint", Rule: rule, Gen: gen, Check: check,
		Quick: 6000, Thorough: 100000, Assumptions: assumptions, Sample: sample})
}

var _ = io.EOF
