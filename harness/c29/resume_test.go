package c29

import (
	"bytes"
	"fmt"
	"net"
	"testing"
	"time"

	"github.com/zmap/zcrypto/tls"
	"pgregory.net/rapid"
	"verifharness/keys"
	"verifharness/kit"
	"verifharness/tlskit"
	"verifharness/tlswire"
)

// Sub-check "resume": the documented dynamic parts of a fingerprint -
// SessionTicketExtension.Autopopulate with ClientFingerprintConfiguration.
// SessionCache/CacheKey and RandomSessionID.  A real zcrypto<->zcrypto TLS <=1.2
// handshake first puts a session into the cache; the ticket the server issued
// is read off the wire by the harness' own parser (NewSessionTicket message).

type ResumeCase struct {
	Key        string    `json:"key"`         // server key (pool name)
	Suite      uint16    `json:"suite"`       // suite of the first handshake
	Version    uint16    `json:"version"`     // version of the first handshake
	Mode       string    `json:"mode"`        // "usable" | "suite-not-offered" | "empty-cache" | "no-autopopulate"
	RandomSID  int       `json:"random_sid"`  // RandomSessionID
	SessionID  []byte    `json:"session_id"`  // configured SessionID
	Ticket     []byte    `json:"ticket"`      // configured SessionTicketExtension.Ticket
	Before     []ExtSpec `json:"before"`      // extensions before the ticket extension
	After      []ExtSpec `json:"after"`       // extensions after it
	Others     []uint16  `json:"others"`      // further implemented suites offered by the fingerprint
	SuiteFirst bool      `json:"suite_first"` // session suite first or last in the fingerprint's list
}

type mapCache struct {
	m map[string]*tls.ClientSessionState
}

func (c *mapCache) Get(k string) (*tls.ClientSessionState, bool) { s, ok := c.m[k]; return s, ok }
func (c *mapCache) Put(k string, s *tls.ClientSessionState)      { c.m[k] = s }

type fixedKey string

func (k fixedKey) Key(net.Addr) string { return string(k) }

func checkResume(c ResumeCase, r *kit.R) {
	id := tlskit.NewIdentity(keys.ByName(c.Key), "example.test")
	cache := &mapCache{m: map[string]*tls.ClientSessionState{}}
	var issued []byte
	if c.Mode != "empty-cache" {
		p := tlskit.NewProxy(nil)
		cli := tls.Client(p.Client, &tls.Config{Time: tlskit.Now, RootCAs: id.Roots, ServerName: "example.test",
			MinVersion: c.Version, MaxVersion: c.Version, CipherSuites: []uint16{c.Suite}, ClientSessionCache: cache})
		srv := tls.Server(p.Server, &tls.Config{Time: tlskit.Now, Certificates: []tls.Certificate{id.Cert},
			MinVersion: c.Version, MaxVersion: c.Version, CipherSuites: []uint16{c.Suite}})
		res := tlskit.Handshake(cli, srv, 10*time.Second)
		cli.Close()
		srv.Close()
		if res.ClientErr != nil || res.ServerErr != nil || res.TimedOut {
			r.Class("first-handshake-failed")
			r.Skip() // interoperability is C24's business
		}
		var recs []tlswire.Record
		for _, rec := range p.T.Records(tlskit.ServerToClient) {
			pr, err := tlswire.ParseRecord(rec.Raw)
			if err != nil {
				r.Failf("C29:harness", "server flight: %v", err)
			}
			recs = append(recs, pr)
		}
		fl, err := tlswire.Reassemble(recs)
		if err != nil {
			r.Failf("C29:harness", "server flight: %v", err)
		}
		nst := fl.Find(tlswire.HsNewSessionTicket)
		if nst == nil {
			r.Failf("C29:harness", "server sent no NewSessionTicket")
		}
		t, err := tlswire.ParseNewSessionTicket(nst.Body)
		if err != nil || len(t.Ticket) == 0 {
			r.Failf("C29:harness", "NewSessionTicket: %v", err)
		}
		issued = t.Ticket
		if len(cache.m) != 1 {
			r.Failf("C29:harness", "client session cache holds %d entries", len(cache.m))
		}
		for k, v := range cache.m { // move the session under the fingerprint's cache key
			delete(cache.m, k)
			cache.m["fp-key"] = v
		}
	}

	suites := append([]uint16{}, c.Others...)
	if c.Mode != "suite-not-offered" {
		if c.SuiteFirst {
			suites = append([]uint16{c.Suite}, suites...)
		} else {
			suites = append(suites, c.Suite)
		}
	} else {
		var f []uint16
		for _, s := range suites {
			if s != c.Suite {
				f = append(f, s)
			}
		}
		suites = f
		if len(suites) == 0 {
			suites = []uint16{0x002f}
			if c.Suite == 0x002f {
				suites = []uint16{0x0035}
			}
		}
	}
	auto := c.Mode != "no-autopopulate"
	exts := append([]ExtSpec{}, c.Before...)
	exts = append(exts, ExtSpec{Kind: "ticket", Bytes: c.Ticket, Auto: auto})
	exts = append(exts, c.After...)
	base := Case{Version: 0x0303, Random: bytes.Repeat([]byte{7}, 32), SessionID: c.SessionID, Suites: suites, Compression: []uint8{0}, ServerName: "example.test"}
	fp := base.fingerprint(exts)
	fp.RandomSessionID = c.RandomSID
	fp.SessionCache = cache
	fp.CacheKey = fixedKey("fp-key")
	s := send(r, base.config(fp))
	_, ch := parseHello(r, s)

	wantTicket := c.Ticket
	resuming := c.Mode == "usable"
	if resuming {
		wantTicket = issued
	}
	var want []byte
	for _, e := range exts {
		if e.Kind == "ticket" {
			want = append(want, tlswire.EncSessionTicket(wantTicket)...)
		} else {
			want = append(want, e.expected(base.ServerName)...)
		}
	}
	if !bytes.Equal(ch.ExtBlock, want) {
		got, _ := ch.Ext(tlswire.ExtSessionTicket)
		r.Failf("C29:resume-ticket", "mode %s: extension block differs; session_ticket on the wire %x, expected %x (ticket issued by the server: %x, configured: %x)", c.Mode, got, wantTicket, issued, c.Ticket)
	}
	if resuming && c.RandomSID > 0 {
		if len(ch.SessionID) != c.RandomSID {
			r.Failf("C29:resume-session-id", "RandomSessionID=%d but the session id on the wire has %d bytes: %x", c.RandomSID, len(ch.SessionID), ch.SessionID)
		}
		if c.RandomSID >= 8 && bytes.Equal(ch.SessionID, make([]byte, len(ch.SessionID))) { // 2^-64 for honest randomness
			r.Failf("C29:resume-session-id", "RandomSessionID=%d: session id on the wire is all zero", c.RandomSID)
		}
		if c.RandomSID >= 8 && bytes.Equal(ch.SessionID, c.SessionID) {
			r.Failf("C29:resume-session-id", "RandomSessionID=%d: session id on the wire is the configured one, not random", c.RandomSID)
		}
	} else if !bytes.Equal(ch.SessionID, c.SessionID) {
		r.Failf("C29:resume-session-id", "mode %s RandomSessionID=%d: session id on the wire %x, configured %x", c.Mode, c.RandomSID, ch.SessionID, c.SessionID)
	}
	if !u16eq(ch.CipherSuites, suites) || ch.Version != 0x0303 || !bytes.Equal(ch.Random, base.Random) {
		r.Failf("C29:resume-fields", "fixed fields changed: version %04x suites %04x random %x", ch.Version, ch.CipherSuites, ch.Random)
	}
	r.Class("mode=" + c.Mode)
	r.Class(fmt.Sprintf("first-version=%04x", c.Version))
	if c.RandomSID > 0 {
		r.Class("random-session-id")
	}
	if resuming || c.Mode == "suite-not-offered" {
		r.NonTrivial()
	}
}

type firstHS struct {
	key   string
	suite uint16
}

// suites negotiable at TLS 1.0..1.2 with the given key type (DESIGN appendix A.1)
var firstHandshakes = []firstHS{
	{"ecP-256-0", 0xc009}, {"ecP-256-0", 0xc00a}, {"ecP-256-1", 0xc009},
	{"rsa2048-p2-1", 0x002f}, {"rsa2048-p2-1", 0x0035}, {"rsa2048-p2-1", 0xc013}, {"rsa2048-p2-1", 0xc014}, {"rsa2048-p2-1", 0x000a},
}
var firstHandshakes12 = []firstHS{
	{"ecP-256-0", 0xc02b}, {"ecP-256-0", 0xc02c}, {"ecP-256-0", 0xcca9}, {"ecP-384-0", 0xc02b},
	{"rsa2048-p2-1", 0xc02f}, {"rsa2048-p2-1", 0x009c}, {"rsa2048-p2-1", 0xcca8}, {"rsa2048-p2-1", 0x003c},
}

func genResume(t *rapid.T) ResumeCase {
	c := ResumeCase{}
	c.Version = rapid.SampledFrom([]uint16{0x0303, 0x0303, 0x0302, 0x0301}).Draw(t, "version")
	pool := firstHandshakes
	if c.Version == 0x0303 && rapid.Bool().Draw(t, "tls12-suite") {
		pool = firstHandshakes12
	}
	f := rapid.SampledFrom(pool).Draw(t, "first")
	c.Key, c.Suite = f.key, f.suite
	c.Mode = rapid.SampledFrom([]string{"usable", "usable", "usable", "suite-not-offered", "empty-cache", "no-autopopulate"}).Draw(t, "mode")
	c.RandomSID = rapid.SampledFrom([]int{0, 32, 32, 16, 1, 8, 31}).Draw(t, "random-sid")
	c.SessionID = rapid.SliceOfN(rapid.Byte(), 0, 32).Draw(t, "sid")
	c.Ticket = rapid.SliceOfN(rapid.Byte(), 0, 40).Draw(t, "ticket")
	c.Others = rapid.SliceOfN(rapid.SampledFrom(implementedSuites), 0, 6).Draw(t, "others")
	c.SuiteFirst = rapid.Bool().Draw(t, "suite-first")
	kinds := rapid.Permutation([]string{"sni", "alpn", "curves", "points", "sigalgs", "status", "sct", "ems", "reneg"}).Draw(t, "order")
	nb := rapid.IntRange(0, 3).Draw(t, "n-before")
	na := rapid.IntRange(0, 3).Draw(t, "n-after")
	for _, k := range kinds[:nb] {
		c.Before = append(c.Before, genPlainExt(t, k))
	}
	for _, k := range kinds[nb : nb+na] {
		c.After = append(c.After, genPlainExt(t, k))
	}
	return c
}

// genPlainExt: like genExt but without the ECDSA code points (known finding of the main sub-check).
func genPlainExt(t *rapid.T, kind string) ExtSpec {
	e := genExt(t, kind)
	if kind == "sigalgs" {
		for i := range e.U16 {
			if e.U16[i]&0xff == 3 {
				e.U16[i] = e.U16[i]&0xff00 | 1
			}
		}
	}
	return e
}

func TestPropResume(t *testing.T) {
	kit.Run(t, kit.Spec[ResumeCase]{ID: "C29", Name: "resume", Gen: genResume, Check: checkResume,
		Rule:  "fingerprints with SessionCache/CacheKey, a SessionTicketExtension (Autopopulate on/off, configured ticket 0..40 bytes) between 0..3 other extensions on either side, RandomSessionID in {0,1,8,16,31,32} and a configured SessionID, after a real zcrypto TLS 1.0-1.2 handshake (RSA/ECDSA keys, 16 suites) stored a session; modes: cached session usable (its suite offered), its suite not offered, empty cache, Autopopulate off. Expected: the ticket issued by the server (read off the wire) iff the session is usable and Autopopulate is on, else the configured ticket; session id = RandomSessionID fresh bytes only when resuming. Non-trivial: a session is in the cache and Autopopulate is on; distinct by case hash",
		Quick: 250, Thorough: 6000,
		Assumptions: []string{"resumption candidates are only generated where usability is unambiguous: HandshakeVersion 0x0303 >= session version, session suite either offered or not offered"}})
}
