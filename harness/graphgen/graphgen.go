// Package graphgen generates small certificate universes for the PKI-graph
// properties (C10 graph construction, C11 chain walking, C12 Verifier).
//
// A universe is 3..9 certificate descriptions over a handful of subject names
// and a palette of 4 pool keys.  The generator is biased towards the shapes the
// properties quantify over: chains, cross-signs, self-issued key roll-overs,
// dangling issuers, same-subject/different-key CAs, duplicates, and (through an
// RSA SPKI re-encoded without the NULL parameters) two distinct nodes that
// hold the same key.  Certificates are issued with the pki helpers from pool
// keys; the DER of every description is cached for the life of the process, so
// a description always denotes the same certificate within one run.
//
// Everything an oracle needs about a certificate (fingerprint, raw names, SPKI,
// TBS, signature) is extracted here with the zcrypto-independent der reader,
// and signature validity is decided with the Go standard library only.
package graphgen

import (
	"crypto"
	"crypto/ecdsa"
	"crypto/ed25519"
	stdrsa "crypto/rsa"
	"crypto/sha256"
	"crypto/sha512"
	"encoding/json"
	"fmt"
	"math/big"
	"sync"

	"github.com/zmap/zcrypto/x509"
	"github.com/zmap/zcrypto/x509/pkix"
	"pgregory.net/rapid"
	"verifharness/der"
	"verifharness/keys"
	"verifharness/pki"
)

// PaletteNames are the pool keys behind palette indices 0..3.
var PaletteNames = []string{"rsa1024-p2-0", "ecP-256-0", "ed25519-0", "rsa1024-p2-1"}

// NKeys is the palette size.
const NKeys = 4

// Key returns palette key i.
func Key(i int) *keys.Key {
	k := keys.ByName(PaletteNames[i])
	if k == nil {
		panic("graphgen: pool key missing: " + PaletteNames[i])
	}
	return k
}

// Name is the common name of subject index i.
func Name(i int) string { return fmt.Sprintf("N%d", i) }

// Instants are the validity boundaries (seconds relative to pki.Epoch) that
// NB/NA index into.
var Instants = []int64{-3000, -2000, -1000, 1000, 2000, 3000}

// Cert describes one certificate of a universe.
type Cert struct {
	Subj    int      `json:"subj"`          // subject name index
	Key     int      `json:"key"`           // palette index of the subject key
	Alt     bool     `json:"alt,omitempty"` // RSA SPKI without NULL parameters (same key, different SPKI bytes)
	Iss     int      `json:"iss"`           // issuer name index
	Sign    int      `json:"sign"`          // palette index of the signing key
	CA      bool     `json:"ca"`
	BC      bool     `json:"bc,omitempty"` // basicConstraintsValid for a non-CA
	MaxPath int      `json:"max_path"`     // -1 = unset
	NB      int      `json:"nb"`           // index into Instants
	NA      int      `json:"na"`
	Serial  int64    `json:"serial"`
	DNS     []string `json:"dns,omitempty"`
}

// Universe is a list of certificate descriptions (duplicates allowed).
type Universe struct {
	Certs []Cert `json:"certs"`
}

// Opts steers Gen.
type Opts struct {
	Min, Max int  // number of certificates (default 3..9)
	Names    int  // number of subject names (default 4); issuer index Names is a name no certificate has
	Times    bool // vary validity windows (otherwise every certificate is valid over all Instants)
	DNS      bool // give some certificates DNS names
	NoAlt    bool // never re-encode an SPKI
}

func (o *Opts) norm() {
	if o.Min == 0 {
		o.Min = 3
	}
	if o.Max == 0 {
		o.Max = 9
	}
	if o.Names == 0 {
		o.Names = 4
	}
}

// DNSPool are the names certificates may carry.
var DNSPool = []string{"a.test", "b.test", "*.w.test", "N0", "n1"}

func isRSA(k int) bool { return Key(k).Kind == "rsa" }

// Gen draws a universe.
func Gen(t *rapid.T, o Opts) Universe {
	o.norm()
	n := rapid.IntRange(o.Min, o.Max).Draw(t, "ncerts")
	var u Universe
	prefKey := func(name int) int { return name % NKeys }
	drawKeyFor := func(name int, label string) int {
		if rapid.IntRange(0, 3).Draw(t, label+"-pref") != 3 {
			return prefKey(name)
		}
		return rapid.IntRange(0, NKeys-1).Draw(t, label)
	}
	for i := 0; i < n; i++ {
		var c Cert
		kind := 0
		if len(u.Certs) == 0 {
			kind = rapid.SampledFrom([]int{0, 0, 2}).Draw(t, "kind0")
		} else {
			kind = rapid.SampledFrom([]int{0, 1, 1, 1, 1, 2, 2, 3, 3, 4, 4, 5}).Draw(t, "kind")
		}
		pick := func(label string) Cert {
			return u.Certs[rapid.IntRange(0, len(u.Certs)-1).Draw(t, label)]
		}
		c.MaxPath = -1
		switch kind {
		case 0: // self-signed
			c.Subj = rapid.IntRange(0, o.Names-1).Draw(t, "subj")
			c.Key = drawKeyFor(c.Subj, "key")
			c.Iss, c.Sign = c.Subj, c.Key
		case 1: // issued by an existing (subject, key)
			p := pick("parent")
			c.Iss, c.Sign = p.Subj, p.Key
			c.Subj = rapid.IntRange(0, o.Names-1).Draw(t, "subj")
			c.Key = drawKeyFor(c.Subj, "key")
		case 2: // issuer drawn blindly: usually dangling, later-arriving or a wrong key
			c.Subj = rapid.IntRange(0, o.Names-1).Draw(t, "subj")
			c.Key = drawKeyFor(c.Subj, "key")
			c.Iss = rapid.IntRange(0, o.Names).Draw(t, "iss")
			if c.Iss == o.Names {
				c.Sign = rapid.IntRange(0, NKeys-1).Draw(t, "sign")
			} else {
				c.Sign = drawKeyFor(c.Iss, "sign")
			}
		case 3: // cross-sign / re-issue of an existing (subject, key)
			s := pick("same")
			c.Subj, c.Key, c.Alt = s.Subj, s.Key, s.Alt
			p := pick("parent")
			c.Iss, c.Sign = p.Subj, p.Key
		case 4: // self-issued key roll-over: same name, other key
			s := pick("old")
			c.Subj, c.Iss = s.Subj, s.Subj
			other := (s.Key + 1 + rapid.IntRange(0, NKeys-2).Draw(t, "newkey")) % NKeys
			if rapid.Bool().Draw(t, "new-signed-by-old") {
				c.Key, c.Sign = other, s.Key
			} else {
				c.Key, c.Sign = s.Key, other
			}
		case 5: // duplicate
			c = pick("dup")
			u.Certs = append(u.Certs, c)
			continue
		}
		if kind != 3 && !o.NoAlt && isRSA(c.Key) && rapid.IntRange(0, 5).Draw(t, "alt") == 5 {
			c.Alt = true
		}
		c.CA = rapid.IntRange(0, 5).Draw(t, "ca") != 5
		if !c.CA {
			c.BC = rapid.Bool().Draw(t, "bc")
		} else {
			c.MaxPath = rapid.SampledFrom([]int{-1, -1, -1, -1, 0, 1, 2}).Draw(t, "maxpath")
		}
		c.NB, c.NA = 0, len(Instants)-1
		if o.Times && rapid.IntRange(0, 2).Draw(t, "window") != 0 {
			c.NB = rapid.IntRange(0, len(Instants)-2).Draw(t, "nb")
			c.NA = rapid.IntRange(c.NB+1, len(Instants)-1).Draw(t, "na")
		}
		c.Serial = int64(rapid.IntRange(1, 3).Draw(t, "serial"))
		if o.DNS && rapid.IntRange(0, 2).Draw(t, "has-dns") == 0 {
			k := rapid.IntRange(1, 2).Draw(t, "ndns")
			for j := 0; j < k; j++ {
				c.DNS = append(c.DNS, rapid.SampledFrom(DNSPool).Draw(t, "dns"))
			}
		}
		u.Certs = append(u.Certs, c)
	}
	return u
}

// Chain returns a linear universe: self-signed N0 and then n-1 CAs, each issued
// by the previous one (names N0..N(n-1), key = name mod 4).  Depth stress for
// the walk.
func Chain(n int) Universe {
	var u Universe
	for i := 0; i < n; i++ {
		c := Cert{Subj: i, Key: i % NKeys, CA: true, MaxPath: -1, NB: 0, NA: len(Instants) - 1, Serial: 1}
		if i == 0 {
			c.Iss, c.Sign = 0, 0
		} else {
			c.Iss, c.Sign = i-1, (i-1)%NKeys
		}
		u.Certs = append(u.Certs, c)
	}
	return u
}

// ---------------------------------------------------------------------------
// Issuing (cached) and independent extraction.

// Info is what the oracles know about an issued certificate; everything is
// extracted with package der / the standard library, not with zcrypto.
type Info struct {
	DER        []byte
	FP         [32]byte // SHA-256 of DER
	TBS        []byte
	RawSubject []byte
	RawIssuer  []byte
	SPKI       []byte
	Serial     *big.Int
	SigAlg     []byte // AlgorithmIdentifier (outer), full TLV
	Sig        []byte
}

// NodeID identifies a (subject, SPKI) pair.
func (in *Info) NodeID() string { return string(in.RawSubject) + "|" + string(in.SPKI) }

// NodeFP is SHA-256(SPKI || subject), zcrypto's SPKISubjectFingerprint.
func (in *Info) NodeFP() []byte {
	h := sha256.New()
	h.Write(in.SPKI)
	h.Write(in.RawSubject)
	return h.Sum(nil)
}

var (
	mu    sync.Mutex
	cache = map[string]*Info{}
	vmemo = map[string]bool{}
)

func parent(iss int) *x509.Certificate {
	return &x509.Certificate{Subject: pkix.Name{CommonName: Name(iss)}}
}

// altSPKI drops the NULL parameters of an rsaEncryption SPKI.
func altSPKI(spki []byte) []byte {
	t, _, err := der.Parse(spki)
	if err != nil {
		panic(err)
	}
	ch, err := der.Children(t.Body)
	if err != nil || len(ch) != 2 {
		panic("graphgen: bad spki")
	}
	alg, err := der.Children(ch[0].Body)
	if err != nil || len(alg) != 2 {
		panic("graphgen: rsa spki without parameters?")
	}
	return der.Seq(der.Seq(alg[0].Full), ch[1].Full)
}

func extract(d []byte) *Info {
	in := &Info{DER: d, FP: sha256.Sum256(d)}
	top, rest, err := der.Parse(d)
	if err != nil || len(rest) != 0 {
		panic("graphgen: bad certificate DER")
	}
	ch, err := der.Children(top.Body)
	if err != nil || len(ch) != 3 {
		panic("graphgen: bad certificate structure")
	}
	in.TBS = ch[0].Full
	in.SigAlg = ch[1].Full
	in.Sig = ch[2].Body[1:]
	f, err := der.Children(ch[0].Body)
	if err != nil {
		panic(err)
	}
	i := 0
	if f[0].Class == 2 && f[0].Tag == 0 {
		i = 1
	}
	in.Serial = new(big.Int).SetBytes(f[i].Body) // generated serials are positive
	in.RawIssuer = f[i+2].Full
	in.RawSubject = f[i+4].Full
	in.SPKI = f[i+5].Full
	return in
}

// Build issues (or fetches from the cache) the certificate of a description.
func (c Cert) Build() *Info {
	if c.Alt && !isRSA(c.Key) {
		c.Alt = false
	}
	kb, _ := json.Marshal(c)
	ks := string(kb)
	mu.Lock()
	defer mu.Unlock()
	if in, ok := cache[ks]; ok {
		return in
	}
	sp := pki.Spec{CN: Name(c.Subj), Key: Key(c.Key).Index, Serial: c.Serial, CA: c.CA, BCValid: c.BC, MaxPathLen: c.MaxPath,
		NotBefore: Instants[c.NB], NotAfter: Instants[c.NA], DNS: c.DNS}
	tmpl := sp.Template()
	if !c.CA {
		tmpl.MaxPathLen = -1
		tmpl.MaxPathLenZero = false
	}
	z := pki.MustIssue(tmpl, parent(c.Iss), Key(c.Key), Key(c.Sign))
	d := z.Raw
	if c.Alt {
		in := extract(d)
		tt, _, _ := der.Parse(in.TBS)
		f, _ := der.Children(tt.Body)
		var parts [][]byte
		for _, e := range f {
			if string(e.Full) == string(in.SPKI) {
				parts = append(parts, altSPKI(in.SPKI))
			} else {
				parts = append(parts, e.Full)
			}
		}
		d = pki.ResignTBS(der.Seq(parts...), Key(c.Sign))
	}
	in := extract(d)
	cache[ks] = in
	return in
}

// Parse returns a fresh zcrypto parse of the certificate (never shared between
// cases: the graph keeps the pointer and the walk writes ValidSignature).
func (in *Info) Parse() *x509.Certificate {
	z, err := x509.ParseCertificate(in.DER)
	if err != nil {
		panic(fmt.Sprintf("graphgen: generated certificate does not parse: %v", err))
	}
	return z
}

var (
	oidSHA256RSA   = string(der.OID(1, 2, 840, 113549, 1, 1, 11))
	oidSHA384RSA   = string(der.OID(1, 2, 840, 113549, 1, 1, 12))
	oidSHA512RSA   = string(der.OID(1, 2, 840, 113549, 1, 1, 13))
	oidECDSASHA256 = string(der.OID(1, 2, 840, 10045, 4, 3, 2))
	oidECDSASHA384 = string(der.OID(1, 2, 840, 10045, 4, 3, 3))
	oidECDSASHA512 = string(der.OID(1, 2, 840, 10045, 4, 3, 4))
	oidEd25519     = string(der.OID(1, 3, 101, 112))
)

func digest(h crypto.Hash, msg []byte) []byte {
	switch h {
	case crypto.SHA256:
		d := sha256.Sum256(msg)
		return d[:]
	case crypto.SHA384:
		d := sha512.Sum384(msg)
		return d[:]
	case crypto.SHA512:
		d := sha512.Sum512(msg)
		return d[:]
	}
	panic("graphgen: hash")
}

// Verifies decides with the standard library whether palette key k verifies
// the certificate's signature (memoised).
func Verifies(in *Info, k int) bool {
	mk := string(in.FP[:]) + string(rune('0'+k))
	mu.Lock()
	v, ok := vmemo[mk]
	mu.Unlock()
	if ok {
		return v
	}
	v = verifyStd(in, Key(k))
	mu.Lock()
	vmemo[mk] = v
	mu.Unlock()
	return v
}

func verifyStd(in *Info, k *keys.Key) bool {
	a, _, err := der.Parse(in.SigAlg)
	if err != nil {
		return false
	}
	ach, err := der.Children(a.Body)
	if err != nil || len(ach) == 0 {
		return false
	}
	oid := string(ach[0].Full)
	switch k.Kind {
	case "rsa":
		var h crypto.Hash
		switch oid {
		case oidSHA256RSA:
			h = crypto.SHA256
		case oidSHA384RSA:
			h = crypto.SHA384
		case oidSHA512RSA:
			h = crypto.SHA512
		default:
			return false
		}
		return stdrsa.VerifyPKCS1v15(k.StdPub.(*stdrsa.PublicKey), h, digest(h, in.TBS), in.Sig) == nil
	case "ec":
		var h crypto.Hash
		switch oid {
		case oidECDSASHA256:
			h = crypto.SHA256
		case oidECDSASHA384:
			h = crypto.SHA384
		case oidECDSASHA512:
			h = crypto.SHA512
		default:
			return false
		}
		return ecdsa.VerifyASN1(k.StdPub.(*ecdsa.PublicKey), digest(h, in.TBS), in.Sig)
	case "ed25519":
		if oid != oidEd25519 {
			return false
		}
		return ed25519.Verify(k.StdPub.(ed25519.PublicKey), in.TBS, in.Sig)
	}
	return false
}

// ---------------------------------------------------------------------------
// Shape classification (for evidence histograms).

// Features names the shapes present in a universe.
func Features(u Universe) []string {
	type nk struct {
		s, k int
		a    bool
	}
	nodes := map[nk]bool{}
	byName := map[int]map[int]bool{}
	for _, c := range u.Certs {
		nodes[nk{c.Subj, c.Key, c.Alt && isRSA(c.Key)}] = true
		if byName[c.Subj] == nil {
			byName[c.Subj] = map[int]bool{}
		}
		byName[c.Subj][c.Key] = true
	}
	hasNode := func(s, k int) bool { return nodes[nk{s, k, false}] || nodes[nk{s, k, true}] }
	f := map[string]bool{}
	issuersOf := map[nk]map[[2]int]bool{}
	seen := map[string]bool{}
	for _, c := range u.Certs {
		b, _ := json.Marshal(c)
		if seen[string(b)] {
			f["duplicate"] = true
		}
		seen[string(b)] = true
		self := c.Subj == c.Iss && c.Key == c.Sign
		switch {
		case self:
			f["self-signed"] = true
		case c.Subj == c.Iss:
			f["self-issued-rollover"] = true
		}
		if !hasNode(c.Iss, c.Sign) {
			f["dangling-issuer"] = true
		} else if !self {
			// depth >= 2 when the issuer itself has a non-self issuer present
			for _, p := range u.Certs {
				if p.Subj == c.Iss && p.Key == c.Sign && !(p.Subj == p.Iss && p.Key == p.Sign) && hasNode(p.Iss, p.Sign) {
					f["chain-depth>=3"] = true
				}
			}
			f["chain-depth>=2"] = true
		}
		if nodes[nk{c.Iss, c.Sign, false}] && nodes[nk{c.Iss, c.Sign, true}] {
			f["two-nodes-verify"] = true
		}
		n := nk{c.Subj, c.Key, c.Alt && isRSA(c.Key)}
		if issuersOf[n] == nil {
			issuersOf[n] = map[[2]int]bool{}
		}
		issuersOf[n][[2]int{c.Iss, c.Sign}] = true
		if c.Alt && isRSA(c.Key) {
			f["alt-spki"] = true
		}
	}
	for _, m := range issuersOf {
		if len(m) >= 2 {
			f["cross-sign"] = true
		}
	}
	for _, m := range byName {
		if len(m) >= 2 {
			f["same-subject-different-key"] = true
		}
	}
	var out []string
	for _, k := range []string{"self-signed", "chain-depth>=2", "chain-depth>=3", "cross-sign", "self-issued-rollover", "dangling-issuer", "same-subject-different-key", "alt-spki", "two-nodes-verify", "duplicate"} {
		if f[k] {
			out = append(out, k)
		}
	}
	return out
}

// ---------------------------------------------------------------------------
// Insertion plans (shared by C11 and C12; C10 generates its own histories).

// Op inserts universe certificate Cert with AddCert (Root=false) or AddRoot.
type Op struct {
	Cert int  `json:"cert"`
	Root bool `json:"root"`
}

// GenOps draws an insertion plan: most certificates once (a few are left out
// so that "start certificate not in the graph" occurs), self-signed ones are
// likely roots, any certificate may be a root, in a random order.
func GenOps(t *rapid.T, u Universe) []Op {
	var ops []Op
	for i, c := range u.Certs {
		if rapid.IntRange(0, 7).Draw(t, "omit") == 7 {
			continue
		}
		self := c.Subj == c.Iss && c.Key == c.Sign
		root := false
		if self {
			root = rapid.IntRange(0, 3).Draw(t, "selfroot") != 0
		} else {
			root = rapid.IntRange(0, 5).Draw(t, "root") == 0
		}
		ops = append(ops, Op{Cert: i, Root: root})
	}
	if len(ops) > 1 {
		ops = rapid.Permutation(ops).Draw(t, "order")
	}
	return ops
}

// RawName is the DER RDNSequence of subject name i (as CreateCertificate encodes it).
func RawName(i int) []byte {
	return Cert{Subj: i, Key: 0, Iss: i, Sign: 0, CA: true, MaxPath: -1, NB: 0, NA: len(Instants) - 1, Serial: 1}.Build().RawSubject
}

// SPKIOf is the SubjectPublicKeyInfo DER of palette key k as certificates carry
// it (alt: the RSA encoding without NULL parameters; ignored for non-RSA keys).
func SPKIOf(k int, alt bool) []byte {
	return Cert{Subj: 0, Key: k, Alt: alt && isRSA(k), Iss: 0, Sign: k, CA: true, MaxPath: -1, NB: 0, NA: len(Instants) - 1, Serial: 1}.Build().SPKI
}
