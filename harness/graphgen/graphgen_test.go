package graphgen

import (
	"testing"

	"pgregory.net/rapid"
)

// Self-test of the generator: every description issues, parses, and verifies
// (std) under exactly its signing key among the palette.
func TestGenSelf(t *testing.T) {
	rapid.Check(t, func(rt *rapid.T) {
		u := Gen(rt, Opts{Times: true, DNS: true})
		if len(u.Certs) < 3 || len(u.Certs) > 9 {
			rt.Fatalf("size %d", len(u.Certs))
		}
		for _, c := range u.Certs {
			in := c.Build()
			z := in.Parse()
			if string(z.RawSubject) != string(in.RawSubject) || string(z.RawIssuer) != string(in.RawIssuer) ||
				string(z.RawSubjectPublicKeyInfo) != string(in.SPKI) || z.SerialNumber.Cmp(in.Serial) != 0 ||
				string(z.RawTBSCertificate) != string(in.TBS) || string(z.Signature) != string(in.Sig) {
				rt.Fatalf("extraction disagrees with zcrypto parse for %+v", c)
			}
			for k := 0; k < NKeys; k++ {
				if Verifies(in, k) != (k == c.Sign) {
					rt.Fatalf("cert %+v: Verifies(key %d) = %v", c, k, Verifies(in, k))
				}
			}
			if z.IsCA != c.CA || z.Subject.CommonName != Name(c.Subj) || z.Issuer.CommonName != Name(c.Iss) {
				rt.Fatalf("cert %+v issued wrongly", c)
			}
		}
	})
}

func TestChain(t *testing.T) {
	u := Chain(11)
	for i, c := range u.Certs {
		in := c.Build()
		if i > 0 && string(in.RawIssuer) != string(u.Certs[i-1].Build().RawSubject) {
			t.Fatalf("chain link %d", i)
		}
	}
}
