package c03

import (
	"bytes"
	"crypto"
	stddsa "crypto/dsa"
	"crypto/ecdsa"
	"crypto/ed25519"
	"crypto/rand"
	stdrsa "crypto/rsa"
	"fmt"
	"math/big"
	"testing"
	"time"

	zrsa "github.com/zmap/zcrypto/rsa"
	"github.com/zmap/zcrypto/x509"
	"github.com/zmap/zcrypto/x509/pkix"
	"github.com/zmap/zcrypto/x509/revocation/ocsp"
	"pgregory.net/rapid"
	"verifharness/certgen"
	"verifharness/der"
	"verifharness/keys"
	"verifharness/kit"
	"verifharness/pki"
)

// ---------------------------------------------------------------------------
// the independent side: algorithm table, std signing, std verification

// algOf maps the API's SignatureAlgorithm constants to (key type, hash, pss)
// (RFC 3279 / 4055 / 5758 / 8410); ok=false: no signature can be valid under it.
func algOf(a x509.SignatureAlgorithm) (certgen.StdAlg, bool) {
	switch a {
	case x509.MD5WithRSA:
		return certgen.StdAlg{Key: "rsa", Hash: crypto.MD5}, true
	case x509.SHA1WithRSA:
		return certgen.StdAlg{Key: "rsa", Hash: crypto.SHA1}, true
	case x509.SHA256WithRSA:
		return certgen.StdAlg{Key: "rsa", Hash: crypto.SHA256}, true
	case x509.SHA384WithRSA:
		return certgen.StdAlg{Key: "rsa", Hash: crypto.SHA384}, true
	case x509.SHA512WithRSA:
		return certgen.StdAlg{Key: "rsa", Hash: crypto.SHA512}, true
	case x509.SHA256WithRSAPSS:
		return certgen.StdAlg{Key: "rsa", Hash: crypto.SHA256, PSS: true}, true
	case x509.SHA384WithRSAPSS:
		return certgen.StdAlg{Key: "rsa", Hash: crypto.SHA384, PSS: true}, true
	case x509.SHA512WithRSAPSS:
		return certgen.StdAlg{Key: "rsa", Hash: crypto.SHA512, PSS: true}, true
	case x509.DSAWithSHA1:
		return certgen.StdAlg{Key: "dsa", Hash: crypto.SHA1}, true
	case x509.DSAWithSHA256:
		return certgen.StdAlg{Key: "dsa", Hash: crypto.SHA256}, true
	case x509.ECDSAWithSHA1:
		return certgen.StdAlg{Key: "ec", Hash: crypto.SHA1}, true
	case x509.ECDSAWithSHA256:
		return certgen.StdAlg{Key: "ec", Hash: crypto.SHA256}, true
	case x509.ECDSAWithSHA384:
		return certgen.StdAlg{Key: "ec", Hash: crypto.SHA384}, true
	case x509.ECDSAWithSHA512:
		return certgen.StdAlg{Key: "ec", Hash: crypto.SHA512}, true
	case x509.Ed25519Sig:
		return certgen.StdAlg{Key: "ed25519"}, true
	}
	return certgen.StdAlg{}, false
}

func digestOf(h crypto.Hash, msg []byte) []byte {
	if h == 0 {
		return msg
	}
	x := h.New()
	x.Write(msg)
	return x.Sum(nil)
}

// canSign: can key k produce a signature of algorithm a (type and RFC 8017 size rules)?
func canSign(k *keys.Key, a x509.SignatureAlgorithm) bool {
	if k.Kind == "dsa" {
		return a == x509.DSAWithSHA1 || a == x509.DSAWithSHA256
	}
	return a != 0 && certgen.SigCompat(k, a)
}

// stdSign signs msg with the Go standard library only.
func stdSign(k *keys.Key, a x509.SignatureAlgorithm, msg []byte) []byte {
	alg, _ := algOf(a)
	d := digestOf(alg.Hash, msg)
	switch k.Kind {
	case "rsa":
		var s []byte
		var err error
		if alg.PSS {
			s, err = stdrsa.SignPSS(rand.Reader, k.StdPriv.(*stdrsa.PrivateKey), alg.Hash, d, &stdrsa.PSSOptions{SaltLength: stdrsa.PSSSaltLengthEqualsHash})
		} else {
			s, err = stdrsa.SignPKCS1v15(rand.Reader, k.StdPriv.(*stdrsa.PrivateKey), alg.Hash, d)
		}
		if err != nil {
			panic(fmt.Sprintf("harness: std rsa sign %s %v: %v", k.Name, a, err))
		}
		return s
	case "ec":
		s, err := ecdsa.SignASN1(rand.Reader, k.StdPriv.(*ecdsa.PrivateKey), d)
		if err != nil {
			panic(err)
		}
		return s
	case "ed25519":
		return ed25519.Sign(k.StdPriv.(ed25519.PrivateKey), msg)
	case "dsa":
		r, s, err := stddsa.Sign(rand.Reader, k.StdPriv.(*stddsa.PrivateKey), d)
		if err != nil {
			panic(err)
		}
		return der.Seq(der.Int(r), der.Int(s))
	}
	panic("harness: cannot sign")
}

// lenientRS reads (r, s) from the first TLV of sig, accepting BER lengths,
// padded integers and trailing bytes (malleability outside the signed values
// is not a violation; a wrong (r, s) is).
func lenientRS(sig []byte) (r, s *big.Int, ok bool) {
	seq, _, err := der.Parse(sig)
	if err != nil || seq.Tag != 16 || !seq.Constructed || seq.Class != 0 {
		return nil, nil, false
	}
	kids, err := der.Children(seq.Body)
	if err != nil || len(kids) < 2 {
		return nil, nil, false
	}
	rd := func(t der.TLV) *big.Int {
		if t.Tag != 2 || t.Class != 0 || len(t.Body) == 0 {
			return nil
		}
		v := new(big.Int).SetBytes(t.Body)
		if t.Body[0]&0x80 != 0 {
			v.Sub(v, new(big.Int).Lsh(big.NewInt(1), uint(8*len(t.Body))))
		}
		return v
	}
	r, s = rd(kids[0]), rd(kids[1])
	return r, s, r != nil && s != nil
}

// valid: is sig a valid signature of msg under key k and claimed algorithm a,
// judged by the standard library (mathematical validity for (r,s) schemes)?
func valid(k *keys.Key, a x509.SignatureAlgorithm, msg, sig []byte) bool {
	alg, ok := algOf(a)
	if !ok || alg.Key != k.Kind {
		return false
	}
	switch k.Kind {
	case "rsa", "ed25519":
		v, _ := certgen.StdVerifyKey(k.StdPub, alg, msg, sig)
		return v
	case "ec":
		r, s, ok := lenientRS(sig)
		if !ok || r.Sign() <= 0 || s.Sign() <= 0 {
			return false
		}
		return ecdsa.Verify(k.StdPub.(*ecdsa.PublicKey), digestOf(alg.Hash, msg), r, s)
	case "dsa":
		r, s, ok := lenientRS(sig)
		if !ok || r.Sign() <= 0 || s.Sign() <= 0 {
			return false
		}
		return stddsa.Verify(k.StdPub.(*stddsa.PublicKey), digestOf(alg.Hash, msg), r, s)
	}
	return false
}

func zpub(k *keys.Key, aug bool) any {
	if aug && k.Kind == "ec" {
		return &x509.AugmentedECDSA{Pub: k.ZPub.(*ecdsa.PublicKey)}
	}
	return k.ZPub
}

// ---------------------------------------------------------------------------
// raw signatures and their mutations

// Mutation kinds: 0 none, 1 message, 2 signature bytes, 3 (r,s) re-encoding,
// 4 key swap, 5 algorithm swap, 6 algorithm of another key type with the same hash,
// 7 RSA signature over a crafted, almost-valid encoded message.
type Case struct {
	Key    int    `json:"key"`
	Alg    int    `json:"alg"`
	Msg    []byte `json:"msg"`
	AugEC  bool   `json:"aug_ec"`
	Kind   int    `json:"kind"`
	Op     int    `json:"op"`
	Off    int    `json:"off"`
	Xor    byte   `json:"xor"`
	Extra  []byte `json:"extra"`
	NewKey int    `json:"new_key"`
	NewAlg int    `json:"new_alg"`
}

const rule = "(pool key: RSA 512..4096 two- and multi-prime, ECDSA P-224..P-521 also as *AugmentedECDSA, Ed25519, DSA L1024N160/L2048N224/L2048N256) x (every SignatureAlgorithm the key can produce) x message; the signature is produced by the Go standard library (crypto/rsa, ecdsa, ed25519, dsa), must verify with CheckSignatureFromKey, and one mutation is applied: message flip/truncate/extend, signature flip/truncate/extend, (r,s) re-encodings (negative, zero, +n, n-s, swapped, padded, BER length, trailing bytes), key swap to any pool key, algorithm swap to any constant 0..17, algorithm of another key type with the same hash (incl. Ed25519 over the digest), RSA private-key operation on a crafted almost-valid EMSA-PKCS1-v1_5 / EMSA-PSS encoding (wrong block type, padding byte, missing NULL, trailing garbage, no separator; PSS padding/delimiter/trailer/top bits/salt length, and - with two deterministic RSA keys of 1025 and 1033 bits, i.e. emLen < k - a valid encoding behind a non-zero surplus leading octet); acceptance of a mutated triple is allowed only if the standard library judges it valid. Non-trivial: a mutated case; distinct by case hash"

func mutate(c Case, k *keys.Key, a x509.SignatureAlgorithm, msg, sig []byte) (k2 *keys.Key, a2 x509.SignatureAlgorithm, msg2, sig2 []byte, what string) {
	k2, a2, msg2, sig2 = k, a, msg, sig
	at := func(b []byte) int { return ((c.Off % len(b)) + len(b)) % len(b) }
	edit := func(b []byte) ([]byte, string) {
		b = append([]byte{}, b...)
		switch c.Op % 4 {
		case 0:
			if len(b) > 0 && c.Xor != 0 {
				b[at(b)] ^= c.Xor
				return b, "flip"
			}
			return append(b, 0), "extend"
		case 1:
			if len(b) > 0 {
				return b[:len(b)-1], "truncate"
			}
			return append(b, 1), "extend"
		case 2:
			return append(b, c.Extra...), "extend"
		default:
			if len(b) > 0 {
				return b[1:], "drop-first"
			}
			return append(b, 2), "extend"
		}
	}
	switch c.Kind {
	case 1:
		var w string
		msg2, w = edit(msg)
		return k2, a2, msg2, sig2, "message-" + w
	case 2:
		var w string
		sig2, w = edit(sig)
		return k2, a2, msg2, sig2, "signature-" + w
	case 3:
		r, s, ok := lenientRS(sig)
		if !ok || (k.Kind != "ec" && k.Kind != "dsa") {
			// not an (r,s) scheme: integer-level edits of the RSA signature
			v := new(big.Int).SetBytes(sig)
			switch c.Op % 3 {
			case 0:
				if rk, ok := k.StdPub.(*stdrsa.PublicKey); ok {
					v.Add(v, rk.N) // s + N: same residue, must be rejected (RFC 8017 8.2.2 step 1)
					return k2, a2, msg2, v.Bytes(), "rsa-sig-plus-n"
				}
				return k2, a2, msg2, append([]byte{0}, sig...), "sig-zero-prefixed"
			case 1:
				return k2, a2, msg2, append([]byte{0}, sig...), "sig-zero-prefixed"
			default:
				return k2, a2, msg2, make([]byte, len(sig)), "sig-all-zero"
			}
		}
		var n *big.Int
		switch p := k.StdPub.(type) {
		case *ecdsa.PublicKey:
			n = p.Params().N
		case *stddsa.PublicKey:
			n = p.Q
		}
		enc := func(r, s *big.Int) []byte { return der.Seq(der.Int(r), der.Int(s)) }
		switch c.Op % 10 {
		case 0:
			return k2, a2, msg2, enc(new(big.Int).Neg(r), s), "rs-negative-r"
		case 1:
			return k2, a2, msg2, enc(big.NewInt(0), s), "rs-zero-r"
		case 2:
			return k2, a2, msg2, enc(new(big.Int).Add(r, n), s), "rs-r-plus-n"
		case 3:
			return k2, a2, msg2, enc(r, new(big.Int).Sub(n, s)), "rs-n-minus-s"
		case 4:
			return k2, a2, msg2, enc(s, r), "rs-swapped"
		case 5:
			return k2, a2, msg2, der.Seq(der.Enc(0x02, []byte{0}, der.Int(r)[2:]), der.Int(s)), "rs-padded-integer"
		case 6:
			body := append(der.Int(r), der.Int(s)...)
			return k2, a2, msg2, append([]byte{0x30, 0x81, byte(len(body))}, body...), "rs-ber-length"
		case 7:
			return k2, a2, msg2, append(append([]byte{}, sig...), c.Extra...), "rs-trailing-bytes"
		case 8:
			return k2, a2, msg2, enc(r, new(big.Int).Add(s, n)), "rs-s-plus-n"
		default:
			return k2, a2, msg2, enc(r, big.NewInt(0)), "rs-zero-s"
		}
	case 7:
		rk, ok := k.StdPriv.(*stdrsa.PrivateKey)
		alg, _ := algOf(a)
		if !ok {
			return k2, a2, msg2, sig2, "none"
		}
		em, w := craftEM(rk, alg, digestOf(alg.Hash, msg), c.Op, c.Extra)
		if em == nil {
			return k2, a2, msg2, sig2, "none"
		}
		return k2, a2, msg2, rawRSA(rk, em), w
	case 4:
		k2 = keys.Get(c.NewKey)
		return k2, a2, msg2, sig2, "key-swap"
	case 5:
		a2 = x509.SignatureAlgorithm(c.NewAlg)
		return k2, a2, msg2, sig2, "algorithm-swap"
	case 6:
		alg, _ := algOf(a)
		if k.Kind == "ed25519" {
			// an Ed25519 signature over the DIGEST, claimed as a hash-based algorithm
			cands := []x509.SignatureAlgorithm{x509.SHA256WithRSA, x509.ECDSAWithSHA384, x509.DSAWithSHA1, x509.SHA512WithRSAPSS, x509.MD5WithRSA}
			a2 = cands[((c.Op%len(cands))+len(cands))%len(cands)]
			al2, _ := algOf(a2)
			return k2, a2, msg2, ed25519.Sign(k.StdPriv.(ed25519.PrivateKey), digestOf(al2.Hash, msg)), "cross-type-claim"
		}
		var cands []x509.SignatureAlgorithm
		for _, x := range certgen.AllSigAlgs() {
			if y, ok := algOf(x); ok && y.Key != alg.Key && y.Hash == alg.Hash {
				cands = append(cands, x)
			}
		}
		if len(cands) == 0 {
			a2 = x509.Ed25519Sig
		} else {
			a2 = cands[((c.Op%len(cands))+len(cands))%len(cands)]
		}
		return k2, a2, msg2, sig2, "cross-type-claim"
	}
	return k2, a2, msg2, sig2, "none"
}

// rawRSA applies the private-key operation to an encoded message (no padding).
func rawRSA(k *stdrsa.PrivateKey, em []byte) []byte {
	m := new(big.Int).SetBytes(em)
	if m.Cmp(k.N) >= 0 {
		m.Mod(m, k.N)
	}
	out := make([]byte, (k.N.BitLen()+7)/8)
	new(big.Int).Exp(m, k.D, k.N).FillBytes(out)
	return out
}

var digestInfoPrefix = map[crypto.Hash][]byte{
	crypto.MD5:    {0x30, 0x20, 0x30, 0x0c, 0x06, 0x08, 0x2a, 0x86, 0x48, 0x86, 0xf7, 0x0d, 0x02, 0x05, 0x05, 0x00, 0x04, 0x10},
	crypto.SHA1:   {0x30, 0x21, 0x30, 0x09, 0x06, 0x05, 0x2b, 0x0e, 0x03, 0x02, 0x1a, 0x05, 0x00, 0x04, 0x14},
	crypto.SHA256: {0x30, 0x31, 0x30, 0x0d, 0x06, 0x09, 0x60, 0x86, 0x48, 0x01, 0x65, 0x03, 0x04, 0x02, 0x01, 0x05, 0x00, 0x04, 0x20},
	crypto.SHA384: {0x30, 0x41, 0x30, 0x0d, 0x06, 0x09, 0x60, 0x86, 0x48, 0x01, 0x65, 0x03, 0x04, 0x02, 0x02, 0x05, 0x00, 0x04, 0x30},
	crypto.SHA512: {0x30, 0x51, 0x30, 0x0d, 0x06, 0x09, 0x60, 0x86, 0x48, 0x01, 0x65, 0x03, 0x04, 0x02, 0x03, 0x05, 0x00, 0x04, 0x40},
}

func mgf1(seed []byte, n int, h crypto.Hash) []byte {
	var out []byte
	for ctr := uint32(0); len(out) < n; ctr++ {
		x := h.New()
		x.Write(seed)
		x.Write([]byte{byte(ctr >> 24), byte(ctr >> 16), byte(ctr >> 8), byte(ctr)})
		out = x.Sum(out)
	}
	return out[:n]
}

// craftEM builds an encoded message that is NOT a valid EMSA-PKCS1-v1_5 /
// EMSA-PSS (hash-length salt) encoding of the digest but close to one (RFC
// 8017 section 9); signed with the private key it must be rejected.
// canonicalPSS is EMSA-PSS-ENCODE (RFC 8017 9.1.1) with sLen = hLen and a
// deterministic salt: an encoded message every conforming verifier accepts.
func canonicalPSS(k *stdrsa.PrivateKey, alg certgen.StdAlg, digest, extra []byte) []byte {
	hLen := alg.Hash.Size()
	emBits := k.N.BitLen() - 1
	emLen := (emBits + 7) / 8
	if emLen < 2*hLen+2 {
		return nil
	}
	salt := make([]byte, hLen)
	for i := range salt {
		salt[i] = byte(i*31 + len(extra))
	}
	x := alg.Hash.New()
	x.Write(make([]byte, 8))
	x.Write(digest)
	x.Write(salt)
	h := x.Sum(nil)
	db := make([]byte, emLen-hLen-1)
	db[len(db)-hLen-1] = 1
	copy(db[len(db)-hLen:], salt)
	mask := mgf1(h, len(db), alg.Hash)
	for i := range db {
		db[i] ^= mask[i]
	}
	db[0] &= 0xff >> (8*emLen - emBits)
	return append(append(db, h...), 0xbc)
}

// opLeadingOctet requests (PSS only, keys with emLen < k) a perfectly valid encoded
// message prefixed with a NON-ZERO octet: the integer the signature decrypts to is
// 01 || EM, which RFC 8017 8.1.2 / 9.1.2 rejects because its length exceeds emLen.
const opLeadingOctet = 1000

func craftEM(k *stdrsa.PrivateKey, alg certgen.StdAlg, digest []byte, op int, extra []byte) ([]byte, string) {
	kLen := (k.N.BitLen() + 7) / 8
	if op == opLeadingOctet {
		if !alg.PSS || (k.N.BitLen()-1+7)/8 >= kLen {
			return nil, ""
		}
		canon := canonicalPSS(k, alg, digest, extra)
		if canon == nil {
			return nil, ""
		}
		out := append([]byte{0x01}, canon...)
		if new(big.Int).SetBytes(out).Cmp(k.N) >= 0 {
			return nil, "" // not representable below the modulus for this key/digest
		}
		return out, "em-pss-leading-octet-nonzero"
	}
	if !alg.PSS {
		t := append(append([]byte{}, digestInfoPrefix[alg.Hash]...), digest...)
		switch op % 5 {
		case 0, 1:
			if kLen < len(t)+11 {
				return nil, ""
			}
			em := make([]byte, kLen)
			em[1] = 1
			for i := 2; i < kLen-len(t)-1; i++ {
				em[i] = 0xff
			}
			copy(em[kLen-len(t):], t)
			if op%5 == 0 {
				em[1] = 2
				return em, "em-pkcs1-block-type-2"
			}
			em[2+(len(extra)*7)%(kLen-len(t)-3)] = 0xfe
			return em, "em-pkcs1-padding-byte-not-ff"
		case 2:
			// DigestInfo without the NULL parameters
			p := append([]byte{}, digestInfoPrefix[alg.Hash]...)
			i := bytes.Index(p, []byte{0x05, 0x00})
			p = append(p[:i], p[i+2:]...)
			p[1] -= 2
			p[3] -= 2
			t2 := append(p, digest...)
			if kLen < len(t2)+11 {
				return nil, ""
			}
			em := make([]byte, kLen)
			em[1] = 1
			for i := 2; i < kLen-len(t2)-1; i++ {
				em[i] = 0xff
			}
			copy(em[kLen-len(t2):], t2)
			return em, "em-pkcs1-digestinfo-without-null"
		case 3:
			// short padding, garbage after the digest
			g := len(extra) + 1
			if kLen < len(t)+11+g {
				return nil, ""
			}
			em := make([]byte, kLen)
			em[1] = 1
			for i := 2; i < kLen-len(t)-1-g; i++ {
				em[i] = 0xff
			}
			copy(em[kLen-len(t)-g:], t)
			copy(em[kLen-g:], append(extra, 0x5a))
			return em, "em-pkcs1-trailing-garbage"
		default:
			if kLen < len(t)+11 {
				return nil, ""
			}
			em := make([]byte, kLen)
			em[1] = 1
			for i := 2; i < kLen-len(t)-1; i++ {
				em[i] = 0xff
			}
			em[kLen-len(t)-1] = 0xff // no 00 separator
			copy(em[kLen-len(t):], t)
			return em, "em-pkcs1-no-separator"
		}
	}
	hLen := alg.Hash.Size()
	emBits := k.N.BitLen() - 1
	emLen := (emBits + 7) / 8
	sLen := hLen
	what := ""
	switch op % 6 {
	case 3:
		sLen, what = hLen-1, "em-pss-salt-one-shorter"
	case 4:
		sLen, what = 0, "em-pss-salt-empty"
	}
	if emLen < hLen+sLen+2 || (op%6 == 0 && emLen < hLen+sLen+3) {
		return nil, ""
	}
	salt := make([]byte, sLen)
	for i := range salt {
		salt[i] = byte(i*31 + len(extra))
	}
	x := alg.Hash.New()
	x.Write(make([]byte, 8))
	x.Write(digest)
	x.Write(salt)
	h := x.Sum(nil)
	db := make([]byte, emLen-hLen-1)
	db[len(db)-sLen-1] = 1
	copy(db[len(db)-sLen:], salt)
	switch op % 6 {
	case 0:
		// non-zero padding octet; low bits, so that it survives the top-bit mask at position 0; not
		// always 0x01, which a verifier that searches for the delimiter would take for the delimiter
		db[(len(extra)*5)%(len(db)-sLen-1)] |= []byte{0x01, 0x02, 0x03, 0x02}[(len(extra)+op/6)%4]
		what = "em-pss-padding-not-zero"
	case 1:
		db[len(db)-sLen-1] = 2
		what = "em-pss-delimiter-not-01"
	}
	mask := mgf1(h, len(db), alg.Hash)
	for i := range db {
		db[i] ^= mask[i]
	}
	db[0] &= 0xff >> (8*emLen - emBits)
	em := append(append(db, h...), 0xbc)
	switch op % 6 {
	case 2:
		em[len(em)-1] = 0xcc
		what = "em-pss-trailer-not-bc"
	case 5:
		if 8*emLen-emBits == 0 {
			return nil, ""
		}
		em[0] |= 0x80
		what = "em-pss-top-bits-set"
	}
	return em, what
}

func check(c Case, r *kit.R) {
	k := keyAt(c.Key)
	a := x509.SignatureAlgorithm(c.Alg)
	if !canSign(k, a) {
		r.Class("skipped:key-cannot-produce-algorithm")
		return
	}
	sig := stdSign(k, a, c.Msg)
	var err error
	g := kit.GuardInline(func() { err = x509.CheckSignatureFromKey(zpub(k, c.AugEC), a, c.Msg, sig) })
	r.Must(g, "CheckSignatureFromKey")
	if err != nil {
		r.Failf(fmt.Sprintf("C03:genuine-rejected:%v", a), "a signature produced by the standard library with key %s, algorithm %v over %d bytes is rejected: %v\nsig=%x", k.Name, a, len(c.Msg), err, sig)
	}
	r.Class(fmt.Sprintf("genuine:%s/%v", k.Kind, a))
	if k.Kind == "dsa" {
		// observation only: FIPS 186-3 truncates the digest to the bit length of q; Go's dsa does not
		alg, _ := algOf(a)
		q := k.StdPub.(*stddsa.PublicKey).Q
		if alg.Hash.Size()*8 > q.BitLen() {
			d := digestOf(alg.Hash, c.Msg)[:q.BitLen()/8]
			rr, ss, e := stddsa.Sign(rand.Reader, k.StdPriv.(*stddsa.PrivateKey), d)
			if e == nil {
				if x509.CheckSignatureFromKey(k.ZPub, a, c.Msg, der.Seq(der.Int(rr), der.Int(ss))) == nil {
					r.Class("observation:dsa-fips-truncated-digest-signature-accepted")
				} else {
					r.Class("observation:dsa-fips-truncated-digest-signature-rejected")
				}
			}
		}
	}
	if c.Kind == 0 {
		return
	}
	k2, a2, msg2, sig2, what := mutate(c, k, a, c.Msg, sig)
	if what == "none" {
		return
	}
	r.NonTrivial()
	r.Class("mutation:" + what)
	g = kit.GuardInline(func() { err = x509.CheckSignatureFromKey(zpub(k2, c.AugEC), a2, msg2, sig2) })
	r.Must(g, "CheckSignatureFromKey("+what+")")
	ok := valid(k2, a2, msg2, sig2)
	if err == nil && !ok {
		al2, known := algOf(a2)
		if known && al2.Key != k2.Kind {
			r.Failf("C03:key-type-algorithm-mismatch-accepted", "CheckSignatureFromKey accepts claimed algorithm %v with a %s key (%s): the algorithm names another key type (mutation %s; original key %s alg %v)\nsig=%x", a2, k2.Kind, k2.Name, what, k.Name, a, sig2)
		}
		r.Failf("C03:invalid-accepted:"+what, "CheckSignatureFromKey accepts (key %s, algorithm %v, %d-byte message) after mutation %s although the standard library judges the triple invalid (original: key %s, algorithm %v)\nsig=%x", k2.Name, a2, len(msg2), what, k.Name, a, sig2)
	}
	switch {
	case err == nil:
		r.Class("mutated-still-valid:" + what)
	case ok:
		r.Class("mutated-valid-but-rejected:" + what) // stricter than mathematical validity: allowed
	default:
		r.Class("mutated-rejected")
	}
	// RSASSA-PSS through the verification function itself, in the salt-length modes the
	// certificate path never uses (automatic detection, nil options, explicit length): the verdict
	// on the mutated triple must be the standard library's (RFC 8017 9.1.2 leaves no choice)
	if al2, known := algOf(a2); known && al2.PSS && k2.Kind == "rsa" {
		zp, zok := k2.ZPub.(*zrsa.PublicKey)
		sp, sok := k2.StdPub.(*stdrsa.PublicKey)
		if zok && sok {
			d := digestOf(al2.Hash, msg2)
			for _, mode := range []int{stdrsa.PSSSaltLengthAuto, stdrsa.PSSSaltLengthEqualsHash, al2.Hash.Size(), -2} {
				var zo *zrsa.PSSOptions
				var so *stdrsa.PSSOptions
				if mode != -2 {
					zo, so = &zrsa.PSSOptions{SaltLength: mode}, &stdrsa.PSSOptions{SaltLength: mode}
				}
				var zerr error
				gg := kit.GuardInline(func() { zerr = zrsa.VerifyPSS(zp, al2.Hash, d, sig2, zo) })
				r.Must(gg, "rsa.VerifyPSS("+what+")")
				serr := stdrsa.VerifyPSS(sp, al2.Hash, d, sig2, so)
				if (zerr == nil) != (serr == nil) {
					r.Failf("C03:pss-verdict:"+what, "rsa.VerifyPSS (salt mode %d; -2 = nil options) says %v, crypto/rsa says %v for key %s, %v, mutation %s\nsig=%x", mode, zerr, serr, k2.Name, a2, what, sig2)
				}
			}
			r.Class("pss-direct-verification-all-salt-modes")
		}
	}
}

func gen(t *rapid.T) Case {
	var c Case
	all := keys.All()
	var cheap []int
	for _, k := range all {
		if k.Kind != "rsa" || k.Bits <= 2048 {
			cheap = append(cheap, k.Index)
		}
	}
	if certgen.Chance(t, "any-key", 20) {
		c.Key = rapid.IntRange(0, len(all)-1).Draw(t, "key")
	} else {
		c.Key = rapid.SampledFrom(cheap).Draw(t, "key")
	}
	// RSA keys whose modulus length is 1 (mod 8): see oddkeys.go
	oddKey := certgen.Chance(t, "odd-rsa-key", 12)
	if oddKey {
		c.Key = -rapid.IntRange(1, 2).Draw(t, "odd-key")
	}
	k := keyAt(c.Key)
	var algs []int
	for a := 1; a <= 16; a++ {
		if canSign(k, x509.SignatureAlgorithm(a)) {
			algs = append(algs, a)
		}
	}
	c.Alg = rapid.SampledFrom(algs).Draw(t, "alg")
	c.Msg = rapid.SliceOfN(rapid.Byte(), 0, 200).Draw(t, "msg")
	c.AugEC = rapid.Bool().Draw(t, "aug")
	c.Kind = rapid.SampledFrom([]int{0, 1, 2, 2, 3, 3, 3, 4, 5, 5, 6, 6, 7, 7, 7}).Draw(t, "kind")
	c.Op = rapid.IntRange(0, 59).Draw(t, "op")
	if oddKey && certgen.Chance(t, "leading-octet", 50) {
		c.Kind, c.Op = 7, opLeadingOctet // crafted EM with a non-zero surplus leading octet
	}
	c.Off = rapid.IntRange(0, 2000).Draw(t, "off")
	c.Xor = byte(rapid.SampledFrom([]int{1, 0x80, 0xff, 0x10, 0}).Draw(t, "xor"))
	c.Extra = rapid.SliceOfN(rapid.Byte(), 1, 4).Draw(t, "extra")
	c.NewKey = rapid.IntRange(0, len(all)-1).Draw(t, "new-key")
	c.NewAlg = rapid.IntRange(0, 17).Draw(t, "new-alg")
	return c
}

func TestPropRaw(t *testing.T) {
	kit.Run(t, kit.Spec[Case]{ID: "C03", Name: "raw", Rule: rule, Gen: gen, Check: check, Quick: 2500, Thorough: 20000,
		Assumptions: []string{
			"soundness against forgery is tested by mutation only, not by cryptanalysis",
			"a mutated (key, algorithm, message, signature) may be accepted iff the Go standard library accepts it; for ECDSA/DSA the standard-library judgement is on the integers (r, s) read leniently from the first TLV (non-canonical encodings of a valid (r, s) and trailing bytes are malleability outside the signed values, not a violation)",
			"DSA: signatures are produced by crypto/dsa over the full digest (Go's convention; FIPS 186-3 truncation to the size of q is only observed, not asserted)",
			"MD5WithRSA is verifiable by design in zcrypto (documented exception); MD2WithRSA and unknown constants can never verify",
		}})
}

// ---------------------------------------------------------------------------
// objects the library signs itself

type ObjCase struct {
	API string `json:"api"` // cert | csr | crl | rl | ocsp
	Key int    `json:"key"`
	Alg int    `json:"alg"`
}

var apis = []string{"cert", "csr", "crl", "rl", "ocsp"}

func algClass(a x509.SignatureAlgorithm) string {
	if certgen.IsPSS(a) {
		return "rsa-pss"
	}
	return a.String()
}

// flipAt returns a copy of b with one bit flipped at the position of sub's middle byte (sub is a sub-slice of b).
func flipIn(b, sub []byte) []byte {
	out := append([]byte{}, b...)
	i := bytes.Index(b, sub)
	if i < 0 || len(sub) == 0 {
		out[len(out)/3] ^= 0x01
		return out
	}
	out[i+len(sub)/2] ^= 0x01
	return out
}

func caTemplate(k *keys.Key) *x509.Certificate {
	return &x509.Certificate{
		SerialNumber: big.NewInt(int64(1000 + k.Index)), Subject: pkix.Name{CommonName: "C03 CA " + k.Name, Organization: []string{"verif"}},
		NotBefore: pki.Epoch.Add(-24 * time.Hour), NotAfter: pki.Epoch.Add(24 * 365 * time.Hour),
		BasicConstraintsValid: true, IsCA: true, KeyUsage: x509.KeyUsageCertSign | x509.KeyUsageCRLSign | x509.KeyUsageDigitalSignature,
		SubjectKeyId: []byte{1, 2, 3, byte(k.Index)},
	}
}

func checkObj(c ObjCase, r *kit.R) {
	k := keys.Get(c.Key)
	a := x509.SignatureAlgorithm(c.Alg)
	fail := func(what, f string, args ...any) {
		r.Failf(fmt.Sprintf("C03:%s:%s:%s", what, c.API, algClass(a)), "%s with key %s, requested algorithm %v: "+f, append([]any{c.API, k.Name, a}, args...)...)
	}
	rejected := func(err error) {
		r.Class("api-rejects:" + c.API)
		if certgen.SigCompat(k, a) && k.Kind != "dsa" && !(c.API == "ocsp" && (k.Kind == "ed25519" || certgen.IsPSS(a))) {
			// the algorithm is one the key can produce and the API documents: it should have been accepted
			r.Class("api-rejects-producible-pair:" + c.API)
		}
		_ = err
	}
	// the issuing CA under the key's default algorithm (needed by crl / rl / ocsp)
	var ca *x509.Certificate
	needCA := c.API == "crl" || c.API == "rl" || c.API == "ocsp"
	if needCA {
		if k.Kind == "dsa" {
			r.Class("api-rejects:" + c.API)
			return
		}
		t := caTemplate(k)
		d, err := x509.CreateCertificate(rand.Reader, t, t, k.ZPub, k.ZPriv)
		if err != nil {
			r.Failf("C03:ca-create", "CA for %s: %v", k.Name, err)
		}
		if ca, err = x509.ParseCertificate(d); err != nil {
			r.Failf("C03:ca-parse", "CA for %s: %v", k.Name, err)
		}
	}
	var verr, terr error // verification of the object, and of the tampered object
	tamperParsed := true
	switch c.API {
	case "cert":
		t := caTemplate(k)
		t.SignatureAlgorithm = a
		var d []byte
		var err error
		g := kit.GuardInline(func() { d, err = x509.CreateCertificate(rand.Reader, t, t, k.ZPub, k.ZPriv) })
		r.Must(g, "CreateCertificate")
		if err != nil {
			rejected(err)
			return
		}
		cert, err := x509.ParseCertificate(d)
		if err != nil {
			fail("parse", "ParseCertificate: %v", err)
		}
		verr = cert.CheckSignatureFrom(cert)
		if verr == nil && !cert.SelfSigned {
			fail("self-verify", "CheckSignatureFrom succeeds but SelfSigned is false")
		}
		if t2, err := x509.ParseCertificate(flipIn(d, cert.RawSubject)); err != nil {
			tamperParsed = false
		} else {
			terr = t2.CheckSignature(t2.SignatureAlgorithm, t2.RawTBSCertificate, t2.Signature)
			if t2.SelfSigned {
				fail("tampered-accepted", "a certificate with one subject bit flipped parses with SelfSigned=true")
			}
		}
	case "csr":
		t := &x509.CertificateRequest{Subject: pkix.Name{CommonName: "C03 CSR " + k.Name}, DNSNames: []string{"c03.example"}, SignatureAlgorithm: a}
		var d []byte
		var err error
		g := kit.GuardInline(func() { d, err = x509.CreateCertificateRequest(rand.Reader, t, k.ZPriv) })
		r.Must(g, "CreateCertificateRequest")
		if err != nil {
			rejected(err)
			return
		}
		csr, err := x509.ParseCertificateRequest(d)
		if err != nil {
			fail("parse", "ParseCertificateRequest: %v", err)
		}
		verr = csr.CheckSignature()
		if t2, err := x509.ParseCertificateRequest(flipIn(d, csr.RawSubject)); err != nil {
			tamperParsed = false
		} else {
			terr = t2.CheckSignature()
		}
	case "crl":
		if a != 0 {
			r.Class("skipped:legacy-CRL-has-no-algorithm-parameter")
			return
		}
		var d []byte
		var err error
		g := kit.GuardInline(func() {
			d, err = ca.CreateCRL(rand.Reader, k.ZPriv, []pkix.RevokedCertificate{{SerialNumber: big.NewInt(7), RevocationTime: pki.Epoch}}, pki.Epoch, pki.Epoch.Add(time.Hour))
		})
		r.Must(g, "CreateCRL")
		if err != nil {
			rejected(err)
			return
		}
		crl, err := x509.ParseCRL(d)
		if err != nil {
			fail("parse", "ParseCRL: %v", err)
		}
		verr = ca.CheckCRLSignature(crl)
		if t2, err := x509.ParseCRL(flipIn(d, crl.TBSCertList.Raw)); err != nil {
			tamperParsed = false
		} else {
			terr = ca.CheckCRLSignature(t2)
		}
	case "rl":
		t := &x509.RevocationList{Number: big.NewInt(5), ThisUpdate: pki.Epoch, NextUpdate: pki.Epoch.Add(time.Hour), SignatureAlgorithm: a,
			RevokedCertificates: []x509.RevokedCertificate{{SerialNumber: big.NewInt(7), RevocationTime: pki.Epoch}}}
		var d []byte
		var err error
		g := kit.GuardInline(func() { d, err = x509.CreateRevocationList(rand.Reader, t, ca, k.ZPriv.(crypto.Signer)) })
		r.Must(g, "CreateRevocationList")
		if err != nil {
			rejected(err)
			return
		}
		rl, err := x509.ParseRevocationList(d)
		if err != nil {
			fail("parse", "ParseRevocationList: %v", err)
		}
		verr = rl.CheckSignatureFrom(ca)
		if t2, err := x509.ParseRevocationList(flipIn(d, rl.RawIssuer)); err != nil {
			tamperParsed = false
		} else {
			terr = t2.CheckSignatureFrom(ca)
		}
	case "ocsp":
		t := ocsp.Response{Status: ocsp.Good, SerialNumber: big.NewInt(7), ThisUpdate: pki.Epoch, NextUpdate: pki.Epoch.Add(time.Hour), SignatureAlgorithm: a}
		var d []byte
		var err error
		g := kit.GuardInline(func() { d, err = ocsp.CreateResponse(ca, ca, t, k.ZPriv.(crypto.Signer)) })
		r.Must(g, "ocsp.CreateResponse")
		if err != nil {
			rejected(err)
			return
		}
		resp, err := ocsp.ParseResponse(d, nil)
		if err != nil {
			fail("parse", "ocsp.ParseResponse(without issuer): %v", err)
		}
		_, verr = ocsp.ParseResponse(d, ca)
		if verr == nil {
			verr = resp.CheckSignatureFrom(ca)
		}
		if _, err := ocsp.ParseResponse(flipIn(d, resp.TBSResponseData), nil); err != nil {
			tamperParsed = false
		} else {
			_, terr = ocsp.ParseResponse(flipIn(d, resp.TBSResponseData), ca)
		}
		// the public key changed: the same response signed by a key the issuer knows nothing of,
		// (1) without a certificate, (2) with that key's self-signed certificate attached, once
		// under its own name and once under an exact copy of the issuer's subject
		other := keys.ByName("ecP-256-1")
		if other.Name == k.Name {
			other = keys.ByName("ecP-384-0")
		}
		t2 := t
		t2.SignatureAlgorithm = 0
		for _, variant := range []string{"bare", "own-name certificate", "issuer-name certificate", "issuer look-alike certificate"} {
			t3 := t2
			if variant != "bare" {
				tmpl := &x509.Certificate{SerialNumber: big.NewInt(99), Subject: pkix.Name{CommonName: "responder of nobody"}, NotBefore: pki.Epoch.Add(-time.Hour), NotAfter: pki.Epoch.Add(48 * time.Hour),
					KeyUsage: x509.KeyUsageDigitalSignature, ExtKeyUsage: []x509.ExtKeyUsage{x509.ExtKeyUsageOcspSigning}}
				if variant == "issuer-name certificate" {
					tmpl.RawSubject = ca.RawSubject
				}
				if variant == "issuer look-alike certificate" {
					// the issuer's own certificate in everything but the key
					tmpl.RawSubject = ca.RawSubject
					tmpl.SerialNumber = new(big.Int).Set(ca.SerialNumber)
					tmpl.SubjectKeyId, tmpl.AuthorityKeyId = ca.SubjectKeyId, ca.AuthorityKeyId
					tmpl.NotBefore, tmpl.NotAfter = ca.NotBefore, ca.NotAfter
					tmpl.KeyUsage, tmpl.ExtKeyUsage = ca.KeyUsage, ca.ExtKeyUsage
					tmpl.BasicConstraintsValid, tmpl.IsCA, tmpl.MaxPathLen, tmpl.MaxPathLenZero = ca.BasicConstraintsValid, ca.IsCA, ca.MaxPathLen, ca.MaxPathLenZero
				}
				cd, cerr := x509.CreateCertificate(rand.Reader, tmpl, tmpl, other.ZPub, other.ZPriv)
				if cerr != nil {
					r.Failf("C03:harness:impostor", "cannot build the foreign responder certificate: %v", cerr)
				}
				fc, perr := x509.ParseCertificate(cd)
				if perr != nil || (variant != "own-name certificate" && !bytes.Equal(fc.RawSubject, ca.RawSubject)) {
					r.Failf("C03:harness:impostor", "foreign responder certificate: %v", perr)
				}
				t3.Certificate = fc
			}
			fd, ferr := ocsp.CreateResponse(ca, ca, t3, other.ZPriv.(crypto.Signer))
			if ferr != nil {
				r.Failf("C03:harness:impostor", "cannot sign the foreign response: %v", ferr)
			}
			if _, err := ocsp.ParseResponse(fd, nil); err != nil {
				continue // not even well-formed for the parser: nothing to verify
			}
			if _, err := ocsp.ParseResponse(fd, ca); err == nil {
				fail("foreign-key-accepted", "an OCSP response signed by a key unrelated to the issuer (%s) verifies against the issuer", variant)
			}
			r.Class("ocsp: foreign key, " + variant)
		}
	}
	r.Class("created:" + c.API + ":" + algClass(a))
	r.Class("key:" + k.Kind)
	if a != 0 && a != certgen.DefaultSigAlg(k) {
		r.NonTrivial()
	}
	if tamperParsed && terr == nil {
		fail("tampered-accepted", "the object with one bit of its signed part flipped still verifies")
	}
	if verr != nil {
		fail("self-verify", "the object the library created does not verify with its own verification API: %v", verr)
	}
}

func TestPropObjects(t *testing.T) {
	kit.Run(t, kit.Spec[ObjCase]{ID: "C03", Name: "objects", Check: checkObj,
		Rule: "exhaustive: {CreateCertificate, CreateCertificateRequest, legacy CreateCRL, CreateRevocationList, ocsp.CreateResponse} x every pool key (RSA 512..4096 2-5 primes, ECDSA P-224..P-521, Ed25519, DSA) x every requested SignatureAlgorithm 0..17; whenever the creation API returns no error the object must verify with CheckSignatureFrom / CheckSignature / CheckCRLSignature / RevocationList.CheckSignatureFrom / ocsp.ParseResponse(issuer), and must stop verifying when one bit of its signed part is flipped. Non-trivial: created with a non-default algorithm",
		Enum: func(shard, nshards int, yield func(ObjCase) bool) {
			i := 0
			for _, api := range apis {
				for _, k := range keys.All() {
					for a := 0; a <= 17; a++ {
						i++
						if i%nshards != shard {
							continue
						}
						if !yield(ObjCase{API: api, Key: k.Index, Alg: a}) {
							return
						}
					}
				}
			}
		},
		Assumptions: []string{"an (API, key, algorithm) triple the creation API rejects with an error is outside the clause ('for every signature algorithm the signing API accepts')"}})
}
