package c03

import (
	"crypto/sha256"
	"encoding/binary"
	"math/big"
	"sync"

	stdrsa "crypto/rsa"

	zrsa "github.com/zmap/zcrypto/rsa"
	"verifharness/keys"
)

// RSA keys whose modulus bit length is 1 (mod 8).  For such a key the PSS encoded
// message is one octet shorter than the modulus (emLen = k-1), so the integer a
// signature decrypts to has a leading octet that MUST be zero (RFC 8017 9.1.2 /
// 8.1.2).  Every key of the shared pool has a bit length that is a multiple of
// 8, where that octet does not exist, so a verifier that forgets to check it can
// only be caught with keys like these.  The keys are derived deterministically
// (no random source): the same in every process, so replay files stay valid.
// They are addressed by negative indices: keyAt(-1), keyAt(-2).

var (
	oddOnce sync.Once
	oddList []*keys.Key
)

// nextPrime returns the first probable prime >= the odd number derived from
// (label, bits) with its top four bits set.
func nextPrime(label string, bits int) *big.Int {
	buf := make([]byte, 0, (bits+7)/8)
	for ctr := uint32(0); len(buf) < (bits+7)/8; ctr++ {
		var c [4]byte
		binary.BigEndian.PutUint32(c[:], ctr)
		h := sha256.Sum256(append([]byte("c03-odd-key/"+label+"/"), c[:]...))
		buf = append(buf, h[:]...)
	}
	p := new(big.Int).SetBytes(buf[:(bits+7)/8])
	p.SetBit(p, 0, 1)
	for i := p.BitLen() - 1; i >= bits; i-- {
		p.SetBit(p, i, 0)
	}
	// top four bits set: the product of two such primes has exactly b1+b2 bits and
	// is >= 0.879 * 2^(b1+b2), which leaves room below the modulus for 01 || EM
	for i := 1; i <= 4; i++ {
		p.SetBit(p, bits-i, 1)
	}
	two := big.NewInt(2)
	for !p.ProbablyPrime(32) {
		p.Add(p, two)
	}
	return p
}

func makeOddKey(name string, pBits, qBits, wantBits int) *keys.Key {
	e := big.NewInt(65537)
	one := big.NewInt(1)
	for try := 0; ; try++ {
		p := nextPrime(name+"/p/"+string(rune('a'+try)), pBits)
		q := nextPrime(name+"/q/"+string(rune('a'+try)), qBits)
		n := new(big.Int).Mul(p, q)
		phi := new(big.Int).Mul(new(big.Int).Sub(p, one), new(big.Int).Sub(q, one))
		d := new(big.Int).ModInverse(e, phi)
		if n.BitLen() != wantBits || d == nil || p.Cmp(q) == 0 {
			continue
		}
		zp := &zrsa.PrivateKey{PublicKey: zrsa.PublicKey{N: n, E: new(big.Int).Set(e)}, D: d, Primes: []*big.Int{p, q}}
		zp.Precompute()
		sp := &stdrsa.PrivateKey{PublicKey: stdrsa.PublicKey{N: new(big.Int).Set(n), E: 65537}, D: new(big.Int).Set(d), Primes: []*big.Int{new(big.Int).Set(p), new(big.Int).Set(q)}}
		sp.Precompute()
		return &keys.Key{Name: name, Kind: "rsa", Bits: wantBits, NPrimes: 2, ZPriv: zp, ZPub: &zp.PublicKey, StdPriv: sp, StdPub: &sp.PublicKey}
	}
}

func oddKeys() []*keys.Key {
	oddOnce.Do(func() {
		// both primes have their top four bits set, so their product has exactly
		// b1+b2 bits; makeOddKey still verifies.
		oddList = []*keys.Key{
			makeOddKey("rsa1025-odd", 513, 512, 1025),
			makeOddKey("rsa1033-odd", 517, 516, 1033),
		}
		for i, k := range oddList {
			k.Index = -(i + 1)
		}
	})
	return oddList
}

// keyAt resolves a Case key index: >= 0 pool key, < 0 odd-length key.
func keyAt(i int) *keys.Key {
	if i < 0 {
		o := oddKeys()
		return o[(-i-1)%len(o)]
	}
	return keys.Get(i)
}
