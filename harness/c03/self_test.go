package c03

import (
	"crypto"
	stdrsa "crypto/rsa"
	"testing"

	"verifharness/certgen"
	"verifharness/keys"
)

// TestSelfEncoders validates the harness' own EMSA encoders against the
// standard library (not a property check; run by `go test -run TestSelf`).
func TestSelfEncoders(t *testing.T) {
	for _, k := range keys.Of("rsa") {
		if k.Bits < 1024 {
			continue
		}
		rk := k.StdPriv.(*stdrsa.PrivateKey)
		msg := []byte("self test")
		for _, h := range []crypto.Hash{crypto.SHA1, crypto.SHA256, crypto.SHA384} {
			d := digestOf(h, msg)
			// PSS with a salt one shorter than the hash is a VALID PSS signature under auto salt detection
			if h != crypto.SHA1 {
				em, _ := craftEM(rk, certgen.StdAlg{Key: "rsa", Hash: h, PSS: true}, d, 3, nil)
				if em == nil {
					continue
				}
				if err := stdrsa.VerifyPSS(&rk.PublicKey, h, d, rawRSA(rk, em), &stdrsa.PSSOptions{SaltLength: stdrsa.PSSSaltLengthAuto}); err != nil {
					t.Fatalf("%s %v: PSS encoder wrong: %v", k.Name, h, err)
				}
				if err := stdrsa.VerifyPSS(&rk.PublicKey, h, d, rawRSA(rk, em), &stdrsa.PSSOptions{SaltLength: stdrsa.PSSSaltLengthEqualsHash}); err == nil {
					t.Fatalf("%s %v: short-salt signature accepted with equals-hash", k.Name, h)
				}
			}
			// PKCS#1 v1.5: undo the single tweak of variant 1 and it must verify
			em, _ := craftEM(rk, certgen.StdAlg{Key: "rsa", Hash: h}, d, 1, nil)
			for i := 2; em[i] != 0; i++ {
				em[i] = 0xff
			}
			if err := stdrsa.VerifyPKCS1v15(&rk.PublicKey, h, d, rawRSA(rk, em)); err != nil {
				t.Fatalf("%s %v: PKCS1 encoder wrong: %v", k.Name, h, err)
			}
		}
	}
}
