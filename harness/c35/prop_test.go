package c35

import (
	"fmt"
	"testing"

	"github.com/zmap/zcrypto/tls"
	"pgregory.net/rapid"
	"verifharness/kit"
)

// Op kinds: 0 = Put(k, fresh session), 1 = Put(k, nil), 2 = Get(k),
// 3 = Put(k, the session the cache already holds for k) (what a client does after a
// resumed handshake; a fresh session when k is absent)
type Op struct {
	Kind int `json:"kind"`
	Key  int `json:"key"`
}

type Case struct {
	Cap int  `json:"cap"`
	Ops []Op `json:"ops"`
}

type entry struct {
	key string
	s   *tls.ClientSessionState
}

// model: most recently used first
type model struct {
	cap int
	l   []entry
}

func (m *model) find(k string) int {
	for i, e := range m.l {
		if e.key == k {
			return i
		}
	}
	return -1
}
func (m *model) front(i int) {
	e := m.l[i]
	copy(m.l[1:i+1], m.l[:i])
	m.l[0] = e
}
func (m *model) put(k string, s *tls.ClientSessionState) {
	i := m.find(k)
	if s == nil {
		if i >= 0 {
			m.l = append(m.l[:i], m.l[i+1:]...)
		}
		return
	}
	if i >= 0 {
		m.l[i].s = s
		m.front(i)
		return
	}
	if len(m.l) >= m.cap {
		m.l = m.l[:m.cap-1]
	}
	m.l = append([]entry{{k, s}}, m.l...)
}
func (m *model) get(k string) (*tls.ClientSessionState, bool) {
	i := m.find(k)
	if i < 0 {
		return nil, false
	}
	m.front(i)
	return m.l[0].s, true
}

func keyName(i int) string { return string(rune('a' + i)) }

func check(c Case, r *kit.R) {
	effCap := c.Cap
	if effCap < 1 {
		effCap = 64
	}
	cache := tls.NewLRUClientSessionCache(c.Cap)
	m := &model{cap: effCap}
	nkeys := 0
	sawEvict, sawNilAbsent, sawNilPresent, sawRePut := false, false, false, false
	step := func(i int, op Op) {
		k := keyName(op.Key)
		switch op.Kind {
		case 0:
			s := &tls.ClientSessionState{}
			if m.find(k) < 0 && len(m.l) >= m.cap {
				sawEvict = true
			}
			cache.Put(k, s)
			m.put(k, s)
		case 3:
			s := &tls.ClientSessionState{}
			if j := m.find(k); j >= 0 {
				s = m.l[j].s
				sawRePut = true
			} else if len(m.l) >= m.cap {
				sawEvict = true
			}
			cache.Put(k, s)
			m.put(k, s)
		case 1:
			if m.find(k) < 0 {
				sawNilAbsent = true
			} else {
				sawNilPresent = true
			}
			cache.Put(k, nil)
			m.put(k, nil)
		case 2:
			gs, gok := cache.Get(k)
			ws, wok := m.get(k)
			if gok && gs == nil {
				r.Failf("C35:nil-session-observable", "step %d Get(%q) = (nil, true): an entry with a nil session is observable", i, k)
			}
			if gok != wok || gs != ws {
				r.Failf("C35:get-mismatch", "step %d Get(%q): cache (%p,%v) model (%p,%v)", i, k, gs, gok, ws, wok)
			}
		}
	}
	for i, op := range c.Ops {
		if op.Key+1 > nkeys {
			nkeys = op.Key + 1
		}
		step(i, op)
	}
	ntEvict, ntNil := sawEvict, sawNilAbsent
	// deterministic tail: probe all keys, then push fresh keys one by one and
	// probe again, so that the final recency order is fully observed.
	n := len(c.Ops)
	for k := 0; k < nkeys; k++ {
		step(n, Op{2, k})
		n++
	}
	if effCap <= 8 {
		for j := 0; j < effCap; j++ {
			step(n, Op{0, 20 + j})
			n++
			hits := 0
			for k := 0; k < nkeys; k++ {
				if m.find(keyName(k)) >= 0 {
					hits++
				}
			}
			if hits > effCap {
				r.Failf("C35:model-bug", "model holds more than capacity")
			}
		}
		for k := 0; k < nkeys; k++ {
			step(n, Op{2, k})
			n++
		}
	}
	if ntEvict {
		r.Class("eviction")
	}
	if ntNil {
		r.Class("put-nil-absent")
	}
	if sawNilPresent {
		r.Class("put-nil-present")
	}
	if sawRePut {
		r.Class("re-put-of-the-stored-session")
	}
	r.Class(fmt.Sprintf("cap=%d", c.Cap))
	if ntEvict || ntNil {
		r.NonTrivial()
	}
}

const rule = "histories of Put(k,fresh)/Put(k,nil)/Get(k)/Put(k, the session already stored for k) over keys a..e and capacities {-1,0,1..4}, executed in lock-step with an ordered-list LRU model; every Get (and a deterministic probing tail that observes the complete recency order) must agree. Non-trivial: history that evicts from a full cache or does Put(k,nil) on an absent key; distinct by case hash"

func gen(t *rapid.T) Case {
	c := Case{Cap: rapid.SampledFrom([]int{1, 2, 3, 4, 1, 2, 3, 4, 0, -1}).Draw(t, "cap")}
	n := rapid.IntRange(0, 40).Draw(t, "n")
	for i := 0; i < n; i++ {
		c.Ops = append(c.Ops, Op{Kind: rapid.SampledFrom([]int{0, 0, 0, 1, 2, 2, 3}).Draw(t, "kind"), Key: rapid.IntRange(0, 4).Draw(t, "key")})
	}
	return c
}

func TestPropRandom(t *testing.T) {
	kit.Run(t, kit.Spec[Case]{ID: "C35", Name: "random", Rule: rule, Gen: gen, Check: check, Quick: 20000, Thorough: 150000})
}

// exhaustive: all sequences of length <= L over 3 keys x 3 op kinds, capacities 1..3
func TestPropExhaustive(t *testing.T) {
	env := kit.GetEnv()
	L := 5
	if env.Tier == "thorough" {
		L = 6
	}
	kit.Run(t, kit.Spec[Case]{ID: "C35", Name: "exhaustive", Check: check,
		Rule: fmt.Sprintf("exhaustive: every history of length <= %d over 3 keys x {put,put-nil,get} x capacity 1..3; non-trivial as above", L),
		Enum: func(shard, nshards int, yield func(Case) bool) {
			idx := 0
			for cap := 1; cap <= 3; cap++ {
				for l := 0; l <= L; l++ {
					total := 1
					for i := 0; i < l; i++ {
						total *= 9
					}
					for v := 0; v < total; v++ {
						idx++
						if idx%nshards != shard {
							continue
						}
						c := Case{Cap: cap}
						x := v
						for i := 0; i < l; i++ {
							d := x % 9
							x /= 9
							c.Ops = append(c.Ops, Op{Kind: d / 3, Key: d % 3})
						}
						if !yield(c) {
							return
						}
					}
				}
			}
		}})
}

// exhaustive over the four operation kinds (one level shallower than the three-kind enumeration)
func TestPropExhaustiveRePut(t *testing.T) {
	env := kit.GetEnv()
	L := 4
	if env.Tier == "thorough" {
		L = 5
	}
	kit.Run(t, kit.Spec[Case]{ID: "C35", Name: "exhaustive-reput", Check: check,
		Rule: fmt.Sprintf("exhaustive: every history of length <= %d over 3 keys x {put fresh, put-nil, get, put the stored session again} x capacity 1..3; non-trivial as above", L),
		Enum: func(shard, nshards int, yield func(Case) bool) {
			idx := 0
			for cap := 1; cap <= 3; cap++ {
				for l := 0; l <= L; l++ {
					total := 1
					for i := 0; i < l; i++ {
						total *= 12
					}
					for v := 0; v < total; v++ {
						idx++
						if idx%nshards != shard {
							continue
						}
						c := Case{Cap: cap}
						x := v
						for i := 0; i < l; i++ {
							d := x % 12
							x /= 12
							c.Ops = append(c.Ops, Op{Kind: d / 3, Key: d % 3})
						}
						if !yield(c) {
							return
						}
					}
				}
			}
		}})
}
