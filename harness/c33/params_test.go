package c33

import (
	"bytes"
	"crypto/elliptic"
	"fmt"
	"math/big"
	"testing"

	zjson "github.com/zmap/zcrypto/json"
	zrsa "github.com/zmap/zcrypto/rsa"
	"pgregory.net/rapid"
	"verifharness/kit"
)

// ParamCase describes one key-parameter value.  Ints are magnitudes (big-endian
// bytes); a nil entry is an absent (nil) member.
type ParamCase struct {
	Kind  string   `json:"kind"` // rsa | rsa-nil | dh | ecpoint | ecdh | rsa-client | ecdh-private
	Ints  [][]byte `json:"ints"`
	Exp   string   `json:"exp,omitempty"` // rsa: decimal exponent (may be negative)
	Curve int      `json:"curve,omitempty"`
	Bytes []byte   `json:"bytes,omitempty"`
	N     int      `json:"n,omitempty"`
	// ecdh: which optional members are present (bit 0 server public, 1 server private, 2 client public, 3 client private)
	Mask int  `json:"mask,omitempty"`
	SetC bool `json:"set_curve,omitempty"` // ecdh: also fill the (json:"-") Curve member
}

func genMag(t *rapid.T, label string) []byte {
	switch rapid.IntRange(0, 9).Draw(t, label+"k") {
	case 0:
		return []byte{} // zero
	case 1:
		return []byte{byte(rapid.IntRange(1, 255).Draw(t, label+"s"))}
	case 2: // leading zero octets are not part of a magnitude; keep the top byte non-zero
		b := rapid.SliceOfN(rapid.Byte(), 256, 256).Draw(t, label+"b")
		b[0] |= 0x80
		return b
	default:
		n := rapid.IntRange(1, 70).Draw(t, label+"n")
		b := rapid.SliceOfN(rapid.Byte(), n, n).Draw(t, label+"b")
		b[0] |= 1
		return b
	}
}

func genOptMag(t *rapid.T, label string) []byte {
	if rapid.IntRange(0, 2).Draw(t, label+"present") == 0 {
		return nil
	}
	return genMag(t, label)
}

func genParam(t *rapid.T) ParamCase {
	c := ParamCase{Kind: rapid.SampledFrom([]string{"rsa", "rsa", "rsa-nil", "dh", "dh", "dh", "ecpoint", "ecpoint", "ecdh", "ecdh", "ecdh", "rsa-client", "ecdh-private"}).Draw(t, "kind")}
	switch c.Kind {
	case "rsa":
		c.Ints = [][]byte{genMag(t, "n")}
		switch rapid.IntRange(0, 5).Draw(t, "ek") {
		case 0:
			c.Exp = "65537"
		case 1:
			c.Exp = "3"
		case 2:
			c.Exp = "0"
		case 3:
			c.Exp = "-" + new(big.Int).SetBytes(genMag(t, "eneg")).String()
		default:
			c.Exp = new(big.Int).SetBytes(genMag(t, "e")).String()
		}
	case "dh":
		c.Ints = [][]byte{genMag(t, "p"), genMag(t, "g")}
		for _, l := range []string{"spub", "spriv", "cpub", "cpriv", "sk"} {
			c.Ints = append(c.Ints, genOptMag(t, l))
		}
	case "ecpoint":
		c.Ints = [][]byte{genMag(t, "x"), genOptMag(t, "y")}
	case "ecdh":
		c.Curve = rapid.SampledFrom([]int{0, 23, 24, 25, 29, 4588, 65535}).Draw(t, "curve")
		c.Mask = rapid.IntRange(0, 15).Draw(t, "mask")
		c.SetC = rapid.Bool().Draw(t, "setc")
		c.Ints = [][]byte{genMag(t, "sx"), genOptMag(t, "sy"), genMag(t, "cx"), genOptMag(t, "cy")}
		c.Bytes = rapid.SliceOfN(rapid.Byte(), 0, 40).Draw(t, "priv")
		c.N = rapid.IntRange(0, 600).Draw(t, "len")
	case "rsa-client":
		c.Bytes = rapid.SliceOfN(rapid.Byte(), 0, 300).Draw(t, "pms")
		c.N = rapid.IntRange(0, 65535).Draw(t, "len")
	case "ecdh-private":
		c.Bytes = rapid.SliceOfN(rapid.Byte(), 0, 70).Draw(t, "val")
		c.N = rapid.IntRange(0, 600).Draw(t, "len")
	}
	return c
}

func bi(b []byte) *big.Int {
	if b == nil {
		return nil
	}
	return new(big.Int).SetBytes(b)
}

func cmpInt(name string, a, b *big.Int) (string, string) {
	switch {
	case a == nil && b == nil:
		return "", ""
	case a == nil || b == nil:
		return name, fmt.Sprintf("%s: nil-ness differs (want nil=%v, got nil=%v)", name, a == nil, b == nil)
	case a.Cmp(b) != 0:
		return name, fmt.Sprintf("%s: got %s, want %s", name, b, a)
	}
	return "", ""
}

func first(pairs ...[2]string) (string, string) {
	for _, p := range pairs {
		if p[0] != "" || p[1] != "" {
			return p[0], p[1]
		}
	}
	return "", ""
}

func pair(a, b string) [2]string { return [2]string{a, b} }

func eqPoint(name string, a, b *zjson.ECPoint) (string, string) {
	switch {
	case a == nil && b == nil:
		return "", ""
	case a == nil || b == nil:
		return name, name + ": nil-ness differs"
	}
	return first(pair(cmpInt(name+".x", a.X, b.X)), pair(cmpInt(name+".y", a.Y, b.Y)))
}

func eqPriv(name string, a, b *zjson.ECDHPrivateParams) (string, string) {
	switch {
	case a == nil && b == nil:
		return "", ""
	case a == nil || b == nil:
		return name, name + ": nil-ness differs"
	case !bytes.Equal(a.Value, b.Value) || a.Length != b.Length:
		return name, fmt.Sprintf("%s: got %+v, want %+v", name, *b, *a)
	}
	return "", ""
}

func checkParam(c ParamCase, r *kit.R) {
	r.Class("kind=" + c.Kind)
	omitted := false
	for _, b := range c.Ints {
		if b == nil {
			omitted = true
		}
	}
	switch c.Kind {
	case "rsa":
		e, ok := new(big.Int).SetString(c.Exp, 10)
		if !ok {
			r.Failf("harness:case", "bad exponent %q", c.Exp)
		}
		if e.Sign() < 0 {
			r.Class("rsa/negative-exponent")
		}
		v := zjson.RSAPublicKey{PublicKey: &zrsa.PublicKey{N: bi(c.Ints[0]), E: e}}
		roundTrip(r, "json.RSAPublicKey", &v, func(a, b *zjson.RSAPublicKey) (string, string) {
			if b.PublicKey == nil {
				return "nil-key", "decoded key is nil"
			}
			return first(pair(cmpInt("modulus", a.N, b.N)), pair(cmpInt("exponent", a.E, b.E)))
		})
	case "rsa-nil":
		// The wrapper without a key is a degenerate value (zcrypto always fills the key; a nil N or E
		// is excluded from the domain for the same reason): MarshalJSON tolerates it, the decoder
		// returns a zero key.  Only totality is asserted; the outcome is recorded as a class.
		omitted = true
		v := zjson.RSAPublicKey{}
		roundTripOpt(r, "json.RSAPublicKey", &v, func(a, b *zjson.RSAPublicKey) (string, string) {
			if b.PublicKey != nil {
				r.Class("rsa-nil/decodes-to-zero-key")
			}
			return "", ""
		}, func() bool { return true })
	case "dh":
		v := zjson.DHParams{Prime: bi(c.Ints[0]), Generator: bi(c.Ints[1]), ServerPublic: bi(c.Ints[2]), ServerPrivate: bi(c.Ints[3]),
			ClientPublic: bi(c.Ints[4]), ClientPrivate: bi(c.Ints[5]), SessionKey: bi(c.Ints[6])}
		roundTrip(r, "json.DHParams", &v, func(a, b *zjson.DHParams) (string, string) {
			return first(pair(cmpInt("prime", a.Prime, b.Prime)), pair(cmpInt("generator", a.Generator, b.Generator)),
				pair(cmpInt("server_public", a.ServerPublic, b.ServerPublic)), pair(cmpInt("server_private", a.ServerPrivate, b.ServerPrivate)),
				pair(cmpInt("client_public", a.ClientPublic, b.ClientPublic)), pair(cmpInt("client_private", a.ClientPrivate, b.ClientPrivate)),
				pair(cmpInt("session_key", a.SessionKey, b.SessionKey)))
		})
	case "ecpoint":
		if c.Ints[1] == nil {
			r.Class("ecpoint/no-y")
		}
		v := zjson.ECPoint{X: bi(c.Ints[0]), Y: bi(c.Ints[1])}
		roundTrip(r, "json.ECPoint", &v, func(a, b *zjson.ECPoint) (string, string) { return eqPoint("point", a, b) })
	case "ecdh":
		v := zjson.ECDHParams{TLSCurveID: zjson.TLSCurveID(c.Curve)}
		if c.SetC {
			v.Curve = elliptic.P256()
		}
		if c.Mask&1 != 0 {
			v.ServerPublic = &zjson.ECPoint{X: bi(c.Ints[0]), Y: bi(c.Ints[1])}
			if c.Ints[1] == nil {
				r.Class("ecdh/point-no-y")
			}
		}
		if c.Mask&2 != 0 {
			v.ServerPrivate = &zjson.ECDHPrivateParams{Value: c.Bytes, Length: c.N}
		}
		if c.Mask&4 != 0 {
			v.ClientPublic = &zjson.ECPoint{X: bi(c.Ints[2]), Y: bi(c.Ints[3])}
			if c.Ints[3] == nil {
				r.Class("ecdh/point-no-y")
			}
		}
		if c.Mask&8 != 0 {
			v.ClientPrivate = &zjson.ECDHPrivateParams{Value: c.Bytes, Length: c.N}
		}
		omitted = c.Mask != 15 || omitted
		roundTrip(r, "json.ECDHParams", &v, func(a, b *zjson.ECDHParams) (string, string) {
			if a.TLSCurveID != b.TLSCurveID {
				return "curve_id", fmt.Sprintf("curve_id: got %d, want %d", b.TLSCurveID, a.TLSCurveID)
			}
			return first(pair(eqPoint("server_public", a.ServerPublic, b.ServerPublic)), pair(eqPriv("server_private", a.ServerPrivate, b.ServerPrivate)),
				pair(eqPoint("client_public", a.ClientPublic, b.ClientPublic)), pair(eqPriv("client_private", a.ClientPrivate, b.ClientPrivate)))
		})
	case "rsa-client":
		v := zjson.RSAClientParams{Length: uint16(c.N), EncryptedPMS: c.Bytes}
		omitted = c.N == 0 || len(c.Bytes) == 0
		roundTrip(r, "json.RSAClientParams", &v, func(a, b *zjson.RSAClientParams) (string, string) {
			if a.Length != b.Length || !bytes.Equal(a.EncryptedPMS, b.EncryptedPMS) {
				return "", fmt.Sprintf("got %+v, want %+v", *b, *a)
			}
			return "", ""
		})
	case "ecdh-private":
		v := zjson.ECDHPrivateParams{Value: c.Bytes, Length: c.N}
		omitted = c.N == 0 || len(c.Bytes) == 0
		roundTrip(r, "json.ECDHPrivateParams", &v, func(a, b *zjson.ECDHPrivateParams) (string, string) { return eqPriv("", a, b) })
	default:
		r.Failf("harness:case", "unknown kind %q", c.Kind)
	}
	if omitted {
		r.Class("optional-member-omitted")
		r.NonTrivial()
	}
}

func TestPropParams(t *testing.T) {
	kit.Run(t, kit.Spec[ParamCase]{ID: "C33", Name: "params", Gen: genParam, Check: checkParam,
		Rule:  "random json.RSAPublicKey (modulus 0..2048 bits, exponent small / huge / zero / negative; also the key-less wrapper), DHParams (prime, generator + each of 5 optional members present or absent), ECPoint (with and without Y), ECDHParams (curve id, each of 4 optional members present/absent, points with and without Y, Curve member set or not), RSAClientParams, ECDHPrivateParams; non-trivial: at least one optional member omitted; distinct by case hash",
		Quick: 1500, Thorough: 100000,
		Assumptions: []string{
			"big integers are non-negative magnitudes (the encodings carry no sign), required members (RSA key, N and E, DH prime and generator, point X) are non-nil; the key-less RSAPublicKey wrapper is only required not to panic",
			"ECDHParams.Curve is tagged json:\"-\" and is not compared; nil and empty byte slices are identified",
		}})
}
