package c33

import (
	"bytes"
	"encoding/json"
	"fmt"
	"net"
	"reflect"
	"sort"
	"testing"

	zasn1 "github.com/zmap/zcrypto/encoding/asn1"
	zx509 "github.com/zmap/zcrypto/x509"
	"github.com/zmap/zcrypto/x509/pkix"
	"pgregory.net/rapid"
	"verifharness/kit"
)

// ---- specs (JSON-serialisable descriptions of the values) --------------------

// the attribute types pkix.Name shows in JSON, with their JSON member names
var nameAttrs = []struct {
	JSON string
	OID  []int
}{
	{"common_name", []int{2, 5, 4, 3}},
	{"serial_number", []int{2, 5, 4, 5}},
	{"country", []int{2, 5, 4, 6}},
	{"locality", []int{2, 5, 4, 7}},
	{"province", []int{2, 5, 4, 8}},
	{"street_address", []int{2, 5, 4, 9}},
	{"organization", []int{2, 5, 4, 10}},
	{"organizational_unit", []int{2, 5, 4, 11}},
	{"postal_code", []int{2, 5, 4, 17}},
	{"domain_component", []int{0, 9, 2342, 19200300, 100, 1, 25}},
	{"email_address", []int{1, 2, 840, 113549, 1, 9, 1}},
	{"given_name", []int{2, 5, 4, 42}},
	{"surname", []int{2, 5, 4, 4}},
	{"jurisdiction_country", []int{1, 3, 6, 1, 4, 1, 311, 60, 2, 1, 3}},
	{"jurisdiction_locality", []int{1, 3, 6, 1, 4, 1, 311, 60, 2, 1, 1}},
	{"jurisdiction_province", []int{1, 3, 6, 1, 4, 1, 311, 60, 2, 1, 2}},
	{"organization_id", []int{2, 5, 4, 97}},
}

type AttrSpec struct {
	A int    `json:"a"` // index into nameAttrs
	V string `json:"v"`
}

// NameSpec: a distinguished name given as a list of (known attribute, string).
// RDN: build it the way the parser does (FillFromRDNSequence, OriginalRDNS kept);
// otherwise through the exported struct fields (+ ExtraNames for what has no field
// that ToRDNSequence reads: given name, surname, further common names / serial numbers).
type NameSpec struct {
	RDN   bool       `json:"rdn"`
	Attrs []AttrSpec `json:"attrs"`
}

func (s NameSpec) build() pkix.Name {
	var n pkix.Name
	if s.RDN {
		var rdns pkix.RDNSequence
		for _, a := range s.Attrs {
			at := nameAttrs[a.A%len(nameAttrs)]
			rdns = append(rdns, pkix.RelativeDistinguishedNameSET{{Type: append(zasn1.ObjectIdentifier{}, at.OID...), Value: a.V}})
		}
		if rdns == nil {
			rdns = pkix.RDNSequence{}
		}
		n.FillFromRDNSequence(&rdns)
		return n
	}
	for _, a := range s.Attrs {
		at := nameAttrs[a.A%len(nameAttrs)]
		extra := func() {
			n.ExtraNames = append(n.ExtraNames, pkix.AttributeTypeAndValue{Type: append(zasn1.ObjectIdentifier{}, at.OID...), Value: a.V})
		}
		switch at.JSON {
		case "common_name":
			if n.CommonName == "" && len(n.ExtraNames) == 0 {
				n.CommonName = a.V
			} else {
				extra()
			}
		case "serial_number":
			extra()
		case "country":
			n.Country = append(n.Country, a.V)
		case "locality":
			n.Locality = append(n.Locality, a.V)
		case "province":
			n.Province = append(n.Province, a.V)
		case "street_address":
			n.StreetAddress = append(n.StreetAddress, a.V)
		case "organization":
			n.Organization = append(n.Organization, a.V)
		case "organizational_unit":
			n.OrganizationalUnit = append(n.OrganizationalUnit, a.V)
		case "postal_code":
			n.PostalCode = append(n.PostalCode, a.V)
		case "domain_component":
			n.DomainComponent = append(n.DomainComponent, a.V)
		case "email_address":
			n.EmailAddress = append(n.EmailAddress, a.V)
		case "jurisdiction_country":
			n.JurisdictionCountry = append(n.JurisdictionCountry, a.V)
		case "jurisdiction_locality":
			n.JurisdictionLocality = append(n.JurisdictionLocality, a.V)
		case "jurisdiction_province":
			n.JurisdictionProvince = append(n.JurisdictionProvince, a.V)
		case "organization_id":
			n.OrganizationIDs = append(n.OrganizationIDs, a.V)
		default: // given_name, surname
			extra()
		}
	}
	return n
}

type IPNetSpec struct {
	IP   []byte `json:"ip"`   // 4 or 16 bytes
	Ones int    `json:"ones"` // prefix length
}

func (s IPNetSpec) build() zx509.GeneralSubtreeIP {
	bits := 8 * len(s.IP)
	ones := s.Ones
	if ones > bits {
		ones = bits
	}
	return zx509.GeneralSubtreeIP{Data: net.IPNet{IP: net.IP(append([]byte{}, s.IP...)), Mask: net.CIDRMask(ones, bits)}}
}

type OtherNameSpec struct {
	OID []int  `json:"oid"`
	Val []byte `json:"val"`
}

type EDISpec struct {
	Assigner string `json:"assigner"`
	Party    string `json:"party"`
}

type GNSpec struct {
	Dir   []NameSpec      `json:"dir,omitempty"`
	DNS   []string        `json:"dns,omitempty"`
	EDI   []EDISpec       `json:"edi,omitempty"`
	Email []string        `json:"email,omitempty"`
	IPs   [][]byte        `json:"ips,omitempty"`
	Other []OtherNameSpec `json:"other,omitempty"`
	RIDs  [][]int         `json:"rids,omitempty"`
	URIs  []string        `json:"uris,omitempty"`
}

type NCSpec struct {
	Critical bool        `json:"critical"`
	DNS      [2][]string `json:"dns"` // [permitted, excluded]
	Email    [2][]string `json:"email"`
	URI      [2][]string `json:"uri"`
	IP       [2][]IPNetSpec
	Dir      [2][]NameSpec
	EDI      [2][]EDISpec
	RID      [2][][]int
}

// NamesCase is one value of one of the x509 name-ish types.
type NamesCase struct {
	Kind  string         `json:"kind"` // name | atv | othername | extension | edi | generalnames | nameconstraints | subtree-ip | auxoid
	Name  *NameSpec      `json:"name,omitempty"`
	OID   []int          `json:"oid,omitempty"`
	Str   string         `json:"str,omitempty"`
	Bytes []byte         `json:"bytes,omitempty"`
	Flag  bool           `json:"flag,omitempty"`
	EDI   *EDISpec       `json:"edi,omitempty"`
	GN    *GNSpec        `json:"gn,omitempty"`
	NC    *NCSpec        `json:"nc,omitempty"`
	IP    *IPNetSpec     `json:"ip,omitempty"`
	Other *OtherNameSpec `json:"other,omitempty"`
}

// ---- generators ------------------------------------------------------------------

var strAlphabet = []rune("abcXYZ019 .-_@/:,+='\"\\<>&\u00e9\u00df\u4e2d\u2028\U0001F512\t\n\x00")

func genStr(t *rapid.T, label string) string {
	switch rapid.IntRange(0, 9).Draw(t, label+"k") {
	case 0:
		return ""
	case 1:
		return rapid.SampledFrom([]string{"example.com", "US", "Example Org, Inc.", "a@b.example", "https://example.com/x?y=1&z=<2>", "null", "0", "\"quoted\""}).Draw(t, label+"c")
	default:
		return string(rapid.SliceOfN(rapid.SampledFrom(strAlphabet), 1, 12).Draw(t, label+"r"))
	}
}

func genStrs(t *rapid.T, label string, max int) []string {
	n := rapid.IntRange(0, max).Draw(t, label+"n")
	var out []string
	for i := 0; i < n; i++ {
		out = append(out, genStr(t, label))
	}
	return out
}

// valid object identifiers: first arc 0..2, second < 40 for 0/1, arcs up to 2^31-1
func genOID(t *rapid.T, label string) []int {
	first := rapid.IntRange(0, 2).Draw(t, label+"0")
	second := rapid.IntRange(0, 39).Draw(t, label+"1")
	oid := []int{first, second}
	n := rapid.IntRange(0, 8).Draw(t, label+"n")
	for i := 0; i < n; i++ {
		switch rapid.IntRange(0, 5).Draw(t, label+"k") {
		case 0:
			oid = append(oid, 0)
		case 1:
			oid = append(oid, 1<<31-1)
		default:
			oid = append(oid, rapid.IntRange(0, 1<<20).Draw(t, label+"a"))
		}
	}
	return oid
}

func genNameSpec(t *rapid.T, label string) NameSpec {
	s := NameSpec{RDN: rapid.Bool().Draw(t, label+"rdn")}
	n := rapid.SampledFrom([]int{0, 1, 1, 1, 2, 3, 5, 8}).Draw(t, label+"n")
	for i := 0; i < n; i++ {
		v := genStr(t, label+"v")
		if v == "" {
			v = "x" // X.520: DirectoryString SIZE (1..MAX)
		}
		s.Attrs = append(s.Attrs, AttrSpec{A: rapid.IntRange(0, len(nameAttrs)-1).Draw(t, label+"a"), V: v})
	}
	return s
}

func genIPNet(t *rapid.T, label string) IPNetSpec {
	n := rapid.SampledFrom([]int{4, 4, 16}).Draw(t, label+"len")
	ip := rapid.SliceOfN(rapid.Byte(), n, n).Draw(t, label+"ip")
	if n == 16 && ip[0] == 0 {
		ip[0] = 0x20 // keep clear of IPv4-mapped / IPv4-compatible forms, which net.IPNet prints as IPv4
	}
	return IPNetSpec{IP: ip, Ones: rapid.IntRange(0, 8*n).Draw(t, label+"ones")}
}

func genEDI(t *rapid.T, label string) EDISpec {
	return EDISpec{Assigner: genStr(t, label+"a"), Party: genStr(t, label+"p")}
}

func genOther(t *rapid.T, label string) OtherNameSpec {
	return OtherNameSpec{OID: genOID(t, label+"oid"), Val: rapid.SliceOfN(rapid.Byte(), 0, 20).Draw(t, label+"val")}
}

func genGN(t *rapid.T) GNSpec {
	var g GNSpec
	pick := func(l string) int { return rapid.SampledFrom([]int{0, 0, 1, 2}).Draw(t, l) }
	for i, n := 0, pick("ndir"); i < n; i++ {
		g.Dir = append(g.Dir, genNameSpec(t, "dir"))
	}
	g.DNS = genStrs(t, "dns", 3)
	for i, n := 0, pick("nedi"); i < n; i++ {
		g.EDI = append(g.EDI, genEDI(t, "edi"))
	}
	g.Email = genStrs(t, "email", 2)
	for i, n := 0, pick("nip"); i < n; i++ {
		l := rapid.SampledFrom([]int{4, 16}).Draw(t, "iplen")
		ip := rapid.SliceOfN(rapid.Byte(), l, l).Draw(t, "ip")
		if l == 16 && ip[0] == 0 {
			ip[0] = 0x20
		}
		g.IPs = append(g.IPs, ip)
	}
	for i, n := 0, pick("nother"); i < n; i++ {
		g.Other = append(g.Other, genOther(t, "other"))
	}
	for i, n := 0, pick("nrid"); i < n; i++ {
		g.RIDs = append(g.RIDs, genOID(t, "rid"))
	}
	g.URIs = genStrs(t, "uri", 2)
	return g
}

func genNC(t *rapid.T) NCSpec {
	nc := NCSpec{Critical: rapid.Bool().Draw(t, "critical")}
	pick := func(l string) int { return rapid.SampledFrom([]int{0, 0, 0, 1, 2}).Draw(t, l) }
	for side := 0; side < 2; side++ {
		nc.DNS[side] = genStrs(t, "dns", 2)
		nc.Email[side] = genStrs(t, "email", 1)
		nc.URI[side] = genStrs(t, "uri", 1)
		for i, n := 0, pick("nip"); i < n; i++ {
			nc.IP[side] = append(nc.IP[side], genIPNet(t, "ip"))
		}
		for i, n := 0, pick("ndir"); i < n; i++ {
			nc.Dir[side] = append(nc.Dir[side], genNameSpec(t, "dir"))
		}
		for i, n := 0, pick("nedi"); i < n; i++ {
			nc.EDI[side] = append(nc.EDI[side], genEDI(t, "edi"))
		}
		for i, n := 0, pick("nrid"); i < n; i++ {
			nc.RID[side] = append(nc.RID[side], genOID(t, "rid"))
		}
	}
	return nc
}

func genNames(t *rapid.T) NamesCase {
	c := NamesCase{Kind: rapid.SampledFrom([]string{"name", "name", "name", "name", "atv", "othername", "extension", "edi", "generalnames", "generalnames", "nameconstraints", "nameconstraints", "subtree-ip", "auxoid"}).Draw(t, "kind")}
	switch c.Kind {
	case "name":
		s := genNameSpec(t, "n")
		c.Name = &s
	case "atv":
		if rapid.IntRange(0, 4).Draw(t, "emptytype") != 0 {
			c.OID = genOID(t, "oid")
		}
		c.Str = genStr(t, "v")
	case "othername":
		s := genOther(t, "o")
		c.Other = &s
	case "extension":
		c.OID = genOID(t, "oid")
		c.Flag = rapid.Bool().Draw(t, "critical")
		c.Bytes = rapid.SliceOfN(rapid.Byte(), 0, 40).Draw(t, "val")
	case "edi":
		s := genEDI(t, "e")
		c.EDI = &s
	case "generalnames":
		s := genGN(t)
		c.GN = &s
	case "nameconstraints":
		s := genNC(t)
		c.NC = &s
	case "subtree-ip":
		s := genIPNet(t, "ip")
		c.IP = &s
	case "auxoid":
		c.OID = genOID(t, "oid")
	}
	return c
}

// ---- equality ----------------------------------------------------------------------

// nameView is what pkix.Name shows in JSON: member -> values in order.
func nameView(n *pkix.Name) (map[string][]string, error) {
	b, err := json.Marshal(n)
	if err != nil {
		return nil, err
	}
	m := map[string][]string{}
	if err := json.Unmarshal(b, &m); err != nil {
		return nil, err
	}
	return m, nil
}

// eqName compares the JSON-visible content of two names: the detail is the first
// (alphabetically) JSON member that differs.
func eqName(a, b *pkix.Name) (string, string) { return eqNameSkip(a, b, nil) }

// eqNameSkip: members whose loss is a listed known finding (skip(member) == true) are passed
// over so that the remaining members are still compared.
func eqNameSkip(a, b *pkix.Name, skip func(member string) bool) (string, string) {
	va, err := nameView(a)
	if err != nil {
		return "view", err.Error()
	}
	vb, err := nameView(b)
	if err != nil {
		return "view", err.Error()
	}
	keys := map[string]bool{}
	for k := range va {
		keys[k] = true
	}
	for k := range vb {
		keys[k] = true
	}
	var ks []string
	for k := range keys {
		ks = append(ks, k)
	}
	sort.Strings(ks)
	for _, k := range ks {
		if !reflect.DeepEqual(va[k], vb[k]) {
			if skip != nil && skip(k) {
				continue
			}
			return k, fmt.Sprintf("member %q: encoded %q, after decoding %q", k, va[k], vb[k])
		}
	}
	return "", ""
}

func eqStrs(name string, a, b []string) (string, string) {
	if len(a) != len(b) {
		return name, fmt.Sprintf("%s: %d values, want %d", name, len(b), len(a))
	}
	for i := range a {
		if a[i] != b[i] {
			return name, fmt.Sprintf("%s[%d]: got %q, want %q", name, i, b[i], a[i])
		}
	}
	return "", ""
}

func eqOID(name string, a, b zasn1.ObjectIdentifier) (string, string) {
	if !a.Equal(b) {
		return name, fmt.Sprintf("%s: got %v, want %v", name, b, a)
	}
	return "", ""
}

func eqOther(name string, a, b *pkix.OtherName) (string, string) {
	if d, m := eqOID(name+".id", a.TypeID, b.TypeID); d != "" {
		return d, m
	}
	if !bytes.Equal(a.Value.Bytes, b.Value.Bytes) {
		return name + ".value", fmt.Sprintf("%s.value: got %x, want %x", name, b.Value.Bytes, a.Value.Bytes)
	}
	return "", ""
}

func eqIPNet(name string, a, b *zx509.GeneralSubtreeIP) (string, string) {
	ao, ab := a.Data.Mask.Size()
	bo, bb := b.Data.Mask.Size()
	if !a.Data.IP.Equal(b.Data.IP) || ao != bo || ab != bb || a.Min != b.Min || a.Max != b.Max {
		return name, fmt.Sprintf("%s: got %v (min %d max %d), want %v (min %d max %d)", name, b.Data.String(), b.Min, b.Max, a.Data.String(), a.Min, a.Max)
	}
	return "", ""
}

func eqGN(a, b *zx509.GeneralNames) (string, string) { return eqGNSkip(a, b, nil) }

func eqGNSkip(a, b *zx509.GeneralNames, skip func(string) bool) (string, string) {
	if len(a.DirectoryNames) != len(b.DirectoryNames) {
		return "directory_names", "number of directory names differs"
	}
	for i := range a.DirectoryNames {
		if d, m := eqNameSkip(&a.DirectoryNames[i], &b.DirectoryNames[i], skip); d != "" {
			return "@pkix.Name:" + d, "directory name: " + m
		}
	}
	if len(a.EDIPartyNames) != len(b.EDIPartyNames) {
		return "edi_party_names", "number of EDI party names differs"
	}
	for i := range a.EDIPartyNames {
		if a.EDIPartyNames[i] != b.EDIPartyNames[i] {
			return "edi_party_names", fmt.Sprintf("edi party name %d: got %+v, want %+v", i, b.EDIPartyNames[i], a.EDIPartyNames[i])
		}
	}
	if len(a.IPAddresses) != len(b.IPAddresses) {
		return "ip_addresses", "number of IP addresses differs"
	}
	for i := range a.IPAddresses {
		if !a.IPAddresses[i].Equal(b.IPAddresses[i]) {
			return "ip_addresses", fmt.Sprintf("ip %d: got %v, want %v", i, b.IPAddresses[i], a.IPAddresses[i])
		}
	}
	if len(a.OtherNames) != len(b.OtherNames) {
		return "other_names", "number of other names differs"
	}
	for i := range a.OtherNames {
		if d, m := eqOther("other_names", &a.OtherNames[i], &b.OtherNames[i]); d != "" {
			return d, m
		}
	}
	if len(a.RegisteredIDs) != len(b.RegisteredIDs) {
		return "registered_ids", "number of registered ids differs"
	}
	for i := range a.RegisteredIDs {
		if d, m := eqOID("registered_ids", a.RegisteredIDs[i], b.RegisteredIDs[i]); d != "" {
			return d, m
		}
	}
	return first(pair(eqStrs("dns_names", a.DNSNames, b.DNSNames)), pair(eqStrs("email_addresses", a.EmailAddresses, b.EmailAddresses)),
		pair(eqStrs("uniform_resource_identifiers", a.URIs, b.URIs)))
}

func eqNC(a, b *zx509.NameConstraints) (string, string) { return eqNCSkip(a, b, nil) }

func eqNCSkip(a, b *zx509.NameConstraints, skip func(string) bool) (string, string) {
	if a.Critical != b.Critical {
		return "critical", "critical flag differs"
	}
	strs := func(name string, x, y []zx509.GeneralSubtreeString) (string, string) {
		if len(x) != len(y) {
			return name, fmt.Sprintf("%s: %d entries, want %d", name, len(y), len(x))
		}
		for i := range x {
			if x[i] != y[i] {
				return name, fmt.Sprintf("%s[%d]: got %+v, want %+v", name, i, y[i], x[i])
			}
		}
		return "", ""
	}
	ips := func(name string, x, y []zx509.GeneralSubtreeIP) (string, string) {
		if len(x) != len(y) {
			return name, fmt.Sprintf("%s: %d entries, want %d", name, len(y), len(x))
		}
		for i := range x {
			if d, m := eqIPNet(name, &x[i], &y[i]); d != "" {
				return d, m
			}
		}
		return "", ""
	}
	dirs := func(name string, x, y []zx509.GeneralSubtreeName) (string, string) {
		if len(x) != len(y) {
			return name, fmt.Sprintf("%s: %d entries, want %d", name, len(y), len(x))
		}
		for i := range x {
			if d, m := eqNameSkip(&x[i].Data, &y[i].Data, skip); d != "" {
				return "@pkix.Name:" + d, name + ": " + m
			}
			if x[i].Min != y[i].Min || x[i].Max != y[i].Max {
				return name, "min/max differ"
			}
		}
		return "", ""
	}
	edis := func(name string, x, y []zx509.GeneralSubtreeEdi) (string, string) {
		if len(x) != len(y) {
			return name, fmt.Sprintf("%s: %d entries, want %d", name, len(y), len(x))
		}
		for i := range x {
			if x[i] != y[i] {
				return name, fmt.Sprintf("%s[%d]: got %+v, want %+v", name, i, y[i], x[i])
			}
		}
		return "", ""
	}
	oids := func(name string, x, y []zx509.GeneralSubtreeOid) (string, string) {
		if len(x) != len(y) {
			return name, fmt.Sprintf("%s: %d entries, want %d", name, len(y), len(x))
		}
		for i := range x {
			if d, m := eqOID(name, x[i].Data, y[i].Data); d != "" {
				return d, m
			}
		}
		return "", ""
	}
	return first(
		pair(strs("permitted_names", a.PermittedDNSNames, b.PermittedDNSNames)), pair(strs("excluded_names", a.ExcludedDNSNames, b.ExcludedDNSNames)),
		pair(strs("permitted_email_addresses", a.PermittedEmailAddresses, b.PermittedEmailAddresses)), pair(strs("excluded_email_addresses", a.ExcludedEmailAddresses, b.ExcludedEmailAddresses)),
		pair(strs("permitted_uris", a.PermittedURIs, b.PermittedURIs)), pair(strs("excluded_uris", a.ExcludedURIs, b.ExcludedURIs)),
		pair(ips("permitted_ip_addresses", a.PermittedIPAddresses, b.PermittedIPAddresses)), pair(ips("excluded_ip_addresses", a.ExcludedIPAddresses, b.ExcludedIPAddresses)),
		pair(dirs("permitted_directory_names", a.PermittedDirectoryNames, b.PermittedDirectoryNames)), pair(dirs("excluded_directory_names", a.ExcludedDirectoryNames, b.ExcludedDirectoryNames)),
		pair(edis("permitted_edi_party_names", a.PermittedEdiPartyNames, b.PermittedEdiPartyNames)), pair(edis("excluded_edi_party_names", a.ExcludedEdiPartyNames, b.ExcludedEdiPartyNames)),
		pair(oids("permitted_registered_ids", a.PermittedRegisteredIDs, b.PermittedRegisteredIDs)), pair(oids("excluded_registered_ids", a.ExcludedRegisteredIDs, b.ExcludedRegisteredIDs)),
	)
}

// ---- check -------------------------------------------------------------------------

func buildOther(s OtherNameSpec) pkix.OtherName {
	o := pkix.OtherName{TypeID: append(zasn1.ObjectIdentifier{}, s.OID...)}
	o.Value = zasn1.RawValue{Tag: 0, Class: zasn1.ClassContextSpecific, IsCompound: true, Bytes: s.Val}
	return o
}

func oids(in [][]int) []zasn1.ObjectIdentifier {
	var out []zasn1.ObjectIdentifier
	for _, o := range in {
		out = append(out, append(zasn1.ObjectIdentifier{}, o...))
	}
	return out
}

func nameClasses(r *kit.R, s NameSpec) {
	if s.RDN {
		r.Class("name/from-rdn-sequence")
	} else {
		r.Class("name/from-fields")
	}
	for _, a := range s.Attrs {
		r.Class("name/attr=" + nameAttrs[a.A%len(nameAttrs)].JSON)
	}
}

func checkNames(c NamesCase, r *kit.R) {
	r.Class("kind=" + c.Kind)
	omitted := false
	knownLoss := false
	skip := func(member string) bool {
		if r.Known("C33:roundtrip:pkix.Name:" + member) {
			knownLoss = true
			return true
		}
		return false
	}
	lossy := func() bool { return knownLoss }
	switch c.Kind {
	case "name":
		nameClasses(r, *c.Name)
		v := c.Name.build()
		omitted = len(c.Name.Attrs) < len(nameAttrs)
		roundTripOpt(r, "pkix.Name", &v, func(a, b *pkix.Name) (string, string) { return eqNameSkip(a, b, skip) }, lossy)
	case "atv":
		v := pkix.AttributeTypeAndValue{Type: append(zasn1.ObjectIdentifier{}, c.OID...), Value: c.Str}
		omitted = len(c.OID) == 0 || c.Str == ""
		roundTrip(r, "pkix.AttributeTypeAndValue", &v, func(a, b *pkix.AttributeTypeAndValue) (string, string) {
			if d, m := eqOID("type", a.Type, b.Type); d != "" {
				return d, m
			}
			if s, ok := b.Value.(string); !ok || s != a.Value.(string) {
				return "value", fmt.Sprintf("value: got %#v, want %q", b.Value, a.Value)
			}
			return "", ""
		})
	case "othername":
		v := buildOther(*c.Other)
		omitted = len(c.Other.Val) == 0
		roundTrip(r, "pkix.OtherName", &v, func(a, b *pkix.OtherName) (string, string) { return eqOther("other_name", a, b) })
	case "extension":
		v := pkix.Extension{Id: append(zasn1.ObjectIdentifier{}, c.OID...), Critical: c.Flag, Value: c.Bytes}
		omitted = len(c.Bytes) == 0
		roundTrip(r, "pkix.Extension", &v, func(a, b *pkix.Extension) (string, string) {
			if d, m := eqOID("id", a.Id, b.Id); d != "" {
				return d, m
			}
			if a.Critical != b.Critical || !bytes.Equal(a.Value, b.Value) {
				return "value", fmt.Sprintf("got critical=%v value=%x, want critical=%v value=%x", b.Critical, b.Value, a.Critical, a.Value)
			}
			return "", ""
		})
	case "edi":
		v := pkix.EDIPartyName{NameAssigner: c.EDI.Assigner, PartyName: c.EDI.Party}
		omitted = c.EDI.Assigner == ""
		roundTrip(r, "pkix.EDIPartyName", &v, eqSimple[pkix.EDIPartyName])
	case "generalnames":
		g := c.GN
		v := zx509.GeneralNames{DNSNames: g.DNS, EmailAddresses: g.Email, URIs: g.URIs, RegisteredIDs: oids(g.RIDs)}
		for _, s := range g.Dir {
			nameClasses(r, s)
			v.DirectoryNames = append(v.DirectoryNames, s.build())
		}
		for _, e := range g.EDI {
			v.EDIPartyNames = append(v.EDIPartyNames, pkix.EDIPartyName{NameAssigner: e.Assigner, PartyName: e.Party})
		}
		for _, ip := range g.IPs {
			v.IPAddresses = append(v.IPAddresses, net.IP(append([]byte{}, ip...)))
		}
		for _, o := range g.Other {
			v.OtherNames = append(v.OtherNames, buildOther(o))
		}
		omitted = len(g.Dir) == 0 || len(g.DNS) == 0 || len(g.EDI) == 0 || len(g.Email) == 0 || len(g.IPs) == 0 || len(g.Other) == 0 || len(g.RIDs) == 0 || len(g.URIs) == 0
		roundTripOpt(r, "x509.GeneralNames", &v, func(a, b *zx509.GeneralNames) (string, string) { return eqGNSkip(a, b, skip) }, lossy)
	case "nameconstraints":
		n := c.NC
		v := zx509.NameConstraints{Critical: n.Critical}
		str := func(in []string) (out []zx509.GeneralSubtreeString) {
			for _, s := range in {
				out = append(out, zx509.GeneralSubtreeString{Data: s})
			}
			return
		}
		ip := func(in []IPNetSpec) (out []zx509.GeneralSubtreeIP) {
			for _, s := range in {
				out = append(out, s.build())
			}
			return
		}
		dir := func(in []NameSpec) (out []zx509.GeneralSubtreeName) {
			for _, s := range in {
				nameClasses(r, s)
				out = append(out, zx509.GeneralSubtreeName{Data: s.build()})
			}
			return
		}
		edi := func(in []EDISpec) (out []zx509.GeneralSubtreeEdi) {
			for _, e := range in {
				out = append(out, zx509.GeneralSubtreeEdi{Data: pkix.EDIPartyName{NameAssigner: e.Assigner, PartyName: e.Party}})
			}
			return
		}
		rid := func(in [][]int) (out []zx509.GeneralSubtreeOid) {
			for _, o := range in {
				out = append(out, zx509.GeneralSubtreeOid{Data: append(zasn1.ObjectIdentifier{}, o...)})
			}
			return
		}
		v.PermittedDNSNames, v.ExcludedDNSNames = str(n.DNS[0]), str(n.DNS[1])
		v.PermittedEmailAddresses, v.ExcludedEmailAddresses = str(n.Email[0]), str(n.Email[1])
		v.PermittedURIs, v.ExcludedURIs = str(n.URI[0]), str(n.URI[1])
		v.PermittedIPAddresses, v.ExcludedIPAddresses = ip(n.IP[0]), ip(n.IP[1])
		v.PermittedDirectoryNames, v.ExcludedDirectoryNames = dir(n.Dir[0]), dir(n.Dir[1])
		v.PermittedEdiPartyNames, v.ExcludedEdiPartyNames = edi(n.EDI[0]), edi(n.EDI[1])
		v.PermittedRegisteredIDs, v.ExcludedRegisteredIDs = rid(n.RID[0]), rid(n.RID[1])
		omitted = true // 14 optional lists; a case filling all of them is not generated
		v4 := false
		for side := 0; side < 2; side++ {
			for _, s := range n.IP[side] {
				v4 = v4 || len(s.IP) == 4
			}
		}
		// decoding turns a 4-byte IPv4 address into its 16-byte form (net.ParseCIDR); the value is
		// equal, but GeneralSubtreeIP.MarshalJSON then omits "end", so re-encoding is not compared
		roundTripOpt(r, "x509.NameConstraints", &v, func(a, b *zx509.NameConstraints) (string, string) { return eqNCSkip(a, b, skip) }, func() bool { return v4 || knownLoss })
	case "subtree-ip":
		v := c.IP.build()
		if len(c.IP.IP) == 4 {
			r.Class("subtree-ip/v4")
		} else {
			r.Class("subtree-ip/v6")
		}
		omitted = true
		roundTripOpt(r, "x509.GeneralSubtreeIP", &v, func(a, b *zx509.GeneralSubtreeIP) (string, string) { return eqIPNet("", a, b) }, func() bool { return len(c.IP.IP) == 4 })
	case "auxoid":
		v := pkix.AuxOID(append([]int{}, c.OID...))
		roundTrip(r, "pkix.AuxOID", &v, func(a, b *pkix.AuxOID) (string, string) {
			if !a.Equal(b) {
				return "", fmt.Sprintf("got %v, want %v", *b, *a)
			}
			return "", ""
		})
	default:
		r.Failf("harness:case", "unknown kind %q", c.Kind)
	}
	if omitted {
		r.NonTrivial()
	}
}

func TestPropNames(t *testing.T) {
	kit.Run(t, kit.Spec[NamesCase]{ID: "C33", Name: "names", Gen: genNames, Check: checkNames,
		Rule:  "random pkix.Name (0..8 attributes out of the 17 JSON-visible attribute types, built through the struct fields + ExtraNames or through FillFromRDNSequence), AttributeTypeAndValue, OtherName, Extension, EDIPartyName, AuxOID, x509.GeneralNames (8 member lists incl. directory names, IPs, other names, registered ids), NameConstraints (14 lists, permitted and excluded), GeneralSubtreeIP (IPv4/IPv6, every prefix length); strings include empty, JSON/HTML-special, non-ASCII and control characters; non-trivial: at least one optional member absent; distinct by case hash",
		Quick: 2500, Thorough: 150000,
		Assumptions: []string{
			"strings are valid UTF-8 (encoding/json replaces invalid bytes); attribute values are non-empty strings (X.520 DirectoryString SIZE (1..MAX); MarshalJSON documents non-string values as omitted); attributes outside the 17 known types are tagged json:\"-\" and not generated",
			"object identifiers are valid (>= 2 arcs, arcs <= 2^31-1); an AttributeTypeAndValue may have an empty type",
			"GeneralSubtree Min/Max are 0 (RFC 5280 4.2.1.10; the JSON form has no place for them); IP subtrees have a 4- or 16-byte address with a canonical prefix mask of the same length, IPv6 addresses are not IPv4-mapped",
			"pkix.Name equality is equality of the JSON-visible content (attribute type -> values in order), nil and empty slices are identified, net.IP compared with IP.Equal",
		}})
}
