package c33

import (
	"encoding/json"
	"fmt"
	"testing"

	zjson "github.com/zmap/zcrypto/json"
	ztls "github.com/zmap/zcrypto/tls"
	zx509 "github.com/zmap/zcrypto/x509"
	"github.com/zmap/zcrypto/x509/revocation/crl"
	"verifharness/kit"
)

// EnumCase is one value of one enumerated type.
type EnumCase struct {
	Type  string `json:"type"`
	Value int    `json:"value"`
}

type enumType struct {
	name   string
	lo, hi int // inclusive range enumerated
	// named reports whether zcrypto has a name for the value (for the histogram / non-trivial rule)
	run func(v int, r *kit.R) (named bool)
}

var enumTypes = []enumType{
	{"tls.TLSVersion", 0, 0xffff, func(v int, r *kit.R) bool {
		x := ztls.TLSVersion(v)
		roundTrip(r, "tls.TLSVersion", &x, eqSimple[ztls.TLSVersion])
		return x.String() != "unknown"
	}},
	{"tls.CipherSuiteID", 0, 0xffff, func(v int, r *kit.R) bool {
		x := ztls.CipherSuiteID(v)
		roundTrip(r, "tls.CipherSuiteID", &x, eqSimple[ztls.CipherSuiteID])
		return x.String() != "unknown"
	}},
	{"tls.CompressionMethod", 0, 0xff, func(v int, r *kit.R) bool {
		x := ztls.CompressionMethod(v)
		roundTrip(r, "tls.CompressionMethod", &x, eqSimple[ztls.CompressionMethod])
		return x.String() != "unknown"
	}},
	{"tls.PointFormat", 0, 0xff, func(v int, r *kit.R) bool {
		x := ztls.PointFormat(v)
		roundTrip(r, "tls.PointFormat", &x, eqSimple[ztls.PointFormat])
		return x.String() != "unknown"
	}},
	{"tls.CurveID", 0, 0xffff, func(v int, r *kit.R) bool {
		x := ztls.CurveID(v)
		roundTrip(r, "tls.CurveID", &x, eqSimple[ztls.CurveID])
		return x.String() != "unknown"
	}},
	{"json.TLSCurveID", 0, 0xffff, func(v int, r *kit.R) bool {
		x := zjson.TLSCurveID(v)
		roundTrip(r, "json.TLSCurveID", &x, eqSimple[zjson.TLSCurveID])
		return x.Description() != "unknown"
	}},
	{"tls.SignatureAndHash", 0, 0xffff, func(v int, r *kit.R) bool { // value = signature<<8 | hash
		x := ztls.SignatureAndHash{Signature: uint8(v >> 8), Hash: uint8(v)}
		roundTrip(r, "tls.SignatureAndHash", &x, eqSimple[ztls.SignatureAndHash])
		return uint8(v) <= 8 && uint8(v>>8) >= 225
	}},
	{"tls.ClientAuthType", 0, 5, func(v int, r *kit.R) bool {
		x := ztls.ClientAuthType(v)
		roundTrip(r, "tls.ClientAuthType", &x, eqSimple[ztls.ClientAuthType])
		return v <= 4
	}},
	{"x509.KeyUsage", 0, 1023, func(v int, r *kit.R) bool {
		x := zx509.KeyUsage(v)
		roundTrip(r, "x509.KeyUsage", &x, eqSimple[zx509.KeyUsage])
		return v < 512
	}},
	{"x509.PublicKeyAlgorithm", 0, 5, func(v int, r *kit.R) bool { // all constants
		x := zx509.PublicKeyAlgorithm(v)
		roundTrip(r, fmt.Sprintf("x509.PublicKeyAlgorithm:value=%d", v), &x, eqSimple[zx509.PublicKeyAlgorithm])
		return v != 0
	}},
	{"x509.SignatureAlgorithm", 0, 16, func(v int, r *kit.R) bool { // all constants
		x := zx509.SignatureAlgorithm(v)
		if v == 0 {
			// UnknownSignatureAlgorithm encodes with an empty OID and zcrypto's own test
			// (x509/json_test.go TestSignatureAlgorithmJSON, "Should fail on unrecognized algorithm")
			// requires decoding it to fail: outside the round-trip domain, totality only.
			g := kit.GuardInline(func() {
				b, _ := json.Marshal(&x)
				var w zx509.SignatureAlgorithm
				if err := json.Unmarshal(b, &w); err != nil {
					r.Class("x509.SignatureAlgorithm/unknown-rejected-by-design")
				}
			})
			r.Must(g, "x509.SignatureAlgorithm(0) JSON")
			return false
		}
		roundTrip(r, fmt.Sprintf("x509.SignatureAlgorithm:value=%d", v), &x, eqSimple[zx509.SignatureAlgorithm])
		return v != 0
	}},
	{"x509.CertificateType", 0, 3, func(v int, r *kit.R) bool { // all constants
		x := zx509.CertificateType(v)
		roundTrip(r, fmt.Sprintf("x509.CertificateType:value=%d", v), &x, eqSimple[zx509.CertificateType])
		return v != 0
	}},
	{"crl.RevocationReasonCode", -1, 20, func(v int, r *kit.R) bool {
		x := crl.RevocationReasonCode(v)
		roundTrip(r, fmt.Sprintf("crl.RevocationReasonCode:value=%d", v), &x, eqSimple[crl.RevocationReasonCode])
		return v >= 0 && v <= 10 && v != 7
	}},
}

func enumAll(shard, nshards int, yield func(EnumCase) bool) {
	i := 0
	for _, t := range enumTypes {
		for v := t.lo; v <= t.hi; v++ {
			i++
			if i%nshards != shard {
				continue
			}
			if !yield(EnumCase{t.name, v}) {
				return
			}
		}
	}
}

func checkEnum(c EnumCase, r *kit.R) {
	for _, t := range enumTypes {
		if t.name != c.Type {
			continue
		}
		r.Class(t.name)
		// classes first: a failing value still shows up in the histogram of its type
		named := t.run(c.Value, r)
		if named {
			r.Class("named")
		} else {
			r.Class("unnamed")
			r.NonTrivial()
		}
		return
	}
	r.Failf("harness:enum-type", "unknown enum type %q", c.Type)
}

func TestPropEnums(t *testing.T) {
	kit.Run(t, kit.Spec[EnumCase]{ID: "C33", Name: "enums", Check: checkEnum, Enum: enumAll,
		Rule: "exhaustive: every value of tls.TLSVersion, CipherSuiteID, CurveID, json.TLSCurveID (0..65535), CompressionMethod, PointFormat (0..255), SignatureAndHash (all 65536 pairs), ClientAuthType 0..5, x509.KeyUsage 0..1023, every constant of PublicKeyAlgorithm (0..5), SignatureAlgorithm (1..16; 0 = unknown is executed for totality only), CertificateType (0..3), crl.RevocationReasonCode -1..20; non-trivial: value without a registered name",
		Assumptions: []string{
			"values are encoded through a pointer (json.Marshal(&v)): most of these types declare MarshalJSON on the pointer receiver, so encoding a bare non-addressable value would silently use Go's default number encoding, which their UnmarshalJSON does not read",
			"x509.SignatureAlgorithm, PublicKeyAlgorithm and CertificateType are documented to encode unknown values by name only; only their declared constants are in the domain; UnknownSignatureAlgorithm is required by zcrypto's own tests to be rejected by the decoder and is only executed for totality",
		}})
}
