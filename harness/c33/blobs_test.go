package c33

import (
	"bytes"
	"encoding/json"
	"fmt"
	"testing"

	zct "github.com/zmap/zcrypto/ct"
	ztls "github.com/zmap/zcrypto/tls"
	zx509 "github.com/zmap/zcrypto/x509"
	xct "github.com/zmap/zcrypto/x509/ct"
	"pgregory.net/rapid"
	"verifharness/kit"
)

// BlobCase: fingerprints, CT DigitallySigned / SHA256Hash (both CT packages).
type BlobCase struct {
	Kind  string `json:"kind"` // fingerprint | ct-ds | xct-ds | ct-hash | xct-hash
	Bytes []byte `json:"bytes"`
	Hash  int    `json:"hash,omitempty"`
	Sig   int    `json:"sig,omitempty"`
}

func genBlob(t *rapid.T) BlobCase {
	c := BlobCase{Kind: rapid.SampledFrom([]string{"fingerprint", "fingerprint", "ct-ds", "xct-ds", "ct-hash", "xct-hash"}).Draw(t, "kind")}
	switch c.Kind {
	case "fingerprint":
		// the digests zcrypto produces (MD5, SHA-1, SHA-256, SHA-512), the SPKI / TBS fingerprints (32), and odd sizes
		n := rapid.SampledFrom([]int{16, 20, 32, 32, 64, 0, 1, 2, 3, 5, 33}).Draw(t, "len")
		c.Bytes = rapid.SliceOfN(rapid.Byte(), n, n).Draw(t, "fp")
	case "ct-ds", "xct-ds":
		c.Hash = rapid.SampledFrom([]int{0, 1, 2, 3, 4, 4, 5, 6, 7, 255}).Draw(t, "hash")
		c.Sig = rapid.SampledFrom([]int{0, 1, 2, 3, 3, 4, 255}).Draw(t, "sig")
		n := rapid.SampledFrom([]int{0, 1, 64, 71, 72, 256, 300}).Draw(t, "len")
		c.Bytes = rapid.SliceOfN(rapid.Byte(), n, n).Draw(t, "sigbytes")
	default:
		c.Bytes = rapid.SliceOfN(rapid.Byte(), 32, 32).Draw(t, "hashbytes")
	}
	return c
}

func checkBlob(c BlobCase, r *kit.R) {
	r.Class("kind=" + c.Kind)
	switch c.Kind {
	case "fingerprint":
		r.Class(fmt.Sprintf("fingerprint/len=%d", len(c.Bytes)))
		v := zx509.CertificateFingerprint(append([]byte{}, c.Bytes...))
		// CertificateFingerprint has MarshalJSON (hex string) and no UnmarshalJSON: decoding goes
		// through encoding/json's default for []byte, which is base64.
		roundTrip(r, "x509.CertificateFingerprint", &v, func(a, b *zx509.CertificateFingerprint) (string, string) {
			if !bytes.Equal(*a, *b) {
				return "", fmt.Sprintf("fingerprint %x decodes to %x (the hex text is read as base64)", []byte(*a), []byte(*b))
			}
			return "", ""
		})
		if len(c.Bytes) == 0 {
			r.NonTrivial()
		}
	case "ct-ds":
		v := zct.DigitallySigned{HashAlgorithm: zct.HashAlgorithm(c.Hash), SignatureAlgorithm: zct.SignatureAlgorithm(c.Sig), Signature: c.Bytes}
		roundTrip(r, "ct.DigitallySigned", &v, func(a, b *zct.DigitallySigned) (string, string) {
			if a.HashAlgorithm != b.HashAlgorithm || a.SignatureAlgorithm != b.SignatureAlgorithm || !bytes.Equal(a.Signature, b.Signature) {
				return "", fmt.Sprintf("got %+v, want %+v", *b, *a)
			}
			return "", ""
		})
		if len(c.Bytes) == 0 || c.Hash > 6 || c.Sig > 3 {
			r.NonTrivial()
		}
	case "xct-ds":
		v := xct.DigitallySigned{HashAlgorithm: xct.HashAlgorithm(c.Hash), SignatureAlgorithm: xct.SignatureAlgorithm(c.Sig), Signature: c.Bytes}
		roundTrip(r, "x509/ct.DigitallySigned", &v, func(a, b *xct.DigitallySigned) (string, string) {
			if a.HashAlgorithm != b.HashAlgorithm || a.SignatureAlgorithm != b.SignatureAlgorithm || !bytes.Equal(a.Signature, b.Signature) {
				return "", fmt.Sprintf("got %+v, want %+v", *b, *a)
			}
			return "", ""
		})
		if len(c.Bytes) == 0 || c.Hash > 6 || c.Sig > 3 {
			r.NonTrivial()
		}
	case "ct-hash":
		var v zct.SHA256Hash
		copy(v[:], c.Bytes)
		roundTrip(r, "ct.SHA256Hash", &v, eqSimple[zct.SHA256Hash])
	case "xct-hash":
		var v xct.SHA256Hash
		copy(v[:], c.Bytes)
		roundTrip(r, "x509/ct.SHA256Hash", &v, eqSimple[xct.SHA256Hash])
	default:
		r.Failf("harness:case", "unknown kind %q", c.Kind)
	}
}

func TestPropBlobs(t *testing.T) {
	kit.Run(t, kit.Spec[BlobCase]{ID: "C33", Name: "blobs", Gen: genBlob, Check: checkBlob,
		Rule:  "random x509.CertificateFingerprint (16/20/32/64-byte digests and odd lengths), ct.DigitallySigned and x509/ct.DigitallySigned (hash and signature algorithm ids incl. unassigned ones, signatures of 0..300 bytes), ct.SHA256Hash and x509/ct.SHA256Hash; non-trivial: empty value or unassigned algorithm id; distinct by case hash",
		Quick: 600, Thorough: 20000,
		Assumptions: []string{"DigitallySigned.Signature has at most 65535 bytes (RFC 5246 opaque<0..2^16-1>; longer ones are C16's subject)"}})
}

// ---------------------------------------------------------------------------------------
// Observations (not assertions): JSON-encodable zcrypto types that are NOT in the property's
// list.  Their behaviour is recorded as classes in the evidence so that it is visible, but
// nothing here can fail the check.

type ObsCase struct {
	Type string `json:"type"`
}

var obsTypes = []string{"x509.SubjAuthKeyId", "x509.CertValidationLevel", "x509.ExtendedKeyUsageExtension", "tls.KeyShareExtension/nil", "tls.CipherSuiteID/by-value", "ct.SignedCertificateTimestamp"}

func checkObs(c ObsCase, r *kit.R) {
	outcome := "round-trips"
	note := func(s string) { outcome = s }
	g := kit.GuardInline(func() {
		switch c.Type {
		case "x509.SubjAuthKeyId": // MarshalJSON (hex) only
			v := zx509.SubjAuthKeyId{0xde, 0xad, 0xbe, 0xef}
			b, _ := json.Marshal(v)
			var w zx509.SubjAuthKeyId
			if err := json.Unmarshal(b, &w); err != nil {
				note("decode-error")
			} else if !bytes.Equal(v, w) {
				note("decodes-to-different-value")
			}
		case "x509.CertValidationLevel": // MarshalJSON (name) only
			v := zx509.EV
			b, _ := json.Marshal(&v)
			var w zx509.CertValidationLevel
			if err := json.Unmarshal(b, &w); err != nil {
				note("decode-error")
			} else if v != w {
				note("decodes-to-different-value")
			}
		case "x509.ExtendedKeyUsageExtension": // UnmarshalJSON is a stub
			v := zx509.ExtendedKeyUsageExtension{Known: zx509.ExtendedKeyUsage{zx509.ExtKeyUsageServerAuth}}
			b, _ := json.Marshal(&v)
			var w zx509.ExtendedKeyUsageExtension
			if err := json.Unmarshal(b, &w); err != nil {
				note("decode-error")
			} else if len(w.Known) != 1 {
				note("decodes-to-different-value")
			}
		case "ct.SignedCertificateTimestamp": // documented lossy (ms -> s), MarshalJSON only
			v := zct.SignedCertificateTimestamp{Timestamp: 1500000000123}
			b, _ := json.Marshal(&v)
			var w zct.SignedCertificateTimestamp
			if err := json.Unmarshal(b, &w); err != nil {
				note("decode-error")
			} else if w.Timestamp != v.Timestamp {
				note("documented-lossy")
			}
		case "tls.KeyShareExtension/nil": // nil group encodes as null, which decodes to a zero group
			v := ztls.KeyShareExtension{}
			b, _ := json.Marshal(&v)
			w := ztls.KeyShareExtension{}
			if err := json.Unmarshal(b, &w); err != nil {
				note("decode-error")
			} else if w.KeyExchange != nil {
				note("decodes-to-different-value")
			}
		case "tls.CipherSuiteID/by-value": // pointer-receiver MarshalJSON is bypassed for a bare value
			v := ztls.CipherSuiteID(0x002f)
			b, _ := json.Marshal(v)
			var w ztls.CipherSuiteID
			if err := json.Unmarshal(b, &w); err != nil {
				note("decode-error")
			} else if v != w {
				note("decodes-to-different-value")
			}
		default:
			note("not-exercised")
		}
	})
	if g.Panicked {
		outcome = "panic"
	}
	r.Class("observed:" + c.Type + ":" + outcome)
}

func TestPropObservations(t *testing.T) {
	kit.Run(t, kit.Spec[ObsCase]{ID: "C33", Name: "unlisted-types", Check: checkObs,
		Rule: "fixed list of JSON-encodable types outside the property's list; behaviour recorded as classes only (no assertion, never non-trivial)",
		Enum: func(shard, nshards int, yield func(ObsCase) bool) {
			for i, t := range obsTypes {
				if i%nshards == shard && !yield(ObsCase{t}) {
					return
				}
			}
		}})
}
