// Package c33: JSON encodings of zcrypto value types round-trip.
//
// Oracle (the property itself is a round-trip relation, so zcrypto's encoder
// and decoder are played against each other, with Go's encoding/json as the
// transport): for a value v of a listed type
//
//	b1 := json.Marshal(&v)        must not panic, must not fail
//	json.Unmarshal(b1, &w)        must not panic, must not fail
//	equal(v, w)                   type-specific exact equality of the JSON-visible content
//	json.Marshal(&w) == b1        re-encoding is stable
//
// Failure keys: C33:panic:marshal:<type>, C33:panic:unmarshal:<type>,
// C33:encode-error:<type>, C33:decode-error:<type>, C33:roundtrip:<type>[:detail],
// C33:reencode:<type>.
package c33

import (
	"bytes"
	"encoding/json"
	"fmt"

	"verifharness/kit"
)

// roundTrip runs the four steps on *v.  equal returns "" or a short, stable
// description of the first difference (it becomes part of the failure key when
// keyDetail is true, otherwise only of the message).
func roundTrip[T any](r *kit.R, typ string, v *T, equal func(a, b *T) (detail, msg string)) {
	roundTripOpt(r, typ, v, equal, nil)
}

// roundTripOpt: when lenient() (evaluated after the equality step) a differing re-encoding is
// only recorded as a class.  Used where the equality relation is deliberately coarser than the
// Go representation (4- vs 16-byte net.IP, to which an encoder is sensitive) and where a listed
// known finding already explains the difference, so that the rest of the value is still compared.
func roundTripOpt[T any](r *kit.R, typ string, v *T, equal func(a, b *T) (detail, msg string), lenient func() bool) {
	var b1, b2 []byte
	var err error
	g := kit.GuardInline(func() { b1, err = json.Marshal(v) })
	if g.Panicked {
		r.Failf("C33:panic:marshal:"+typ, "json.Marshal(%s) panicked: %v\n%s", typ, g.PanicVal, g.Stack)
	}
	if err != nil {
		r.Failf("C33:encode-error:"+typ, "json.Marshal(%s %+v) failed: %v", typ, *v, err)
	}
	w := new(T)
	g = kit.GuardInline(func() { err = json.Unmarshal(b1, w) })
	if g.Panicked {
		r.Failf("C33:panic:unmarshal:"+typ, "json.Unmarshal into %s panicked on the type's own encoding %s: %v\n%s", typ, clip(b1), g.PanicVal, g.Stack)
	}
	if err != nil {
		r.Failf("C33:decode-error:"+typ, "json.Unmarshal into %s failed on the type's own encoding %s: %v", typ, clip(b1), err)
	}
	if detail, msg := equal(v, w); detail != "" || msg != "" {
		key := "C33:roundtrip:" + typ
		if len(detail) > 0 && detail[0] == '@' {
			// a difference inside an embedded value of another listed type is reported under that type
			key = "C33:roundtrip:" + detail[1:]
		} else if detail != "" {
			key += ":" + detail
		}
		r.Failf(key, "%s does not round-trip: %s; encoding %s", typ, msg, clip(b1))
	}
	g = kit.GuardInline(func() { b2, err = json.Marshal(w) })
	if g.Panicked {
		r.Failf("C33:panic:marshal:"+typ, "json.Marshal of the decoded %s panicked: %v\n%s", typ, g.PanicVal, g.Stack)
	}
	if err != nil {
		r.Failf("C33:encode-error:"+typ, "json.Marshal of the decoded %s failed: %v", typ, err)
	}
	if !bytes.Equal(b1, b2) && lenient != nil && lenient() {
		r.Class("reencode-differs-for-equal-value:" + typ)
		return
	}
	if !bytes.Equal(b1, b2) {
		r.Failf("C33:reencode:"+typ, "%s: encode(decode(encode(v))) differs: %s vs %s", typ, clip(b1), clip(b2))
	}
}

func clip(b []byte) string {
	if len(b) > 600 {
		return string(b[:600]) + "..."
	}
	return string(b)
}

func eqSimple[T comparable](a, b *T) (string, string) {
	if *a != *b {
		return "", fmt.Sprintf("got %v, want %v", *b, *a)
	}
	return "", ""
}
